/-
  Tie for C04: the path of a call as regenerated from bus/client.go, bus/net/endpoint.go,
  bus/server.go, the generated stubs, the stub generator and bus/channel.go is the one of
  Model/Calls.lean.
-/
import QiVerif.Generated.Calls
import QiVerif.Generated.Client
import QiVerif.Generated.Endpoint
import QiVerif.Generated.Auth
import QiVerif.Model.Calls
namespace QiVerif.Tie.C04
open QiVerif.Calls

/-- one id counter for all clients, advanced atomically by two (`IdPolicy.shared`, `nextId`) -/
theorem shared_counter :
    Gen.Calls.messageIDVar = ["var messageID uint32 = 1"] ∧
    Gen.Calls.nextMessageID = ["{ return atomic.AddUint32(&messageID, 2) }"] ∧
    Gen.Calls.newMessage = ["call c.nextMessageID", "call net.NewHeader", "call net.NewMessage",
      "return net.NewMessage(header, payload)"] ∧
    (nextId {} 0).1 = 3 := ⟨rfl, rfl, rfl, rfl⟩

/-- `Call`: the reply handler is keyed on service, object, action and id, is single-shot, and is
    registered before the request is sent (`call`: the record exists before `serve` can run) -/
theorem call_key_and_order :
    (Gen.Client.callFlow.drop 6).take 5 =
      ["if hdr.Service == serviceID && hdr.Object == objectID && hdr.Action == actionID && hdr.ID == messageID {",
       "return true, false", "}", "return false, true", "}"] ∧
    (Gen.Client.callFlow.drop 16).take 4 =
      ["use endpoint", "call c.endpoint.MakeHandler", "use endpoint", "call c.endpoint.Send"] := ⟨rfl, rfl⟩

/-- `dispatch` offers a message to every handler whose filter matches, in one critical section (`deliver`: all `sameKey` handlers) -/
theorem dispatch_offers_to_all_matching :
    (Gen.Endpoint.dispatchFlow.drop 6).take 6 =
      ["range handlers {", "if h == nil {", "}", "call h.filter", "if matched {", "send h.consumer"] := rfl

/-- the server's handler takes everything but reply / error / event / cancelled (`other`: only 6 and 7 arrive) -/
theorem server_filter :
    (Gen.Auth.handleFlow.drop 4).take 6 =
      ["func{",
       "if hdr.Type == net.Reply || hdr.Type == net.Error || hdr.Type == net.Event || hdr.Type == net.Cancelled {",
       "return false, true", "}", "return true, true", "}"] := rfl

/-- the generic object dispatcher, through which every object of a service is reached, runs
    nothing for a message that is neither call nor post (`strayOn = false`), then dispatches on
    the action id; so does every generated `Receive` -/
theorem only_call_and_post_dispatch :
    Gen.Calls.objectReceiveHead =
      ["if msg.Header.Type != net.Call && msg.Header.Type != net.Post { return nil }",
       "from = p.impl.Tracer(msg, from)"] ∧
    Gen.Calls.objectReceiveSwitch = ["switch msg.Header.Action", "default: return p.obj.Receive(msg, from)"] ∧
    Gen.Calls.receiveSwitchTags =
      ["stubServiceZero: msg.Header.Action", "stubObject: msg.Header.Action",
       "stubServiceDirectory: msg.Header.Action", "stubLogProvider: msg.Header.Action",
       "stubLogListener: msg.Header.Action", "stubLogManager: msg.Header.Action",
       "stubPingPong: msg.Header.Action"] := ⟨rfl, rfl, rfl⟩

/-- generated methods: the body runs, then a post returns without a response (`serve`: post ↦ `done`) -/
theorem post_rule_in_generator :
    Gen.Calls.generatorPostRule.head? =
      some "// do not respond to post messages. if msg.Header.Type == net.Post { return nil } if callErr != nil { return c.SendError(msg, callErr) }" := rfl

/-- responses carry the request's service, object, action and id (`serve`: the response has the
    request's key); an error is not reported for a post (`serve`: post ↦ `done`, `responses` unchanged) -/
theorem responses_copy_the_header :
    Gen.Calls.sendReply =
      ["{ hdr := msg.Header hdr.Type = net.Reply reply := net.NewMessage(hdr, response) return c.Send(&reply) }"] ∧
    Gen.Calls.sendError =
      ["{ if msg.Header.Type == net.Post { return nil } hdr := net.NewHeader(net.Error, msg.Header.Service, msg.Header.Object, msg.Header.Action, msg.Header.ID) mError := net.NewMessage(hdr, errorPaylad(err)) return c.Send(&mError) }"] := ⟨rfl, rfl⟩

end QiVerif.Tie.C04
