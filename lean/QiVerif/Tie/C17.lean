/-
  Tie for C17 (also used by C10, C11): the critical sections of bus/net/endpoint.go, as
  regenerated operation sequences, are the atomic actions of Model/Endpoint.lean.
-/
import QiVerif.Generated.Endpoint
import QiVerif.Model.Endpoint
namespace QiVerif.Tie.C17

/-- `MakeHandler`: one critical section; on a closed endpoint the handler's close is scheduled and no
    slot is taken; else the first free slot, else a new slot (`Endpoint.make`, `Endpoint.place`) -/
theorem makeHandler_flow :
    Gen.Endpoint.makeHandlerFlow =
      ["call NewHandler",
         "handlersMutex.Lock",
         "defer e.handlersMutex.Unlock()",
         "use closed",
         "if e.closed {",
         "go{",
         "call newHandler.closeWith",
         "}",
         "return -1",
         "}",
         "range handlers {",
         "if handler == nil {",
         "write handlers",
         "return i",
         "}",
         "}",
         "use handlers",
         "call append",
         "assign handlers",
         "use handlers",
         "return len(e.handlers) - 1"] := rfl

/-- `RemoveHandler`: one critical section; closer and close of the queue run inside it, then the slot is emptied (`Endpoint.remove`) -/
theorem removeHandler_flow :
    Gen.Endpoint.removeHandlerFlow =
      ["handlersMutex.Lock",
         "defer e.handlersMutex.Unlock()",
         "use handlers",
         "read handlers",
         "if id >= 0 && id < len(e.handlers) && e.handlers[id] != nil {",
         "read handlers",
         "call e.handlers[id].closeWith",
         "write handlers",
         "return nil",
         "}",
         "return fmt.Errorf(\"invalid handler id: %d\", id)"] := rfl

/-- `dispatch`: one critical section; filters in slot order, non-blocking send, error reply for a blocked call, synchronous close of a non-keep handler (`Endpoint.dispatchLoop`) -/
theorem dispatch_flow :
    Gen.Endpoint.dispatchFlow =
      ["handlersMutex.Lock",
         "defer e.handlersMutex.Unlock()",
         "use handlers",
         "if len(e.handlers) == 0 {",
         "return ErrNoHandler",
         "}",
         "range handlers {",
         "if h == nil {",
         "}",
         "call h.filter",
         "if matched {",
         "send h.consumer",
         "if ret == ErrNoMatch {",
         "}",
         "if msg.Header.Type == Call {",
         "call e.Send",
         "}",
         "}",
         "if !keep {",
         "call h.closeWith",
         "write handlers",
         "}",
         "}",
         "return ret"] := rfl

/-- `closeWith`: the stream is closed, then in one critical section every slot is emptied and one goroutine per handler is started (`Endpoint.closeAll`, `asyncClose`) -/
theorem closeWith_flow :
    Gen.Endpoint.closeWithFlow =
      ["use stream",
         "call e.stream.Close",
         "handlersMutex.Lock",
         "defer e.handlersMutex.Unlock()",
         "assign closed",
         "range handlers {",
         "if handler != nil {",
         "go{",
         "call handler.closeWith",
         "}",
         "write handlers",
         "}",
         "}",
         "return ret"] := rfl

/-- `Close` is `closeWith(nil)` and nothing before it: the stream is closed before the lock of the handler
    table is asked for, so a dispatch that waits for the peer inside the critical section is ended by it -/
theorem close_flow :
    Gen.Endpoint.closeFlow = ["call e.closeWith", "return e.closeWith(nil)"] := rfl

/-- `process`: read one message, dispatch it, repeat; a read error shuts the endpoint down -/
theorem process_flow :
    Gen.Endpoint.processFlow =
      ["use stream",
         "call msg.Read",
         "if err != nil {",
         "call e.closeWith",
         "return ",
         "}",
         "call e.dispatch",
         "if err != nil {",
         "if msg.Header.Type == Error {",
         "}",
         "else {",
         "}",
         "}"] := rfl

/-- `Send`: one `Message.Write` on the stream -/
theorem send_flow :
    Gen.Endpoint.sendFlow =
      ["use stream",
         "return m.Write(e.stream)"] := rfl

/-- `Handler.closeWith`: the callback, then the close of the queue (`HS.close`) -/
theorem handlerClose_flow :
    Gen.Endpoint.handlerCloseFlow =
      ["use closer",
         "if h.closer != nil {",
         "call h.closer",
         "}",
         "use consumer",
         "call close"] := rfl

end QiVerif.Tie.C17
