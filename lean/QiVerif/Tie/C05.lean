/-
  Tie for C05: the constructors of the basic types render the `basic` function of the width the
  model gives them; the statement generators of lists, maps, tuples and structs, and the bodies of
  the stub methods, signal and property helpers, property callback, proxy methods, subscribers and
  accessors have the shapes the model was written from (Model/GenShapes.lean).
-/
import QiVerif.Generated.GenTypes
import QiVerif.Generated.Basic
import QiVerif.Model.Gen
import QiVerif.Model.GenShapes
import QiVerif.Model.Names
namespace QiVerif.Tie.C05
open QiVerif.Gen

/-- the constructors of the basic types, in the order of the source -/
theorem basic_constructors : Gen.GenTypes.scalars = basicRows.map (fun r => (r.2.1, r.2.2.1, r.2.2.2.1, r.2.2.2.2.1, r.2.2.2.2.2)) := by
  decide

/-- the fixed-width scalars of the model are exactly the constructors whose marshal and unmarshal
    call the same fixed-width function of type/basic -/
theorem scalar_functions :
    basicRows.filterMap (fun r => match fnOfName r.2.2.2.2.1, fnOfName r.2.2.2.2.2 with
      | some a, some b => if a = b then some (r.1, a) else none
      | _, _ => none) = scalarFns := by decide

def widthOfRow (rows : List (String × String × String × String)) (r : String × String × String × String) : Option Nat :=
  let direct : String → Option Nat := fun w => match w with | "1" => some 1 | "2" => some 2 | "4" => some 4 | "8" => some 8 | _ => none
  match direct r.2.1 with
  | some w => some w
  | none => match rows.find? (·.1 == r.2.2.2) with
    | some d => direct d.2.1
    | none => none

/-- the widths of the functions of type/basic (type/basic/basic.go), the delegating ones
    (`WriteInt8` → `WriteUint8` …) resolved -/
theorem basic_widths :
    (Gen.Basic.fixedWidth.filterMap (fun r => if r.1 == "ReadString" || r.1 == "WriteString" then none
        else (widthOfRow Gen.Basic.fixedWidth r).map (fun w => (r.1, w)))) = basicWidths := by decide

/-- … agree with the number of bytes the model writes for that function -/
theorem widths_agree : ∀ p ∈ basicWidths, (fnOfName p.1).map BasicFn.bytes = some p.2 := by decide

theorem shape_listTypeMarshal : Gen.GenTypes.listTypeMarshal = GenShapes.listTypeMarshal := rfl
theorem shape_listTypeUnmarshal : Gen.GenTypes.listTypeUnmarshal = GenShapes.listTypeUnmarshal := rfl
theorem shape_mapTypeMarshal : Gen.GenTypes.mapTypeMarshal = GenShapes.mapTypeMarshal := rfl
theorem shape_mapTypeUnmarshal : Gen.GenTypes.mapTypeUnmarshal = GenShapes.mapTypeUnmarshal := rfl
theorem shape_tupleTypeMarshal : Gen.GenTypes.tupleTypeMarshal = GenShapes.tupleTypeMarshal := rfl
theorem shape_tupleTypeUnmarshal : Gen.GenTypes.tupleTypeUnmarshal = GenShapes.tupleTypeUnmarshal := rfl
theorem shape_structTypeTypeDeclaration : Gen.GenTypes.structTypeTypeDeclaration = GenShapes.structTypeTypeDeclaration := rfl
theorem shape_structTypeMarshal : Gen.GenTypes.structTypeMarshal = GenShapes.structTypeMarshal := rfl
theorem shape_structTypeUnmarshal : Gen.GenTypes.structTypeUnmarshal = GenShapes.structTypeUnmarshal := rfl
theorem shape_enumTypeMarshal : Gen.GenTypes.enumTypeMarshal = GenShapes.enumTypeMarshal := rfl
theorem shape_enumTypeUnmarshal : Gen.GenTypes.enumTypeUnmarshal = GenShapes.enumTypeUnmarshal := rfl
theorem shape_stub_methodBodyBlock : Gen.GenTypes.stub_methodBodyBlock = GenShapes.stub_methodBodyBlock := rfl
theorem shape_stub_signalBodyBlock : Gen.GenTypes.stub_signalBodyBlock = GenShapes.stub_signalBodyBlock := rfl
theorem shape_stub_propertyBodyBlock : Gen.GenTypes.stub_propertyBodyBlock = GenShapes.stub_propertyBodyBlock := rfl
theorem shape_stub_generateStubPropertyCallback : Gen.GenTypes.stub_generateStubPropertyCallback = GenShapes.stub_generateStubPropertyCallback := rfl
theorem shape_proxy_methodBodyBlock2 : Gen.GenTypes.proxy_methodBodyBlock2 = GenShapes.proxy_methodBodyBlock2 := rfl
theorem shape_proxy_generateSubscribe : Gen.GenTypes.proxy_generateSubscribe = GenShapes.proxy_generateSubscribe := rfl
theorem shape_proxy_generatePropertyGet : Gen.GenTypes.proxy_generatePropertyGet = GenShapes.proxy_generatePropertyGet := rfl
theorem shape_proxy_generatePropertySet : Gen.GenTypes.proxy_generatePropertySet = GenShapes.proxy_generatePropertySet := rfl
theorem shape_idl_MethodTuple : Gen.GenTypes.idl_MethodTuple = GenShapes.idl_MethodTuple := rfl
theorem shape_idl_MethodType : Gen.GenTypes.idl_MethodType = GenShapes.idl_MethodType := rfl
theorem shape_idl_SignalTuple : Gen.GenTypes.idl_SignalTuple = GenShapes.idl_SignalTuple := rfl
theorem shape_idl_SignalType : Gen.GenTypes.idl_SignalType = GenShapes.idl_SignalType := rfl
theorem shape_idl_PropertyTuple : Gen.GenTypes.idl_PropertyTuple = GenShapes.idl_PropertyTuple := rfl
theorem shape_idl_PropertyType : Gen.GenTypes.idl_PropertyType = GenShapes.idl_PropertyType := rfl
theorem shape_name_reservedMethods : Gen.GenTypes.name_reservedMethods = GenShapes.name_reservedMethods := rfl
theorem shape_name_keywords : Gen.GenTypes.name_keywords = GenShapes.name_keywords := rfl
theorem shape_name_ValidName : Gen.GenTypes.name_ValidName = GenShapes.name_ValidName := rfl
theorem shape_name_CleanName : Gen.GenTypes.name_CleanName = GenShapes.name_CleanName := rfl
theorem shape_name_CleanMethodName : Gen.GenTypes.name_CleanMethodName = GenShapes.name_CleanMethodName := rfl
theorem shape_name_CleanVarName : Gen.GenTypes.name_CleanVarName = GenShapes.name_CleanVarName := rfl
theorem shape_registerName : Gen.GenTypes.registerName = GenShapes.registerName := rfl
theorem shape_forEach : Gen.GenTypes.forEach = GenShapes.forEach := rfl

theorem shape_objectProxyMethods : Gen.GenTypes.objectProxyMethods = GenShapes.objectProxyMethods := rfl
theorem shape_objectMethods : Gen.GenTypes.objectMethods = GenShapes.objectMethods := rfl

/-- `reservedMethods` of meta/signature/name.go -/
theorem reserved_names : Gen.GenTypes.name_reservedMethods.map String.toList = Names.reserved := by decide

/-- the methods of bus.ObjectProxy (bus/object_stub_gen.go) with the embedded object.Object
    (type/object/object.go), and the `WithContext` the generator adds -/
theorem embedded_names :
    ((Gen.GenTypes.objectProxyMethods.flatMap (fun m => if m == "embed object.Object" then Gen.GenTypes.objectMethods else [m]))
      ++ ["WithContext"]).map String.toList = Names.embedded := by decide

end QiVerif.Tie.C05
