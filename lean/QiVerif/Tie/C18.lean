/-
  Tie for C18: the atoms of the IDL type grammar and the names the printers write.
-/
import QiVerif.Generated.IdlGrammar
import QiVerif.Model.Idl
namespace QiVerif.Tie.C18
open QiVerif.Idl

/-- the keywords of `basicType()` — tokens ending at a word boundary (checked by the extractor) — in the order of its ordered choice -/
theorem basic_atoms : Gen.IdlGrammar.basicAtomBytes = keywords := by rfl

/-- `typeParser` tries: basic, map, tuple, vec, reference (`parseT`) -/
theorem type_alternatives :
    Gen.IdlGrammar.typeAlternatives = ["basicType()", "mapType(ctx)", "tupleType(ctx)", "vecType(ctx)", "referenceType(ctx)"] := rfl

/-- the shapes of the composite types: `Map<` T `,` T `>`, `Tuple<` Kleene(T, `,`) `>`, `Vec<` T `>` -/
theorem composite_shapes :
    Gen.IdlGrammar.mapShape = ["Atom Map<", "ctx.typeParser", "Atom ,", "ctx.typeParser", "Atom >"] ∧
    Gen.IdlGrammar.tupleShape = ["Atom Tuple<", "Kleene(ctx.typeParser sep Atom ,)", "Atom >"] ∧
    Gen.IdlGrammar.vecShape = ["Atom Vec<", "ctx.typeParser", "Atom >"] := ⟨rfl, rfl, rfl⟩

/-- the two regular expressions of `typeIdent()`, the template form first (`typeIdent`) -/
theorem type_ident_patterns :
    Gen.IdlGrammar.typeIdentPatterns = ["[_A-Za-z][0-9a-zA-Z_]*<[0-9a-zA-Z_]*>", "[_A-Za-z][0-9a-zA-Z_]*"] := rfl

/-- what the printers write (`printT`): the keyword of each basic type, `Vec<%s>`, `Map<%s,%s>`, `Tuple<%s>`, a struct's name -/
theorem printer_formats :
    Gen.IdlGrammar.printerFormats = ["Vec<%s>", "Map<%s,%s>", "Tuple<%s>"] ∧
    Gen.IdlGrammar.basicIDLNames =
      ["int8", "uint8", "int16", "uint16", "int32", "uint32", "int64", "uint64", "float32", "float64", "str", "nothing", "any",
       "bool", "MetaObject", "obj", "unknown"] := ⟨rfl, rfl⟩

end QiVerif.Tie.C18
