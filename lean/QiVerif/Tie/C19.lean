/-
  Tie for C19: the token list regenerated from `(*Session).client` compiles to
  exactly the program the theorems of Props/C19.lean are about.
-/
import QiVerif.Generated.Session
import QiVerif.Model.Session
import QiVerif.Generated.Queues
import QiVerif.Model.Flood
namespace QiVerif.Tie.C19
open QiVerif.Session

theorem client_tokens : Gen.Session.clientTokens = expectedTokens := by decide

/-- the model program *is* the translation of the function body -/
theorem client_program : compile Gen.Session.clientTokens = prog := by decide

/-- the endpoint's closer removes the entry under the write lock -/
theorem closer_tokens : Gen.Session.closerTokens = ["Lock", "delete", "Unlock"] := by decide

/-- the queue capacities and the non-blocking send of `dispatch` are those of Model/Flood.lean -/
theorem queues_tied :
    Gen.Queues.channels = ["handle: make(chan *net.Message, 10)", "NewMailBox: make(chan Mail, 10)"] ∧
    Gen.Queues.dispatchSelect = ["h.consumer <- msg", "default"] ∧
    Flood.consumerCap = 10 ∧ Flood.mailboxCap = 10 := ⟨rfl, rfl, rfl, rfl⟩

/-- the refreshes of the service list (`C19Refresh.step`): `updateLoop` answers an announcement by calling
    `updateServiceList` itself — no goroutine: one refresh at a time, in the order of the announcements —, which
    fetches the list and then stores it under the list's lock -/
theorem refresh_flows :
    Gen.Session.updateLoopFlow =
      ["recv s.removed", "use removed", "if !ok {", "return ", "}", "call s.updateServiceList",
       "recv s.added", "use added", "if !ok {", "return ", "}", "call s.updateServiceList"] ∧
    Gen.Session.updateServiceListFlow =
      ["call s.Directory.Services", "if err != nil {", "call s.Terminate", "if err != nil {", "}", "}",
       "serviceListMutex.Lock", "assign serviceList", "serviceListMutex.Unlock"] := by decide

end QiVerif.Tie.C19
