/-
  `clientService.Add`, `Remove` and `Terminate` (bus/service_reference.go), token by token, as the extractor finds them
  now.  What Model/ClientObjects.lean assumes of them is read off these lists: the identifier comes from the counter
  `nextID`, read and incremented under `nextIDMutex` and refused past 2^31 - 1; the table `objectsHandlers` is written
  once, at the end of `Add`, under `objectsMutex`; `Remove` reads and deletes the entry under the write lock, answers an
  unknown identifier with an error, and removes the handler after the unlock; `Terminate` copies the identifiers under
  the read lock and calls `Remove` for each after releasing it.
-/
import QiVerif.Generated.Service
namespace QiVerif.Tie.ClientService
open QiVerif

theorem add_flow :
    Gen.Service.clientAddFlow =
    ["nextIDMutex.Lock",
     "use nextID",
     "if c.nextID > (1<<31)-1 {",
     "nextIDMutex.Unlock",
     "call fmt.Errorf",
     "return 0, fmt.Errorf(\"object ID overflow\")",
     "}",
     "use nextID",
     "assign nextID",
     "nextIDMutex.Unlock",
     "func{",
     "call c.Remove",
     "}",
     "call obj.Activate",
     "func{",
     "if hdr.Service == c.serviceID && hdr.Object == id {",
     "return true, true",
     "}",
     "return false, true",
     "}",
     "go{",
     "func{",
     "range {",
     "}",
     "}",
     "}",
     "func{",
     "call obj.OnTerminate",
     "}",
     "objectsMutex.Lock",
     "defer c.objectsMutex.Unlock()",
     "call c.context.EndPoint().MakeHandler",
     "write objectsHandlers",
     "return id, nil"] := by decide

theorem remove_flow :
    Gen.Service.clientRemoveFlow =
    ["objectsMutex.Lock",
     "read objectsHandlers",
     "if !ok {",
     "objectsMutex.Unlock",
     "call fmt.Errorf",
     "return fmt.Errorf(\"cannot remove unkown object …",
     "}",
     "delete objectsHandlers",
     "objectsMutex.Unlock",
     "call c.context.EndPoint().RemoveHandler",
     "return c.context.EndPoint().RemoveHandler(handl…"] := by decide

theorem terminate_flow :
    Gen.Service.clientTerminateFlow =
    ["objectsMutex.RLock",
     "use objectsHandlers",
     "range objectsHandlers {",
     "}",
     "objectsMutex.RUnlock",
     "range {",
     "call c.Remove",
     "if err != nil {",
     "return err",
     "}",
     "}",
     "return nil"] := by decide

end QiVerif.Tie.ClientService
