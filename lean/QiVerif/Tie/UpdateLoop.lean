/-
  Tie of Model/UpdateLoop.lean to bus/signal.go `UpdateSignal` (regenerated facts: Generated/Signals.lean).
-/
import QiVerif.Generated.Signals
import QiVerif.Model.UpdateLoop
namespace QiVerif.Tie.UpdateLoop
open QiVerif

/-- the loop of `UpdateSignal` as transcribed in Model/UpdateLoop.lean: no `return`, `break` or `continue` inside it -/
theorem update_loop_flow :
    Gen.Signals.UpdateSignalFlow.drop 7 =
      ["range {", "call o.replyEvent", "if err == io.EOF {", "call o.removeSignalUser", "if err != nil && ret == nil {",
       "}", "}", "else {", "if err != nil {", "}", "}", "}", "return ret"] := rfl

end QiVerif.Tie.UpdateLoop
