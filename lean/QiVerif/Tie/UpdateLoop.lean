/-
  Tie of Model/UpdateLoop.lean to bus/signal.go `UpdateSignal` (regenerated facts: Generated/Signals.lean).
-/
import QiVerif.Generated.Signals
import QiVerif.Model.UpdateLoop
namespace QiVerif.Tie.UpdateLoop
open QiVerif

/-- the loop of `UpdateSignal` as transcribed in Model/UpdateLoop.lean: no `return`, `break` or `continue` inside it -/
theorem update_loop_flow :
    Gen.Signals.UpdateSignalFlow.drop 7 =
      ["range {", "call o.replyEvent", "if err == io.EOF {", "call o.removeSignalUser", "if err != nil && ret == nil {",
       "}", "}", "else {", "if err != nil {", "}", "}", "}", "return ret"] := rfl

/-- `OnTerminate` of the signal handler: the list of subscribers is taken and replaced by a new one under the lock
    (one read of the field, one assignment whose right-hand side does not read it), then every subscriber of the taken
    list is told and its watcher removed — what Props/C16 `remove_tells_subscribers` says of the model -/
theorem on_terminate_flow :
    Gen.Signals.OnTerminateFlow =
      ["signalsMutex.Lock", "use signals", "assign signals", "signalsMutex.Unlock", "range {", "call o.sendTerminate",
       "call user.context.EndPoint().RemoveHandler", "}"] := rfl

end QiVerif.Tie.UpdateLoop
