/-
  Tie for the type set of C18: `TypeSet.Search`, `ResolveCollision`, the `RegisterTo` of lists, maps,
  tuples and structs, the order of the steps of `generateMethod` / `generateSignal` / `generateProperty` /
  `GenerateIDL`, and `CleanVarName` — as extracted from meta/signature/type.go, name.go and meta/idl/idl.go —
  are what Props/C18TypeSet.lean (tsFind, resolveLoop, reg, regAction, genItfs, structBlocks, cleanVarName,
  methodAction …) is written after.
-/
import QiVerif.Generated.IdlPackage
import QiVerif.Props.C18TypeSet
namespace QiVerif.Tie.C18TypeSet
open QiVerif.C18

/-- `Search`: the first entry of that name (`tsFind`) -/
theorem search_flow :
    Gen.IdlPackage.typeSetSearchFlow = ["range Names {", "if n == name {", "read Types", "return s.Types[i]", "}", "}", "return nil"] := rfl

/-- `ResolveCollision` (`resolveLoop`): a hundred rounds; the name if nothing has it or what has it has the same
    signature, else the original name with the number of the round; the name of despair at the end -/
theorem resolve_collision :
    Gen.IdlPackage.resolveCollisionLoop =
      ["name := originalName", "for i := 0; i < 100; i++", "name = fmt.Sprintf(\"%s_%d\", originalName, i)"] ∧
    Gen.IdlPackage.resolveCollisionFlow =
      ["range Names {", "if n == name {", "read Types", "call s.Types[i].Signature", "if s.Types[i].Signature() == signature {",
       "return name", "}", "}", "}", "if ok {", "return name", "}", "call fmt.Sprintf",
       "return \"can_not_register_name_\" + originalName"] := ⟨rfl, rfl⟩

/-- `RegisterTo` (`reg`, `regL`, `regM`): a list its element, a map its key then its value, a tuple its members in
    order; a struct its members first, then its name is resolved against its signature and it is added when
    nothing has that name -/
theorem register_flows :
    Gen.IdlPackage.registerToListTypeFlow = ["use value", "call l.value.RegisterTo", "return "] ∧
    Gen.IdlPackage.registerToMapTypeFlow = ["use key", "call m.key.RegisterTo", "use value", "call m.value.RegisterTo", "return "] ∧
    Gen.IdlPackage.registerToTupleTypeFlow = ["range Members {", "call m.Type.RegisterTo", "}", "return "] ∧
    Gen.IdlPackage.registerToStructTypeFlow =
      ["range Members {", "call v.Type.RegisterTo", "}", "use Name", "call s.Signature", "call set.ResolveCollision", "assign Name",
       "use Name", "call set.Search", "if set.Search(s.Name) == nil {", "use Name", "}"] := ⟨rfl, rfl, rfl, rfl⟩

/-- the three kinds of action (`regAction`, then the printers): the types are registered before the line is
    written — for a method the parameters, then the returned type -/
theorem action_flows :
    Gen.IdlPackage.generateMethodFlow =
      ["call signature.Parse", "if err != nil {", "return fmt.Errorf(\"parse parms of %s: %s\", m.Na…", "}", "call signature.Parse",
       "if err != nil {", "return fmt.Errorf(\"parse return of %s: %s\", m.N…", "}", "if !ok {", "call signature.NewTupleType", "}",
       "call paramType.RegisterTo", "call retType.RegisterTo",
       "if m.Parameters == nil || len(m.Parameters) != len(tupleType.Members) {", "call tupleType.ParamIDL", "}", "else {", "range {",
       "if paramSignature != \"\" {", "}", "call signature.CleanVarName", "call tupleType.Members[i].Type.SignatureIDL", "}", "}",
       "call retType.SignatureIDL", "call retType.Signature", "if retType.Signature() == \"v\" {", "}", "call fmt.Fprintf", "return nil"] ∧
    Gen.IdlPackage.generatePropertyFlow =
      ["call signature.Parse", "if err != nil {", "return fmt.Errorf(\"parse property of %s: %s\", p…", "}", "call propertyType.RegisterTo",
       "if !ok {", "}", "call tupleType.ParamIDL", "call fmt.Fprintf", "return nil"] ∧
    Gen.IdlPackage.generateSignalFlow =
      ["call signature.Parse", "if err != nil {", "return fmt.Errorf(\"parse signal of %s: %s\", s.N…", "}", "call signalType.RegisterTo",
       "if !ok {", "call signature.NewTupleType", "}", "call tupleType.ParamIDL", "call fmt.Fprintf", "return nil"] := ⟨rfl, rfl, rfl⟩

/-- `GenerateIDL` (`genItfs`, `structBlocks`): per object the name is resolved against "o" and registered, the header
    is written, the actions in the order of `ForEachMethodAndSignal`, `end`; the struct blocks of the set at the end -/
theorem generate_flow :
    Gen.IdlPackage.generateIDLFlow =
      ["call signature.NewTypeSet", "call fmt.Fprintf", "call NewScope", "range {", "call set.ResolveCollision", "use Types",
       "call NewRefType", "assign Types", "use Names", "assign Names", "call fmt.Fprintf", "func{", "call generateMethod",
       "return generateMethod(writer, set, m, methodNam…", "}", "func{", "call generateSignal",
       "return generateSignal(writer, set, s, \"Subscrib…", "}", "func{", "call generateProperty",
       "return generateProperty(writer, set, p, propert…", "}", "call meta.ForEachMethodAndSignal", "if err != nil {",
       "return fmt.Errorf(\"generate proxy object %s: %s…", "}", "call fmt.Fprintf", "}", "call generateStructures", "if err != nil {",
       "return fmt.Errorf(\"generate structures: %s\", er…", "}", "return nil"] ∧
    Gen.IdlPackage.generateStructuresFlow = ["range Types {", "if ok {", "call generateStructure", "}", "}", "return nil"] ∧
    -- a struct block (`printStruct`): the header, per member its name as it is and `SignatureIDL()` of its type, `end`
    Gen.IdlPackage.generateStructureFlow =
      ["call fmt.Fprintf", "range {", "call mem.Type.SignatureIDL", "call fmt.Fprintf", "}", "call fmt.Fprintf", "return nil"] := ⟨rfl, rfl, rfl⟩

/-- `CleanVarName` (`cleanVarName`) and the keywords it steps around (`goKeywords`) -/
theorem clean_var_name :
    Gen.IdlPackage.cleanVarNameFlow =
      ["if name == \"\" {", "call fmt.Sprintf", "return fmt.Sprintf(\"P%d\", i)", "}", "call ValidName", "range {", "if name == keyword {",
       "call fmt.Sprintf", "return fmt.Sprintf(\"%s_%d\", name, i)", "}", "}", "return name"] ∧
    Gen.IdlPackage.validNameLiterals = ["[^_a-zA-Z0-9]+", ""] ∧
    Gen.IdlPackage.goKeywordBytes = goKeywords := ⟨rfl, rfl, by rfl⟩

/-- the literals: the numbered name, the name of despair, the positional names of tuple members, `param` -/
theorem literals :
    Gen.IdlPackage.typeSetLiterals =
      ["ResolveCollision: %s_%d", "ResolveCollision: can_not_register_name_", "NewTupleType: P%d",
       "generateProperty: parse property of %s: %s", "generateProperty: param", "generateProperty: \tprop %s(%s) //uid:%d\n",
       "CleanVarName: ", "CleanVarName: P%d", "CleanVarName: %s_%d"] := rfl

end QiVerif.Tie.C18TypeSet
