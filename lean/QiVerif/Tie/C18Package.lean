/-
  Tie for the package level of C18: the shapes of the parsers above the type layer, the literals
  they match, what `GenerateIDL` writes, the scope and the references — as extracted from
  meta/idl/parser.go, idl.go, scope.go, ref.go, interface.go and meta/signature/type.go — are the
  ones Model/IdlLines.lean, Model/IdlPackage.lean and Model/IdlScope.lean are written after.
-/
import QiVerif.Generated.IdlPackage
import QiVerif.Model.IdlPackage
namespace QiVerif.Tie.C18Package
open QiVerif.Idl

/-- the literals: `struct` … `end`, `enum` … `end`, `interface` … `end`, `package`, `fn ( )`, `sig ( )`,
    `prop ( )`, `->`, `//`, `:` (parameter, member), `=`, `,` -/
theorem literals :
    Gen.IdlPackage.atomBytes =
      [kwStruct, kwEnd, kwEnum, kwEnd, kwInterface, kwEnd, kwPackage, kwFn, [40], [41], kwSig, [40], [41], kwProp, [40], [41],
       [45, 62], [47, 47], [58], [58], [61], [comma]] := by rfl

/-- an action line (`parseActionOf`, `parseAction`): keyword, name, `(`, parameters, `)`, for a method the
    returned type, the comment; method, signal, property in this order -/
theorem action_shapes :
    Gen.IdlPackage.methodShape = ["And(Atom fn; ident(); Atom (; parameters(ctx); Atom ); returns(ctx); comments())"] ∧
    Gen.IdlPackage.signalShape = ["And(Atom sig; ident(); Atom (; parameters(ctx); Atom ); comments())"] ∧
    Gen.IdlPackage.propertyShape = ["And(Atom prop; ident(); Atom (; parameters(ctx); Atom ); comments())"] ∧
    Gen.IdlPackage.actionShape = ["OrdChoice(method(ctx); signal(ctx); property(ctx))"] := ⟨rfl, rfl, rfl, rfl⟩

/-- the pieces of a line (`parseParam`, `parseParams`, `parseReturns`, `parseComment`, `ident`) -/
theorem line_shapes :
    Gen.IdlPackage.parameterShape = ["And(ident(); Atom :; ctx.typeParser)"] ∧
    Gen.IdlPackage.parametersShape = ["And(Maybe(Many(parameter(ctx); Atom ,)))"] ∧
    Gen.IdlPackage.returnsShape = ["And(Maybe(And(Atom ->; ctx.typeParser)))"] ∧
    Gen.IdlPackage.commentsShape = ["And(Maybe(And(Atom //; Token .*)))"] ∧
    Gen.IdlPackage.identShape = ["Token [_A-Za-z][0-9a-zA-Z_]*"] ∧
    Gen.IdlPackage.referenceTypeShape = ["And(typeIdent())"] := ⟨rfl, rfl, rfl, rfl, rfl, rfl⟩

/-- the uid is what `Sscanf("uid:%d")` reads from the comment, else the comment is text (`scanUid`) -/
theorem comment_content :
    Gen.IdlPackage.commentContentFlow = ["call fmt.Sscanf", "if err == nil {", "return uid", "}", "return comment"] := rfl

/-- the blocks (`parseMember`, `parseStruct`, `parseEnumConst`, `parseEnum`, `parseInterface`) -/
theorem block_shapes :
    Gen.IdlPackage.memberShape = ["And(ident(); Atom :; ctx.typeParser; comments())"] ∧
    Gen.IdlPackage.structureShape = ["And(Atom struct; typeIdent(); comments(); Kleene(member(ctx)); Atom end; comments())"] ∧
    Gen.IdlPackage.constValueShape = ["parsec.Int()"] ∧
    Gen.IdlPackage.enumConstShape = ["And(ident(); Atom =; constValue(); comments())"] ∧
    Gen.IdlPackage.enumShape = ["And(Atom enum; ident(); comments(); Kleene(enumConst()); Atom end; comments())"] ∧
    Gen.IdlPackage.interfaceParserShape =
      ["And(Atom interface; ident(); comments(); Kleene(action(ctx)); Atom end; comments())"] := ⟨rfl, rfl, rfl, rfl, rfl, rfl⟩

/-- the package (`parseDecl`, `parseDecls`, `parsePackageName`, `parsePackage`): struct, enum, interface in
    this order; any number of declarations; an optional header; nothing but white space may be left -/
theorem package_shapes :
    Gen.IdlPackage.declarationShape = ["OrdChoice(structure(ctx); enum(); interfaceParser(ctx))"] ∧
    Gen.IdlPackage.declarationsListShape = ["Kleene(declaration(ctx))"] ∧
    Gen.IdlPackage.packageNameShape = ["And(Maybe(And(Atom package; Token [_A-Za-z][0-9a-zA-Z-._]*; comments())))"] ∧
    Gen.IdlPackage.packageParserShape = ["And(packageName(); declarationsList(ctx))"] ∧
    Gen.IdlPackage.parsePackageFlow.take 6 =
      ["call parser", "call scanner.SkipWS", "call scanner.Endof", "if !scanner.Endof() {",
       "return nil, fmt.Errorf(\"parsing error at line: %d\", …", "}"] := ⟨rfl, rfl, rfl, rfl, rfl⟩

/-- a block enters the scope when it is complete; every reference in the text is an object of its own
    (`scopeOfDecls`, the node identities of Model/IdlScope.lean) -/
theorem scope_entries :
    Gen.IdlPackage.makeNodifyStructureFlow.drop 4 = ["call sc.Add", "return structType", "}", "return func(nodes []signature.Node) signature.N…"] ∧
    Gen.IdlPackage.makeNodifyInterfaceFlow.drop 4 = ["call sc.Add", "return itf", "}", "return func(nodes []signature.Node) signature.N…"] ∧
    Gen.IdlPackage.makeNodifyTypeReferenceFlow =
      ["func{", "call NewRefType", "return NewRefType(typeName, sc)", "}", "return func(nodes []signature.Node) signature.N…"] := ⟨rfl, rfl, rfl⟩

/-- `nodifyActionList` (`assignIds`): an action without uid gets the next custom id, `registerEvent` keeps 0 -/
theorem action_list :
    Gen.IdlPackage.actionListFlow =
      ["range {", "if ok {", "return err", "}", "if ok {", "if method.ID == 0 && method.Name != \"registerEvent\" {", "}", "}",
       "else {", "if ok {", "if signal.ID == 0 {", "}", "}", "else {", "if ok {", "if property.ID == 0 {", "}", "}", "else {",
       "return fmt.Errorf(\"Expecting action, got %+v: %…", "}", "}", "}", "}", "return &itf"] := rfl

/-- what `GenerateIDL` writes (`printAction`, `printStruct`, `printInterface`, `printPkg`) -/
theorem printers :
    Gen.IdlPackage.generateMethodFormats = ["\tfn %s(%s) %s//uid:%d\n"] ∧
    Gen.IdlPackage.generatePropertyFormats = ["\tprop %s(%s) //uid:%d\n"] ∧
    Gen.IdlPackage.generateSignalFormats = ["\tsig %s(%s) //uid:%d\n"] ∧
    Gen.IdlPackage.generateStructureFormats = ["struct %s\n", "\t%s: %s\n", "end\n"] ∧
    Gen.IdlPackage.generateIDLFormats = ["package %s\n", "interface %s\n", "end\n"] := ⟨rfl, rfl, rfl, rfl, rfl⟩

/-- `Add` keeps the first declaration of a name; `Search` of a name without a dot looks it up (`findAt`) -/
theorem scope_flows :
    Gen.IdlPackage.scopeAddFlow =
      ["read local", "if !ok {", "write local", "return nil", "}", "call fmt.Errorf", "return fmt.Errorf(\"already present in scope: %s…"] ∧
    Gen.IdlPackage.scopesearchLocalFlow =
      ["read local", "if ok {", "return t, nil", "}", "call fmt.Errorf", "return nil, fmt.Errorf(\"not found in scope: %s\", nam…"] ∧
    Gen.IdlPackage.scopeSearchFlow =
      ["call strings.SplitN", "if len(split) > 1 {", "call s.searchGlobal", "return s.searchGlobal(split[0], split[1])", "}",
       "call s.searchLocal", "return s.searchLocal(name)"] := ⟨rfl, rfl, rfl⟩

/-- a reference (`expandAt`): looked up first; met again while it is being visited, it is an error; else its flag is
    set for the time of the visit; `Signature` and `Type` go through `visit` and reset the flag when they return; an
    error becomes the name of an empty struct (`errSig`) -/
theorem reference_flows :
    Gen.IdlPackage.refvisitFlow =
      ["use Name", "use Scope", "call r.Scope.Search", "if err != nil {", "return nil, err", "}", "use resolving", "if r.resolving {",
       "use Name", "call fmt.Errorf", "return nil, fmt.Errorf(\"recursive type definition: %…", "}", "assign resolving", "return t, nil"] ∧
    Gen.IdlPackage.refleaveFlow = ["assign resolving"] ∧
    Gen.IdlPackage.refSignatureFlow =
      ["call r.visit", "if err == nil {", "defer r.leave()", "call t.Signature", "return t.Signature()", "}",
       "call signature.NewStructType", "call signature.NewStructType(err.Error(), nil).Signature",
       "return signature.NewStructType(err.Error(), nil…"] ∧
    Gen.IdlPackage.refTypeFlow =
      ["call r.visit", "if err == nil {", "defer r.leave()", "call t.Type", "return t.Type()", "}",
       "return reflect.TypeOf((*error)(nil))"] := ⟨rfl, rfl, rfl, rfl⟩

/-- the two error names -/
theorem error_messages : Gen.IdlPackage.errorMessageBytes = [msgRecursive, msgNotFound] := by rfl

/-- `StructType.Signature` (`structSig`): "()<name>" without members, else "(members)<name,fields>"; an interface is "o" -/
theorem signatures :
    Gen.IdlPackage.structSignatureFormats = ["()<%s>", "(%s)<%s,%s>"] ∧
    Gen.IdlPackage.structSignatureFlow =
      ["use Members", "if len(s.Members) == 0 {", "use Name", "return fmt.Sprintf(\"()<%s>\", s.Name)", "}", "use Members",
       "range Members {", "call v.Type.Signature", "}", "use Name", "call strings.Join",
       "return fmt.Sprintf(\"(%s)<%s,%s>\", types, s.Name…"] ∧
    Gen.IdlPackage.interfaceSignatureFlow = ["return \"o\""] := ⟨rfl, rfl, rfl⟩

end QiVerif.Tie.C18Package
