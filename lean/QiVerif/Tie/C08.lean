/-
  Tie for C08: the decoders the truncation theorems are about are the ones tied
  to the source under C01 (ReadN, Message.Read), C02 (value.go, reader.go) and
  C03 (encoding.go).  The facts that matter most for truncation are restated.
-/
import QiVerif.Tie.C01
import QiVerif.Tie.C02
import QiVerif.Tie.C03
namespace QiVerif.Tie.C08

/-- a short read is an error in `basic.ReadN` (every decoder reads through it) -/
theorem readN_reports_short_reads :
    Gen.Basic.readN =
      ["for size < length", "call r.Read(buf[size:])", "if err == nil && read != 0", "continue",
       "if err == io.EOF && size == length", "break", "if err == io.EOF && size == 0",
       "return io.EOF", "if err == nil", "return error", "return nil"] := Tie.C01.readN_loop

/-- no reader swallows the error of the read it performs -/
theorem string_reader_keeps_error :
    Gen.Reader.stringReaderFlow =
      ["call basic.ReadString", "if err != nil {", "return nil, err", "}", "call basic.WriteString",
       "return buf.Bytes(), err"] := Tie.C02.stringReader_flow

/-- the reflection decoder returns the error of a struct field -/
theorem struct_fields_keep_error :
    Gen.Encoding.decoderStructCase =
      ["if v.CanSet() || t.Field(i).Name != \"_\"", "init v := v.Field(i)", "if err != nil",
       "init err := q.value(v)", "return err"] := Tie.C03.struct_case

end QiVerif.Tie.C08
