/-
  Tie for C10: `Send` is one `Message.Write`, `Message.Write` is one `Write` of the whole
  frame, the stream wrappers pass that `Write` on as one call, and one goroutine (`process`)
  reads and dispatches message after message.
-/
import QiVerif.Generated.Stream
import QiVerif.Tie.C17
import QiVerif.Tie.C01
namespace QiVerif.Tie.C10

/-- `endPoint.Send` touches the stream once, through `Message.Write` -/
theorem send_is_one_message_write : Gen.Endpoint.sendFlow = ["use stream", "return m.Write(e.stream)"] :=
  Tie.C17.send_flow

/-- `Message.Write` calls the stream's `Write` exactly once (`Props/C10.send_is_one_write`, `Message.writeMsg`) -/
theorem message_write_is_one_write :
    Gen.Message.writeExternal = ["basic.WriteN(w, buf.Bytes(), int(m.Header.Size+HeaderSize))"] :=
  Tie.C01.write_single_call.1

/-- `AddHandler`: the consumer goroutine ranges over the handler's own queue (a FIFO of ten) and calls the consumer on
    each message in turn; nothing stands between the queue `dispatch` fills and the consumer -/
theorem add_handler_consumes_its_queue :
    Gen.Endpoint.addHandlerFlow =
      ["go{", "func{", "range {", "if err != nil {", "}", "}", "}", "}", "return e.MakeHandler(f, ch, cl)"] := rfl

/-- `connStream` embeds the connection: `Write` is the connection's own method, not overridden -/
theorem connStream_passes_write :
    Gen.Stream.connStreamFields = ["embedded gonet.Conn", "ctx context.Context"] ∧
    Gen.Stream.connStreamMethods = ["String", "Context"] := ⟨rfl, rfl⟩

/-- `pipeStream.Write` / `Read`: one call on the file -/
theorem pipeStream_passes_write :
    Gen.Stream.pipeWrite = ["{ return p.w.Write(d) }"] ∧ Gen.Stream.pipeRead = ["{ return p.r.Read(d) }"] := ⟨rfl, rfl⟩

/-- one reader: `process` reads a message, dispatches it, and only then reads the next
    (`Senders.deliver` is a left fold of `dispatch` over the arrival order) -/
theorem single_reader :
    Gen.Endpoint.processFlow.take 7 =
      ["use stream", "call msg.Read", "if err != nil {", "call e.closeWith", "return ", "}", "call e.dispatch"] := by
  rw [Tie.C17.process_flow]; rfl

end QiVerif.Tie.C10
