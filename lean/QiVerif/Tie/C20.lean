/-
  Tie lemmas for C20: the kind switch of `convertFrom` and the calls made by
  convertSlice / convertMap / convertStruct, as regenerated from
  type/conversion/conversion.go, are the ones `QiVerif.Convert.convert` transcribes.
-/
import QiVerif.Generated.Conversion
import QiVerif.Model.Convert
namespace QiVerif.Tie.C20

/-- one line per case of `convertFrom`'s `switch v.Kind()`; `Model/Convert.lean: convert`
    has one group of equations per line, in this order -/
def expectedCases : List (String × String × String) :=
  [("Bool", "w.Kind() == reflect.Bool", "v.SetBool(w.Bool()); return nil"),
   ("String", "w.Kind() == reflect.String", "v.SetString(w.String()); return nil"),
   ("Int,Int8,Int16,Int32,Int64", "i, ok := AsInt64(w); ok", "v.SetInt(i); return nil"),
   ("Uint,Uint8,Uint16,Uint32,Uint64", "i, ok := AsInt64(w); ok", "v.SetUint(uint64(i)); return nil"),
   ("Float32,Float64", "w.Kind() == reflect.Float32 || w.Kind() == reflect.Float64",
    "v.SetFloat(w.Float()); return nil"),
   ("Ptr", "v = v.Elem()",
    "switch v.Kind() {Slice: return convertSlice(v, w); Map: return convertMap(v, w); Struct: return convertStruct(v, w); default: return convertFrom(v, w)}"),
   ("Slice", "", "return convertSlice(v, w)"),
   ("Map", "", "return convertMap(v, w)"),
   ("Struct", "", "return convertStruct(v, w)")]

theorem convertFrom_cases : Gen.Conversion.convertFromCases = expectedCases := rfl

/-- element i from element i -/
theorem slice_calls :
    Gen.Conversion.convertSliceCalls = ["v.SetLen(l)", "convertFrom(v.Index(i), w.Index(i))"] := by
  decide

/-- key from key, element from value, then the pair is stored (`pairStep`) -/
theorem map_calls :
    Gen.Conversion.convertMapCalls =
      ["convertFrom(key, k)", "convertFrom(el, w.MapIndex(k))", "v.SetMapIndex(key.Elem(), el.Elem())"] := by
  decide

/-- fields are matched by lower-cased name (`lookupField`) -/
theorem struct_calls :
    Gen.Conversion.convertStructCalls =
      ["strings.ToLower(v.Type().Field(i).Name)", "strings.ToLower(w.Type().Field(j).Name)",
       "convertFrom(v.Field(i), w.Field(j))"] := by decide

theorem asInt64_cases :
    Gen.Conversion.asInt64 =
      ["Int,Int8,Int16,Int32,Int64 => return w.Int(), true",
       "Uint,Uint8,Uint16,Uint32,Uint64 => return int64(w.Uint()), true",
       " => return 0, false"] := by decide

end QiVerif.Tie.C20
