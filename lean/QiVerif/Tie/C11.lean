/-
  Tie for C11: the order of operations in bus/client.go (Call, Subscribe, OnDisconnect) and
  the shutdown path of bus/net/endpoint.go, as regenerated, are those of Model/Client.lean.
-/
import QiVerif.Generated.Client
import QiVerif.Generated.Basic
import QiVerif.Model.Client
import QiVerif.Tie.C17
namespace QiVerif.Tie.C11
open QiVerif.Client

/-- `basic.ReadN`, which `Message.Read` reads the header and the payload with: only a `Read` that reports no
    error lets the loop go on; an error that is not end-of-stream ends it with an error whatever number of bytes
    came along (`QiVerif.readN` on `Chunk.dataErr`, Props/C11Faults.lean) -/
theorem readN_loop :
    Gen.Basic.readN =
      ["for size < length", "call r.Read(buf[size:])", "if err == nil && read != 0", "continue",
       "if err == io.EOF && size == length", "break", "if err == io.EOF && size == 0",
       "return io.EOF", "if err == nil", "return error", "return nil"] := by decide

/-- `Call` up to the wait: the reply filter matches its own key and answers keep = false
    (`callSpec`: `dropOn = k`); the closer pushes a non-nil error; the handler is registered
    *before* `Send` (`startCall`: `make` first); a failing `Send` removes the handler by the
    slot number and returns the error (`writeFail`) -/
theorem call_registers_before_send :
    Gen.Client.callFlow.take 25 =
      ["if cancel != nil {", "recv cancel", "return nil, ErrCancelled", "}",
       "call c.newMessage",
       "func{",
       "if hdr.Service == serviceID && hdr.Object == objectID && hdr.Action == actionID && hdr.ID == messageID {",
       "return true, false", "}", "return false, true", "}",
       "func{", "if err != nil {", "send errors", "}", "}",
       "use endpoint", "call c.endpoint.MakeHandler",
       "use endpoint", "call c.endpoint.Send",
       "if err != nil {", "use endpoint", "call c.endpoint.RemoveHandler",
       "return nil, fmt.Errorf( \"call service %d, object %d,…", "}"] := rfl

/-- the wait: an error from the closer, a reply (a closed reply queue is an error), or the
    cancel request, which sends the cancel frame (`cancel`, `writeOk`/`writeFail` on `cancelling`) -/
theorem call_wait :
    (Gen.Client.callFlow.drop 25).take 16 =
      ["if cancel == nil {", "}",
       "recv errors", "return nil, err",
       "recv reply", "if !ok {", "return nil, fmt.Errorf(\"Remote connection closed\")", "}",
       "recv cancel", "call c.cancelMessage", "use endpoint", "call c.endpoint.Send",
       "if err != nil {", "return nil, fmt.Errorf( \"cancel failed: service %d, …", "}",
       "return nil, ErrCancelled"] := rfl

/-- neither the closer nor the dispatcher can block on the call's channels: both have room for
    the one item they ever get (`callSpec`: `cap = 1`); a subscription's queue holds 100 (`subSpec`) -/
theorem channel_capacities :
    Gen.Client.channels =
      ["Call: reply = make(chan *net.Message, 1)",
       "Call: errors = make(chan error, 1)",
       "Call: cancel = make(chan struct{})",
       "Subscribe: abort = make(chan struct{})",
       "Subscribe: events = make(chan []byte)",
       "Subscribe: queue = make(chan *net.Message, 100)",
       "OnDisconnect: consumer = make(chan *net.Message)"] ∧
    (callSpec 3).cap = 1 ∧ (subSpec 0).cap = 100 ∧ discSpec.cap = 0 := ⟨rfl, rfl, rfl, rfl⟩

/-- `Subscribe`: a keep-handler that drops itself on an error message (`subSpec`), and a
    goroutine that forwards events and closes `events` when its queue is closed (`settleSub`) -/
theorem subscribe_flow :
    Gen.Client.subscribeFlow =
      ["func{", "call close", "}",
       "func{",
       "if hdr.Service == serviceID && hdr.Object == objectID && hdr.Action == actionID {",
       "if hdr.Type == net.Error {", "return true, false", "}", "return true, true", "}",
       "return false, true", "}",
       "go{", "use endpoint", "call c.endpoint.MakeHandler",
       "func{", "recv queue", "if !ok {", "call close", "return ", "}",
       "else {", "if msg.Header.Type == net.Event {", "send events", "}", "}",
       "recv abort", "use endpoint", "call c.endpoint.RemoveHandler", "call close", "return ", "}", "}",
       "return cancel, events, nil"] := rfl

/-- `OnDisconnect`: a handler that never matches; the user's callback is its closer (`discSpec`) -/
theorem onDisconnect_flow :
    Gen.Client.onDisconnectFlow =
      ["if closer == nil {", "return nil", "}",
       "func{", "return false, true", "}",
       "use endpoint", "call c.endpoint.MakeHandler", "return nil"] := rfl

/-- message ids: one counter for all clients, advanced by two atomically (`W.nextId`) -/
theorem nextMessageID_flow :
    Gen.Client.nextMessageIDFlow = ["return atomic.AddUint32(&messageID, 2)"] := rfl

/-- the endpoint side: a read error makes `process` call `closeWith` and exit (`readFail`);
    `closeWith` closes the stream first, then empties every slot under the lock, scheduling one
    asynchronous close per handler (`closeAll`, `asyncClose`) -/
theorem process_closes_on_error :
    Gen.Endpoint.processFlow.take 6 =
      ["use stream", "call msg.Read", "if err != nil {", "call e.closeWith", "return ", "}"] := by
  rw [Tie.C17.process_flow]; rfl

theorem closeWith_closes_stream_first :
    Gen.Endpoint.closeWithFlow.take 3 = ["use stream", "call e.stream.Close", "handlersMutex.Lock"] := by
  rw [Tie.C17.closeWith_flow]; rfl

end QiVerif.Tie.C11
