/-
  Tie lemmas for C01: the facts regenerated from bus/net/message.go and
  type/basic/basic.go equal what the hand-written model assumes.
-/
import QiVerif.Generated.Message
import QiVerif.Generated.Basic
import QiVerif.Generated.Consts
import QiVerif.Model.Message
namespace QiVerif.Tie.C01
open QiVerif.Message

def encName : FieldEnc → String
  | .be32 => "be32" | .le32 => "le32" | .le16 => "le16" | .u8 => "u8"

def checkText : Check → String
  | .none => ""
  | .neMagic => "h.Magic != Magic"
  | .neVersion => "h.Version != Version"
  | .badType => "h.Type == Unknown || h.Type > Cancelled"

theorem writeLayout_tied :
    Gen.Message.writeLayout = writeLayout.map (fun p => (p.1, encName p.2)) := by decide

theorem readLayout_tied :
    Gen.Message.readLayout = readLayout.map (fun p => (p.1, encName p.2.1, checkText p.2.2)) := by
  decide

/-- `Message.Write` touches the external writer in exactly one call, carrying
    header and payload together; the size guard is the model's. -/
theorem write_single_call :
    Gen.Message.writeExternal = ["basic.WriteN(w, buf.Bytes(), int(m.Header.Size+HeaderSize))"] ∧
    Gen.Message.writeGuard = ["uint32(len(m.Payload)) != m.Header.Size"] := by decide

/-- `Message.Read`: header bytes, header parse, size checks, then the payload. -/
theorem read_steps :
    Gen.Message.readSteps =
      ["call basic.ReadN(r, b, HeaderSize)",
       "call m.Header.Read(bytes.NewBuffer(b))",
       "if m.Header.Size > MaxPayloadSize",
       "if m.Header.Size == 0",
       "call basic.ReadN(r, m.Payload, int(m.Header.Size))"] := by decide

theorem consts_tied :
    Gen.Consts.magic = magicConst ∧ Gen.Consts.version = versionConst ∧
    Gen.Consts.headerSize = headerSize ∧ Gen.Consts.typeUnknown = typeUnknown ∧
    Gen.Consts.typeCancelled = typeCancelled ∧
    [Gen.Consts.typeCall, Gen.Consts.typeReply, Gen.Consts.typeError, Gen.Consts.typePost,
     Gen.Consts.typeEvent, Gen.Consts.typeCapability, Gen.Consts.typeCancel,
     Gen.Consts.typeCancelled] = [1, 2, 3, 4, 5, 6, 7, 8] := by decide

/-- the retry loop of `basic.ReadN`, branch by branch, as transcribed in `QiVerif.readN` -/
theorem readN_loop :
    Gen.Basic.readN =
      ["for size < length", "call r.Read(buf[size:])", "if err == nil && read != 0", "continue",
       "if err == io.EOF && size == length", "break", "if err == io.EOF && size == 0",
       "return io.EOF", "if err == nil", "return error", "return nil"] := by decide

theorem fixed_width_le :
    Gen.Basic.fixedWidth.filter (fun p => p.2.1 ≠ "") =
      [("ReadUint8", "1", "", ""), ("WriteUint8", "1", "", ""),
       ("ReadUint16", "2", "LittleEndian", ""), ("WriteUint16", "2", "LittleEndian", ""),
       ("ReadUint32", "4", "LittleEndian", ""), ("WriteUint32", "4", "LittleEndian", ""),
       ("ReadUint64", "8", "LittleEndian", ""), ("WriteUint64", "8", "LittleEndian", ""),
       ("ReadFloat32", "4", "LittleEndian", ""), ("WriteFloat32", "4", "LittleEndian", ""),
       ("ReadFloat64", "8", "LittleEndian", ""), ("WriteFloat64", "8", "LittleEndian", "")] := by
  decide

end QiVerif.Tie.C01
