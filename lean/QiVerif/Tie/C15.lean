/-
  Tie for C15: every method of the directory is one critical section of its mutex, with the
  checks and writes of Model/Directory.lean in the same order; the hosting server's namespace
  calls the same methods.
-/
import QiVerif.Generated.Directory
import QiVerif.Model.Directory
namespace QiVerif.Tie.C15
open QiVerif.Directory

/-- `RegisterService`: check, no staging or ready service of that name, counter + 1, staged (`register`) -/
theorem registerService_flow :
    Gen.Directory.registerServiceFlow =
      ["mutex.Lock",
       "defer s.mutex.Unlock()",
       "call checkServiceInfo",
       "if err != nil {",
       "return 0, err",
       "}",
       "range staging {",
       "if info.Name == newInfo.Name {",
       "return 0, fmt.Errorf(\"Service name already staging…",
       "}",
       "}",
       "range services {",
       "if info.Name == newInfo.Name {",
       "return 0, fmt.Errorf(\"Service name already ready: …",
       "}",
       "}",
       "assign lastID",
       "use lastID",
       "use lastID",
       "write staging",
       "use lastID",
       "return s.lastID, nil"] := rfl

/-- `UnregisterService`: a ready service is deleted and serviceRemoved emitted; else a staging one is deleted (`unregister`) -/
theorem unregisterService_flow :
    Gen.Directory.unregisterServiceFlow =
      ["mutex.Lock",
       "defer s.mutex.Unlock()",
       "read services",
       "if ok {",
       "delete services",
       "use signal",
       "if signal != nil {",
       "call signal.SignalServiceRemoved",
       "}",
       "return nil",
       "}",
       "read staging",
       "if ok {",
       "delete staging",
       "return nil",
       "}",
       "return fmt.Errorf(\"Service not found: %d\", id)"] := rfl

/-- `ServiceReady`: staging → services, serviceAdded emitted (`ready`) -/
theorem serviceReady_flow :
    Gen.Directory.serviceReadyFlow =
      ["mutex.Lock",
       "defer s.mutex.Unlock()",
       "read staging",
       "if ok {",
       "delete staging",
       "write services",
       "use signal",
       "if signal != nil {",
       "call signal.SignalServiceAdded",
       "}",
       "return nil",
       "}",
       "return fmt.Errorf(\"Service id not found: %d\", i…"] := rfl

/-- `UpdateServiceInfo`: check, the id must be ready, the name must be the same (`update`) -/
theorem updateServiceInfo_flow :
    Gen.Directory.updateServiceInfoFlow =
      ["mutex.Lock",
       "defer s.mutex.Unlock()",
       "call checkServiceInfo",
       "if err != nil {",
       "return err",
       "}",
       "read services",
       "if !ok {",
       "return fmt.Errorf(\"Service not found: %d (%s)\",…",
       "}",
       "if info.Name != i.Name {",
       "return fmt.Errorf(\"Invalid name: %s (expected: …",
       "}",
       "write services",
       "return nil"] := rfl

/-- the reads too are critical sections: lookup by name, sorted list, lookup by id -/
theorem reads_are_locked :
    Gen.Directory.serviceFlow.take 3 = ["mutex.Lock", "defer s.mutex.Unlock()", "range services {"] ∧
    Gen.Directory.servicesFlow = ["mutex.Lock", "defer s.mutex.Unlock()", "use services", "range services {", "}", "call sort.Sort", "return list, nil"] ∧
    Gen.Directory.infoFlow.take 3 = ["mutex.Lock", "defer s.mutex.Unlock()", "read services"] := ⟨rfl, rfl, rfl⟩

/-- the hosting server's own operations go through the same methods -/
theorem local_path_uses_the_same_methods :
    Gen.Directory.nsReserveFlow = ["use directory", "call ns.directory.RegisterService", "return ns.directory.RegisterService(info)"] ∧
    Gen.Directory.nsRemoveFlow = ["use directory", "call ns.directory.UnregisterService", "return ns.directory.UnregisterService(serviceID…"] ∧
    Gen.Directory.nsEnableFlow = ["use directory", "call ns.directory.ServiceReady", "return ns.directory.ServiceReady(serviceID)"] ∧
    Gen.Directory.nsResolveFlow.take 2 = ["use directory", "call ns.directory.Service"] := ⟨rfl, rfl, rfl, rfl⟩

end QiVerif.Tie.C15
