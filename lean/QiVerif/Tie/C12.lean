/-
  Tie for C12: the goroutine of an object (mailbox), the subscription table against the endpoint's
  handler table (who holds which lock when the close callback runs), the non-blocking dispatch.
-/
import QiVerif.Generated.Mailbox
import QiVerif.Generated.Signals
import QiVerif.Generated.Endpoint
import QiVerif.Generated.Queues
import QiVerif.Model.Robust
namespace QiVerif.Tie.C12
open QiVerif.Robust

/-- one goroutine per object runs `Receive` for every mail in turn: if one `Receive` never returns
    the object answers nobody (`run`: the first stuck request ends the object) -/
theorem mailbox_is_one_goroutine :
    Gen.Mailbox.newMailBoxFlow =
      ["call make", "go{", "func{", "recv box", "if !ok {", "return ", "}", "call r.Receive", "if err != nil {", "}", "}", "}",
       "return box"] := rfl

/-- `RemoveHandler` runs the close callback while holding the handlers lock (`removeHandler`) -/
theorem removeHandler_runs_closer_under_lock :
    Gen.Endpoint.removeHandlerFlow.take 8 =
      ["handlersMutex.Lock", "defer e.handlersMutex.Unlock()", "use handlers", "read handlers",
       "if id >= 0 && id < len(e.handlers) && e.handlers[id] != nil {", "read handlers",
       "call e.handlers[id].closeWith", "write handlers"] := rfl

/-- `addSignalUser` as repaired: the duplicate check first, under the signals lock, released before
    the handler is created; no handler is removed on that path (`addUser`) -/
theorem addSignalUser_flow :
    Gen.Signals.addSignalUserFlow =
      ["signalsMutex.Lock", "range signals {", "if user.userID == userID {", "signalsMutex.Unlock",
       "return fmt.Errorf(\"user %d already exists\", use…", "}", "}", "signalsMutex.Unlock",
       "func{", "return false, true", "}", "func{", "call o.removeSignalUser", "}", "call e.MakeHandler",
       "signalsMutex.Lock", "use signals", "call append", "assign signals", "signalsMutex.Unlock", "return nil"] := rfl

/-- `removeSignalUser`: the signals lock is released before the handler is removed (`removeSignalUser`) -/
theorem removeSignalUser_flow :
    Gen.Signals.removeSignalUserFlow.take 13 =
      ["signalsMutex.Lock", "range signals {", "if user.userID == userID {",
       "if from.EndPoint() == user.context.EndPoint() {",
       "use signals", "read signals", "write signals", "use signals", "use signals", "assign signals",
       "signalsMutex.Unlock", "call user.context.EndPoint().RemoveHandler", "return nil"] := rfl

/-- the reader of a connection never blocks on a slow consumer: the hand-over is a `select` with a default branch -/
theorem dispatch_does_not_block : Gen.Queues.dispatchSelect = ["h.consumer <- msg", "default"] := rfl

end QiVerif.Tie.C12
