/-
  The whole of `client.Call` (bus/client.go), token by token: the properties that speak of calls made through a shared
  client (C04, C19) are about this function as it is; Tie/C11.lean explains the pieces.
-/
import QiVerif.Generated.Client
namespace QiVerif.Tie.ClientCall
open QiVerif

theorem call_flow :
    Gen.Client.callFlow =
      ["if cancel != nil {",
       "recv cancel",
       "return nil, ErrCancelled",
       "}",
       "call c.newMessage",
       "func{",
       "if hdr.Service == serviceID && hdr.Object == objectID && hdr.Action == actionID && hdr.ID == messageID {",
       "return true, false",
       "}",
       "return false, true",
       "}",
       "func{",
       "if err != nil {",
       "send errors",
       "}",
       "}",
       "use endpoint",
       "call c.endpoint.MakeHandler",
       "use endpoint",
       "call c.endpoint.Send",
       "if err != nil {",
       "use endpoint",
       "call c.endpoint.RemoveHandler",
       "return nil, fmt.Errorf( \"call service %d, object %d,…",
       "}",
       "if cancel == nil {",
       "}",
       "recv errors",
       "return nil, err",
       "recv reply",
       "if !ok {",
       "return nil, fmt.Errorf(\"Remote connection closed\")",
       "}",
       "recv cancel",
       "call c.cancelMessage",
       "use endpoint",
       "call c.endpoint.Send",
       "if err != nil {",
       "return nil, fmt.Errorf( \"cancel failed: service %d, …",
       "}",
       "return nil, ErrCancelled",
       "return response.Payload, nil",
       "call value.NewValue",
       "if err != nil {",
       "return nil, fmt.Errorf( \"error response read error: …",
       "}",
       "if !ok {",
       "return nil, fmt.Errorf(\"invalid error response\")",
       "}",
       "return nil, fmt.Errorf(strVal.Value())",
       "return nil, ErrCancelled",
       "return nil, fmt.Errorf(\"Unexpected message type: %d\"…"] := rfl

end QiVerif.Tie.ClientCall
