/-
  Tie for C06: the gate as regenerated from bus/server.go, bus/router.go, bus/service.go,
  bus/authenticate.go, bus/auth.go, bus/channel.go is the one of Model/Auth.lean.
-/
import QiVerif.Generated.Auth
import QiVerif.Model.Auth
namespace QiVerif.Tie.C06
open QiVerif.Auth

/-- `firewall`: unauthenticated and service ≠ 0 (`classify`: `!c.auth && f.svc != 0`) -/
theorem firewall_predicate :
    Gen.Auth.firewallCond = ["from.Authenticated() == false && m.Header.Service != 0"] := rfl

/-- `handle`: a fresh capability map per connection; the filter ignores reply / error / event /
    cancelled (`ignoredType`); per message: firewall, on refusal error + close + stop
    (`refusedClosed`, then `dead`), else the router -/
theorem handle_flow :
    Gen.Auth.handleFlow.take 27 =
      ["call DefaultCap",
       "if authenticated {", "call context.SetAuthenticated", "}",
       "func{",
       "if hdr.Type == net.Reply || hdr.Type == net.Error || hdr.Type == net.Event || hdr.Type == net.Cancelled {",
       "return false, true", "}", "return true, true", "}",
       "call make",
       "go{", "func{", "range {",
       "call firewall", "if err != nil {", "call context.SendError", "call stream.Close", "return ", "}",
       "use Router", "call s.Router.Receive", "if err != nil {", "}", "}", "}", "}"] := rfl

/-- reply = 2, error = 3, event = 5, cancelled = 8 -/
theorem ignored_types : (List.range 9).filter ignoredType = [2, 3, 5, 8] ∧ (List.range 12).filter badType = [0, 9, 10, 11] := by decide

/-- the router looks the service up, the service the object (`svcNotFound`, `objNotFound`,
    mailbox = `queued` / `probe`) -/
theorem routing_flow :
    Gen.Auth.routerReceiveFlow =
      ["RLock", "read services", "RUnlock", "if ok {", "call s.Receive", "return s.Receive(m, from)", "}",
       "call from.SendError", "return from.SendError(m, ErrServiceNotFound)"] ∧
    Gen.Auth.serviceReceiveFlow =
      ["RLock", "read boxes", "RUnlock", "if !ok {", "call from.SendError",
       "return from.SendError(m, ErrObjectNotFound)", "}", "call NewMail", "send box", "return nil"] := ⟨rfl, rfl⟩

/-- service 0: only calls and posts (`silent` otherwise), only action 8; a map that does not parse is an error; otherwise `Authenticate` (`authOutcome`) -/
theorem service0_flow :
    Gen.Auth.authReceiveFlow =
      ["if m.Header.Type != net.Call && m.Header.Type != net.Post {", "return nil", "}",
       "if m.Header.Action != object.AuthenticateActionID {", "call from.SendError",
       "return from.SendError(m, ErrActionNotFound)", "}",
       "call s.wrapAuthenticate", "if err != nil {", "call from.SendError", "return from.SendError(m, err)", "}",
       "if m.Header.Type == net.Post {", "return nil", "}",
       "call from.SendReply", "return from.SendReply(m, response)"] ∧
    Gen.Auth.wrapAuthenticateFlow =
      ["call ReadCapabilityMap", "if err != nil {", "return nil, err", "}",
       "call s.Authenticate", "call WriteCapabilityMap", "if err != nil {", "return nil, err", "}",
       "return out.Bytes(), nil"] := ⟨rfl, rfl⟩

/-- `Authenticate` reads exactly `auth_user` and `auth_token` from the client's map, each absent
    or a string (`credential`), asks the authenticator, and marks *this* channel (`credentials`, `process`) -/
theorem authenticate_flow :
    Gen.Auth.authenticateIfs =
      ["userValue, ok := cap[KeyUser]; ok",
       "userStr, ok := userValue.(value.StringValue); ok",
       "tokenValue, ok := cap[KeyToken]; ok",
       "tokenStr, ok := tokenValue.(value.StringValue); ok",
       "s.auth.Authenticate(user, token)"] ∧
    Gen.Auth.authenticateFlow.drop 16 =
      ["use auth", "call s.auth.Authenticate", "if s.auth.Authenticate(user, token) {",
       "call from.SetAuthenticated", "call from.Cap", "return from.Cap()", "}",
       "call s.capError", "return s.capError()"] := ⟨rfl, rfl⟩

/-- `ReadCapabilityMap`: count, cap 4096, then key string and value per entry (`readCapMap`) -/
theorem readCapabilityMap_flow :
    Gen.Auth.readCapabilityMapFlow =
      ["call basic.ReadUint32", "if err != nil {", "return m, fmt.Errorf(\"read map size: %s\", err)", "}",
       "if size > capabilityMapSizeMax {", "return m, ErrCapabilityTooLong", "}",
       "call make",
       "call basic.ReadString", "if err != nil {", "return m, fmt.Errorf(\"read map key: %s\", err)", "}",
       "call value.NewValue", "if err != nil {", "return m, fmt.Errorf(\"read map value: %s\", err)", "}",
       "return m, nil"] := rfl

/-- constants and keys -/
theorem consts_tied :
    Gen.Auth.consts =
      ["capabilityMapSizeMax = 4096", "KeyState = \"__qi_auth_state\"", "KeyUser = \"auth_user\"",
       "KeyToken = \"auth_token\"", "StateError = 1", "StateDone = 3"] ∧
    capabilityMapSizeMax = 4096 ∧ authenticateAction = 8 ∧
    keyUser = [97, 117, 116, 104, 95, 117, 115, 101, 114] ∧
    keyToken = [97, 117, 116, 104, 95, 116, 111, 107, 101, 110] := ⟨rfl, rfl, rfl, rfl, rfl⟩

/-- the authentication state lives in the connection's own map, which is a fresh literal per
    connection; `SetAuthenticated` is the only writer of the state key; reader and writer hold the
    channel's lock (one step of the model each) -/
theorem state_is_per_connection :
    Gen.Auth.defaultCap = ["return CapabilityMap{…}"] ∧
    Gen.Auth.channelAuthenticated =
      ["{ c.stateMutex.RLock() defer c.stateMutex.RUnlock() return c.capability.Authenticated() }",
       "{ c.stateMutex.Lock() defer c.stateMutex.Unlock() c.capability.SetAuthenticated() }"] ∧
    Gen.Auth.setAuthenticatedFlow = ["{ c[KeyState] = value.Uint(StateDone) }"] := ⟨rfl, rfl, rfl⟩

end QiVerif.Tie.C06
