/-
  Tie for C03: the case tables of the reflection codec (type/encoding/encoding.go).
  A dropped or added case is seen here even if no generated value exercises it.
-/
import QiVerif.Generated.Encoding
import QiVerif.Model.Decode
namespace QiVerif.Tie.C03
open QiVerif.Decode

/-- every kind `encR` writes has a case in `qiEncoder.value`, calling the `basic` writer of the
    width the model uses -/
theorem encoder_cases : Gen.Encoding.encoderKinds = encoderCalls := by decide

theorem encoder_kinds : Gen.Encoding.encoderKinds.map (·.1) = codecKinds := by decide

theorem decoder_cases : Gen.Encoding.decoderKinds = decoderCalls := by decide

/-- the same kinds are decodable as are encodable -/
theorem decoder_kinds_match :
    ∀ k ∈ codecKinds, k ∈ Gen.Encoding.decoderKinds.map (·.1) := by decide

/-- top-level `Encode` / `Decode` handle every scalar type directly -/
theorem encode_types :
    Gen.Encoding.encodeTypes =
      ["BinaryEncoder", "CustomEncoder", "string", "bool", "int", "uint", "uint8", "uint16", "uint32", "uint64",
       "int8", "int16", "int32", "int64", "float32", "float64"] := by decide

theorem decode_types :
    Gen.Encoding.decodeTypes =
      ["CustomDecoder", "BinaryDecoder", "*string", "*bool", "*int", "*uint", "*uint8", "*uint16", "*uint32",
       "*uint64", "*int8", "*int16", "*int32", "*int64", "*float32", "*float64"] := by decide

/-- `sliceValue` / `mapValue`: negative and over-limit sizes are refused before any allocation
    (`readCount reflectCfg`) -/
theorem slice_guards :
    Gen.Encoding.sliceGuards =
      ["err != nil", "l < 0", "v.Kind() == reflect.Ptr && v.IsNil()", "!v.CanSet()", "l > listValueMaxSize",
       "v.Kind() != reflect.Slice", "v.Cap() < l", "v.CanSet() == false", "l > listValueMaxSize",
       "err != nil"] := by decide

theorem map_guards :
    Gen.Encoding.mapGuards =
      ["err != nil", "l < 0", "v.Kind() == reflect.Ptr && v.IsNil()", "!v.CanSet()", "l > listValueMaxSize",
       "v.Kind() != reflect.Map", "v.IsNil()", "l > listValueMaxSize", "err != nil", "err != nil"] := by decide

/-- the struct case propagates the error of a field (`decFields`) -/
theorem struct_case :
    Gen.Encoding.decoderStructCase =
      ["if v.CanSet() || t.Field(i).Name != \"_\"", "init v := v.Field(i)", "if err != nil",
       "init err := q.value(v)", "return err"] := by decide

end QiVerif.Tie.C03
