/-
  Tie for C14: `SetProperty`, `Property`, `saveProperty`, `UpdateProperty` and the generated change
  callback, as regenerated, are the steps of Model/Property.lean.
-/
import QiVerif.Generated.Property
import QiVerif.Model.Property
namespace QiVerif.Tie.C14
open QiVerif.Property

/-- `SetProperty`: the name (string, or unsigned id looked up in the meta object, else refused);
    the value's own signature against the declared one; the change callback; only then the save,
    and after it the change event (`check`, `save`, `notify`) -/
theorem setProperty_flow :
    Gen.Property.setPropertyFlow =
      ["if ok {", "}", "else {", "if !ok {", "return fmt.Errorf(\"incorrect name type\")", "}",
       "use meta", "if !ok {", "return fmt.Errorf( \"incorrect property id value…", "}", "}",
       "call newValue.Write", "if err != nil {", "return fmt.Errorf(\"cannot write value: %s\", err…", "}",
       "call basic.ReadString", "if err != nil {", "return fmt.Errorf(\"invalid signature: %s\", err)", "}",
       "use meta", "range {", "if property.Name == nameStr {", "}", "}",
       "if declared != \"\" && sig != declared {", "return fmt.Errorf(\"wrong type for property %s: …", "}",
       "call o.onPropertyChange", "if err != nil {", "return err", "}",
       "call o.saveProperty", "if err != nil {", "return err", "}",
       "use meta", "call o.meta.PropertyID", "if err != nil {", "return fmt.Errorf(\"cannot set property: %s\", er…", "}",
       "call o.signalHandler.UpdateProperty", "return o.signalHandler.UpdateProperty(id, sig, …"] := rfl

/-- a read and a save are each one critical section of the properties' lock (`St.get`, `save`: atomic steps) -/
theorem register_steps_are_atomic :
    Gen.Property.propertyFlow.drop 3 =
      ["propertiesMutex.RLock", "defer o.propertiesMutex.RUnlock()", "read properties", "if !ok {", "use properties",
       "return nil, fmt.Errorf(\"property unknown: %s, %#v\", …", "}", "return val, nil"] ∧
    Gen.Property.savePropertyFlow =
      ["propertiesMutex.Lock", "defer o.propertiesMutex.Unlock()", "write properties", "return nil"] := ⟨rfl, rfl⟩

/-- the service's own update: the property by id, the change callback, the save of a value with
    the signature the generated helper passes, the change event (`updateProp`) -/
theorem updateProperty_flow :
    Gen.Property.updatePropertyFlow.drop 4 =
      ["if !ok {", "return fmt.Errorf(\"missing property (%d), %#v\",…", "}",
       "call objImpl.onPropertyChange", "if err != nil {", "return err", "}",
       "call value.Opaque", "call objImpl.saveProperty", "if err != nil {", "return err", "}",
       "use signal", "call s.signal.UpdateProperty", "return s.signal.UpdateProperty(id, sig, data)"] := rfl

/-- the generated change callback: the data decoded with the declared type, then the implementor's
    validator; any other name is refused (`Cfg.valid`, `Err.unknownProperty`) -/
theorem generated_callback :
    Gen.Property.bombOnPropertyChange =
      ["case \"delay\": buf := bytes.NewBuffer(data) ; prop, err := basic.ReadInt32(buf) ; if err != nil { return fmt.Errorf(\"cannot read Delay: %s\", err) } ; return p.impl.OnDelayChange(prop)",
       "default: return fmt.Errorf(\"unknown property %s\", name)"] := rfl

end QiVerif.Tie.C14
