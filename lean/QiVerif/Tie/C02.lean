/-
  Tie for C02: the dispatch table and limits of type/value/value.go and the
  TypeReader implementations of meta/signature/reader.go are the ones
  Model/Value.lean and Model/Codec.lean (`readT`) transcribe.
-/
import QiVerif.Generated.Value
import QiVerif.Generated.Reader
import QiVerif.Generated.Consts
import QiVerif.Model.Value
namespace QiVerif.Tie.C02

/-- the keys of `solve` and the constructor each one maps to -/
theorem solve_table :
    Gen.Value.solveTable =
      [("c", "newInt8"), ("C", "newUint8"), ("w", "newInt16"), ("W", "newUint16"), ("i", "newInt"),
       ("I", "newUint"), ("l", "newLong"), ("L", "newUlong"), ("s", "newString"), ("b", "newBool"),
       ("f", "newFloat"), ("[m]", "newList"), ("r", "newRaw"), ("v", "newVoid"), ("m", "NewValue")] := by decide

theorem limits :
    Gen.Value.rawValueMaxSize = Value.rawValueMaxSize ∧ Gen.Value.listValueMaxSize = Value.listValueMaxSize ∧
    Gen.Consts.maxStringSize = Codec.maxStringSize := by decide

/-- each scalar constructor reads / writes with the `basic` function of its width -/
theorem scalar_widths :
    Gen.Value.basicCalls =
      [("OpaqueValue.Write", "WriteString,WriteN"), ("newBool", "ReadBool"), ("BoolValue.Write", "WriteString,WriteBool"),
       ("newUint8", "ReadUint8"), ("Uint8Value.Write", "WriteString,WriteUint8"), ("newInt8", "ReadInt8"),
       ("Int8Value.Write", "WriteString,WriteInt8"), ("newUint16", "ReadUint16"),
       ("Uint16Value.Write", "WriteString,WriteUint16"), ("newInt16", "ReadInt16"),
       ("Int16Value.Write", "WriteString,WriteInt16"), ("newUint", "ReadUint32"),
       ("UintValue.Write", "WriteString,WriteUint32"), ("newInt", "ReadInt32"),
       ("IntValue.Write", "WriteString,WriteInt32"), ("newUlong", "ReadUint64"),
       ("UlongValue.Write", "WriteString,WriteUint64"), ("newLong", "ReadInt64"),
       ("LongValue.Write", "WriteString,WriteInt64"), ("newFloat", "ReadFloat32"),
       ("FloatValue.Write", "WriteString,WriteFloat32"), ("newString", "ReadString"),
       ("StringValue.Write", "WriteString,WriteString"), ("newList", "ReadUint32"),
       ("ListValue.Write", "WriteString,WriteUint32"), ("newRaw", "ReadUint32,ReadN"),
       ("RawValue.Write", "WriteString,WriteUint32,WriteN"), ("VoidValue.Write", "WriteString")] := rfl

theorem newOpaque_flow :
    Gen.Value.newOpaqueFlow =
      ["if sig == \"o\" {", "call newOpaque", "return newOpaque(ObjectReferenceSignature, r)", "}",
       "call signature.MakeReader", "if err != nil {",
       "return nil, fmt.Errorf(\"Invalid signature %s: %s\", s…", "}", "call reader.Read", "if err != nil {",
       "return nil, fmt.Errorf(\"Failed to read value %s: %s\"…", "}",
       "return &OpaqueValue{ sig: sig, data: data, }, nil"] := rfl

theorem newList_flow :
    Gen.Value.newListFlow =
      ["call basic.ReadUint32", "if err != nil {", "return nil, err", "}", "if size > listValueMaxSize {",
       "return nil, ErrListValueTooLong", "}", "call make", "range {", "call NewValue", "if err != nil {",
       "return nil, err", "}", "}", "return ListValue(list), err"] := rfl

theorem newRaw_flow :
    Gen.Value.newRawFlow =
      ["call basic.ReadUint32", "if err != nil {", "return nil, err", "}", "if size > rawValueMaxSize {",
       "return nil, ErrRawValueTooLong", "}", "call make", "call basic.ReadN", "if err != nil {",
       "return nil, fmt.Errorf(\"raw read: %s\", err)", "}", "return RawValue(buf), nil"] := rfl

/-! the readers -/

theorem constReader_flow :
    Gen.Reader.constReaderFlow =
      ["call make", "call basic.ReadN", "if err != nil {", "return nil, err", "}", "return data, nil"] := rfl

/-- the string reader returns the read error (F-C08-1 repaired) and re-encodes the string -/
theorem stringReader_flow :
    Gen.Reader.stringReaderFlow =
      ["call basic.ReadString", "if err != nil {", "return nil, err", "}", "call basic.WriteString",
       "return buf.Bytes(), err"] := rfl

/-- the value reader returns the length-prefixed signature followed by the data (F-C02-1 repaired) -/
theorem valueReader_flow :
    Gen.Reader.valueReaderFlow =
      ["call basic.ReadString", "if err != nil {", "call fmt.Errorf",
       "return nil, fmt.Errorf(\"read signature: %s\", err)", "}", "call MakeReader", "if err != nil {",
       "return nil, err", "}", "call reader.Read", "if err != nil {", "call fmt.Errorf",
       "return nil, fmt.Errorf(\"read value: %s\", err)", "}", "call basic.WriteString", "if err != nil {",
       "call fmt.Errorf", "return nil, fmt.Errorf(\"write signature: %s\", err)", "}", "call append",
       "return append(buf.Bytes(), data...), nil"] := rfl

theorem varReader_flow :
    Gen.Reader.varReaderFlow =
      ["call basic.ReadUint32", "if err != nil {", "call fmt.Errorf",
       "return nil, fmt.Errorf(\"read size: %s\", err)", "}", "if int(size) < 0 {", "call fmt.Errorf",
       "return nil, fmt.Errorf(\"invalid size: %d\", size)", "}", "call basic.WriteUint32", "if err != nil {",
       "call fmt.Errorf", "return nil, fmt.Errorf(\"write size %d: %s\", size, er…", "}", "call v.reader.Read",
       "if err != nil {", "call fmt.Errorf", "return nil, fmt.Errorf(\"read %d/%d: %s\", i+1, size, …", "}",
       "call basic.WriteN", "if err != nil {", "call fmt.Errorf",
       "return nil, fmt.Errorf(\"read %d/%d: %s\", i, size, er…", "}", "return buf.Bytes(), nil"] := rfl

theorem tupleReader_flow :
    Gen.Reader.tupleReaderFlow =
      ["range {", "call reader.Read", "if err != nil {", "call fmt.Errorf",
       "return nil, fmt.Errorf(\"read %s: %s\", name, err)", "}", "call basic.WriteN", "if err != nil {",
       "call fmt.Errorf", "return nil, fmt.Errorf(\"write %s: %s\", name, err)", "}", "}",
       "return buf.Bytes(), nil"] := rfl

theorem unknownReader_flow :
    Gen.Reader.UnknownReaderFlow =
      ["call fmt.Errorf", "return nil, fmt.Errorf(\"Unknown type '%v'\", v)"] := rfl

end QiVerif.Tie.C02
