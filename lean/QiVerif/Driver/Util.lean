/- line-protocol helpers shared by all driver modules (core only) -/
import QiVerif.Bytes
namespace QiVerif.Driver
open QiVerif

def hexDigit (c : Char) : Option Nat :=
  if '0' ≤ c ∧ c ≤ '9' then some (c.toNat - '0'.toNat)
  else if 'a' ≤ c ∧ c ≤ 'f' then some (c.toNat - 'a'.toNat + 10)
  else if 'A' ≤ c ∧ c ≤ 'F' then some (c.toNat - 'A'.toNat + 10)
  else none

partial def parseHexAux : List Char → Array UInt8 → Option (Array UInt8)
  | [], acc => some acc
  | [_], _ => none
  | a :: b :: rest, acc =>
    match hexDigit a, hexDigit b with
    | some x, some y => parseHexAux rest (acc.push (UInt8.ofNat (16 * x + y)))
    | _, _ => none

/-- "-" is the empty byte string -/
def parseHex (s : String) : Option Bytes :=
  if s == "-" then some [] else (parseHexAux s.toList #[]).map Array.toList

def hexChar (n : Nat) : Char := if n < 10 then Char.ofNat (n + 48) else Char.ofNat (n + 87)

def toHex (b : Bytes) : String :=
  if b.isEmpty then "-" else
  String.ofList (b.foldr (fun x acc => hexChar (x.toNat / 16) :: hexChar (x.toNat % 16) :: acc) [])

def words (s : String) : List String :=
  (s.splitOn " ").filter (· ≠ "")

def errStr : Err → String
  | .eof => "eof" | .err => "err" | .panic => "panic" | .hang => "hang"

end QiVerif.Driver
