import QiVerif.Driver.Codec
import QiVerif.Model.Gen
import QiVerif.Model.Names
namespace QiVerif.Driver.C05
open QiVerif QiVerif.Driver QiVerif.Driver.Codec QiVerif.Sig QiVerif.Codec QiVerif.Decode QiVerif.Gen

def sigOfHex (h : String) : Option Ty :=
  match parseHex h with
  | none => none
  | some s => match parseSig s with | .ok t => some t | .error _ => none

def fuelFor (b : Bytes) : Nat := 40 * (b.length + 1) + 4000

def fieldsOf : Ty → Option (List Ty)
  | .tuple ts => some ts
  | _ => none

def argsOf : TVal → Option (List TVal)
  | .tuple xs => some xs
  | _ => none

def resD (r : Res (DVal × Bytes)) : String :=
  match r with
  | .ok (d, []) => renderD d
  | .ok (d, rest) => renderD d ++ s!"+rest{rest.length}"
  | .error e => errStr e

def namesOf (w : String) : List Names.Name :=
  if w == "-" then [] else (w.splitOn ",").map String.toList

def joinNames (ns : List Names.Name) : String :=
  if ns.isEmpty then "-" else ",".intercalate (ns.map String.ofList)

def run (args : List String) : String :=
  match args with
  | ["gen.names", m, sg, p] =>
    let a : Names.Actions := { methods := namesOf m, signals := namesOf sg, props := namesOf p }
    let (rm, rs, rp) := Names.registered a
    s!"m:{joinNames rm} s:{joinNames rs} p:{joinNames rp} proxy:{joinNames (rm.map Names.cleanMethodName)}"
  | ["gen.clash", m, sg, p] =>
    let a : Names.Actions := { methods := namesOf m, signals := namesOf sg, props := namesOf p }
    if (Names.clashes a).isEmpty then "ok" else "clash"
  | "gen.pkg" :: _ => "ok"
  | "gen.objects" :: _ => "ok"   -- object references are not modelled: decided by the scenario's oracle alone
  | "gen.objectsx" :: _ => "known-weakness"
  | "gen.pkgx" :: _ => "known-weakness"
  | "gen.call" :: _ :: _ :: retH :: parH :: toks | "gen.callheld" :: _ :: _ :: retH :: parH :: toks =>
    match sigOfHex parH with
    | none => "bad-op"
    | some pt =>
      let retPart : Option (Option (Ty × TVal) × List String) :=
        if retH == "-" then some (none, toks) else
        match sigOfHex retH with
        | none => none
        | some rt => match parseTVal toks with
          | some (rv, r) => some (some (rt, rv), r)
          | none => none
      match retPart with
      | none => "bad-op"
      | some (ret, toks') =>
        match fieldsOf pt, parseTVal toks' with
        | some ts, some (pv, []) =>
          match argsOf pv with
          | none => "bad-op"
          | some as =>
            let payload := encRFields codecKinds ts as
            let got := match stubReceives (fuelFor payload) ts as with
              | .ok (ds, []) => "got " ++ renderD (.tuple ds)
              | .ok (_, _) => "got bytes-left-over"
              | .error e => "got " ++ errStr e
            match ret with
            | none => got
            | some (rt, rv) => got ++ " ret " ++ resD (callerGets (fuelFor (genW rt rv)) rt rv)
        | _, _ => "bad-op"
  | "gen.signal" :: _ :: _ :: evH :: parH :: toks =>
    match sigOfHex evH, sigOfHex parH with
    | some et, some pt =>
      match fieldsOf pt, parseTVal toks with
      | some ts, some (pv, []) =>
        match argsOf pv with
        | none => "bad-op"
        | some as => "event " ++ resD (subscriberGets (fuelFor (genWFields ts as)) ts et as)
      | _, _ => "bad-op"
    | _, _ => "bad-op"
  | "gen.burst" :: _ :: _ :: evH :: parH :: n :: toks =>
    -- n emissions in a row: each one reaches the subscriber (C13: every event of the window, once, in order), each with
    -- the payload of `subscriberGets`
    match sigOfHex evH, sigOfHex parH with
    | some et, some pt =>
      match fieldsOf pt, parseTVal toks with
      | some ts, some (pv, []) =>
        match argsOf pv with
        | none => "bad-op"
        | some as => "events " ++ n ++ " " ++ resD (subscriberGets (fuelFor (genWFields ts as)) ts et as)
      | _, _ => "bad-op"
    | _, _ => "bad-op"
  | "gen.prop" :: _ :: _ :: valH :: parH :: toks =>
    match sigOfHex valH, sigOfHex parH with
    | some vt, some pt =>
      match fieldsOf pt, parseTVal toks with
      | some ts, some (v, []) =>
        let wire := propertyWire vt v
        let r := propertyRead (fuelFor wire) vt wire
        let onchange := match r with
          | .ok (d, []) => if ts.length == 1 then "(" ++ renderD d ++ ")" else renderD d
          | .ok (_, _) => "bytes-left-over"
          | .error e => errStr e
        "onchange " ++ onchange ++ " get " ++ resD r
      | _, _ => "bad-op"
    | _, _ => "bad-op"
  | "gen.update" :: _ :: _ :: valH :: parH :: toks =>
    match sigOfHex valH, sigOfHex parH with
    | some vt, some pt =>
      match fieldsOf pt, parseTVal toks with
      | some ts, some (pv, []) =>
        match argsOf pv with
        | none => "bad-op"
        | some as =>
          let wire := Value.writeString (print vt) ++ genWFields ts as
          "get " ++ resD (propertyRead (fuelFor wire) vt wire)
      | _, _ => "bad-op"
    | _, _ => "bad-op"
  | _ => "bad-op"

end QiVerif.Driver.C05
