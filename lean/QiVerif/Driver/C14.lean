import QiVerif.Driver.Util
import QiVerif.Model.Signals
import QiVerif.Model.Property
namespace QiVerif.Driver.C14
open QiVerif QiVerif.Driver QiVerif.Property

/-- property names of the two probe objects, as codes -/
def nameCode : String → Nat
  | "delay" => 1 | "level" => 2 | "label" => 3 | "ratio" => 4 | _ => 999

def sigCode (s : String) : Nat := match s.toList with | [c] => c.toNat | _ => 0
def sigStr (n : Nat) : String := String.singleton (Char.ofNat n)

def validator : Nat → Nat → Bool := fun _ d => d % 7 != 5

def cfgOf : String → Cfg
  | "bomb" => { decls := [⟨1, 101, 105⟩], valid := validator }
  | _ => { decls := [⟨2, 200, 105⟩, ⟨3, 201, 115⟩, ⟨4, 202, 102⟩], valid := validator }

def perrStr : Property.Err → String
  | .badName => "badName" | .unknownId => "unknownId" | .wrongType => "wrongType"
  | .unknownProperty => "unknownProperty" | .rejected => "rejected"

structure St where
  bomb : Property.St := {}
  custom : Property.St := {}

def getSt (st : St) (t : String) : Property.St := if t == "bomb" then st.bomb else st.custom
def putSt (st : St) (t : String) (s : Property.St) : St := if t == "bomb" then { st with bomb := s } else { st with custom := s }

def parseName (kind x : String) : Name :=
  match kind with
  | "name" => .byName (nameCode x)
  | "id" => .byId x.toNat!
  | _ => .other

def eventsStr (cfg : Cfg) (s : Property.St) : String :=
  " ".intercalate (cfg.decls.map (fun d =>
    let evs := s.events.filter (fun e => e.1 == d.id)
    s!"{d.id}=[{",".intercalate (evs.map (fun e => s!"{sigStr e.2.sig}:{e.2.data}"))}]"))

/-! a brute-force linearizability acceptor for short histories of one register per property -/

structure HOp where
  inv : Nat
  resp : Nat
  isWrite : Bool
  name : Nat
  val : Nat            -- written value / value read (0 = nothing read)
  ok : Bool            -- accepted write / successful read
  deriving Repr

/-- depth-first search for a linearization: pick any operation no pending operation responded before -/
partial def search (ops : List HOp) (reg : List (Nat × Nat)) : Bool :=
  if ops.isEmpty then true else
  let minimal := ops.filter (fun o => ops.all (fun p => !(p.resp < o.inv)))
  minimal.any (fun o =>
    let rest := ops.filter (fun p => !(p.inv == o.inv && p.resp == o.resp))
    if o.isWrite then
      if o.ok then search rest ((o.name, o.val) :: reg.filter (·.1 != o.name)) else search rest reg
    else
      let cur := (reg.find? (·.1 == o.name)).map (·.2)
      if cur == (if o.ok then some o.val else none) then search rest reg else false)

def parseH : List String → List HOp
  | inv :: resp :: k :: name :: val :: ok :: rest =>
    ⟨inv.toNat!, resp.toNat!, k == "w", nameCode name, val.toNat!, ok == "1"⟩ :: parseH rest
  | _ => []

def run (st : St) (args : List String) : St × String :=
  match args with
  | ["pr.reset"] =>
    -- the bomb's Activate sets delay to 10 itself
    let b := (updateProp (cfgOf "bomb") {} 101 10).1
    ({ bomb := { b with events := [] } }, "ok")   -- the harness subscribes afterwards
  | ["pr.set", t, kind, x, sg, data] =>
    let (s', r) := setProp (cfgOf t) (getSt st t) (parseName kind x) ⟨sigCode sg, data.toNat!⟩
    (putSt st t s', match r with | .ok _ => "ok" | .error e => "err:" ++ perrStr e)
  | ["pr.get", t, name] =>
    match (getSt st t).get (nameCode name) with
    | some v => (st, s!"val {sigStr v.sig} {v.data}")
    | none => (st, "err")
  | ["pr.update", t, id, data] =>
    let (s', r) := updateProp (cfgOf t) (getSt st t) id.toNat! data.toNat!
    (putSt st t s', match r with | .ok _ => "ok" | .error e => "err:" ++ perrStr e)
  | ["pr.events", t] => (st, eventsStr (cfgOf t) (getSt st t))
  -- removing one user of the table keeps the others (Props/C13 remove_keeps_others); every accepted write is announced once (accepted_write_effect)
  | ["pr.tworoutes", _] => (st, "ok")   -- an announcement carries the value of the write it belongs to (Props/C14: `accepted_write_effect`, `rejected_write_is_noop`, `concurrent_register`), whichever route the write took
  | ["pr.twosubs"] => (st, "level=1 gain=2 after-cancel level=3 level=4")
  | ["pr.sameuid"] =>
    -- the server's table refuses a user id that is there (Signals.addUser; Props/C12 duplicate_is_refused), whatever signal it is for
    let us := (Signals.addUser [] ⟨7, 200, 0⟩).getD []
    let second := match Signals.addUser us ⟨7, 201, 0⟩ with | some _ => "accepted" | none => "refused"
    (st, s!"first=accepted second={second} event=42 unregister=answered")
  | ["pr.hanguprace"] => (st, "[42 43] [42 43]")   -- the same when the one that goes is lost rather than leaving
  | ["pr.emitrace"] => (st, "[42 43]")   -- one event per accepted write to each subscriber (one_event_per_committed_write), whoever else comes or goes
  | ["pr.cross", _, _] => (st, "ok")   -- Props/C14.independent_registers: a property is what was last written to it
  | ["pr.burst", _, _] => (st, "ok")   -- Props/C14Events.one_event_per_committed_write, on every interleaving
  | "pr.lin" :: init :: h =>
    -- the register starts with `level = init`
    (st, if search (parseH h) [(nameCode "level", init.toNat!)] then "lin" else "notlin")
  | _ => (st, "bad-op")

end QiVerif.Driver.C14
