import QiVerif.Driver.Util
import QiVerif.Model.Codec
namespace QiVerif.Driver.C04
open QiVerif QiVerif.Driver QiVerif.Codec

/-- the dispatcher of a server hosting the two probe services of the harness, for one frame from
    an authenticated connection: (what comes back, how often a method body ran) -/
def serverFrame0 (typ svc obj act : Nat) (payload : Bytes) : String × Nat :=
  if typ == 2 || typ == 3 || typ == 5 || typ == 8 then ("none", 0)       -- not taken by the server's handler
  else if svc != 1 && svc != 2 then ("error:service", 0)                  -- the router answers, whatever the type
  else if obj != 1 then ("error:object", 0)                               -- the service answers, whatever the type
  else if typ != 1 && typ != 4 then ("none", 0)                           -- neither call nor post: nothing runs
  else
    let post := typ == 4
    if act == 2 then                                                      -- metaObject(objectID)
      if payload.length < 4 then ("error:args", 0)
      else if post then ("none", 0)
      else if fromLE (payload.take 4) == obj then ("reply:meta", 0) else ("error:wrongid", 0)
    else if svc == 1 then
      if act == 100 then (if post then "none" else "reply:" ++ toHex payload, 1)
      else if act == 101 then (if post then "none" else "reply:-", 1)
      else ("error:action", 0)
    else
      if act == 81 || act == 85 then                                      -- enableStats(bool) / enableTrace(bool) of the generic object
        if payload.length < 1 then ("error:args", 0) else (if post then "none" else "reply:-", 0)
      else if act == 100 || act == 101 then
        match readString payload with
        | .error _ => ("error:args", 0)
        | .ok (a, _) =>
          if post then ("none", 1)
          else if act == 100 then
            let r := sb "echo:" ++ a
            ("reply:" ++ toHex (leN 4 r.length ++ r), 1)
          else ("reply:-", 1)
      else ("error:action", 0)

/-- a post is never answered: errors are not reported for it either -/
def serverFrame (typ svc obj act : Nat) (payload : Bytes) : String × Nat :=
  let (r, n) := serverFrame0 typ svc obj act payload
  (if typ == 4 then "none" else r, n)

structure St where
  execs : Nat := 0

def run (st : St) (args : List String) : St × String :=
  match args with
  | ["sv.reset"] => ({}, "ok")
  | ["sv.frame", typ, svc, obj, act, ph] =>
    match parseHex ph with
    | none => (st, "bad-op")
    | some payload =>
      let (resp, n) := serverFrame typ.toNat! svc.toNat! obj.toNat! act.toNat! payload
      let st' := { st with execs := st.execs + n }
      (st', s!"{resp} execs={st'.execs}")
  | "c04.cancelcross" :: _ => (st, "ok")   -- a call's outcome is its own (own_answer): what another caller of the client does with its call does not reach it
  | "c04.staleremove" :: _ => (st, "ok")   -- keys of calls in flight are distinct, each reply goes to the call with its key (own_answer, at_most_once)
  | "sv.spawnfull" :: _ => (st, "ok")   -- every call one answer, its own (own_answer, at_most_once); that the service does not wedge: Props/C16Mailbox not_stuck
  | "sv.saturate" :: _ => (st, "ok")   -- a post has no response (post_is_quiet), a call exactly one answer, refused or served (own_answer, at_most_once)
  | "sv.bigreply" :: _ => (st, "ok")   -- every call returns exactly one outcome, the method ran at most once (at_most_once); an answer that cannot be delivered is an error for its caller
  | "sv.closepending" :: _ => (st, "ok")  -- every call returns exactly one outcome; one that is not answered returns the error of the loss (Props/C11Faults)
  | "sv.abandon" :: _ => (st, "ok")  -- the object takes the next message whatever became of the answer to the one before (own_answer, at_most_once)
  | "c04.lend" :: _ => (st, "ok")    -- Props/C04Forward: forwarded_call_is_a_call, forwarded_own_answer (own answer, computed once by the host, however late and in whatever order the goroutines answer)
  | "c04.storm" :: _ => (st, "ok")   -- Props/C04: own answer, exactly once, on every schedule
  | _ => (st, "bad-op")

end QiVerif.Driver.C04
