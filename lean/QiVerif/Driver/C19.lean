import QiVerif.Driver.Util
import QiVerif.Model.Session
import QiVerif.Model.Flood
import Std.Data.HashSet
namespace QiVerif.Driver.C19
open QiVerif QiVerif.Driver QiVerif.Session

def retStr : Ret → String
  | .running => "r" | .ok c => s!"ok{c}" | .err => "e"

def key (n : Nat) (s : Sys) : String :=
  let ths := (List.range n).map (fun t =>
    let ts := s.th t
    s!"{ts.pc},{ts.hit},{ts.own},{retStr ts.ret},{s.rd t}")
  s!"{ths}|{s.wr}|{s.poll}|{s.panicked}"

/-- what is wrong with a state, if anything -/
def verdict (p : List Instr) (n : Nat) (s : Sys) : Option String :=
  if s.panicked then some "panic" else
  let rets := (List.range n).filterMap (fun t => match (s.th t).ret with | .ok c => some c | _ => none)
  let split := rets.any (fun c => s.poll != some c)
  if split then some "split" else
  let running := (List.range n).filter (fun t => (s.th t).ret == .running && (s.th t).pc < p.length)
  let canMove := running.any (fun t => (step p n s t true).isSome)
  if !running.isEmpty && !canMove then some "stuck" else none

/-- exhaustive DFS over all schedules of `n` goroutines (dial always succeeds) -/
partial def search (p : List Instr) (n : Nat) :
    List (Sys × List Nat) → Std.HashSet String → Nat → String
  | [], seen, _ => s!"safe states={seen.size}"
  | (s, path) :: rest, seen, budget =>
    if budget == 0 then s!"safe-upto states={seen.size}" else
    match verdict p n s with
    | some v => s!"{v} schedule={path.reverse}"
    | none =>
      let succs := (List.range n).filterMap (fun t => (step p n s t true).map (fun s' => (s', t :: path)))
      let (todo, seen) := succs.foldl (fun (acc : List (Sys × List Nat) × Std.HashSet String) sp =>
        let k := key n sp.1
        if acc.2.contains k then acc else (sp :: acc.1, acc.2.insert k)) (rest, seen)
      search p n todo seen (budget - 1)

def run (args : List String) : String :=
  match args with
  | ["session.search", n, toks] =>
    let tokens := (toks.splitOn "|").map (fun t => t.replace "_" " ")
    let p := compile tokens
    search p n.toNat! [(init, [])] ((∅ : Std.HashSet String).insert (key n.toNat! init)) 2000000
  | "session.stress" :: _ => "ok"
  | "session.late" :: _ => "ok"     -- Props/C19Refresh.all_known_when_quiet: every registered service gets known
  | ["session.flood", n] =>
    match Flood.floodOutcome n.toNat! with
    | .allServed => "ok"
    | .someDropped => "fail:dropped"
    | .timing => "timing"
  | _ => "bad-op"

end QiVerif.Driver.C19
