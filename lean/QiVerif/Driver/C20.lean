import QiVerif.Driver.Util
import QiVerif.Model.Convert
namespace QiVerif.Driver.C20
open QiVerif QiVerif.Driver QiVerif.Convert

/-- the machine's IEEE conversions -/
def nativeOps : FloatOps where
  widen b := (Float32.ofBits b).toFloat.toBits
  narrow b := (Float.ofBits b).toFloat32.toBits

/- token syntax (prefix):
   type  : b | i8 i16 i32 i64 | u8 u16 u32 u64 | f32 | f64 | s | [ T | { K V | ( n name T …
   value : b 0/1 | i <int> | u <nat> | f32 <hex> | f64 <hex> | s <hex> | [ n v… | { n k v … | ( n name v … -/

partial def parseType : List String → Option (GoType × List String)
  | "b" :: r => some (.bool, r)
  | "i8" :: r => some (.int 8, r) | "i16" :: r => some (.int 16, r)
  | "i32" :: r => some (.int 32, r) | "i64" :: r => some (.int 64, r)
  | "u8" :: r => some (.uint 8, r) | "u16" :: r => some (.uint 16, r)
  | "u32" :: r => some (.uint 32, r) | "u64" :: r => some (.uint 64, r)
  | "f32" :: r => some (.f32, r) | "f64" :: r => some (.f64, r)
  | "s" :: r => some (.str, r)
  | "[" :: r => do let (t, r) ← parseType r; some (.slice t, r)
  | "{" :: r => do let (k, r) ← parseType r; let (v, r) ← parseType r; some (.map k v, r)
  | "(" :: n :: r =>
    let rec fields : Nat → List String → List (FName × GoType) → Option (GoType × List String)
      | 0, r, acc => some (.struct acc.reverse, r)
      | k + 1, name :: r, acc => do let (t, r) ← parseType r; fields k r ((name.toList, t) :: acc)
      | _, _, _ => none
    fields n.toNat! r []
  | _ => none

def hexNat (s : String) : Nat :=
  s.toList.foldl (fun acc c => 16 * acc + (hexDigit c).getD 0) 0

partial def parseVal : List String → Option (GoVal × List String)
  | "b" :: x :: r => some (.bool (x == "1"), r)
  | "i" :: x :: r => x.toInt?.map (fun i => (.int i, r))
  | "u" :: x :: r => x.toNat?.map (fun n => (.uint n, r))
  | "f32" :: x :: r => some (.f32 (UInt32.ofNat (hexNat x)), r)
  | "f64" :: x :: r => some (.f64 (UInt64.ofNat (hexNat x)), r)
  | "s" :: x :: r => (parseHex x).map (fun b => (.str (String.fromUTF8! (ByteArray.mk b.toArray)), r))
  | "[" :: n :: r =>
    let rec elems : Nat → List String → List GoVal → Option (GoVal × List String)
      | 0, r, acc => some (.slice acc.reverse, r)
      | k + 1, r, acc => do let (v, r) ← parseVal r; elems k r (v :: acc)
    elems n.toNat! r []
  | "{" :: n :: r =>
    let rec entries : Nat → List String → List (GoVal × GoVal) → Option (GoVal × List String)
      | 0, r, acc => some (.map acc.reverse, r)
      | k + 1, r, acc => do let (a, r) ← parseVal r; let (b, r) ← parseVal r; entries k r ((a, b) :: acc)
    entries n.toNat! r []
  | "(" :: n :: r =>
    let rec fields : Nat → List String → List (FName × GoVal) → Option (GoVal × List String)
      | 0, r, acc => some (.struct acc.reverse, r)
      | k + 1, name :: r, acc => do let (v, r) ← parseVal r; fields k r ((name.toList, v) :: acc)
      | _, _, _ => none
    fields n.toNat! r []
  | _ => none

def hexN (digits : Nat) (n : Nat) : String :=
  String.ofList ((List.range digits).reverse.map (fun i => hexChar ((n / 16 ^ i) % 16)))

def insertSorted (s : String) : List String → List String
  | [] => [s]
  | x :: r => if s ≤ x then s :: x :: r else x :: insertSorted s r

partial def render : GoVal → String
  | .bool b => if b then "b1" else "b0"
  | .int i => s!"i{i}"
  | .uint n => s!"u{n}"
  | .f32 b => "f32:" ++ hexN 8 b.toNat
  | .f64 b => "f64:" ++ hexN 16 b.toNat
  | .str s => "s:" ++ toHex s.toUTF8.toList
  | .slice xs => "[" ++ ",".intercalate (xs.map render) ++ "]"
  | .map kvs =>
    -- a Go map holds one entry per key: source keys that a narrowing conversion maps to the same
    -- target key collapse (entries that are equal after conversion are one entry)
    let es := (kvs.map (fun p => render p.1 ++ "=" ++ render p.2)).eraseDups
    "{" ++ ",".intercalate (es.foldl (fun acc e => insertSorted e acc) []) ++ "}"
  | .struct fs => "(" ++ ",".intercalate (fs.map (fun p => String.ofList p.1 ++ ":" ++ render p.2)) ++ ")"

/-- two entries of a converted map have the same key and different values: which one the Go map
    keeps depends on the iteration order of the source map -/
partial def keyClash : GoVal → Bool
  | .slice xs => xs.any keyClash
  | .struct fs => fs.any (fun p => keyClash p.2)
  | .map kvs =>
    let es := kvs.map (fun p => (render p.1, render p.2))
    kvs.any (fun p => keyClash p.1 || keyClash p.2) ||
      es.any (fun a => es.any (fun b => a.1 == b.1 && a.2 != b.2))
  | _ => false

def splitBar (ws : List String) : List (List String) :=
  ws.foldr (fun w acc => if w == "|" then [] :: acc else match acc with
    | [] => [[w]]
    | a :: r => (w :: a) :: r) [[]]

def run (args : List String) : String :=
  match args with
  | "conv" :: rest =>
    match splitBar rest with
    | tt :: vt :: _ =>   -- a third section (the source type, for the Go side) is ignored
      match parseType tt, parseVal vt with
      | some (t, []), some (v, []) =>
        match convert nativeOps t v with
        | .ok r => if keyClash r then "nondet" else "ok " ++ render r
        | .error _ => "err"
      | _, _ => "bad-op"
    | _ => "bad-op"
  | "convdec" :: rest =>
    -- the value arrives encoded and is decoded into the target (`DecodeFrom`: decode as the source type, then convert):
    -- what the conversion gives (the codec is C03's subject)
    match splitBar rest with
    | tt :: vt :: _ =>
      match parseType tt, parseVal vt with
      | some (t, []), some (v, []) =>
        match convert nativeOps t v with
        | .ok r => if keyClash r then "nondet" else "ok " ++ render r
        | .error _ => "err"
      | _, _ => "bad-op"
    | _ => "bad-op"
  | "convrt" :: rest =>
    -- source type | target type | value : convert into the target, then back
    match splitBar rest with
    | [st, tt, vt] =>
      match parseType st, parseType tt, parseVal vt with
      | some (s, []), some (t, []), some (v, []) =>
        match convert nativeOps t v with
        | .error _ => "err"
        | .ok r =>
          if keyClash r then "nondet" else
          match convert nativeOps s r with
          | .error _ => "ok " ++ render r ++ " back err"
          | .ok b => if keyClash b then "nondet" else "ok " ++ render r ++ " back " ++ render b
      | _, _, _ => "bad-op"
    | _ => "bad-op"
  -- the result of a conversion is a value of its own (the model's `convert` builds it from the source's content):
  -- what the caller does to it afterwards does not reach the source
  | "convrace" :: _ => "ok"   -- two goroutines, one pair of types: what each gets is what `conv` gives (the model has no goroutines; decided by the oracle of the harness)
  | "convalias" :: rest =>
    match splitBar rest with
    | [st, tt, vt] =>
      match parseType st, parseType tt, parseVal vt with
      | some (s, []), some (t, []), some (v, []) =>
        match convert nativeOps t v with
        | .ok _ => "ok unchanged"
        | .error _ => "err"
      | _, _, _ => "bad-op"
    | _ => "bad-op"
  | "convre" :: rest =>
    -- source type | target type | value 1 | value 2 : the same destination is converted into twice (types
    -- without maps); the second conversion gives what a fresh destination gives, value 1 does not matter
    match splitBar rest with
    | st :: tt :: _ :: vals =>
      match parseType st, parseType tt, (vals.getLast?.bind parseVal) with
      | some (s, []), some (t, []), some (v, []) =>
        match convert nativeOps t v with
        | .error _ => "err"
        | .ok r =>
          match convert nativeOps s r with
          | .error _ => "ok " ++ render r ++ " back err"
          | .ok b => "ok " ++ render r ++ " back " ++ render b
      | _, _, _ => "bad-op"
    | _ => "bad-op"
  | _ => "bad-op"

end QiVerif.Driver.C20
