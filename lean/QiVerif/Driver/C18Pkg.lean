import QiVerif.Driver.Util
import QiVerif.Model.IdlPackage
namespace QiVerif.Driver.C18Pkg
open QiVerif QiVerif.Driver QiVerif.Idl

def str (b : Bytes) : String := String.fromUTF8! (ByteArray.mk b.toArray)

def sigStr (o : Option Bytes) : String := match o with | some b => str b | none => "NO-ANSWER"

def insertBy (p : Nat × String) : List (Nat × String) → List (Nat × String)
  | [] => [p]
  | x :: r => if p.1 ≤ x.1 then p :: x :: r else x :: insertBy p r

def tupleSig (sc : List Entry) (ps : List Param) : String :=
  "(" ++ String.join (ps.map (fun p => sigStr (resolve sc p.ty))) ++ ")"

def renderAction (sc : List Entry) (uid : Nat) (a : Action) : String :=
  match a.kind with
  | .fn =>
    let ret := match a.ret with | none => "v" | some t => sigStr (resolve sc t)
    s!"fn {uid} {str a.name} {tupleSig sc a.params} -> {ret} [{",".intercalate (a.params.map (fun q => str q.name))}]"
  | .sig => s!"sig {uid} {str a.name} {tupleSig sc a.params}"
  | .prop =>
    let sg := match a.params with
      | [p] => sigStr (resolve sc p.ty)      -- a property with one parameter has the signature of its value
      | ps => tupleSig sc ps
    s!"prop {uid} {str a.name} {sg}"

def renderItf (sc : List Entry) (itf : Itf) : String :=
  let sorted (m : List (Nat × Action)) : List String :=
    ((m.map (fun p => (p.1, renderAction sc p.1 p.2))).foldl (fun acc e => insertBy e acc) []).map (·.2)
  "; ".intercalate (sorted itf.methods ++ sorted itf.signals ++ sorted itf.props)

/-- a struct block that entered the scope (no earlier block had its name) is the object references find:
    its references are those of entry `si` of the scope; a block whose name was taken is an object apart -/
def renderDecls (sc : List Entry) : List PDecl → Nat → Nat → List Bytes → List String
  | [], _, _, _ => []
  | .struct d :: r, i, si, seen =>
    let owner := if seen.contains d.name then 1000000 + i else si + 1
    s!"struct {str d.name} {sigStr (resolveDecl sc owner d)}" :: renderDecls sc r (i + 1) (si + 1) (d.name :: seen)
  | .enum n :: r, i, si, seen => s!"enum {str n}" :: renderDecls sc r (i + 1) si seen
  | .itf n as :: r, i, si, seen =>
    s!"itf {str n}: {renderItf sc (assignIds as 100 {})}" :: renderDecls sc r (i + 1) (si + 1) (n :: seen)

/-- `idl.pkg <hex of the text>`: `ParsePackage`, then every declaration with what `Signature()` / `MetaObject()` say -/
def run (args : List String) : String :=
  match args with
  | ["idl.pkg", h] =>
    match parseHex h with
    | none => "bad-op"
    | some text =>
      match parsePackage text with
      | none => "err"
      | some (name, ds) => "ok " ++ str name ++ " | " ++ " | ".intercalate (renderDecls (scopeOfDecls ds) ds 0 0 [])
  | _ => "bad-op"

end QiVerif.Driver.C18Pkg
