import QiVerif.Driver.Util
import QiVerif.Model.Directory
namespace QiVerif.Driver.C15
open QiVerif QiVerif.Driver QiVerif.Directory

structure St where
  d : Dir := {}
  names : List String := []      -- code k+1 ↦ names[k]

def code (st : St) (n : String) : St × Nat :=
  if n == "-" then (st, 0) else
  match st.names.findIdx? (· == n) with
  | some i => (st, i + 1)
  | none => ({ st with names := st.names ++ [n] }, st.names.length + 1)

def nameOf (st : St) (c : Nat) : String := if c == 0 then "-" else (st.names[c - 1]?).getD "?"

/-- `a,b` ↦ endpoint codes; `-` is the empty list; `E` an empty endpoint string -/
def endpoints (s : String) : List Nat :=
  if s == "-" then [] else (s.splitOn ",").map (fun e => if e == "E" then 0 else e.toNat! + 1)

/-- the machine of what the hosting server registers itself: its own, not a scripted one -/
def hostMachine : Nat := 999999

def mkInfo (st : St) (name machine process eps : String) (id : Nat) : St × Info :=
  let (st1, c) := code st name
  let (st2, m) := code st1 machine
  (st2, { name := c, id := id, machine := m, process := process.toNat!, endpoints := endpoints eps })

def fresh : St :=
  let (st, c) := code {} "ServiceDirectory"
  let (d1, _) := register {} { name := c, machine := hostMachine }
  { st with d := (ready d1 1).1 }

/-- everything an entry says (machine, process, endpoints), so that a list or a lookup that lags
    behind an update shows -/
def showInfo (st : St) (i : Info) : String :=
  if i.machine == hostMachine then s!"{i.id}:{nameOf st i.name}:host" else
  let eps := if i.endpoints.isEmpty then "-" else
    ",".intercalate (i.endpoints.map (fun e => if e == 0 then "E" else toString (e - 1)))
  s!"{i.id}:{nameOf st i.name}:{nameOf st i.machine}:{i.process}:{eps}"

def listStr (st : St) : String :=
  " ".intercalate ((list st.d).map (showInfo st))

def eventsStr (st : St) : String :=
  let added := st.d.events.filterMap (fun e => match e with | .added i n => some s!"{i}:{nameOf st n}" | _ => none)
  let removed := st.d.events.filterMap (fun e => match e with | .removed i n => some s!"{i}:{nameOf st n}" | _ => none)
  -- the subscriber of the harness joins after the directory registered itself
  s!"added=[{",".intercalate (added.drop 1)}] removed=[{",".intercalate removed}]"

/-! a brute-force linearizability acceptor for short directory histories -/

structure HOp where
  inv : Nat
  resp : Nat
  kind : String     -- reg ready unreg service
  name : Nat
  id : Nat
  res : Int         -- returned id / 1 ok / -1 error
  tag : Nat
  deriving Repr

def applyOp (d : Dir) (o : HOp) : Option Dir :=
  match o.kind with
  | "reg" =>
    let (d', r) := register d { name := o.name }
    (match r with
     | some k => if o.res == (k : Int) then some d' else none
     | none => if o.res == -1 then some d' else none)
  | "ready" =>
    let (d', ok) := ready d o.id
    if (if ok then 1 else -1) == o.res then some d' else none
  | "unreg" =>
    let (d', ok) := unregister d o.id
    if (if ok then 1 else -1) == o.res then some d' else none
  | "service" =>
    (match lookup d o.name with
     | some i => if o.res == (i.id : Int) then some d else none
     | none => if o.res == -1 then some d else none)
  | _ => none

partial def search (ops : List HOp) (d : Dir) : Bool :=
  if ops.isEmpty then true else
  let minimal := ops.filter (fun o => ops.all (fun p => !(p.resp < o.inv)))
  minimal.any (fun o =>
    match applyOp d o with
    | some d' => search (ops.filter (fun p => p.tag != o.tag)) d'
    | none => false)

def run (st : St) (args : List String) : St × String :=
  match args with
  | ["sd.reset"] => (fresh, "ok")
  -- a subscriber whose connection takes no more writes: what an operation does and answers does not depend on who listens
  | ["sd.deaf"] => (st, "ok")
  | ["sd.reg", name, machine, process, eps] =>
    let (st1, i) := mkInfo st name machine process eps 0
    let (d', r) := register st1.d i
    ({ st1 with d := d' }, match r with | some k => s!"ok {k}" | none => "err")
  | ["sd.ready", id] => let (d', ok) := ready st.d id.toNat!; ({ st with d := d' }, if ok then "ok" else "err")
  | ["sd.unreg", id] => let (d', ok) := unregister st.d id.toNat!; ({ st with d := d' }, if ok then "ok" else "err")
  | ["sd.update", id, name, machine, process, eps] =>
    let (st1, i) := mkInfo st name machine process eps id.toNat!
    let (d', ok) := update st1.d i
    ({ st1 with d := d' }, if ok then "ok" else "err")
  | ["sd.service", name] =>
    let (st1, c) := code st name
    (st1, match lookup st1.d c with | some i => showInfo st1 i | none => "err")
  | ["sd.services"] => (st, listStr st)
  | ["sd.lnew", name] =>
    let (st1, c) := code st name
    let (d1, r) := register st1.d { name := c, machine := hostMachine }
    (match r with
     | some k => ({ st1 with d := (ready d1 k).1 }, s!"ok {k}")
     | none => (st1, "err"))
  | ["sd.lterm", id] => ({ st with d := (unregister st.d id.toNat!).1 }, "ok")
  | ["sd.events"] => (st, eventsStr st)
  | "sd.history" :: _ => (st, "recorded")
  | "sd.samename" :: _ => (st, "ok")    -- a registration is one atomic step (Tie/C15): one_holder_per_name on every order
  | "sd.stress" :: _ => (st, "ok")      -- atomic steps: no interleaving breaks the registry
  | "sd.updaterace" :: _ => (st, "ok")  -- an update is one step of the machine: after the removal it finds nothing to update (inv_update, update_keeps_name_and_id)
  | "sd.evrace" :: _ => (st, "ok")      -- a step and its event are one action: events follow the transitions (events_once_per_transition)
  | "sd.lin" :: h =>
    let rec parse : List String → Nat → St → List HOp → St × List HOp
      | inv :: resp :: kind :: name :: id :: res :: rest, tag, s, acc =>
        let (s1, c) := code s name
        parse rest (tag + 1) s1 (acc ++ [⟨inv.toNat!, resp.toNat!, kind, c, id.toNat!, res.toInt!, tag⟩])
      | _, _, s, acc => (s, acc)
    let (st1, ops) := parse h 0 fresh []
    (st, if search ops st1.d then "lin" else "notlin")
  | _ => (st, "bad-op")

end QiVerif.Driver.C15
