import QiVerif.Driver.Util
import QiVerif.Model.Decode
import QiVerif.Model.Message
namespace QiVerif.Driver.C07
open QiVerif QiVerif.Driver QiVerif.Sig QiVerif.Codec QiVerif.Value QiVerif.Decode

def classOf {α} : Res α → String
  | .ok _ => "ok"
  | .error .hang => "hang"
  | .error .panic => "panic"
  | .error _ => "err"

def serviceInfoSig : String :=
  "(sIsI[s]ss)<ServiceInfo,name,serviceId,machineId,processId,endpoints,sessionId,objectUid>"

def metaObjectSig : String :=
  "({I(Issss[(ss)<MetaMethodParameter,name,description>]s)<MetaMethod,uid,returnSignature,name,parametersSignature,description,parameters,returnDescription>}{I(Iss)<MetaSignal,uid,name,signature>}{I(Iss)<MetaProperty,uid,name,signature>}s)<MetaObject,methods,signals,properties,description>"

def genType (name : String) : Option Ty :=
  let sig := if name == "MetaObject" then some metaObjectSig
    else if name == "ObjectReference" then some objRefSigString
    else if name == "ServiceInfo" then some serviceInfoSig else none
  match sig with
  | none => none
  | some s => match parseSig s.toUTF8.toList with | .ok t => some t | .error _ => none

/-- deepest nesting of `(` in the text -/
def parenDepth (inp : Bytes) : Nat :=
  (inp.foldl (fun (acc : Nat × Nat) b =>
    if b == 40 then (acc.1 + 1, max acc.2 (acc.1 + 1)) else if b == 41 then (acc.1 - 1, acc.2) else acc) (0, 0)).2

/-- c07 <entry> <hex>: the outcome class of one decoder entry point -/
def run (maxPayload : Nat) (args : List String) : String :=
  match args with
  | ["c07.deep", _, _] => "err"      -- far beyond MaxDepth: refused before the parser is called (C09.too_deep_refused)
  | "c07" :: entry :: rest =>
    let data := match rest with | [h] => (parseHex h).getD [] | _ => []
    if entry == "msg" then
      let s : Stream := if data.isEmpty then [] else [.data data true]
      match (Message.readMsg maxPayload s).1 with
      | .ok _ => "ok"
      | .error _ => "err"
    else if entry == "val" then classOf (newValue data)
    else if entry == "cap" then classOf (decodeCapMap data)
    else if entry == "sig" then
      -- every `(` is parsed twice (struct alternative, then tuple alternative): 2^depth steps
      -- (Props/C07.lean); beyond depth 9 the verdict is "resource blow-up" without running it
      if parenDepth data ≥ 10 then "hang" else classOf (parseSig data)
    else if entry.startsWith "gen:" then
      match genType (entry.drop 4).toString with
      | some t => classOf (decodeGenerated t data)
      | none => "bad-op"
    else if entry.startsWith "rd:" then classOf (readSig (entry.drop 3).toString.toUTF8.toList data)
    else if entry.startsWith "refl:" then
      match parseSig (entry.drop 5).toString.toUTF8.toList with
      | .ok t => classOf (decodeReflect t data)
      | .error _ => "bad-op"
    else "bad-op"
  | _ => "bad-op"

end QiVerif.Driver.C07
