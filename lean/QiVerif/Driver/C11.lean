import QiVerif.Driver.Util
import QiVerif.Model.Client
namespace QiVerif.Driver.C11
open QiVerif QiVerif.Driver QiVerif.Endpoint QiVerif.Client

/-- the harness's own sentinel handler occupies slot 0 -/
def fresh : W := { ep := (make {} ⟨M, 999999, 0, 64, false⟩).1 }

def phaseStr (c : Call) : String :=
  match c.phase with
  | .finished (.reply k) => s!"reply {(k - 3) / 2}"   -- the call's index: ids are 3, 5, 7, … in this world
  | .finished .failed => "failed"
  | .finished .closedErr => "error"
  | .finished .cancelled => "cancelled"
  | _ => "pending"

/-- the harness waits until nothing moves any more -/
def quiesce (w : W) : W := settle (runAsyncs w)

def closerCount (e : EP) (uid : Nat) : Nat :=
  match e.done.find? (·.uid == uid) with
  | some h => h.closer
  | none => 0

/-- a subscription nobody reads until the final observation (its signal number is 50 or more) -/
def isIdle (e : EP) (uid : Nat) : Bool :=
  match (e.slots.filterMap id ++ e.pending ++ e.done).find? (·.uid == uid) with
  | some h => h.spec.residue ≥ 900050
  | none => false

def floodMsgs (a : Nat) : Nat → List Msg
  | 0 => []
  | n + 1 => floodMsgs a n ++ [eventMsg (50 + a) (2000 + 2 * (n + 1))]

def finalStr (w : W) : String :=
  let readers := w.subs.filter (fun s => !isIdle w.ep s.uid)
  let idlers := w.subs.filter (fun s => isIdle w.ep s.uid)
  let subs := readers.map (fun s => s!"sub=[{" ".intercalate (s.forwarded.map toString)}]:{if s.eventsClosed then "closed" else "open"}")
    ++ idlers.map (fun s => s!"idle:{if s.eventsClosed then "closed" else "open"}")
  let cbs := w.cbs.map (fun u => s!"cb={closerCount w.ep u}")
  let calls := w.calls.map phaseStr
  ";".intercalate (subs ++ cbs ++ calls)

def run (w : W) (args : List String) : W × String :=
  match args with
  | ["cl.reset"] => (fresh, "ok")
  | ["cl.call"] =>
    let w' := startCall w
    (w', if w.canWrite then "writing" else "failed")
  | ["cl.call", _] =>     -- which client of the endpoint calls does not matter: one id counter
    let w' := startCall w
    (w', if w.canWrite then "writing" else "failed")
  | ["cl.client"] => (w, "ok")
  | ["cl.replyid", _] =>  -- a reply no handler is waiting for
    if w.readDead || w.closed then (w, "dead") else (w, "dispatched")
  | ["cl.wok", c] => (quiesce (writeOk w c.toNat!), "ok")
  | ["cl.wfail", c] => (quiesce (writeFail w c.toNat!), "ok")
  | ["cl.cancel", c] =>
    match w.calls[c.toNat!]? with
    | some ⟨_, .waiting _⟩ => (quiesce (cancel w c.toNat!), if w.canWrite then "writing" else "failed")
    | _ => (w, "noop")
  | ["cl.reply", c] =>
    match w.calls[c.toNat!]? with
    | some cl => if w.readDead || w.closed then (w, "dead") else (quiesce (deliver w (replyMsg cl.msgId)), "dispatched")
    | none => (w, "bad-op")
  | ["cl.event", a, n] =>
    if w.readDead || w.closed then (w, "dead") else (quiesce (deliver w (eventMsg a.toNat! n.toNat!)), "dispatched")
  | ["cl.eventerr", a] =>
    if w.readDead || w.closed then (w, "dead") else (quiesce (deliver w (eventMsg a.toNat! errId)), "dispatched")
  | "cl.rfail" :: _ => (quiesce (readFail w), "ok")
  | ["cl.closeerr"] => (w, "ok")   -- what the stream's Close reports does not matter: the handlers are closed all the same
  | ["cl.close"] => (quiesce (readFail (localClose w)), "ok")
  | ["cl.out", c] =>
    let w' := quiesce w
    (w', match w'.calls[c.toNat!]? with | some cl => phaseStr cl | none => "bad-op")
  | ["cl.peek", c] =>
    let w' := quiesce w
    (w', match w'.calls[c.toNat!]? with | some cl => phaseStr cl | none => "bad-op")
  | ["cl.sub", a] => (subscribe w a.toNat!, "ok")
  | ["cl.subidle", a] => (subscribe w (50 + a.toNat!), "ok")
  | ["cl.flood", a, n] =>
    -- what does not fit into the queue is dropped (Endpoint.dispatch); nothing else is touched
    if w.readDead || w.closed then (w, "dead")
    else (quiesce ((floodMsgs a.toNat! n.toNat!).foldl deliver w), "dispatched")
  | ["cl.ondisc"] => (onDisconnect w, "ok")
  | ["cl.final"] => let w' := quiesce w; (w', finalStr w')
  | "cl.closegate" :: _ => (w, "ok")   -- Props/C11: late_call_fails, no_call_left_waiting, callbacks_once_subscriptions_closed — the shutdown is one step of the table
  | "cl.storm" :: _ => (w, "ok")   -- Props/C11: every call ends, on every schedule
  | _ => (w, "bad-op")

end QiVerif.Driver.C11
