import QiVerif.Driver.Util
import QiVerif.Model.Auth
namespace QiVerif.Driver.C06
open QiVerif QiVerif.Driver QiVerif.Auth QiVerif.Codec

def dictAcc : Authenticator := fun u t =>
  (u == sb "alice" && t == sb "secret") || (u == sb "bob" && t == []) || (u == [] && t == sb "anon")

def accOf : String → Authenticator
  | "yes" => fun _ _ => true
  | "no" => fun _ _ => false
  | _ => dictAcc

structure St where
  kind : String := "dict"
  srv : Srv := {}
  probes : Nat := 0

def cfgOf (s : St) : Cfg := { acc := accOf s.kind, services := [1, 2] }

def evStr : Ev → String
  | .ignored => "ignored"
  | .refusedClosed => "refused closed"
  | .svcNotFound => "svc-not-found"
  | .objNotFound _ => "obj-not-found"
  | .probe svc => s!"probe {svc}"
  | .queued => "queued"
  | .actionNotFound => "action-not-found"
  | .capError => "cap-error"
  | .authReply n => s!"auth {n}"
  | .silent => "ignored"
  | .badFrame => "closed-without-answer"
  | .dead => "dead"

/-- does the model predict a resource blow-up while parsing this payload (known C07 findings)? -/
def parseHangs (p : Bytes) : Bool :=
  match readCapMap p with
  | .error .hang => true
  | _ => false

partial def drain (cfg : Cfg) (s : Srv) : Srv := if s.box.isEmpty then s else drain cfg (process cfg s)

def run (st : St) (args : List String) : St × String :=
  match args with
  | ["au.reset", kind] => ({ kind := kind }, "ok")
  | ["au.connect"] => ({ st with srv := connect st.srv }, toString st.srv.conns.length)
  | ["au.frame", k, typ, svc, obj, act, ph] =>
    match parseHex ph with
    | none => (st, "bad-op")
    | some payload =>
      if parseHangs payload then (st, "hang") else
      let f : Frame := ⟨typ.toNat!, svc.toNat!, obj.toNat!, act.toNat!, 0, payload⟩
      let n0 := st.srv.trace.length
      let s1 := drain (cfgOf st) (recv (cfgOf st) st.srv k.toNat! f)
      let evs := (s1.trace.drop n0).map (·.2)
      -- the event the peer sees: the last one (queued is followed by the mailbox's answer)
      let ev := evs.getLast?.getD .dead
      let probes := st.probes + (if (match ev with | .probe _ => true | _ => false) then 1 else 0)
      -- a post is never answered: the peer sees nothing, or the connection going away
      let shown := if f.typ == 4 then
          (match ev with
           | .refusedClosed => "closed-without-answer"
           | .badFrame => "closed-without-answer"
           | .dead => "dead"
           | _ => "ignored")
        else evStr ev
      ({ st with srv := s1, probes := probes }, s!"{shown} n={probes}")
  | "au.late" :: _ => (st, "ok")       -- Props/C06: other_connections_untouched, only_credentials_matter — however long the authenticator takes
  | "au.burst" :: _ => (st, "ok")      -- Props/C06.gate: no probe invocation without accepted credentials
  | _ => (st, "bad-op")

end QiVerif.Driver.C06
