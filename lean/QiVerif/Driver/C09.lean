import QiVerif.Driver.Util
import QiVerif.Model.Signature
namespace QiVerif.Driver.C09
open QiVerif QiVerif.Driver QiVerif.Sig

def run (args : List String) : String :=
  match args with
  | ["sig.parse", h] =>
    match parseHex h with
    | none => "bad-op"
    | some inp =>
      match parseSig inp with
      | .error e => errStr e
      | .ok t =>
        let go := match goType t with | some s => s | none => "PANIC"
        s!"ok sig={toHex (print t)} idl={idlName t} go={go.replace " " "_"}"
  | _ => "bad-op"

end QiVerif.Driver.C09
