import QiVerif.Driver.Util
import QiVerif.Model.Signature
namespace QiVerif.Driver.C09
open QiVerif QiVerif.Driver QiVerif.Sig

def run (args : List String) : String :=
  match args with
  | ["sig.parse", h] =>
    match parseHex h with
    | none => "bad-op"
    | some inp =>
      match parseSig inp with
      | .error e => errStr e
      | .ok t =>
        let go := match goType t with | some s => s | none => "PANIC"
        s!"ok sig={toHex (print t)} idl={idlName t} go={go.replace " " "_"}"
  | ["sig.reparse", ha, hb] =>
    -- parsing is a function of the text: what was done with the result of an earlier parse does not matter
    match parseHex ha, parseHex hb with
    | some a, some b =>
      match parseSig a, parseSig b with
      | .ok ta, .ok tb =>
        s!"ok sig={toHex (print ta)} idl={idlName ta} sig={toHex (print tb)} idl={idlName tb}"
      | _, _ => "err"
    | _, _ => "bad-op"
  | ["sig.deep", shape, n] =>
    let k := n.toNat!
    let inp : Bytes := match shape with
      | "list" => List.replicate k 91 ++ [105] ++ List.replicate k 93
      | "map" => (List.replicate k [123, 105]).flatten ++ [105] ++ List.replicate k 125
      | "open" => List.replicate k 91
      | "shut" => List.replicate k 93 ++ List.replicate k 91 ++ [105] ++ List.replicate k 93
      | _ => []
    -- beyond the bound the answer is the guard's (Props/C09.too_deep_refused): the parser is not asked
    if nesting inp > maxDepth then "err" else
    match parseSig inp with
    | .error e => errStr e
    | .ok t => if print t == inp then "ok" else "ok-other-signature"
  | _ => "bad-op"

end QiVerif.Driver.C09
