import QiVerif.Driver.Util
import QiVerif.Model.Decode
namespace QiVerif.Driver.Codec
open QiVerif QiVerif.Driver QiVerif.Sig QiVerif.Codec QiVerif.Value QiVerif.Decode

def insertSorted (s : String) : List String → List String
  | [] => [s]
  | x :: r => if s ≤ x then s :: x :: r else x :: insertSorted s r

partial def renderVal : Val → String
  | .scalar c n => s!"S{Char.ofNat c.toNat}:{n}"
  | .str b => "s:" ++ toHex b
  | .raw b => "r:" ++ toHex b
  | .void => "v"
  | .list xs => "L[" ++ ",".intercalate (xs.map renderVal) ++ "]"
  | .opaque sig data => "O" ++ toHex sig ++ ":" ++ toHex data

partial def renderD : DVal → String
  | .num n => s!"n{n}"
  | .str b => "s" ++ toHex b
  | .list xs => "[" ++ ",".intercalate (xs.map renderD) ++ "]"
  | .map kvs =>
    let es := kvs.map (fun p => renderD p.1 ++ "=" ++ renderD p.2)
    "{" ++ ",".intercalate (es.foldl (fun acc e => insertSorted e acc) []) ++ "}"
  | .tuple xs => "(" ++ ",".intercalate (xs.map renderD) ++ ")"
  | .dyn e => "m" ++ toHex e
  | .void => "v"

/-- value tokens: n<dec> s<hex> v [<k> … {<k> … (<k> … m<sighex> value -/
partial def parseTVal : List String → Option (TVal × List String)
  | [] => none
  | w :: r =>
    if w == "v" then some (.void, r)
    else if w.startsWith "n" then (w.drop 1).toString.toNat?.map (fun n => (.num n, r))
    else if w.startsWith "s" then (parseHex (w.drop 1).toString).map (fun b => (.str b, r))
    else if w.startsWith "m" then
      match parseHex (w.drop 1).toString with
      | none => none
      | some sig =>
        match parseSig sig, parseTVal r with
        | .ok t, some (v, r') => some (.dyn t v, r')
        | _, _ => none
    else if w.startsWith "[" || w.startsWith "(" then
      let k := (w.drop 1).toString.toNat!
      let rec go : Nat → List String → List TVal → Option (List TVal × List String)
        | 0, r, acc => some (acc.reverse, r)
        | n + 1, r, acc => match parseTVal r with
          | some (v, r') => go n r' (v :: acc)
          | none => none
      match go k r [] with
      | some (xs, r') => some (if w.startsWith "[" then .list xs else .tuple xs, r')
      | none => none
    else if w.startsWith "{" then
      let k := (w.drop 1).toString.toNat!
      let rec goP : Nat → List String → List (TVal × TVal) → Option (List (TVal × TVal) × List String)
        | 0, r, acc => some (acc.reverse, r)
        | n + 1, r, acc => match parseTVal r with
          | some (a, r1) => match parseTVal r1 with
            | some (b, r2) => goP n r2 ((a, b) :: acc)
            | none => none
          | none => none
      match goP k r [] with
      | some (xs, r') => some (.map xs, r')
      | none => none
    else none

def resStr {α} (r : Res α) (ok : α → String) : String :=
  match r with
  | .ok v => ok v
  | .error e => errStr e

def run (args : List String) : String :=
  match args with
  | ["rd.read", sigh, datah] =>
    match parseHex sigh, parseHex datah with
    | some sig, some data =>
      resStr (readSig sig data) (fun p => s!"ok {toHex p.1} rest={p.2.length}")
    | _, _ => "bad-op"
  | ["val.read", h] =>
    match parseHex h with
    | some inp =>
      resStr (newValue inp) (fun p => s!"ok {renderVal p.1} rest={p.2.length} re={toHex (writeVal p.1)}")
    | none => "bad-op"
  | "enc.spec" :: sigh :: toks =>
    match parseHex sigh with
    | some sig =>
      match parseSig sig, parseTVal toks with
      | .ok t, some (v, []) => "ok " ++ toHex (D t v)
      | _, _ => "bad-op"
    | none => "bad-op"
  | ["enc.fail", _] => "err"     -- a nil dynamic value has no encoding; a failed write is reported: nothing is kept (the encoder has no state)
  | "enc.reflectp" :: sigh :: toks =>   -- Go's int and uint are the eight-byte integers of the layout
    match parseHex sigh with
    | some sig =>
      match parseSig sig, parseTVal toks with
      | .ok t, some (v, []) => "ok " ++ toHex (encR codecKinds t v)
      | _, _ => "bad-op"
    | none => "bad-op"
  | ["dec.reflectp", sigh, datah] =>
    match parseHex sigh, parseHex datah with
    | some sig, some data =>
      match parseSig sig with
      | .ok t => resStr (decodeReflect t data) (fun p => s!"ok {renderD p.1} rest={p.2.length}")
      | .error _ => "bad-op"
    | _, _ => "bad-op"
  | "enc.reflect" :: sigh :: toks =>
    match parseHex sigh with
    | some sig =>
      match parseSig sig, parseTVal toks with
      | .ok t, some (v, []) => "ok " ++ toHex (encR codecKinds t v)
      | _, _ => "bad-op"
    | none => "bad-op"
  | ["dec.reflect", sigh, datah] =>
    match parseHex sigh, parseHex datah with
    | some sig, some data =>
      match parseSig sig with
      | .ok t => resStr (decodeReflect t data) (fun p => s!"ok {renderD p.1} rest={p.2.length}")
      | .error _ => "bad-op"
    | _, _ => "bad-op"
  -- the destination has been decoded into before (`_first`): what a decode yields is a function of the bytes
  | ["dec.reuse", sigh, _first, datah] =>
    match parseHex sigh, parseHex datah with
    | some sig, some data =>
      match parseSig sig with
      | .ok t => resStr (decodeReflect t data) (fun p => s!"ok {renderD p.1} rest={p.2.length}")
      | .error _ => "bad-op"
    | _, _ => "bad-op"
  | ["dec.gen", sigh, datah] =>
    match parseHex sigh, parseHex datah with
    | some sig, some data =>
      match parseSig sig with
      | .ok t => resStr (decodeGenerated t data) (fun p => s!"ok {renderD p.1} rest={p.2.length}")
      | .error _ => "bad-op"
    | _, _ => "bad-op"
  | ["dec.cap", datah] =>
    match parseHex datah with
    | some data => resStr (decodeCapMap data) (fun p => s!"ok {renderD p.1} rest={p.2.length}")
    | none => "bad-op"
  | _ => "bad-op"

end QiVerif.Driver.Codec
