import QiVerif.Driver.Util
import QiVerif.Model.ServiceAdd
namespace QiVerif.Driver.C16
open QiVerif QiVerif.Driver QiVerif.Service QiVerif.ServiceAdd

def outStr : Out → String
  | .added _ => "added" | .retry => "retry" | .ok => "ok" | .err => "err"
  | .reply => "reply" | .errorReply => "error"

def insertByUid (o : Obj) : List Obj → List Obj
  | [] => [o]
  | x :: r => if o.uid ≤ x.uid then o :: x :: r else x :: insertByUid o r

def stateStr (s : Svc) : String :=
  let all := (s.objects.map (·.2) ++ s.dead).foldl (fun acc o => insertByUid o acc) []
  ";".intercalate (all.map (fun o => s!"u{o.uid}:inv={o.invoked},term={o.terminated},told={o.told.length}"))

def run (s : SvcW) (args : List String) : SvcW × String :=
  let via (o : Op) : SvcW × String := let (s', out) := stepW s (.op o); (s', outStr out)
  match args with
  | ["svc.reset"] => ({}, "ok")
  | ["svc.add", id] => via (.add id.toNat!)
  -- `Add` on the activated service, in its two critical sections: whatever is asked between them runs between them
  | ["svc.addbegin", id] => let (s', o) := stepW s (.addBegin id.toNat!); (s', outStr o)
  | ["svc.addend", id] => let (s', o) := stepW s (.addEnd id.toNat!); (s', outStr o)
  | ["svc.remove", id] => via (.remove id.toNat!)
  | ["svc.call", id] => via (.call id.toNat!)
  | ["svc.term", id, arg] => via (.terminate id.toNat! arg.toNat!)
  | ["svc.sub", id, h] => via (.subscribe id.toNat! h.toNat!)
  -- the same subscription made on the connection of the previous subscriber, to another signal
  | ["svc.sub", id, h, _] => via (.subscribe id.toNat! h.toNat!)
  | ["svc.state"] => (s, stateStr s.svc)
  | ["svc.clientobjs", _] => (s, "ok")   -- identifiers unique, a second removal refused, the others unaffected (ids_unique, remove_frees, others_unaffected): the same machine, the table is the client's
  | ["svc.posttold"] => (s, "ok")   -- every subscriber there at the removal is told (remove_tells_subscribers), however it registered
  | ["svc.termwalk"] => (s, "ok")   -- the subscribers there at the removal are told, each of them (remove_tells_subscribers): the removed instance's list is its own
  | ["svc.hookremove", _] => (s, "ok")   -- each removal is a step of its own (terminate_once, unreachable_after_remove, others_unaffected): the hook runs outside the critical section
  | ["svc.busy", _, _, _] => (s, "ok")   -- a removed object is unreachable (unreachable_after_remove), its hook ran once (terminate_once), the others are unaffected (others_unaffected)
  | ["svc.race", _, _] => ({}, "ok")   -- removal is one atomic action of the model (terminate_once)
  | _ => (s, "bad-op")

end QiVerif.Driver.C16
