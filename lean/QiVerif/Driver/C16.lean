import QiVerif.Driver.Util
import QiVerif.Model.Service
namespace QiVerif.Driver.C16
open QiVerif QiVerif.Driver QiVerif.Service

def outStr : Out → String
  | .added _ => "added" | .retry => "retry" | .ok => "ok" | .err => "err"
  | .reply => "reply" | .errorReply => "error"

def insertByUid (o : Obj) : List Obj → List Obj
  | [] => [o]
  | x :: r => if o.uid ≤ x.uid then o :: x :: r else x :: insertByUid o r

def stateStr (s : Svc) : String :=
  let all := (s.objects.map (·.2) ++ s.dead).foldl (fun acc o => insertByUid o acc) []
  ";".intercalate (all.map (fun o => s!"u{o.uid}:inv={o.invoked},term={o.terminated},told={o.told.length}"))

def run (s : Svc) (args : List String) : Svc × String :=
  match args with
  | ["svc.reset"] => ({}, "ok")
  | ["svc.add", id] => let (s', o) := step s (.add id.toNat!); (s', outStr o)
  | ["svc.remove", id] => let (s', o) := step s (.remove id.toNat!); (s', outStr o)
  | ["svc.call", id] => let (s', o) := step s (.call id.toNat!); (s', outStr o)
  | ["svc.term", id, arg] => let (s', o) := step s (.terminate id.toNat! arg.toNat!); (s', outStr o)
  | ["svc.sub", id, h] => let (s', o) := step s (.subscribe id.toNat! h.toNat!); (s', outStr o)
  -- the same subscription made on the connection of the previous subscriber, to another signal
  | ["svc.sub", id, h, _] => let (s', o) := step s (.subscribe id.toNat! h.toNat!); (s', outStr o)
  | ["svc.state"] => (s, stateStr s)
  | ["svc.busy", _, _, _] => (s, "ok")   -- a removed object is unreachable (unreachable_after_remove), its hook ran once (terminate_once), the others are unaffected (others_unaffected)
  | ["svc.race", _, _] => ({}, "ok")   -- removal is one atomic action of the model (terminate_once)
  | _ => (s, "bad-op")

end QiVerif.Driver.C16
