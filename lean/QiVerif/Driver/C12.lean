import QiVerif.Driver.Util
import QiVerif.Model.Robust
namespace QiVerif.Driver.C12
open QiVerif QiVerif.Driver QiVerif.Robust

/-- the scenarios of the harness: what the model can say about them -/
def run (args : List String) : String :=
  match args with
  | ["c12.run", sc, _] =>
    if sc == "counts" || sc == "flood-not-reading" then "known-weakness"   -- Props/C12 + known findings
    else "ok"   -- subscriptions: Props/C12.object_stays_alive; frames and lengths: C04 / C07 / C08 models
  | _ => "bad-op"

end QiVerif.Driver.C12
