import QiVerif.Driver.Util
import QiVerif.Model.Signals
import QiVerif.Model.SignalsEmit
namespace QiVerif.Driver.C13
open QiVerif QiVerif.Driver QiVerif.Signals

inductive Deferred where
  | sub (gid : Nat)
  | cancel (gid : Nat)

structure Conn where
  c : C := {}
  /-- the machine of the other object's signal on this connection; what the server sends for one
      signal is `Frame.other` for the other one -/
  o : C := {}
  held : Bool := false
  /-- only the unregistration requests of the connection are held -/
  heldUnreg : Bool := false
  deferred : List Deferred := []
  /-- the events sent so far for the registrations made by hand on this connection (`St.table`) -/
  rawWire : Nat := 0

structure St where
  conns : List Conn := []
  subs : List (Nat × Nat) := []      -- global subscriber id ↦ (connection, index in that connection's machine)
  acked : List Nat := []             -- subscribers whose SubscribeID has returned (as seen by the harness)
  osubs : List (Nat × Nat) := []     -- subscribers of the other object ↦ (connection, index in that connection's `o` machine)
  /-- the server's table of users as far as it is made by hand (`sg.rawreg`, `sg.other`): the model's `addUser`,
      `removeUser` and `recipients` (Model/Signals.lean; Props/C13 `no_cross_signal`, `remove_keeps_others`) -/
  table : List User := []
  nextUid : Nat := 700001

partial def drain (c : C) : C := if c.delivered < c.log.length then drain (deliver c) else c

/-- everything that can happen without the harness does happen (the harness waits for quiescence) -/
def settle (k : Conn) : Conn :=
  if k.held then { k with c := drain k.c } else
  if k.heldUnreg then { k with c := drain (srvRegister k.c) } else
  let c1 := drain (srvUnregister (srvRegister k.c))
  { k with c := c1 }

def noises (c : C) : Nat → C
  | 0 => c
  | n + 1 => noises (noise c) n

/-- an operation on the other object's machine (the lock is free, the connection is not held):
    it runs to completion; every frame it puts on the connection is `other` for this signal -/
def otherOp (k : Conn) (f : C → C) : Conn :=
  let o1 := drain (srvUnregister (srvRegister (f k.o)))
  { k with o := o1, c := drain (noises k.c (o1.log.length - k.o.log.length)) }

def setConn (st : St) (i : Nat) (k : Conn) : St := { st with conns := st.conns.set i k }

def subAcked (st : St) (gid : Nat) : Bool :=
  match st.subs[gid]? with
  | some (ci, si) =>
    match st.conns[ci]? with
    | some k => match k.c.subs[si]? with
      | some s => s.since.isSome
      | none => false
    | none => false
  | none => false

/-- run the operations that were waiting for the lock, in order, as far as they can go -/
partial def runDeferred (st : St) (ci : Nat) : St :=
  match st.conns[ci]? with
  | none => st
  | some k =>
    if k.c.op.isSome then st else
    match k.deferred with
    | [] => st
    | .sub gid :: rest =>
      match st.subs[gid]? with
      | some (_, si) =>
        let k1 := settle { k with c := enter k.c si, deferred := rest }
        runDeferred (setConn st ci k1) ci
      | none => st
    | .cancel gid :: rest =>
      match st.subs[gid]? with
      | some (_, si) =>
        let k1 := settle { k with c := cancel k.c si, deferred := rest }
        let k2 := if k1.c.op.isSome then k1 else { k1 with c := leave k1.c si }
        runDeferred (setConn st ci k2) ci
      | none => st

def gotStr (st : St) (gid : Nat) : String :=
  match st.subs[gid]? with
  | some (ci, si) =>
    match st.conns[ci]? with
    | some k => match k.c.subs[si]? with
      | some s =>
        if s.since.isNone then "unacked" else
        s!"[{" ".intercalate (s.got.map (fun x => toString x.2))}] {if s.leftAt.isSome then "closed" else "open"}"
      | none => "[] open"     -- still waiting for the lock: no handler yet
    | none => "bad-op"
  | none => "bad-op"

def run (st : St) (args : List String) : St × String :=
  match args with
  | ["sg.reset"] => ({}, "ok")
  | ["sg.conn"] => ({ st with conns := st.conns ++ [{}] }, toString st.conns.length)
  | ["sg.observe", _] => (st, "ok")   -- statistics and tracing wrap the channel of a message: the user table is keyed by connection
  -- a subscription whose registration fails is undone (Model/Signals `regFail`; Props/C13
  -- failed_registration_gives_back, subscriber_after_a_failure_registers): the count and the lock are given back, the
  -- local handler is removed; the next subscriber registers with the server again
  | ["sg.subfail", k] =>
    match st.conns[k.toNat!]? with
    | some c =>
      if c.c.refs == 0 && c.c.op.isNone then
        let si := c.c.subs.length
        (setConn st k.toNat! { c with c := leave (regFail (enter (attach c.c) si)) si }, "failed")
      else (st, "bad-op")
    | none => (st, "bad-op")
  | ["sg.hold", k] =>
    match st.conns[k.toNat!]? with
    | some c => (setConn st k.toNat! { c with held := true }, "ok")
    | none => (st, "bad-op")
  | ["sg.holdunreg", k] =>
    match st.conns[k.toNat!]? with
    | some c => (setConn st k.toNat! { c with heldUnreg := true }, "ok")
    | none => (st, "bad-op")
  | ["sg.release", k] =>
    match st.conns[k.toNat!]? with
    | some c =>
      let st1 := setConn st k.toNat! (settle { c with held := false, heldUnreg := false })
      -- a cancel that was waiting for its unregistration to go out completes now
      let st2 := match st1.conns[k.toNat!]? with
        | some k1 => setConn st1 k.toNat! { k1 with c := (List.range k1.c.subs.length).foldl (fun c i => leave c i) k1.c }
        | none => st1
      (runDeferred st2 k.toNat!, "ok")
    | none => (st, "bad-op")
  | ["sg.sub", k] =>
    let ci := k.toNat!
    let gid := st.subs.length
    match st.conns[ci]? with
    | some c =>
      -- `client.Subscribe` first: the local handler is there whether or not the lock is free
      let si := c.c.subs.length
      let c1 := attach c.c
      if c.c.op.isSome then
        ({ setConn st ci { c with c := c1, deferred := c.deferred ++ [.sub gid] } with subs := st.subs ++ [(ci, si)] }, s!"pending {gid}")
      else
        let k1 := settle { c with c := enter c1 si }
        let st1 := { setConn st ci k1 with subs := st.subs ++ [(ci, si)] }
        (st1, if subAcked st1 gid then s!"acked {gid}" else s!"pending {gid}")
    | none => (st, "bad-op")
  | ["sg.cancel", g] =>
    let gid := g.toNat!
    match st.subs[gid]? with
    | some (ci, si) =>
      match st.conns[ci]? with
      | some c =>
        if c.c.op.isSome then (setConn st ci { c with deferred := c.deferred ++ [.cancel gid] }, "pending")
        else
          let k1 := settle { c with c := cancel c.c si }
          if k1.c.op.isSome then (setConn st ci k1, "pending")
          else (setConn st ci { k1 with c := leave k1.c si }, "done")
      | none => (st, "bad-op")
    | none => (st, "bad-op")
  | ["sg.emit", p] =>
    let conns := st.conns.map (fun k =>
      { k with c := drain (emit k.c p.toNat!), o := drain (if k.c.registered then noise k.o else k.o) })
    -- one event per user of the signal in the table made by hand, to that user's connection
    let conns := (List.range conns.length).zip conns |>.map (fun (i, k) =>
      { k with rawWire := k.rawWire + ((recipients st.table 102).filter (· == i)).length })
    ({ st with conns := conns }, "ok")
  | ["sg.oemit", p] =>
    ({ st with conns := st.conns.map (fun k => otherOp k (fun o => emit o p.toNat!)) }, "ok")
  | ["sg.oterm"] =>
    -- the other object is removed: every subscriber of its signal is told (an error message: `other` for the signal
    -- of this object) and its channel closes; nothing of that signal is registered any more
    let conns := st.conns.map (fun k =>
      let live := (k.o.subs.filter (fun s => s.leftAt.isNone)).length
      let o1 := { k.o with registered := false, refs := 0, op := none,
                           subs := k.o.subs.map (fun s => if s.leftAt.isNone then { s with leftAt := some k.o.delivered, cancelAt := s.cancelAt.orElse (fun _ => some (k.o.emitted.length, k.o.delivered)) } else s) }
      { k with o := o1, c := drain (noises k.c live) })
    ({ st with conns := conns }, "ok")
  | ["sg.osub", k] =>
    match st.conns[k.toNat!]? with
    | some c =>
      let si := c.o.subs.length
      ({ setConn st k.toNat! (otherOp c (fun o => enter (attach o) si)) with osubs := st.osubs ++ [(k.toNat!, si)] },
        s!"acked {st.osubs.length}")
    | none => (st, "bad-op")
  | ["sg.ocancel", g] =>
    match st.osubs[g.toNat!]? with
    | some (ci, si) =>
      match st.conns[ci]? with
      | some c =>
        -- after the object is gone the cancel function finds nothing to do
        if (c.o.subs[si]?).any (fun s => s.leftAt.isSome) then (st, "done") else
        let k1 := otherOp c (fun o => cancel o si)
        (setConn st ci { k1 with o := leave k1.o si }, "done")
      | none => (st, "bad-op")
    | none => (st, "bad-op")
  | ["sg.ogot", g] =>
    match st.osubs[g.toNat!]? with
    | some (ci, si) =>
      match st.conns[ci]? with
      | some k => match k.o.subs[si]? with
        | some s => (st, s!"[{" ".intercalate (s.got.map (fun x => toString x.2))}] {if s.leftAt.isSome then "closed" else "open"}")
        | none => (st, "bad-op")
      | none => (st, "bad-op")
    | none => (st, "bad-op")
  | ["sg.call", k] =>
    match st.conns[k.toNat!]? with
    | some c => (setConn st k.toNat! { c with c := drain (noise c.c) }, "ok")
    | none => (st, "bad-op")
  | ["sg.other", k] =>
    -- a registration for another signal of the object on this connection: its reply is other traffic; the user table
    -- gets an entry that no emission of this signal concerns (Props/C13: remove_keeps_others, no_cross_signal)
    match st.conns[k.toNat!]? with
    | some c =>
      match addUser st.table ⟨st.nextUid, 999, k.toNat!⟩ with
      | some t => ({ setConn st k.toNat! { c with c := drain (noise c.c) } with table := t, nextUid := st.nextUid + 1 }, "ok")
      | none => (st, "error:duplicate")
    | none => (st, "bad-op")
  -- the server's writes to this connection fail from now on: the others are sent to all the same
  -- (Props/C13Loop every_user_is_sent_to); this connection is not looked at any more
  | ["sg.mute", _] => (st, "ok")
  | ["sg.rawreg", k] =>
    match st.conns[k.toNat!]? with
    | some c =>
      match addUser st.table ⟨st.nextUid, 102, k.toNat!⟩ with
      | some t => ({ setConn st k.toNat! { c with c := drain (noise c.c) } with table := t, nextUid := st.nextUid + 1 }, "ok")
      | none => (st, "error:duplicate")
    | none => (st, "bad-op")
  | ["sg.rawunreg", k] =>
    -- the newest registration of the signal made by hand on this connection
    match st.conns[k.toNat!]?, ((st.table.filter (fun u => u.sig == 102 && u.conn == k.toNat!)).map (·.uid)).getLast? with
    | some c, some uid =>
      match removeUser st.table uid k.toNat! with
      | some t => ({ setConn st k.toNat! { c with c := drain (noise c.c) } with table := t }, "ok")
      | none => (st, "error:unknown user id")
    | _, _ => (st, "bad-op")
  | ["sg.unother", k] =>
    -- the oldest registration for the other signal is given up: again other traffic; the entries of the signal itself
    -- stay (remove_keeps_others)
    match st.conns[k.toNat!]?, ((st.table.filter (fun u => u.sig == 999 && u.conn == k.toNat!)).map (·.uid)).head? with
    | some c, some uid =>
      match removeUser st.table uid k.toNat! with
      | some t => ({ setConn st k.toNat! { c with c := drain (noise c.c) } with table := t }, "ok")
      | none => (st, "error:unknown user id")
    | _, _ => (st, "bad-op")
  | ["sg.wire", k] =>
    -- the events of the signal the server has put on the connection: one per emission while registered
    match st.conns[k.toNat!]? with
    | some c => (st, toString ((c.c.log.filter (fun f => match f with | .event _ _ => true | _ => false)).length + c.rawWire))
    | none => (st, "bad-op")
  | ["sg.got", g] => (st, gotStr st g.toNat!)
  | ["sg.stats"] => (st, "ok")   -- a registration keeps the connection it was made on (Signals.addUser), whatever wraps the channel
  | ["sg.neighbour"] => (st, "ok")   -- what a subscriber received is a segment of the connection's log (received_once_in_order), whatever its neighbours do
  | "sg.emitrace" :: _ =>
    -- the model's run of that schedule (Props/C13Emit.lean, `raceActs`): events for the removed registration behind
    -- the acknowledgement; the theorem `at_most_one_late_event` bounds it by one on every schedule
    let h := C13Emit.history (C13Emit.run {} C13Emit.raceActs)
    let behind := (h.dropWhile (fun f => match f with | .ack 1 9 _ _ => false | _ => true)).filter
      (fun f => match f with | .ev 1 9 _ => true | _ => false)
    (st, if behind.length ≤ 1 then "late<=1" else s!"late={behind.length}")
  | "sg.burstcancel" :: _ => (st, "lost-or-ok")   -- what is queued for the fan-out goroutine at the cancel request is dropped
  | "sg.storm" :: _ => (st, "ok")     -- Props/C13: once, in order, the whole window, on every schedule
  | _ => (st, "bad-op")

end QiVerif.Driver.C13
