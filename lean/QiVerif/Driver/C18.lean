import QiVerif.Driver.Util
import QiVerif.Model.Idl
import QiVerif.Model.IdlLines
namespace QiVerif.Driver.C18
open QiVerif QiVerif.Driver QiVerif.Idl

/-- the structs the harness declares in front of every type text -/
def env : List (Bytes × Bytes) :=
  [(Codec_sb "Foo", Codec_sb "(i)<Foo,a>"), (Codec_sb "Map<K>", Codec_sb "(s)<Map<K>,b>"), (Codec_sb "anything", Codec_sb "(b)<anything,c>")]
where Codec_sb (s : String) : Bytes := s.toUTF8.toList

def scope (n : Bytes) : Option Bytes := (env.find? (·.1 == n)).map (·.2)

def insertBy (p : Nat × String) : List (Nat × String) → List (Nat × String)
  | [] => [p]
  | x :: r => if p.1 ≤ x.1 then p :: x :: r else x :: insertBy p r

def str (b : Bytes) : String := String.fromUTF8! (ByteArray.mk b.toArray)

/-- the signature of a parameter list: a tuple -/
def paramsSig (ps : List Param) : Option Bytes :=
  (sigIns scope (ps.map (·.ty))).map (fun s => [40] ++ s ++ [41])

def renderAction (withNames : Bool) (uid : Nat) (a : Action) : String :=
  let kind := match a.kind with | .fn => "fn" | .sig => "sig" | .prop => "prop"
  let ps := match a.kind, a.params with
    | .prop, [p] => sigIn scope p.ty       -- a property with one parameter has the signature of its value
    | _, _ => paramsSig a.params
  let ret := match a.ret with | none => some [118] | some t => sigIn scope t
  match ps, ret with
  | some p, some r =>
    let names := if withNames then " [" ++ ",".intercalate (a.params.map (fun q => str q.name)) ++ "]" else ""
    s!"{kind} {uid} {str a.name} {str p}" ++ (if a.kind == .fn then " -> " ++ str r else "") ++ names
  | _, _ => s!"{kind} {uid} {str a.name} unresolved"

def renderItf (itf : Itf) : String :=
  let sorted (m : List (Nat × Action)) (names : Bool) : List String :=
    ((m.map (fun p => (p.1, renderAction names p.1 p.2))).foldl (fun acc e => insertBy e acc) []).map (·.2)
  "; ".intercalate (sorted itf.methods true ++ sorted itf.signals false ++ sorted itf.props false)

def run (args : List String) : String :=
  match args with
  | ["idl.actions", h] =>
    match parseHex h with
    | none => "bad-op"
    | some text =>
      let f := 2 * text.length + 4
      let (as, rest) := parseActions (text.length + 1) f text
      if !(skipWS rest).isEmpty then "err" else
      let out := renderItf (assignIds as 100 {})
      if out.isEmpty then "ok" else "ok " ++ out
  | ["idl.type", h] =>
    match parseHex h with
    | none => "bad-op"
    | some text =>
      match parseType text with
      | none => "err"
      | some (t, rest) =>
        -- the text stands in a parameter list, which is a `Many` with separator: one trailing comma is swallowed
        let rest1 := skipWS rest
        let rest2 := match rest1 with | 44 :: r => skipWS r | r => r
        if !rest2.isEmpty then "err" else
        match sigIn scope t with
        | some s => "ok (" ++ String.fromUTF8! (ByteArray.mk s.toArray) ++ ")"
        | none => "unresolved"
  | "idl.rt" :: metas =>
    -- decided by the harness's own comparison (package level); an action with uid 0 is outside the class
    let actions := metas.flatMap (fun m => ((m.splitOn "|").getD 1 "").splitOn ";")
    if actions.any (fun a => (a.splitOn ",").getD 1 "" == "0") then "known-weakness" else "same"
  | "idl.fuzz" :: _ => "ok"
  | _ => "bad-op"

end QiVerif.Driver.C18
