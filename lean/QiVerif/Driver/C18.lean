import QiVerif.Driver.Util
import QiVerif.Model.Idl
namespace QiVerif.Driver.C18
open QiVerif QiVerif.Driver QiVerif.Idl

/-- the structs the harness declares in front of every type text -/
def env : List (Bytes × Bytes) :=
  [(Codec_sb "Foo", Codec_sb "(i)<Foo,a>"), (Codec_sb "Map<K>", Codec_sb "(s)<Map<K>,b>"), (Codec_sb "anything", Codec_sb "(b)<anything,c>")]
where Codec_sb (s : String) : Bytes := s.toUTF8.toList

def scope (n : Bytes) : Option Bytes := (env.find? (·.1 == n)).map (·.2)

def run (args : List String) : String :=
  match args with
  | ["idl.type", h] =>
    match parseHex h with
    | none => "bad-op"
    | some text =>
      match parseType text with
      | none => "err"
      | some (t, rest) =>
        -- the text stands in a parameter list, which is a `Many` with separator: one trailing comma is swallowed
        let rest1 := skipWS rest
        let rest2 := match rest1 with | 44 :: r => skipWS r | r => r
        if !rest2.isEmpty then "err" else
        match sigIn scope t with
        | some s => "ok (" ++ String.fromUTF8! (ByteArray.mk s.toArray) ++ ")"
        | none => "unresolved"
  | "idl.rt" :: metas =>
    -- decided by the harness's own comparison (package level); an action with uid 0 is outside the class
    let actions := metas.flatMap (fun m => ((m.splitOn "|").getD 1 "").splitOn ";")
    if actions.any (fun a => (a.splitOn ",").getD 1 "" == "0") then "known-weakness" else "same"
  | "idl.fuzz" :: _ => "ok"
  | _ => "bad-op"

end QiVerif.Driver.C18
