import QiVerif.Driver.Util
import QiVerif.Model.Message
import QiVerif.Props.C01Write
namespace QiVerif.Driver.C01
open QiVerif QiVerif.Driver QiVerif.Message

def parseChunk (w : String) : Option Chunk :=
  if w == "f" then some .fail
  else if w.startsWith "d:" then (parseHex (w.drop 2).toString).map (Chunk.data · false)
  else if w.startsWith "e:" then (parseHex (w.drop 2).toString).map (Chunk.data · true)
  else if w.startsWith "x:" then (parseHex (w.drop 2).toString).map Chunk.dataErr
  else none

def avail : Stream → Nat
  | [] => 0
  | .fail :: r => avail r
  | .dataErr b :: r => b.length + avail r
  | .data b _ :: r => b.length + avail r

def fmtMsg (m : Msg) : String :=
  let h := m.header
  s!"{h.magic},{h.id},{h.size},{h.version},{h.type},{h.flags},{h.service},{h.object},{h.action},{toHex m.payload}"

/-- remaining stream after an EOF chunk has been consumed is `[]`, which loses
    the byte count of what was never there; the harness never places chunks
    after an EOF chunk, so `avail` differences are exact. -/
def readLoop (max : Nat) : Nat → Stream → List String → List String
  | 0, _, acc => acc.reverse
  | k + 1, s, acc =>
    match readMsg max s with
    | (.ok m, s') => readLoop max k s' (s!"ok({fmtMsg m})c={avail s - avail s'}" :: acc)
    | (.error e, s') =>
      let c := avail s - avail s'
      let r := if c == 28 then "refused" else errStr e
      (r :: acc).reverse

/-- `msg.write`: the writes `Message.Write` issues -/
def writeAnswer : List String → String
  | [mg, id, sz, ver, ty, fl, sv, ob, ac, p] =>
    match parseHex p with
    | none => "bad-op"
    | some pl =>
      let h : Header := ⟨mg.toNat!, id.toNat!, sz.toNat!, ver.toNat!, ty.toNat!, fl.toNat!, sv.toNat!, ob.toNat!, ac.toNat!⟩
      match writeMsg ⟨h, pl⟩ with
      | .error _ => "err"
      | .ok ws => "ok " ++ " ".intercalate (ws.map toHex)
  | _ => "bad-op"

def run (max : Nat) (args : List String) : String :=
  match args with
  | "msg.read" :: k :: chunks =>
    match chunks.mapM parseChunk with
    | none => "bad-op"
    | some s => " ".intercalate (readLoop max k.toNat! s [])
  -- one `Message` value filled again by every read: a message is what its bytes say, whatever was read before
  | "msg.reread" :: k :: chunks =>
    match chunks.mapM parseChunk with
    | none => "bad-op"
    | some s => " ".intercalate (readLoop max k.toNat! s [])
  | ["msg.write", mg, id, sz, ver, ty, fl, sv, ob, ac, p] =>
    match parseHex p with
    | none => "bad-op"
    | some pl =>
      let h : Header := ⟨mg.toNat!, id.toNat!, sz.toNat!, ver.toNat!, ty.toNat!, fl.toNat!, sv.toNat!, ob.toNat!, ac.toNat!⟩
      match writeMsg ⟨h, pl⟩ with
      | .error _ => "err"
      | .ok ws => "ok " ++ " ".intercalate (ws.map toHex)
  -- the bytes arrive on a real connection that its peer closes afterwards: data, then the end of the stream
  | ["msg.conn", k, h] =>
    match parseHex h with
    | none => "bad-op"
    | some bs =>
      let out := readLoop max k.toNat! (if bs.isEmpty then [] else [.data bs false]) []
      " ".intercalate (out.map (fun w => if w == "refused" then "err" else w))
  -- the writer takes at most `k` bytes per call and reports nothing (a short write without an error): `WriteN` goes on
  -- with the rest; the outcome and everything the writer has taken (Props/C01Write: writeN_pieces, writeN_prefix)
  | "msg.pieces" :: k :: mg :: id :: sz :: ver :: ty :: fl :: sv :: ob :: ac :: p :: sched =>
    match parseHex p with
    | none => "bad-op"
    | some pl =>
      let h : Header := ⟨mg.toNat!, id.toNat!, sz.toNat!, ver.toNat!, ty.toNat!, fl.toNat!, sv.toNat!, ob.toNat!, ac.toNat!⟩
      -- `sched`: the sizes of the first pieces, then `k` for the rest; a last entry "eof" / "err": the call after them
      -- takes `k` bytes and reports the end of the stream / an error
      let nums := sched.filterMap (fun w => if w == "eof" || w == "err" then none else some (⟨w.toNat!, .none⟩ : QiVerif.WriteN.WResp))
      let tail : List QiVerif.WriteN.WResp :=
        if sched.getLast? == some "eof" then [⟨k.toNat!, .eof⟩]
        else if sched.getLast? == some "err" then [⟨k.toNat!, .other⟩]
        else QiVerif.WriteN.pieces k.toNat! (28 + pl.length)
      let (r, got) := QiVerif.C01Write.writeThrough ⟨h, pl⟩ (nums ++ tail)
      (match r with | .ok _ => "ok " | .error _ => "err ") ++ toHex got
  | "msg.wfail" :: _ :: _ :: _ :: _ :: _ :: _ :: _ :: _ :: _ :: _ :: _ :: _ :: rest =>
    -- the message before went to a writer that failed (its Write reports an error or too few bytes): an error for
    -- that one; this one is its own header and payload in one write, whatever happened before (`writeMsg` has no state)
    "err | " ++ writeAnswer rest
  | ["msg.limit", sz] =>
    -- a valid header announcing `sz` bytes, five bytes behind it: is the header refused (28 bytes
    -- consumed, nothing of what follows) or does the reader go on for the payload?  A message with a
    -- payload of that size round-trips exactly when its header is accepted.
    let h : Header := ⟨1121889602, 7, sz.toNat!, 0, 1, 0, 1, 1, 100⟩
    match readMsg max [.data (encodeHeader h ++ [1, 2, 3, 4, 5]) true] with
    | (.ok _, _) => "accepted roundtrip=ok"
    | (.error _, s') =>
      let c := 33 - avail s'
      if c == 28 then "refused roundtrip=refused" else "accepted roundtrip=ok"
  | _ => "bad-op"

end QiVerif.Driver.C01
