import QiVerif.Driver.Util
import QiVerif.Props.C18TypeSet
namespace QiVerif.Driver.C18Gen
open QiVerif QiVerif.Driver QiVerif.Idl QiVerif.C18

def b (s : String) : Bytes := s.toUTF8.toList

def sigOf (hex : String) : Option Sig.Ty :=
  match parseHex hex with
  | some s => match Sig.parseSig s with | .ok t => some t | .error _ => none
  | none => none

/-- one action of the op line: `kind,uid,name,p0=<hex>+p1=<hex>,<hex of the returned type or ->` -/
def parseAction (s : String) : Option (Nat × Nat × SAction) :=
  match s.splitOn "," with
  | [kind, uid, name, ps, ret] =>
    let params := if ps.isEmpty then [] else (ps.splitOn "+").map (fun p => match p.splitOn "=" with | [n, h] => (n, sigOf h) | _ => ("", none))
    if params.any (fun p => p.2.isNone) then none else
    let names := params.map (fun p => b p.1)
    let tys := params.filterMap (·.2)
    match kind with
    | "fn" => (sigOf ret).map (fun r => (0, uid.toNat!, methodAction uid.toNat! (b name) (.tuple tys) names r))
    | "sig" => some (1, uid.toNat!, signalAction uid.toNat! (b name) (.tuple tys))
    | "prop" => match tys with
      | [t] => some (2, uid.toNat!, propertyAction uid.toNat! (b name) t)
      | _ => none
    | _ => none
  | _ => none

def insertBy (p : Nat × Nat × SAction) : List (Nat × Nat × SAction) → List (Nat × Nat × SAction)
  | [] => [p]
  | x :: r => if p.1 < x.1 || (p.1 == x.1 && p.2.1 ≤ x.2.1) then p :: x :: r else x :: insertBy p r

/-- `ForEachMethodAndSignal`: the methods by uid, then the signals, then the properties -/
def parseMeta (s : String) : Option SItf :=
  match s.splitOn "|" with
  | [name, as] =>
    let acts := if as.isEmpty then [] else (as.splitOn ";").map parseAction
    if acts.any Option.isNone then none else
    let sorted := (acts.filterMap id).foldl (fun acc a => insertBy a acc) []
    some ⟨b name, sorted.map (·.2.2)⟩
  | _ => none

/-- `idl.gen <meta> …`: the text `GenerateIDL("pkg", …)` writes, the interfaces taken in the order of the line -/
def run (args : List String) : String :=
  match args with
  | "idl.gen" :: metas =>
    let is := metas.map parseMeta
    if is.any Option.isNone then "bad-op" else
    toHex (generateIDL (b "pkg") (is.filterMap id))
  | _ => "bad-op"

end QiVerif.Driver.C18Gen
