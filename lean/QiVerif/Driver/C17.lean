import QiVerif.Driver.Util
import QiVerif.Model.Endpoint
namespace QiVerif.Driver.C17
open QiVerif QiVerif.Driver QiVerif.Endpoint

def insertByUid (h : HS) : List HS → List HS
  | [] => [h]
  | x :: r => if h.uid ≤ x.uid then h :: x :: r else x :: insertByUid h r

def finalStr (e : EP) : String :=
  let all := (e.slots.filterMap id ++ e.pending ++ e.done).foldl (fun acc h => insertByUid h acc) []
  let parts := all.map (fun h =>
    s!"u{h.uid}:recv=[{" ".intercalate (h.received.map toString)}],closer={h.closer},closed={h.closed}")
  ";".intercalate parts ++ s!";errs={e.errorReplies}"

/-- the connection is shut: every slot emptied, every scheduled close has run -/
def shutdown (e : EP) : EP :=
  let e1 := closeAll e
  (e1.pending.map (·.uid)).foldl asyncClose e1

structure St where
  ep : EP := {}
  shut : Bool := false

def run (s : St) (args : List String) : St × String :=
  match args with
  | ["ep.shutdownrace", _, _] => (s, "ok")   -- Props/C17 closed_at_most_once: a handler is closed by its removal or by the shutdown, never by both
  | ["ep.reset"] => ({}, "ok")
  | ["ep.reset", _] => ({}, "ok")     -- what the stream's Close answers does not matter to the handlers (closeAll)
  | ["ep.make", m, r, d, c] =>
    if s.ep.closed then
      -- no slot, the scheduled close runs (the harness lets it settle before it looks)
      let (e, _) := make s.ep ⟨m.toNat!, r.toNat!, d.toNat!, c.toNat!, false⟩
      ({ s with ep := asyncClose e s.ep.next }, "-1")
    else
    let (e, i) := make s.ep ⟨m.toNat!, r.toNat!, d.toNat!, c.toNat!, false⟩
    ({ s with ep := e }, toString i)
  | ["ep.remove", id] =>
    match id.toNat? with
    | none => (s, "err")
    | some i => let (e, ok) := remove s.ep i; ({ s with ep := e }, if ok then "ok" else "err")
  | ["ep.msg", a, id, c] =>
    if s.shut then (s, "undeliverable")
    else ({ s with ep := (dispatch s.ep ⟨a.toNat!, id.toNat!, c == "1"⟩).1 }, "sent")
  | ["ep.sync"] =>
    -- the harness takes the sentinel message out of the sentinel's queue (slot 0)
    ({ s with ep := drain s.ep 0 1 }, "synced")
  | ["ep.drain", sl, k] => ({ s with ep := drain s.ep sl.toNat! k.toNat! }, "ok")
  | ["ep.close"] => ({ ep := shutdown s.ep, shut := true }, "closed")
  | ["ep.peerclose"] => ({ ep := shutdown s.ep, shut := true }, "closed")
  | ["ep.final"] => (s, finalStr s.ep)
  | "ep.closebusy" :: _ => (s, "ok")   -- Close closes the stream first: the pending write ends, then shutdown_closes_everything
  | "ep.makelate" :: _ => (s, "ok")  -- registered_after_shutdown_is_closed / shutdown_closes_everything: in whichever order the table is taken
  | "ep.removebusy" :: _ => (s, "ok")  -- the dispatch is one critical section: whatever is asked meanwhile happens after it (closed_at_most_once, every_handler_accounted)
  | "ep.race" :: _ => (s, "ok")     -- Props/C17: exactly once on every interleaving
  | _ => (s, "bad-op")

end QiVerif.Driver.C17
