import QiVerif.Driver.Util
import QiVerif.Model.Senders
namespace QiVerif.Driver.C10
open QiVerif QiVerif.Driver QiVerif.Endpoint QiVerif.Senders

def run (args : List String) : String :=
  match args with
  | "c10.run" :: _ => "ok"       -- Props/C10: every interleaving decodes to itself
  | "c10.order" :: n :: k :: "|" :: ids =>
    let n := n.toNat!; let k := k.toNat!
    match ids.mapM String.toNat? with
    | none => "invalid"
    | some ids =>
      if !isInterleaving n k ids then "invalid" else
      let e := deliver k (n * k + 8) ids
      let hs := e.slots.filterMap id
      "valid " ++ " ".intercalate (hs.map (fun h => s!"h{h.uid}=[{" ".intercalate (h.received.map toString)}]"))
  | ["c10.slotrace", _] => "ok"  -- a handler is in the table from its registration to its removal, whatever slot it got (Props/C17)
  | ["c10.lateadd", _] => "ok"   -- a registered handler is offered every later message (Props/C17: a handler is in the table until it is removed)
  | ["c10.stall"] => "ok"   -- a Send is one Write of the whole frame or an error; the frames of the others are whole (Props/C10)
  | ["c10.busy", _] => "ok"   -- a handler's queue is a FIFO: the consumer takes what dispatch put, in that order (Props/C10)
  | ["c10.full", n, capB] =>
    -- one writer, ids 1..n; three handlers: every message (room for all), every message (room
    -- for capB, never drained), the even actions (room for all)
    let n := n.toNat!; let capB := capB.toNat!
    -- in front of them a handler that selects everything and removes itself on message 2 (as the
    -- handler of a pending call does on its reply): the handlers behind it still get that message
    let e0 : EP := [(⟨1, 0, 2, n + 8, false⟩ : Spec), ⟨1, 0, 0, n + 8, false⟩, ⟨1, 0, 0, capB, false⟩, ⟨2, 0, 0, n + 8, false⟩].foldl
      (fun e s => (make e s).1) {}
    let e := ((List.range n).map (fun i => ({ action := (i + 1) % 11, id := i + 1, isCall := false } : Msg))).foldl
      (fun e m => (dispatch e m).1) e0
    let hs := (e.slots.filterMap id ++ e.done).filter (fun h => h.uid != 0)
    let one := (e.done.filter (fun h => h.uid == 0)).map (fun h => s!"one-shot=[{" ".intercalate (h.received.map toString)}]")
    "valid " ++ " ".intercalate (one ++ hs.map (fun h => s!"h{h.uid - 1}=[{" ".intercalate (h.received.map toString)}]"))
  | ["c10.crowd", hn, leave, n] =>
    -- hn handlers, handler i selecting the actions ≡ i (mod hn), room for everything; the first `leave` removed (their
    -- identifiers are their slots: 0, 1, …); messages 1..n with action id % hn, then a last one for the last handler
    let hn := hn.toNat!; let leave := leave.toNat!; let n := n.toNat!
    let e0 : EP := (List.range hn).foldl (fun e i => (make e ⟨hn, i, 0, n + 8, false⟩).1) {}
    let e1 := (List.range (min leave hn)).foldl (fun e i => (remove e i).1) e0
    let msgs := (List.range n).map (fun i => ({ action := (i + 1) % hn, id := i + 1, isCall := false } : Msg)) ++
      [{ action := hn - 1, id := n + 1, isCall := false }]
    let e := msgs.foldl (fun e m => (dispatch e m).1) e1
    let hs := e.slots.filterMap id
    "valid " ++ " ".intercalate (hs.map (fun h => s!"h{h.uid}=[{" ".intercalate (h.received.map toString)}]"))
  | _ => "bad-op"

end QiVerif.Driver.C10
