import QiVerif.Driver.Util
import QiVerif.Model.Senders
namespace QiVerif.Driver.C10
open QiVerif QiVerif.Driver QiVerif.Endpoint QiVerif.Senders

def run (args : List String) : String :=
  match args with
  | "c10.run" :: _ => "ok"       -- Props/C10: every interleaving decodes to itself
  | "c10.order" :: n :: k :: "|" :: ids =>
    let n := n.toNat!; let k := k.toNat!
    match ids.mapM String.toNat? with
    | none => "invalid"
    | some ids =>
      if !isInterleaving n k ids then "invalid" else
      let e := deliver k (n * k + 8) ids
      let hs := e.slots.filterMap id
      "valid " ++ " ".intercalate (hs.map (fun h => s!"h{h.uid}=[{" ".intercalate (h.received.map toString)}]"))
  | _ => "bad-op"

end QiVerif.Driver.C10
