/-
  C07 — decoders and parsers are total and resource-bounded on arbitrary input.

  What is proved here (for *every* input): limits are checked before anything is allocated or
  read, a refused header costs 28 bytes, what a decoder returns is never larger than what it
  consumed.  What is refuted (the property is false of the code at these points — known
  findings, kept as witnesses): the generated readers allocate the element count found on the
  wire, the signature-driven reader iterates the wire count over elements of zero size.
  Real time and memory are runtime behaviour: they are measured by the harness (child
  processes), not proved.
-/
import QiVerif.Lemmas.Stable
import QiVerif.Props.C01
set_option linter.unusedSimpArgs false
set_option linter.unusedVariables false
namespace QiVerif.C07
open QiVerif QiVerif.Sig QiVerif.Codec QiVerif.Value QiVerif.Decode QiVerif.StableL

/-! ### limits come before allocations -/

/-- `basic.ReadString` never returns (hence never keeps allocated) more than `MaxStringSize`
    bytes, nor more than the input holds: the size is checked before `make`. -/
theorem readString_bounded (inp s r : Bytes) (h : readString inp = .ok (s, r)) :
    s.length ≤ maxStringSize ∧ s.length + r.length + 4 = inp.length := by
  unfold readString at h
  cases hl : readLE 4 inp with
  | error e => simp [hl] at h
  | ok p =>
    obtain ⟨size, r1⟩ := p
    simp only [hl] at h
    unfold readLE at hl
    cases ht : takeN 4 inp with
    | error e => simp [ht] at hl
    | ok q =>
      obtain ⟨a, r1'⟩ := q
      simp [ht] at hl
      obtain ⟨_, rfl⟩ := hl
      obtain ⟨hinp, hlen⟩ := takeN_ok 4 inp a r1' ht
      by_cases h0 : size = 0
      · simp [h0] at h; obtain ⟨rfl, rfl⟩ := h
        simp [hinp, hlen, maxStringSize]; omega
      · simp only [h0, if_false] at h
        by_cases hm : size > maxStringSize
        · simp [hm] at h
        · simp only [hm, if_false] at h
          cases ht2 : takeN size r1' with
          | error e => simp [ht2] at h
          | ok q2 =>
            obtain ⟨b, r2⟩ := q2
            simp [ht2] at h; obtain ⟨rfl, rfl⟩ := h
            obtain ⟨h1, h2⟩ := takeN_ok size r1' b r2 ht2
            refine ⟨by omega, ?_⟩
            rw [hinp, h1]; simp; omega

/-- the reflection decoder and `ReadCapabilityMap` accept at most 4096 entries: the count is
    checked before `MakeSlice` / `make(map)` -/
theorem readCount_limited (cfg : DecCfg) (l : Nat) (hc : cfg.countLimit = some l) (inp r : Bytes) (n : Nat)
    (h : readCount cfg inp = .ok (n, r)) : n ≤ l := by
  unfold readCount at h
  cases hl : readLE 4 inp with
  | error e => simp [hl] at h
  | ok p =>
    obtain ⟨m, r1⟩ := p
    simp only [hl, hc] at h
    split at h
    · simp at h
    · split at h
      · simp at h
      · simp at h; omega

theorem reflect_count_limited (inp r : Bytes) (n : Nat) (h : readCount reflectCfg inp = .ok (n, r)) : n ≤ 4096 :=
  readCount_limited reflectCfg 4096 rfl inp r n h

theorem capmap_count_limited (inp r : Bytes) (n : Nat) (h : readCount capMapCfg inp = .ok (n, r)) : n ≤ 4096 :=
  readCount_limited capMapCfg 4096 rfl inp r n h

/-- a negative size (high bit set) is refused by the reflection decoder (no `SetLen` panic) -/
theorem reflect_negative_refused (n : Nat) (rest : Bytes) (h1 : 2147483648 ≤ n) (h2 : n < 4294967296) :
    readCount reflectCfg (leN 4 n ++ rest) = .error .err := by
  have := CodecL.readLE_leN 4 n rest (by omega)
  simp [readCount, this, reflectCfg, h1]

/-- a message whose header announces more than the limit costs exactly its 28 header bytes -/
theorem oversized_message_costs_28_bytes (max : Nat) (h : Message.Header) (hr : C01.InRange h) (hs : h.size > max)
    (after : Bytes) (s : Stream) (hwf : WFStream s) (hflat : flat s = Message.encodeHeader h ++ after) :
    ∃ s', Message.readMsg max s = (.error .err, s') ∧ flat s' = after := by
  obtain ⟨s', h1, _, h3⟩ := C01.reject_before_payload max h hr (Or.inr (Or.inr (Or.inr (Or.inr hs)))) after s hwf hflat
  exact ⟨s', h1, h3⟩

theorem readN_length (need : Nat) (s : Stream) (acc out : Bytes) (s' : Stream)
    (h : readN need s acc = .ok (out, s')) : out.length = acc.length + need := by
  induction s generalizing need acc with
  | nil =>
    unfold readN at h
    by_cases hz : need = 0
    · simp [hz] at h; obtain ⟨rfl, _⟩ := h; simp [hz]
    · simp [hz] at h; split at h <;> simp at h
  | cons c rest ih =>
    unfold readN at h
    by_cases hz : need = 0
    · simp [hz] at h; obtain ⟨rfl, _⟩ := h; simp [hz]
    · simp only [hz, if_false] at h
      cases c with
      | fail => simp at h
      | dataErr bs =>
        simp only at h
        split at h
        · simp at h; obtain ⟨rfl, _⟩ := h; simp; omega
        · simp at h
      | data bs e =>
        simp only at h
        split at h
        · split at h <;> simp at h
        · split at h
          · split at h
            · simp at h
            · have := ih _ _ h; simp at this; omega
          · split at h
            · simp at h; obtain ⟨rfl, _⟩ := h; simp; omega
            · simp at h; obtain ⟨rfl, _⟩ := h; simp; omega

/-- a payload that is accepted is no longer than the limit -/
theorem accepted_payload_bounded (max : Nat) (s s' : Stream) (m : Message.Msg)
    (h : Message.readMsg max s = (.ok m, s')) : m.payload.length ≤ max := by
  unfold Message.readMsg at h
  split at h
  · simp at h
  · split at h
    · simp at h
    · split at h
      · simp at h
      · rename_i hd _ hsz
        split at h
        · simp at h; obtain ⟨rfl, _⟩ := h; simp
        · split at h
          · simp at h
          · rename_i p s2 hr
            simp at h; obtain ⟨rfl, _⟩ := h
            have := readN_length _ _ _ _ _ hr
            simp at this ⊢; omega

/-! ### what a decoder returns is what it consumed -/

theorem takeN_exact (n : Nat) (inp a r : Bytes) (h : takeN n inp = .ok (a, r)) : a ++ r = inp :=
  (takeN_ok n inp a r h).1.symm

theorem readLE4_exact (inp r : Bytes) (n : Nat) (h : readLE 4 inp = .ok (n, r)) : leN 4 n ++ r = inp := by
  unfold readLE at h
  cases ht : takeN 4 inp with
  | error e => simp [ht] at h
  | ok q =>
    obtain ⟨a, r'⟩ := q
    simp [ht] at h; obtain ⟨rfl, rfl⟩ := h
    obtain ⟨hinp, hlen⟩ := takeN_ok 4 inp a r' ht
    rw [hinp]
    congr 1
    match a, hlen with
    | [b0, b1, b2, b3], _ =>
      have h0 := b0.toNat_lt; have h1 := b1.toNat_lt; have h2 := b2.toNat_lt; have h3 := b3.toNat_lt
      simp only [fromLE, leN]
      have e0 : UInt8.ofNat (b0.toNat + 256 * (b1.toNat + 256 * (b2.toNat + 256 * (b3.toNat + 256 * 0)))) = b0 := by
        apply UInt8.toNat_inj.mp; rw [u8_toNat_ofNat]; omega
      have e1 : UInt8.ofNat ((b0.toNat + 256 * (b1.toNat + 256 * (b2.toNat + 256 * (b3.toNat + 256 * 0)))) / 256) = b1 := by
        apply UInt8.toNat_inj.mp; rw [u8_toNat_ofNat]; omega
      have e2 : UInt8.ofNat ((b0.toNat + 256 * (b1.toNat + 256 * (b2.toNat + 256 * (b3.toNat + 256 * 0)))) / 256 / 256) = b2 := by
        apply UInt8.toNat_inj.mp; rw [u8_toNat_ofNat]; omega
      have e3 : UInt8.ofNat ((b0.toNat + 256 * (b1.toNat + 256 * (b2.toNat + 256 * (b3.toNat + 256 * 0)))) / 256 / 256 / 256) = b3 := by
        apply UInt8.toNat_inj.mp; rw [u8_toNat_ofNat]; omega
      rw [e0, e1, e2, e3]

theorem readString_exact (inp s r : Bytes) (h : readString inp = .ok (s, r)) : leN 4 s.length ++ s ++ r = inp := by
  unfold readString at h
  cases hl : readLE 4 inp with
  | error e => simp [hl] at h
  | ok p =>
    obtain ⟨size, r1⟩ := p
    simp only [hl] at h
    have he := readLE4_exact inp r1 size hl
    by_cases h0 : size = 0
    · simp [h0] at h; obtain ⟨rfl, rfl⟩ := h
      subst h0; simpa using he
    · simp only [h0, if_false] at h
      by_cases hm : size > maxStringSize
      · simp [hm] at h
      · simp only [hm, if_false] at h
        cases ht2 : takeN size r1 with
        | error e => simp [ht2] at h
        | ok q2 =>
          obtain ⟨b, r2⟩ := q2
          simp [ht2] at h; obtain ⟨rfl, rfl⟩ := h
          obtain ⟨h1, h2⟩ := takeN_ok size r1 b r2 ht2
          rw [h2, ← he, h1]; simp

/-- the bytes returned by the signature-driven reader and the rest, put together, are the input:
    the result can never be larger than what was consumed, whatever length fields say -/
def ExactT (f : Nat) : Prop :=
  (∀ t inp d r, readT f t inp = .ok (d, r) → d ++ r = inp) ∧
  (∀ t n inp d r, readMany f t n inp = .ok (d, r) → d ++ r = inp) ∧
  (∀ ts inp d r, readFields f ts inp = .ok (d, r) → d ++ r = inp) ∧
  (∀ ms inp d r, readMembers f ms inp = .ok (d, r) → d ++ r = inp)

theorem exactT : ∀ f, ExactT f := by
  intro f
  induction f with
  | zero => refine ⟨?_, ?_, ?_, ?_⟩ <;> intros <;> simp_all [readT, readMany, readFields, readMembers]
  | succ f ih =>
    obtain ⟨ihT, ihM, ihF, ihS⟩ := ih
    refine ⟨?_, ?_, ?_, ?_⟩
    · intro t inp d r h
      cases t with
      | basic c =>
        simp only [readT] at h
        cases hw : width c with
        | some w =>
          simp only [hw] at h
          cases ht : takeN w inp with
          | error e => simp [ht] at h
          | ok p => obtain ⟨a, r'⟩ := p; simp [ht] at h; obtain ⟨rfl, rfl⟩ := h; exact takeN_exact w inp a r' ht
        | none =>
          simp only [hw] at h
          by_cases h115 : (c == 115) = true
          · simp only [h115, if_true] at h
            cases hs : readString inp with
            | error e => simp [hs] at h
            | ok p => obtain ⟨s, r'⟩ := p; simp [hs] at h; obtain ⟨rfl, rfl⟩ := h
                      have := readString_exact inp s r' hs; simpa using this
          · simp only [h115] at h
            by_cases h118 : (c == 118) = true
            · simp only [h118, if_true] at h; simp at h; obtain ⟨rfl, rfl⟩ := h; simp
            · simp only [h118] at h
              by_cases h109 : (c == 109) = true
              · simp only [h109, if_true] at h
                cases hs : readString inp with
                | error e => simp [hs] at h
                | ok p =>
                  obtain ⟨sig, r1⟩ := p
                  simp only [hs] at h
                  cases hp : parseSig sig with
                  | error e => simp [hp] at h
                  | ok ty =>
                    simp only [hp] at h
                    cases hr : readT f ty r1 with
                    | error e => simp [hr] at h
                    | ok q =>
                      obtain ⟨dd, r2⟩ := q
                      simp [hr] at h; obtain ⟨rfl, rfl⟩ := h
                      have e1 := readString_exact inp sig r1 hs
                      have e2 := ihT ty r1 dd r2 hr
                      rw [← e1, ← e2]; simp
              · simp only [h109] at h
                by_cases h111 : (c == 111) = true
                · simp only [h111, if_true] at h; exact ihT _ _ _ _ h
                · simp [h111] at h
      | list et =>
        simp only [readT] at h
        cases hl : readLE 4 inp with
        | error e => simp [hl] at h
        | ok p =>
          obtain ⟨size, r1⟩ := p
          simp only [hl] at h
          have he := readLE4_exact inp r1 size hl
          by_cases hz : zeroSize et = true
          · simp only [hz, if_true] at h
            by_cases hb : size > zeroLoopLimit
            · simp [hb] at h
            · simp [hb] at h; obtain ⟨rfl, rfl⟩ := h; exact he
          · simp only [hz] at h
            cases hm : readMany f et size r1 with
            | error e => simp [hm] at h
            | ok q =>
              obtain ⟨dd, r2⟩ := q
              simp [hm] at h; obtain ⟨rfl, rfl⟩ := h
              have := ihM et size r1 dd r2 hm
              rw [← he, ← this]; simp
      | map k v =>
        simp only [readT] at h
        cases hl : readLE 4 inp with
        | error e => simp [hl] at h
        | ok p =>
          obtain ⟨size, r1⟩ := p
          simp only [hl] at h
          have he := readLE4_exact inp r1 size hl
          by_cases hz : (zeroSize k && zeroSize v) = true
          · simp only [hz, if_true] at h
            by_cases hb : size > zeroLoopLimit
            · simp [hb] at h
            · simp [hb] at h; obtain ⟨rfl, rfl⟩ := h; exact he
          · simp only [hz] at h
            cases hm : readMany f (.tuple [k, v]) size r1 with
            | error e => simp [hm] at h
            | ok q =>
              obtain ⟨dd, r2⟩ := q
              simp [hm] at h; obtain ⟨rfl, rfl⟩ := h
              have := ihM _ size r1 dd r2 hm
              rw [← he, ← this]; simp
      | tuple ts => simp only [readT] at h; exact ihF ts inp d r h
      | struct n ms => simp only [readT] at h; exact ihS ms inp d r h
    · intro t n inp d r h
      cases n with
      | zero => simp [readMany] at h; obtain ⟨rfl, rfl⟩ := h; simp
      | succ n =>
        simp only [readMany] at h
        cases h1 : readT f t inp with
        | error e => simp [h1] at h
        | ok p =>
          obtain ⟨d1, r1⟩ := p
          simp only [h1] at h
          cases h2 : readMany f t n r1 with
          | error e => simp [h2] at h
          | ok q =>
            obtain ⟨d2, r2⟩ := q
            simp [h2] at h; obtain ⟨rfl, rfl⟩ := h
            rw [← ihT t inp d1 r1 h1, ← ihM t n r1 d2 r2 h2]; simp
    · intro ts inp d r h
      cases ts with
      | nil => simp [readFields] at h; obtain ⟨rfl, rfl⟩ := h; simp
      | cons t tr =>
        simp only [readFields] at h
        cases h1 : readT f t inp with
        | error e => simp [h1] at h
        | ok p =>
          obtain ⟨d1, r1⟩ := p
          simp only [h1] at h
          cases h2 : readFields f tr r1 with
          | error e => simp [h2] at h
          | ok q =>
            obtain ⟨d2, r2⟩ := q
            simp [h2] at h; obtain ⟨rfl, rfl⟩ := h
            rw [← ihT t inp d1 r1 h1, ← ihF tr r1 d2 r2 h2]; simp
    · intro ms inp d r h
      cases ms with
      | nil => simp [readMembers] at h; obtain ⟨rfl, rfl⟩ := h; simp
      | cons m tr =>
        obtain ⟨nm, t⟩ := m
        simp only [readMembers] at h
        cases h1 : readT f t inp with
        | error e => simp [h1] at h
        | ok p =>
          obtain ⟨d1, r1⟩ := p
          simp only [h1] at h
          cases h2 : readMembers f tr r1 with
          | error e => simp [h2] at h
          | ok q =>
            obtain ⟨d2, r2⟩ := q
            simp [h2] at h; obtain ⟨rfl, rfl⟩ := h
            rw [← ihT t inp d1 r1 h1, ← ihS tr r1 d2 r2 h2]; simp

/-- for every signature type, every input and every stack depth: the bytes the signature-driven
    reader returns, followed by what it left, are exactly the input -/
theorem reader_returns_what_it_consumed (f : Nat) (t : Ty) (inp d r : Bytes) (h : readT f t inp = .ok (d, r)) :
    d ++ r = inp ∧ d.length ≤ inp.length := by
  have := (exactT f).1 t inp d r h
  exact ⟨this, by rw [← this]; simp⟩

/-! ### where the property is false of the code: witnesses (known findings) -/

/-- F-C07-2: the generated readers take the element count from the wire and allocate that many
    elements before reading any (`make([]T, size)`): four bytes announce 2^31-1 entries of a
    meta-object's method map; the model's verdict is `hang` (resource blow-up). -/
theorem generated_reader_allocates_wire_count :
    readCount generatedCfg [0xFF, 0xFF, 0xFF, 0x7F] = .error .hang := by rfl

/-- … while the same bytes are refused by the reflection decoder and by ReadCapabilityMap -/
theorem same_bytes_refused_with_limit :
    readCount reflectCfg [0xFF, 0xFF, 0xFF, 0x7F] = .error .err ∧
    readCount capMapCfg [0xFF, 0xFF, 0xFF, 0x7F] = .error .err := ⟨by rfl, by rfl⟩

/-- F-C07-3: the signature-driven reader runs its loop `size` times even when the elements
    occupy no byte (`[v]`, `[()]`, `{vv}`): four bytes keep it busy for 2^32-1 iterations. -/
theorem zero_size_elements_loop_wire_count :
    readT 10 (.list (.basic 118)) [0xFF, 0xFF, 0xFF, 0xFF] = .error .hang ∧
    readT 10 (.list (.tuple [])) [0xFF, 0xFF, 0xFF, 0xFF] = .error .hang ∧
    readT 10 (.map (.basic 118) (.basic 118)) [0xFF, 0xFF, 0xFF, 0x7F] = .error .hang := ⟨by rfl, by rfl, by rfl⟩

end QiVerif.C07
