/-
  C20 — structural conversion preserves every value.
-/
import QiVerif.Model.Convert
set_option linter.unusedSimpArgs false
namespace QiVerif.C20
open QiVerif QiVerif.Convert

def isNaN32 (b : UInt32) : Bool := (b.toNat / 8388608) % 256 == 255 && b.toNat % 8388608 != 0

/-- lower-cased field names pairwise distinct -/
def NodupLower {α} : List (FName × α) → Prop
  | [] => True
  | (n, _) :: r => lookupField n r = none ∧ NodupLower r

mutual
/-- `HasType τ v`: `v` is a Go value of type `τ` (NaN excluded for float32, see DESIGN §3 C20) -/
def HasType : GoType → GoVal → Prop
  | .bool, .bool _ => True
  | .str, .str _ => True
  | .int k, .int i => -(2 ^ (k - 1) : Int) ≤ i ∧ i < 2 ^ (k - 1)
  | .uint k, .uint n => n < 2 ^ k
  | .f32, .f32 b => isNaN32 b = false
  | .f64, .f64 _ => True
  | .slice t, .slice xs => ∀ x ∈ xs, HasType t x
  | .map k v, .map kvs => ∀ p ∈ kvs, HasType k p.1 ∧ HasType v p.2
  | .struct fs, .struct ws => HasFields fs ws
  | _, _ => False
def HasFields : List (FName × GoType) → List (FName × GoVal) → Prop
  | [], [] => True
  | (n, t) :: fs, (m, w) :: ws => n = m ∧ HasType t w ∧ HasFields fs ws
  | _, _ => False
end

mutual
/-- `Compat σ τ`: τ is structurally compatible with σ exactly as the property lists it:
    integers of the same signedness at least as wide, float32 → float64, strings, booleans,
    slices, maps, structs matched by (case-insensitive) field name, nested arbitrarily. -/
def Compat : GoType → GoType → Prop
  | .bool, .bool => True
  | .str, .str => True
  | .int a, .int b => 1 ≤ a ∧ a ≤ b ∧ b ≤ 64
  | .uint a, .uint b => a ≤ b ∧ b ≤ 64
  | .f32, .f32 => True
  | .f32, .f64 => True
  | .f64, .f64 => True
  | .slice s, .slice t => Compat s t
  | .map ks vs, .map kt vt => Compat ks kt ∧ Compat vs vt
  | .struct sfs, .struct tfs =>
      NodupLower sfs ∧ CompatFields sfs tfs ∧ (∀ p ∈ sfs, (lookupField p.1 tfs).isSome)
  | _, _ => False
/-- every target field has a source field of the same lower-cased name and compatible type -/
def CompatFields : List (FName × GoType) → List (FName × GoType) → Prop
  | _, [] => True
  | sfs, (n, t) :: r => (∃ s, lookupField n sfs = some s ∧ Compat s t) ∧ CompatFields sfs r
end

/-! ### arithmetic -/

theorem two_pow_succ_pred (k : Nat) (hk : 1 ≤ k) : (2 : Int) ^ k = 2 * 2 ^ (k - 1) := by
  have : k = (k - 1) + 1 := by omega
  rw [this, Int.pow_succ]; simp; omega

theorem pow_mono_int (a b : Nat) (h : a ≤ b) : (2 : Int) ^ a ≤ 2 ^ b := by
  have := Nat.pow_le_pow_right (n := 2) (by decide) h
  exact_mod_cast this

/-- storing an integer that fits `a` bits into `b ≥ a` bits keeps it -/
theorem wrapS_fits (a b : Nat) (i : Int) (ha : 1 ≤ a) (hab : a ≤ b)
    (h1 : -(2 ^ (a - 1) : Int) ≤ i) (h2 : i < 2 ^ (a - 1)) : wrapS b i = i := by
  unfold wrapS
  have hb : (2 : Int) ^ b = 2 * 2 ^ (b - 1) := two_pow_succ_pred b (by omega)
  have hm := pow_mono_int (a - 1) (b - 1) (by omega)
  have hp : (0 : Int) < 2 ^ (b - 1) := Int.pow_pos (by decide)
  rw [hb, Int.emod_eq_of_lt (by omega) (by omega)]; omega

theorem wrapS64_nat (n : Nat) (h : n < 2 ^ 64) :
    wrapS 64 n = if n < 2 ^ 63 then (n : Int) else n - 2 ^ 64 := by
  unfold wrapS
  split <;> omega

theorem wrapU_fits (a b : Nat) (n : Nat) (hab : a ≤ b) (hb : b ≤ 64) (h : n < 2 ^ a) :
    wrapU b (wrapS 64 n) = n := by
  have hpa : 2 ^ a ≤ 2 ^ b := Nat.pow_le_pow_right (by decide) hab
  have hpb : 2 ^ b ≤ 2 ^ 64 := Nat.pow_le_pow_right (by decide) hb
  have h64 : n < 2 ^ 64 := by omega
  rw [wrapS64_nat n h64]
  unfold wrapU
  split
  · have : ((n : Int)) % 2 ^ b = n := by
      apply Int.emod_eq_of_lt (by omega)
      have : (n : Int) < ((2 ^ b : Nat) : Int) := by exact_mod_cast (show n < 2 ^ b by omega)
      simpa using this
    rw [this]; simp
  · rename_i hge
    have hb64 : b = 64 := by
      by_cases hne : b = 64
      · exact hne
      · have h63 : b ≤ 63 := by omega
        have : 2 ^ b ≤ 2 ^ 63 := Nat.pow_le_pow_right (by decide) h63
        omega
    subst hb64
    omega

/-! ### list lemmas -/

theorem mapRes_ok {α β} (f : α → Res β) (g : α → β) (xs : List α)
    (h : ∀ x ∈ xs, f x = .ok (g x)) : mapRes f xs = .ok (xs.map g) := by
  induction xs with
  | nil => rfl
  | cons x xs ih =>
    have hx := h x (by simp)
    have := ih (fun y hy => h y (by simp [hy]))
    simp [mapRes, hx, this]

/-- the entry (name and payload) that `lookupField` selects -/
def findField {α} (n : FName) : List (FName × α) → Option (FName × α)
  | [] => none
  | (m, v) :: r => if lower m == lower n then some (m, v) else findField n r

theorem lookup_eq_find {α} (n : FName) (l : List (FName × α)) :
    lookupField n l = (findField n l).map (·.2) := by
  induction l with
  | nil => rfl
  | cons p r ih => obtain ⟨m, v⟩ := p; simp only [lookupField, findField]; split <;> simp [ih]

theorem lookup_lower {α} (n m : FName) (l : List (FName × α)) (h : lower n = lower m) :
    lookupField n l = lookupField m l := by
  induction l with
  | nil => rfl
  | cons p r ih => obtain ⟨k, v⟩ := p; simp only [lookupField, h, ih]

theorem find_some {α} (n : FName) (l : List (FName × α)) (p : FName × α)
    (h : findField n l = some p) : p ∈ l ∧ lower p.1 = lower n := by
  induction l with
  | nil => simp [findField] at h
  | cons q r ih =>
    obtain ⟨m, v⟩ := q
    simp only [findField] at h
    split at h
    · rename_i hm; cases h; exact ⟨by simp, by simpa using hm⟩
    · have := ih h; exact ⟨by simp [this.1], this.2⟩

theorem find_map {α β} (n : FName) (l : List (FName × α)) (g : FName × α → FName × β)
    (hg : ∀ p ∈ l, (g p).1 = p.1) : findField n (l.map g) = (findField n l).map g := by
  induction l with
  | nil => rfl
  | cons q r ih =>
    obtain ⟨m, v⟩ := q
    have h1 : (g (m, v)).1 = m := hg (m, v) (by simp)
    have ih' := ih (fun p hp => hg p (by simp [hp]))
    simp only [List.map_cons, findField]
    cases hgv : g (m, v) with
    | mk a b =>
      rw [hgv] at h1; simp only at h1; subst h1
      simp only [findField]
      split
      · simp [hgv]
      · simp [ih']

theorem lookup_none_of_nodup {α} (n : FName) (l : List (FName × α))
    (h : lookupField n l = none) : ∀ p ∈ l, (lower p.1 == lower n) = false := by
  induction l with
  | nil => simp
  | cons q r ih =>
    obtain ⟨m, v⟩ := q
    simp only [lookupField] at h
    split at h
    · cases h
    · rename_i hm
      intro p hp
      rcases List.mem_cons.mp hp with rfl | hp
      · simpa using hm
      · exact ih h p hp

/-- in a list with pairwise distinct lower-cased names, looking up a member's name finds it -/
theorem nodup_lookup_mem {α} (l : List (FName × α)) (hn : NodupLower l) (p : FName × α)
    (hp : p ∈ l) : lookupField p.1 l = some p.2 := by
  induction l with
  | nil => simp at hp
  | cons q r ih =>
    obtain ⟨m, v⟩ := q
    obtain ⟨hnone, hr⟩ := hn
    rcases List.mem_cons.mp hp with rfl | hp'
    · simp [lookupField]
    · have := lookup_none_of_nodup m r hnone p hp'
      simp only [lookupField]
      have h2 : (lower m == lower p.1) = false := by
        rw [Bool.eq_false_iff] at this ⊢
        intro h; apply this; simp at h ⊢; exact h.symm
      simp [h2, ih hr hp']

theorem hasFields_lookup (sfs : List (FName × GoType)) (ws : List (FName × GoVal))
    (h : HasFields sfs ws) (n : FName) (s : GoType) (hl : lookupField n sfs = some s) :
    ∃ w, lookupField n ws = some w ∧ HasType s w := by
  induction sfs generalizing ws with
  | nil => simp [lookupField] at hl
  | cons q r ih =>
    obtain ⟨m, t⟩ := q
    cases ws with
    | nil => simp [HasFields] at h
    | cons x ws' =>
      obtain ⟨m', w⟩ := x
      simp only [HasFields] at h
      obtain ⟨hm, hw, hrest⟩ := h
      subst hm
      simp only [lookupField] at hl ⊢
      split at hl
      · rename_i hc; cases hl; simp [hc, hw]
      · rename_i hc; simp [hc]; exact ih ws' hrest hl

theorem hasFields_names (sfs : List (FName × GoType)) (ws : List (FName × GoVal))
    (h : HasFields sfs ws) : ws.map (·.1) = sfs.map (·.1) := by
  induction sfs generalizing ws with
  | nil => cases ws <;> simp_all [HasFields]
  | cons q r ih =>
    obtain ⟨m, t⟩ := q
    cases ws with
    | nil => simp [HasFields] at h
    | cons x ws' =>
      obtain ⟨m', w⟩ := x
      simp only [HasFields] at h
      simp [h.1, ih ws' h.2.2]

/-- rebuilding a struct value field by field from look-ups gives the value back -/
theorem hasFields_rebuild (sfs : List (FName × GoType)) (ws : List (FName × GoVal))
    (h : HasFields sfs ws) (hn : NodupLower sfs) :
    sfs.map (fun q => (q.1, (lookupField q.1 ws).getD default)) = ws := by
  induction sfs generalizing ws with
  | nil => cases ws <;> simp_all [HasFields]
  | cons q r ih =>
    obtain ⟨m, t⟩ := q
    cases ws with
    | nil => simp [HasFields] at h
    | cons x ws' =>
      obtain ⟨m', w⟩ := x
      simp only [HasFields] at h
      obtain ⟨hm, _, hrest⟩ := h
      subst hm
      obtain ⟨hnone, hr⟩ := hn
      simp only [List.map_cons, lookupField, beq_self_eq_true, if_true, Option.getD_some]
      congr 1
      rw [← ih ws' hrest hr]
      apply List.map_congr_left
      intro p hp
      have := lookup_none_of_nodup m r hnone p hp
      have h2 : (lower m == lower p.1) = false := by
        rw [Bool.eq_false_iff] at this ⊢
        intro h; apply this; simp at h ⊢; exact h.symm
      simp [h2, ih ws' hrest hr]

theorem hasFields_of_map (tfs : List (FName × GoType)) (g : FName × GoType → FName × GoVal)
    (h : ∀ p ∈ tfs, (g p).1 = p.1 ∧ HasType p.2 (g p).2) : HasFields tfs (tfs.map g) := by
  induction tfs with
  | nil => simp [HasFields]
  | cons q r ih =>
    obtain ⟨m, t⟩ := q
    have hq := h (m, t) (by simp)
    simp only [List.map_cons]
    cases hg : g (m, t) with
    | mk a b =>
      rw [hg] at hq
      simp only [HasFields]
      exact ⟨hq.1.symm, hq.2, ih (fun p hp => h p (by simp [hp]))⟩

/-! ### `convertFields` as a map over the target fields -/

def fieldStep (ops : FloatOps) (ws : List (FName × GoVal)) (p : FName × GoType) : Res (FName × GoVal) :=
  match lookupField p.1 ws with
  | none => .ok (p.1, zero p.2)
  | some w =>
    match convert ops p.2 w with
    | .error e => .error e
    | .ok v => .ok (p.1, v)

theorem convertFields_eq (ops : FloatOps) (tfs : List (FName × GoType)) (ws : List (FName × GoVal)) :
    convertFields ops tfs ws = mapRes (fieldStep ops ws) tfs := by
  induction tfs with
  | nil => simp [convertFields, mapRes]
  | cons q r ih =>
    obtain ⟨n, t⟩ := q
    simp only [convertFields, mapRes, fieldStep]
    cases lookupField n ws with
    | none => simp only [ih]; cases mapRes (fieldStep ops ws) r <;> rfl
    | some w =>
      simp only []
      cases convert ops t w with
      | error e => rfl
      | ok v => simp only [ih]; cases mapRes (fieldStep ops ws) r <;> rfl

/-! ### the property -/

/-- float32 → float64 → float32 is the identity on non-NaN values: the only fact about
    IEEE arithmetic the theorems need; a hypothesis, not an axiom (trusted base, DESIGN §6). -/
def FloatExact (ops : FloatOps) : Prop := ∀ b, isNaN32 b = false → ops.narrow (ops.widen b) = b

/-- what the property promises for one (source type, target type) pair -/
def RoundTrips (ops : FloatOps) (τ : GoType) : Prop :=
  ∀ σ v, Compat σ τ → HasType σ v →
    ∃ v', convert ops τ v = .ok v' ∧ HasType τ v' ∧ convert ops σ v' = .ok v

theorem struct_case (ops : FloatOps) (sfs tfs : List (FName × GoType)) (ws : List (FName × GoVal))
    (hnd : NodupLower sfs) (hcf : CompatFields sfs tfs) (hall : ∀ p ∈ sfs, (lookupField p.1 tfs).isSome)
    (ht : HasFields sfs ws) (ih : ∀ p ∈ tfs, RoundTrips ops p.2) :
    ∃ r, convertFields ops tfs ws = .ok r ∧ HasFields tfs r ∧ convertFields ops sfs r = .ok ws := by
  -- F: what every target field does
  have F : ∀ p ∈ tfs, ∃ s w v', lookupField p.1 sfs = some s ∧ lookupField p.1 ws = some w ∧
      convert ops p.2 w = .ok v' ∧ HasType p.2 v' ∧ convert ops s v' = .ok w := by
    intro p hp
    have hc : ∃ s, lookupField p.1 sfs = some s ∧ Compat s p.2 := by
      clear ih hall ht hnd
      induction tfs with
      | nil => simp at hp
      | cons q r ihr =>
        obtain ⟨n, t⟩ := q
        simp only [CompatFields] at hcf
        rcases List.mem_cons.mp hp with rfl | hp'
        · exact hcf.1
        · exact ihr hcf.2 hp'
    obtain ⟨s, hs, hcs⟩ := hc
    obtain ⟨w, hw, htw⟩ := hasFields_lookup sfs ws ht p.1 s hs
    obtain ⟨v', h1, h2, h3⟩ := ih p hp s w hcs htw
    exact ⟨s, w, v', hs, hw, h1, h2, h3⟩
  let g : FName × GoType → FName × GoVal := fun p =>
    match fieldStep ops ws p with
    | .ok x => x
    | .error _ => (p.1, default)
  have G : ∀ p ∈ tfs, fieldStep ops ws p = .ok (g p) ∧ (g p).1 = p.1 ∧ HasType p.2 (g p).2 ∧
      ∃ s w, lookupField p.1 sfs = some s ∧ lookupField p.1 ws = some w ∧ convert ops s (g p).2 = .ok w := by
    intro p hp
    obtain ⟨s, w, v', hs, hw, h1, h2, h3⟩ := F p hp
    have hstep : fieldStep ops ws p = .ok (p.1, v') := by simp [fieldStep, hw, h1]
    have hg : g p = (p.1, v') := by simp [g, hstep]
    rw [hg]
    exact ⟨hstep, rfl, h2, s, w, hs, hw, h3⟩
  refine ⟨tfs.map g, ?_, ?_, ?_⟩
  · rw [convertFields_eq]; exact mapRes_ok _ g tfs (fun p hp => (G p hp).1)
  · exact hasFields_of_map tfs g (fun p hp => ⟨(G p hp).2.1, (G p hp).2.2.1⟩)
  · rw [convertFields_eq]
    have hmap := mapRes_ok (fieldStep ops (tfs.map g)) (fun q => (q.1, (lookupField q.1 ws).getD default)) sfs ?_
    · rw [hmap, hasFields_rebuild sfs ws ht hnd]
    · intro q hq
      -- the target field that carries q's name
      have hsome := hall q hq
      rw [lookup_eq_find] at hsome
      cases hfind : findField q.1 tfs with
      | none => simp [hfind] at hsome
      | some pt =>
        obtain ⟨hmem, hlow⟩ := find_some q.1 tfs pt hfind
        obtain ⟨_, hname, _, s, w, hs, hw, hback⟩ := G pt hmem
        have hfm : findField q.1 (tfs.map g) = some (g pt) := by
          rw [find_map q.1 tfs g (fun p hp => (G p hp).2.1), hfind]; rfl
        have hl : lookupField q.1 (tfs.map g) = some (g pt).2 := by
          rw [lookup_eq_find, hfm]; rfl
        -- same lower-cased name ⇒ same source field and same source value
        have hs' : lookupField q.1 sfs = some s := by rw [← lookup_lower pt.1 q.1 sfs hlow]; exact hs
        have hw' : lookupField q.1 ws = some w := by rw [← lookup_lower pt.1 q.1 ws hlow]; exact hw
        have hqs : s = q.2 := by
          have := nodup_lookup_mem sfs hnd q hq
          rw [hs'] at this; exact Option.some.inj this
        subst hqs
        simp [fieldStep, hl, hback, hw']

mutual
/-- **C20.** For every target type τ, every compatible source type σ and every value v of σ:
    the conversion succeeds, yields a value of type τ, and converting back recovers v exactly
    (so every element, key and field was preserved). -/
theorem convert_roundtrip (ops : FloatOps) (hf : FloatExact ops) : (τ : GoType) → RoundTrips ops τ
  | .bool => by
    intro σ v hc ht
    cases σ <;> simp [Compat] at hc
    cases v <;> simp [HasType] at ht
    exact ⟨_, rfl, by simp [HasType], rfl⟩
  | .str => by
    intro σ v hc ht
    cases σ <;> simp [Compat] at hc
    cases v <;> simp [HasType] at ht
    exact ⟨_, rfl, by simp [HasType], rfl⟩
  | .int b => by
    intro σ v hc ht
    cases σ <;> simp [Compat] at hc
    rename_i a
    cases v <;> simp [HasType] at ht
    rename_i i
    have e1 : wrapS b i = i := wrapS_fits a b i hc.1 hc.2.1 ht.1 ht.2
    have e2 : wrapS a i = i := wrapS_fits a a i hc.1 (Nat.le_refl _) ht.1 ht.2
    refine ⟨.int i, by simp [convert, e1], ?_, by simp [convert, e2]⟩
    simp only [HasType]
    have hm := pow_mono_int (a - 1) (b - 1) (by omega)
    omega
  | .uint b => by
    intro σ v hc ht
    cases σ <;> simp [Compat] at hc
    rename_i a
    cases v <;> simp [HasType] at ht
    rename_i n
    have e1 : wrapU b (wrapS 64 n) = n := wrapU_fits a b n hc.1 hc.2 ht
    have e2 : wrapU a (wrapS 64 n) = n := wrapU_fits a a n (Nat.le_refl _) (by omega) ht
    refine ⟨.uint n, by simp [convert, e1], ?_, by simp [convert, e2]⟩
    simp only [HasType]
    have := Nat.pow_le_pow_right (n := 2) (by decide) hc.1
    omega
  | .f32 => by
    intro σ v hc ht
    cases σ <;> simp [Compat] at hc
    cases v <;> simp [HasType] at ht
    rename_i bits
    have := hf bits ht
    exact ⟨.f32 bits, by simp [convert, this], by simp [HasType, ht], by simp [convert, this]⟩
  | .f64 => by
    intro σ v hc ht
    cases σ <;> simp [Compat] at hc
    · cases v <;> simp [HasType] at ht
      rename_i bits
      exact ⟨.f64 (ops.widen bits), by simp [convert], by simp [HasType], by simp [convert, hf bits ht]⟩
    · cases v <;> simp [HasType] at ht
      rename_i bits
      exact ⟨.f64 bits, by simp [convert], by simp [HasType], by simp [convert]⟩
  | .slice t => by
    intro σ v hc ht
    cases σ <;> simp [Compat] at hc
    rename_i s
    cases v <;> simp [HasType] at ht
    rename_i xs
    have ih := convert_roundtrip ops hf t
    -- element-wise
    have hx : ∀ x ∈ xs, ∃ v', convert ops t x = .ok v' ∧ HasType t v' ∧ convert ops s v' = .ok x :=
      fun x hx => ih s x hc (ht x hx)
    let g : GoVal → GoVal := fun x => match convert ops t x with | .ok y => y | .error _ => default
    have hg : ∀ x ∈ xs, convert ops t x = .ok (g x) ∧ HasType t (g x) ∧ convert ops s (g x) = .ok x := by
      intro x hxm
      obtain ⟨v', h1, h2, h3⟩ := hx x hxm
      have : g x = v' := by simp [g, h1]
      rw [this]; exact ⟨h1, h2, h3⟩
    have fwd := mapRes_ok (convert ops t) g xs (fun x hxm => (hg x hxm).1)
    have bwd : mapRes (convert ops s) (xs.map g) = .ok xs := by
      have := mapRes_ok (convert ops s) (fun y => match convert ops s y with | .ok z => z | .error _ => default)
        (xs.map g) (by
          intro y hy
          obtain ⟨x, hxm, rfl⟩ := List.mem_map.mp hy
          simp [(hg x hxm).2.2])
      rw [this]; congr 1
      rw [List.map_map]
      conv => rhs; rw [← List.map_id xs]
      apply List.map_congr_left
      intro x hxm; simp [(hg x hxm).2.2]
    refine ⟨.slice (xs.map g), by simp [convert, fwd], ?_, by simp [convert, bwd]⟩
    simp only [HasType]
    intro y hy
    obtain ⟨x, hxm, rfl⟩ := List.mem_map.mp hy
    exact (hg x hxm).2.1
  | .map kt vt => by
    intro σ v hc ht
    cases σ <;> simp [Compat] at hc
    rename_i ks vs
    cases v <;> simp [HasType] at ht
    rename_i kvs
    have ihk := convert_roundtrip ops hf kt
    have ihv := convert_roundtrip ops hf vt
    let step (k v : GoType) : GoVal × GoVal → Res (GoVal × GoVal) :=
      pairStep (convert ops k) (convert ops v)
    let g : GoVal × GoVal → GoVal × GoVal := fun p => match step kt vt p with | .ok y => y | .error _ => default
    have hg : ∀ p ∈ kvs, step kt vt p = .ok (g p) ∧ (HasType kt (g p).1 ∧ HasType vt (g p).2) ∧
        step ks vs (g p) = .ok p := by
      intro p hp
      obtain ⟨a, ha1, ha2, ha3⟩ := ihk ks p.1 hc.1 (ht p.1 p.2 hp).1
      obtain ⟨b, hb1, hb2, hb3⟩ := ihv vs p.2 hc.2 (ht p.1 p.2 hp).2
      have hs : step kt vt p = .ok (a, b) := by simp [step, pairStep, ha1, hb1]
      have : g p = (a, b) := by simp [g, hs]
      rw [this]
      exact ⟨hs, ⟨ha2, hb2⟩, by simp [step, pairStep, ha3, hb3]⟩
    have fwd := mapRes_ok (step kt vt) g kvs (fun p hp => (hg p hp).1)
    have bwd : mapRes (step ks vs) (kvs.map g) = .ok kvs := by
      have := mapRes_ok (step ks vs) (fun y => match step ks vs y with | .ok z => z | .error _ => default)
        (kvs.map g) (by
          intro y hy
          obtain ⟨x, hxm, rfl⟩ := List.mem_map.mp hy
          simp [(hg x hxm).2.2])
      rw [this]; congr 1
      rw [List.map_map]
      conv => rhs; rw [← List.map_id kvs]
      apply List.map_congr_left
      intro x hxm; simp [(hg x hxm).2.2]
    refine ⟨.map (kvs.map g), ?_, ?_, ?_⟩
    · simp only [convert]; simp only [step] at fwd; rw [fwd]
    · simp only [HasType]
      intro y hy
      obtain ⟨x, hxm, rfl⟩ := List.mem_map.mp hy
      exact (hg x hxm).2.1
    · simp only [convert]; simp only [step] at bwd; rw [bwd]
  | .struct tfs => by
    intro σ v hc ht
    cases σ <;> simp [Compat] at hc
    rename_i sfs
    cases v <;> simp [HasType] at ht
    rename_i ws
    obtain ⟨r, h1, h2, h3⟩ := struct_case ops sfs tfs ws hc.1 hc.2.1
      (fun p hp => hc.2.2 p.1 p.2 hp) ht (convert_roundtrip_fields ops hf tfs)
    exact ⟨.struct r, by simp [convert, h1], by simp [HasType, h2], by simp [convert, h3]⟩
theorem convert_roundtrip_fields (ops : FloatOps) (hf : FloatExact ops) :
    (tfs : List (FName × GoType)) → ∀ p ∈ tfs, RoundTrips ops p.2
  | [] => by simp
  | (n, t) :: r => by
    intro p hp
    rcases List.mem_cons.mp hp with rfl | hp'
    · exact convert_roundtrip ops hf t
    · exact convert_roundtrip_fields ops hf r p hp'
end

/-- the conversion is injective on compatible pairs: distinct source values stay distinct
    (corollary of the exact inverse) -/
theorem convert_injective (ops : FloatOps) (hf : FloatExact ops) (σ τ : GoType) (hc : Compat σ τ)
    (v1 v2 : GoVal) (h1 : HasType σ v1) (h2 : HasType σ v2)
    (he : convert ops τ v1 = convert ops τ v2) : v1 = v2 := by
  obtain ⟨a, ha, _, hab⟩ := convert_roundtrip ops hf τ σ v1 hc h1
  obtain ⟨b, hb, _, hbb⟩ := convert_roundtrip ops hf τ σ v2 hc h2
  rw [ha, hb] at he
  have : a = b := Except.ok.inj he
  subst this
  rw [hab] at hbb
  exact Except.ok.inj hbb

/-- kind classes as the property speaks of them (signed and unsigned integers are one class:
    the code converts between them, and the property does not speak about that) -/
inductive KClass | bool | str | integer | float | slice | map | struct
  deriving DecidableEq

def classOfType : GoType → KClass
  | .bool => .bool | .str => .str | .int _ => .integer | .uint _ => .integer
  | .f32 => .float | .f64 => .float | .slice _ => .slice | .map _ _ => .map | .struct _ => .struct

def classOfVal : GoVal → KClass
  | .bool _ => .bool | .str _ => .str | .int _ => .integer | .uint _ => .integer
  | .f32 _ => .float | .f64 _ => .float | .slice _ => .slice | .map _ => .map | .struct _ => .struct

/-- Kinds that are not compatible are refused with an error. -/
theorem incompatible_refused (ops : FloatOps) (τ : GoType) (v : GoVal)
    (h : classOfType τ ≠ classOfVal v) : convert ops τ v = .error .err := by
  cases τ <;> cases v <;> simp [classOfType, classOfVal] at h <;> simp [convert]

theorem mapRes_error {α β} (f : α → Res β) (xs : List α) (x : α) (hx : x ∈ xs)
    (he : (f x).isError = true) : (mapRes f xs).isError = true := by
  induction xs with
  | nil => simp at hx
  | cons y ys ih =>
    simp only [mapRes]
    cases hy : f y with
    | error e => rfl
    | ok b =>
      rcases List.mem_cons.mp hx with rfl | hx'
      · rw [hy] at he; simp [Res.isError] at he
      · have := ih hx'
        cases hm : mapRes f ys with
        | error e => rfl
        | ok l => rw [hm] at this; simp [Res.isError] at this

/-- … at any depth: a refused element makes the whole slice conversion fail -/
theorem clash_in_slice (ops : FloatOps) (t : GoType) (xs : List GoVal) (x : GoVal) (hx : x ∈ xs)
    (he : (convert ops t x).isError = true) : (convert ops (.slice t) (.slice xs)).isError = true := by
  have := mapRes_error (convert ops t) xs x hx he
  simp only [convert]
  cases hm : mapRes (convert ops t) xs with
  | error e => rfl
  | ok l => rw [hm] at this; simp [Res.isError] at this

/-- … a refused key or value makes the whole map conversion fail -/
theorem clash_in_map (ops : FloatOps) (k v : GoType) (kvs : List (GoVal × GoVal)) (p : GoVal × GoVal)
    (hp : p ∈ kvs) (he : (convert ops k p.1).isError = true ∨ (convert ops v p.2).isError = true) :
    (convert ops (.map k v) (.map kvs)).isError = true := by
  have hstep : (pairStep (convert ops k) (convert ops v) p).isError = true := by
    unfold pairStep
    cases h1 : convert ops k p.1 with
    | error e => rfl
    | ok a =>
      cases h2 : convert ops v p.2 with
      | error e => rfl
      | ok b => rcases he with he | he
                · rw [h1] at he; simp [Res.isError] at he
                · rw [h2] at he; simp [Res.isError] at he
  have := mapRes_error _ kvs p hp hstep
  simp only [convert]
  cases hm : mapRes (pairStep (convert ops k) (convert ops v)) kvs with
  | error e => rfl
  | ok l => rw [hm] at this; simp [Res.isError] at this

/-! ### the hypotheses are inhabited by non-trivial cases -/

def exSrc : GoType := .struct [(['A'], .int 8), (['B', 'b'], .slice .str), (['M'], .map .str (.uint 16))]
def exDst : GoType := .struct [(['m'], .map .str (.uint 64)), (['b', 'B'], .slice .str), (['a'], .int 32)]
def exVal : GoVal :=
  .struct [(['A'], .int (-128)), (['B', 'b'], .slice [.str "x", .str ""]), (['M'], .map [(.str "k", .uint 65535)])]

example : Compat exSrc exDst := by
  simp [exSrc, exDst, Compat, CompatFields, NodupLower, lookupField, lower]

example : HasType exSrc exVal := by
  simp [exSrc, exVal, HasType, HasFields]

end QiVerif.C20
