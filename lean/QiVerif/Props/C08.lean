/-
  C08 — a truncated encoding is never accepted.
  (Helper lemmas: Lemmas/Stable.lean — decoders only look at what they consume and more stack
  never changes a result — and the round-trip theorems of C01/C02/C03.)
-/
import QiVerif.Lemmas.Stable
import QiVerif.Props.C01
namespace QiVerif.C08
open QiVerif QiVerif.Sig QiVerif.Codec QiVerif.Value QiVerif.Decode
open QiVerif.CodecL QiVerif.ValueL QiVerif.DecodeL QiVerif.StableL

/-- **Typed data through the signature-driven reader**: every strict prefix of the encoding of a
    well-typed value of any signature is refused (at every stack depth: it is an error or the
    depth runs out, never a result). -/
theorem trunc_reader (t : Ty) (v : TVal) (ht : Typed t v) (k : Nat) (hk : k < (D t v).length) (f : Nat) :
    (readT f t ((D t v).take k)).isError = true :=
  prefix_rejected (fun f inp => readT f t inp) (fun f inp x r h j ext => readT_stable f t inp x r h j ext)
    (D t v) (vneed v) (D t v)
    (by have := rt v t ht (vneed v) [] (Nat.le_refl _); simpa using this) k hk f

/-- **Dynamic values**: every strict prefix of the encoding of a well-formed value is refused. -/
theorem trunc_value (s : SVal) (h : WFS s) (k : Nat) (hk : k < (writeVal (toVal s)).length) (f : Nat) :
    (readVal f ((writeVal (toVal s)).take k)).isError = true :=
  prefix_rejected readVal (fun f inp x r h j ext => readVal_stable f inp x r h j ext)
    (writeVal (toVal s)) (sneed s) (toVal s)
    (by have := val_rt s h (sneed s) [] (Nat.le_refl _); simpa using this) k hk f

/-- **Go values through the reflection decoder** (and meta-objects, object references, service
    infos, capability maps … through the generated readers: `cfg` is either configuration). -/
theorem trunc_decoder (cfg : DecCfg) (hc : CfgOK cfg) (t : Ty) (v : TVal) (ht : Typed t v) (hs : Small v)
    (k : Nat) (hk : k < (D t v).length) (f : Nat) :
    (decT cfg f t ((D t v).take k)).isError = true :=
  prefix_rejected (fun f inp => decT cfg f t inp) (fun f inp x r h j ext => decT_stable cfg f t inp x r h j ext)
    (D t v) (vneed v) (toD t v)
    (by have := dt cfg hc v t ht hs (vneed v) [] (Nat.le_refl _); simpa using this) k hk f

theorem trunc_reflect (t : Ty) (v : TVal) (ht : Typed t v) (hs : Small v) (k : Nat) (hk : k < (D t v).length)
    (f : Nat) : (decT reflectCfg f t ((D t v).take k)).isError = true :=
  trunc_decoder reflectCfg (Or.inr rfl) t v ht hs k hk f

theorem trunc_generated (t : Ty) (v : TVal) (ht : Typed t v) (hs : Small v) (k : Nat) (hk : k < (D t v).length)
    (f : Nat) : (decT generatedCfg f t ((D t v).take k)).isError = true :=
  trunc_decoder generatedCfg (Or.inl rfl) t v ht hs k hk f

/-- **Messages**: a stream that ends inside a valid message (however it is fragmented) makes
    `Message.Read` fail. -/
theorem trunc_message (max : Nat) (m : Message.Msg) (hv : Message.ValidMsg max m) (s : Stream) (hwf : WFStream s)
    (k : Nat) (hk : k < (Message.wire m).length) (hflat : flat s = (Message.wire m).take k) :
    (Message.readMsg max s).1.isError = true := by
  obtain ⟨hh, hsz, hmax⟩ := hv
  have hlen28 := C01.encodeHeader_length m.header
  have hwl : (Message.wire m).length = 28 + m.payload.length := by simp [Message.wire, hlen28]
  have hfl : (flat s).length = k := by rw [hflat]; simp; omega
  unfold Message.readMsg
  by_cases hk28 : k < 28
  · have := readN_short Message.headerSize s [] hwf (by rw [hfl]; simp [Message.headerSize]; omega)
    cases hr : readN Message.headerSize s [] with
    | error e => simp [Res.isError]
    | ok p => rw [hr] at this; simp [Res.isError] at this
  · have hl : Message.headerSize ≤ (flat s).length := by rw [hfl]; simp [Message.headerSize]; omega
    obtain ⟨s1, r1, wf1, f1⟩ := readN_chunks Message.headerSize s [] hwf hl
    have htake : (flat s).take Message.headerSize = Message.encodeHeader m.header := by
      rw [hflat, List.take_take, Nat.min_eq_left (by simp [Message.headerSize]; omega), Message.wire,
        List.take_append_of_le_length (by simp [hlen28, Message.headerSize])]
      exact List.take_of_length_le (by simp [hlen28, Message.headerSize])
    rw [r1]; simp only [List.nil_append, htake, C01.header_roundtrip _ hh]
    have hnot : ¬ m.header.size > max := by omega
    simp only [hnot, if_false]
    have hpos : m.header.size ≠ 0 := by omega
    simp only [hpos, if_false]
    have hshort : (flat s1).length < m.header.size := by
      rw [f1]; simp [hfl, Message.headerSize]; omega
    have := readN_short m.header.size s1 [] wf1 hshort
    cases hr : readN m.header.size s1 [] with
    | error e => simp [Res.isError]
    | ok p => rw [hr] at this; simp [Res.isError] at this

end QiVerif.C08
