/-
  Soundness of the lock checker of Model/Locks.lean: a skeleton that `safe` accepts never — on any path — locks a mutex
  this goroutine already holds, unlocks one it does not hold, or returns with one held.  Tie/Locks.lean evaluates `safe`
  on the skeleton of every function of bus/ that touches a mutex, regenerated from the source on every run.
-/
import QiVerif.Model.Locks
set_option linter.unusedVariables false
namespace QiVerif.Locks

theorem outs_sound (p : Prog) (s : St) (o : Out) (h : Run p s o) : o ∈ outs p s ∨ Out.bad ∈ outs p s := by
  induction h with
  | skip s => simp [outs]
  | lockOk m s hm => simp [outs, hm]
  | lockBad m s hm => simp [outs, hm]
  | unlockOk m s hm => simp [outs, hm]
  | unlockBad m s hm => simp [outs, hm]
  | dunlock m s => simp [outs]
  | ret s => simp [outs]
  | brk s => simp [outs]
  | cont s => simp [outs]
  | unknown s => simp [outs]
  | seqGo a b s s' o _ _ ih1 ih2 =>
    simp only [outs, List.mem_flatMap]
    rcases ih1 with h1 | h1
    · rcases ih2 with h2 | h2
      · exact Or.inl ⟨_, h1, h2⟩
      · exact Or.inr ⟨_, h1, h2⟩
    · exact Or.inr ⟨_, h1, by simp⟩
  | seqStop a b s o _ hn ih =>
    simp only [outs, List.mem_flatMap]
    rcases ih with h1 | h1
    · refine Or.inl ⟨o, h1, ?_⟩
      cases o with
      | normal s' => exact absurd rfl (hn s')
      | _ => simp
    · exact Or.inr ⟨_, h1, by simp⟩
  | iteL a b s o _ ih =>
    simp only [outs, List.mem_append]
    rcases ih with h | h
    · exact Or.inl (Or.inl h)
    · exact Or.inr (Or.inl h)
  | iteR a b s o _ ih =>
    simp only [outs, List.mem_append]
    rcases ih with h | h
    · exact Or.inl (Or.inr h)
    · exact Or.inr (Or.inr h)
  | loopEnd a s =>
    simp only [outs]
    split
    · exact Or.inl (List.mem_cons_self ..)
    · exact Or.inr (List.mem_singleton.mpr rfl)
  | loopNext a s s' o _ _ ih1 ih2 =>
    simp only [outs]
    split
    · rename_i hall
      rcases ih1 with h1 | h1
      · have := List.all_eq_true.mp hall _ h1
        simp only [beq_iff_eq] at this
        subst this
        simp only [outs, hall, if_true] at ih2
        exact ih2
      · exact Or.inr (List.mem_cons_of_mem _ (List.mem_map.mpr ⟨_, h1, rfl⟩))
    · exact Or.inr (List.mem_singleton.mpr rfl)
  | loopCont a s s' o _ _ ih1 ih2 =>
    simp only [outs]
    split
    · rename_i hall
      rcases ih1 with h1 | h1
      · have := List.all_eq_true.mp hall _ h1
        simp only [beq_iff_eq] at this
        subst this
        simp only [outs, hall, if_true] at ih2
        exact ih2
      · exact Or.inr (List.mem_cons_of_mem _ (List.mem_map.mpr ⟨_, h1, rfl⟩))
    · exact Or.inr (List.mem_singleton.mpr rfl)
  | loopBrk a s s' _ ih =>
    simp only [outs]
    split
    · rcases ih with h1 | h1
      · exact Or.inl (List.mem_cons_of_mem _ (List.mem_map.mpr ⟨_, h1, rfl⟩))
      · exact Or.inr (List.mem_cons_of_mem _ (List.mem_map.mpr ⟨_, h1, rfl⟩))
    · exact Or.inr (List.mem_singleton.mpr rfl)
  | loopRet a s s' _ ih =>
    simp only [outs]
    split
    · rcases ih with h1 | h1
      · exact Or.inl (List.mem_cons_of_mem _ (List.mem_map.mpr ⟨_, h1, rfl⟩))
      · exact Or.inr (List.mem_cons_of_mem _ (List.mem_map.mpr ⟨_, h1, rfl⟩))
    · exact Or.inr (List.mem_singleton.mpr rfl)
  | loopBad a s _ ih =>
    simp only [outs]
    split
    · have h1 : Out.bad ∈ outs a s := by rcases ih with h | h <;> exact h
      exact Or.inr (List.mem_cons_of_mem _ (List.mem_map.mpr ⟨_, h1, rfl⟩))
    · exact Or.inr (List.mem_singleton.mpr rfl)
  | catchBrk a s s' _ ih =>
    simp only [outs]
    rcases ih with h1 | h1
    · exact Or.inl (List.mem_map.mpr ⟨_, h1, rfl⟩)
    · exact Or.inr (List.mem_map.mpr ⟨_, h1, rfl⟩)
  | catchOther a s o _ hn ih =>
    simp only [outs]
    rcases ih with h1 | h1
    · refine Or.inl (List.mem_map.mpr ⟨o, h1, ?_⟩)
      cases o with
      | broke s' => exact absurd rfl (hn s')
      | _ => rfl
    · exact Or.inr (List.mem_map.mpr ⟨_, h1, rfl⟩)

/-- **A skeleton the checker accepts leaks no lock.**  On every path — every choice of branch, every number of rounds of
    every loop — the function never locks a mutex it already holds, never unlocks one it does not hold, and when it
    returns (or reaches its end) its deferred unlocks leave nothing held. -/
theorem safe_sound (p : Prog) (hs : safe p = true) (o : Out) (h : Run p {} o) :
    ∃ s, (o = .normal s ∨ o = .returned s) ∧ final s.held s.deferred = some [] := by
  have hall := List.all_eq_true.mp hs
  rcases outs_sound p {} o h with h1 | h1
  · have := hall o h1
    cases o with
    | normal s => exact ⟨s, Or.inl rfl, by simpa [exitOk] using this⟩
    | returned s => exact ⟨s, Or.inr rfl, by simpa [exitOk] using this⟩
    | broke s => simp [exitOk] at this
    | continued s => simp [exitOk] at this
    | bad => simp [exitOk] at this
  · have := hall _ h1
    simp [exitOk] at this

/-! ### non-vacuity, and the two slips the checker is there for -/

/-- `Lock; if … { Unlock; return }; for … { if … { continue }; … }; Unlock` -/
def exGood : Prog :=
  .seq (.lock 0) (.seq (.ite (.seq (.unlock 0) .ret) .skip) (.seq (.loop (.ite .cont .skip)) (.unlock 0)))
example : safe exGood = true := by decide
example : Run exGood {} (.returned {}) :=
  .seqGo _ _ _ _ _ (.lockOk 0 {} (by simp)) (.seqStop _ _ _ _ (.iteL _ _ _ _ (.seqGo _ _ _ _ _ (.unlockOk 0 _ (by simp)) (.ret _))) (by simp))

/-- the early return that keeps the lock (the seeded change C11n: `Lock; if len == 0 { return }; …; Unlock`) -/
def exLeak : Prog := .seq (.lock 0) (.seq (.ite .ret .skip) (.unlock 0))
theorem early_return_keeps_the_lock : safe exLeak = false ∧ Run exLeak {} (.returned { held := [0] }) :=
  ⟨by decide, .seqGo _ _ _ _ _ (.lockOk 0 {} (by simp)) (.seqStop _ _ _ _ (.iteL _ _ _ _ (.ret _)) (by simp))⟩

/-- a read lock taken again inside the read lock (the seeded change C19k) -/
example : safe (.seq (.lock 1) (.seq (.lock 1) (.seq (.unlock 1) (.unlock 1)))) = false := by decide

end QiVerif.Locks
