/-
  Soundness of the lock checker of Model/Locks.lean: a skeleton that `safe` accepts never — on any path — locks a mutex
  this goroutine already holds, unlocks one it does not hold, or returns with one held.  Tie/Locks.lean evaluates `safe`
  on the skeleton of every function of bus/ that touches a mutex, regenerated from the source on every run.
-/
import QiVerif.Model.Locks
set_option linter.unusedVariables false
namespace QiVerif.Locks

theorem outs_sound (p : Prog) (s : St) (o : Out) (h : Run p s o) : o ∈ outs p s ∨ Out.bad ∈ outs p s := by
  induction h with
  | skip s => simp [outs]
  | lockOk m s hm => simp [outs, hm]
  | lockBad m s hm => simp [outs, hm]
  | unlockOk m s hm => simp [outs, hm]
  | unlockBad m s hm => simp [outs, hm]
  | dunlock m s => simp [outs]
  | ret s => simp [outs]
  | brk s => simp [outs]
  | cont s => simp [outs]
  | act k s => simp [outs]
  | unknown s => simp [outs]
  | seqGo a b s s' o _ _ ih1 ih2 =>
    simp only [outs, List.mem_flatMap]
    rcases ih1 with h1 | h1
    · rcases ih2 with h2 | h2
      · exact Or.inl ⟨_, h1, h2⟩
      · exact Or.inr ⟨_, h1, h2⟩
    · exact Or.inr ⟨_, h1, by simp⟩
  | seqStop a b s o _ hn ih =>
    simp only [outs, List.mem_flatMap]
    rcases ih with h1 | h1
    · refine Or.inl ⟨o, h1, ?_⟩
      cases o with
      | normal s' => exact absurd rfl (hn s')
      | _ => simp
    · exact Or.inr ⟨_, h1, by simp⟩
  | iteL a b s o _ ih =>
    simp only [outs, List.mem_append]
    rcases ih with h | h
    · exact Or.inl (Or.inl h)
    · exact Or.inr (Or.inl h)
  | iteR a b s o _ ih =>
    simp only [outs, List.mem_append]
    rcases ih with h | h
    · exact Or.inl (Or.inr h)
    · exact Or.inr (Or.inr h)
  | loopEnd a s =>
    simp only [outs]
    split
    · exact Or.inl (List.mem_cons_self ..)
    · exact Or.inr (List.mem_singleton.mpr rfl)
  | loopNext a s s' o _ _ ih1 ih2 =>
    simp only [outs]
    split
    · rename_i hall
      rcases ih1 with h1 | h1
      · have := List.all_eq_true.mp hall _ h1
        simp only [beq_iff_eq] at this
        subst this
        simp only [outs, hall, if_true] at ih2
        exact ih2
      · exact Or.inr (List.mem_cons_of_mem _ (List.mem_map.mpr ⟨_, h1, rfl⟩))
    · exact Or.inr (List.mem_singleton.mpr rfl)
  | loopCont a s s' o _ _ ih1 ih2 =>
    simp only [outs]
    split
    · rename_i hall
      rcases ih1 with h1 | h1
      · have := List.all_eq_true.mp hall _ h1
        simp only [beq_iff_eq] at this
        subst this
        simp only [outs, hall, if_true] at ih2
        exact ih2
      · exact Or.inr (List.mem_cons_of_mem _ (List.mem_map.mpr ⟨_, h1, rfl⟩))
    · exact Or.inr (List.mem_singleton.mpr rfl)
  | loopBrk a s s' _ ih =>
    simp only [outs]
    split
    · rcases ih with h1 | h1
      · exact Or.inl (List.mem_cons_of_mem _ (List.mem_map.mpr ⟨_, h1, rfl⟩))
      · exact Or.inr (List.mem_cons_of_mem _ (List.mem_map.mpr ⟨_, h1, rfl⟩))
    · exact Or.inr (List.mem_singleton.mpr rfl)
  | loopRet a s s' _ ih =>
    simp only [outs]
    split
    · rcases ih with h1 | h1
      · exact Or.inl (List.mem_cons_of_mem _ (List.mem_map.mpr ⟨_, h1, rfl⟩))
      · exact Or.inr (List.mem_cons_of_mem _ (List.mem_map.mpr ⟨_, h1, rfl⟩))
    · exact Or.inr (List.mem_singleton.mpr rfl)
  | loopBad a s _ ih =>
    simp only [outs]
    split
    · have h1 : Out.bad ∈ outs a s := by rcases ih with h | h <;> exact h
      exact Or.inr (List.mem_cons_of_mem _ (List.mem_map.mpr ⟨_, h1, rfl⟩))
    · exact Or.inr (List.mem_singleton.mpr rfl)
  | catchBrk a s s' _ ih =>
    simp only [outs]
    rcases ih with h1 | h1
    · exact Or.inl (List.mem_map.mpr ⟨_, h1, rfl⟩)
    · exact Or.inr (List.mem_map.mpr ⟨_, h1, rfl⟩)
  | catchOther a s o _ hn ih =>
    simp only [outs]
    rcases ih with h1 | h1
    · refine Or.inl (List.mem_map.mpr ⟨o, h1, ?_⟩)
      cases o with
      | broke s' => exact absurd rfl (hn s')
      | _ => rfl
    · exact Or.inr (List.mem_map.mpr ⟨_, h1, rfl⟩)

/-- **A skeleton the checker accepts leaks no lock.**  On every path — every choice of branch, every number of rounds of
    every loop — the function never locks a mutex it already holds, never unlocks one it does not hold, and when it
    returns (or reaches its end) its deferred unlocks leave nothing held. -/
theorem safe_sound (p : Prog) (hs : safe p = true) (o : Out) (h : Run p {} o) :
    ∃ s, (o = .normal s ∨ o = .returned s) ∧ final s.held s.deferred = some [] := by
  have hall := List.all_eq_true.mp hs
  rcases outs_sound p {} o h with h1 | h1
  · have := hall o h1
    cases o with
    | normal s => exact ⟨s, Or.inl rfl, by simpa [exitOk] using this⟩
    | returned s => exact ⟨s, Or.inr rfl, by simpa [exitOk] using this⟩
    | broke s => simp [exitOk] at this
    | continued s => simp [exitOk] at this
    | bad => simp [exitOk] at this
  · have := hall _ h1
    simp [exitOk] at this

/-! ### non-vacuity, and the two slips the checker is there for -/

/-- `Lock; if … { Unlock; return }; for … { if … { continue }; … }; Unlock` -/
def exGood : Prog :=
  .seq (.lock 0) (.seq (.ite (.seq (.unlock 0) .ret) .skip) (.seq (.loop (.ite .cont .skip)) (.unlock 0)))
example : safe exGood = true := by decide
example : Run exGood {} (.returned {}) :=
  .seqGo _ _ _ _ _ (.lockOk 0 {} (by simp)) (.seqStop _ _ _ _ (.iteL _ _ _ _ (.seqGo _ _ _ _ _ (.unlockOk 0 _ (by simp)) (.ret _))) (by simp))

/-- the early return that keeps the lock (the seeded change C11n: `Lock; if len == 0 { return }; …; Unlock`) -/
def exLeak : Prog := .seq (.lock 0) (.seq (.ite .ret .skip) (.unlock 0))
theorem early_return_keeps_the_lock : safe exLeak = false ∧ Run exLeak {} (.returned { held := [0] }) :=
  ⟨by decide, .seqGo _ _ _ _ _ (.lockOk 0 {} (by simp)) (.seqStop _ _ _ _ (.iteL _ _ _ _ (.ret _)) (by simp))⟩

/-- a read lock taken again inside the read lock (the seeded change C19k) -/
example : safe (.seq (.lock 1) (.seq (.lock 1) (.seq (.unlock 1) (.unlock 1)))) = false := by decide

/-! ### what is done under a mutex -/

theorem runT_run (p : Prog) (s : St) (o : Out) (t : List Nat) (h : RunT p s o t) : Run p s o := by
  induction h with
  | skip s => exact .skip s
  | lockOk m s hm => exact .lockOk m s hm
  | lockBad m s hm => exact .lockBad m s hm
  | unlockOk m s hm => exact .unlockOk m s hm
  | unlockBad m s hm => exact .unlockBad m s hm
  | dunlock m s => exact .dunlock m s
  | ret s => exact .ret s
  | brk s => exact .brk s
  | cont s => exact .cont s
  | act k s => exact .act k s
  | unknown s => exact .unknown s
  | seqGo a b s s' o t1 t2 _ _ ih1 ih2 => exact .seqGo a b s s' o ih1 ih2
  | seqStop a b s o t _ hn ih => exact .seqStop a b s o ih hn
  | iteL a b s o t _ ih => exact .iteL a b s o ih
  | iteR a b s o t _ ih => exact .iteR a b s o ih
  | loopEnd a s => exact .loopEnd a s
  | loopNext a s s' o t1 t2 _ _ ih1 ih2 => exact .loopNext a s s' o ih1 ih2
  | loopCont a s s' o t1 t2 _ _ ih1 ih2 => exact .loopCont a s s' o ih1 ih2
  | loopBrk a s s' t _ ih => exact .loopBrk a s s' ih
  | loopRet a s s' t _ ih => exact .loopRet a s s' ih
  | loopBad a s t _ ih => exact .loopBad a s ih
  | catchBrk a s s' t _ ih => exact .catchBrk a s s' ih
  | catchOther a s o t _ hn ih => exact .catchOther a s o ih hn

theorem loop_clean (a : Prog) (s : St) (hb : Out.bad ∉ outs (.loop a) s) :
    Out.bad ∉ outs a s ∧ (∀ s', Out.normal s' ∈ outs a s → s' = s) ∧ (∀ s', Out.continued s' ∈ outs a s → s' = s) := by
  simp only [outs] at hb
  split at hb
  · rename_i hall
    refine ⟨?_, ?_, ?_⟩
    · intro h
      exact hb (List.mem_cons_of_mem _ (List.mem_map.mpr ⟨_, h, rfl⟩))
    · intro s' h
      have := List.all_eq_true.mp hall _ h
      simpa using this
    · intro s' h
      have := List.all_eq_true.mp hall _ h
      simpa using this
  · exact absurd (List.mem_singleton.mpr rfl) hb

/-- **Everything an execution does under a mutex is among `acts`**, for a skeleton the checker does not refuse. -/
theorem acts_sound (p : Prog) (s : St) (o : Out) (t : List Nat) (h : RunT p s o t) (hb : Out.bad ∉ outs p s) :
    ∀ k ∈ t, k ∈ acts p s := by
  induction h with
  | skip s => simp
  | lockOk m s hm => simp
  | lockBad m s hm => simp
  | unlockOk m s hm => simp
  | unlockBad m s hm => simp
  | dunlock m s => simp
  | ret s => simp
  | brk s => simp
  | cont s => simp
  | unknown s => simp
  | act k s => simp [acts]
  | seqGo a b s s' o t1 t2 h1 _ ih1 ih2 =>
    have hba : Out.bad ∉ outs a s := by
      intro hx; apply hb; simp only [outs, List.mem_flatMap]; exact ⟨_, hx, by simp⟩
    have hn : Out.normal s' ∈ outs a s := by
      rcases outs_sound a s _ (runT_run _ _ _ _ h1) with h | h
      · exact h
      · exact absurd h hba
    have hbb : Out.bad ∉ outs b s' := by
      intro hx; apply hb; simp only [outs, List.mem_flatMap]; exact ⟨_, hn, hx⟩
    intro k hk
    simp only [acts, List.mem_append, List.mem_flatMap]
    rcases List.mem_append.mp hk with hk | hk
    · exact Or.inl (ih1 hba k hk)
    · exact Or.inr ⟨_, hn, ih2 hbb k hk⟩
  | seqStop a b s o t _ hn ih =>
    have hba : Out.bad ∉ outs a s := by
      intro hx; apply hb; simp only [outs, List.mem_flatMap]; exact ⟨_, hx, by simp⟩
    intro k hk
    simp only [acts, List.mem_append]
    exact Or.inl (ih hba k hk)
  | iteL a b s o t _ ih =>
    have hba : Out.bad ∉ outs a s := fun hx => hb (by simp only [outs, List.mem_append]; exact Or.inl hx)
    intro k hk
    simp only [acts, List.mem_append]
    exact Or.inl (ih hba k hk)
  | iteR a b s o t _ ih =>
    have hbb : Out.bad ∉ outs b s := fun hx => hb (by simp only [outs, List.mem_append]; exact Or.inr hx)
    intro k hk
    simp only [acts, List.mem_append]
    exact Or.inr (ih hbb k hk)
  | loopEnd a s => simp
  | loopNext a s s' o t1 t2 h1 _ ih1 ih2 =>
    obtain ⟨hba, hn, _⟩ := loop_clean a s hb
    have hmem : Out.normal s' ∈ outs a s := by
      rcases outs_sound a s _ (runT_run _ _ _ _ h1) with h | h
      · exact h
      · exact absurd h hba
    have := hn s' hmem
    subst this
    intro k hk
    rcases List.mem_append.mp hk with hk | hk
    · simpa [acts] using ih1 hba k hk
    · exact ih2 hb k hk
  | loopCont a s s' o t1 t2 h1 _ ih1 ih2 =>
    obtain ⟨hba, _, hc⟩ := loop_clean a s hb
    have hmem : Out.continued s' ∈ outs a s := by
      rcases outs_sound a s _ (runT_run _ _ _ _ h1) with h | h
      · exact h
      · exact absurd h hba
    have := hc s' hmem
    subst this
    intro k hk
    rcases List.mem_append.mp hk with hk | hk
    · simpa [acts] using ih1 hba k hk
    · exact ih2 hb k hk
  | loopBrk a s s' t _ ih =>
    intro k hk; simpa [acts] using ih (loop_clean a s hb).1 k hk
  | loopRet a s s' t _ ih =>
    intro k hk; simpa [acts] using ih (loop_clean a s hb).1 k hk
  | loopBad a s t _ ih =>
    intro k hk; simpa [acts] using ih (loop_clean a s hb).1 k hk
  | catchBrk a s s' t _ ih =>
    have hba : Out.bad ∉ outs a s := fun hx => hb (by simp only [outs]; exact List.mem_map.mpr ⟨_, hx, rfl⟩)
    intro k hk; simpa [acts] using ih hba k hk
  | catchOther a s o t _ hn ih =>
    have hba : Out.bad ∉ outs a s := fun hx => hb (by simp only [outs]; exact List.mem_map.mpr ⟨_, hx, rfl⟩)
    intro k hk; simpa [acts] using ih hba k hk

/-- a skeleton the checker accepts, for which `acts` finds nothing: no execution does anything that may wait for
    another party while it holds a mutex -/
theorem nothing_waits_under_a_mutex (p : Prog) (hs : safe p = true) (ha : acts p {} = []) (o : Out) (t : List Nat)
    (h : RunT p {} o t) : t = [] := by
  have hb : Out.bad ∉ outs p {} := by
    intro hx
    have := List.all_eq_true.mp hs _ hx
    simp [exitOk] at this
  cases t with
  | nil => rfl
  | cons k t' =>
    have := acts_sound p {} o (k :: t') h hb k (List.mem_cons_self ..)
    rw [ha] at this
    cases this

/-- `RLock; ch <- msg; RUnlock` (the seeded changes C16j / C12n): the send is under the mutex -/
example : acts (.seq (.lock 1) (.seq (.act 0) (.unlock 1))) {} = [0] := by decide
example : acts (.seq (.lock 1) (.seq (.unlock 1) (.act 0))) {} = [] := by decide

/-! ### every skeleton has an execution -/

/-- every skeleton has an execution from every state: the statements about "every execution" are about something -/
theorem run_total (p : Prog) : ∀ s, ∃ o, Run p s o := by
  induction p with
  | skip => exact fun s => ⟨_, .skip s⟩
  | seq a b iha ihb =>
    intro s
    obtain ⟨oa, ha⟩ := iha s
    cases oa with
    | normal s' =>
      obtain ⟨ob, hb⟩ := ihb s'
      exact ⟨ob, .seqGo a b s s' ob ha hb⟩
    | returned s' => exact ⟨_, .seqStop a b s _ ha (by simp)⟩
    | broke s' => exact ⟨_, .seqStop a b s _ ha (by simp)⟩
    | continued s' => exact ⟨_, .seqStop a b s _ ha (by simp)⟩
    | bad => exact ⟨_, .seqStop a b s _ ha (by simp)⟩
  | lock m =>
    intro s
    by_cases h : m ∈ s.held
    · exact ⟨_, .lockBad m s h⟩
    · exact ⟨_, .lockOk m s h⟩
  | unlock m =>
    intro s
    by_cases h : m ∈ s.held
    · exact ⟨_, .unlockOk m s h⟩
    · exact ⟨_, .unlockBad m s h⟩
  | dunlock m => exact fun s => ⟨_, .dunlock m s⟩
  | ret => exact fun s => ⟨_, .ret s⟩
  | ite a b iha _ =>
    intro s
    obtain ⟨o, h⟩ := iha s
    exact ⟨o, .iteL a b s o h⟩
  | loop a _ => exact fun s => ⟨_, .loopEnd a s⟩
  | «catch» a ih =>
    intro s
    obtain ⟨o, h⟩ := ih s
    cases o with
    | broke s' => exact ⟨_, .catchBrk a s s' h⟩
    | normal s' => exact ⟨_, .catchOther a s _ h (by simp)⟩
    | returned s' => exact ⟨_, .catchOther a s _ h (by simp)⟩
    | continued s' => exact ⟨_, .catchOther a s _ h (by simp)⟩
    | bad => exact ⟨_, .catchOther a s _ h (by simp)⟩
  | brk => exact fun s => ⟨_, .brk s⟩
  | cont => exact fun s => ⟨_, .cont s⟩
  | act k => exact fun s => ⟨_, .act k s⟩
  | unknown => exact fun s => ⟨_, .unknown s⟩

/-- a skeleton the checker accepts has an execution, and it ends holding nothing -/
theorem safe_has_a_clean_execution (p : Prog) (hs : safe p = true) :
    ∃ o s, Run p {} o ∧ (o = .normal s ∨ o = .returned s) ∧ final s.held s.deferred = some [] := by
  obtain ⟨o, h⟩ := run_total p {}
  obtain ⟨s, ho, hf⟩ := safe_sound p hs o h
  exact ⟨o, s, h, ho, hf⟩


end QiVerif.Locks
