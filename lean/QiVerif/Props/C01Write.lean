/-
  C01 — what reaches the writer.  `Message.Write` hands header ++ payload to `basic.WriteN`; the writer may take
  the bytes in any number of pieces.  For every behaviour of the writer (Model/WriteN.lean):
   * `writeN_prefix`   — what the writer has taken is a prefix of the message, whatever was reported;
   * `writeN_ok`       — when `WriteN` reports success the writer has taken exactly the message, once, in order;
   * `writeN_pieces`   — a writer that takes at least one byte per call and reports nothing gets all of it;
   * `message_through_any_writer` — the same for `Message.Write`: success means the wire holds header ++ payload.
-/
import QiVerif.Model.WriteN
import QiVerif.Model.Message
namespace QiVerif.C01Write
open QiVerif QiVerif.WriteN QiVerif.Message

theorem take_add_take (buf : Bytes) (size w : Nat) :
    buf.take size ++ (buf.drop size).take w = buf.take (size + w) := by
  rw [List.take_add]

/-- the loop keeps "the writer holds the first `size` bytes" -/
theorem loop_inv (buf : Bytes) (rs : List WResp) (size : Nat) (hs : size ≤ buf.length) :
    ∃ k, k ≤ buf.length ∧ (loop buf rs size (buf.take size)).2 = buf.take k ∧
      ((loop buf rs size (buf.take size)).1 = .ok () → k = buf.length) := by
  induction rs generalizing size with
  | nil =>
    unfold loop
    split
    · exact ⟨size, hs, rfl, fun _ => by omega⟩
    · exact ⟨size, hs, rfl, fun h => by cases h⟩
  | cons r rs ih =>
    unfold loop
    split
    · exact ⟨size, hs, rfl, fun _ => by omega⟩
    · rename_i hlt
      simp only
      have hw : size + min r.n (buf.drop size).length ≤ buf.length := by
        simp only [List.length_drop]; omega
      rw [take_add_take]
      cases r.err with
      | none =>
        simp only
        split
        · exact ih _ hw
        · exact ⟨_, hw, rfl, fun h => by cases h⟩
      | eof =>
        simp only
        split
        · rename_i he; exact ⟨_, hw, rfl, fun _ => he⟩
        · split
          · exact ⟨_, hw, rfl, fun h => by cases h⟩
          · exact ⟨_, hw, rfl, fun h => by cases h⟩
      | other => exact ⟨_, hw, rfl, fun h => by cases h⟩

/-- whatever the writer does and reports, what it has taken is a prefix of the buffer: nothing is sent twice,
    nothing out of order -/
theorem writeN_prefix (buf : Bytes) (rs : List WResp) : ∃ k, k ≤ buf.length ∧ (writeN buf rs).2 = buf.take k := by
  obtain ⟨k, hk, h, _⟩ := loop_inv buf rs 0 (Nat.zero_le _)
  exact ⟨k, hk, by simpa [writeN] using h⟩

/-- success means the writer has taken exactly the buffer -/
theorem writeN_ok (buf : Bytes) (rs : List WResp) (h : (writeN buf rs).1 = .ok ()) : (writeN buf rs).2 = buf := by
  obtain ⟨k, hk, h1, h2⟩ := loop_inv buf rs 0 (Nat.zero_le _)
  have := h2 (by simpa [writeN] using h)
  subst this
  simpa [writeN] using h1

/-- a writer that takes up to `k ≥ 1` bytes per call and reports nothing: enough calls deliver everything -/
theorem loop_pieces (buf : Bytes) (k n size : Nat) (hk : 0 < k) (hs : size ≤ buf.length) (hn : buf.length ≤ size + n) :
    loop buf (pieces k n) size (buf.take size) = (.ok (), buf) := by
  induction n generalizing size with
  | zero =>
    have : size = buf.length := by omega
    subst this
    simp [pieces, loop]
  | succ n ih =>
    simp only [pieces, List.replicate_succ]
    unfold loop
    split
    · have : size = buf.length := by omega
      subst this; simp
    · rename_i hlt
      simp only [take_add_take]
      have hpos : min k (buf.drop size).length ≠ 0 := by simp only [List.length_drop]; omega
      simp only [hpos, ne_eq, not_false_eq_true, if_true]
      exact ih _ (by simp only [List.length_drop]; omega) (by simp only [List.length_drop]; omega)

theorem writeN_pieces (buf : Bytes) (k n : Nat) (hk : 0 < k) (hn : buf.length ≤ n) :
    writeN buf (pieces k n) = (.ok (), buf) := by
  have := loop_pieces buf k n 0 hk (Nat.zero_le _) (by omega)
  simpa [writeN] using this

/-- `Message.Write` through any writer: the one buffer `writeMsg` hands over goes through `WriteN`; when that
    reports success the writer holds the header followed by the payload, and nothing else -/
def writeThrough (m : Msg) (rs : List WResp) : Res Unit × Bytes :=
  match writeMsg m with
  | .error e => (.error e, [])
  | .ok bufs => writeN bufs.flatten rs

theorem message_through_any_writer (m : Msg) (rs : List WResp) (h : (writeThrough m rs).1 = .ok ()) :
    (writeThrough m rs).2 = wire m := by
  unfold writeThrough at *
  unfold writeMsg at *
  split at h
  · rename_i e he; split at he <;> cases he; cases h
  · rename_i bufs hb
    split at hb
    · cases hb
    · cases hb
      simp only [List.flatten_cons, List.flatten_nil, List.append_nil] at *
      rw [writeN_ok _ rs h]; rfl

/-- and what a writer holds after a failed write is a prefix of that message -/
theorem message_failed_write_prefix (m : Msg) (rs : List WResp) :
    ∃ k, (writeThrough m rs).2 = (wire m).take k := by
  unfold writeThrough writeMsg
  split
  · exact ⟨0, by simp⟩
  · rename_i bufs hb
    split at hb
    · cases hb
    · cases hb
      obtain ⟨k, _, h⟩ := writeN_prefix (encodeHeader m.header ++ m.payload) rs
      exact ⟨k, by simpa [wire] using h⟩

/-- non-vacuity: three pieces, then the rest with the end of the stream -/
example : writeN [1, 2, 3, 4, 5] [⟨2, .none⟩, ⟨2, .none⟩, ⟨7, .eof⟩] = (.ok (), [1, 2, 3, 4, 5]) := by simp [writeN, loop]
example : writeN [1, 2, 3, 4, 5] [⟨2, .none⟩, ⟨0, .none⟩] = (.error .err, [1, 2]) := by simp [writeN, loop]

end QiVerif.C01Write
