/-
  C19 — a session can be shared by concurrent goroutines.
  Theorems about `Session.client` interpreted for any number of goroutines and
  every schedule (every list of (goroutine, dial outcome) choices).
-/
import QiVerif.Model.Session
import QiVerif.Model.Flood
set_option linter.unusedSimpArgs false
set_option linter.unusedVariables false
namespace QiVerif.C19
open QiVerif.Session

/-- a schedule: which goroutine moves next, and whether its dial (if it is at one) succeeds -/
abbrev Schedule := List (Tid × Bool)

/-- run a schedule; a choice that is not enabled is skipped (the goroutine stays blocked) -/
def run (p : List Instr) (n : Nat) : Sys → Schedule → Sys
  | s, [] => s
  | s, (t, b) :: r =>
    match step p n s t b with
    | some s' => run p n s' r
    | none => run p n s r

def inR (pc : Nat) : Bool := pc == 1 || pc == 2 || pc == 3 || pc == 5
def inW (pc : Nat) : Bool := pc == 8 || pc == 9 || pc == 10 || pc == 13 || pc == 14
def hasHit (pc : Nat) : Bool := pc == 3 || pc == 4 || pc == 10 || pc == 11 || pc == 12
def stored (pc : Nat) : Bool := pc == 14 || pc == 15 || pc == 16
def retPc (pc : Nat) : Bool := pc == 4 || pc == 6 || pc == 12 || pc == 16

def sawPoll (pc : Nat) : Bool := pc == 2 || pc == 9

/-- what holds of one goroutine, given the map entry, whether it holds the read lock and
    whether it is the writer -/
structure Loc (poll : Option Cid) (ts : TS) (r w : Bool) : Prop where
  pcle : ts.pc ≤ 16
  rd : r = inR ts.pc
  wr : w = inW ts.pc
  ret : ts.ret ≠ .running → retPc ts.pc = true
  saw : sawPoll ts.pc = true → ts.hit = poll
  hit : hasHit ts.pc = true → ts.hit = poll ∧ ts.hit.isSome = true
  hitp : hasHit ts.pc = true → poll.isSome = true
  miss : ts.pc = 13 → poll = none
  own : 7 ≤ ts.pc → ts.own.isSome = true
  sto : stored ts.pc = true → ts.own = poll
  res : ∀ c, ts.ret = .ok c → poll = some c

structure Inv (n : Nat) (s : Sys) : Prop where
  nopanic : s.panicked = false
  loc : ∀ t, Loc s.poll (s.th t) (s.rd t) (s.wr == some t)
  idle : ∀ t, n ≤ t → (s.th t).pc = 0
  excl : ∀ t u, s.wr = some t → s.rd u = false

theorem inv_init (n : Nat) : Inv n init := by
  refine ⟨rfl, ?_, fun _ _ => rfl, by simp [init]⟩
  intro t
  refine ⟨?_, ?_, ?_, ?_, ?_, ?_, ?_, ?_, ?_, ?_, ?_⟩ <;> simp [init, inR, inW, hasHit, stored, sawPoll]

theorem prog_at (pc : Nat) (h : pc ≤ 16) :
    (pc = 0 ∧ prog[pc]? = some .rlock) ∨ (pc = 1 ∧ prog[pc]? = some .lookup) ∨
    (pc = 2 ∧ prog[pc]? = some (.ifHit 2)) ∨ (pc = 3 ∧ prog[pc]? = some .runlock) ∨
    (pc = 4 ∧ prog[pc]? = some .retHit) ∨ (pc = 5 ∧ prog[pc]? = some .runlock) ∨
    (pc = 6 ∧ prog[pc]? = some .dial) ∨ (pc = 7 ∧ prog[pc]? = some .lock) ∨
    (pc = 8 ∧ prog[pc]? = some .lookup) ∨ (pc = 9 ∧ prog[pc]? = some (.ifHit 3)) ∨
    (pc = 10 ∧ prog[pc]? = some .unlock) ∨ (pc = 11 ∧ prog[pc]? = some .closeOwn) ∨
    (pc = 12 ∧ prog[pc]? = some .retHit) ∨ (pc = 13 ∧ prog[pc]? = some .insert) ∨
    (pc = 14 ∧ prog[pc]? = some .unlock) ∨ (pc = 15 ∧ prog[pc]? = some .addHandler) ∨
    (pc = 16 ∧ prog[pc]? = some .retOwn) := by
  have : pc = 0 ∨ pc = 1 ∨ pc = 2 ∨ pc = 3 ∨ pc = 4 ∨ pc = 5 ∨ pc = 6 ∨ pc = 7 ∨ pc = 8 ∨ pc = 9 ∨
      pc = 10 ∨ pc = 11 ∨ pc = 12 ∨ pc = 13 ∨ pc = 14 ∨ pc = 15 ∨ pc = 16 := by omega
  rcases this with h | h | h | h | h | h | h | h | h | h | h | h | h | h | h | h | h <;> subst h <;> simp [prog]

/-- a goroutine that holds no lock is not disturbed when the (empty) map entry is filled -/
theorem loc_insert {ts : TS} (c : Option Cid) (h : Loc none ts false false) : Loc c ts false false := by
  obtain ⟨h1, h2, h3, h4, hs, h5, h5p, h6, h7, h8, h9⟩ := h
  refine ⟨h1, h2, h3, h4, ?_, ?_, ?_, ?_, h7, ?_, ?_⟩
  · intro hh; simp [sawPoll] at hh
    rcases hh with hh | hh
    · rw [hh] at h2; simp [inR] at h2
    · rw [hh] at h3; simp [inW] at h3
  · intro hh; have := h5 hh; rw [this.1] at this; simp at this
  · intro hh; have := h5p hh; simp at this
  · intro hpc; rw [hpc] at h3; simp [inW] at h3
  · intro hs'
    have ho := h7 (by simp [stored] at hs'; omega)
    have := h8 hs'; rw [this] at ho; simp at ho
  · intro c' hc'; have := h9 c' hc'; simp at this

/-- the moving goroutine: every field by simplification with what was known -/
macro "mover" : tactic =>
  `(tactic| (refine ⟨?_, ?_, ?_, ?_, ?_, ?_, ?_, ?_, ?_, ?_, ?_⟩ <;>
      simp_all [upd, inR, inW, hasHit, stored, retPc, sawPoll] <;>
      skip))

set_option maxHeartbeats 4000000 in
/-- **Preservation.** Every step of every goroutine keeps the invariant. -/
theorem inv_step (n : Nat) (s s' : Sys) (t : Tid) (b : Bool) (hi : Inv n s)
    (hs : step prog n s t b = some s') : Inv n s' := by
  obtain ⟨hnp, hloc, hidle, hexcl⟩ := hi
  have ht := hloc t
  obtain ⟨t1, t2, t3, t4, t5, t6, t6p, t7, t8, t9, t10⟩ := ht
  unfold step at hs
  simp only [hnp, Bool.false_eq_true, if_false] at hs
  split at hs
  · cases hs
  rename_i htn
  split at hs
  · cases hs
  rename_i hrun
  have hrun' : (s.th t).ret = .running := by simpa using hrun
  have tidle : ∀ u, n ≤ u → u ≠ t := by intro u hu h; omega
  rcases prog_at (s.th t).pc t1 with ⟨hpc, hp⟩ | ⟨hpc, hp⟩ | ⟨hpc, hp⟩ | ⟨hpc, hp⟩ | ⟨hpc, hp⟩ |
    ⟨hpc, hp⟩ | ⟨hpc, hp⟩ | ⟨hpc, hp⟩ | ⟨hpc, hp⟩ | ⟨hpc, hp⟩ | ⟨hpc, hp⟩ | ⟨hpc, hp⟩ | ⟨hpc, hp⟩ |
    ⟨hpc, hp⟩ | ⟨hpc, hp⟩ | ⟨hpc, hp⟩ | ⟨hpc, hp⟩ <;> rw [hp] at hs <;> simp only at hs
  -- pc 0: rlock
  · split at hs
    · cases hs
    rename_i hw
    split at hs
    · cases hs
    cases hs
    have hwn : s.wr = none := by simpa using hw
    refine ⟨by simp [hnp], ?_, ?_, ?_⟩
    · intro u
      by_cases hu : u = t
      · subst hu; mover
      · simpa [upd, hu] using hloc u
    · intro u hu; simp [upd, tidle u hu]; exact hidle u hu
    · intro a u hw'; simp [hwn] at hw'
  -- pc 1: lookup
  · cases hs
    refine ⟨by simp [hnp], ?_, ?_, ?_⟩
    · intro u
      by_cases hu : u = t
      · subst hu; mover
      · simpa [upd, hu] using hloc u
    · intro u hu; simp [upd, tidle u hu]; exact hidle u hu
    · intro a u hw'; exact hexcl a u hw'
  -- pc 2: ifHit 2
  · split at hs <;> cases hs <;> refine ⟨by simp [hnp], ?_, ?_, ?_⟩
    · intro u
      by_cases hu : u = t
      · subst hu; mover
      · simpa [upd, hu] using hloc u
    · intro u hu; simp [upd, tidle u hu]; exact hidle u hu
    · intro a u hw'; exact hexcl a u hw'
    · intro u
      by_cases hu : u = t
      · subst hu; mover
      · simpa [upd, hu] using hloc u
    · intro u hu; simp [upd, tidle u hu]; exact hidle u hu
    · intro a u hw'; exact hexcl a u hw'
  -- pc 3: runlock
  · split at hs
    · cases hs
      refine ⟨by simp [hnp], ?_, ?_, ?_⟩
      · intro u
        by_cases hu : u = t
        · subst hu; mover
        · simpa [upd, hu] using hloc u
      · intro u hu; simp [upd, tidle u hu]; exact hidle u hu
      · intro a u hw'; have := hexcl a u hw'; simp [upd]; intro _; exact this
    · rename_i hr; exfalso; rw [t2, hpc] at hr; simp [inR] at hr
  -- pc 4: retHit
  · have hh := t6 (by simp [hpc, hasHit])
    split at hs
    · rename_i c hc
      cases hs
      refine ⟨by simp [hnp], ?_, ?_, ?_⟩
      · intro u
        by_cases hu : u = t
        · subst hu; mover
        · simpa [upd, hu] using hloc u
      · intro u hu; simp [upd, tidle u hu]; exact hidle u hu
      · intro a u hw'; exact hexcl a u hw'
    · rename_i hc; rw [hc] at hh; simp at hh
  -- pc 5: runlock
  · split at hs
    · cases hs
      refine ⟨by simp [hnp], ?_, ?_, ?_⟩
      · intro u
        by_cases hu : u = t
        · subst hu; mover
        · simpa [upd, hu] using hloc u
      · intro u hu; simp [upd, tidle u hu]; exact hidle u hu
      · intro a u hw'; have := hexcl a u hw'; simp [upd]; intro _; exact this
    · rename_i hr; exfalso; rw [t2, hpc] at hr; simp [inR] at hr
  -- pc 6: dial
  · split at hs <;> cases hs <;> refine ⟨by simp [hnp], ?_, ?_, ?_⟩
    · intro u
      by_cases hu : u = t
      · subst hu; mover
      · simpa [upd, hu] using hloc u
    · intro u hu; simp [upd, tidle u hu]; exact hidle u hu
    · intro a u hw'; exact hexcl a u hw'
    · intro u
      by_cases hu : u = t
      · subst hu; mover
      · simpa [upd, hu] using hloc u
    · intro u hu; simp [upd, tidle u hu]; exact hidle u hu
    · intro a u hw'; exact hexcl a u hw'
  -- pc 7: lock
  · split at hs
    · cases hs
    rename_i hw
    split at hs
    rotate_left
    · -- not announced yet: announce (or queue behind another writer)
      split at hs
      · cases hs
      cases hs
      exact ⟨rfl, hloc, hidle, hexcl⟩
    split at hs
    · cases hs
    rename_i hany
    cases hs
    have hwn : s.wr = none := by simpa using hw
    have hnord : ∀ u, s.rd u = false := by
      intro u
      by_cases hun : u < n
      · simp at hany; exact hany u hun
      · have hnu : n ≤ u := Nat.le_of_not_lt hun
        have h1 := (hloc u).rd; rw [hidle u hnu] at h1; simpa [inR] using h1
    refine ⟨by simp [hnp], ?_, ?_, ?_⟩
    · intro u
      by_cases hu : u = t
      · subst hu; mover
      · have := hloc u
        have e : (some t == some u) = false := by simp; intro h; exact hu h.symm
        simp only [upd, hu, if_false, e]
        simpa [hwn] using this
    · intro u hu; simp [upd, tidle u hu]; exact hidle u hu
    · intro a u _; exact hnord u
  -- pc 8: lookup
  · cases hs
    refine ⟨by simp [hnp], ?_, ?_, ?_⟩
    · intro u
      by_cases hu : u = t
      · subst hu; mover
      · simpa [upd, hu] using hloc u
    · intro u hu; simp [upd, tidle u hu]; exact hidle u hu
    · intro a u hw'; exact hexcl a u hw'
  -- pc 9: ifHit 3
  · split at hs <;> cases hs <;> refine ⟨by simp [hnp], ?_, ?_, ?_⟩
    · intro u
      by_cases hu : u = t
      · subst hu; mover
      · simpa [upd, hu] using hloc u
    · intro u hu; simp [upd, tidle u hu]; exact hidle u hu
    · intro a u hw'; exact hexcl a u hw'
    · intro u
      by_cases hu : u = t
      · subst hu; mover
      · simpa [upd, hu] using hloc u
    · intro u hu; simp [upd, tidle u hu]; exact hidle u hu
    · intro a u hw'; exact hexcl a u hw'
  -- pc 10: unlock
  · have hwt : s.wr = some t := by rw [hpc] at t3; simpa [inW] using t3
    split at hs
    · cases hs
      refine ⟨by simp [hnp], ?_, ?_, ?_⟩
      · intro u
        by_cases hu : u = t
        · subst hu; mover
        · have := hloc u
          have e : (some t == some u) = false := by simp; intro h; exact hu h.symm
          simp only [upd, hu, if_false]
          simpa [hwt, e] using this
      · intro u hu; simp [upd, tidle u hu]; exact hidle u hu
      · intro a u hw'; simp at hw'
    · rename_i hne; exact absurd hwt hne
  -- pc 11: closeOwn
  · split at hs <;> cases hs <;> refine ⟨by simp [hnp], ?_, ?_, ?_⟩
    · intro u
      by_cases hu : u = t
      · subst hu; mover
      · simpa [upd, hu] using hloc u
    · intro u hu; simp [upd, tidle u hu]; exact hidle u hu
    · intro a u hw'; exact hexcl a u hw'
    · intro u
      by_cases hu : u = t
      · subst hu; mover
      · simpa [upd, hu] using hloc u
    · intro u hu; simp [upd, tidle u hu]; exact hidle u hu
    · intro a u hw'; exact hexcl a u hw'
  -- pc 12: retHit
  · have hh := t6 (by simp [hpc, hasHit])
    split at hs
    · rename_i c hc
      cases hs
      refine ⟨by simp [hnp], ?_, ?_, ?_⟩
      · intro u
        by_cases hu : u = t
        · subst hu; mover
        · simpa [upd, hu] using hloc u
      · intro u hu; simp [upd, tidle u hu]; exact hidle u hu
      · intro a u hw'; exact hexcl a u hw'
    · rename_i hc; rw [hc] at hh; simp at hh
  -- pc 13: insert
  · have hwt : s.wr = some t := by rw [hpc] at t3; simpa [inW] using t3
    have hpn : s.poll = none := t7 hpc
    cases hs
    refine ⟨by simp [hnp], ?_, ?_, ?_⟩
    · intro u
      by_cases hu : u = t
      · subst hu; mover
      · have := hloc u
        have e : (some t == some u) = false := by simp; intro h; exact hu h.symm
        rw [hexcl t u hwt, hwt, e, hpn] at this
        simp only [upd, hu, if_false]
        rw [hexcl t u hwt, hwt, e]
        exact loc_insert _ this
    · intro u hu; simp [upd, tidle u hu]; exact hidle u hu
    · intro a u hw'; exact hexcl a u hw'
  -- pc 14: unlock
  · have hwt : s.wr = some t := by rw [hpc] at t3; simpa [inW] using t3
    split at hs
    · cases hs
      refine ⟨by simp [hnp], ?_, ?_, ?_⟩
      · intro u
        by_cases hu : u = t
        · subst hu; mover
        · have := hloc u
          have e : (some t == some u) = false := by simp; intro h; exact hu h.symm
          simp only [upd, hu, if_false]
          simpa [hwt, e] using this
      · intro u hu; simp [upd, tidle u hu]; exact hidle u hu
      · intro a u hw'; simp at hw'
    · rename_i hne; exact absurd hwt hne
  -- pc 15: addHandler
  · cases hs
    refine ⟨by simp [hnp], ?_, ?_, ?_⟩
    · intro u
      by_cases hu : u = t
      · subst hu; mover
      · simpa [upd, hu] using hloc u
    · intro u hu; simp [upd, tidle u hu]; exact hidle u hu
    · intro a u hw'; exact hexcl a u hw'
  -- pc 16: retOwn
  · have ho := t8 (by omega)
    have hs9 := t9 (by simp [hpc, stored])
    split at hs
    · rename_i c hc
      cases hs
      refine ⟨by simp [hnp], ?_, ?_, ?_⟩
      · intro u
        by_cases hu : u = t
        · subst hu; mover
        · simpa [upd, hu] using hloc u
      · intro u hu; simp [upd, tidle u hu]; exact hidle u hu
      · intro a u hw'; exact hexcl a u hw'
    · rename_i hc; rw [hc] at ho; simp at ho

theorem inv_run (n : Nat) (s : Sys) (sched : Schedule) (hi : Inv n s) : Inv n (run prog n s sched) := by
  induction sched generalizing s with
  | nil => exact hi
  | cons a r ih =>
    obtain ⟨t, b⟩ := a
    simp only [run]
    cases hs : step prog n s t b with
    | none => exact ih s hi
    | some s' => exact ih s' (inv_step n s s' t b hi hs)

/-! ### the writer that waits -/

/-- a goroutine that has announced its `Lock` stands at that instruction; nobody is inside the write section then; at
    most one has announced (writers queue on the mutex's inner lock) -/
structure PInv (n : Nat) (s : Sys) : Prop where
  loc : ∀ t, s.pend t = true → (s.th t).pc = 7 ∧ (s.th t).ret = .running ∧ t < n
  now : ∀ t, s.pend t = true → s.wr = none
  one : ∀ t u, s.pend t = true → s.pend u = true → t = u

theorem pinv_init (n : Nat) : PInv n init := by
  refine ⟨?_, ?_, ?_⟩ <;> simp [init]

/-- a step that is not at the `Lock` leaves the waiting writers alone -/
theorem pinv_quiet (n : Nat) (s s' : Sys) (t : Tid) (hp : PInv n s) (hpc : (s.th t).pc ≠ 7)
    (hpend : s'.pend = s.pend) (hth : ∀ u, u ≠ t → s'.th u = s.th u) (hwr : s'.wr = s.wr ∨ s'.wr = none) : PInv n s' := by
  refine ⟨?_, ?_, ?_⟩
  · intro u hu
    rw [hpend] at hu
    have h7 := hp.loc u hu
    by_cases hut : u = t
    · subst hut; exact absurd h7.1 hpc
    · rw [hth u hut]; exact h7
  · intro u hu
    rw [hpend] at hu
    rcases hwr with h | h
    · rw [h]; exact hp.now u hu
    · exact h
  · intro u v hu hv
    rw [hpend] at hu hv
    exact hp.one u v hu hv

theorem pinv_step (n : Nat) (s s' : Sys) (t : Tid) (b : Bool) (hi : Inv n s) (hp : PInv n s)
    (hs : step prog n s t b = some s') : PInv n s' := by
  obtain ⟨hnp, hloc, hidle, hexcl⟩ := hi
  have t1 := (hloc t).pcle
  unfold step at hs
  simp only [hnp, Bool.false_eq_true, if_false] at hs
  split at hs
  · cases hs
  rename_i htn
  split at hs
  · cases hs
  rename_i hrun
  have hrun' : (s.th t).ret = .running := by simpa using hrun
  have others : ∀ (x : TS) (u : Tid), u ≠ t → upd s.th t x u = s.th u := by intro x u hu; simp [upd, hu]
  rcases prog_at (s.th t).pc t1 with ⟨hpc, hq⟩ | ⟨hpc, hq⟩ | ⟨hpc, hq⟩ | ⟨hpc, hq⟩ | ⟨hpc, hq⟩ |
    ⟨hpc, hq⟩ | ⟨hpc, hq⟩ | ⟨hpc, hq⟩ | ⟨hpc, hq⟩ | ⟨hpc, hq⟩ | ⟨hpc, hq⟩ | ⟨hpc, hq⟩ | ⟨hpc, hq⟩ |
    ⟨hpc, hq⟩ | ⟨hpc, hq⟩ | ⟨hpc, hq⟩ | ⟨hpc, hq⟩ <;> rw [hq] at hs <;> simp only at hs
  case inr.inr.inr.inr.inr.inr.inr.inl =>
    -- pc 7: lock
    split at hs
    · cases hs
    rename_i hw
    have hwn : s.wr = none := by simpa using hw
    split at hs
    · -- announced before: the readers are gone, it enters
      rename_i hpt
      split at hs
      · cases hs
      cases hs
      refine ⟨?_, ?_, ?_⟩
      · intro u hu
        by_cases hut : u = t
        · subst hut; simp [upd] at hu
        · have hu' : s.pend u = true := by simpa [upd, hut] using hu
          exact absurd (hp.one u t hu' hpt) hut
      · intro u hu
        by_cases hut : u = t
        · subst hut; simp [upd] at hu
        · have hu' : s.pend u = true := by simpa [upd, hut] using hu
          exact absurd (hp.one u t hu' hpt) hut
      · intro u v hu hv
        by_cases hut : u = t
        · subst hut; simp [upd] at hu
        · have hu' : s.pend u = true := by simpa [upd, hut] using hu
          exact absurd (hp.one u t hu' hpt) hut
    · -- announces
      rename_i hpt
      split at hs
      · cases hs
      rename_i hany
      cases hs
      have nobody : ∀ u, s.pend u = false := by
        intro u
        cases hu : s.pend u with
        | false => rfl
        | true =>
          have := (hp.loc u hu).2.2
          simp at hany
          have := hany u this
          rw [hu] at this; cases this
      refine ⟨?_, ?_, ?_⟩
      · intro u hu
        by_cases hut : u = t
        · subst hut; exact ⟨hpc, hrun', Nat.lt_of_not_le htn⟩
        · have hu' : s.pend u = true := by simpa [upd, hut] using hu
          rw [nobody u] at hu'; cases hu'
      · intro u _; exact hwn
      · intro u v hu hv
        by_cases hut : u = t
        · by_cases hvt : v = t
          · rw [hut, hvt]
          · have hv' : s.pend v = true := by simpa [upd, hvt] using hv
            rw [nobody v] at hv'; cases hv'
        · have hu' : s.pend u = true := by simpa [upd, hut] using hu
          rw [nobody u] at hu'; cases hu'
  all_goals first
    | (cases hs; exact pinv_quiet n s _ t hp (by omega) rfl (others _) (Or.inl rfl))
    | (cases hs; exact pinv_quiet n s _ t hp (by omega) rfl (others _) (Or.inr rfl))
    | (cases hs; exact pinv_quiet n s _ t hp (by omega) rfl (fun _ _ => rfl) (Or.inl rfl))
    | (split at hs <;> first
        | (cases hs; done)
        | (cases hs; exact pinv_quiet n s _ t hp (by omega) rfl (others _) (Or.inl rfl))
        | (cases hs; exact pinv_quiet n s _ t hp (by omega) rfl (others _) (Or.inr rfl))
        | (cases hs; exact pinv_quiet n s _ t hp (by omega) rfl (fun _ _ => rfl) (Or.inl rfl))
        | (split at hs <;> first
            | (cases hs; done)
            | (cases hs; exact pinv_quiet n s _ t hp (by omega) rfl (others _) (Or.inl rfl))
            | (cases hs; exact pinv_quiet n s _ t hp (by omega) rfl (fun _ _ => rfl) (Or.inl rfl))))

theorem pinv_run (n : Nat) (s : Sys) (sched : Schedule) (hi : Inv n s) (hp : PInv n s) :
    PInv n (run prog n s sched) := by
  induction sched generalizing s with
  | nil => exact hp
  | cons a r ih =>
    obtain ⟨t, b⟩ := a
    simp only [run]
    cases hs : step prog n s t b with
    | none => exact ih s hi hp
    | some s' => exact ih s' (inv_step n s s' t b hi hs) (pinv_step n s s' t b hi hp hs)

/-- **No crash.** For every number of goroutines and every schedule, the process never hits
    "fatal error: sync: (R)Unlock of unlocked RWMutex" and never returns a nil client. -/
theorem no_panic (n : Nat) (sched : Schedule) : (run prog n init sched).panicked = false :=
  (inv_run n init sched (inv_init n)).nopanic

/-- **One shared connection.** Whatever the schedule, every goroutine that has returned
    successfully holds the client stored in the session for that address: all proxies share
    it and the session holds exactly that one. -/
theorem shared_client (n : Nat) (sched : Schedule) (t u : Tid) (c d : Cid)
    (ht : ((run prog n init sched).th t).ret = .ok c) (hu : ((run prog n init sched).th u).ret = .ok d) :
    c = d ∧ (run prog n init sched).poll = some c := by
  have hi := inv_run n init sched (inv_init n)
  have h1 := (hi.loc t).res c ht
  have h2 := (hi.loc u).res d hu
  rw [h1] at h2
  exact ⟨Option.some.inj h2, h1⟩

/-- mutual exclusion of the RWMutex as used: a writer excludes every reader -/
theorem writer_excludes_readers (n : Nat) (sched : Schedule) (t u : Tid)
    (h : (run prog n init sched).wr = some t) : (run prog n init sched).rd u = false :=
  (inv_run n init sched (inv_init n)).excl t u h

/-- **No deadlock.** In every reachable state in which some goroutine has not returned,
    some goroutine can take a step: the lock holder if there is one, else a reader that is inside, else the writer
    that waits (no reader is inside any more), else anybody.  The mutex is Go's: a writer that waits keeps new
    readers out. -/
theorem not_stuck (n : Nat) (sched : Schedule) (t : Tid) (htn : t < n)
    (hrun : ((run prog n init sched).th t).ret = .running)
    (hpc : ((run prog n init sched).th t).pc ≤ 16) :
    ∃ u b, (step prog n (run prog n init sched) u b).isSome = true := by
  have hi := inv_run n init sched (inv_init n)
  have hpi := pinv_run n init sched (inv_init n) (pinv_init n)
  generalize run prog n init sched = s at *
  obtain ⟨hnp, hloc, hidle, hexcl⟩ := hi
  have anyFalse : ∀ (f : Tid → Bool), (∀ v, f v = false) → (List.range n).any f = false := by
    intro f hf; simp [hf]
  have enabled : ∀ u, u < n → (s.th u).ret = .running →
      (s.wr = none ∧ (∀ v, s.rd v = false) ∧ (∀ v, s.pend v = false)) ∨ s.wr = some u ∨ (s.wr = none ∧ s.rd u = true) ∨
        (s.wr = none ∧ s.pend u = true ∧ ∀ v, s.rd v = false) →
      (step prog n s u true).isSome = true := by
    intro u hun hur hcase
    have hl := hloc u
    unfold step
    simp only [hnp, Bool.false_eq_true, if_false, show ¬ n ≤ u by omega, hur, ne_eq, not_true_eq_false]
    rcases prog_at (s.th u).pc hl.pcle with ⟨hp, hq⟩ | ⟨hp, hq⟩ | ⟨hp, hq⟩ | ⟨hp, hq⟩ | ⟨hp, hq⟩ |
      ⟨hp, hq⟩ | ⟨hp, hq⟩ | ⟨hp, hq⟩ | ⟨hp, hq⟩ | ⟨hp, hq⟩ | ⟨hp, hq⟩ | ⟨hp, hq⟩ | ⟨hp, hq⟩ |
      ⟨hp, hq⟩ | ⟨hp, hq⟩ | ⟨hp, hq⟩ | ⟨hp, hq⟩ <;> rw [hq] <;> simp only
    · -- rlock: needs no writer, inside or waiting
      have hw := hl.wr; rw [hp] at hw; simp [inW] at hw
      have hr := hl.rd; rw [hp] at hr; simp [inR] at hr
      rcases hcase with ⟨h, _, hpn⟩ | h | ⟨_, h⟩ | ⟨_, h, _⟩
      · simp [h, anyFalse s.pend hpn]
      · exact absurd h hw
      · rw [hr] at h; cases h
      · have := (hpi.loc u h).1; omega
    · simp
    · split <;> simp
    · split <;> simp
    · split <;> simp
    · split <;> simp
    · simp
    · -- lock: announces when nobody waits, enters when the readers are gone
      have hw := hl.wr; rw [hp] at hw; simp [inW] at hw
      have hr := hl.rd; rw [hp] at hr; simp [inR] at hr
      rcases hcase with ⟨h, hr', hpn⟩ | h | ⟨_, h⟩ | ⟨h, hpu, hr'⟩
      · simp [h, hpn u, anyFalse s.pend hpn]
      · exact absurd h hw
      · rw [hr] at h; cases h
      · simp [h, hpu, anyFalse s.rd hr']
    · simp
    · split <;> simp
    · split <;> simp
    · split <;> simp
    · split <;> simp
    · simp
    · split <;> simp
    · simp
    · split <;> simp
  cases hw : s.wr with
  | some w =>
    have hl := hloc w
    have hwin : inW (s.th w).pc = true := by have := hl.wr; rw [hw] at this; simpa using this.symm
    have hwn : w < n := by
      by_cases h : w < n
      · exact h
      · have := hidle w (Nat.le_of_not_lt h); rw [this] at hwin; simp [inW] at hwin
    have hwr : (s.th w).ret = .running := by
      cases hr : (s.th w).ret with
      | running => rfl
      | ok c => have := hl.ret (by simp [hr]); simp [retPc, inW] at this hwin; omega
      | err => have := hl.ret (by simp [hr]); simp [retPc, inW] at this hwin; omega
    exact ⟨w, true, enabled w hwn hwr (Or.inr (Or.inl hw))⟩
  | none =>
    by_cases hr : ∃ r, s.rd r = true
    · obtain ⟨r, hr⟩ := hr
      have hl := hloc r
      have hrin : inR (s.th r).pc = true := by have := hl.rd; rw [hr] at this; exact this.symm
      have hrn : r < n := by
        by_cases h : r < n
        · exact h
        · have := hidle r (Nat.le_of_not_lt h); rw [this] at hrin; simp [inR] at hrin
      have hrr : (s.th r).ret = .running := by
        cases hq : (s.th r).ret with
        | running => rfl
        | ok c => have := hl.ret (by simp [hq]); simp [retPc, inR] at this hrin; omega
        | err => have := hl.ret (by simp [hq]); simp [retPc, inR] at this hrin; omega
      exact ⟨r, true, enabled r hrn hrr (Or.inr (Or.inr (Or.inl ⟨hw, hr⟩)))⟩
    · have hnr : ∀ v, s.rd v = false := by
        intro v; cases h : s.rd v with
        | false => rfl
        | true => exact absurd ⟨v, h⟩ hr
      by_cases hpd : ∃ p, s.pend p = true
      · obtain ⟨p, hpp⟩ := hpd
        obtain ⟨_, hprun, hpn⟩ := hpi.loc p hpp
        exact ⟨p, true, enabled p hpn hprun (Or.inr (Or.inr (Or.inr ⟨hw, hpp, hnr⟩)))⟩
      · have hnp' : ∀ v, s.pend v = false := by
          intro v; cases h : s.pend v with
          | false => rfl
          | true => exact absurd ⟨v, h⟩ hpd
        exact ⟨t, true, enabled t htn hrun (Or.inl ⟨hw, hnr, hnp'⟩)⟩

/-- the regenerated tokens compile to the program the theorems are about -/
theorem expected_compiles : compile expectedTokens = prog := by decide

/-! ### the defect on the pinned tree (F-C19-1), kept as a refutation of the *pinned* program -/

def pinnedProg : List Instr := compile pinnedTokens

/-- goroutines 0 and 1 both miss under the read lock and dial; 0 inserts; 1 then finds the
    entry under the write lock and executes `RUnlock`: fatal error. -/
def crashSchedule : Schedule :=
  [(0, true), (0, true), (0, true), (0, true), (0, true),
   (1, true), (1, true), (1, true), (1, true), (1, true),
   (0, true), (0, true), (0, true), (0, true), (0, true), (0, true), (0, true), (0, true),
   (1, true), (1, true), (1, true), (1, true), (1, true)]

theorem pinned_program_crashes : (run pinnedProg 2 init crashSchedule).panicked = true := by decide

/-- the same schedule is harmless for the repaired program: both goroutines return client 0 -/
example : (run prog 2 init crashSchedule).panicked = false ∧
    ((run prog 2 init (crashSchedule ++ [(1, true), (1, true)])).th 1).ret = .ok 0 ∧
    ((run prog 2 init crashSchedule).th 0).ret = .ok 0 := by decide

/-! ### what the waiting writer forbids: taking the read lock again inside the read lock

  With Go's `RWMutex` a goroutine that holds the read lock and asks for it again waits behind a writer that has
  announced itself in between, and that writer waits for the reader: nobody moves.  (The mutex without that rule
  would let the second `RLock` in.)  `Session.client` never does it — `not_stuck` is about the program as it is —
  and a program that does is refuted here. -/

/-- the fast path with a helper that takes the read lock itself.  (The model keeps one bit per goroutine for the read
    lock, not a count: the helper's own `RUnlock`, after which the goroutine still holds the lock once, is the
    instruction without effect, `addHandler`.) -/
def nestedProg : List Instr :=
  [.rlock, .rlock, .lookup, .addHandler, .ifHit 2, .runlock, .retHit, .runlock, .dial, .lock, .lookup, .ifHit 3,
   .unlock, .closeOwn, .retHit, .insert, .unlock, .addHandler, .retOwn]

/-- goroutine 1 misses and dials and announces its `Lock`; goroutine 0 has taken the read lock once -/
def nestedSchedule : Schedule :=
  [(1, true), (1, true), (1, true), (1, true), (1, true), (1, true), (1, true),
   (0, true), (1, true)]

theorem nested_read_lock_deadlocks :
    let s := run nestedProg 2 init nestedSchedule
    (s.th 0).ret = .running ∧ (s.th 1).ret = .running ∧ s.panicked = false ∧
      ∀ b, (step nestedProg 2 s 0 b).isNone = true ∧ (step nestedProg 2 s 1 b).isNone = true := by
  refine ⟨by decide, by decide, by decide, ?_⟩
  intro b; cases b <;> decide

/-! ### "any number of goroutines": the server's queues are bounded and the reader drops

  The statement of C19 is *false* on this tree for large numbers of simultaneous requests:
  the connection's reader never blocks, so once the per-connection queue, the hand of the
  connection goroutine and the object's mailbox are full, further requests are answered with
  "consumer blocked".  Recorded as a known finding; what is proved is the boundary. -/

/-- while the object is busy at most `buffered` requests of one connection are held; the rest is dropped -/
theorem flood_drops (n : Nat) (h : Flood.buffered < n) : Flood.held n < n ∧ Flood.floodOutcome n = .someDropped := by
  unfold Flood.held Flood.floodOutcome
  have : ¬ n ≤ Flood.consumerCap := by unfold Flood.buffered at h; omega
  simp [this, h]; omega

/-- up to the capacity of the per-connection queue nothing can be dropped -/
theorem small_flood_served (n : Nat) (h : n ≤ Flood.consumerCap) : Flood.floodOutcome n = .allServed := by
  simp [Flood.floodOutcome, h]

/-- the refutation witness replayed by the harness: 40 simultaneous requests -/
theorem any_number_is_refuted : Flood.floodOutcome 40 = .someDropped := by decide

end QiVerif.C19
