/-
  C04 — every call gets exactly one answer, its own, and runs its method exactly once.
  Theorems about Model/Calls.lean for every sequence of actions: any number of clients and
  connections, any interleaving of requests, executions and responses, any frames of other
  kinds, any method semantics.
-/
import QiVerif.Model.Calls
set_option linter.unusedSimpArgs false
set_option linter.unusedVariables false
namespace QiVerif.C04
open QiVerif QiVerif.Calls

def knownOf (env : Env) (c : CallRec) : Bool := env.known c.key.svc c.key.obj c.key.act
def resultOf (env : Env) (c : CallRec) : Nat := env.f c.key.svc c.key.obj c.key.act c.arg

/-- the response `r` is justified: the method ran exactly once on this request's own argument and
    `r` is its result, or the target does not exist, nothing ran and `r` is the error -/
def Just (env : Env) (c : CallRec) (r : Res) : Prop :=
  (knownOf env c = true ∧ r = .reply (resultOf env c) ∧ c.execs = 1) ∨
  (knownOf env c = false ∧ r = .error ∧ c.execs = 0)

def Good (env : Env) (c : CallRec) : Prop :=
  match c.stage with
  | .sent => c.execs = 0 ∧ c.responses = 0 ∧ c.outcome = none
  | .answered r => c.isPost = false ∧ c.responses = 1 ∧ c.outcome = none ∧ Just env c r
  | .done =>
    if c.isPost then c.outcome = none ∧ c.execs ≤ 1 ∧ c.responses = 0 ∧ (knownOf env c = true → c.execs = 1)
    else ∃ r, c.outcome = some r ∧ c.responses = 1 ∧ Just env c r

structure Inv (env : Env) (s : Sys) : Prop where
  pol : s.policy = .shared ∧ s.strayOn = false ∧ s.stray = 0
  below : ∀ (j : Nat) (c : CallRec), s.calls[j]? = some c → c.isPost = false → c.key.id ≤ s.shared
  distinct : ∀ (i j : Nat) (ci cj : CallRec), s.calls[i]? = some ci → s.calls[j]? = some cj →
    ci.isPost = false → cj.isPost = false → ci.key.id = cj.key.id → i = j
  good : ∀ (j : Nat) (c : CallRec), s.calls[j]? = some c → Good env c

theorem inv_init (env : Env) : Inv env {} := ⟨⟨rfl, rfl, rfl⟩, by simp, by simp, by simp⟩

theorem get_append_one {α : Type} (l : List α) (x : α) (j : Nat) (c : α) (h : (l ++ [x])[j]? = some c) :
    (j < l.length ∧ l[j]? = some c) ∨ (j = l.length ∧ c = x) := by
  rcases Nat.lt_or_ge j l.length with hlt | hge
  · rw [List.getElem?_append_left hlt] at h; exact Or.inl ⟨hlt, h⟩
  · rw [List.getElem?_append_right hge] at h
    cases hz : j - l.length with
    | zero => rw [hz] at h; simp at h; exact Or.inr ⟨by omega, h.symm⟩
    | succ n => rw [hz] at h; simp at h

theorem inv_call (env : Env) (s : Sys) (cl conn sv o a x : Nat) (hi : Inv env s) : Inv env (call s cl conn sv o a x) := by
  obtain ⟨⟨hp, hs, hst⟩, hb, hd, hg⟩ := hi
  simp only [call, nextId, hp]
  refine ⟨⟨rfl, hs, hst⟩, ?_, ?_, ?_⟩
  · intro j c hj hnp
    rcases get_append_one _ _ j c hj with ⟨_, h⟩ | ⟨_, rfl⟩
    · have := hb j c h hnp; simp only; omega
    · simp
  · intro i j ci cj hi' hj' hpi hpj hid
    rcases get_append_one _ _ i ci hi' with ⟨hil, h1⟩ | ⟨hie, rfl⟩
    · rcases get_append_one _ _ j cj hj' with ⟨hjl, h2⟩ | ⟨hje, rfl⟩
      · exact hd i j ci cj h1 h2 hpi hpj hid
      · have := hb i ci h1 hpi; simp at hid; omega
    · rcases get_append_one _ _ j cj hj' with ⟨hjl, h2⟩ | ⟨hje, rfl⟩
      · have := hb j cj h2 hpj; simp at hid; omega
      · omega
  · intro j c hj
    rcases get_append_one _ _ j c hj with ⟨_, h⟩ | ⟨_, rfl⟩
    · exact hg j c h
    · simp [Good]

theorem inv_post (env : Env) (s : Sys) (conn sv o a id x : Nat) (hi : Inv env s) : Inv env (post s conn sv o a id x) := by
  obtain ⟨hp, hb, hd, hg⟩ := hi
  simp only [post]
  refine ⟨hp, ?_, ?_, ?_⟩
  · intro j c hj hnp
    rcases get_append_one _ _ j c hj with ⟨_, h⟩ | ⟨_, rfl⟩
    · exact hb j c h hnp
    · simp at hnp
  · intro i j ci cj hi' hj' hpi hpj hid
    rcases get_append_one _ _ i ci hi' with ⟨hil, h1⟩ | ⟨hie, rfl⟩
    · rcases get_append_one _ _ j cj hj' with ⟨hjl, h2⟩ | ⟨hje, rfl⟩
      · exact hd i j ci cj h1 h2 hpi hpj hid
      · simp at hpj
    · simp at hpi
  · intro j c hj
    rcases get_append_one _ _ j c hj with ⟨_, h⟩ | ⟨_, rfl⟩
    · exact hg j c h
    · simp [Good]

theorem set_get {α : Type} (l : List α) (i j : Nat) (x c : α) (h : (l.set i x)[j]? = some c) :
    (j = i ∧ c = x ∧ i < l.length) ∨ (j ≠ i ∧ l[j]? = some c) := by
  by_cases hji : i = j
  · subst hji
    rcases Nat.lt_or_ge i l.length with hlt | hge
    · rw [List.getElem?_set_self hlt] at h; injection h with h; exact Or.inl ⟨rfl, h.symm, hlt⟩
    · rw [List.getElem?_eq_none (by simpa using hge)] at h; cases h
  · rw [List.getElem?_set_ne hji] at h; exact Or.inr ⟨fun e => hji e.symm, h⟩

/-- replacing request `i` by a record with the same identity keeps the id facts -/
theorem inv_set (env : Env) (s : Sys) (i : Nat) (c c' : CallRec) (hi : Inv env s) (hc : s.calls[i]? = some c)
    (hk : c'.key = c.key) (hp : c'.isPost = c.isPost) (hgood : Good env c') :
    Inv env { s with calls := s.calls.set i c' } := by
  obtain ⟨hpol, hb, hd, hg⟩ := hi
  refine ⟨hpol, ?_, ?_, ?_⟩
  · intro j x hj hnp
    rcases set_get _ _ _ _ _ hj with ⟨rfl, rfl, _⟩ | ⟨_, h⟩
    · rw [hk]; exact hb j c hc (by rw [← hp]; exact hnp)
    · exact hb j x h hnp
  · intro a b ca cb ha hb' hpa hpb hid
    rcases set_get _ _ _ _ _ ha with ⟨rfl, rfl, _⟩ | ⟨hne, h1⟩
    · rcases set_get _ _ _ _ _ hb' with ⟨rfl, rfl, _⟩ | ⟨hne2, h2⟩
      · rfl
      · exact hd a b c cb hc h2 (by rw [← hp]; exact hpa) hpb (by rw [← hk]; exact hid)
    · rcases set_get _ _ _ _ _ hb' with ⟨rfl, rfl, _⟩ | ⟨hne2, h2⟩
      · exact hd a b ca c h1 hc hpa (by rw [← hp]; exact hpb) (by rw [hid, hk])
      · exact hd a b ca cb h1 h2 hpa hpb hid
  · intro j x hj
    rcases set_get _ _ _ _ _ hj with ⟨rfl, rfl, _⟩ | ⟨_, h⟩
    · exact hgood
    · exact hg j x h

theorem inv_serve (env : Env) (s : Sys) (i : Nat) (hi : Inv env s) : Inv env (serve env s i) := by
  unfold serve
  cases hc : s.calls[i]? with
  | none => exact hi
  | some c =>
    simp only
    split
    · exact hi
    · rename_i hst
      have hsent : c.stage = .sent := by simpa using hst
      have hgc := hi.good i c hc
      simp only [Good, hsent] at hgc
      obtain ⟨he, hr, ho⟩ := hgc
      split
      · rename_i hk
        split
        · rename_i hpost
          exact inv_set env s i c _ hi hc rfl rfl (by simp [Good, hpost, ho, he, hr, knownOf, hk])
        · rename_i hpost
          exact inv_set env s i c _ hi hc rfl rfl (by
            simp only [Good]
            refine ⟨by simpa using hpost, by omega, ho, Or.inl ⟨by simpa [knownOf] using hk, rfl, by simp; omega⟩⟩)
      · rename_i hk
        split
        · rename_i hpost
          exact inv_set env s i c _ hi hc rfl rfl (by simp [Good, hpost, ho, he, hr, knownOf, hk])
        · rename_i hpost
          exact inv_set env s i c _ hi hc rfl rfl (by
            simp only [Good]
            refine ⟨by simpa using hpost, by omega, ho, Or.inr ⟨by simpa [knownOf] using hk, rfl, he⟩⟩)

/-- under the invariant the response of request `i` matches only the handler of request `i` -/
theorem matches_only_self (env : Env) (s : Sys) (hi : Inv env s) (i j : Nat) (ci cj : CallRec)
    (hci : s.calls[i]? = some ci) (hcj : s.calls[j]? = some cj) (hnp : ci.isPost = false)
    (hm : Calls.sameKey ci cj = true) : j = i := by
  simp only [Calls.sameKey, Bool.and_eq_true, Bool.not_eq_true', beq_iff_eq] at hm
  obtain ⟨⟨⟨hpj, _⟩, _⟩, hk⟩ := hm
  exact hi.distinct j i cj ci hcj hci hpj hnp (by rw [hk])

theorem inv_deliver (env : Env) (s : Sys) (i : Nat) (hi : Inv env s) : Inv env (deliver s i) := by
  unfold deliver
  cases hc : s.calls[i]? with
  | none => exact hi
  | some ci =>
    simp only
    cases hst : ci.stage with
    | sent => exact hi
    | done => exact hi
    | answered r =>
      simp only
      have hgi := hi.good i ci hc
      simp only [Good, hst] at hgi
      obtain ⟨hnp, hresp, hout, hjust⟩ := hgi
      have hlt : i < s.calls.length := by
        rcases Nat.lt_or_ge i s.calls.length with h | h
        · exact h
        · rw [List.getElem?_eq_none (by simpa using h)] at hc; cases hc
      -- the mapped list only differs at i
      have hmap : s.calls.map (fun cj => if Calls.sameKey ci cj = true then { cj with outcome := some r } else cj) =
          s.calls.set i { ci with outcome := some r } := by
        apply List.ext_getElem?
        intro j
        rw [List.getElem?_map]
        by_cases hji : i = j
        · subst hji
          rw [hc, List.getElem?_set_self hlt]
          have : Calls.sameKey ci ci = true := by simp [Calls.sameKey, hnp, hout]
          simp [this]
        · rw [List.getElem?_set_ne hji]
          cases hj : s.calls[j]? with
          | none => rfl
          | some cj =>
            simp only [Option.map_some]
            have : Calls.sameKey ci cj = false := by
              cases hm : Calls.sameKey ci cj with
              | false => rfl
              | true => exact absurd (matches_only_self env s hi i j ci cj hc hj hnp hm).symm hji
            simp [this]
      rw [hmap]
      have hget : (s.calls.set i { ci with outcome := some r })[i]? = some { ci with outcome := some r } :=
        List.getElem?_set_self hlt
      simp only [Calls.modify, hget, List.set_set]
      exact inv_set env s i ci _ hi hc rfl rfl (by
        simp only [Good, hnp]
        refine ⟨r, rfl, hresp, ?_⟩
        exact hjust)

theorem inv_other (env : Env) (s : Sys) (t sv o a : Nat) (hi : Inv env s) : Inv env (other env s t sv o a) := by
  have : s.strayOn = false := hi.pol.2.1
  simp only [other, this]
  exact hi

theorem inv_step (env : Env) (s : Sys) (a : Action) (hi : Inv env s) : Inv env (step env s a) := by
  cases a with
  | call cl c sv o a x => exact inv_call env s cl c sv o a x hi
  | post c sv o a id x => exact inv_post env s c sv o a id x hi
  | serve i => exact inv_serve env s i hi
  | deliver i => exact inv_deliver env s i hi
  | other t sv o a => exact inv_other env s t sv o a hi

theorem inv_run (env : Env) (s : Sys) (as : List Action) (hi : Inv env s) : Inv env (run env s as) := by
  induction as generalizing s with
  | nil => exact hi
  | cons a r ih => exact ih _ (inv_step env s a hi)

/-! ### C04 -/

/-- **Its own answer, and the method ran exactly once.**  Whatever the services compute, however
    many clients and connections call concurrently and in whatever order requests, executions
    and responses interleave: a call that returned a result returned the result of the
    addressed method on *its own* argument, and the method body ran exactly once for it. -/
theorem own_answer (env : Env) (as : List Action) (i : Nat) (c : CallRec) (v : Nat)
    (hc : (run env {} as).calls[i]? = some c) (ho : c.outcome = some (.reply v)) :
    v = env.f c.key.svc c.key.obj c.key.act c.arg ∧ c.execs = 1 := by
  have hg := (inv_run env {} as (inv_init env)).good i c hc
  unfold Good at hg
  split at hg
  · rw [hg.2.2] at ho; cases ho
  · rw [hg.2.2.1] at ho; cases ho
  · split at hg
    · rw [hg.1] at ho; cases ho
    · obtain ⟨r, hr, _, hj⟩ := hg
      rw [hr] at ho; injection ho with ho; subst ho
      rcases hj with ⟨_, h2, h3⟩ | ⟨_, h2, _⟩
      · injection h2 with h2; exact ⟨h2, h3⟩
      · cases h2

/-- **At most once, always**: in every reachable state the method body has run at most once for
    every request (call or post), at most one response frame was produced for it, and an error
    outcome means nothing ran -/
theorem at_most_once (env : Env) (as : List Action) (i : Nat) (c : CallRec)
    (hc : (run env {} as).calls[i]? = some c) :
    c.execs ≤ 1 ∧ c.responses ≤ 1 ∧ (c.outcome = some .error → c.execs = 0) := by
  have hg := (inv_run env {} as (inv_init env)).good i c hc
  unfold Good at hg
  split at hg
  · exact ⟨by omega, by omega, fun h => by rw [hg.2.2] at h; cases h⟩
  · obtain ⟨_, h2, h3, hj⟩ := hg
    refine ⟨?_, by omega, fun h => by rw [h3] at h; cases h⟩
    rcases hj with ⟨_, _, h⟩ | ⟨_, _, h⟩ <;> omega
  · split at hg
    · exact ⟨hg.2.1, by omega, fun h => by rw [hg.1] at h; cases h⟩
    · obtain ⟨r, hr, h2, hj⟩ := hg
      refine ⟨?_, by omega, ?_⟩
      · rcases hj with ⟨_, _, h⟩ | ⟨_, _, h⟩ <;> omega
      · intro h; rw [hr] at h; injection h with h; subst h
        rcases hj with ⟨_, h2, _⟩ | ⟨_, _, h⟩
        · cases h2
        · exact h

/-- a post runs its method at most once (exactly once when the method exists and the post has
    been served), is never answered — not even with an error — and never has an outcome -/
theorem post_is_quiet (env : Env) (as : List Action) (i : Nat) (c : CallRec)
    (hc : (run env {} as).calls[i]? = some c) (hp : c.isPost = true) :
    c.responses = 0 ∧ c.outcome = none ∧ c.execs ≤ 1 ∧ (c.stage = .done → knownOf env c = true → c.execs = 1) := by
  have hg := (inv_run env {} as (inv_init env)).good i c hc
  unfold Good at hg
  split at hg
  · rename_i hs; exact ⟨hg.2.1, hg.2.2, by omega, fun h => by rw [hs] at h; cases h⟩
  · rw [hg.1] at hp; cases hp
  · simp only [hp, if_true] at hg
    exact ⟨hg.2.2.1, hg.1, hg.2.1, fun _ hk => hg.2.2.2 hk⟩

/-- **Frames of any other kind never run a method** — a cancel cannot execute a call a second time -/
theorem other_kinds_run_nothing (env : Env) (as : List Action) : (run env {} as).stray = 0 :=
  (inv_run env {} as (inv_init env)).pol.2.2

theorem other_kinds_touch_no_call (env : Env) (s : Sys) (t sv o a : Nat) : (other env s t sv o a).calls = s.calls := by
  unfold other; split <;> rfl

/-- message ids of distinct calls are distinct (one counter for all clients) -/
theorem ids_distinct (env : Env) (as : List Action) (i j : Nat) (ci cj : CallRec)
    (hi : (run env {} as).calls[i]? = some ci) (hj : (run env {} as).calls[j]? = some cj)
    (hpi : ci.isPost = false) (hpj : cj.isPost = false) (hne : i ≠ j) : ci.key.id ≠ cj.key.id :=
  fun h => hne ((inv_run env {} as (inv_init env)).distinct i j ci cj hi hj hpi hpj h)

/-- **Progress**: no reachable state is stuck — a request not yet served can be served, and a
    call whose response is on its way returns when it arrives, with that response -/
theorem not_stuck (env : Env) (as : List Action) (i : Nat) (c : CallRec)
    (hc : (run env {} as).calls[i]? = some c) :
    (c.stage = .sent → ∃ c', (serve env (run env {} as) i).calls[i]? = some c' ∧ c'.stage ≠ .sent) ∧
    (∀ r, c.stage = .answered r → ∃ c', (deliver (run env {} as) i).calls[i]? = some c' ∧ c'.stage = .done ∧ c'.outcome = some r) := by
  have hinv := inv_run env {} as (inv_init env)
  have hlt : i < (run env {} as).calls.length := by
    rcases Nat.lt_or_ge i (run env {} as).calls.length with h | h
    · exact h
    · rw [List.getElem?_eq_none (by simpa using h)] at hc; cases hc
  constructor
  · intro hs
    unfold serve
    rw [hc]; simp only [hs]
    simp only [bne_self_eq_false, Bool.false_eq_true, if_false]
    split <;> split <;> exact ⟨_, List.getElem?_set_self hlt, by simp⟩
  · intro r hs
    have hd := inv_deliver env (run env {} as) i hinv
    have hg := hinv.good i c hc
    simp only [Good, hs] at hg
    obtain ⟨hnp, hresp, hout, hjust⟩ := hg
    -- recompute the delivered list as in `inv_deliver`
    have hmap : (run env {} as).calls.map (fun cj => if Calls.sameKey c cj = true then { cj with outcome := some r } else cj) =
        (run env {} as).calls.set i { c with outcome := some r } := by
      apply List.ext_getElem?
      intro j
      rw [List.getElem?_map]
      by_cases hji : i = j
      · subst hji
        rw [hc, List.getElem?_set_self hlt]
        have : Calls.sameKey c c = true := by simp [Calls.sameKey, hnp, hout]
        simp [this]
      · rw [List.getElem?_set_ne hji]
        cases hj : (run env {} as).calls[j]? with
        | none => rfl
        | some cj =>
          simp only [Option.map_some]
          have : Calls.sameKey c cj = false := by
            cases hm : Calls.sameKey c cj with
            | false => rfl
            | true => exact absurd (matches_only_self env _ hinv i j c cj hc hj hnp hm).symm hji
          simp [this]
    unfold deliver
    rw [hc]; simp only [hs, hmap]
    simp only [Calls.modify]
    rw [List.getElem?_set_self hlt]
    simp only [List.set_set]
    exact ⟨_, List.getElem?_set_self hlt, rfl, rfl⟩

/-! ### what the repairs were needed for: the same machine with the old choices -/

def exEnv : Env := { known := fun _ _ _ => true, f := fun _ _ _ x => x + 1000 }

/-- per-client counters (before f34a61a): two clients on one connection call the same method;
    the second caller is handed the first caller's result -/
theorem per_client_ids_cross :
    ((run exEnv { policy := .perClient } [.call 0 0 1 1 100 7, .call 1 0 1 1 100 9, .serve 0, .deliver 0]).calls.map
      (fun c => (c.arg, c.outcome))) = [(7, some (.reply 1007)), (9, some (.reply 1007))] := by decide

/-- the same schedule with the shared counter: only the first call has returned, with its own result -/
example :
    ((run exEnv {} [.call 0 0 1 1 100 7, .call 1 0 1 1 100 9, .serve 0, .deliver 0, .serve 1, .deliver 1]).calls.map
      (fun c => (c.arg, c.key.id, c.outcome, c.execs))) = [(7, 3, some (.reply 1007), 1), (9, 5, some (.reply 1009), 1)] := by decide

/-- the dispatcher before 8464f65: a cancel frame runs the method although no call asked for it -/
theorem old_dispatcher_runs_cancel :
    (run exEnv { strayOn := true } [.call 0 0 1 1 100 7, .serve 0, .other 7 1 1 100]).stray = 1 := by decide

end QiVerif.C04
