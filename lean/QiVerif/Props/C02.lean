/-
  C02 — dynamic values survive encode/decode unchanged, byte for byte.
  (Helper lemmas: Lemmas/Codec.lean, Lemmas/Value.lean.)
-/
import QiVerif.Lemmas.Value
namespace QiVerif.C02
open QiVerif QiVerif.Sig QiVerif.Codec QiVerif.Value QiVerif.CodecL QiVerif.ValueL

/-- **Every dynamic value** built from the constructors (scalars, strings, raw buffers, void,
    lists of values nested to any depth, opaque values of any grammar signature with well-typed
    data) **decodes from its own encoding to the same value, consuming exactly the bytes the
    encoder produced** (whatever follows is left untouched). -/
theorem value_roundtrip (s : SVal) (h : WFS s) (f : Nat) (hf : sneed s ≤ f) (rest : Bytes) :
    readVal f (writeVal (toVal s) ++ rest) = .ok (toVal s, rest) :=
  val_rt s h f rest hf

/-- … **and re-encoding the decoded value reproduces those bytes.** -/
theorem reencode_identical (s : SVal) (h : WFS s) (f : Nat) (hf : sneed s ≤ f) (rest : Bytes) :
    ∃ v', readVal f (writeVal (toVal s) ++ rest) = .ok (v', rest) ∧ writeVal v' = writeVal (toVal s) :=
  ⟨toVal s, val_rt s h f rest hf, rfl⟩

/-- **Opaque values of any composite signature**: for every type `t` of the grammar (no object
    reference / unknown inside) that `NewValue` does not decode natively, and every well-typed
    datum `v`, the value `Opaque(print t, D t v)` round-trips; `D` is the documented layout. -/
theorem opaque_roundtrip (t : Ty) (v : TVal) (hwf : C09.WF t) (hp : Plain t) (ht : Typed t v)
    (hk : ¬ IsTableKey (print t)) (hl : SigFits t) (f : Nat) (hf : vneed v + 1 ≤ f)
    (rest : Bytes) :
    readVal f (Value.writeString (print t) ++ D t v ++ rest) = .ok (.opaque (print t) (D t v), rest) := by
  have := val_rt (.opq t v) ⟨hwf, hp, ht, hk, hl⟩ f rest (by simp [sneed]; omega)
  simpa [toVal, writeVal] using this

/-- **Values nested inside lists, maps and structs**: a dynamic value occurring inside typed
    data (signature `m`) is read completely and re-encodes to the bytes that were read. -/
theorem nested_value_roundtrip (t : Ty) (v : TVal) (h : DynOK t v) (hs : Small v) (f : Nat)
    (hf : vneed v + 1 ≤ f) (rest : Bytes) :
    ∃ val, readVal f (D (.basic 109) (.dyn t v) ++ rest) = .ok (val, rest) ∧
      writeVal val = D (.basic 109) (.dyn t v) :=
  dyn_read t v h hs f hf rest

/-- the signature-driven reader used for opaque values returns exactly the value's bytes -/
theorem reader_exact (t : Ty) (v : TVal) (ht : Typed t v) (f : Nat) (hf : vneed v ≤ f) (rest : Bytes) :
    readT f t (D t v ++ rest) = .ok (D t v, rest) :=
  rt v t ht f rest hf

/-! ### non-vacuity: a list holding a scalar, a string and an opaque struct with a nested value -/

def exStructTy : Ty := .struct [83] [([97], .basic 105), ([98], .basic 109)]
def exStructVal : TVal := .tuple [.num 7, .dyn (.list (.basic 115)) (.list [.str [104, 105]])]
def exS : SVal := .list [.scalar 105 42, .str [111, 107], .opq exStructTy exStructVal]

example : Typed exStructTy exStructVal := by
  simp [exStructTy, exStructVal, Typed, TypedMembers, TypedList, width, C09.WF, Plain, print, maxStringSize,
    basicLetters, zeroSize, SigFits, C09.nest, maxDepth]

end QiVerif.C02
