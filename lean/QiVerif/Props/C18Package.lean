/-
  C18 — the package level: the header, the interface blocks and the struct blocks `GenerateIDL`
  writes are read back by the parser of Model/IdlPackage.lean as the same declarations, in order;
  the scope the parser builds from them is the scope of Props/C18Scope.lean, in which every struct
  of the meta-object resolves to its signature.
-/
import QiVerif.Model.IdlPackage
import QiVerif.Props.C18Lines
import QiVerif.Props.C18Scope
set_option linter.unusedSimpArgs false
set_option linter.unusedVariables false
namespace QiVerif.C18
open QiVerif QiVerif.Idl

/-! ### what may follow a block -/

/-- the text goes on neither with a comment nor with the `:` of a member -/
def Quiet (x : Bytes) : Prop := atom [47, 47] x = none ∧ atom [58] x = none

theorem quiet_nil : Quiet [] := ⟨rfl, rfl⟩

theorem quiet_ws (c : UInt8) (x : Bytes) (h : isWS c = true) (hq : Quiet x) : Quiet (c :: x) :=
  ⟨by rw [atom_skip _ c x h]; exact hq.1, by rw [atom_skip _ c x h]; exact hq.2⟩

theorem alpha_not_ws (c : UInt8) (h : isAlphaU c = true) : isWS c = false := word_not_ws c (alpha_word c h)

theorem alpha_ne (c : UInt8) (h : isAlphaU c = true) : c ≠ 47 ∧ c ≠ 58 := by
  constructor <;> (intro e; subst e; revert h; decide)

theorem quiet_alpha (c : UInt8) (x : Bytes) (h : isAlphaU c = true) : Quiet (c :: x) := by
  have hne := alpha_ne c h
  constructor
  · apply atom_miss _ c x (alpha_not_ws c h)
    simp only [mismatch]
    have : ((47 : UInt8) == c) = false := by simp; exact fun e => hne.1 e.symm
    simp [this]
  · apply atom_miss _ c x (alpha_not_ws c h)
    simp only [mismatch]
    have : ((58 : UInt8) == c) = false := by simp; exact fun e => hne.2 e.symm
    simp [this]

theorem no_comment (x : Bytes) (h : atom [47, 47] x = none) : parseComment x = (0, x) := by
  simp [parseComment, h]

/-! ### a struct block -/

theorem parseMember_skip (f : Nat) (c : UInt8) (x : Bytes) (h : isWS c = true) : parseMember f (c :: x) = parseMember f x := by
  simp [parseMember, parseParam_skip f c x h]

/-- a member line is read back; the rest of the text starts at the end of the line -/
theorem member_ok (p : Param) (hp : WFParam p) (f : Nat) (hf : need p.ty ≤ f) (rest : Bytes) (hq : atom [47, 47] rest = none) :
    parseMember f (printMember p ++ rest) = some (p, 10 :: rest) := by
  have h1 : printMember p ++ rest = 9 :: (printParam p ++ 10 :: rest) := by simp [printMember, printParam]
  rw [h1, parseMember_skip f 9 _ (by decide)]
  unfold parseMember
  rw [param_hit p hp f hf (10 :: rest) (follow_of 10 rest (by decide) (by decide))]
  simp only
  rw [no_comment (10 :: rest) (by rw [atom_skip _ 10 rest (by decide)]; exact hq)]

/-- the first character of a member line, or of what follows the members, starts no comment -/
theorem members_no_comment : (ps : List Param) → WFParams ps → ∀ tail, atom [47, 47] tail = none →
    atom [47, 47] (printMembers ps ++ tail) = none
  | [], _, tail, h => by simpa [printMembers] using h
  | p :: r, hw, tail, _ => by
    obtain ⟨c, w, hn, hc, _⟩ := hw.1.1
    have : printMembers (p :: r) ++ tail = 9 :: c :: (w ++ [58, 32] ++ printT p.ty ++ [10] ++ (printMembers r ++ tail)) := by
      simp [printMembers, printMember, hn]
    rw [this, atom_skip _ 9 _ (by decide)]
    exact (quiet_alpha c _ hc).1

/-- **the members of a struct block are read back**, up to the line that is no member -/
theorem members_ok (f : Nat) (tail : Bytes) (hstop : parseMember f tail = none) (hq : atom [47, 47] tail = none) :
    (ps : List Param) → WFParams ps → needP ps ≤ f → ∀ k, ps.length ≤ k →
    parseMembers k f (10 :: (printMembers ps ++ tail)) = (ps, 10 :: tail)
  | [], _, _, k, _ => by
    cases k with
    | zero => rfl
    | succ k => simp [parseMembers, printMembers, parseMember_skip f 10 tail (by decide), hstop]
  | p :: r, hw, hn, k, hk => by
    simp only [List.length_cons] at hk
    obtain ⟨k', rfl⟩ : ∃ k', k = k' + 1 := ⟨k - 1, by omega⟩
    simp only [needP] at hn
    have step := member_ok p hw.1 f (by omega) (printMembers r ++ tail) (members_no_comment r hw.2 tail hq)
    have ih := members_ok f tail hstop hq r hw.2 (by omega) k' (by omega)
    simp only [parseMembers, printMembers, List.append_assoc, parseMember_skip f 10 _ (by decide), step, ih]

/-- the line `end` is no member -/
theorem end_no_member (f : Nat) (x : Bytes) (h : atom [58] x = none) : parseMember f (kwEnd ++ 10 :: x) = none := by
  unfold parseMember parseParam
  have hi : IsIdent kwEnd := ⟨101, [110, 100], rfl, by decide, allWord_of _ (by decide)⟩
  rw [ident_hit kwEnd (10 :: x) hi (follow_of 10 x (by decide) (by decide))]
  simp only
  rw [atom_skip _ 10 x (by decide), h]

/-- the struct blocks of the class: an identifier as name, members of the class of the type layer -/
def WFDecl (d : Decl) : Prop := IsIdent d.name ∧ WFParams d.members

theorem parseStruct_skip (k f : Nat) (c : UInt8) (x : Bytes) (h : isWS c = true) : parseStruct k f (c :: x) = parseStruct k f x := by
  simp [parseStruct, atom_skip _ c x h]

/-- **a struct block is read back**: its name, the names and types of its members -/
theorem struct_ok (d : Decl) (h : WFDecl d) (k f : Nat) (hk : d.members.length ≤ k) (hf : needP d.members ≤ f)
    (rest : Bytes) (hq : Quiet rest) :
    parseStruct k f (printStruct d ++ rest) = some (d, 10 :: rest) := by
  obtain ⟨c, w, hn, hc, hw⟩ := h.1
  have htext : printStruct d ++ rest =
      kwStruct ++ (32 :: ((c :: w) ++ 10 :: (printMembers d.members ++ (kwEnd ++ 10 :: rest)))) := by
    simp [printStruct, hn]
  rw [htext]
  unfold parseStruct
  rw [atom_hit kwStruct 115 [116, 114, 117, 99, 116] _ rfl (by decide)]
  simp only
  rw [typeIdent_skip 32 _ (by decide), typeIdent_plain c w _ hc hw (follow_of 10 _ (by decide) (by decide))]
  simp only
  have hq1 : atom [47, 47] (kwEnd ++ 10 :: rest) = none :=
    (quiet_alpha 101 _ (by decide)).1
  rw [no_comment _ (by rw [atom_skip _ 10 _ (by decide)]; exact members_no_comment d.members h.2 _ hq1)]
  simp only
  rw [members_ok f (kwEnd ++ 10 :: rest) (end_no_member f rest hq.2) hq1 d.members h.2 hf k hk]
  simp only
  rw [atom_skip _ 10 _ (by decide), atom_hit kwEnd 101 [110, 100] _ rfl (by decide)]
  simp only
  rw [no_comment (10 :: rest) (by rw [atom_skip _ 10 rest (by decide)]; exact hq.1)]
  cases d; simp_all

/-! ### an interface block -/

theorem parseActions_lead (k f : Nat) (c : UInt8) (x : Bytes) (h : isWS c = true) (r : Action × Bytes)
    (hx : parseAction f x = some r) : parseActions (k + 1) f (c :: x) = parseActions (k + 1) f x := by
  simp only [parseActions, parseAction_skip f c x h, hx]

/-- the interface blocks of the class -/
def WFItf (n : Bytes) (as : List Action) (f : Nat) : Prop := IsIdent n ∧ ∀ a ∈ as, WFAction a ∧ needA a ≤ f

theorem printActions_no_comment : (as : List Action) → ∀ tail, atom [47, 47] tail = none →
    atom [47, 47] (printActions as ++ tail) = none
  | [], tail, h => by simpa [printActions] using h
  | a :: r, tail, _ => by
    have : printActions (a :: r) ++ tail = 9 :: (kindKw a.kind ++ (lineTail a ++ (printActions r ++ tail))) := by
      simp [printActions, printAction_eq]
    rw [this, atom_skip _ 9 _ (by decide)]
    cases a.kind
    · exact (quiet_alpha 102 _ (by decide)).1
    · exact (quiet_alpha 115 _ (by decide)).1
    · exact (quiet_alpha 112 _ (by decide)).1

/-- **an interface block is read back**: its name and its actions, in order -/
theorem interface_ok (n : Bytes) (as : List Action) (f : Nat) (h : WFItf n as f) (k : Nat) (hk : as.length ≤ k)
    (rest : Bytes) (hq : Quiet rest) :
    parseInterface (k + 1) f (printInterface n as ++ rest) = some ((n, as), 10 :: rest) := by
  have htext : printInterface n as ++ rest =
      kwInterface ++ (32 :: (n ++ 10 :: (printActions as ++ (101 :: 110 :: 100 :: 10 :: rest)))) := by
    simp [printInterface, kwEnd]
  rw [htext]
  unfold parseInterface
  rw [atom_hit kwInterface 105 [110, 116, 101, 114, 102, 97, 99, 101] _ rfl (by decide)]
  simp only
  rw [ident_skip 32 _ (by decide), ident_hit n _ h.1 (follow_of 10 _ (by decide) (by decide))]
  simp only
  have hq1 : atom [47, 47] (101 :: 110 :: 100 :: 10 :: rest) = none := (quiet_alpha 101 _ (by decide)).1
  rw [no_comment _ (by rw [atom_skip _ 10 _ (by decide)]; exact printActions_no_comment as _ hq1)]
  simp only
  have hacts : parseActions (k + 1) f (10 :: (printActions as ++ 101 :: 110 :: 100 :: 10 :: rest)) =
      (as, 10 :: 101 :: 110 :: 100 :: 10 :: rest) := by
    cases as with
    | nil =>
      simp only [printActions, List.nil_append, parseActions, parseAction_skip f 10 _ (by decide), stop_at_end]
    | cons a r =>
      have ha := h.2 a (by simp)
      have hfirst := action_ok a ha.1 f ha.2 (printActions r ++ 101 :: 110 :: 100 :: 10 :: rest)
      have hh : printActions (a :: r) ++ 101 :: 110 :: 100 :: 10 :: rest =
          printAction a ++ (printActions r ++ 101 :: 110 :: 100 :: 10 :: rest) := by simp [printActions]
      rw [parseActions_lead k f 10 _ (by decide) _ (by rw [hh]; exact hfirst)]
      have := actions_ok f (101 :: 110 :: 100 :: 10 :: rest) (stop_at_end f _) (a :: r) h.2 (k + 1) (by simp at hk ⊢; omega)
      rw [this]; rfl
  rw [hacts]
  simp only
  rw [atom_skip _ 10 _ (by decide)]
  have : atom kwEnd (101 :: 110 :: 100 :: 10 :: rest) = some (10 :: rest) :=
    atom_hit kwEnd 101 [110, 100] (10 :: rest) rfl (by decide)
  rw [this]
  simp only
  rw [no_comment (10 :: rest) (by rw [atom_skip _ 10 rest (by decide)]; exact hq.1)]

/-! ### the declarations of a package -/

/-- the blocks `GenerateIDL` writes -/
inductive Block where
  | itf (n : Bytes) (as : List Action)
  | struct (d : Decl)

def Block.print : Block → Bytes
  | .itf n as => printInterface n as
  | .struct d => printStruct d

def Block.decl : Block → PDecl
  | .itf n as => .itf n as
  | .struct d => .struct d

def printBlocks : List Block → Bytes
  | [] => []
  | b :: r => b.print ++ printBlocks r

/-- a block of the class, with the bounds its lists and types need -/
def WFBlock (k f : Nat) : Block → Prop
  | .itf n as => WFItf n as f ∧ as.length ≤ k
  | .struct d => WFDecl d ∧ d.members.length ≤ k ∧ needP d.members ≤ f

theorem parseEnum_skip (k : Nat) (c : UInt8) (x : Bytes) (h : isWS c = true) : parseEnum k (c :: x) = parseEnum k x := by
  simp [parseEnum, atom_skip _ c x h]

theorem parseInterface_skip (k f : Nat) (c : UInt8) (x : Bytes) (h : isWS c = true) :
    parseInterface k f (c :: x) = parseInterface k f x := by
  simp [parseInterface, atom_skip _ c x h]

theorem parseDecl_skip (k f : Nat) (c : UInt8) (x : Bytes) (h : isWS c = true) : parseDecl k f (c :: x) = parseDecl k f x := by
  simp [parseDecl, parseStruct_skip k f c x h, parseEnum_skip k c x h, parseInterface_skip k f c x h]

theorem printBlocks_quiet : (bs : List Block) → Quiet (printBlocks bs)
  | [] => quiet_nil
  | .itf n as :: r => by
    have : printBlocks (.itf n as :: r) = 105 :: ([110, 116, 101, 114, 102, 97, 99, 101] ++ [32] ++ n ++ [10] ++ printActions as ++ kwEnd ++ [10] ++ printBlocks r) := by
      simp [printBlocks, Block.print, printInterface, kwInterface]
    rw [this]; exact quiet_alpha 105 _ (by decide)
  | .struct d :: r => by
    have : printBlocks (.struct d :: r) = 115 :: ([116, 114, 117, 99, 116] ++ [32] ++ d.name ++ [10] ++ printMembers d.members ++ kwEnd ++ [10] ++ printBlocks r) := by
      simp [printBlocks, Block.print, printStruct, kwStruct]
    rw [this]; exact quiet_alpha 115 _ (by decide)

/-- a block is read back as the declaration it is -/
theorem block_ok (b : Block) (k f : Nat) (h : WFBlock k f b) (rest : Bytes) (hq : Quiet rest) :
    parseDecl (k + 1) f (b.print ++ rest) = some (b.decl, 10 :: rest) := by
  cases b with
  | struct d =>
    simp only [WFBlock] at h
    simp only [parseDecl, Block.print, Block.decl, struct_ok d h.1 (k + 1) f (by omega) h.2.2 rest hq]
  | itf n as =>
    simp only [WFBlock] at h
    have htext : printInterface n as ++ rest = 105 :: ([110, 116, 101, 114, 102, 97, 99, 101] ++ [32] ++ n ++ [10] ++ printActions as ++ kwEnd ++ [10] ++ rest) := by
      simp [printInterface, kwInterface]
    have hs : parseStruct (k + 1) f (printInterface n as ++ rest) = none := by
      rw [htext]; unfold parseStruct
      rw [atom_miss kwStruct 105 _ (by decide) (by decide)]
    have he : parseEnum (k + 1) (printInterface n as ++ rest) = none := by
      rw [htext]; unfold parseEnum
      rw [atom_miss kwEnum 105 _ (by decide) (by decide)]
    simp only [parseDecl, Block.print, Block.decl, hs, he, interface_ok n as f h.1 k h.2 rest hq]

theorem no_decl_at_end (k f : Nat) : parseDecl k f [10] = none := by
  simp [parseDecl, parseStruct, parseEnum, parseInterface, atom, skipWS, isWS, stripPrefix, kwStruct, kwEnum, kwInterface]

/-- **the declarations of a package are read back**, in order; what is left is the end of the last line -/
theorem blocks_ok (k f : Nat) : (bs : List Block) → (∀ b ∈ bs, WFBlock k f b) → ∀ j, bs.length ≤ j →
    parseDecls j (k + 1) f (10 :: printBlocks bs) = (bs.map Block.decl, [10])
  | [], _, j, _ => by
    cases j with
    | zero => rfl
    | succ j => simp [parseDecls, printBlocks, no_decl_at_end]
  | b :: r, h, j, hj => by
    simp only [List.length_cons] at hj
    obtain ⟨j', rfl⟩ : ∃ j', j = j' + 1 := ⟨j - 1, by omega⟩
    have step := block_ok b k f (h b (by simp)) (printBlocks r) (printBlocks_quiet r)
    have ih := blocks_ok k f r (fun x hx => h x (by simp [hx])) j' (by omega)
    simp only [parseDecls, printBlocks, parseDecl_skip (k + 1) f 10 _ (by decide), step, ih, List.map]

/-! ### the package -/

/-- a package name: `[_A-Za-z][0-9a-zA-Z-._]*` -/
def IsPkgName (n : Bytes) : Prop := ∃ c w, n = c :: w ∧ isAlphaU c = true ∧ ∀ x ∈ w, isPkgChar x = true

theorem spanPkg_stop (w rest : Bytes) (h : ∀ x ∈ w, isPkgChar x = true) : spanPkg (w ++ 10 :: rest) = (w, 10 :: rest) := by
  induction w with
  | nil => simp [spanPkg, isPkgChar, isWord]
  | cons c w ih =>
    simp only [List.cons_append, spanPkg, h c (by simp), if_true, ih (fun x hx => h x (by simp [hx]))]

/-- `GenerateIDL`: "package <name>", then the blocks -/
def printPkg (name : Bytes) (bs : List Block) : Bytes := kwPackage ++ [32] ++ name ++ [10] ++ printBlocks bs

theorem header_ok (name : Bytes) (hn : IsPkgName name) (x : Bytes) (hq : Quiet x) :
    parsePackageName (kwPackage ++ [32] ++ name ++ [10] ++ x) = (name, 10 :: x) := by
  obtain ⟨c, w, rfl, hc, hw⟩ := hn
  have htext : kwPackage ++ [32] ++ (c :: w) ++ [10] ++ x = kwPackage ++ (32 :: c :: (w ++ 10 :: x)) := by simp
  rw [htext]
  unfold parsePackageName
  rw [atom_hit kwPackage 112 [97, 99, 107, 97, 103, 101] _ rfl (by decide)]
  simp only
  rw [skipWS_ws 32 _ (by decide), skipWS_cons c _ (alpha_not_ws c hc)]
  simp only [hc, Bool.not_true, Bool.false_eq_true, if_false]
  rw [spanPkg_stop w x hw]
  simp only
  rw [no_comment (10 :: x) (by rw [atom_skip _ 10 x (by decide)]; exact hq.1)]

/-- **A package is read back** (the bounds of the lists and of the type parser given): the name,
    and every interface block and struct block as the declaration it is, in the order of the text;
    nothing is left but the end of the last line. -/
theorem package_ok (name : Bytes) (hn : IsPkgName name) (bs : List Block) (k f j : Nat)
    (h : ∀ b ∈ bs, WFBlock k f b) (hj : bs.length ≤ j) :
    let r := parsePackageName (printPkg name bs)
    r.1 = name ∧ parseDecls j (k + 1) f r.2 = (bs.map Block.decl, [10]) := by
  simp only [printPkg]
  rw [header_ok name hn (printBlocks bs) (printBlocks_quiet bs)]
  exact ⟨rfl, blocks_ok k f bs h j hj⟩

/-! ### the bounds `ParsePackage` works with are wide enough -/

theorem needP_members : (ps : List Param) → needP ps ≤ 2 * (printMembers ps).length + 4
  | [] => by simp [needP]
  | p :: r => by
    have := need_bound p.ty; have := needP_members r
    simp only [needP, printMembers, printMember, List.length_append, List.length_cons, List.length_nil]
    omega

theorem needP_params (sep : Bytes) : (ps : List Param) → needP ps ≤ 2 * (printParams sep ps).length + 4
  | [] => by simp [needP]
  | [p] => by
    have := need_bound p.ty
    simp only [needP, printParams, printParam, List.length_append, List.length_cons, List.length_nil]; omega
  | p :: q :: r => by
    have := need_bound p.ty; have := needP_params sep (q :: r)
    simp only [needP, printParams, printParam, List.length_append, List.length_cons, List.length_nil] at *
    omega

theorem needA_action (a : Action) : needA a ≤ 2 * (printAction a).length + 4 := by
  have hp := needP_params (sepOf a.kind) a.params
  unfold needA printAction
  cases hr : a.ret with
  | none => simp only [List.length_append, List.length_cons, List.length_nil]; omega
  | some t =>
    have := need_bound t
    simp only [List.length_append, List.length_cons, List.length_nil]; omega

theorem members_count : (ps : List Param) → ps.length ≤ (printMembers ps).length
  | [] => by simp
  | p :: r => by
    have := members_count r
    simp only [printMembers, printMember, List.length_append, List.length_cons, List.length_nil]; omega

theorem actions_count : (as : List Action) → as.length ≤ (printActions as).length
  | [] => by simp
  | a :: r => by
    have := actions_count r
    simp only [printActions, printAction, List.length_append, List.length_cons, List.length_nil]; omega

theorem action_in_actions (as : List Action) (a : Action) (h : a ∈ as) : (printAction a).length ≤ (printActions as).length := by
  induction as with
  | nil => simp at h
  | cons b r ih =>
    simp only [printActions, List.length_append]
    rcases List.mem_cons.mp h with rfl | h
    · omega
    · have := ih h; omega

theorem block_in_blocks (bs : List Block) (b : Block) (h : b ∈ bs) : b.print.length ≤ (printBlocks bs).length := by
  induction bs with
  | nil => simp at h
  | cons c r ih =>
    simp only [printBlocks, List.length_append]
    rcases List.mem_cons.mp h with rfl | h
    · omega
    · have := ih h; omega

theorem blocks_count : (bs : List Block) → bs.length ≤ (printBlocks bs).length
  | [] => by simp
  | b :: r => by
    have := blocks_count r
    have : 1 ≤ b.print.length := by
      cases b <;> simp [Block.print, printInterface, printStruct, kwInterface, kwStruct] <;> omega
    simp only [printBlocks, List.length_append, List.length_cons]; omega

/-- the blocks of the class, no bounds asked -/
def WFBlock0 : Block → Prop
  | .itf n as => IsIdent n ∧ ∀ a ∈ as, WFAction a
  | .struct d => WFDecl d

theorem wfblock_of_size (b : Block) (h : WFBlock0 b) (L : Nat) (hL : b.print.length ≤ L) : WFBlock L (2 * L + 4) b := by
  cases b with
  | itf n as =>
    simp only [WFBlock0] at h
    simp only [Block.print, printInterface, List.length_append] at hL
    refine ⟨⟨h.1, fun a ha => ⟨h.2 a ha, ?_⟩⟩, ?_⟩
    · have := needA_action a; have := action_in_actions as a ha; omega
    · have := actions_count as; omega
  | struct d =>
    simp only [WFBlock0] at h
    simp only [Block.print, printStruct, List.length_append] at hL
    refine ⟨h, ?_, ?_⟩
    · have := members_count d.members; omega
    · have := needP_members d.members; omega

/-- **`ParsePackage` reads back what `GenerateIDL` writes**: for a package name and interface and
    struct blocks of the class — identifiers as names, parameter, return and member types of the
    class of the type layer (any nesting, references to structs by name), explicit uids — the text
    is accepted and yields the name and the same declarations in the same order. -/
theorem parsePackage_printPkg (name : Bytes) (hn : IsPkgName name) (bs : List Block) (h : ∀ b ∈ bs, WFBlock0 b) :
    parsePackage (printPkg name bs) = some (name, bs.map Block.decl) := by
  have hlen : (printBlocks bs).length ≤ (printPkg name bs).length := by
    simp only [printPkg, List.length_append]; omega
  have hwf : ∀ b ∈ bs, WFBlock (printPkg name bs).length (2 * (printPkg name bs).length + 4) b := fun b hb =>
    wfblock_of_size b (h b hb) _ (by have := block_in_blocks bs b hb; omega)
  have hj : bs.length ≤ (printPkg name bs).length + 1 := by have := blocks_count bs; omega
  obtain ⟨h1, h2⟩ := package_ok name hn bs (printPkg name bs).length (2 * (printPkg name bs).length + 4)
    ((printPkg name bs).length + 1) hwf hj
  unfold parsePackage
  simp only at h1 h2 ⊢
  rw [h2]
  simp [h1, skipWS, isWS]

/-! ### from a meta-object to the text and back -/

mutual
/-- the struct names of a type can be written as references: identifiers that are no keywords -/
def NamesOk : Sig.Ty → Prop
  | .basic _ => True
  | .list t => NamesOk t
  | .map k v => NamesOk k ∧ NamesOk v
  | .tuple ts => NamesOkL ts
  | .struct n _ => IsName n
def NamesOkL : List Sig.Ty → Prop
  | [] => True
  | t :: r => NamesOk t ∧ NamesOkL r
end

mutual
theorem toIT_wf2 (ss : List SEntry) : (t : Sig.Ty) → Declared ss t → NamesOk t → WF (toIT t)
  | .basic c, h, _ => by simp only [Declared] at h; simp only [toIT, WF]; exact (kwOf_ok c h).1
  | .list t, h, hn => by simp only [Declared] at h; simp only [NamesOk] at hn; simp only [toIT, WF]; exact toIT_wf2 ss t h hn
  | .map k v, h, hn => by
    simp only [Declared] at h; simp only [NamesOk] at hn; simp only [toIT, WF]
    exact ⟨toIT_wf2 ss k h.1 hn.1, toIT_wf2 ss v h.2 hn.2⟩
  | .tuple ts, h, hn => by simp only [Declared] at h; simp only [NamesOk] at hn; simp only [toIT, WF]; exact toITs_wf2 ss ts h hn
  | .struct n ms, _, hn => by simp only [NamesOk] at hn; simp only [toIT, WF]; exact hn
theorem toITs_wf2 (ss : List SEntry) : (ts : List Sig.Ty) → DeclaredL ss ts → NamesOkL ts → WFs (toITs ts)
  | [], _, _ => by simp [toITs, WFs]
  | t :: r, h, hn => by
    simp only [DeclaredL] at h; simp only [NamesOkL] at hn; simp only [toITs, WFs]
    exact ⟨toIT_wf2 ss t h.1 hn.1, toITs_wf2 ss r h.2 hn.2⟩
end

/-- an action of a meta-object: its parameters and its returned value with their signature types -/
structure SAction where
  kind : Kind
  name : Bytes
  params : List (Bytes × Sig.Ty)
  ret : Option Sig.Ty
  uid : Nat

def SAction.action (a : SAction) : Action :=
  { kind := a.kind, name := a.name, params := toParams a.params, ret := a.ret.map toIT, uid := a.uid }

/-- a block of the package of a meta-object -/
inductive SBlock where
  | itf (n : Bytes) (as : List SAction)
  | struct (n : Bytes) (ms : List (Bytes × Sig.Ty))

def SBlock.block : SBlock → Block
  | .itf n as => .itf n (as.map SAction.action)
  | .struct n ms => .struct (declOf n ms)

def SBlock.entry : SBlock → SEntry
  | .itf n _ => .itf n
  | .struct n ms => .struct n ms

/-- the members (or parameters) of the class: identifiers as names, types whose structs are declared -/
def MembersOk (ss : List SEntry) : List (Bytes × Sig.Ty) → Prop
  | [] => True
  | (f, t) :: r => IsIdent f ∧ Declared ss t ∧ NamesOk t ∧ MembersOk ss r

theorem wfparams_of (ss : List SEntry) : (ms : List (Bytes × Sig.Ty)) → MembersOk ss ms → WFParams (toParams ms)
  | [], _ => by simp [toParams, WFParams]
  | (f, t) :: r, h => by
    simp only [MembersOk] at h
    simp only [toParams, WFParams, WFParam]
    exact ⟨⟨h.1, toIT_wf2 ss t h.2.1 h.2.2.1⟩, wfparams_of ss r h.2.2.2⟩

def SActionOk (ss : List SEntry) (a : SAction) : Prop :=
  IsIdent a.name ∧ MembersOk ss a.params ∧
    (match a.ret with | some t => Declared ss t ∧ NamesOk t ∧ a.kind = .fn | none => True)

def SBlockOk (ss : List SEntry) : SBlock → Prop
  | .itf n as => IsIdent n ∧ ∀ a ∈ as, SActionOk ss a
  | .struct n ms => IsIdent n ∧ MembersOk ss ms

theorem wfblock0_of (ss : List SEntry) (b : SBlock) (h : SBlockOk ss b) : WFBlock0 b.block := by
  cases b with
  | struct n ms =>
    simp only [SBlockOk] at h
    exact ⟨h.1, wfparams_of ss ms h.2⟩
  | itf n as =>
    simp only [SBlockOk] at h
    refine ⟨h.1, ?_⟩
    intro a ha
    simp only [List.mem_map] at ha
    obtain ⟨sa, hsa, rfl⟩ := ha
    obtain ⟨h1, h2, h3⟩ := h.2 sa hsa
    refine ⟨h1, wfparams_of ss sa.params h2, ?_⟩
    simp only [SAction.action]
    cases hr : sa.ret with
    | none => simp
    | some t =>
      rw [hr] at h3
      simp only [Option.map_some]
      exact ⟨toIT_wf2 ss t h3.1 h3.2.1, h3.2.2⟩

theorem scope_of_blocks : (bs : List SBlock) →
    scopeOfDecls ((bs.map SBlock.block).map Block.decl) = scopeOf (bs.map SBlock.entry)
  | [] => rfl
  | .itf n as :: r => by
    simp only [List.map, SBlock.block, Block.decl, scopeOfDecls, scopeOf, SBlock.entry, SEntry.erase]
    exact congrArg _ (scope_of_blocks r)
  | .struct n ms :: r => by
    simp only [List.map, SBlock.block, Block.decl, scopeOfDecls, scopeOf, SBlock.entry, SEntry.erase]
    exact congrArg _ (scope_of_blocks r)

theorem member_resolves (ss : List SEntry) : (ms : List (Bytes × Sig.Ty)) → MembersOk ss ms → ∀ p ∈ ms,
    resolve (scopeOf ss) (toIT p.2) = some (Sig.print p.2)
  | [], _, p, hp => by simp at hp
  | (f, t) :: r, h, p, hp => by
    simp only [MembersOk] at h
    rcases List.mem_cons.mp hp with rfl | hp
    · exact resolve_declared ss t h.2.1
    · exact member_resolves ss r h.2.2.2 p hp

/-- **The IDL text of a meta-object is read back as the same meta-object.**  A package: interface
    blocks with their methods, signals and properties (identifiers as names; parameter and returned
    types of the signature grammar, any nesting, structs shared between actions) and the struct
    blocks of the structs they use.  `ParsePackage` accepts the text `GenerateIDL` writes and yields
    the same declarations in the same order — every action with its kind, name, uid and parameter
    names — and in the scope it builds, the type of every parameter and every returned value
    stands for the signature it had in the meta-object, struct and field names included. -/
theorem meta_object_roundtrip (name : Bytes) (hn : IsPkgName name) (bs : List SBlock)
    (h : ∀ b ∈ bs, SBlockOk (bs.map SBlock.entry) b) :
    ∃ ds, parsePackage (printPkg name (bs.map SBlock.block)) = some (name, ds) ∧
      ds = (bs.map SBlock.block).map Block.decl ∧
      ∀ n as, SBlock.itf n as ∈ bs → ∀ a ∈ as,
        (∀ p ∈ a.params, resolve (scopeOfDecls ds) (toIT p.2) = some (Sig.print p.2)) ∧
        (∀ t, a.ret = some t → resolve (scopeOfDecls ds) (toIT t) = some (Sig.print t)) := by
  refine ⟨_, parsePackage_printPkg name hn (bs.map SBlock.block) ?_, rfl, ?_⟩
  · intro b hb
    simp only [List.mem_map] at hb
    obtain ⟨sb, hsb, rfl⟩ := hb
    exact wfblock0_of _ sb (h sb hsb)
  · intro n as hmem a ha
    rw [scope_of_blocks bs]
    have hb := h _ hmem
    simp only [SBlockOk] at hb
    obtain ⟨_, hps, hr⟩ := hb.2 a ha
    refine ⟨member_resolves _ a.params hps, ?_⟩
    intro t ht
    rw [ht] at hr
    exact resolve_declared _ t hr.1

/-- the hypotheses are met: an interface with a method that takes a struct (which contains another
    struct) and returns a list, and the two struct blocks -/
def exQ : Sig.Ty := .struct [81] [([115], .basic 115)]
def exP : Sig.Ty := .struct [80] [([120], .basic 105), ([113], exQ)]
def exPackage : List SBlock :=
  [.itf [73] [⟨.fn, [102], [([97], exP)], some (.list (.basic 105)), 100⟩],
   .struct [80] [([120], .basic 105), ([113], exQ)],
   .struct [81] [([115], .basic 115)]]

example : ∀ b ∈ exPackage, SBlockOk (exPackage.map SBlock.entry) b := by
  have id1 : ∀ c : UInt8, isAlphaU c = true → IsIdent [c] := fun c hc => ⟨c, [], rfl, hc, by intro x hx; cases hx⟩
  have nm1 : ∀ c : UInt8, isAlphaU c = true → [c] ∉ keywords → IsName [c] := fun c hc hk => ⟨c, [], rfl, hc, (by intro x hx; cases hx), hk⟩
  have dQ : Declared (exPackage.map SBlock.entry) exQ := by
    simp only [exQ, Declared, DeclaredM, and_true]
    exact ⟨⟨2, by rfl, by rfl⟩, by decide⟩
  have dP : Declared (exPackage.map SBlock.entry) exP := by
    simp only [exP, Declared, DeclaredM, and_true]
    exact ⟨⟨1, by rfl, by rfl⟩, by decide, dQ⟩
  intro b hb
  simp only [exPackage, List.mem_cons, List.mem_nil_iff, or_false] at hb
  rcases hb with rfl | rfl | rfl
  · refine ⟨id1 73 (by decide), ?_⟩
    intro a ha
    simp only [List.mem_cons, List.mem_nil_iff, or_false] at ha
    subst ha
    refine ⟨id1 102 (by decide), ⟨id1 97 (by decide), dP, nm1 80 (by decide) (by decide), trivial⟩, ?_⟩
    exact ⟨by simp only [Declared]; decide, by simp only [NamesOk], rfl⟩
  · exact ⟨id1 80 (by decide), id1 120 (by decide), by simp only [Declared]; decide, by simp only [NamesOk],
      id1 113 (by decide), dQ, nm1 81 (by decide) (by decide), trivial⟩
  · exact ⟨id1 81 (by decide), id1 115 (by decide), by simp only [Declared]; decide, by simp only [NamesOk], trivial⟩

end QiVerif.C18
