/-
  C18, names clashing or not.  `Props/C18TypeSet.lean` shows that without name clashes `GenerateIDL` renames nothing and the
  text is read back with the same signatures.  Here the type set is followed whatever is in it already: a struct whose
  name is taken by something else is renamed (`ResolveCollision`), the lines are written with the new names, and the
  text is read back with the *layouts* the meta-objects had: kinds, action names and identifiers, parameter names, member
  names and member types survive; struct names need not (the listed finding).
-/
import QiVerif.Props.C18EndToEnd
set_option linter.unusedSimpArgs false
set_option linter.unusedVariables false
namespace QiVerif.C18
open QiVerif QiVerif.Idl

/-! ### `ResolveCollision` when it does not give up -/

/-- the name `ResolveCollision` hands out when a hundred numbered names were all taken -/
def GiveUp (n : Bytes) : Prop := ∃ r, n = cannotRegister ++ r

theorem resolveLoop_ok (s : TSet) (orig sig : Bytes) : ∀ (fuel i : Nat) (name : Bytes),
    (name = orig ∨ ∃ j, name = numbered orig j) → ¬ GiveUp (resolveLoop s orig sig fuel i name) →
    (tsFind s (resolveLoop s orig sig fuel i name) = none ∨
      ∃ e, tsFind s (resolveLoop s orig sig fuel i name) = some e ∧ e.sig = sig) ∧
    (resolveLoop s orig sig fuel i name = orig ∨ ∃ j, resolveLoop s orig sig fuel i name = numbered orig j) := by
  intro fuel
  induction fuel with
  | zero => intro i name _ hg; exact absurd ⟨orig, rfl⟩ hg
  | succ f ih =>
    intro i name hname hg
    cases hf : tsFind s name with
    | none =>
      have hres : resolveLoop s orig sig (f + 1) i name = name := by simp [resolveLoop, hf]
      rw [hres]; exact ⟨Or.inl hf, hname⟩
    | some e =>
      by_cases hs : (e.sig == sig) = true
      · have hres : resolveLoop s orig sig (f + 1) i name = name := by simp [resolveLoop, hf, hs]
        rw [hres]; exact ⟨Or.inr ⟨e, hf, by simpa using hs⟩, hname⟩
      · have hs' : (e.sig == sig) = false := by simpa using hs
        have hres : resolveLoop s orig sig (f + 1) i name = resolveLoop s orig sig f (i + 1) (numbered orig i) := by
          simp [resolveLoop, hf, hs']
        rw [hres] at hg ⊢
        exact ih (i + 1) (numbered orig i) (Or.inr ⟨i, rfl⟩) hg

theorem resolve_ok (s : TSet) (orig sig : Bytes) (hg : ¬ GiveUp (resolveCollision s orig sig)) :
    (tsFind s (resolveCollision s orig sig) = none ∨
      ∃ e, tsFind s (resolveCollision s orig sig) = some e ∧ e.sig = sig) ∧
    (resolveCollision s orig sig = orig ∨ ∃ j, resolveCollision s orig sig = numbered orig j) :=
  resolveLoop_ok s orig sig 100 0 orig (Or.inl rfl) hg

/-! ### registering only appends -/

mutual
theorem reg_prefix : (t : Sig.Ty) → (s : TSet) → ∃ l, (reg s t).1 = s ++ l
  | .basic _, s => ⟨[], by simp [reg]⟩
  | .list t, s => by simp only [reg]; exact reg_prefix t s
  | .map k v, s => by
    simp only [reg]
    obtain ⟨l1, h1⟩ := reg_prefix k s
    obtain ⟨l2, h2⟩ := reg_prefix v (reg s k).1
    exact ⟨l1 ++ l2, by rw [h2, h1, List.append_assoc]⟩
  | .tuple ts, s => by simp only [reg]; exact regL_prefix ts s
  | .struct n ms, s => by
    simp only [reg]
    obtain ⟨l, h⟩ := regM_prefix ms s
    split
    · exact ⟨l ++ [_], by rw [h, List.append_assoc]⟩
    · exact ⟨l, h⟩
theorem regL_prefix : (ts : List Sig.Ty) → (s : TSet) → ∃ l, (regL s ts).1 = s ++ l
  | [], s => ⟨[], by simp [regL]⟩
  | t :: r, s => by
    simp only [regL]
    obtain ⟨l1, h1⟩ := reg_prefix t s
    obtain ⟨l2, h2⟩ := regL_prefix r (reg s t).1
    exact ⟨l1 ++ l2, by rw [h2, h1, List.append_assoc]⟩
theorem regM_prefix : (ms : List (Bytes × Sig.Ty)) → (s : TSet) → ∃ l, (regM s ms).1 = s ++ l
  | [], s => ⟨[], by simp [regM]⟩
  | (_, t) :: r, s => by
    simp only [regM]
    obtain ⟨l1, h1⟩ := reg_prefix t s
    obtain ⟨l2, h2⟩ := regM_prefix r (reg s t).1
    exact ⟨l1 ++ l2, by rw [h2, h1, List.append_assoc]⟩
end

/-- what holds of every entry of a set holds of every entry of a set it extends by appending -/
theorem sub_of_prefix {s s' : TSet} (h : ∃ l, s' = s ++ l) : ∀ e ∈ s, e ∈ s' := by
  obtain ⟨l, rfl⟩ := h; intro e he; exact List.mem_append_left l he

/-! ### the types and the sets the general statement is about -/

mutual
/-- a type of the signature grammar whose struct names are names of the IDL (and of the grammar: a letter first) and
    whose member names are identifiers of both -/
def TyG : Sig.Ty → Prop
  | .basic c => c ∈ Sig.basicLetters
  | .list t => TyG t
  | .map k v => TyG k ∧ TyG v
  | .tuple ts => TyGL ts
  | .struct n ms => IsName n ∧ C09.IsIdent n ∧ TyGM ms
def TyGL : List Sig.Ty → Prop
  | [] => True
  | t :: r => TyG t ∧ TyGL r
def TyGM : List (Bytes × Sig.Ty) → Prop
  | [] => True
  | (f, t) :: r => IsIdent f ∧ C09.IsIdent f ∧ TyG t ∧ TyGM r
end

mutual
/-- the layout of a type: the names of its structs dropped, everything else kept (member names included) -/
def erase : Sig.Ty → Sig.Ty
  | .basic c => .basic c
  | .list t => .list (erase t)
  | .map k v => .map (erase k) (erase v)
  | .tuple ts => .tuple (eraseL ts)
  | .struct _ ms => .struct [] (eraseM ms)
def eraseL : List Sig.Ty → List Sig.Ty
  | [] => []
  | t :: r => erase t :: eraseL r
def eraseM : List (Bytes × Sig.Ty) → List (Bytes × Sig.Ty)
  | [] => []
  | (f, t) :: r => (f, erase t) :: eraseM r
end

mutual
theorem wf_of_tyG : (t : Sig.Ty) → TyG t → C09.WF t
  | .basic c, h => by simp only [TyG] at h; simp only [C09.WF]; exact h
  | .list t, h => by simp only [TyG] at h; simp only [C09.WF]; exact wf_of_tyG t h
  | .map k v, h => by simp only [TyG] at h; simp only [C09.WF]; exact ⟨wf_of_tyG k h.1, wf_of_tyG v h.2⟩
  | .tuple ts, h => by simp only [TyG] at h; simp only [C09.WF]; exact wfL_of_tyG ts h
  | .struct n ms, h => by
    simp only [TyG] at h; simp only [C09.WF]; exact ⟨Or.inl h.2.1, wfM_of_tyG ms h.2.2⟩
theorem wfL_of_tyG : (ts : List Sig.Ty) → TyGL ts → C09.WFList ts
  | [], _ => by simp [C09.WFList]
  | t :: r, h => by simp only [TyGL] at h; simp only [C09.WFList]; exact ⟨wf_of_tyG t h.1, wfL_of_tyG r h.2⟩
theorem wfM_of_tyG : (ms : List (Bytes × Sig.Ty)) → TyGM ms → C09.WFMembers ms
  | [], _ => by simp [C09.WFMembers]
  | (f, t) :: r, h => by
    simp only [TyGM] at h; simp only [C09.WFMembers]; exact ⟨h.2.1, wf_of_tyG t h.2.2.1, wfM_of_tyG r h.2.2.2⟩
end

/-! ### numbered names are names -/

theorem keywords_no_underscore : ∀ k ∈ keywords, (95 : UInt8) ∉ k := by decide

theorem numbered_isName (n : Bytes) (i : Nat) (h : IsName n) : IsName (numbered n i) := by
  obtain ⟨c, w, rfl, hc, hw, _⟩ := h
  refine ⟨c, w ++ [95] ++ digitsOf i, by simp [numbered], hc, ?_, ?_⟩
  · intro x hx
    simp only [List.mem_append, List.mem_cons, List.mem_nil_iff, or_false] at hx
    rcases hx with (hx | rfl) | hx
    · exact hw x hx
    · decide
    · exact isWord_digit x (digitsOf_digits i x hx)
  · intro hk
    exact keywords_no_underscore _ hk (by simp [numbered])

theorem numbered_ident9 (n : Bytes) (i : Nat) (h : C09.IsIdent n) : C09.IsIdent (numbered n i) := by
  obtain ⟨b, r, rfl, hb, hr⟩ := h
  refine ⟨b, r ++ [95] ++ digitsOf i, by simp [numbered], hb, ?_⟩
  intro x hx
  simp only [List.mem_append, List.mem_cons, List.mem_nil_iff, or_false] at hx
  rcases hx with (hx | rfl) | hx
  · exact hr x hx
  · decide
  · have := digitsOf_digits i x hx
    simp only [Peg.isIdentChar, Bool.or_eq_true]
    left; right
    simpa [Peg.isDigit, isDigit] using this

/-! ### a printed struct has no blank in it; the signature of an unresolved reference has -/

theorem word_ne_space (c : UInt8) (h : isWord c = true) : c ≠ 32 := by
  intro e; subst e; revert h; decide

theorem isName_no_space (n : Bytes) (h : IsName n) : (32 : UInt8) ∉ n := by
  obtain ⟨c, w, rfl, hc, hw, _⟩ := h
  intro hm
  rcases List.mem_cons.mp hm with e | hm
  · exact word_ne_space c (alpha_word c hc) e.symm
  · exact word_ne_space 32 (hw 32 hm) rfl

theorem isIdent_no_space (n : Bytes) (h : IsIdent n) : (32 : UInt8) ∉ n := by
  obtain ⟨c, w, rfl, hc, hw⟩ := h
  intro hm
  rcases List.mem_cons.mp hm with e | hm
  · exact word_ne_space c (alpha_word c hc) e.symm
  · exact word_ne_space 32 (hw 32 hm) rfl

theorem basic_no_space (c : UInt8) (h : c ∈ Sig.basicLetters) : c ≠ 32 := by
  intro e; subst e; revert h; decide

mutual
theorem print_no_space : (t : Sig.Ty) → TyG t → (32 : UInt8) ∉ Sig.print t
  | .basic c, h => by
    simp only [TyG] at h; simp only [Sig.print, List.mem_cons, List.mem_nil_iff, or_false]
    exact fun e => basic_no_space c h e.symm
  | .list t, h => by
    simp only [TyG] at h
    have := print_no_space t h
    simp only [Sig.print, List.mem_append, List.mem_cons, List.mem_nil_iff, or_false, not_or]
    exact ⟨⟨by decide, this⟩, by decide⟩
  | .map k v, h => by
    simp only [TyG] at h
    have h1 := print_no_space k h.1
    have h2 := print_no_space v h.2
    simp only [Sig.print, List.mem_append, List.mem_cons, List.mem_nil_iff, or_false, not_or]
    exact ⟨⟨⟨by decide, h1⟩, h2⟩, by decide⟩
  | .tuple ts, h => by
    simp only [TyG] at h
    have := printList_no_space ts h
    simp only [Sig.print, List.mem_append, List.mem_cons, List.mem_nil_iff, or_false, not_or]
    exact ⟨⟨by decide, this⟩, by decide⟩
  | .struct n ms, h => by
    simp only [TyG] at h
    obtain ⟨hn, _, hms⟩ := h
    have h1 := printMembers_no_space ms hms
    have h2 := memberNames_no_space ms hms
    have h3 := isName_no_space n hn
    rw [C09.print_struct]
    simp only [List.mem_append, List.mem_cons, List.mem_nil_iff, or_false, not_or]
    exact ⟨⟨⟨⟨⟨by decide, h1⟩, by decide, by decide⟩, h3⟩, h2⟩, by decide⟩
theorem printList_no_space : (ts : List Sig.Ty) → TyGL ts → (32 : UInt8) ∉ Sig.printList ts
  | [], _ => by simp [Sig.printList]
  | t :: r, h => by
    simp only [TyGL] at h
    simp only [Sig.printList, List.mem_append, not_or]
    exact ⟨print_no_space t h.1, printList_no_space r h.2⟩
theorem printMembers_no_space : (ms : List (Bytes × Sig.Ty)) → TyGM ms → (32 : UInt8) ∉ Sig.printMembers ms
  | [], _ => by simp [Sig.printMembers]
  | (f, t) :: r, h => by
    simp only [TyGM] at h
    simp only [Sig.printMembers, List.mem_append, not_or]
    exact ⟨print_no_space t h.2.2.1, printMembers_no_space r h.2.2.2⟩
theorem memberNames_no_space : (ms : List (Bytes × Sig.Ty)) → TyGM ms → (32 : UInt8) ∉ Sig.memberNames ms
  | [], _ => by simp [Sig.memberNames]
  | (f, t) :: r, h => by
    simp only [TyGM] at h
    simp only [Sig.memberNames, List.mem_append, List.mem_cons, List.mem_nil_iff, or_false, not_or]
    exact ⟨⟨by decide, isIdent_no_space f h.1⟩, memberNames_no_space r h.2.2.2⟩
end

theorem refSig_has_space (m : Bytes) : (32 : UInt8) ∈ refSig m := by
  simp [refSig, errSig, msgNotFound]

/-! ### the invariant of the type set, names clashing or not -/

/-- every entry is the one its name finds; a struct has a name, members of the class, and the structs of its
    members are in the set under their (present) names -/
def SetG (s : TSet) : Prop :=
  ∀ e ∈ s, tsFind s e.1 = some e ∧
    ∀ ms, e.2 = some ms → IsName e.1 ∧ C09.IsIdent e.1 ∧ TyGM ms ∧ RegisteredM s ms

theorem setG_nil : SetG [] := by intro e he; simp at he

theorem setG_append (s : TSet) (x : TEntry) (hs : SetG s) (hfree : tsFind s x.1 = none)
    (hx : ∀ ms, x.2 = some ms → IsName x.1 ∧ C09.IsIdent x.1 ∧ TyGM ms ∧ RegisteredM s ms) : SetG (s ++ [x]) := by
  intro e he
  rcases List.mem_append.mp he with he | he
  · obtain ⟨h1, h2⟩ := hs e he
    refine ⟨tsFind_append_some s e.1 x e h1, ?_⟩
    intro ms hms
    obtain ⟨a, b, c, d⟩ := h2 ms hms
    exact ⟨a, b, c, registeredM_ext ms _ _ (ext_append s x hfree) d⟩
  · simp only [List.mem_cons, List.mem_nil_iff, or_false] at he; subst he
    refine ⟨by rw [tsFind_append_none s e.1 e hfree]; simp, ?_⟩
    intro ms hms
    obtain ⟨a, b, c, d⟩ := hx ms hms
    exact ⟨a, b, c, registeredM_ext ms _ _ (ext_append s e hfree) d⟩

mutual
/-- **Registering a type, whatever is in the set already**: the set stays consistent, what was there stays findable,
    the type comes back with the names its structs have now, all of them registered — and with the layout it had. -/
theorem reg_gen : (t : Sig.Ty) → (s : TSet) → SetG s → TyG t → (∀ e ∈ (reg s t).1, ¬ GiveUp e.1) →
    SetG (reg s t).1 ∧ Ext s (reg s t).1 ∧ Registered (reg s t).1 (reg s t).2 ∧ TyG (reg s t).2 ∧
      erase (reg s t).2 = erase t
  | .basic c, s, hs, ht, _ => by
    simp only [reg, Registered]; exact ⟨hs, ext_refl s, trivial, ht, trivial⟩
  | .list t, s, hs, ht, hg => by
    simp only [TyG] at ht
    simp only [reg] at hg
    obtain ⟨h1, h2, h3, h4, h5⟩ := reg_gen t s hs ht hg
    simp only [reg, Registered, TyG, erase]
    exact ⟨h1, h2, h3, h4, by rw [h5]⟩
  | .map k v, s, hs, ht, hg => by
    simp only [TyG] at ht
    simp only [reg] at hg
    have hgk : ∀ e ∈ (reg s k).1, ¬ GiveUp e.1 := fun e he => hg e (sub_of_prefix (reg_prefix v _) e he)
    obtain ⟨k1, k2, k3, k4, k5⟩ := reg_gen k s hs ht.1 hgk
    obtain ⟨v1, v2, v3, v4, v5⟩ := reg_gen v (reg s k).1 k1 ht.2 hg
    simp only [reg, Registered, TyG, erase]
    exact ⟨v1, ext_trans _ _ _ k2 v2, ⟨registered_ext _ _ _ v2 k3, v3⟩, ⟨k4, v4⟩, by rw [k5, v5]⟩
  | .tuple ts, s, hs, ht, hg => by
    simp only [TyG] at ht
    simp only [reg] at hg
    obtain ⟨h1, h2, h3, h4, h5⟩ := regL_gen ts s hs ht hg
    simp only [reg, Registered, TyG, erase]
    exact ⟨h1, h2, h3, h4, by rw [h5]⟩
  | .struct n ms, s, hs, ht, hg => by
    simp only [TyG] at ht
    obtain ⟨hn, hn9, hms⟩ := ht
    -- the members first
    have hpre : ∃ l, (reg s (.struct n ms)).1 = (regM s ms).1 ++ l := by
      simp only [reg]; split
      · exact ⟨[_], rfl⟩
      · exact ⟨[], by simp⟩
    have hgm : ∀ e ∈ (regM s ms).1, ¬ GiveUp e.1 := fun e he => hg e (sub_of_prefix hpre e he)
    obtain ⟨m1, m2, m3, m4, m5⟩ := regM_gen ms s hs hms hgm
    -- the name the struct gets is in the set afterwards: it is no give-up name
    have hng : ¬ GiveUp (resolveCollision (regM s ms).1 n (Sig.print (.struct n (regM s ms).2))) := by
      cases hf : tsFind (regM s ms).1 (resolveCollision (regM s ms).1 n (Sig.print (.struct n (regM s ms).2))) with
      | none =>
        have : (resolveCollision (regM s ms).1 n (Sig.print (.struct n (regM s ms).2)), some (regM s ms).2) ∈
            (reg s (.struct n ms)).1 := by simp [reg, hf]
        exact hg _ this
      | some e =>
        obtain ⟨hmem, hname⟩ := tsFind_mem _ _ _ hf
        have := hgm e hmem
        rw [hname] at this; exact this
    obtain ⟨hcase, hshape⟩ := resolve_ok _ _ _ hng
    have hn' : IsName (resolveCollision (regM s ms).1 n (Sig.print (.struct n (regM s ms).2))) ∧
        C09.IsIdent (resolveCollision (regM s ms).1 n (Sig.print (.struct n (regM s ms).2))) := by
      rcases hshape with h | ⟨j, h⟩
      · rw [h]; exact ⟨hn, hn9⟩
      · rw [h]; exact ⟨numbered_isName n j hn, numbered_ident9 n j hn9⟩
    simp only [reg]
    generalize hN : resolveCollision (regM s ms).1 n (Sig.print (.struct n (regM s ms).2)) = n' at *
    rcases hcase with hfree | ⟨e, hfound, hsig⟩
    · -- the name is free: a new entry
      simp only [hfree]
      have hnew : SetG ((regM s ms).1 ++ [(n', some (regM s ms).2)]) :=
        setG_append _ (n', some (regM s ms).2) m1 hfree (fun ms' h' => by
          simp only [Option.some.injEq] at h'; subst h'; exact ⟨hn'.1, hn'.2, m4, m3⟩)
      refine ⟨hnew, ext_trans _ _ _ m2 (ext_append _ (n', some (regM s ms).2) hfree), ?_, ⟨hn'.1, hn'.2, m4⟩, ?_⟩
      · simp only [Registered]
        refine ⟨by rw [tsFind_append_none _ _ _ hfree]; simp, ?_⟩
        exact registeredM_ext _ _ _ (ext_append _ (n', some (regM s ms).2) hfree) m3
      · simp only [erase]; rw [m5]
    · -- the name is taken by an entry with the signature of this struct: it is this struct
      simp only [hfound]
      obtain ⟨hmem, hname⟩ := tsFind_mem _ _ _ hfound
      obtain ⟨en, ee⟩ := e
      simp only at hname; subst hname
      cases ee with
      | none =>
        exfalso
        have h32 : (32 : UInt8) ∈ Sig.print (.struct n (regM s ms).2) := by
          rw [← hsig]; exact refSig_has_space en
        exact print_no_space (.struct n (regM s ms).2) (by simp only [TyG]; exact ⟨hn, hn9, m4⟩) h32
      | some ms' =>
        obtain ⟨_, hent⟩ := m1 _ hmem
        obtain ⟨e1, e2, e3, e4⟩ := hent ms' rfl
        have hinj := C09.print_injective (.struct en ms') (.struct n (regM s ms).2)
          (wf_of_tyG _ (by simp only [TyG]; exact ⟨e1, e2, e3⟩))
          (wf_of_tyG _ (by simp only [TyG]; exact ⟨hn, hn9, m4⟩)) hsig
        injection hinj with hen hms'
        subst hen; subst hms'
        refine ⟨m1, m2, ?_, ⟨hn, hn9, m4⟩, ?_⟩
        · simp only [Registered]; exact ⟨hfound, m3⟩
        · simp only [erase]; rw [m5]
theorem regL_gen : (ts : List Sig.Ty) → (s : TSet) → SetG s → TyGL ts → (∀ e ∈ (regL s ts).1, ¬ GiveUp e.1) →
    SetG (regL s ts).1 ∧ Ext s (regL s ts).1 ∧ RegisteredL (regL s ts).1 (regL s ts).2 ∧ TyGL (regL s ts).2 ∧
      eraseL (regL s ts).2 = eraseL ts
  | [], s, hs, _, _ => by simp only [regL, RegisteredL, TyGL]; exact ⟨hs, ext_refl s, trivial, trivial, trivial⟩
  | t :: r, s, hs, ht, hg => by
    simp only [TyGL] at ht
    simp only [regL] at hg
    have hgt : ∀ e ∈ (reg s t).1, ¬ GiveUp e.1 := fun e he => hg e (sub_of_prefix (regL_prefix r _) e he)
    obtain ⟨t1, t2, t3, t4, t5⟩ := reg_gen t s hs ht.1 hgt
    obtain ⟨r1, r2, r3, r4, r5⟩ := regL_gen r (reg s t).1 t1 ht.2 hg
    simp only [regL, RegisteredL, TyGL, eraseL]
    exact ⟨r1, ext_trans _ _ _ t2 r2, ⟨registered_ext _ _ _ r2 t3, r3⟩, ⟨t4, r4⟩, by rw [t5, r5]⟩
theorem regM_gen : (ms : List (Bytes × Sig.Ty)) → (s : TSet) → SetG s → TyGM ms → (∀ e ∈ (regM s ms).1, ¬ GiveUp e.1) →
    SetG (regM s ms).1 ∧ Ext s (regM s ms).1 ∧ RegisteredM (regM s ms).1 (regM s ms).2 ∧ TyGM (regM s ms).2 ∧
      eraseM (regM s ms).2 = eraseM ms
  | [], s, hs, _, _ => by simp only [regM, RegisteredM, TyGM]; exact ⟨hs, ext_refl s, trivial, trivial, trivial⟩
  | (f, t) :: r, s, hs, ht, hg => by
    simp only [TyGM] at ht
    simp only [regM] at hg
    have hgt : ∀ e ∈ (reg s t).1, ¬ GiveUp e.1 := fun e he => hg e (sub_of_prefix (regM_prefix r _) e he)
    obtain ⟨t1, t2, t3, t4, t5⟩ := reg_gen t s hs ht.2.2.1 hgt
    obtain ⟨r1, r2, r3, r4, r5⟩ := regM_gen r (reg s t).1 t1 ht.2.2.2 hg
    simp only [regM, RegisteredM, TyGM, eraseM]
    exact ⟨r1, ext_trans _ _ _ t2 r2, ⟨registered_ext _ _ _ r2 t3, r3⟩, ⟨ht.1, ht.2.1, t4, r4⟩, by rw [t5, r5]⟩
end

/-! ### actions and interfaces -/

/-- an action of the class, names clashing or not -/
def ActionG (a : SAction) : Prop :=
  IsIdent a.name ∧ TyGM a.params ∧ (match a.ret with | some t => TyG t ∧ a.kind = .fn | none => True)

/-- the same action up to the names of its structs: kind, name, identifier, the names of the parameters and the
    layouts of all its types -/
def ActSim (a a' : SAction) : Prop :=
  a'.kind = a.kind ∧ a'.name = a.name ∧ a'.uid = a.uid ∧ eraseM a'.params = eraseM a.params ∧
    a'.ret.map erase = a.ret.map erase

inductive AllSim {α : Type} (R : α → α → Prop) : List α → List α → Prop
  | nil : AllSim R [] []
  | cons {a b : α} {as bs : List α} : R a b → AllSim R as bs → AllSim R (a :: as) (b :: bs)

theorem regAction_prefix (s : TSet) (a : SAction) : ∃ l, (regAction s a).1 = s ++ l := by
  unfold regAction
  cases a.ret with
  | none => exact regM_prefix _ s
  | some t =>
    obtain ⟨l1, h1⟩ := regM_prefix a.params s
    obtain ⟨l2, h2⟩ := reg_prefix t (regM s a.params).1
    exact ⟨l1 ++ l2, by simp only; rw [h2, h1, List.append_assoc]⟩

theorem regActions_prefix : (as : List SAction) → (s : TSet) → ∃ l, (regActions s as).1 = s ++ l
  | [], s => ⟨[], by simp [regActions]⟩
  | a :: r, s => by
    simp only [regActions]
    obtain ⟨l1, h1⟩ := regAction_prefix s a
    obtain ⟨l2, h2⟩ := regActions_prefix r (regAction s a).1
    exact ⟨l1 ++ l2, by rw [h2, h1, List.append_assoc]⟩

theorem regAction_gen (s : TSet) (a : SAction) (hs : SetG s) (ha : ActionG a)
    (hg : ∀ e ∈ (regAction s a).1, ¬ GiveUp e.1) :
    SetG (regAction s a).1 ∧ Ext s (regAction s a).1 ∧ ActionReg (regAction s a).1 (regAction s a).2 ∧
      ActionG (regAction s a).2 ∧ ActSim a (regAction s a).2 := by
  obtain ⟨hid, hp, hr⟩ := ha
  unfold regAction at hg ⊢
  cases hret : a.ret with
  | none =>
    simp only [hret] at hg ⊢
    obtain ⟨p1, p2, p3, p4, p5⟩ := regM_gen a.params s hs hp hg
    exact ⟨p1, p2, ⟨p3, by simp [hret]⟩, ⟨hid, p4, by simp [hret]⟩, rfl, rfl, rfl, p5, by simp [hret]⟩
  | some t =>
    simp only [hret] at hg hr ⊢
    have hgp : ∀ e ∈ (regM s a.params).1, ¬ GiveUp e.1 := fun e he => hg e (sub_of_prefix (reg_prefix t _) e he)
    obtain ⟨p1, p2, p3, p4, p5⟩ := regM_gen a.params s hs hp hgp
    obtain ⟨r1, r2, r3, r4, r5⟩ := reg_gen t (regM s a.params).1 p1 hr.1 hg
    exact ⟨r1, ext_trans _ _ _ p2 r2, ⟨registeredM_ext _ _ _ r2 p3, r3⟩, ⟨hid, p4, r4, hr.2⟩, rfl, rfl, rfl, p5,
      by simp [hret, r5]⟩

theorem regActions_gen : (as : List SAction) → (s : TSet) → SetG s → (∀ a ∈ as, ActionG a) →
    (∀ e ∈ (regActions s as).1, ¬ GiveUp e.1) →
    SetG (regActions s as).1 ∧ Ext s (regActions s as).1 ∧
      (∀ a' ∈ (regActions s as).2, ActionReg (regActions s as).1 a' ∧ ActionG a') ∧ AllSim ActSim as (regActions s as).2
  | [], s, hs, _, _ => by simp only [regActions]; exact ⟨hs, ext_refl s, by simp, AllSim.nil⟩
  | a :: r, s, hs, h, hg => by
    simp only [regActions] at hg ⊢
    have hga : ∀ e ∈ (regAction s a).1, ¬ GiveUp e.1 := fun e he => hg e (sub_of_prefix (regActions_prefix r _) e he)
    obtain ⟨a1, a2, a3, a4, a5⟩ := regAction_gen s a hs (h a (by simp)) hga
    obtain ⟨r1, r2, r3, r4⟩ := regActions_gen r (regAction s a).1 a1 (fun x hx => h x (by simp [hx])) hg
    refine ⟨r1, ext_trans _ _ _ a2 r2, ?_, AllSim.cons a5 r4⟩
    intro a' ha'
    rcases List.mem_cons.mp ha' with rfl | ha'
    · exact ⟨actionReg_ext _ _ _ r2 a3, a4⟩
    · exact r3 a' ha'

/-- no entry of a type set has the signature `o` the names of interfaces are resolved with -/
theorem sig_ne_o (e : TEntry) : e.sig ≠ [111] := by
  obtain ⟨n, ee⟩ := e
  cases ee with
  | none => simp [TEntry.sig, refSig, errSig]
  | some ms => simp only [TEntry.sig]; rw [C09.print_struct]; simp

theorem numbered_isIdent (n : Bytes) (i : Nat) (h : IsIdent n) : IsIdent (numbered n i) := by
  obtain ⟨c, w, rfl, hc, hw⟩ := h
  refine ⟨c, w ++ [95] ++ digitsOf i, by simp [numbered], hc, ?_⟩
  intro x hx
  simp only [List.mem_append, List.mem_cons, List.mem_nil_iff, or_false] at hx
  rcases hx with (hx | rfl) | hx
  · exact hw x hx
  · decide
  · exact isWord_digit x (digitsOf_digits i x hx)

/-- an interface of the class -/
def ItfG (i : SItf) : Prop := IsIdent i.name ∧ ∀ a ∈ i.actions, ActionG a

/-- the same interface up to its own name and the names of the structs: its actions, one by one -/
def ItfSim (i i' : SItf) : Prop := AllSim ActSim i.actions i'.actions

theorem genItfs_prefix : (is : List SItf) → (s : TSet) → ∃ l, (genItfs s is).1 = s ++ l
  | [], s => ⟨[], by simp [genItfs]⟩
  | i :: r, s => by
    simp only [genItfs]
    obtain ⟨l1, h1⟩ := regActions_prefix i.actions (s ++ [(resolveCollision s i.name [111], none)])
    obtain ⟨l2, h2⟩ := genItfs_prefix r (regActions (s ++ [(resolveCollision s i.name [111], none)]) i.actions).1
    exact ⟨[(resolveCollision s i.name [111], none)] ++ l1 ++ l2, by rw [h2, h1]; simp⟩

/-- **`GenerateIDL`'s loop, names clashing or not**: the set stays consistent; every interface written is in the set
    under the name it was written with; the structs of every action written are in the set under the names the action
    was written with; and the interfaces written are the interfaces given, up to names. -/
theorem genItfs_gen : (is : List SItf) → (s : TSet) → SetG s → (∀ i ∈ is, ItfG i) →
    (∀ e ∈ (genItfs s is).1, ¬ GiveUp e.1) →
    SetG (genItfs s is).1 ∧ Ext s (genItfs s is).1 ∧
      (∀ i' ∈ (genItfs s is).2, tsFind (genItfs s is).1 i'.name = some (i'.name, none) ∧ IsIdent i'.name ∧
        ∀ a' ∈ i'.actions, ActionReg (genItfs s is).1 a' ∧ ActionG a') ∧
      AllSim ItfSim is (genItfs s is).2 ∧
      (∀ e ∈ (genItfs s is).1, e.2 = none → e ∈ s ∨ ∃ i' ∈ (genItfs s is).2, i'.name = e.1)
  | [], s, hs, _, _ => by
    simp only [genItfs]; exact ⟨hs, ext_refl s, by simp, AllSim.nil, fun e he _ => Or.inl he⟩
  | i :: r, s, hs, h, hg => by
    simp only [genItfs] at hg ⊢
    obtain ⟨hid, hacts⟩ := h i (by simp)
    generalize hN : resolveCollision s i.name [111] = n' at *
    have hsub1 : ∀ e ∈ (regActions (s ++ [(n', none)]) i.actions).1, e ∈ (genItfs (regActions (s ++ [(n', none)]) i.actions).1 r).1 :=
      sub_of_prefix (genItfs_prefix r _)
    have hsub0 : ∀ e ∈ s ++ [(n', none)], e ∈ (regActions (s ++ [(n', none)]) i.actions).1 :=
      sub_of_prefix (regActions_prefix i.actions _)
    have hng : ¬ GiveUp n' := hg (n', none) (hsub1 _ (hsub0 _ (by simp)))
    rw [← hN] at hng
    obtain ⟨hcase, hshape⟩ := resolve_ok s i.name [111] hng
    rw [hN] at hcase hshape
    have hfree : tsFind s n' = none := by
      rcases hcase with h0 | ⟨e, _, hsig⟩
      · exact h0
      · exact absurd hsig (sig_ne_o e)
    have hidn : IsIdent n' := by
      rcases hshape with h0 | ⟨j, h0⟩
      · rw [h0]; exact hid
      · rw [h0]; exact numbered_isIdent i.name j hid
    have hs1 : SetG (s ++ [(n', none)]) := setG_append s (n', none) hs hfree (fun ms h' => by simp at h')
    have hga : ∀ e ∈ (regActions (s ++ [(n', none)]) i.actions).1, ¬ GiveUp e.1 := fun e he => hg e (hsub1 e he)
    obtain ⟨a1, a2, a3, a4⟩ := regActions_gen i.actions (s ++ [(n', none)]) hs1 hacts hga
    obtain ⟨r1, r2, r3, r4, r5⟩ := genItfs_gen r _ a1 (fun j hj => h j (by simp [hj])) hg
    have hext : Ext s (genItfs (regActions (s ++ [(n', none)]) i.actions).1 r).1 :=
      ext_trans _ _ _ (ext_trans _ _ _ (ext_append s (n', none) hfree) a2) r2
    refine ⟨r1, hext, ?_, AllSim.cons a4 r4, ?_⟩
    · intro i' hi'
      rcases List.mem_cons.mp hi' with rfl | hi'
      · refine ⟨?_, hidn, ?_⟩
        · apply r2; apply a2
          show tsFind (s ++ [(n', none)]) n' = some (n', none)
          rw [tsFind_append_none s n' (n', none) hfree]; simp
        · intro a' ha'
          obtain ⟨x1, x2⟩ := a3 a' ha'
          exact ⟨actionReg_ext _ _ _ r2 x1, x2⟩
      · exact r3 i' hi'
    · intro e he hnone
      rcases r5 e he hnone with hold | ⟨i', hi', hn'⟩
      · rcases regActions_adds_structs _ _ e hold with hold' | hst
        · rcases List.mem_append.mp hold' with hs0 | hnew
          · exact Or.inl hs0
          · simp only [List.mem_cons, List.mem_nil_iff, or_false] at hnew; subst hnew
            exact Or.inr ⟨⟨n', (regActions (s ++ [(n', none)]) i.actions).2⟩, by simp, rfl⟩
        · rw [hnone] at hst; simp at hst
      · exact Or.inr ⟨i', by simp [hi'], hn'⟩

/-! ### from the final set to the scope of the text -/

/-- the structs a set holds, by name -/
def famOf (s : TSet) : Bytes → Option (List (Bytes × Sig.Ty)) := fun n =>
  match tsFind s n with
  | some (_, some ms) => some ms
  | _ => none

mutual
theorem inFam_of_registered (s : TSet) (I : List Bytes)
    (hdis : ∀ n ms, tsFind s n = some (n, some ms) → n ∉ I) : (t : Sig.Ty) → TyG t → Registered s t → InFam (famOf s) I t
  | .basic c, h, _ => by simp only [TyG] at h; simp only [InFam]; exact h
  | .list t, h, hr => by
    simp only [TyG] at h; simp only [Registered] at hr; simp only [InFam]
    exact inFam_of_registered s I hdis t h hr
  | .map k v, h, hr => by
    simp only [TyG] at h; simp only [Registered] at hr; simp only [InFam]
    exact ⟨inFam_of_registered s I hdis k h.1 hr.1, inFam_of_registered s I hdis v h.2 hr.2⟩
  | .tuple ts, h, hr => by
    simp only [TyG] at h; simp only [Registered] at hr; simp only [InFam]
    exact inFamL_of_registered s I hdis ts h hr
  | .struct n ms, h, hr => by
    simp only [TyG] at h; simp only [Registered] at hr; simp only [InFam]
    exact ⟨by simp [famOf, hr.1], hdis n ms hr.1, h.1, inFamM_of_registered s I hdis ms h.2.2 hr.2⟩
theorem inFamL_of_registered (s : TSet) (I : List Bytes)
    (hdis : ∀ n ms, tsFind s n = some (n, some ms) → n ∉ I) : (ts : List Sig.Ty) → TyGL ts → RegisteredL s ts →
    InFamL (famOf s) I ts
  | [], _, _ => by simp [InFamL]
  | t :: r, h, hr => by
    simp only [TyGL] at h; simp only [RegisteredL] at hr; simp only [InFamL]
    exact ⟨inFam_of_registered s I hdis t h.1 hr.1, inFamL_of_registered s I hdis r h.2 hr.2⟩
theorem inFamM_of_registered (s : TSet) (I : List Bytes)
    (hdis : ∀ n ms, tsFind s n = some (n, some ms) → n ∉ I) : (ms : List (Bytes × Sig.Ty)) → TyGM ms → RegisteredM s ms →
    InFamM (famOf s) I ms
  | [], _, _ => by simp [InFamM]
  | (f, t) :: r, h, hr => by
    simp only [TyGM] at h; simp only [RegisteredM] at hr; simp only [InFamM]
    exact ⟨h.1, inFam_of_registered s I hdis t h.2.2.1 hr.1, inFamM_of_registered s I hdis r h.2.2.2 hr.2⟩
end

/-- **What `GenerateIDL` writes is read back with the layouts of the meta-objects, whatever names clash.**  The
    interfaces, their actions and the types of their parameters and results are of the class (names are identifiers,
    types of the signature grammar); no name had to be given up after a hundred numbered attempts.  Then `ParsePackage`
    accepts the text; the interfaces it was written from — the given ones with the names their structs got in the
    type set — agree with the given ones in every action's kind, name, identifier, parameter names and in the layout
    of every type; and in the scope of the text every parameter and every returned value of the written actions
    stands for exactly the signature it was written with.  Struct *names* need not survive (two different structs of
    one name, a struct named like an interface: the IDL has one name space), everything else does. -/
theorem generateIDL_layout (name : Bytes) (hn : IsPkgName name) (itfs : List SItf) (h : ∀ i ∈ itfs, ItfG i)
    (hg : ∀ e ∈ (genItfs [] itfs).1, ¬ GiveUp e.1) :
    ∃ ds, parsePackage (generateIDL name itfs) = some (name, ds) ∧
      AllSim ItfSim itfs (genItfs [] itfs).2 ∧
      ∀ i' ∈ (genItfs [] itfs).2, ∀ a' ∈ i'.actions,
        (∀ p ∈ a'.params, resolve (scopeOfDecls ds) (toIT p.2) = some (Sig.print p.2)) ∧
        (∀ t, a'.ret = some t → resolve (scopeOfDecls ds) (toIT t) = some (Sig.print t)) := by
  obtain ⟨g1, _, g3, g4, g5⟩ := genItfs_gen itfs [] setG_nil h hg
  generalize hS : (genItfs [] itfs).1 = S at *
  generalize hI : (genItfs [] itfs).2 = is' at *
  have hdis : ∀ n ms, tsFind S n = some (n, some ms) → n ∉ is'.map (·.name) := by
    intro n ms hf hmem
    simp only [List.mem_map] at hmem
    obtain ⟨i', hi', rfl⟩ := hmem
    have := (g3 i' hi').1
    rw [hf] at this; simp at this
  have hfin : Final (is'.map (·.name)) is' S := by
    refine ⟨fun i hi => by simp only [List.mem_map]; exact ⟨i, hi, rfl⟩, ?_⟩
    intro e he hnone
    rcases g5 e he hnone with hnil | ⟨i', hi', hn'⟩
    · simp at hnil
    · simp only [List.mem_map]; exact ⟨i', hi', hn'⟩
  have hblocks : blocksOf itfs = itfBlocks is' ++ structBlocks S := by
    unfold blocksOf; simp only [hS, hI]
  have hok : ∀ b ∈ blocksOf itfs, SBlockOk ((blocksOf itfs).map SBlock.entry) b := by
    rw [hblocks, entries_of_blocks]
    intro b hb
    rcases List.mem_append.mp hb with hb | hb
    · simp only [itfBlocks, List.mem_map] at hb
      obtain ⟨i', hi', rfl⟩ := hb
      obtain ⟨_, hid, hacts⟩ := g3 i' hi'
      refine ⟨hid, ?_⟩
      intro a ha
      obtain ⟨⟨rp, rr⟩, han, hap, har⟩ := hacts a ha
      refine ⟨han, membersOk_of (famOf S) _ is' S hfin a.params (inFamM_of_registered S _ hdis a.params hap rp) rp, ?_⟩
      cases hret : a.ret with
      | none => trivial
      | some t =>
        rw [hret] at har rr
        have hfam := inFam_of_registered S _ hdis t har.1 rr
        exact ⟨declared_of_registered (famOf S) _ is' S hfin t hfam rr, namesOk_of_inFam (famOf S) _ t hfam, har.2⟩
    · obtain ⟨n, ms, rfl, hmem⟩ := mem_structBlocks _ b hb
      obtain ⟨_, hent⟩ := g1 _ hmem
      obtain ⟨e1, _, e3, e4⟩ := hent ms rfl
      exact ⟨isIdent_of_isName n e1, membersOk_of (famOf S) _ is' S hfin ms (inFamM_of_registered S _ hdis ms e3 e4) e4⟩
  obtain ⟨ds, hp, _, hres⟩ := meta_object_roundtrip name hn (blocksOf itfs) hok
  refine ⟨ds, hp, g4, ?_⟩
  intro i' hi' a' ha'
  have hmem : SBlock.itf i'.name i'.actions ∈ blocksOf itfs := by
    rw [hblocks]; apply List.mem_append_left
    simp only [itfBlocks, List.mem_map]; exact ⟨i', hi', rfl⟩
  exact hres i'.name i'.actions hmem a' ha'

/-! ### non-vacuity: two different structs called `P`, and an interface called `P` as well -/

def clashItfs : List SItf :=
  [⟨[80], [⟨.fn, [102], [([97], .struct [80] [([120], .basic 105)]), ([98], .list (.struct [80] [([121], .basic 115)]))],
      none, 100⟩]⟩]

example : ((genItfs [] clashItfs).2.map (fun i => i.actions.map (fun a => a.params.map (fun p => Sig.print p.2)))) =
    [[[[40, 105, 41, 60, 80, 95, 48, 44, 120, 62], [91, 40, 115, 41, 60, 80, 95, 49, 44, 121, 62, 93]]]] := by
  simp [clashItfs, genItfs, regActions, regAction, regM, reg, resolveCollision, resolveLoop, tsFind, TEntry.sig, refSig, errSig,
    msgNotFound, Sig.print, Sig.printMembers, Sig.memberNames, numbered, digitsOf, Nat.toDigits, Nat.toDigitsCore,
    Nat.digitChar]

end QiVerif.C18
