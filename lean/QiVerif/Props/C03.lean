/-
  C03 — all serializers agree with each other and with the documented layout.
  (Helper lemmas: Lemmas/Codec.lean, Lemmas/Value.lean, Lemmas/Decode.lean.)
-/
import QiVerif.Lemmas.Decode
set_option linter.unusedSimpArgs false
namespace QiVerif.C03
open QiVerif QiVerif.Sig QiVerif.Codec QiVerif.Value QiVerif.Decode QiVerif.CodecL QiVerif.ValueL QiVerif.DecodeL

/-- **The reflection-based encoder produces exactly the documented serialization** (`D`, written
    from doc/about-qimessaging.md: little-endian fixed-width scalars incl. 8 and 16 bits, one-byte
    booleans, length-prefixed strings/lists/maps, concatenated struct and tuple fields,
    signature-prefixed dynamic values), for every signature and every value of that type —
    given that every kind has a case in `qiEncoder.value` (`codecKinds`, tied to the source). -/
theorem reflect_encoder_is_doc (t : Ty) (v : TVal) (ht : Typed t v) : encR codecKinds t v = D t v :=
  encR_eq_D v t ht

/-- a kind without a case is silently skipped: with `Int8` missing the encoder is wrong
    (the state of the pinned tree, F-C03-1) -/
theorem missing_case_breaks_it :
    encR (codecKinds.filter (· ≠ "Int8")) (.tuple [.basic 99, .basic 105]) (.tuple [.num 1, .num 2])
      ≠ D (.tuple [.basic 99, .basic 105]) (.tuple [.num 1, .num 2]) := by decide

/-- **The signature-driven reader accepts exactly those bytes and returns them unchanged.** -/
theorem reader_accepts_doc (t : Ty) (v : TVal) (ht : Typed t v) (f : Nat) (hf : vneed v ≤ f) (rest : Bytes) :
    readT f t (D t v ++ rest) = .ok (D t v, rest) :=
  rt v t ht f rest hf

/-- **The reflection-based decoder recovers the original value** from them (lists and maps within
    the decoder's size limit of 4096 entries). -/
theorem reflect_decoder_recovers (t : Ty) (v : TVal) (ht : Typed t v) (hs : Small v) (f : Nat) (hf : vneed v ≤ f)
    (rest : Bytes) : decT reflectCfg f t (D t v ++ rest) = .ok (toD t v, rest) :=
  dt reflectCfg (Or.inr rfl) v t ht hs f rest hf

/-- the generated `Unmarshal` code recovers it as well (used by C05) -/
theorem generated_decoder_recovers (t : Ty) (v : TVal) (ht : Typed t v) (hs : Small v) (f : Nat) (hf : vneed v ≤ f)
    (rest : Bytes) : decT generatedCfg f t (D t v ++ rest) = .ok (toD t v, rest) :=
  dt generatedCfg (Or.inl rfl) v t ht hs f rest hf

/-- **All three agree**: what the reflection encoder writes, the signature-driven reader returns
    unchanged and the reflection decoder turns back into the value. -/
theorem codecs_agree (t : Ty) (v : TVal) (ht : Typed t v) (hs : Small v) (f : Nat) (hf : vneed v ≤ f) (rest : Bytes) :
    readT f t (encR codecKinds t v ++ rest) = .ok (D t v, rest) ∧
    decT reflectCfg f t (encR codecKinds t v ++ rest) = .ok (toD t v, rest) := by
  rw [reflect_encoder_is_doc t v ht]
  exact ⟨reader_accepts_doc t v ht f hf rest, reflect_decoder_recovers t v ht hs f hf rest⟩

/-- a dynamic value that holds a dynamic value: the signature `m`, then the inner value -/
def wrapDyn (inner : Bytes) : Bytes := leN 4 1 ++ [109] ++ inner

theorem parseSig_m : parseSig [109] = .ok (.basic 109) := by
  have := C09.print_parse (.basic 109) (by simp [C09.WF, basicLetters]) (by simp [C09.nest])
  simpa [print] using this

/-- **The reader returns a dynamic value nested directly in a dynamic value unchanged as well**
    (`Typed` excludes that nesting because `NewValue` normalises it — C02 — but the
    signature-driven reader has no such freedom: every level keeps its signature prefix). -/
theorem reader_accepts_nested_dynamic (t : Ty) (v : TVal) (ht : Typed (.basic 109) (.dyn t v)) (f : Nat)
    (hf : vneed (.dyn t v) ≤ f) (rest : Bytes) :
    readT (f + 1) (.basic 109) (wrapDyn (D (.basic 109) (.dyn t v)) ++ rest) =
      .ok (wrapDyn (D (.basic 109) (.dyn t v)), rest) := by
  have hin := rt (.dyn t v) (.basic 109) ht f rest hf
  have hs : readString (wrapDyn (D (.basic 109) (.dyn t v)) ++ rest) = .ok ([109], D (.basic 109) (.dyn t v) ++ rest) := by
    have := readString_write [109] (D (.basic 109) (.dyn t v) ++ rest) (by decide)
    simpa [wrapDyn] using this
  simp only [readT, width]
  simp only [hs, parseSig_m, hin]
  simp [wrapDyn]

/-! ### non-vacuity -/

def exTy : Ty := .map (.basic 115) (.tuple [.basic 99, .list (.basic 87), .basic 109])
def exVal : TVal := .map [(.str [107], .tuple [.num 255, .list [.num 65535, .num 0], .dyn (.basic 100) (.num 5)])]

example : Typed exTy exVal ∧ Small exVal := by
  simp [exTy, exVal, Typed, TypedPairs, TypedFields, TypedList, width, C09.WF, Plain, print, maxStringSize,
    basicLetters, zeroSize, zeroSizeList, Small, SmallPairs, SmallList, listValueMaxSize, SigFits, C09.nest, maxDepth]

end QiVerif.C03
