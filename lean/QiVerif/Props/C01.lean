/-
  C01 — message framing is lossless, self-delimiting and matches the
  documented layout.  Theorems only; helper lemmas live in Bytes.lean.
-/
import QiVerif.Model.Message
set_option linter.unusedSimpArgs false
namespace QiVerif.C01
open QiVerif QiVerif.Message

/-- The bytes `Header.Write` produces are exactly the documented 28-byte layout. -/
theorem encode_is_doc (h : Header) (hm : h.magic = magicConst) :
    encodeHeader h = docLayout h ∧ (encodeHeader h).length = 28 := by
  constructor
  · simp [encodeHeader, encodeFields, writeLayout, FieldEnc.enc, Header.get, docLayout, docByte,
      be32, le32, le16, hm, magicConst, List.range, List.range.loop]
  · simp [encodeHeader, encodeFields, writeLayout, FieldEnc.enc]

theorem encodeHeader_length (h : Header) : (encodeHeader h).length = 28 := by
  simp [encodeHeader, encodeFields, writeLayout, FieldEnc.enc]

/-- bounds that any 28 bytes decode to (fields fit their width) -/
def InRange (h : Header) : Prop :=
  h.magic < 4294967296 ∧ h.id < 4294967296 ∧ h.size < 4294967296 ∧ h.version < 65536 ∧
  h.type < 256 ∧ h.flags < 256 ∧ h.service < 4294967296 ∧ h.object < 4294967296 ∧
  h.action < 4294967296

/-- `Header.Read` applied to what `Header.Write` produced, fully unfolded: the three
    checks in the code's order, then the header that was written. -/
theorem decode_encode_form (h : Header) (hr : InRange h) :
    decodeHeader (encodeHeader h) =
      if h.magic != magicConst then .error .err
      else if h.version != versionConst then .error .err
      else if (h.type == typeUnknown || decide (h.type > typeCancelled)) then .error .err
      else .ok h := by
  obtain ⟨h1, h2, h3, h4, h5, h6, h7, h8, h9⟩ := hr
  cases h with
  | mk magic id size version type flags service object action =>
  simp only at h1 h2 h3 h4 h5 h6 h7 h8 h9
  have e0 := fromBE32_be32 magic h1
  have e1 := fromLE32_le32 id h2
  have e2 := fromLE32_le32 size h3
  have e3 := fromLE32_le32 service h7
  have e4 := fromLE32_le32 object h8
  have e5 := fromLE32_le32 action h9
  have e6 : (UInt8.ofNat type).toNat = type := by rw [u8_toNat_ofNat]; omega
  have e7 : (UInt8.ofNat flags).toNat = flags := by rw [u8_toNat_ofNat]; omega
  have e9 := fromLE16_le16 version h4
  have la : le32 action = le32 action ++ [] := by simp
  simp only [encodeHeader, encodeFields, writeLayout, FieldEnc.enc, Header.get, decodeHeader,
    decodeFields, readLayout, FieldEnc.width, List.append_nil]
  rw [takeN_append 4 _ _ (by simp)]
  simp only [FieldEnc.dec, e0, Check.fails, Bool.false_eq_true, if_false]
  split
  · rfl
  rw [takeN_append 4 _ _ (by simp)]; simp only [e1, Bool.false_eq_true, if_false]
  rw [takeN_append 4 _ _ (by simp)]; simp only [e2, Bool.false_eq_true, if_false]
  rw [takeN_append 2 _ _ (by simp)]; simp only [e9]
  split
  · rfl
  rw [takeN_append 1 _ _ (by simp)]; simp only [e6]
  split
  · rfl
  rw [takeN_append 1 _ _ (by simp)]; simp only [e7, Bool.false_eq_true, if_false]
  rw [takeN_append 4 _ _ (by simp)]; simp only [e3, Bool.false_eq_true, if_false]
  rw [takeN_append 4 _ _ (by simp)]; simp only [e4, Bool.false_eq_true, if_false]
  rw [la, takeN_append 4 _ _ (by simp)]; simp only [e5, Bool.false_eq_true, if_false]
  simp [Header.set, zeroHeader]

theorem valid_inRange (h : Header) (hv : ValidHeader h) : InRange h := by
  obtain ⟨h1, h2, h3, h4, h5, h6, h7, h8, h9, h10⟩ := hv
  refine ⟨by rw [h1]; decide, h2, h3, by rw [h4]; decide, by omega, h7, h8, h9, h10⟩

/-- `Header.Read ∘ Header.Write = id` on every valid header (all 8 types, every
    id / flags / service / object / action value). -/
theorem header_roundtrip (h : Header) (hv : ValidHeader h) :
    decodeHeader (encodeHeader h) = .ok h := by
  rw [decode_encode_form h (valid_inRange h hv)]
  obtain ⟨h1, h2, h3, h4, h5, h6, h7, h8, h9, h10⟩ := hv
  have t1 : (h.type == typeUnknown || decide (h.type > typeCancelled)) = false := by
    simp [typeUnknown, typeCancelled]; omega
  simp [h1, h4, t1]

/-- `Message.Write` hands the transport exactly one buffer: header ++ payload. -/
theorem write_single (m : Msg) (hs : m.header.size = m.payload.length)
    (hl : m.payload.length < 4294967296) : writeMsg m = .ok [wire m] := by
  unfold writeMsg wire
  have : m.payload.length % 4294967296 = m.header.size := by rw [hs]; exact Nat.mod_eq_of_lt hl
  simp [this]

/-- One message: whatever the fragmentation, `Message.Read` returns the message and
    consumes exactly header+payload bytes. -/
theorem msg_roundtrip_one (max : Nat) (m : Msg) (hv : ValidMsg max m) (tail : Bytes) (s : Stream)
    (hwf : WFStream s) (hflat : flat s = wire m ++ tail) :
    ∃ s', readMsg max s = (.ok m, s') ∧ WFStream s' ∧ flat s' = tail := by
  obtain ⟨hh, hsz, hmax⟩ := hv
  have hlen28 := encodeHeader_length m.header
  have hl : headerSize ≤ (flat s).length := by
    rw [hflat]; simp [wire, hlen28, headerSize]
  obtain ⟨s1, r1, wf1, f1⟩ := readN_chunks headerSize s [] hwf hl
  have htake : (flat s).take headerSize = encodeHeader m.header := by
    rw [hflat, wire, List.append_assoc, List.take_append_of_le_length (by simp [hlen28, headerSize])]
    exact List.take_of_length_le (by simp [hlen28, headerSize])
  have hdrop : (flat s).drop headerSize = m.payload ++ tail := by
    rw [hflat, wire, List.append_assoc, List.drop_append_of_le_length (by simp [hlen28, headerSize])]
    rw [List.drop_of_length_le (by simp [hlen28, headerSize])]; simp
  unfold readMsg
  rw [r1]; simp only [List.nil_append, htake, header_roundtrip _ hh]
  have hnot : ¬ m.header.size > max := by omega
  simp only [hnot, if_false]
  by_cases hz : m.header.size = 0
  · simp only [hz, if_true]
    have hp : m.payload = [] := List.length_eq_zero_iff.mp (by omega)
    refine ⟨s1, ?_, wf1, ?_⟩
    · cases m with | mk hd pl => simp at hp; subst hp; rfl
    · rw [f1, hdrop, hp]; simp
  · simp only [hz, if_false]
    have hl2 : m.header.size ≤ (flat s1).length := by rw [f1, hdrop]; simp; omega
    obtain ⟨s2, r2, wf2, f2⟩ := readN_chunks m.header.size s1 [] wf1 hl2
    rw [r2]
    refine ⟨s2, ?_, wf2, ?_⟩
    · simp only [List.nil_append]
      have : (flat s1).take m.header.size = m.payload := by
        rw [f1, hdrop, hsz, List.take_append_of_le_length (Nat.le_refl _)]
        exact List.take_of_length_le (Nat.le_refl _)
      rw [this]
    · rw [f2, f1, hdrop, hsz, List.drop_append_of_le_length (Nat.le_refl _)]
      simp

/-- Any finite sequence of valid messages written back to back, followed by any
    trailing bytes, cut into reads in any way (chunks of any positive size, the
    last read possibly returning data together with EOF): reading `|ms|` messages
    returns exactly `ms`, and what is left in the stream is exactly the tail. -/
theorem msg_roundtrip_fragmented (max : Nat) (ms : List Msg) (hv : ∀ m ∈ ms, ValidMsg max m)
    (tail : Bytes) (s : Stream) (hwf : WFStream s)
    (hflat : flat s = ms.flatMap wire ++ tail) :
    ∃ s', readMsgs max ms.length s = (ms, s') ∧ WFStream s' ∧ flat s' = tail := by
  induction ms generalizing s with
  | nil => exact ⟨s, rfl, hwf, by simpa using hflat⟩
  | cons m rest ih =>
    have hm := hv m (by simp)
    have hflat' : flat s = wire m ++ (rest.flatMap wire ++ tail) := by
      rw [hflat]; simp [List.flatMap_cons]
    obtain ⟨s1, r1, wf1, f1⟩ := msg_roundtrip_one max m hm _ s hwf hflat'
    obtain ⟨s2, r2, wf2, f2⟩ := ih (fun x hx => hv x (by simp [hx])) s1 wf1 f1
    refine ⟨s2, ?_, wf2, f2⟩
    simp only [List.length_cons, readMsgs, r1, r2]

/-- Why a header is refused. -/
def BadHeader (max : Nat) (h : Header) : Prop :=
  h.magic ≠ magicConst ∨ h.version ≠ versionConst ∨ h.type = 0 ∨ h.type > 8 ∨ h.size > max

/-- decoding 28 header bytes yields the fields that were encoded, or an error. -/
theorem decode_fields_or_error (h : Header) (hr : InRange h) :
    decodeHeader (encodeHeader h) = .ok h ∨ decodeHeader (encodeHeader h) = .error .err := by
  rw [decode_encode_form h hr]
  split
  · right; rfl
  split
  · right; rfl
  split
  · right; rfl
  · left; rfl

/-- a header with a wrong magic, version or type is refused by `Header.Read` -/
theorem bad_header_refused (h : Header) (hr : InRange h)
    (hb : h.magic ≠ magicConst ∨ h.version ≠ versionConst ∨ h.type = 0 ∨ h.type > 8) :
    decodeHeader (encodeHeader h) = .error .err := by
  rw [decode_encode_form h hr]
  split
  · rfl
  rename_i hmag
  split
  · rfl
  rename_i hver
  split
  · rfl
  rename_i hty
  exfalso
  simp [typeUnknown, typeCancelled] at hmag hver hty
  omega

/-- A header with a wrong magic, version, type or an over-limit size is refused
    after exactly the 28 header bytes: the stream left behind still holds every
    byte that followed the header (no payload byte was read). -/
theorem reject_before_payload (max : Nat) (h : Header) (hr : InRange h) (hb : BadHeader max h)
    (after : Bytes) (s : Stream) (hwf : WFStream s) (hflat : flat s = encodeHeader h ++ after) :
    ∃ s', readMsg max s = (.error .err, s') ∧ WFStream s' ∧ flat s' = after := by
  have hlen28 := encodeHeader_length h
  have hl : headerSize ≤ (flat s).length := by rw [hflat]; simp [hlen28, headerSize]
  obtain ⟨s1, r1, wf1, f1⟩ := readN_chunks headerSize s [] hwf hl
  have htake : (flat s).take headerSize = encodeHeader h := by
    rw [hflat, List.take_append_of_le_length (by simp [hlen28, headerSize])]
    exact List.take_of_length_le (by simp [hlen28, headerSize])
  have hdrop : (flat s).drop headerSize = after := by
    rw [hflat, List.drop_append_of_le_length (by simp [hlen28, headerSize])]
    rw [List.drop_of_length_le (by simp [hlen28, headerSize])]; simp
  refine ⟨s1, ?_, wf1, by rw [f1, hdrop]⟩
  unfold readMsg
  rw [r1]; simp only [List.nil_append, htake]
  by_cases hb' : h.magic ≠ magicConst ∨ h.version ≠ versionConst ∨ h.type = 0 ∨ h.type > 8
  · rw [bad_header_refused h hr hb']
  · have hsize : h.size > max := by
      unfold BadHeader at hb; omega
    rcases decode_fields_or_error h hr with e | e
    · rw [e]; simp [hsize]
    · rw [e]

/-- distinct valid messages have distinct wire images of the same length prefix:
    the wire format is injective (corollary of the round trip). -/
theorem wire_injective (max : Nat) (m1 m2 : Msg) (h1 : ValidMsg max m1) (h2 : ValidMsg max m2)
    (he : wire m1 = wire m2) : m1 = m2 := by
  have s1 : WFStream [Chunk.data (wire m1) true] := by
    refine ⟨?_, fun _ => rfl, trivial⟩
    intro h; have := congrArg List.length h
    simp [wire, encodeHeader_length] at this
  obtain ⟨a, ra, _, _⟩ := msg_roundtrip_one max m1 h1 [] [Chunk.data (wire m1) true] s1 (by simp [flat])
  obtain ⟨b, rb, _, _⟩ := msg_roundtrip_one max m2 h2 [] [Chunk.data (wire m1) true] s1 (by simp [flat, he])
  rw [ra] at rb
  injection rb with h _
  injection h

/-! ### the hypotheses are inhabited by non-trivial states -/

def sampleHeader : Header := ⟨magicConst, 7, 3, 0, 5, 1, 2, 3, 4⟩
def sampleMsg : Msg := ⟨sampleHeader, [1, 2, 3]⟩

example : ValidMsg 10485760 sampleMsg := by
  refine ⟨?_, rfl, by decide⟩
  unfold ValidHeader sampleMsg sampleHeader magicConst versionConst; simp

/-- a concrete 3-chunk fragmentation (split inside the header, data+EOF last) -/
def sampleStream : Stream :=
  [.data ((wire sampleMsg).take 5) false, .data (((wire sampleMsg).drop 5).take 24) false,
   .data ((wire sampleMsg).drop 29) true]

example : flat sampleStream = wire sampleMsg ++ [] := by decide
example : WFStream sampleStream := by
  refine ⟨by decide, by simp, by decide, by simp, by decide, by simp, trivial⟩

example : BadHeader 10485760 { sampleHeader with type := 9 } ∧ InRange { sampleHeader with type := 9 } := by
  unfold BadHeader InRange sampleHeader magicConst versionConst; simp

end QiVerif.C01
