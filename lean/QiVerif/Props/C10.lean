/-
  C10 — concurrent senders never corrupt the stream; each message arrives once, in order;
  every handler receives exactly the subsequence its filter selects.
  Hypothesis (DESIGN §2): one `Write` call of the transport is atomic — the bytes of two
  concurrent `Write`s are never interleaved (true of net.Conn, tls.Conn, os.File, net.Pipe).
-/
import QiVerif.Props.C01
import QiVerif.Props.C17
import QiVerif.Model.Senders
set_option linter.unusedSimpArgs false
set_option linter.unusedVariables false
namespace QiVerif.C10
open QiVerif QiVerif.Message QiVerif.Endpoint QiVerif.Senders

/-- `Interleaving seqs w`: `w` is obtained by repeatedly taking the next message of some
    sender — every schedule of the senders' `Send` calls -/
inductive Interleaving {α : Type} : List (List α) → List α → Prop where
  | done (seqs : List (List α)) (h : ∀ s ∈ seqs, s = []) : Interleaving seqs []
  | step (pre post : List (List α)) (x : α) (s : List α) (w : List α) :
      Interleaving (pre ++ s :: post) w → Interleaving (pre ++ (x :: s) :: post) (x :: w)

/-- each `Send` hands the transport exactly one buffer holding header and payload -/
theorem send_is_one_write (m : Message.Msg) (hs : m.header.size = m.payload.length) (hl : m.payload.length < 4294967296) :
    writeMsg m = .ok [wire m] := C01.write_single m hs hl

/-- **Whatever the interleaving of the senders, and however the transport fragments the bytes,
    the peer reads back exactly the interleaved sequence**: every message intact, exactly once. -/
theorem interleaved_stream_decodes (max : Nat) (seqs : List (List Message.Msg)) (w : List Message.Msg) (hi : Interleaving seqs w)
    (hv : ∀ m ∈ w, ValidMsg max m) (s : Stream) (hwf : WFStream s) (hflat : flat s = w.flatMap wire) :
    ∃ s', readMsgs max w.length s = (w, s') ∧ flat s' = [] := by
  obtain ⟨s', h1, _, h3⟩ := C01.msg_roundtrip_fragmented max w hv [] s hwf (by simpa using hflat)
  exact ⟨s', h1, h3⟩

/-- in every interleaving, each sender's messages appear in the order that sender sent them -/
theorem sender_order_preserved {α : Type} (seqs : List (List α)) (w : List α) (hi : Interleaving seqs w) :
    ∀ s ∈ seqs, s.Sublist w := by
  induction hi with
  | done seqs h => intro s hs; rw [h s hs]; exact List.Sublist.slnil
  | step pre post x s w _ ih =>
    intro t ht
    rcases List.mem_append.mp ht with ht | ht
    · exact (ih t (List.mem_append.mpr (Or.inl ht))).cons x
    · rcases List.mem_cons.mp ht with rfl | ht
      · exact (ih s (List.mem_append.mpr (Or.inr (List.mem_cons_self)))).cons_cons x
      · exact (ih t (List.mem_append.mpr (Or.inr (List.mem_cons_of_mem _ ht)))).cons x

/-- … and nothing is lost or duplicated: the interleaving has as many messages as were sent -/
theorem nothing_lost {α : Type} (seqs : List (List α)) (w : List α) (hi : Interleaving seqs w) :
    w.length = (seqs.map List.length).sum := by
  induction hi with
  | done seqs h =>
    induction seqs with
    | nil => rfl
    | cons a r ih =>
      have ha := h a (by simp)
      have := ih (fun s hs => h s (by simp [hs]))
      simp [ha] at this ⊢; exact this
  | step pre post x s w _ ih =>
    simp only [List.length_cons, List.map_append, List.map_cons, List.sum_append, List.sum_cons] at ih ⊢
    omega

/-! ### handlers: exactly the selected subsequence, in arrival order -/

/-- what `dispatch` does to one handler that stays (keep = true) -/
def offerTo (h : HS) (m : Endpoint.Msg) : HS :=
  if h.spec.matches m && decide (h.queued < h.spec.cap) then
    { h with queued := h.queued + 1, received := h.received ++ [m.id] }
  else h

/-- `dispatch` treats every slot on its own: the new table is a pointwise function of the old -/
def slotAfter (m : Endpoint.Msg) : Option HS → Option HS
  | none => none
  | some h => if h.spec.keeps m then some (offerTo h m) else none

theorem dispatchLoop_pointwise (m : Endpoint.Msg) (sl : List (Option HS)) (errs : Nat) (res : DispatchResult) :
    (dispatchLoop m sl errs res).1 = sl.map (slotAfter m) := by
  induction sl generalizing errs res with
  | nil => rfl
  | cons x r ih =>
    cases x with
    | none => simp only [dispatchLoop, List.map_cons, slotAfter]; rw [← ih errs res]
    | some h =>
      simp only [dispatchLoop, List.map_cons, slotAfter, offerTo]
      split <;> simp [ih]

theorem dispatch_slots (e : EP) (m : Endpoint.Msg) : (dispatch e m).1.slots = e.slots.map (slotAfter m) := by
  simp only [dispatch]
  split
  · rename_i h; simp at h; simp [h]
  · exact dispatchLoop_pointwise m e.slots e.errorReplies .noMatch

/-- a handler that never removes itself (`dropOn = 0`) and whose queue has room for all the
    messages it selects: after the incoming messages `ms` it has received exactly
    `ms.filter matches`, in arrival order, after whatever it had received before -/
theorem handler_gets_selected_subsequence (ms : List Endpoint.Msg) (e : EP) (i : Nat) (h : HS)
    (hslot : e.slots[i]? = some (some h)) (hkeep : h.spec.dropOn = 0)
    (hroom : h.queued + (ms.filter h.spec.matches).length ≤ h.spec.cap) :
    ∃ h', (ms.foldl (fun e m => (dispatch e m).1) e).slots[i]? = some (some h') ∧
      h'.received = h.received ++ (ms.filter h.spec.matches).map (·.id) ∧ h'.spec = h.spec := by
  induction ms generalizing e h with
  | nil => exact ⟨h, hslot, by simp, rfl⟩
  | cons m r ih =>
    have hk : h.spec.keeps m = true := by simp [Spec.keeps, hkeep]
    have hs' : (dispatch e m).1.slots[i]? = some (some (offerTo h m)) := by
      rw [dispatch_slots]; simp [hslot, slotAfter, hk]
    by_cases hm : h.spec.matches m = true
    · have hlt : h.queued < h.spec.cap := by simp [List.filter_cons, hm] at hroom; omega
      have ho : offerTo h m = { h with queued := h.queued + 1, received := h.received ++ [m.id] } := by
        simp [offerTo, hm, hlt]
      obtain ⟨h', a, b, c⟩ := ih (dispatch e m).1 (offerTo h m) hs' (by rw [ho]; exact hkeep)
        (by rw [ho]; simp [List.filter_cons, hm] at hroom ⊢; omega)
      refine ⟨h', by simpa using a, ?_, by rw [c, ho]⟩
      rw [b, ho]; simp [List.filter_cons, hm]
    · have hmf : h.spec.matches m = false := by simpa using hm
      have ho : offerTo h m = h := by simp [offerTo, hmf]
      obtain ⟨h', a, b, c⟩ := ih (dispatch e m).1 (offerTo h m) hs' (by rw [ho]; exact hkeep)
        (by rw [ho]; simp [List.filter_cons, hmf] at hroom ⊢; omega)
      refine ⟨h', by simpa using a, ?_, by rw [c, ho]⟩
      rw [b, ho]; simp [List.filter_cons, hmf]


/-! ### the acceptor of the harness and the receiving table of the harness -/

theorem range_split (n i : Nat) (h : i < n) :
    List.range n = List.range i ++ i :: List.range' (i + 1) (n - i - 1) := by
  rw [List.range_eq_range', List.range_eq_range']
  have : List.range' i (n - i) = i :: List.range' (i+1) (n - i - 1) := by
    have : n - i = (n - i - 1) + 1 := by omega
    rw [this, List.range'_succ]; simp
  rw [← this]
  have := List.range'_append (s := 0) (m := i) (n := n - i) (step := 1)
  simp at this; rw [this]; congr 1; omega

/-- the per-sender projections of any sequence interleave to that sequence -/
theorem projections_interleave {α : Type} (tag : α → Nat) (n : Nat) (w : List α) (h : ∀ x ∈ w, tag x < n) :
    Interleaving ((List.range n).map (fun s => w.filter (fun x => tag x == s))) w := by
  induction w with
  | nil => exact .done _ (by simp)
  | cons x r ih =>
    have hi : tag x < n := h x (by simp)
    have ih := ih (fun y hy => h y (by simp [hy]))
    rw [range_split n (tag x) hi] at ih ⊢
    simp only [List.map_append, List.map_cons] at ih ⊢
    have e1 : (List.range (tag x)).map (fun s => (x :: r).filter (fun y => tag y == s)) =
        (List.range (tag x)).map (fun s => r.filter (fun y => tag y == s)) := by
      apply List.map_congr_left; intro s hs
      have : s < tag x := by simpa using hs
      have : (tag x == s) = false := by simp; omega
      simp [List.filter_cons, this]
    have e2 : (List.range' (tag x+1) (n - tag x - 1)).map (fun s => (x :: r).filter (fun y => tag y == s)) =
        (List.range' (tag x+1) (n - tag x - 1)).map (fun s => r.filter (fun y => tag y == s)) := by
      apply List.map_congr_left; intro s hs
      have : tag x + 1 ≤ s := by have := List.mem_range'_1.mp hs; omega
      have : (tag x == s) = false := by simp; omega
      simp [List.filter_cons, this]
    rw [e1, e2]
    have e3 : (x :: r).filter (fun y => tag y == tag x) = x :: r.filter (fun y => tag y == tag x) := by
      simp [List.filter_cons]
    rw [e3]
    exact .step _ _ x _ r ih

/-- **the acceptor is sound**: an arrival order it accepts is an interleaving of what the `n`
    senders sent -/
theorem acceptor_sound (n k : Nat) (ids : List Nat) (h : isInterleaving n k ids = true) :
    Interleaving ((List.range n).map (sent k)) ids := by
  simp only [isInterleaving, Bool.and_eq_true, List.all_eq_true, decide_eq_true_eq, beq_iff_eq] at h
  obtain ⟨hb, hp⟩ := h
  have ht : ∀ x ∈ ids, senderOf k x < n := by
    intro x hx
    obtain ⟨h1, h2⟩ := hb x hx
    unfold senderOf
    by_cases hk : k = 0
    · subst hk; omega
    · apply (Nat.div_lt_iff_lt_mul (by omega)).mpr
      omega
  have := projections_interleave (senderOf k) n ids ht
  have e : (List.range n).map (fun s => ids.filter (fun x => senderOf k x == s)) = (List.range n).map (sent k) := by
    apply List.map_congr_left; intro s hs; exact hp s hs
  rwa [e] at this

/-- the harness's receiving endpoint: every one of its four handlers ends up with exactly the
    messages its filter selects from the arrival order, in that order -/
theorem receiver_handlers (k cap : Nat) (ids : List Nat) (hcap : ids.length ≤ cap)
    (j : Nat) (f : Nat × Nat) (hj : filters[j]? = some f) :
    ∃ h', (deliver k cap ids).slots[j]? = some (some h') ∧
      h'.received = ((ids.map (msgOf k)).filter (Spec.matches ⟨f.1, f.2, 0, cap, false⟩)).map (·.id) := by
  have hlen : ∀ (sp : Spec), ((ids.map (msgOf k)).filter sp.matches).length ≤ cap :=
    fun sp => Nat.le_trans (List.length_filter_le _ _) (by simpa using hcap)
  have key : ∀ (h : HS), (receiver cap).slots[j]? = some (some h) → h.spec = ⟨f.1, f.2, 0, cap, false⟩ → h.queued = 0 →
      h.received = [] → ∃ h', (deliver k cap ids).slots[j]? = some (some h') ∧
      h'.received = ((ids.map (msgOf k)).filter (Spec.matches ⟨f.1, f.2, 0, cap, false⟩)).map (·.id) := by
    intro h hs hsp hq hr
    obtain ⟨h', a, b, _⟩ := handler_gets_selected_subsequence (ids.map (msgOf k)) (receiver cap) j h hs
      (by rw [hsp]) (by rw [hq, hsp]; simpa using hlen _)
    exact ⟨h', a, by rw [b, hr, hsp]; simp⟩
  match j, hj with
  | 0, hj => simp [filters] at hj; subst hj; exact key ⟨0, ⟨2, 0, 0, cap, false⟩, 0, [], 0, 0⟩ (by simp [receiver, filters, make, place]) rfl rfl rfl
  | 1, hj => simp [filters] at hj; subst hj; exact key ⟨1, ⟨3, 1, 0, cap, false⟩, 0, [], 0, 0⟩ (by simp [receiver, filters, make, place]) rfl rfl rfl
  | 2, hj => simp [filters] at hj; subst hj; exact key ⟨2, ⟨5, 4, 0, cap, false⟩, 0, [], 0, 0⟩ (by simp [receiver, filters, make, place]) rfl rfl rfl
  | 3, hj => simp [filters] at hj; subst hj; exact key ⟨3, ⟨1, 0, 0, cap, false⟩, 0, [], 0, 0⟩ (by simp [receiver, filters, make, place]) rfl rfl rfl
  | n + 4, hj => simp [filters] at hj

/-! ### non-vacuity -/

example : Interleaving [[1, 2], [10]] [1, 10, 2] := by
  have h0 : Interleaving ([] ++ [] :: [[]]) ([] : List Nat) := .done _ (by simp)
  have h1 : Interleaving ([] ++ [2] :: [[]]) [2] := .step [] [[]] 2 [] [] h0
  have h2 : Interleaving ([[2]] ++ [10] :: []) [10, 2] := .step [[2]] [] 10 [] [2] (by simpa using h1)
  have h3 : Interleaving ([] ++ [1, 2] :: [[10]]) [1, 10, 2] := .step [] [[10]] 1 [2] [10, 2] (by simpa using h2)
  simpa using h3

example : isInterleaving 2 2 [3, 1, 4, 2] = true ∧ isInterleaving 2 2 [2, 1, 3, 4] = false := by decide

end QiVerif.C10
