/-
  C19 — services that register while the session is open (bus/session/session.go: updateLoop,
  updateServiceList).  The directory announces every change; the session answers each announcement by
  fetching the list and storing it — one refresh at a time, in the order of the announcements.  A
  registration may fall between the fetch and the store of a refresh: its own announcement is still
  to be answered then.  Once every announcement has been answered, the session holds the list as it
  is: every registered service can be requested.
-/
namespace QiVerif.C19Refresh

/-- the directory as a count of changes so far; the announcements not yet answered; the refresh in flight (the
    version it fetched); the version of the list the session holds -/
structure R where
  dir : Nat := 0
  pend : Nat := 0
  fl : Option Nat := none
  stored : Nat := 0
  deriving Repr, DecidableEq

inductive Act where
  | register          -- a service registers (or leaves): the list changes, an announcement is queued
  | fetch             -- `updateLoop` takes the next announcement; `Directory.Services()` answers with the list as it is
  | store             -- `serviceList = services`
  deriving Repr, DecidableEq

def step (r : R) : Act → R
  | .register => { r with dir := r.dir + 1, pend := r.pend + 1 }
  | .fetch => if r.fl.isNone && r.pend > 0 then { r with fl := some r.dir, pend := r.pend - 1 } else r
  | .store => match r.fl with
    | some f => { r with stored := f, fl := none }
    | none => r

def run (r : R) : List Act → R
  | [] => r
  | a :: as => run (step r a) as

/-- what is known, or about to be, together with the announcements still to be answered, covers every change -/
def Inv (r : R) : Prop :=
  r.stored ≤ r.dir ∧
  match r.fl with
  | none => r.dir ≤ r.stored + r.pend
  | some f => f ≤ r.dir ∧ r.dir ≤ f + r.pend

theorem inv_init : Inv {} := by simp [Inv]

theorem inv_step (r : R) (a : Act) (h : Inv r) : Inv (step r a) := by
  obtain ⟨h1, h2⟩ := h
  cases a with
  | register =>
    simp only [step, Inv]
    cases hf : r.fl with
    | none => rw [hf] at h2; simp only at h2 ⊢; omega
    | some f => rw [hf] at h2; simp only at h2 ⊢; omega
  | fetch =>
    simp only [step]
    split
    · rename_i hc
      simp only [Bool.and_eq_true, Option.isNone_iff_eq_none, decide_eq_true_eq] at hc
      rw [hc.1] at h2
      simp only [Inv]
      simp only at h2 ⊢
      omega
    · exact ⟨h1, h2⟩
  | store =>
    simp only [step]
    cases hf : r.fl with
    | none => simp only; exact ⟨h1, by rw [hf]; rw [hf] at h2; exact h2⟩
    | some f =>
      rw [hf] at h2
      simp only [Inv]
      simp only at h2 ⊢
      omega

theorem inv_run (as : List Act) : ∀ r, Inv r → Inv (run r as) := by
  induction as with
  | nil => intro r h; exact h
  | cons a as ih => intro r h; exact ih _ (inv_step r a h)

/-- **Every registered service gets known.**  Whatever the order of registrations, fetches and stores: once no
    announcement is waiting and no refresh is under way, the session holds the list of the directory as it is. -/
theorem all_known_when_quiet (as : List Act) (hp : (run {} as).pend = 0) (hf : (run {} as).fl = none) :
    (run {} as).stored = (run {} as).dir := by
  have h := inv_run as {} inv_init
  obtain ⟨h1, h2⟩ := h
  rw [hf] at h2
  simp only at h2
  omega

/-- and the session never believes in more than there is -/
theorem never_ahead (as : List Act) : (run {} as).stored ≤ (run {} as).dir := (inv_run as {} inv_init).1

/-! ### refreshes that do not wait for each other -/

/-- the same with any number of refreshes under way, storing in any order -/
structure U where
  dir : Nat := 0
  pend : Nat := 0
  fls : List Nat := []
  stored : Nat := 0
  deriving Repr, DecidableEq

inductive UAct where
  | register | fetch | store (i : Nat)
  deriving Repr, DecidableEq

def ustep (u : U) : UAct → U
  | .register => { u with dir := u.dir + 1, pend := u.pend + 1 }
  | .fetch => if u.pend > 0 then { u with fls := u.fls ++ [u.dir], pend := u.pend - 1 } else u
  | .store i => match u.fls[i]? with
    | some f => { u with stored := f, fls := u.fls.eraseIdx i }
    | none => u

def urun (u : U) : List UAct → U
  | [] => u
  | a :: as => urun (ustep u a) as

/-- **Unordered refreshes leave a stale list**: two registrations, two refreshes, the older list stored last — nothing is
    waiting, nothing is under way, and the session does not know the second service. -/
theorem unordered_refresh_stale :
    let u := urun {} [.register, .fetch, .register, .fetch, .store 1, .store 0]
    u.pend = 0 ∧ u.fls = [] ∧ u.dir = 2 ∧ u.stored = 1 := by decide

end QiVerif.C19Refresh
