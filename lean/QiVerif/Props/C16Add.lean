/-
  C16 with `Add` in its two critical sections (Model/ServiceAdd.lean): whatever runs between the two halves of
  an `Add` — removals, calls, terminations, subscriptions, other additions, also addressed to the identifier
  that is being added — the invariant of the one-step machine holds, the pending identifier is refused, and the
  second half touches no other object: an object removed meanwhile stays removed, an object added meanwhile
  stays callable.
-/
import QiVerif.Model.ServiceAdd
import QiVerif.Props.C16
set_option linter.unusedSimpArgs false
set_option linter.unusedVariables false
namespace QiVerif.C16
open QiVerif.Service QiVerif.ServiceAdd

/-- what `step` does to the set of identifiers: nothing new but the one an `add` names -/
theorem step_keys_sub (s : Svc) (o : Op) : ∀ x ∈ keys (step s o).1.objects, x ∈ keys s.objects ∨ o = .add x := by
  intro x hx
  cases o with
  | add id =>
    simp only [step] at hx
    cases hl : lookup id s.objects with
    | some _ => simp only [hl] at hx; exact Or.inl hx
    | none =>
      simp only [hl, keys, List.map_append, List.map_cons, List.map_nil, List.mem_append, List.mem_singleton] at hx
      rcases hx with hx | rfl
      · exact Or.inl hx
      · exact Or.inr rfl
  | remove id =>
    left
    simp only [step] at hx
    cases hr : removeObj s id with
    | none => simp only [hr] at hx; exact hx
    | some s' =>
      simp only [hr] at hx
      unfold removeObj at hr
      cases hl : lookup id s.objects with
      | none => simp [hl] at hr
      | some ob => simp only [hl] at hr; cases hr; exact (keys_erase_sub id _ x hx).1
  | call id =>
    left
    simp only [step] at hx
    split at hx
    · cases hl : lookup id s.objects with
      | none => simp only [hl] at hx; exact hx
      | some ob => simp only [hl, keys_update] at hx; exact hx
    · exact hx
  | terminate id arg =>
    left
    simp only [step] at hx
    split at hx
    · split at hx
      · exact hx
      · cases hr : removeObj s id with
        | none => simp only [hr] at hx; exact hx
        | some s' =>
          simp only [hr] at hx
          unfold removeObj at hr
          cases hl : lookup id s.objects with
          | none => simp [hl] at hr
          | some ob => simp only [hl] at hr; cases hr; exact (keys_erase_sub id _ x hx).1
    · exact hx
  | subscribe id sub =>
    left
    simp only [step] at hx
    split at hx
    · cases hl : lookup id s.objects with
      | none => simp only [hl] at hx; exact hx
      | some ob => simp only [hl, keys_update] at hx; exact hx
    · exact hx

/-- the invariant of the machine with the two-part `Add` -/
structure InvW (s : SvcW) : Prop where
  inv : Inv s.svc
  nodup : s.pending.Nodup
  fresh : ∀ id ∈ s.pending, lookup id s.svc.objects = none

theorem invW_init : InvW {} := ⟨inv_init, by simp, by simp⟩

theorem fresh_after (s : Svc) (o : Op) (id : Nat) (h : lookup id s.objects = none) (hne : o ≠ .add id) :
    lookup id (step s o).1.objects = none := by
  rw [lookup_none_iff] at h ⊢
  intro hx
  rcases step_keys_sub s o id hx with h' | h'
  · exact h h'
  · exact hne h'

theorem invW_step (s : SvcW) (o : OpW) (hi : InvW s) : InvW (stepW s o).1 := by
  cases o with
  | addBegin id =>
    simp only [stepW]
    split
    · exact hi
    · rename_i hc
      simp only [Bool.or_eq_true, not_or, Bool.not_eq_true, Option.isSome_eq_false_iff, Option.isNone_iff_eq_none,
        List.contains_eq_mem, decide_eq_false_iff_not] at hc
      refine ⟨hi.inv, List.nodup_cons.mpr ⟨hc.2, hi.nodup⟩, ?_⟩
      intro j hj
      rcases List.mem_cons.mp hj with rfl | hj
      · exact hc.1
      · exact hi.fresh j hj
  | addEnd id =>
    simp only [stepW]
    refine ⟨inv_step s.svc (.add id) hi.inv, hi.nodup.erase id, ?_⟩
    intro j hj
    have hjp : j ∈ s.pending := List.mem_of_mem_erase hj
    have hne : j ≠ id := fun e => by subst e; exact (List.Nodup.not_mem_erase hi.nodup) hj
    exact fresh_after s.svc (.add id) j (hi.fresh j hjp) (fun e => hne (by cases e; rfl))
  | op o =>
    simp only [stepW]
    split
    · rename_i hp
      cases o with
      | add id => exact hi
      | remove id =>
        refine ⟨hi.inv, hi.nodup.erase id, ?_⟩
        intro j hj
        exact hi.fresh j (List.mem_of_mem_erase hj)
      | call id => exact hi
      | terminate id a => exact hi
      | subscribe id u => exact hi
    · rename_i hp
      refine ⟨inv_step s.svc o hi.inv, hi.nodup, ?_⟩
      intro j hj
      refine fresh_after s.svc o j (hi.fresh j hj) ?_
      intro e
      subst e
      simp only [target, List.contains_eq_mem, decide_eq_true_eq] at hp
      exact hp hj

theorem invW_run (s : SvcW) (ops : List OpW) (hi : InvW s) : InvW (runW s ops) := by
  induction ops generalizing s with
  | nil => exact hi
  | cons o r ih => exact ih _ (invW_step s o hi)

/-- **Identifiers stay unique** on every history of the machine with the two-part `Add`: among the live objects,
    among the additions under way, and between the two. -/
theorem ids_unique_two_part (ops : List OpW) :
    (keys (runW {} ops).svc.objects).Nodup ∧ (runW {} ops).pending.Nodup ∧
    ∀ id ∈ (runW {} ops).pending, id ∉ keys (runW {} ops).svc.objects := by
  have hi := invW_run {} ops invW_init
  exact ⟨hi.inv.nodup, hi.nodup, fun id h => (lookup_none_iff id _).mp (hi.fresh id h)⟩

/-- **A message for an identifier whose `Add` is under way is answered with an error and runs nothing.** -/
theorem pending_refused (s : SvcW) (id : Nat) (hp : id ∈ s.pending) :
    ∀ o, o = .call id ∨ (∃ a, o = .terminate id a) ∨ (∃ u, o = .subscribe id u) →
      stepW s (.op o) = (s, .errorReply) := by
  have hc : s.pending.contains id = true := by simpa using hp
  intro o ho
  rcases ho with rfl | ⟨a, rfl⟩ | ⟨u, rfl⟩ <;> simp [stepW, target, hp]

/-- the first half of an `Add` changes no object at all -/
theorem addBegin_leaves_objects (s : SvcW) (id : Nat) : (stepW s (.addBegin id)).1.svc = s.svc := by
  simp only [stepW]; split <;> rfl

/-- **The second half of an `Add` touches no other object**: whatever happened to object `j` while the new object
    was being activated — it was removed, added, called, subscribed to — is what holds afterwards. -/
theorem addEnd_leaves_others (s : SvcW) (id j : Nat) (hj : j ≠ id) :
    lookup j (stepW s (.addEnd id)).1.svc.objects = lookup j s.svc.objects ∧
    (stepW s (.addEnd id)).1.svc.boxes.contains j = s.svc.boxes.contains j ∧
    (stepW s (.addEnd id)).1.svc.dead = s.svc.dead := by
  simp only [stepW, step]
  cases hl : lookup id s.svc.objects with
  | some ob => exact ⟨rfl, rfl, rfl⟩
  | none =>
    refine ⟨?_, ?_, rfl⟩
    · simp only []
      rw [lookup_append_new]
      cases hlj : lookup j s.svc.objects with
      | some _ => rfl
      | none => simp; exact fun e => hj e.symm
    · simp [hj]

/-- an object removed while another one was being activated stays unreachable once the activation is over -/
theorem removed_during_activation_stays_removed (s : SvcW) (id j : Nat) (hj : j ≠ id) (hi : InvW s)
    (hgone : lookup j s.svc.objects = none) (hnp : j ∉ s.pending) :
    ∀ o, o = .call j ∨ (∃ a, o = .terminate j a) ∨ (∃ u, o = .subscribe j u) →
      (stepW (stepW s (.addEnd id)).1 (.op o)).2 = .errorReply := by
  have hi' := invW_step s (.addEnd id) hi
  have hl : lookup j (stepW s (.addEnd id)).1.svc.objects = none := by
    rw [(addEnd_leaves_others s id j hj).1]; exact hgone
  have hnp' : (stepW s (.addEnd id)).1.pending.contains j = false := by
    simp only [stepW, List.contains_eq_mem, decide_eq_false_iff_not]
    exact fun h => hnp (List.mem_of_mem_erase h)
  have hb : (stepW s (.addEnd id)).1.svc.boxes.contains j = false := by
    cases hc : (stepW s (.addEnd id)).1.svc.boxes.contains j with
    | false => rfl
    | true => exact absurd ((hi'.inv.boxes j).mp hc) ((lookup_none_iff j _).mp hl)
  generalize stepW s (.addEnd id) = t at *
  have hb' : j ∉ t.1.svc.boxes := by simpa using hb
  have hnp'' : j ∉ t.1.pending := by simpa using hnp'
  intro o ho
  rcases ho with rfl | ⟨a, rfl⟩ | ⟨u, rfl⟩ <;> simp [stepW, target, hnp'', step, hb']

/-- **The two halves, with nothing addressed to the new identifier between them, are the one-step `Add`** — so
    everything Props/C16.lean shows of that machine holds of the code's `Add` as well. -/
theorem two_part_add_is_add (s : SvcW) (id : Nat) (hf : lookup id s.svc.objects = none) (hp : id ∉ s.pending) :
    (stepW (stepW s (.addBegin id)).1 (.addEnd id)).1 = { svc := (step s.svc (.add id)).1, pending := s.pending } ∧
    (stepW (stepW s (.addBegin id)).1 (.addEnd id)).2 = (step s.svc (.add id)).2 := by
  have hc : s.pending.contains id = false := by simpa using hp
  simp [stepW, hf, hp]

/-! ### non-vacuity: object 7 is removed and object 9 added while object 8 is being activated -/

def exW : List OpW := [.op (.add 1), .addBegin 7, .addEnd 7, .addBegin 8, .op (.call 8), .op (.remove 7), .addBegin 9,
  .addEnd 9, .addEnd 8]

example : (runW {} exW).pending = [] ∧ lookup 7 (runW {} exW).svc.objects = none ∧
    (stepW (runW {} exW) (.op (.call 7))).2 = .errorReply ∧ (stepW (runW {} exW) (.op (.call 9))).2 = .reply ∧
    (stepW (runW {} exW) (.op (.call 8))).2 = .reply ∧
    (stepW (runW {} [.op (.add 1), .addBegin 8]) (.op (.call 8))).2 = .errorReply := by decide

end QiVerif.C16
