/-
  C18 — the action lines and the interface block: what `GenerateIDL` writes for the methods,
  signals and properties of an object is read back by the parser of Model/IdlLines.lean as the same
  actions, and `nodifyActionList` stores each under its uid.  (Type layer: Props/C18.lean; lemmas:
  Lemmas/IdlLines.lean.)  Not covered by a theorem: struct blocks, the package header, the
  resolution of references in scopes (round-trip oracle of the harness only).
-/
import QiVerif.Lemmas.IdlLines
set_option linter.unusedSimpArgs false
set_option linter.unusedVariables false
namespace QiVerif.C18
open QiVerif QiVerif.Idl

/-! ### an action line -/

/-- the actions `GenerateIDL` writes: identifiers as names, parameters of the class of the type
    layer, a return type only on a method -/
def WFAction (a : Action) : Prop :=
  IsIdent a.name ∧ WFParams a.params ∧
    (match a.ret with | some t => WF t ∧ a.kind = .fn | none => True)

def needA (a : Action) : Nat :=
  max (needP a.params) (match a.ret with | some t => need t | none => 0)

theorem returns_some (t : IT) (h : WF t) (f : Nat) (hf : need t ≤ f) (x : Bytes) :
    parseReturns f (32 :: 45 :: 62 :: 32 :: (printT t ++ 32 :: x)) = (some t, 32 :: x) := by
  unfold parseReturns
  rw [atom_skip _ 32 _ (by decide)]
  have ha : atom [45, 62] (45 :: 62 :: 32 :: (printT t ++ 32 :: x)) = some (32 :: (printT t ++ 32 :: x)) :=
    atom_hit [45, 62] 45 [62] _ rfl (by decide)
  rw [ha]
  simp only
  rw [parseT_skip f 32 _ (by decide), parse_print t h (32 :: x) (follow_of 32 x (by decide) (by decide)) f hf]

theorem returns_none (f : Nat) (x : Bytes) : parseReturns f (32 :: 47 :: x) = (none, 32 :: 47 :: x) := by
  unfold parseReturns
  rw [atom_skip _ 32 _ (by decide), atom_miss [45, 62] 47 x (by decide) (by decide)]

/-- the line after the keyword -/
def lineTail (a : Action) : Bytes :=
  [32] ++ a.name ++ [40] ++ printParams (sepOf a.kind) a.params ++ [41, 32] ++
    (match a.ret with | some t => [45, 62, 32] ++ printT t ++ [32] | none => []) ++
    [47, 47, 117, 105, 100, 58] ++ digitsOf a.uid ++ [10]

theorem printAction_eq (a : Action) : printAction a = 9 :: (kindKw a.kind ++ lineTail a) := by
  unfold printAction lineTail
  cases a.ret <;> simp

theorem sepOf_eq (k : Kind) : sepOf k = sepB (k != .fn) := by
  cases k <;> rfl

theorem actionOf_ok (kw : Bytes) (c : UInt8) (l : Bytes) (hkw : kw = c :: l) (hc : isWS c = false)
    (a : Action) (h : WFAction a) (withRet : Bool) (hret : withRet = false → a.ret = none)
    (f : Nat) (hf : needA a ≤ f) (rest : Bytes) :
    parseActionOf kw a.kind withRet f (9 :: (kw ++ (lineTail a ++ rest))) = some (a, 10 :: rest) := by
  obtain ⟨hname, hps, hr⟩ := h
  unfold parseActionOf
  rw [atom_skip _ 9 _ (by decide), atom_hit kw c l _ hkw hc]
  simp only
  -- the name
  have e1 : lineTail a ++ rest = 32 :: (a.name ++ 40 :: (printParams (sepOf a.kind) a.params ++ 41 :: 32 ::
      ((match a.ret with | some t => [45, 62, 32] ++ printT t ++ [32] | none => []) ++
        [47, 47, 117, 105, 100, 58] ++ digitsOf a.uid ++ 10 :: rest))) := by
    simp [lineTail]
  rw [e1, ident_skip 32 _ (by decide), ident_hit a.name _ hname (follow_of 40 _ (by decide) (by decide))]
  simp only
  rw [atom1_hit 40 _ (by decide)]
  simp only
  rw [sepOf_eq, params_ok _ a.params hps f (by unfold needA at hf; omega)]
  simp only
  rw [atom1_hit 41 _ (by decide)]
  simp only
  cases hret' : a.ret with
  | none =>
    have e2 : ((match (none : Option IT) with | some t => [45, 62, 32] ++ printT t ++ [32] | none => []) ++
        [47, 47, 117, 105, 100, 58] ++ digitsOf a.uid ++ 10 :: rest) =
        47 :: 47 :: ([117, 105, 100, 58] ++ digitsOf a.uid ++ 10 :: rest) := by simp
    rw [e2]
    cases withRet with
    | true =>
      simp only [if_true, returns_none, comment_hit]
      cases a; simp_all
    | false =>
      simp only [Bool.false_eq_true, if_false, comment_hit]
      cases a; simp_all
  | some t =>
    rw [hret'] at hr
    simp only at hr
    have hw : withRet = true := by
      cases withRet with
      | true => rfl
      | false => have := hret rfl; rw [hret'] at this; cases this
    subst hw
    have e2 : ((match some t with | some t => [45, 62, 32] ++ printT t ++ [32] | none => []) ++
        [47, 47, 117, 105, 100, 58] ++ digitsOf a.uid ++ 10 :: rest) =
        45 :: 62 :: 32 :: (printT t ++ 32 :: 47 :: 47 :: ([117, 105, 100, 58] ++ digitsOf a.uid ++ 10 :: rest)) := by simp
    rw [e2]
    have hn : need t ≤ f := by unfold needA at hf; rw [hret'] at hf; simp only at hf; omega
    simp only [if_true, returns_some t hr.1 f hn, comment_hit]
    cases a; simp_all

/-- **an action line is read back**: `fn` / `sig` / `prop`, the name, the parameters with their
    names and types, the returned type, the uid — and the rest of the text starts at the end of
    the line -/
theorem action_ok (a : Action) (h : WFAction a) (f : Nat) (hf : needA a ≤ f) (rest : Bytes) :
    parseAction f (printAction a ++ rest) = some (a, 10 :: rest) := by
  have hret : a.kind ≠ .fn → a.ret = none := by
    intro hk
    obtain ⟨_, _, hr⟩ := h
    cases hra : a.ret with
    | none => rfl
    | some t => rw [hra] at hr; exact absurd hr.2 hk
  rw [printAction_eq, List.cons_append, List.append_assoc]
  unfold parseAction
  cases hk : a.kind with
  | fn =>
    have := actionOf_ok kwFn 102 [110] rfl (by decide) a h true (by intro e; cases e) f hf rest
    rw [hk] at this
    simp only [kindKw, this]
  | sig =>
    have h0 : parseActionOf kwFn Kind.fn true f (9 :: (kwSig ++ (lineTail a ++ rest))) = none := by
      unfold parseActionOf
      rw [atom_skip _ 9 _ (by decide)]
      have : atom kwFn (kwSig ++ (lineTail a ++ rest)) = none := by
        simp only [kwSig, List.cons_append]
        exact atom_miss kwFn 115 _ (by decide) (by decide)
      rw [this]
    have := actionOf_ok kwSig 115 [105, 103] rfl (by decide) a h false (fun _ => hret (by rw [hk]; decide)) f hf rest
    rw [hk] at this
    simp only [h0, kindKw, this]
  | prop =>
    have h0 : parseActionOf kwFn Kind.fn true f (9 :: (kwProp ++ (lineTail a ++ rest))) = none := by
      unfold parseActionOf
      rw [atom_skip _ 9 _ (by decide)]
      have : atom kwFn (kwProp ++ (lineTail a ++ rest)) = none := by
        simp only [kwProp, List.cons_append]
        exact atom_miss kwFn 112 _ (by decide) (by decide)
      rw [this]
    have h1 : parseActionOf kwSig Kind.sig false f (9 :: (kwProp ++ (lineTail a ++ rest))) = none := by
      unfold parseActionOf
      rw [atom_skip _ 9 _ (by decide)]
      have : atom kwSig (kwProp ++ (lineTail a ++ rest)) = none := by
        simp only [kwProp, List.cons_append]
        exact atom_miss kwSig 112 _ (by decide) (by decide)
      rw [this]
    have := actionOf_ok kwProp 112 [114, 111, 112] rfl (by decide) a h false (fun _ => hret (by rw [hk]; decide)) f hf rest
    rw [hk] at this
    simp only [h0, h1, kindKw, this]


/-! ### the actions of an interface -/

theorem parseActionOf_skip (kw : Bytes) (kind : Kind) (wr : Bool) (f : Nat) (c : UInt8) (x : Bytes) (h : isWS c = true) :
    parseActionOf kw kind wr f (c :: x) = parseActionOf kw kind wr f x := by
  simp [parseActionOf, atom_skip kw c x h]

theorem parseAction_skip (f : Nat) (c : UInt8) (x : Bytes) (h : isWS c = true) : parseAction f (c :: x) = parseAction f x := by
  simp [parseAction, parseActionOf_skip _ _ _ f c x h]

/-- what is left after the actions: the end of the last line -/
def endOf : List Action → Bytes → Bytes
  | [], tail => tail
  | _ :: _, tail => 10 :: tail

theorem actions_ok (f : Nat) (tail : Bytes) (hstop : parseAction f tail = none) :
    (as : List Action) → (∀ a ∈ as, WFAction a ∧ needA a ≤ f) → ∀ k, as.length ≤ k →
    parseActions k f (printActions as ++ tail) = (as, endOf as tail)
  | [], _, k, _ => by
    cases k with
    | zero => rfl
    | succ k => simp [parseActions, printActions, hstop, endOf]
  | a :: r, h, k, hk => by
    simp only [List.length_cons] at hk
    obtain ⟨k', rfl⟩ : ∃ k', k = k' + 1 := ⟨k - 1, by omega⟩
    have ha := h a (by simp)
    have hr : ∀ x ∈ r, WFAction x ∧ needA x ≤ f := fun x hx => h x (by simp [hx])
    have step := action_ok a ha.1 f ha.2 (printActions r ++ tail)
    simp only [printActions, List.append_assoc, parseActions, step, endOf]
    cases r with
    | nil =>
      simp only [printActions, List.nil_append]
      cases k' with
      | zero => rfl
      | succ k'' => simp [parseActions, parseAction_skip f 10 tail (by decide), hstop]
    | cons b r' =>
      have ih := actions_ok f tail hstop (b :: r') hr k' (by simp at hk ⊢; omega)
      obtain ⟨k'', rfl⟩ : ∃ k'', k' = k'' + 1 := ⟨k' - 1, by simp at hk; omega⟩
      have hb := action_ok b (hr b (by simp)).1 f (hr b (by simp)).2 (printActions r' ++ tail)
      have skip : parseActions (k'' + 1) f (10 :: (printActions (b :: r') ++ tail)) =
          parseActions (k'' + 1) f (printActions (b :: r') ++ tail) := by
        simp only [parseActions, parseAction_skip f 10 _ (by decide), printActions, List.append_assoc, hb]
      rw [skip, ih]
      simp [endOf]

/-- the word `end` is no action -/
theorem stop_at_end (f : Nat) (x : Bytes) : parseAction f (101 :: 110 :: 100 :: x) = none := by
  simp only [parseAction, parseActionOf]
  rw [atom_miss kwFn 101 _ (by decide) (by decide), atom_miss kwSig 101 _ (by decide) (by decide),
    atom_miss kwProp 101 _ (by decide) (by decide)]

/-- **the actions of an interface block are read back**, in order, up to the `end` that closes it -/
theorem interface_actions_ok (as : List Action) (f : Nat) (h : ∀ a ∈ as, WFAction a ∧ needA a ≤ f) (x : Bytes) :
    parseActions (as.length + 1) f (printActions as ++ 101 :: 110 :: 100 :: x) = (as, endOf as (101 :: 110 :: 100 :: x)) :=
  actions_ok f _ (stop_at_end f x) as h _ (by omega)

/-! ### from the actions to the maps of the interface -/

def byKind (k : Kind) (as : List Action) : List (Nat × Action) :=
  (as.filter (fun a => a.kind == k)).map (fun a => (a.uid, a))

def keys (m : List (Nat × Action)) : List Nat := m.map (·.1)

theorem putA_fresh (m : List (Nat × Action)) (k : Nat) (a : Action) (h : k ∉ keys m) : putA m k a = m ++ [(k, a)] := by
  unfold putA
  congr 1
  apply List.filter_eq_self.mpr
  intro p hp
  have : p.1 ≠ k := by
    intro e; apply h; unfold keys; exact List.mem_map.mpr ⟨p, hp, e⟩
  simpa using this

theorem action_eta (a : Action) : (⟨a.kind, a.name, a.params, a.ret, a.uid⟩ : Action) = a := by cases a; rfl

/-- uids given explicitly and distinct within each kind: every action is stored under its uid -/
theorem assignIds_ok : (as : List Action) → (next : Nat) → (itf : Itf) → (∀ a ∈ as, a.uid ≠ 0) →
    (keys itf.methods ++ keys (byKind .fn as)).Nodup → (keys itf.signals ++ keys (byKind .sig as)).Nodup →
    (keys itf.props ++ keys (byKind .prop as)).Nodup →
    assignIds as next itf =
      { methods := itf.methods ++ byKind .fn as, signals := itf.signals ++ byKind .sig as, props := itf.props ++ byKind .prop as }
  | [], _, itf, _, _, _, _ => by simp [assignIds, byKind]
  | a :: r, next, itf, hu, hm, hs, hp => by
    have hua : a.uid ≠ 0 := hu a (by simp)
    have hne : (a.uid == 0) = false := by simpa using hua
    simp only [assignIds, hne, Bool.false_and, Bool.false_eq_true, if_false, action_eta]
    have hur : ∀ x ∈ r, x.uid ≠ 0 := fun x hx => hu x (by simp [hx])
    cases hk : a.kind with
    | fn =>
      have hfn : byKind .fn (a :: r) = (a.uid, a) :: byKind .fn r := by simp [byKind, hk]
      have hsg : byKind .sig (a :: r) = byKind .sig r := by simp [byKind, hk]
      have hpr : byKind .prop (a :: r) = byKind .prop r := by simp [byKind, hk]
      rw [hfn] at hm; rw [hsg] at hs; rw [hpr] at hp
      have hfresh : a.uid ∉ keys itf.methods := by
        intro hin
        have := List.nodup_append.mp hm
        exact this.2.2 _ hin _ (by simp [keys]) rfl
      have hm' : (keys (itf.methods ++ [(a.uid, a)]) ++ keys (byKind .fn r)).Nodup := by
        have e : keys (itf.methods ++ [(a.uid, a)]) ++ keys (byKind .fn r) = keys itf.methods ++ keys ((a.uid, a) :: byKind .fn r) := by
          simp [keys]
        rw [e]; exact hm
      simp only
      rw [putA_fresh _ _ _ hfresh]
      have ih := assignIds_ok r next ⟨itf.methods ++ [(a.uid, a)], itf.signals, itf.props⟩ hur hm' hs hp
      rw [ih, hfn, hsg, hpr]
      simp
    | sig =>
      have hfn : byKind .fn (a :: r) = byKind .fn r := by simp [byKind, hk]
      have hsg : byKind .sig (a :: r) = (a.uid, a) :: byKind .sig r := by simp [byKind, hk]
      have hpr : byKind .prop (a :: r) = byKind .prop r := by simp [byKind, hk]
      rw [hfn] at hm; rw [hsg] at hs; rw [hpr] at hp
      have hfresh : a.uid ∉ keys itf.signals := by
        intro hin
        have := List.nodup_append.mp hs
        exact this.2.2 _ hin _ (by simp [keys]) rfl
      have hs' : (keys (itf.signals ++ [(a.uid, a)]) ++ keys (byKind .sig r)).Nodup := by
        have e : keys (itf.signals ++ [(a.uid, a)]) ++ keys (byKind .sig r) = keys itf.signals ++ keys ((a.uid, a) :: byKind .sig r) := by
          simp [keys]
        rw [e]; exact hs
      simp only
      rw [putA_fresh _ _ _ hfresh]
      have ih := assignIds_ok r next ⟨itf.methods, itf.signals ++ [(a.uid, a)], itf.props⟩ hur hm hs' hp
      rw [ih, hfn, hsg, hpr]
      simp
    | prop =>
      have hfn : byKind .fn (a :: r) = byKind .fn r := by simp [byKind, hk]
      have hsg : byKind .sig (a :: r) = byKind .sig r := by simp [byKind, hk]
      have hpr : byKind .prop (a :: r) = (a.uid, a) :: byKind .prop r := by simp [byKind, hk]
      rw [hfn] at hm; rw [hsg] at hs; rw [hpr] at hp
      have hfresh : a.uid ∉ keys itf.props := by
        intro hin
        have := List.nodup_append.mp hp
        exact this.2.2 _ hin _ (by simp [keys]) rfl
      have hp' : (keys (itf.props ++ [(a.uid, a)]) ++ keys (byKind .prop r)).Nodup := by
        have e : keys (itf.props ++ [(a.uid, a)]) ++ keys (byKind .prop r) = keys itf.props ++ keys ((a.uid, a) :: byKind .prop r) := by
          simp [keys]
        rw [e]; exact hp
      simp only
      rw [putA_fresh _ _ _ hfresh]
      have ih := assignIds_ok r next ⟨itf.methods, itf.signals, itf.props ++ [(a.uid, a)]⟩ hur hm hs hp'
      rw [ih, hfn, hsg, hpr]
      simp


/-- **An interface block survives**: the actions `GenerateIDL` writes (identifiers as names,
    parameters and returned types of the class of the type layer, explicit uids that are not 0
    and are distinct within methods, signals and properties) are read back and stored under
    their uids, each with its kind, name, parameter names and types, returned type. -/
theorem interface_roundtrip (as : List Action) (f : Nat) (h : ∀ a ∈ as, WFAction a ∧ needA a ≤ f)
    (hu : ∀ a ∈ as, a.uid ≠ 0) (hm : (keys (byKind .fn as)).Nodup) (hs : (keys (byKind .sig as)).Nodup)
    (hp : (keys (byKind .prop as)).Nodup) (x : Bytes) :
    assignIds (parseActions (as.length + 1) f (printActions as ++ 101 :: 110 :: 100 :: x)).1 100 {} =
      { methods := byKind .fn as, signals := byKind .sig as, props := byKind .prop as } := by
  rw [interface_actions_ok as f h x]
  have := assignIds_ok as 100 {} hu (by simpa [keys] using hm) (by simpa [keys] using hs) (by simpa [keys] using hp)
  simpa using this

/-- the hypotheses are met by a method with two parameters and a returned map, a signal and a property -/
example : ∀ a ∈ [
    ({ kind := .fn, name := [102], params := [⟨[97], .basic 4⟩, ⟨[98], .vec (.basic 13)⟩], ret := some (.map (.basic 13) (.ref [70, 111, 111])), uid := 100 } : Action),
    { kind := .sig, name := [115], params := [⟨[80, 48], .basic 4⟩], ret := none, uid := 101 },
    { kind := .prop, name := [112], params := [⟨[112, 97, 114, 97, 109], .basic 8⟩], ret := none, uid := 102 }],
    WFAction a := by
  intro a ha
  simp only [List.mem_cons, List.mem_nil_iff, or_false] at ha
  have ident1 : ∀ c : UInt8, isAlphaU c = true → IsIdent [c] := fun c hc => ⟨c, [], rfl, hc, by intro x hx; cases hx⟩
  rcases ha with rfl | rfl | rfl
  · refine ⟨ident1 102 (by decide), ⟨⟨ident1 97 (by decide), by simp [WF, canon]⟩, ⟨ident1 98 (by decide), by simp [WF, canon]⟩, trivial⟩, ?_⟩
    refine ⟨?_, rfl⟩
    simp only [WF]
    exact ⟨by simp [canon], ⟨70, [111, 111], rfl, by decide, allWord_of _ (by decide), by decide⟩⟩
  · exact ⟨ident1 115 (by decide), ⟨⟨⟨80, [48], rfl, by decide, allWord_of _ (by decide)⟩, by simp [WF, canon]⟩, trivial⟩, trivial⟩
  · exact ⟨ident1 112 (by decide), ⟨⟨⟨112, [97, 114, 97, 109], rfl, by decide, allWord_of _ (by decide)⟩, by simp [WF, canon]⟩, trivial⟩, trivial⟩

end QiVerif.C18
