/-
  C18 — end to end, at the level of the signature strings of a meta-object: the strings are parsed
  (`signature.Parse`, C09), the types registered and written (`GenerateIDL`, Props/C18TypeSet.lean), the
  text parsed (`ParsePackage`, Props/C18Package.lean), the references resolved (Props/C18Scope.lean) and
  the signatures of the actions put together again (`Method.Meta`, `Signal.Meta`, `Property.Meta`):
  the strings that come out are the strings that went in.
-/
import QiVerif.Props.C18TypeSet
import QiVerif.Props.C09
set_option linter.unusedSimpArgs false
set_option linter.unusedVariables false
namespace QiVerif.C18
open QiVerif QiVerif.Idl

/-! ### the signatures of a parsed action (meta/idl/interface.go: Method.Meta, Signal.Meta, Property.Meta) -/

/-- the signatures of the parameters, one after the other -/
def concatSigs (sc : List Entry) : List Param → Option Bytes
  | [] => some []
  | p :: r => match resolve sc p.ty, concatSigs sc r with
    | some a, some c => some (a ++ c)
    | _, _ => none

/-- `ParametersSignature` of a method, `Signature` of a signal: the tuple of the parameters; of a property with one
    parameter: the signature of that parameter -/
def actionSig (sc : List Entry) (a : Action) : Option Bytes :=
  match a.kind, a.params with
  | .prop, [p] => resolve sc p.ty
  | _, ps => (concatSigs sc ps).map (fun s => [40] ++ s ++ [41])

/-- `ReturnSignature`: `v` when the line has no returned type -/
def actionRet (sc : List Entry) (a : Action) : Option Bytes :=
  match a.ret with
  | none => some [118]
  | some t => resolve sc t

/-! ### an action of a meta-object, as strings -/

/-- `MetaMethod` / `MetaSignal` / `MetaProperty`: the signatures are strings -/
structure RawAction where
  kind : Kind
  uid : Nat
  name : Bytes
  sig : Bytes               -- `ParametersSignature`, or the `Signature` of a signal or property
  pnames : List Bytes       -- the names of `MetaMethod.Parameters`
  ret : Bytes               -- `ReturnSignature` (methods)

/-- what `generateMethod` / `generateSignal` / `generateProperty` make of it; `none`: a signature does not parse -/
def RawAction.action (a : RawAction) : Option SAction :=
  match a.kind with
  | .fn => match Sig.parseSig a.sig, Sig.parseSig a.ret with
    | .ok p, .ok r => some (methodAction a.uid a.name p a.pnames r)
    | _, _ => none
  | .sig => match Sig.parseSig a.sig with
    | .ok p => some (signalAction a.uid a.name p)
    | _ => none
  | .prop => match Sig.parseSig a.sig with
    | .ok p => some (propertyAction a.uid a.name p)
    | _ => none

theorem positional_tys : (ts : List Sig.Ty) → (i : Nat) → (positional ts i).map (·.2) = ts
  | [], _ => rfl
  | t :: r, i => by simp [positional, positional_tys r (i + 1)]

theorem namedParams_tys : (ns : List Bytes) → (ts : List Sig.Ty) → (i : Nat) → ns.length = ts.length →
    (namedParams ns ts i).map (·.2) = ts
  | [], [], _, _ => rfl
  | n :: ns, t :: ts, i, h => by simp [namedParams, namedParams_tys ns ts (i + 1) (by simpa using h)]
  | [], _ :: _, _, h => by simp at h
  | _ :: _, [], _, h => by simp at h

/-- the parameters read back, put together: the signatures of their types, one after the other -/
theorem concat_resolved (sc : List Entry) : (ps : List (Bytes × Sig.Ty)) →
    (∀ p ∈ ps, resolve sc (toIT p.2) = some (Sig.print p.2)) →
    concatSigs sc (toParams ps) = some (Sig.printList (ps.map (·.2)))
  | [], _ => by simp [toParams, concatSigs, Sig.printList]
  | (f, t) :: r, h => by
    have h1 := h (f, t) (by simp)
    have h2 := concat_resolved sc r (fun p hp => h p (by simp [hp]))
    simp only at h1
    simp [toParams, concatSigs, h1, h2, Sig.printList]

theorem chosen_tys (pnames : List Bytes) (ts : List Sig.Ty) :
    (if pnames.length == ts.length && !pnames.isEmpty then namedParams pnames ts 0 else positional ts 0).map (·.2) = ts := by
  split
  · rename_i hc
    simp only [Bool.and_eq_true, beq_iff_eq] at hc
    exact namedParams_tys pnames ts 0 hc.1
  · exact positional_tys ts 0

theorem actionSig_fn (sc : List Entry) (a : Action) (h : a.kind = .fn) :
    actionSig sc a = (concatSigs sc a.params).map (fun s => [40] ++ s ++ [41]) := by
  unfold actionSig; rw [h]

theorem actionSig_sig (sc : List Entry) (a : Action) (h : a.kind = .sig) :
    actionSig sc a = (concatSigs sc a.params).map (fun s => [40] ++ s ++ [41]) := by
  unfold actionSig; rw [h]

/-- **The signatures of a method survive**, given that its parameters and its returned value resolve
    (`generateIDL_roundtrip`): `ParametersSignature` and `ReturnSignature` read back are the strings of the meta-object. -/
theorem method_signatures (sc : List Entry) (uid : Nat) (name : Bytes) (ts : List Sig.Ty) (pnames : List Bytes) (ret : Sig.Ty)
    (hp : ∀ p ∈ (methodAction uid name (.tuple ts) pnames ret).params, resolve sc (toIT p.2) = some (Sig.print p.2))
    (hr : ∀ t, (methodAction uid name (.tuple ts) pnames ret).ret = some t → resolve sc (toIT t) = some (Sig.print t)) :
    actionSig sc (methodAction uid name (.tuple ts) pnames ret).action = some (Sig.print (.tuple ts)) ∧
    actionRet sc (methodAction uid name (.tuple ts) pnames ret).action = some (Sig.print ret) := by
  have htys : (methodAction uid name (.tuple ts) pnames ret).params.map (·.2) = ts := chosen_tys pnames ts
  constructor
  · have hc := concat_resolved sc _ hp
    rw [htys] at hc
    rw [actionSig_fn sc _ (by simp [SAction.action, methodAction])]
    have : (methodAction uid name (.tuple ts) pnames ret).action.params =
        toParams (methodAction uid name (.tuple ts) pnames ret).params := rfl
    rw [this, hc]
    simp [Sig.print]
  · simp only [actionRet, SAction.action, methodAction]
    by_cases hv : (Sig.print ret == [118]) = true
    · simp only [hv, if_true, Option.map_none]
      simp only [beq_iff_eq] at hv; rw [hv]
    · have hv' : (Sig.print ret == [118]) = false := by simpa using hv
      simp only [hv', Bool.false_eq_true, if_false, Option.map_some]
      exact hr ret (by simp [methodAction, hv'])

/-- **the signature of a signal survives** -/
theorem signal_signature (sc : List Entry) (uid : Nat) (name : Bytes) (ts : List Sig.Ty)
    (hp : ∀ p ∈ (signalAction uid name (.tuple ts)).params, resolve sc (toIT p.2) = some (Sig.print p.2)) :
    actionSig sc (signalAction uid name (.tuple ts)).action = some (Sig.print (.tuple ts)) := by
  have hc := concat_resolved sc _ hp
  simp only [signalAction, membersOf, positional_tys] at hc
  rw [actionSig_sig sc _ (by simp [SAction.action, signalAction])]
  have : (signalAction uid name (.tuple ts)).action.params = toParams (positional ts 0) := rfl
  rw [this, hc]
  simp [Sig.print]

/-- **the signature of a property survives**: a single type, or a tuple of no or several members (a tuple of one
    member is written like the member alone: the IDL cannot tell them apart) -/
theorem property_signature (sc : List Entry) (uid : Nat) (name : Bytes) (t : Sig.Ty)
    (hclass : ∀ x, t ≠ .tuple [x])
    (hp : ∀ p ∈ (propertyAction uid name t).params, resolve sc (toIT p.2) = some (Sig.print p.2)) :
    actionSig sc (propertyAction uid name t).action = some (Sig.print t) := by
  cases t with
  | tuple ts =>
    have hc := concat_resolved sc (positional ts 0) (by simpa [propertyAction] using hp)
    rw [positional_tys] at hc
    simp only [actionSig, SAction.action, propertyAction]
    cases hps : toParams (positional ts 0) with
    | nil => simp [hps] at hc ⊢; simp [Sig.print, ← hc]
    | cons p r =>
      cases r with
      | nil =>
        -- one member: excluded
        exfalso
        cases ts with
        | nil => simp [positional, toParams] at hps
        | cons x xs =>
          cases xs with
          | nil => exact hclass x rfl
          | cons y ys => simp [positional, toParams] at hps
      | cons q r' =>
        rw [hps] at hc
        simp [hc, Sig.print]
  | basic c =>
    have := hp ([112, 97, 114, 97, 109], .basic c) (by simp [propertyAction])
    simpa [actionSig, SAction.action, propertyAction, toParams] using this
  | list x =>
    have := hp ([112, 97, 114, 97, 109], .list x) (by simp [propertyAction])
    simpa [actionSig, SAction.action, propertyAction, toParams] using this
  | map k v =>
    have := hp ([112, 97, 114, 97, 109], .map k v) (by simp [propertyAction])
    simpa [actionSig, SAction.action, propertyAction, toParams] using this
  | struct n ms =>
    have := hp ([112, 97, 114, 97, 109], .struct n ms) (by simp [propertyAction])
    simpa [actionSig, SAction.action, propertyAction, toParams] using this

/-- the strings of a meta-object are read as the types that print them (C09), up to the depth `signature.Parse` allows -/
theorem raw_method (uid : Nat) (name : Bytes) (ts : List Sig.Ty) (pnames : List Bytes) (ret : Sig.Ty)
    (h1 : C09.WF (.tuple ts)) (d1 : C09.nest (.tuple ts) ≤ Sig.maxDepth) (h2 : C09.WF ret) (d2 : C09.nest ret ≤ Sig.maxDepth) :
    (RawAction.action ⟨.fn, uid, name, Sig.print (.tuple ts), pnames, Sig.print ret⟩) =
      some (methodAction uid name (.tuple ts) pnames ret) := by
  simp [RawAction.action, C09.print_parse _ h1 d1, C09.print_parse _ h2 d2]

/-! ### the meta-objects of the statement -/

/-- an action of a meta-object by its types; its strings are what `Signature()` prints -/
inductive TAction where
  | method (uid : Nat) (name : Bytes) (ts : List Sig.Ty) (pnames : List Bytes) (ret : Sig.Ty)
  | signal (uid : Nat) (name : Bytes) (ts : List Sig.Ty)
  | property (uid : Nat) (name : Bytes) (t : Sig.Ty)

/-- the strings in the meta-object -/
def TAction.raw : TAction → RawAction
  | .method uid name ts pnames ret => ⟨.fn, uid, name, Sig.print (.tuple ts), pnames, Sig.print ret⟩
  | .signal uid name ts => ⟨.sig, uid, name, Sig.print (.tuple ts), [], []⟩
  | .property uid name t => ⟨.prop, uid, name, Sig.print t, [], []⟩

/-- what `GenerateIDL` makes of it -/
def TAction.saction : TAction → SAction
  | .method uid name ts pnames ret => methodAction uid name (.tuple ts) pnames ret
  | .signal uid name ts => signalAction uid name (.tuple ts)
  | .property uid name t => propertyAction uid name t

/-- the signature strings of the action (`ParametersSignature` or `Signature`, and `ReturnSignature`) -/
def TAction.sig : TAction → Bytes
  | .method _ _ ts _ _ => Sig.print (.tuple ts)
  | .signal _ _ ts => Sig.print (.tuple ts)
  | .property _ _ t => Sig.print t
def TAction.ret : TAction → Bytes
  | .method _ _ _ _ ret => Sig.print ret
  | _ => [118]

theorem isWord_digit (c : UInt8) (h : isDigit c = true) : isWord c = true := by
  simp only [isDigit, Bool.and_eq_true, decide_eq_true_eq] at h
  simp only [isWord, Bool.or_eq_true, Bool.and_eq_true, decide_eq_true_eq, beq_iff_eq]
  exact Or.inl (Or.inl (Or.inr h))

theorem positional_ident (i : Nat) : IsIdent ([80] ++ digitsOf i) :=
  ⟨80, digitsOf i, rfl, by decide, fun c hc => isWord_digit c (digitsOf_digits i c hc)⟩

theorem inFamM_positional (F : Bytes → Option (List (Bytes × Sig.Ty))) (I : List Bytes) : (ts : List Sig.Ty) → (i : Nat) →
    InFamL F I ts → InFamM F I (positional ts i)
  | [], _, _ => by simp [positional, InFamM]
  | t :: r, i, h => by
    simp only [InFamL] at h
    simp only [positional, InFamM]
    exact ⟨positional_ident i, h.1, inFamM_positional F I r (i + 1) h.2⟩

theorem inFamM_named (F : Bytes → Option (List (Bytes × Sig.Ty))) (I : List Bytes) : (ns : List Bytes) → (ts : List Sig.Ty) → (i : Nat) →
    InFamL F I ts → (∀ k n, ns[k]? = some n → IsIdent (cleanVarName (i + k) n)) → InFamM F I (namedParams ns ts i)
  | [], _, _, _, _ => by simp [namedParams, InFamM]
  | _ :: _, [], _, _, _ => by simp [namedParams, InFamM]
  | n :: ns, t :: ts, i, h, hn => by
    simp only [InFamL] at h
    simp only [namedParams, InFamM]
    refine ⟨by simpa using hn 0 n rfl, h.1, inFamM_named F I ns ts (i + 1) h.2 ?_⟩
    intro k m hk
    have := hn (k + 1) m (by simpa using hk)
    rw [show i + (k + 1) = i + 1 + k by omega] at this
    exact this

/-- an action of the statement's class: names that are identifiers (the parameter names after `CleanVarName`), types of
    the signature grammar, nested no deeper than `MaxDepth`, structs of the family; a property is no tuple of one member -/
def TActionOK (F : Bytes → Option (List (Bytes × Sig.Ty))) (I : List Bytes) : TAction → Prop
  | .method _ name ts pnames ret =>
    IsIdent name ∧ InFamL F I ts ∧ InFam F I ret ∧ (∀ k n, pnames[k]? = some n → IsIdent (cleanVarName k n)) ∧
      C09.WF (.tuple ts) ∧ C09.nest (.tuple ts) ≤ Sig.maxDepth ∧ C09.WF ret ∧ C09.nest ret ≤ Sig.maxDepth
  | .signal _ name ts => IsIdent name ∧ InFamL F I ts ∧ C09.WF (.tuple ts) ∧ C09.nest (.tuple ts) ≤ Sig.maxDepth
  | .property _ name t =>
    IsIdent name ∧ InFam F I t ∧ (∀ x, t ≠ .tuple [x]) ∧ C09.WF t ∧ C09.nest t ≤ Sig.maxDepth

/-- the strings are read as the types (C09: `print_parse`) -/
theorem raw_action (F : Bytes → Option (List (Bytes × Sig.Ty))) (I : List Bytes) (a : TAction) (h : TActionOK F I a) :
    a.raw.action = some a.saction := by
  cases a with
  | method uid name ts pnames ret =>
    obtain ⟨_, _, _, _, w1, d1, w2, d2⟩ := h
    simp [TAction.raw, TAction.saction, RawAction.action, C09.print_parse _ w1 d1, C09.print_parse _ w2 d2]
  | signal uid name ts =>
    obtain ⟨_, _, w1, d1⟩ := h
    simp [TAction.raw, TAction.saction, RawAction.action, C09.print_parse _ w1 d1]
  | property uid name t =>
    obtain ⟨_, _, _, w1, d1⟩ := h
    simp [TAction.raw, TAction.saction, RawAction.action, C09.print_parse _ w1 d1]

theorem actionFam_of (F : Bytes → Option (List (Bytes × Sig.Ty))) (I : List Bytes) (a : TAction) (h : TActionOK F I a) :
    ActionFam F I a.saction := by
  cases a with
  | method uid name ts pnames ret =>
    obtain ⟨hn, hts, hret, hpn, _⟩ := h
    have hparams : InFamM F I (if pnames.length == ts.length && !pnames.isEmpty then namedParams pnames ts 0 else positional ts 0) := by
      split
      · exact inFamM_named F I pnames ts 0 hts (by intro k n hk; simpa using hpn k n hk)
      · exact inFamM_positional F I ts 0 hts
    refine ⟨hn, hparams, ?_⟩
    show (match (if Sig.print ret == [118] then none else some ret) with
      | some t => InFam F I t ∧ Kind.fn = Kind.fn | none => True)
    split
    · rename_i t heq
      split at heq
      · simp at heq
      · simp only [Option.some.injEq] at heq; subst heq; exact ⟨hret, rfl⟩
    · trivial
  | signal uid name ts =>
    obtain ⟨hn, hts, _⟩ := h
    exact ⟨hn, inFamM_positional F I ts 0 hts, trivial⟩
  | property uid name t =>
    obtain ⟨hn, ht, _⟩ := h
    refine ⟨hn, ?_, trivial⟩
    simp only [TAction.saction, propertyAction]
    cases t with
    | tuple ts => simp only [InFam] at ht; exact inFamM_positional F I ts 0 ht
    | basic c => exact ⟨⟨112, [97, 114, 97, 109], rfl, by decide, allWord_of _ (by decide)⟩, ht, trivial⟩
    | list x => exact ⟨⟨112, [97, 114, 97, 109], rfl, by decide, allWord_of _ (by decide)⟩, ht, trivial⟩
    | map k v => exact ⟨⟨112, [97, 114, 97, 109], rfl, by decide, allWord_of _ (by decide)⟩, ht, trivial⟩
    | struct n ms => exact ⟨⟨112, [97, 114, 97, 109], rfl, by decide, allWord_of _ (by decide)⟩, ht, trivial⟩

/-- an interface of a meta-object -/
structure TItf where
  name : Bytes
  actions : List TAction

def TItf.itf (i : TItf) : SItf := ⟨i.name, i.actions.map TAction.saction⟩

/-- **C18, end to end.**  Meta-objects (one per interface) whose names are identifiers and whose signatures are
    strings of the signature grammar — nested no deeper than `signature.Parse` accepts, their structs without name
    clashes: `GenerateIDL` reads the strings as the types that print them, writes a text that `ParsePackage`
    accepts, and the meta-objects `ParseIDL` makes of it have, for every action, the parameter / signal / property
    signature string and the return signature string of the original — struct and field names included. -/
theorem idl_roundtrip_of_signatures (name : Bytes) (hn : IsPkgName name) (F : Bytes → Option (List (Bytes × Sig.Ty)))
    (is : List TItf) (hnd : (is.map (·.name)).Nodup)
    (h : ∀ i ∈ is, i.name ∈ is.map (·.name) ∧ IsIdent i.name ∧ ∀ a ∈ i.actions, TActionOK F (is.map (·.name)) a) :
    (∀ i ∈ is, ∀ a ∈ i.actions, a.raw.action = some a.saction) ∧
    ∃ ds, parsePackage (generateIDL name (is.map TItf.itf)) = some (name, ds) ∧
      ∀ i ∈ is, ∀ a ∈ i.actions,
        actionSig (scopeOfDecls ds) a.saction.action = some a.sig ∧
        actionRet (scopeOfDecls ds) a.saction.action = some a.ret := by
  have hnames : (is.map TItf.itf).map (·.name) = is.map (·.name) := by simp [TItf.itf, Function.comp_def]
  refine ⟨fun i hi a ha => raw_action F _ a ((h i hi).2.2 a ha), ?_⟩
  obtain ⟨ds, hp, hres⟩ := generateIDL_roundtrip name hn F (is.map TItf.itf)
    (by
      intro j hj
      simp only [List.mem_map] at hj
      obtain ⟨i, hi, rfl⟩ := hj
      rw [hnames]
      refine ⟨(h i hi).1, (h i hi).2.1, ?_⟩
      intro sa hsa
      simp only [TItf.itf, List.mem_map] at hsa
      obtain ⟨a, ha, rfl⟩ := hsa
      exact actionFam_of F _ a ((h i hi).2.2 a ha))
    (by rw [hnames]; exact hnd)
  refine ⟨ds, hp, ?_⟩
  intro i hi a ha
  have hmem : TItf.itf i ∈ is.map TItf.itf := List.mem_map.mpr ⟨i, hi, rfl⟩
  have hamem : a.saction ∈ (TItf.itf i).actions := by simp only [TItf.itf, List.mem_map]; exact ⟨a, ha, rfl⟩
  obtain ⟨rp, rr⟩ := hres (TItf.itf i) hmem a.saction hamem
  have hok := (h i hi).2.2 a ha
  cases a with
  | method uid nm ts pnames ret =>
    exact method_signatures _ uid nm ts pnames ret rp rr
  | signal uid nm ts =>
    exact ⟨signal_signature _ uid nm ts rp, by simp [actionRet, TAction.saction, signalAction, SAction.action, TAction.ret]⟩
  | property uid nm t =>
    exact ⟨property_signature _ uid nm t hok.2.2.1 rp,
      by simp [actionRet, TAction.saction, propertyAction, SAction.action, TAction.ret]⟩

/-- the hypotheses are met: an interface with a method taking a struct and returning a list, a signal of two
    parameters and a property -/
def exPt : Sig.Ty := .struct [80] [([120], .basic 105), ([121], .basic 115)]
def exFamE : Bytes → Option (List (Bytes × Sig.Ty)) := fun n => if n = [80] then some [([120], .basic 105), ([121], .basic 115)] else none
def exTItfs : List TItf :=
  [⟨[73], [.method 100 [102] [exPt, .basic 98] [[97], [116, 121, 112, 101]] (.list (.basic 105)),
          .signal 101 [115] [.basic 115, .map (.basic 115) exPt],
          .property 102 [112] (.basic 102)]⟩]

example : (exTItfs.map (·.name)).Nodup ∧
    ∀ i ∈ exTItfs, i.name ∈ exTItfs.map (·.name) ∧ IsIdent i.name ∧ ∀ a ∈ i.actions, TActionOK exFamE (exTItfs.map (·.name)) a := by
  have id1 : ∀ c : UInt8, isAlphaU c = true → IsIdent [c] := fun c hc => ⟨c, [], rfl, hc, by intro x hx; cases hx⟩
  have c1 : ∀ c : UInt8, Peg.isAlpha c = true → C09.IsIdent [c] := fun c hc => ⟨c, [], rfl, hc, by simp⟩
  have famP : InFam exFamE [[73]] exPt := by
    simp only [exPt, InFam, InFamM, and_true]
    exact ⟨by simp [exFamE], by decide, ⟨80, [], rfl, by decide, (by intro x hx; cases hx), by decide⟩,
      id1 120 (by decide), by decide, id1 121 (by decide), by decide⟩
  have wfP : C09.WF exPt := by
    simp only [exPt, C09.WF, C09.WFMembers, and_true]
    exact ⟨Or.inl (c1 80 (by decide)), c1 120 (by decide), by decide, c1 121 (by decide), by decide⟩
  refine ⟨by decide, ?_⟩
  intro i hi
  simp only [exTItfs, List.mem_cons, List.mem_nil_iff, or_false] at hi; subst hi
  refine ⟨by decide, id1 73 (by decide), ?_⟩
  intro a ha
  simp only [List.mem_cons, List.mem_nil_iff, or_false] at ha
  rcases ha with rfl | rfl | rfl
  · refine ⟨id1 102 (by decide), ⟨famP, (by simp only [InFam]; decide), trivial⟩, (by simp only [InFam]; decide), ?_, ?_, ?_, ?_, ?_⟩
    · intro k n hk
      match k, hk with
      | 0, hk => simp at hk; subst hk; exact id1 97 (by decide)
      | 1, hk =>
        simp at hk; subst hk
        -- `type` is a Go keyword: the parameter is written `type_1`
        exact ⟨116, [121, 112, 101, 95, 49], by decide, by decide, allWord_of _ (by decide)⟩
      | k + 2, hk => simp at hk
    · simp only [C09.WF, C09.WFList, and_true]; exact ⟨wfP, by decide⟩
    · simp [C09.nest, C09.nestList, C09.nestMembers, exPt, Sig.maxDepth]
    · simp only [C09.WF]; decide
    · simp [C09.nest, Sig.maxDepth]
  · refine ⟨id1 115 (by decide), ⟨(by simp only [InFam]; decide), (by simp only [InFam]; exact ⟨by decide, famP⟩), trivial⟩, ?_, ?_⟩
    · simp only [C09.WF, C09.WFList, and_true]; exact ⟨by decide, by decide, wfP⟩
    · simp [C09.nest, C09.nestList, C09.nestMembers, exPt, Sig.maxDepth]
  · exact ⟨id1 112 (by decide), (by simp only [InFam]; decide), (by intro x hx; cases hx), (by simp only [C09.WF]; decide),
      (by simp [C09.nest, Sig.maxDepth])⟩

end QiVerif.C18
