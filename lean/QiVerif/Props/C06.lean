/-
  C06 — only connections that presented accepted credentials reach any service.
  For every authenticator, every set of connections, every sequence of frames (any type, ids,
  payload bytes) and every interleaving of the connection goroutines with the mailbox of
  service 0.
-/
import QiVerif.Model.Auth
set_option linter.unusedSimpArgs false
set_option linter.unusedVariables false
namespace QiVerif.C06
open QiVerif QiVerif.Auth QiVerif.Value

/-- an authenticate request (service 0, object 0, action 8) whose payload parses to a capability
    map with string (or absent) `auth_user` / `auth_token` that the authenticator accepts -/
def IsAuthRequest (acc : Authenticator) (f : Frame) : Prop :=
  f.svc = 0 ∧ f.obj = 0 ∧ f.act = authenticateAction ∧ accepted acc f.payload = true

structure Inv (cfg : Cfg) (s : Srv) : Prop where
  /-- a connection is marked authenticated only after an accepted authenticate request of its own -/
  authJust : ∀ (k : Nat) (c : Conn), s.conns[k]? = some c → c.auth = true → ∃ f ∈ c.received, IsAuthRequest cfg.acc f
  /-- the mails of service 0 are frames their connection really sent to service 0 / object 0 -/
  boxHist : ∀ p ∈ s.box, ∃ c : Conn, s.conns[p.1]? = some c ∧ p.2 ∈ c.received ∧ p.2.svc = 0 ∧ p.2.obj = 0

theorem inv_init (cfg : Cfg) : Inv cfg {} := ⟨by simp, by simp⟩

theorem classify_queued (cfg : Cfg) (c : Conn) (f : Frame) (h : classify cfg c f = .queued) : f.svc = 0 ∧ f.obj = 0 := by
  unfold classify at h
  split at h
  · cases h
  · split at h
    · cases h
    · split at h
      · cases h
      · split at h
        · cases h
        · split at h
          · rename_i hs
            split at h
            · rename_i ho; exact ⟨by simpa using hs, by simpa using ho⟩
            · cases h
          · split at h
            · split at h <;> cases h
            · cases h

theorem classify_reached (cfg : Cfg) (c : Conn) (f : Frame) (h : (classify cfg c f).reachedService = true) :
    c.auth = true ∧ c.closed = false ∧ f.svc ≠ 0 := by
  unfold classify at h
  split at h
  · cases h
  · rename_i hc
    split at h
    · cases h
    · split at h
      · cases h
      · split at h
        · cases h
        · rename_i hfw
          split at h
          · split at h <;> simp [Ev.reachedService] at h
          · rename_i hs
            have hs' : f.svc ≠ 0 := by simpa using hs
            refine ⟨?_, by simpa using hc, hs'⟩
            cases ha : c.auth with
            | true => rfl
            | false => simp [ha, hs'] at hfw

theorem authOutcome_done (acc : Authenticator) (f : Frame) (h : authOutcome acc f = .authReply 3) :
    f.act = authenticateAction ∧ accepted acc f.payload = true ∧ (f.typ = 1 ∨ f.typ = 4) := by
  unfold authOutcome at h
  split at h
  · cases h
  · rename_i hty
    split at h
    · cases h
    · rename_i ha
      refine ⟨by simpa using ha, ?_, ?_⟩
      · unfold accepted
        split at h
        · cases h
        · rename_i es he
          split at h
          · rename_i u t hc
            split at h
            · rename_i hacc; exact hacc
            · cases h
          · cases h
      · simp at hty
        by_cases h1 : f.typ = 1
        · exact Or.inl h1
        · exact Or.inr (hty h1)

theorem inv_connect (cfg : Cfg) (s : Srv) (hi : Inv cfg s) : Inv cfg (connect s) := by
  refine ⟨?_, ?_⟩
  · intro k c hk ha
    simp only [connect] at hk
    rcases Nat.lt_or_ge k s.conns.length with hlt | hge
    · rw [List.getElem?_append_left hlt] at hk; exact hi.authJust k c hk ha
    · rw [List.getElem?_append_right hge] at hk
      cases hz : k - s.conns.length with
      | zero => rw [hz] at hk; simp at hk; subst hk; cases ha
      | succ n => rw [hz] at hk; simp at hk
  · intro p hp
    obtain ⟨c, h1, h2⟩ := hi.boxHist p hp
    have hlt : p.1 < s.conns.length := by
      rcases Nat.lt_or_ge p.1 s.conns.length with h | h
      · exact h
      · rw [List.getElem?_eq_none h] at h1; cases h1
    exact ⟨c, by simp only [connect]; rw [List.getElem?_append_left hlt]; exact h1, h2⟩

theorem inv_recv (cfg : Cfg) (s : Srv) (k : Nat) (f : Frame) (hi : Inv cfg s) : Inv cfg (recv cfg s k f) := by
  unfold recv
  cases hk : s.conns[k]? with
  | none => exact hi
  | some c =>
    have hlt : k < s.conns.length := by
      rcases Nat.lt_or_ge k s.conns.length with h | h
      · exact h
      · rw [List.getElem?_eq_none h] at hk; cases hk
    simp only
    generalize hc1 : connAfter c f (classify cfg c f) = c1
    have hauth : c1.auth = c.auth := by
      rw [← hc1]; unfold connAfter; split
      · rfl
      · split <;> rfl
    have hsub : ∀ x ∈ c.received, x ∈ c1.received := by
      intro x hx; rw [← hc1]; unfold connAfter; split
      · exact hx
      · split
        · exact hx
        · exact List.mem_append_left _ hx
    refine ⟨?_, ?_⟩
    · intro j cj hj ha
      by_cases hjk : k = j
      · subst hjk
        rw [List.getElem?_set_self hlt] at hj
        injection hj with hj; subst hj
        obtain ⟨x, hx, hr⟩ := hi.authJust k c hk (by rw [← hauth]; exact ha)
        exact ⟨x, hsub x hx, hr⟩
      · rw [List.getElem?_set_ne hjk] at hj
        exact hi.authJust j cj hj ha
    · intro p hp
      have old : p ∈ s.box → ∃ c', (s.conns.set k c1)[p.1]? = some c' ∧ p.2 ∈ c'.received ∧ p.2.svc = 0 ∧ p.2.obj = 0 := by
        intro hp
        obtain ⟨c', h1, h2, h3⟩ := hi.boxHist p hp
        by_cases hpk : k = p.1
        · rw [← hpk] at h1 ⊢
          rw [hk] at h1; injection h1 with h1; subst h1
          exact ⟨c1, List.getElem?_set_self hlt, hsub _ h2, h3⟩
        · exact ⟨c', by rw [List.getElem?_set_ne hpk]; exact h1, h2, h3⟩
      split at hp
      · rename_i hq
        rcases List.mem_append.mp hp with hp | hp
        · exact old hp
        · simp at hp; subst hp
          have hq' : classify cfg c f = .queued := by simpa using hq
          refine ⟨c1, List.getElem?_set_self hlt, ?_, classify_queued cfg c f hq'⟩
          rw [← hc1, hq']; simp [connAfter]
      · exact old hp

theorem setConn_get (cs : List Conn) (k j : Nat) (g : Conn → Conn) (cj : Conn) (h : (setConn cs k g)[j]? = some cj) :
    (j ≠ k ∧ cs[j]? = some cj) ∨ (j = k ∧ ∃ c, cs[k]? = some c ∧ cj = g c) := by
  unfold setConn at h
  cases hk : cs[k]? with
  | none =>
    rw [hk] at h; simp only at h
    by_cases hjk : j = k
    · subst hjk; rw [hk] at h; cases h
    · exact Or.inl ⟨hjk, h⟩
  | some c =>
    rw [hk] at h; simp only at h
    have hlt : k < cs.length := by
      rcases Nat.lt_or_ge k cs.length with hh | hh
      · exact hh
      · rw [List.getElem?_eq_none hh] at hk; cases hk
    by_cases hjk : j = k
    · subst hjk
      rw [List.getElem?_set_self hlt] at h
      injection h with h
      exact Or.inr ⟨rfl, c, rfl, h.symm⟩
    · rw [List.getElem?_set_ne (Ne.symm hjk)] at h
      exact Or.inl ⟨hjk, h⟩

theorem inv_process (cfg : Cfg) (s : Srv) (hi : Inv cfg s) : Inv cfg (process cfg s) := by
  unfold process
  cases hb : s.box with
  | nil => exact hi
  | cons p rest =>
    obtain ⟨k, f⟩ := p
    simp only
    obtain ⟨c, hc, hf, hs0, ho0⟩ := hi.boxHist (k, f) (by rw [hb]; simp)
    refine ⟨?_, ?_⟩
    · intro j cj hj ha
      split at hj
      · rename_i hev
        have hev' : authOutcome cfg.acc f = .authReply 3 := by simpa using hev
        rcases setConn_get s.conns k j _ cj hj with ⟨_, h⟩ | ⟨rfl, c', hc', rfl⟩
        · exact hi.authJust j cj h ha
        · rw [hc] at hc'; injection hc' with hc'; subst hc'
          obtain ⟨h1, h2, _⟩ := authOutcome_done cfg.acc f hev'
          exact ⟨f, hf, hs0, ho0, h1, h2⟩
      · exact hi.authJust j cj hj ha
    · intro p hp
      obtain ⟨c', h1, h2, h3⟩ := hi.boxHist p (by rw [hb]; exact List.mem_cons_of_mem _ hp)
      split
      · by_cases hpk : p.1 = k
        · refine ⟨{ c' with auth := true }, ?_, h2, h3⟩
          rw [hpk] at h1 ⊢
          have hlt : k < s.conns.length := by
            rcases Nat.lt_or_ge k s.conns.length with hh | hh
            · exact hh
            · rw [List.getElem?_eq_none hh] at h1; cases h1
          simp only [setConn, h1]
          exact List.getElem?_set_self hlt
        · refine ⟨c', ?_, h2, h3⟩
          unfold setConn
          split
          · rw [List.getElem?_set_ne (Ne.symm hpk)]; exact h1
          · exact h1
      · exact ⟨c', h1, h2, h3⟩

theorem inv_step (cfg : Cfg) (s : Srv) (a : Action) (hi : Inv cfg s) : Inv cfg (step cfg s a) := by
  cases a with
  | connect => exact inv_connect cfg s hi
  | recv k f => exact inv_recv cfg s k f hi
  | process => exact inv_process cfg s hi

theorem inv_run (cfg : Cfg) (s : Srv) (as : List Action) (hi : Inv cfg s) : Inv cfg (run cfg s as) := by
  induction as generalizing s with
  | nil => exact hi
  | cons a r ih => exact ih _ (inv_step cfg s a hi)

/-! ### C06 -/

/-- **The gate.**  For every authenticator, every registered service set, every sequence of
    connections, frames and mailbox steps: when connection `k`'s next frame gets past the
    firewall to a service other than service 0, connection `k` itself has earlier sent an
    authenticate request whose credentials the authenticator accepts. -/
theorem gate (cfg : Cfg) (as : List Action) (k : Nat) (c : Conn) (f : Frame)
    (hk : (run cfg {} as).conns[k]? = some c) (hr : (classify cfg c f).reachedService = true) :
    ∃ f' ∈ c.received, IsAuthRequest cfg.acc f' :=
  (inv_run cfg {} as (inv_init cfg)).authJust k c hk (classify_reached cfg c f hr).1

/-- a frame for another service on a connection that has not authenticated is answered with the
    error and the connection is closed; whatever follows on that connection is not read -/
theorem refused_and_closed (cfg : Cfg) (c : Conn) (f : Frame) (ha : c.auth = false) (hc : c.closed = false)
    (hb : badType f.typ = false) (ht : ignoredType f.typ = false) (hs : f.svc ≠ 0) :
    classify cfg c f = .refusedClosed ∧
    ∀ g, classify cfg { c with received := c.received ++ [f], closed := true } g = .dead := by
  constructor
  · simp [classify, ha, hc, hb, ht, hs]
  · intro g; simp [classify]

/-- service 0 runs its method for calls and posts only: a frame of any other kind, whatever it
    carries (accepted credentials included), authenticates nothing -/
theorem only_calls_authenticate (acc : Authenticator) (f : Frame) (h : f.typ ≠ 1 ∧ f.typ ≠ 4) :
    authOutcome acc f = .silent := by
  simp [authOutcome, h.1, h.2]

/-- a type byte that is not a message type closes the connection, whatever its state -/
theorem bad_type_closes (cfg : Cfg) (c : Conn) (f : Frame) (hc : c.closed = false) (hb : badType f.typ = true) :
    classify cfg c f = .badFrame ∧ (connAfter c f .badFrame).closed = true ∧ (connAfter c f .badFrame).auth = c.auth := by
  refine ⟨by simp [classify, hc, hb], by simp [connAfter], by simp [connAfter]⟩

/-- no message type substitutes for authentication: whatever the type byte, the classification
    of a frame for another service on an unauthenticated connection is `refusedClosed` or `ignored` -/
theorem no_type_gets_through (cfg : Cfg) (c : Conn) (f : Frame) (ha : c.auth = false) (hs : f.svc ≠ 0) :
    (classify cfg c f).reachedService = false := by
  cases h : (classify cfg c f).reachedService with
  | false => rfl
  | true => have := (classify_reached cfg c f h).1; rw [ha] at this; cases this

/-- only `auth_user` and `auth_token` of the client's map count: two maps with the same
    credentials have the same outcome — a forged `__qi_auth_state` (or any other entry) changes nothing -/
theorem only_credentials_matter (acc : Authenticator) (p q : Bytes) (es es' : List (Bytes × Val))
    (hp : readCapMap p = .ok es) (hq : readCapMap q = .ok es') (h : credentials es = credentials es') :
    accepted acc p = accepted acc q := by
  simp [accepted, hp, hq, h]

/-- wrongly typed credentials never authenticate -/
theorem wrong_type_refused (acc : Authenticator) (p : Bytes) (es : List (Bytes × Val)) (hp : readCapMap p = .ok es)
    (v : Val) (hv : lookup es keyUser = some v ∨ lookup es keyToken = some v) (hns : ∀ b, v ≠ .str b) :
    accepted acc p = false := by
  have : credentials es = none := by
    unfold credentials credential
    rcases hv with hv | hv
    · rw [hv]; cases v <;> simp_all
    · rw [hv]; cases v <;> simp_all
      all_goals (split <;> rfl)
  simp [accepted, hp, this]

/-- a payload that does not parse as a capability map never authenticates -/
theorem garbage_refused (acc : Authenticator) (p : Bytes) (e : Err) (hp : readCapMap p = .error e) :
    accepted acc p = false := by simp [accepted, hp]

/-- authenticating one connection grants nothing to another: a mailbox step changes at most the
    connection the mail came from, a connection step only its own connection -/
theorem other_connections_untouched (cfg : Cfg) (s : Srv) (j : Nat) :
    (∀ k f, j ≠ k → (recv cfg s k f).conns[j]? = s.conns[j]?) ∧
    (∀ k f rest, s.box = (k, f) :: rest → j ≠ k → (process cfg s).conns[j]? = s.conns[j]?) := by
  constructor
  · intro k f hjk
    unfold recv
    cases hk : s.conns[k]? with
    | none => rfl
    | some c => simp only; rw [List.getElem?_set_ne (Ne.symm hjk)]
  · intro k f rest hb hjk
    unfold process
    rw [hb]; simp only
    split
    · unfold setConn
      split
      · rw [List.getElem?_set_ne (Ne.symm hjk)]
      · rfl
    · rfl

/-- a new connection starts unauthenticated -/
theorem fresh_connection_unauthenticated (s : Srv) :
    (connect s).conns[s.conns.length]? = some { auth := false, closed := false, received := [] } := by
  simp [connect]

end QiVerif.C06
