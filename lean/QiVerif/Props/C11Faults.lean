/-
  C11 — a read fault in the middle of a message.  `basic.ReadN` ends with an error as soon as a `Read`
  reports an error that is not end-of-stream, whatever number of bytes came with it; so a fault that arrives
  together with bytes of a message — in its header, across the header boundary, in its payload, with its very
  last byte — makes `Message.Read` fail for that message, and `process` shuts the endpoint down
  (Props/C11: `no_call_left_waiting`, `callbacks_once_subscriptions_closed`).  The fault is reported once:
  the stream behind it may go on as if nothing had happened, and that changes nothing.
-/
import QiVerif.Props.C01
set_option linter.unusedSimpArgs false
set_option linter.unusedVariables false
namespace QiVerif.C11Faults
open QiVerif QiVerif.Message

/-- a stretch of the stream that is plain data: non-empty reads, no end-of-stream, no failure -/
def Plain : Stream → Prop
  | [] => True
  | .data bs false :: r => bs ≠ [] ∧ Plain r
  | _ => False

theorem plain_flat_nil (pre : Stream) (hp : Plain pre) (h : flat pre = []) : pre = [] := by
  cases pre with
  | nil => rfl
  | cons c r =>
    cases c with
    | fail => simp [Plain] at hp
    | dataErr bs => simp [Plain] at hp
    | data bs e =>
      cases e with
      | true => simp [Plain] at hp
      | false =>
        simp only [Plain] at hp
        simp only [flat, Bool.false_eq_true, if_false, List.append_eq_nil_iff] at h
        exact absurd h.1 hp.1

/-- fewer plain bytes than asked for: `ReadN` takes them all and goes on with what follows -/
theorem readN_plain_short (pre tail : Stream) (need : Nat) (acc : Bytes) (hp : Plain pre)
    (hlt : (flat pre).length < need) :
    readN need (pre ++ tail) acc = readN (need - (flat pre).length) tail (acc ++ flat pre) := by
  induction pre generalizing need acc with
  | nil => simp [flat]
  | cons c r ih =>
    cases c with
    | fail => simp [Plain] at hp
    | dataErr bs => simp [Plain] at hp
    | data bs e =>
      cases e with
      | true => simp [Plain] at hp
      | false =>
        simp only [Plain] at hp
        simp only [flat, Bool.false_eq_true, if_false, List.length_append] at hlt ⊢
        have hpos : bs.length ≠ 0 := fun h => hp.1 (List.length_eq_zero_iff.mp h)
        have hz : need ≠ 0 := by omega
        have h1 : bs.length < need := by omega
        rw [List.cons_append]
        conv => lhs; unfold readN
        simp only [hz, if_false, hpos, h1, if_true, Bool.false_eq_true]
        rw [ih (need - bs.length) (acc ++ bs) hp.2 (by omega)]
        congr 1
        · omega
        · simp

/-- enough plain bytes: `ReadN` returns the first `need` of them and leaves the others -/
theorem readN_plain_enough (pre tail : Stream) (need : Nat) (acc : Bytes) (hp : Plain pre)
    (hge : need ≤ (flat pre).length) :
    ∃ pre', readN need (pre ++ tail) acc = .ok (acc ++ (flat pre).take need, pre' ++ tail) ∧ Plain pre' ∧
      flat pre' = (flat pre).drop need := by
  induction pre generalizing need acc with
  | nil =>
    simp only [flat, List.length_nil, Nat.le_zero_eq] at hge; subst hge
    exact ⟨[], by unfold readN; simp [flat], trivial, by simp [flat]⟩
  | cons c r ih =>
    cases c with
    | fail => simp [Plain] at hp
    | dataErr bs => simp [Plain] at hp
    | data bs e =>
      cases e with
      | true => simp [Plain] at hp
      | false =>
        simp only [Plain] at hp
        have hpos : bs.length ≠ 0 := fun h => hp.1 (List.length_eq_zero_iff.mp h)
        by_cases hz : need = 0
        · subst hz
          exact ⟨.data bs false :: r, by simp [readN], hp, by simp⟩
        · simp only [flat, Bool.false_eq_true, if_false, List.length_append] at hge ⊢
          rw [List.cons_append]
          conv => enter [1, pre', 1, 1]; unfold readN
          simp only [hz, if_false, hpos, Bool.false_eq_true]
          by_cases h1 : bs.length < need
          · simp only [h1, if_true]
            obtain ⟨pre', e1, e2, e3⟩ := ih (need - bs.length) (acc ++ bs) hp.2 (by omega)
            refine ⟨pre', ?_, e2, ?_⟩
            · rw [e1]
              congr 2
              rw [List.take_append]
              have : List.take need bs = bs := List.take_of_length_le (by omega)
              simp [this]
            · rw [e3, List.drop_append]
              have : List.drop need bs = [] := List.drop_of_length_le (by omega)
              simp [this]
          · simp only [h1, if_false]
            by_cases h2 : bs.length = need
            · simp only [h2, if_true]
              refine ⟨r, ?_, hp.2, ?_⟩
              · congr 2
                rw [List.take_append_of_le_length (by omega)]
                rw [List.take_of_length_le (by omega)]
              · rw [List.drop_append_of_le_length (by omega)]
                rw [List.drop_of_length_le (by omega)]; simp
            · simp only [h2, if_false]
              have hlt : need < bs.length := by omega
              refine ⟨.data (bs.drop need) false :: r, ?_, ⟨?_, hp.2⟩, ?_⟩
              · simp only [List.cons_append]
                congr 2
                rw [List.take_append_of_le_length (by omega)]
              · intro h
                have := congrArg List.length h
                simp at this; omega
              · simp only [flat, Bool.false_eq_true, if_false]
                rw [List.drop_append_of_le_length (by omega)]

/-- **a fault inside a `ReadN`**: the error that comes with the last bytes the call would take — or with
    fewer — ends the call with an error, whatever the stream holds behind it -/
theorem readN_fault (pre rest : Stream) (bs : Bytes) (need : Nat) (acc : Bytes) (hp : Plain pre)
    (h1 : (flat pre).length < need) (h2 : (flat pre).length + bs.length ≤ need) :
    readN need (pre ++ .dataErr bs :: rest) acc = .error .err := by
  rw [readN_plain_short pre _ need acc hp h1]
  unfold readN
  have hz : need - (flat pre).length ≠ 0 := by omega
  have hn : ¬ need - (flat pre).length < bs.length := by omega
  simp [hz, hn]

/-- a call that needs fewer bytes than the faulty read holds gets its bytes; the fault stays ahead -/
theorem readN_fault_later (pre rest : Stream) (bs : Bytes) (need : Nat) (acc : Bytes) (hp : Plain pre)
    (h1 : (flat pre).length < need) (h2 : need < (flat pre).length + bs.length) :
    readN need (pre ++ .dataErr bs :: rest) acc =
      .ok (acc ++ flat pre ++ bs.take (need - (flat pre).length), .dataErr (bs.drop (need - (flat pre).length)) :: rest) := by
  rw [readN_plain_short pre _ need acc hp h1]
  unfold readN
  have hz : need - (flat pre).length ≠ 0 := by omega
  have hn : need - (flat pre).length < bs.length := by omega
  simp [hz, hn]

/-- **A read fault that arrives with bytes of a message makes the read of that message fail** — wherever
    it falls: the reads before it (`pre`) are plain data of any sizes, the faulty read carries `bs` (possibly
    nothing, possibly the very last bytes of the message), `rest` is anything at all. -/
theorem read_fault_ends_the_message (max : Nat) (m : Msg) (hv : ValidMsg max m) (pre rest : Stream) (bs t : Bytes)
    (hp : Plain pre) (hw : wire m = flat pre ++ bs ++ t) (hpos : (flat pre).length < (wire m).length) :
    (readMsg max (pre ++ .dataErr bs :: rest)).1 = .error .err := by
  obtain ⟨hh, hsz, hmax⟩ := hv
  have hlen28 := C01.encodeHeader_length m.header
  have hwl : (wire m).length = 28 + m.payload.length := by simp [wire, hlen28]
  have hsum : (flat pre).length + bs.length + t.length = 28 + m.payload.length := by
    rw [← hwl, hw]; simp; omega
  unfold readMsg
  by_cases ha : (flat pre).length < 28
  · by_cases hb : (flat pre).length + bs.length ≤ 28
    · -- the fault falls inside the header
      rw [readN_fault pre rest bs headerSize [] hp (by simpa [headerSize] using ha) (by simpa [headerSize] using hb)]
    · -- the faulty read spans the end of the header
      rw [readN_fault_later pre rest bs headerSize [] hp (by simpa [headerSize] using ha) (by simp [headerSize]; omega)]
      have hhdr : ([] : Bytes) ++ flat pre ++ bs.take (headerSize - (flat pre).length) = encodeHeader m.header := by
        have e1 : (wire m).take 28 = encodeHeader m.header := by
          rw [wire, List.take_append_of_le_length (by omega)]
          exact List.take_of_length_le (by omega)
        rw [← e1, hw, List.append_assoc, List.take_append, List.take_append]
        have : List.take 28 (flat pre) = flat pre := List.take_of_length_le (by omega)
        have h0 : 28 - ((flat pre).length + bs.length) = 0 := by omega
        have h0' : 28 - (flat pre).length - bs.length = 0 := by omega
        simp [this, headerSize, h0, h0']
      simp only [hhdr, C01.header_roundtrip _ hh]
      have hnot : ¬ m.header.size > max := by omega
      have hz : m.header.size ≠ 0 := by omega
      simp only [hnot, if_false, hz]
      unfold readN
      have hn : ¬ m.header.size < bs.length - (headerSize - (flat pre).length) := by
        simp [headerSize]; omega
      simp [hz, hn]
  · -- the header is read from plain data; the fault falls inside the payload
    obtain ⟨pre', e1, e2, e3⟩ := readN_plain_enough pre (.dataErr bs :: rest) headerSize [] hp (by simp [headerSize]; omega)
    rw [e1]
    have hhdr : ([] : Bytes) ++ (flat pre).take headerSize = encodeHeader m.header := by
      have e1 : (wire m).take 28 = encodeHeader m.header := by
        rw [wire, List.take_append_of_le_length (by omega)]
        exact List.take_of_length_le (by omega)
      rw [← e1, hw, List.append_assoc, List.take_append_of_le_length (by omega)]
      simp [headerSize]
    simp only [hhdr, C01.header_roundtrip _ hh]
    have hnot : ¬ m.header.size > max := by omega
    have hz : m.header.size ≠ 0 := by omega
    simp only [hnot, if_false, hz]
    have hl' : (flat pre').length = (flat pre).length - 28 := by rw [e3]; simp [headerSize]
    rw [readN_fault pre' rest bs m.header.size [] e2 (by omega) (by omega)]

/-- the premises can be met: a fault with the last three bytes of a message, after its header came in two reads -/
example :
    (readMsg 100 ([.data ((wire C01.sampleMsg).take 10) false, .data (((wire C01.sampleMsg).drop 10).take 18) false] ++
      .dataErr [1, 2, 3] :: [.data [9, 9] false])).1 = .error .err := by
  have hv : ValidMsg 100 C01.sampleMsg := by
    refine ⟨?_, rfl, by decide⟩
    unfold ValidHeader C01.sampleMsg C01.sampleHeader magicConst versionConst; simp
  exact read_fault_ends_the_message 100 C01.sampleMsg hv _ _ [1, 2, 3] []
    ⟨by decide, by decide, trivial⟩ (by decide) (by decide)

end QiVerif.C11Faults
