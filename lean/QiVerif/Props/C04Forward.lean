/-
  C04 for calls the server forwards to an object hosted by a client (Model/Forward.lean).  The goroutine that
  serves such a call answers later than the object's `Receive` returns, after a call of its own to the host, in
  whatever order the hosts answer.  Shown for every interleaving of callers, hosts, forwarding and answering
  steps: the callers' side of the composed system satisfies the invariant of the plain call machine for the
  environment in which a client object computes what its host computes — a forwarded call is a call: its own
  answer, computed once by the host on this call's own argument, at most one response.
-/
import QiVerif.Model.Forward
import QiVerif.Props.C04
set_option linter.unusedSimpArgs false
set_option linter.unusedVariables false
namespace QiVerif.C04
open QiVerif QiVerif.Calls QiVerif.Forward

/-- the identity of a request: what no step changes -/
def SameId (c' c : CallRec) : Prop := c'.key = c.key ∧ c'.arg = c.arg ∧ c'.isPost = c.isPost

theorem sameId_refl (c : CallRec) : SameId c c := ⟨rfl, rfl, rfl⟩

/-- every request is still there after the step, with its identity -/
def Keeps (l l' : List CallRec) : Prop :=
  ∀ (j : Nat) (c : CallRec), l[j]? = some c → ∃ c' : CallRec, l'[j]? = some c' ∧ SameId c' c

theorem keeps_refl (l : List CallRec) : Keeps l l := fun j c h => ⟨c, h, sameId_refl c⟩

theorem keeps_append (l : List CallRec) (x : CallRec) : Keeps l (l ++ [x]) := by
  intro j c h
  have hlt : j < l.length := by
    rcases Nat.lt_or_ge j l.length with h' | h'
    · exact h'
    · rw [List.getElem?_eq_none (by simpa using h')] at h; cases h
  exact ⟨c, by rw [List.getElem?_append_left hlt]; exact h, sameId_refl c⟩

theorem keeps_set (l : List CallRec) (i : Nat) (c0 x : CallRec) (h0 : l[i]? = some c0) (hx : SameId x c0) :
    Keeps l (l.set i x) := by
  intro j c h
  by_cases hji : i = j
  · subst hji
    have hlt : i < l.length := by
      rcases Nat.lt_or_ge i l.length with h' | h'
      · exact h'
      · rw [List.getElem?_eq_none (by simpa using h')] at h; cases h
    rw [h0] at h; cases h
    exact ⟨x, List.getElem?_set_self hlt, hx⟩
  · exact ⟨c, by rw [List.getElem?_set_ne hji]; exact h, sameId_refl c⟩

theorem keeps_map (l : List CallRec) (f : CallRec → CallRec) (hf : ∀ c, SameId (f c) c) : Keeps l (l.map f) := by
  intro j c h
  exact ⟨f c, by simp [List.getElem?_map, h], hf c⟩

theorem keeps_trans (a b c : List CallRec) (h1 : Keeps a b) (h2 : Keeps b c) : Keeps a c := by
  intro j x h
  obtain ⟨x', hx', s1⟩ := h1 j x h
  obtain ⟨x'', hx'', s2⟩ := h2 j x' hx'
  exact ⟨x'', hx'', ⟨s2.1.trans s1.1, s2.2.1.trans s1.2.1, s2.2.2.trans s1.2.2⟩⟩

theorem keeps_modify (l : List CallRec) (i : Nat) (f : CallRec → CallRec) (hf : ∀ c, SameId (f c) c) :
    Keeps l (Calls.modify l i f) := by
  unfold Calls.modify
  cases h : l[i]? with
  | none => exact keeps_refl l
  | some c => exact keeps_set l i c (f c) h (hf c)

theorem keeps_call (s : Sys) (cl conn sv o a x : Nat) : Keeps s.calls (call s cl conn sv o a x).calls := by
  unfold call nextId
  cases s.policy <;> exact keeps_append _ _

theorem call_new (s : Sys) (cl conn sv o a x : Nat) :
    ∃ cj : CallRec, (call s cl conn sv o a x).calls[s.calls.length]? = some cj ∧ cj.isPost = false ∧ cj.key.svc = sv ∧
      cj.key.obj = o ∧ cj.key.act = a ∧ cj.arg = x := by
  unfold call nextId
  cases s.policy
  · exact ⟨{ conn := conn, key := ⟨sv, o, a, s.shared + 2⟩, arg := x, isPost := false }, by simp, rfl, rfl, rfl, rfl, rfl⟩
  · exact ⟨{ conn := conn, key := ⟨sv, o, a, (s.perClient[cl]?).getD 1 + 2⟩, arg := x, isPost := false }, by simp,
      rfl, rfl, rfl, rfl, rfl⟩

theorem keeps_post (s : Sys) (conn sv o a id x : Nat) : Keeps s.calls (post s conn sv o a id x).calls :=
  keeps_append _ _

theorem keeps_serve (env : Env) (s : Sys) (i : Nat) : Keeps s.calls (serve env s i).calls := by
  unfold serve
  cases h : s.calls[i]? with
  | none => exact keeps_refl _
  | some c =>
    simp only
    split
    · exact keeps_refl _
    · split
      · split <;> exact keeps_set _ _ c _ h ⟨rfl, rfl, rfl⟩
      · split <;> exact keeps_set _ _ c _ h ⟨rfl, rfl, rfl⟩

theorem keeps_deliver (s : Sys) (i : Nat) : Keeps s.calls (deliver s i).calls := by
  unfold deliver
  cases h : s.calls[i]? with
  | none => exact keeps_refl _
  | some ci =>
    simp only
    cases hs : ci.stage with
    | sent => exact keeps_refl _
    | done => exact keeps_refl _
    | answered r =>
      simp only
      refine keeps_trans _ _ _ (keeps_map _ _ ?_) (keeps_modify _ _ _ (fun c => ⟨rfl, rfl, rfl⟩))
      intro c; split <;> exact ⟨rfl, rfl, rfl⟩

theorem keeps_other (env : Env) (s : Sys) (t sv o a : Nat) : Keeps s.calls (other env s t sv o a).calls := by
  rw [other_kinds_touch_no_call]; exact keeps_refl _

theorem keeps_outStep (g : Cfg) (s : Sys) (a : Action) : Keeps s.calls (outStep g s a).calls := by
  cases a with
  | call cl c sv o a x => exact keeps_call s cl c sv o a x
  | post c sv o a id x => exact keeps_post s c sv o a id x
  | serve i =>
    simp only [outStep]
    cases h : s.calls[i]? with
    | none => exact keeps_refl _
    | some c => simp only; split
                · exact keeps_refl _
                · exact keeps_serve _ s i
  | deliver i => exact keeps_deliver s i
  | other t sv o a => exact keeps_other _ s t sv o a

theorem keeps_innStep (g : Cfg) (s : Sys) (a : Action) : Keeps s.calls (innStep g s a).calls := by
  cases a with
  | call cl c sv o a x => exact keeps_refl _
  | post c sv o a id x => exact keeps_post s c sv o a id x
  | serve i => exact keeps_serve _ s i
  | deliver i => exact keeps_deliver s i
  | other t sv o a => exact keeps_other _ s t sv o a

/-! ### the invariant of the composed system -/

/-- goroutine `fw` holds a request for a client object and has made the call that request asks for: same service and
    action, the object's identifier on its host's side, the request's own argument -/
def Link (g : Cfg) (s : FSys) (fw : Fwd) : Prop :=
  ∃ c cj, s.out.calls[fw.outer]? = some c ∧ s.inn.calls[fw.inner]? = some cj ∧ forwarded g c = true ∧ c.isPost = false ∧
    cj.isPost = false ∧ cj.key.svc = c.key.svc ∧ cj.key.obj = g.remote c.key.svc c.key.obj ∧ cj.key.act = c.key.act ∧
    cj.arg = c.arg

structure FInv (g : Cfg) (s : FSys) : Prop where
  out : Inv g.env s.out
  inn : Inv g.host s.inn
  links : ∀ fw ∈ s.fwd, Link g s fw

theorem finv_init (g : Cfg) : FInv g {} := ⟨inv_init _, inv_init _, by simp⟩

/-- a link survives whatever keeps the requests of both machines -/
theorem link_keeps (g : Cfg) (s s' : FSys) (fw : Fwd) (h : Link g s fw) (ho : Keeps s.out.calls s'.out.calls)
    (hi : Keeps s.inn.calls s'.inn.calls) : Link g s' fw := by
  obtain ⟨c, cj, h1, h2, h3, h4, h5, h6, h7, h8, h9⟩ := h
  obtain ⟨c', hc', ⟨k1, a1, p1⟩⟩ := ho _ _ h1
  obtain ⟨cj', hcj', ⟨k2, a2, p2⟩⟩ := hi _ _ h2
  refine ⟨c', cj', hc', hcj', ?_, by rw [p1]; exact h4, by rw [p2]; exact h5, ?_, ?_, ?_, by rw [a1, a2]; exact h9⟩
  · unfold forwarded at h3 ⊢; rw [k1]; exact h3
  · rw [k1, k2]; exact h6
  · rw [k1, k2]; exact h7
  · rw [k1, k2]; exact h8

theorem inv_outStep (g : Cfg) (s : Sys) (a : Action) (hi : Inv g.env s) : Inv g.env (outStep g s a) := by
  cases a with
  | call cl c sv o a x => exact inv_call _ s cl c sv o a x hi
  | post c sv o a id x => exact inv_post _ s c sv o a id x hi
  | serve i =>
    simp only [outStep]
    cases h : s.calls[i]? with
    | none => exact hi
    | some c => simp only; split
                · exact hi
                · exact inv_serve _ s i hi
  | deliver i => exact inv_deliver _ s i hi
  | other t sv o a => exact inv_other _ s t sv o a hi

theorem inv_innStep (g : Cfg) (s : Sys) (a : Action) (hi : Inv g.host s) : Inv g.host (innStep g s a) := by
  cases a with
  | call cl c sv o a x => exact hi
  | post c sv o a id x => exact inv_post _ s c sv o a id x hi
  | serve i => exact inv_serve _ s i hi
  | deliver i => exact inv_deliver _ s i hi
  | other t sv o a => exact inv_other _ s t sv o a hi

/-- what the goroutine answers with is what the plain machine's `serve` would have produced for the composed
    environment: the host's result for this request's own argument, computed once — or the host's refusal -/
theorem answer_good (g : Cfg) (c cj : CallRec) (r : Res) (hgc : Good g.env c) (hs : c.stage = .sent)
    (hgj : Good g.host cj) (hfw : forwarded g c = true) (hp : c.isPost = false) (hpj : cj.isPost = false)
    (ho : cj.outcome = some r)
    (h6 : cj.key.svc = c.key.svc) (h7 : cj.key.obj = g.remote c.key.svc c.key.obj) (h8 : cj.key.act = c.key.act)
    (h9 : cj.arg = c.arg) : Good g.env (answerRec c r) := by
  simp only [Good, hs] at hgc
  obtain ⟨he, hr, hout⟩ := hgc
  -- the inner call has an outcome: it is done, and its outcome is justified
  have hj : Just g.host cj r := by
    unfold Good at hgj
    split at hgj
    · rw [hgj.2.2] at ho; cases ho
    · rw [hgj.2.2.1] at ho; cases ho
    · simp only [hpj, Bool.false_eq_true, if_false] at hgj
      obtain ⟨r', hr', _, hj'⟩ := hgj
      rw [hr'] at ho; cases ho; exact hj'
  have hk : knownOf g.env c = knownOf g.host cj := by
    unfold forwarded at hfw
    simp [knownOf, Cfg.env, hfw, h6, h7, h8]
  have hres : resultOf g.env c = resultOf g.host cj := by
    unfold forwarded at hfw
    simp [resultOf, Cfg.env, hfw, h6, h7, h8, h9]
  rcases hj with ⟨k1, k2, k3⟩ | ⟨k1, k2, k3⟩
  · subst k2
    simp only [answerRec, Good]
    exact ⟨hp, by omega, hout, Or.inl ⟨by simp [knownOf] at hk k1 ⊢; rw [hk]; exact k1, by
      simp only [resultOf] at hres ⊢; rw [hres], by simp; omega⟩⟩
  · subst k2
    simp only [answerRec, Good]
    exact ⟨hp, by omega, hout, Or.inr ⟨by simp [knownOf] at hk k1 ⊢; rw [hk]; exact k1, rfl, he⟩⟩

theorem mem_set_fwd (l : List Fwd) (k : Nat) (x fw : Fwd) (h : fw ∈ l.set k x) : fw ∈ l ∨ fw = x := by
  rcases List.mem_or_eq_of_mem_set h with h | h
  · exact Or.inl h
  · exact Or.inr h

theorem finv_step (g : Cfg) (s : FSys) (a : FAct) (hi : FInv g s) : FInv g (stepF g s a) := by
  cases a with
  | out a =>
    refine ⟨inv_outStep g s.out a hi.out, hi.inn, ?_⟩
    intro fw hfw
    exact link_keeps g s _ fw (hi.links fw hfw) (keeps_outStep g s.out a) (keeps_refl _)
  | inn a =>
    refine ⟨hi.out, inv_innStep g s.inn a hi.inn, ?_⟩
    intro fw hfw
    exact link_keeps g s _ fw (hi.links fw hfw) (keeps_refl _) (keeps_innStep g s.inn a)
  | forward i =>
    simp only [stepF]
    cases hc : s.out.calls[i]? with
    | none => exact hi
    | some c =>
      simp only
      split
      · rename_i hcond
        simp only [Bool.and_eq_true, Bool.not_eq_true', beq_iff_eq] at hcond
        obtain ⟨⟨⟨hs, hp⟩, hf⟩, _⟩ := hcond
        refine ⟨hi.out, inv_call _ _ _ _ _ _ _ _ hi.inn, ?_⟩
        intro fw hfw
        rcases List.mem_append.mp hfw with hfw | hfw
        · exact link_keeps g s _ fw (hi.links fw hfw) (keeps_refl _) (keeps_call _ _ _ _ _ _ _)
        · simp only [List.mem_singleton] at hfw
          subst hfw
          obtain ⟨cj, hcj, q1, q2, q3, q4, q5⟩ :=
            call_new s.inn 0 c.key.obj c.key.svc (g.remote c.key.svc c.key.obj) c.key.act c.arg
          exact ⟨c, cj, hc, hcj, hf, hp, q1, q2, q3, q4, q5⟩
      · exact hi
  | answer k =>
    simp only [stepF]
    cases hf : s.fwd[k]? with
    | none => exact hi
    | some fw =>
      simp only
      split
      · exact hi
      · have hmem : fw ∈ s.fwd := List.mem_of_getElem? hf
        obtain ⟨c, cj, h1, h2, h3, h4, h5, h6, h7, h8, h9⟩ := hi.links fw hmem
        simp only [h1, h2]
        cases ho : cj.outcome with
        | none => exact hi
        | some r =>
          simp only
          split
          · exact hi
          · rename_i hst
            have hs : c.stage = .sent := by simpa using hst
            have hgood := answer_good g c cj r (hi.out.good _ c h1) hs (hi.inn.good _ cj h2) h3 h4 h5 ho h6 h7 h8 h9
            have hsame : SameId (answerRec c r) c := by cases r <;> exact ⟨rfl, rfl, rfl⟩
            refine ⟨inv_set _ s.out fw.outer c _ hi.out h1 hsame.1 hsame.2.2 hgood, hi.inn, ?_⟩
            intro fw' hfw'
            have hk : Keeps s.out.calls (s.out.calls.set fw.outer (answerRec c r)) := keeps_set _ _ c _ h1 hsame
            rcases mem_set_fwd _ _ _ _ hfw' with h | h
            · exact link_keeps g s _ fw' (hi.links fw' h) hk (keeps_refl _)
            · subst h
              exact link_keeps g s _ _ (hi.links fw hmem) hk (keeps_refl _)

theorem finv_run (g : Cfg) (s : FSys) (as : List FAct) (hi : FInv g s) : FInv g (runF g s as) := by
  induction as generalizing s with
  | nil => exact hi
  | cons a r ih => exact ih _ (finv_step g s a hi)

/-! ### C04, for forwarded calls -/

/-- **A forwarded call is a call.**  On every interleaving of callers, hosts, forwarding goroutines and their
    answers, the callers' side of the composed system satisfies the invariant of the plain call machine for the
    environment in which a client object computes what its host computes: all of Props/C04.lean applies. -/
theorem forwarded_call_is_a_call (g : Cfg) (as : List FAct) : Inv g.env (runF g {} as).out :=
  (finv_run g {} as (finv_init g)).out

/-- **Its own answer, computed once by the host**: a call to an object hosted by a client that returned a result
    returned what the host computes for *this call's own argument*, and the host computed it once — however late the
    goroutines answer and in whatever order. -/
theorem forwarded_own_answer (g : Cfg) (as : List FAct) (i : Nat) (c : CallRec) (v : Nat)
    (hc : (runF g {} as).out.calls[i]? = some c) (hf : forwarded g c = true) (ho : c.outcome = some (.reply v)) :
    v = g.host.f c.key.svc (g.remote c.key.svc c.key.obj) c.key.act c.arg ∧ c.execs = 1 := by
  have hg := (forwarded_call_is_a_call g as).good i c hc
  unfold Good at hg
  unfold forwarded at hf
  split at hg
  · rw [hg.2.2] at ho; cases ho
  · rw [hg.2.2.1] at ho; cases ho
  · split at hg
    · rw [hg.1] at ho; cases ho
    · obtain ⟨r, hr, _, hj⟩ := hg
      rw [hr] at ho; injection ho with ho; subst ho
      rcases hj with ⟨_, h2, h3⟩ | ⟨_, h2, _⟩
      · injection h2 with h2
        refine ⟨?_, h3⟩
        rw [h2]; simp [resultOf, Cfg.env, hf]
      · cases h2

/-- at most one response for a forwarded request, at most one execution, an error means the host ran nothing -/
theorem forwarded_at_most_once (g : Cfg) (as : List FAct) (i : Nat) (c : CallRec)
    (hc : (runF g {} as).out.calls[i]? = some c) :
    c.execs ≤ 1 ∧ c.responses ≤ 1 ∧ (c.outcome = some .error → c.execs = 0) := by
  have hg := (forwarded_call_is_a_call g as).good i c hc
  unfold Good at hg
  split at hg
  · exact ⟨by omega, by omega, fun h => by rw [hg.2.2] at h; cases h⟩
  · obtain ⟨_, h2, h3, hj⟩ := hg
    refine ⟨?_, by omega, fun h => by rw [h3] at h; cases h⟩
    rcases hj with ⟨_, _, h⟩ | ⟨_, _, h⟩ <;> omega
  · split at hg
    · exact ⟨hg.2.1, by omega, fun h => by rw [hg.1] at h; cases h⟩
    · obtain ⟨r, hr, h2, hj⟩ := hg
      refine ⟨?_, by omega, ?_⟩
      · rcases hj with ⟨_, _, h⟩ | ⟨_, _, h⟩ <;> omega
      · intro h; rw [hr] at h; injection h with h; subst h
        rcases hj with ⟨_, h2, _⟩ | ⟨_, _, h⟩
        · cases h2
        · exact h

/-! ### non-vacuity: two callers of one client object, the host answers the second call first -/

def exCfg : Cfg :=
  { isFwd := fun s o => s == 5 && o == 9, remote := fun _ _ => 2147483655,
    own := { known := fun _ _ _ => false, f := fun _ _ _ _ => 0 },
    host := { known := fun s o a => s == 5 && o == 2147483655 && a == 200, f := fun _ _ _ x => x * 10 } }

def exActs : List FAct :=
  [.out (.call 0 1 5 9 200 3), .out (.call 1 1 5 9 200 4), .forward 0, .forward 1,
   .inn (.serve 1), .inn (.deliver 1), .answer 1, .inn (.serve 0), .inn (.deliver 0), .answer 0,
   .out (.deliver 1), .out (.deliver 0)]

example : ((runF exCfg {} exActs).out.calls.map (fun c => (c.arg, c.outcome, c.execs))) =
    [(3, some (.reply 30), 1), (4, some (.reply 40), 1)] := by decide

end QiVerif.C04
