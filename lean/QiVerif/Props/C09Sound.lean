/-
  C09, the other direction — what `signature.Parse` does on *every* byte string.

  `Props/C09.lean` shows that a printed type parses back to itself.  Here the parser is followed on an
  arbitrary input: with the fuel `Parse` has (a call depth proportional to the length of the text) it
  never runs out of stack, no callback ever meets a node shape it cannot handle (no failed type
  assertion, no index out of range), and whatever it accepts is the printed form of a type of the
  grammar, up to the white space the tokeniser skips.  Hence: every input is answered with a type or an
  error, and parsing the printed form of an accepted input gives the same type again (fixed point).
-/
import QiVerif.Props.C09
set_option linter.unusedSimpArgs false
set_option linter.unusedVariables false
namespace QiVerif.C09
open QiVerif QiVerif.Peg QiVerif.Sig

/-! ### outcomes with a specification -/

/-- the run did not run out of fuel, and if it succeeded its result satisfies `Q` -/
def Spec {β : Type} (Q : β → Bytes → Prop) : R β → Prop
  | .oof => False
  | .fail => True
  | .ok v rest => Q v rest

theorem Spec.mono {β : Type} {Q Q' : β → Bytes → Prop} {x : R β} (h : Spec Q x)
    (hq : ∀ v r, Q v r → Q' v r) : Spec Q' x := by
  cases x with
  | oof => exact h
  | fail => trivial
  | ok v r => exact hq v r h

theorem seq_nil {α} (g : Grammar α) (f : Nat) (inp : Bytes) :
    Spec (fun ns r => ns = [] ∧ r = inp) (runSeq g (f + 1) [] inp) := by
  simp [runSeq, Spec]

theorem seq_cons {α} (g : Grammar α) (f : Nat) (p : Peg) (ps : List Peg) (inp : Bytes)
    (Qp : Node α → Bytes → Prop) (Qs : Node α → Bytes → List (Node α) → Bytes → Prop)
    (hp : Spec Qp (run g f p inp)) (hn : ∀ n r, Qp n r → NotNil n)
    (hs : ∀ n r, Qp n r → Spec (Qs n r) (runSeq g f ps r)) :
    Spec (fun ns r' => ∃ n r ns', Qp n r ∧ Qs n r ns' r' ∧ ns = n :: ns')
      (runSeq g (f + 1) (p :: ps) inp) := by
  cases hrun : run g f p inp with
  | oof => rw [hrun] at hp; exact hp.elim
  | fail => rw [runSeq_fail _ _ _ _ _ hrun]; trivial
  | ok n r =>
    rw [hrun] at hp
    have hnn := hn n r hp
    have hss := hs n r hp
    cases hq : runSeq g f ps r with
    | oof => rw [hq] at hss; exact hss.elim
    | fail => rw [runSeq_ok_fail _ _ _ _ _ _ _ hrun hnn hq]; trivial
    | ok ns r' =>
      rw [hq] at hss
      rw [runSeq_ok _ _ _ _ _ _ _ _ _ hrun hnn hq]
      exact ⟨_, _, _, hp, hss, rfl⟩

theorem and_spec {α} (g : Grammar α) (f : Nat) (ps : List Peg) (a : ActName) (inp : Bytes)
    (Qs : List (Node α) → Bytes → Prop) (hs : Spec Qs (runSeq g f ps inp)) :
    Spec (fun n r => ∃ ns, Qs ns r ∧ n = applyAct g a ns ∧ NotNil n) (run g (f + 1) (.and ps a) inp) := by
  cases hq : runSeq g f ps inp with
  | oof => rw [hq] at hs; exact hs.elim
  | fail => rw [and_fail _ _ _ _ _ hq]; trivial
  | ok ns r =>
    rw [hq] at hs
    by_cases hm : NotNil (applyAct g a ns)
    · rw [and_ok _ _ _ _ _ _ _ hq hm]; exact ⟨ns, hs, rfl, hm⟩
    · have : applyAct g a ns = .nil := by
        cases ha : applyAct g a ns <;> simp [ha, NotNil] at hm ⊢
      simp [run, hq, this, Spec]

theorem atom_spec {α} (g : Grammar α) (f : Nat) (c : UInt8) (name : String) (inp : Bytes) :
    Spec (fun n r => n = Node.term name [c] ∧ skipWS inp = c :: r) (run g (f + 1) (.atom [c] name) inp) := by
  simp only [run]
  cases h : skipWS inp with
  | nil => simp [matchPrefix, Spec]
  | cons b r =>
    by_cases hb : c = b
    · subst hb; simp [matchPrefix, Spec]
    · have : (c == b) = false := by simpa using hb
      simp [matchPrefix, this, Spec]

theorem ord_nil_spec {α} (g : Grammar α) (f : Nat) (a : ActName) (inp : Bytes) (Q : Node α → Bytes → Prop) :
    Spec Q (runOrd g (f + 1) [] a inp) := by simp [runOrd, Spec]

theorem ord_cons_spec {α} (g : Grammar α) (f : Nat) (p : Peg) (ps : List Peg) (a : ActName) (inp : Bytes)
    (Qp Qr : Node α → Bytes → Prop)
    (hp : Spec Qp (run g f p inp))
    (hn : ∀ n r, Qp n r → NotNil n ∧ NotNil (applyAct g a [n]))
    (hr : Spec Qr (runOrd g f ps a inp)) :
    Spec (fun m r => (∃ n, Qp n r ∧ m = applyAct g a [n]) ∨ Qr m r) (runOrd g (f + 1) (p :: ps) a inp) := by
  cases hrun : run g f p inp with
  | oof => rw [hrun] at hp; exact hp.elim
  | fail => rw [runOrd_fail _ _ _ _ _ _ hrun]; exact hr.mono (fun v r h => Or.inr h)
  | ok n r =>
    rw [hrun] at hp
    obtain ⟨h1, h2⟩ := hn n r hp
    rw [runOrd_ok _ _ _ _ _ _ _ _ hrun h1 h2]
    exact Or.inl ⟨n, hp, rfl⟩

/-! ### white space -/

/-- the text without the white space the tokeniser skips -/
def stripWS : Bytes → Bytes
  | [] => []
  | b :: r => if isWS b then stripWS r else b :: stripWS r

theorem stripWS_skipWS (inp : Bytes) : stripWS (skipWS inp) = stripWS inp := by
  induction inp with
  | nil => rfl
  | cons b r ih =>
    by_cases hb : isWS b = true
    · simp [skipWS, stripWS, hb, ih]
    · simp [skipWS, stripWS, hb]

theorem skipWS_len (inp : Bytes) : (skipWS inp).length ≤ inp.length := by
  induction inp with
  | nil => simp [skipWS]
  | cons b r ih =>
    by_cases hb : isWS b = true
    · simp [skipWS, hb]; omega
    · simp [skipWS, hb]

theorem skipWS_head (inp : Bytes) (c : UInt8) (r : Bytes) (h : skipWS inp = c :: r) : isWS c = false := by
  induction inp with
  | nil => simp [skipWS] at h
  | cons b t ih =>
    by_cases hb : isWS b = true
    · simp [skipWS, hb] at h; exact ih h
    · simp [skipWS, hb] at h; obtain ⟨rfl, _⟩ := h; simpa using hb

theorem strip_of_skip (inp : Bytes) (c : UInt8) (r : Bytes) (h : skipWS inp = c :: r) :
    stripWS inp = c :: stripWS r ∧ r.length < inp.length := by
  have h1 := stripWS_skipWS inp
  have h2 := skipWS_len inp
  have h3 := skipWS_head inp c r h
  rw [h] at h1 h2
  constructor
  · rw [← h1]; simp [stripWS, h3]
  · simp at h2; omega

/-! ### what the rules of the grammar return -/

/-- the value a rule hands to its caller: an error value, or a type of the grammar whose printed form is the
    text that was consumed (white space aside) -/
def TyRes (inp : Bytes) (x : SNode) (rest : Bytes) : Prop :=
  x = .err ∨ ∃ t, x = .val t ∧ WF t ∧ stripWS inp = print t ++ stripWS rest

def RuleQ (inp : Bytes) (x : SNode) (rest : Bytes) : Prop := rest.length < inp.length ∧ TyRes inp x rest

/-- `declarationType` wraps the value of the alternative that matched in a one-element list -/
def DeclQ (inp : Bytes) (n : SNode) (rest : Bytes) : Prop := ∃ x, n = .list [x] ∧ RuleQ inp x rest

/-- `declarationType` behaves on every input shorter than `N` -/
def DeclOK (N : Nat) : Prop := ∀ inp : Bytes, inp.length < N → ∀ f, 64 * inp.length + 64 ≤ f →
  Spec (DeclQ inp) (run grammar f (.ref "declarationType") inp)

theorem basic_spec (k : Nat) (inp : Bytes) :
    Spec (fun n r => ∃ c, c ∈ basicLetters ∧ n = Node.val (Ty.basic c) ∧ skipWS inp = c :: r)
      (run grammar (k + 20) basicPeg inp) := by
  cases h : skipWS inp with
  | nil => simp [run, runOrd, basicPeg, matchPrefix, h, Spec]
  | cons c r =>
    by_cases hc : c ∈ basicLetters
    · have hc' := hc
      simp only [basicLetters, List.mem_cons, List.mem_nil_iff, or_false] at hc'
      rcases hc' with h' | h' | h' | h' | h' | h' | h' | h' | h' | h' | h' | h' | h' | h' | h' | h' <;> subst h' <;>
        simp [run, runOrd, basicPeg, matchPrefix, h, applyAct, grammar, act, basicLetters, Spec]
    · have hc' := hc
      simp only [basicLetters, List.mem_cons, List.mem_nil_iff, or_false, not_or] at hc'
      obtain ⟨h1, h2, h3, h4, h5, h6, h7, h8, h9, h10, h11, h12, h13, h14, h15, h16⟩ := hc'
      have e : ∀ a : UInt8, c ≠ a → (a == c) = false := by
        intro a h; simp; exact fun h' => h h'.symm
      simp [run, runOrd, basicPeg, matchPrefix, h, e _ h1, e _ h2, e _ h3, e _ h4, e _ h5,
        e _ h6, e _ h7, e _ h8, e _ h9, e _ h10, e _ h11, e _ h12, e _ h13, e _ h14, e _ h15, e _ h16, Spec]

theorem array_spec (N : Nat) (ih : DeclOK N) (inp : Bytes) (hN : inp.length ≤ N) (k : Nat)
    (hk : 64 * inp.length ≤ k) :
    Spec (RuleQ inp) (run grammar (k + 6) (.ref "arrayType") inp) := by
  rw [ref_unfold _ _ _ _ rule_array]
  unfold arrayPeg
  have hseq := seq_cons grammar (k + 3) _ _ inp _ _ (atom_spec grammar (k + 2) 91 "MapStart" inp)
      (fun n r h => by rw [h.1]; trivial)
      (fun n1 r1 h1 =>
        seq_cons grammar (k + 2) _ _ r1 _ _
          (ih r1 (by have := (strip_of_skip inp 91 r1 h1.2).2; omega) (k + 2)
            (by have := (strip_of_skip inp 91 r1 h1.2).2; omega))
          (fun n r h => by obtain ⟨x, rfl, _⟩ := h; trivial)
          (fun n2 r2 h2 =>
            seq_cons grammar (k + 1) _ _ r2 _ _ (atom_spec grammar k 93 "MapClose" r2)
              (fun n r h => by rw [h.1]; trivial)
              (fun n3 r3 h3 => seq_nil grammar k r3)))
  refine (and_spec grammar (k + 4) _ "nodifyArrayType" inp _ hseq).mono ?fin
  intro v rest h
  obtain ⟨ns, ⟨n1, r1, ns1, ⟨hn1, hs1⟩, ⟨n2, r2, ns2, ⟨x, hx, hl2, hx2⟩,
    ⟨n3, r3, ns3, ⟨hn3, hs3⟩, ⟨hnil, hr⟩, hns3⟩, hns2⟩, hns⟩, hv, _⟩ := h
  subst hn1 hx hn3 hnil hr hns3 hns2 hns
  obtain ⟨e1, l1⟩ := strip_of_skip inp 91 r1 hs1
  obtain ⟨e3, l3⟩ := strip_of_skip r2 93 rest hs3
  refine ⟨by omega, ?_⟩
  rcases hx2 with rfl | ⟨t, rfl, hwf, hst⟩
  · left; rw [hv]; simp [applyAct, grammar, act, extractValue, resultNode]
  · right; refine ⟨.list t, ?_, hwf, ?_⟩
    · rw [hv]; simp [applyAct, grammar, act, extractValue, resultNode]
    · rw [e1, hst, e3]; simp [print]

theorem map_spec (N : Nat) (ih : DeclOK N) (inp : Bytes) (hN : inp.length ≤ N) (k : Nat)
    (hk : 64 * inp.length ≤ k) :
    Spec (RuleQ inp) (run grammar (k + 7) (.ref "mapType") inp) := by
  rw [ref_unfold _ _ _ _ rule_map]
  unfold mapPeg
  have hseq := seq_cons grammar (k + 4) _ _ inp _ _ (atom_spec grammar (k + 3) 123 "MapStart" inp)
      (fun n r h => by rw [h.1]; trivial)
      (fun n1 r1 h1 =>
        seq_cons grammar (k + 3) _ _ r1 _ _
          (ih r1 (by have := (strip_of_skip inp 123 r1 h1.2).2; omega) (k + 3)
            (by have := (strip_of_skip inp 123 r1 h1.2).2; omega))
          (fun n r h => by obtain ⟨x, rfl, _⟩ := h; trivial)
          (fun n2 r2 h2 =>
            seq_cons grammar (k + 2) _ _ r2 _ _
              (ih r2 (by have := (strip_of_skip inp 123 r1 h1.2).2; obtain ⟨x, _, hl, _⟩ := h2; omega) (k + 2)
                (by have := (strip_of_skip inp 123 r1 h1.2).2; obtain ⟨x, _, hl, _⟩ := h2; omega))
              (fun n r h => by obtain ⟨x, rfl, _⟩ := h; trivial)
              (fun n3 r3 h3 =>
                seq_cons grammar (k + 1) _ _ r3 _ _ (atom_spec grammar k 125 "MapClose" r3)
                  (fun n r h => by rw [h.1]; trivial)
                  (fun n4 r4 h4 => seq_nil grammar k r4))))
  refine (and_spec grammar (k + 5) _ "nodifyMap" inp _ hseq).mono ?fin
  intro v rest h
  obtain ⟨ns, ⟨n1, r1, ns1, ⟨hn1, hs1⟩, ⟨n2, r2, ns2, ⟨xk, hxk, hl2, hk2⟩,
    ⟨n3, r3, ns3, ⟨xv, hxv, hl3, hv3⟩, ⟨n4, r4, ns4, ⟨hn4, hs4⟩, ⟨hnil, hr⟩, hns4⟩, hns3⟩, hns2⟩, hns⟩, hv, _⟩ := h
  subst hn1 hxk hxv hn4 hnil hr hns4 hns3 hns2 hns
  obtain ⟨e1, l1⟩ := strip_of_skip inp 123 r1 hs1
  obtain ⟨e4, l4⟩ := strip_of_skip r3 125 rest hs4
  refine ⟨by omega, ?_⟩
  rcases hk2 with rfl | ⟨kt, rfl, hkwf, hkst⟩
  · left; rw [hv]; simp [applyAct, grammar, act, extractValue, resultNode]
  · rcases hv3 with rfl | ⟨vt, rfl, hvwf, hvst⟩
    · left; rw [hv]; simp [applyAct, grammar, act, extractValue, resultNode]
    · right; refine ⟨.map kt vt, ?_, ⟨hkwf, hvwf⟩, ?_⟩
      · rw [hv]; simp [applyAct, grammar, act, extractValue, resultNode]
      · rw [e1, hkst, hvst, e4]; simp [print]

/-! ### loops -/

/-- the elements a loop collected, each parsed from where the one before stopped -/
inductive Chain {α : Type} (Q : Bytes → Node α → Bytes → Prop) : Bytes → List (Node α) → Bytes → Prop
  | nil (inp : Bytes) : Chain Q inp [] inp
  | cons {inp r rest : Bytes} {n : Node α} {ns : List (Node α)} :
      Q inp n r → Chain Q r ns rest → Chain Q inp (n :: ns) rest

/-- a `Kleene` loop without separator whose element parser is specified, consumes input and gets 64 calls per
    byte: the loop does not run out of fuel either -/
theorem loop_spec {α} (g : Grammar α) (q : Peg) (Q : Bytes → Node α → Bytes → Prop) (c N : Nat)
    (hq : ∀ inp : Bytes, inp.length < N → ∀ f, 64 * inp.length + c ≤ f → Spec (Q inp) (run g f q inp))
    (hprog : ∀ inp n r, Q inp n r → NotNil n ∧ r.length < inp.length) :
    ∀ (L : Nat) (inp : Bytes), inp.length = L → inp.length < N → ∀ f, 64 * inp.length + c + 1 ≤ f →
      Spec (Chain Q inp) (runLoop g f q none inp) := by
  intro L
  induction L using Nat.strongRecOn with
  | _ L IH =>
    intro inp hL hN f hf
    obtain ⟨f', rfl⟩ : ∃ f', f = f' + 1 := ⟨f - 1, by omega⟩
    have hq' := hq inp hN f' (by omega)
    cases hrun : run g f' q inp with
    | oof => rw [hrun] at hq'; exact hq'.elim
    | fail => rw [runLoop_stop _ _ _ _ _ hrun]; exact Chain.nil inp
    | ok n r =>
      rw [hrun] at hq'
      obtain ⟨hnn, hlen⟩ := hprog inp n r hq'
      have hrec := IH r.length (by omega) r rfl (by omega) f' (by omega)
      cases hl : runLoop g f' q none r with
      | oof => rw [hl] at hrec; exact hrec.elim
      | fail =>
        simp only [runLoop, hrun]
        cases n <;> simp [NotNil] at hnn <;> simp [hl, Spec]
      | ok ns r' =>
        rw [hl] at hrec
        rw [runLoop_step _ _ _ _ _ _ _ _ hrun hnn hl]
        exact Chain.cons hq' hrec

theorem kleene_spec {α} (g : Grammar α) (f : Nat) (q : Peg) (a : ActName) (inp : Bytes)
    (Q : List (Node α) → Bytes → Prop) (h : Spec Q (runLoop g f q none inp)) :
    Spec (fun n r => ∃ ns, Q ns r ∧ n = applyAct g a ns) (run g (f + 1) (.kleene q none a) inp) := by
  cases hl : runLoop g f q none inp with
  | oof => rw [hl] at h; exact h.elim
  | fail => simp [run, hl, Spec]
  | ok ns r => rw [hl] at h; rw [kleene_ok _ _ _ _ _ _ _ _ hl]; exact ⟨ns, h, rfl⟩

/-- `listType` (a `Kleene` of `declarationType`): the node list of the loop, every element specified -/
theorem list_spec (N : Nat) (ih : DeclOK N) (inp : Bytes) (hN : inp.length < N) (k : Nat)
    (hk : 64 * inp.length + 65 ≤ k) :
    Spec (fun n r => ∃ ns, Chain DeclQ inp ns r ∧ n = Node.list ns) (run grammar (k + 2) (.ref "listType") inp) := by
  rw [ref_unfold _ _ _ _ rule_list]
  unfold listPeg
  have hl := loop_spec grammar (.ref "declarationType") DeclQ 64 N ih
    (fun inp n r h => by obtain ⟨x, rfl, hl, _⟩ := h; exact ⟨trivial, hl⟩) inp.length inp rfl hN k hk
  exact (kleene_spec grammar k _ "" inp _ hl).mono (fun v r h => by
    obtain ⟨ns, hc, rfl⟩ := h; exact ⟨ns, hc, by simp [applyAct]⟩)

/-- the types of a chain of `declarationType` results: an error value among them, or the types whose printed
    forms, one after the other, are the text consumed -/
theorem chain_types (inp : Bytes) (tl : List SNode) (rest : Bytes) (h : Chain DeclQ inp tl rest) :
    rest.length ≤ inp.length ∧
    (extractTypes tl = .error false ∨
      ∃ ts, extractTypes tl = .ok ts ∧ WFList ts ∧ stripWS inp = printList ts ++ stripWS rest) := by
  induction h with
  | nil inp => exact ⟨Nat.le_refl _, Or.inr ⟨[], rfl, trivial, by simp [printList]⟩⟩
  | cons hq hc ih =>
    obtain ⟨x, rfl, hl, hx⟩ := hq
    obtain ⟨ihl, ihr⟩ := ih
    refine ⟨by omega, ?_⟩
    rcases hx with rfl | ⟨t, rfl, hwf, hst⟩
    · left; simp [extractTypes, extractValue]
    · rcases ihr with he | ⟨ts, he, hwfs, hsts⟩
      · left; simp [extractTypes, extractValue, he]
      · right; exact ⟨t :: ts, by simp [extractTypes, extractValue, he], ⟨hwf, hwfs⟩,
          by rw [hst, hsts]; simp [printList]⟩

theorem tuple_spec (N : Nat) (ih : DeclOK N) (inp : Bytes) (hN : inp.length ≤ N) (k : Nat)
    (hk : 64 * inp.length + 2 ≤ k) :
    Spec (RuleQ inp) (run grammar (k + 6) (.ref "tupleType") inp) := by
  rw [ref_unfold _ _ _ _ rule_tuple]
  unfold tuplePeg
  have hseq := seq_cons grammar (k + 3) _ _ inp _ _ (atom_spec grammar (k + 2) 40 "TypeParameterStart" inp)
      (fun n r h => by rw [h.1]; trivial)
      (fun n1 r1 h1 =>
        seq_cons grammar (k + 2) _ _ r1 _ _
          (list_spec N ih r1 (by have := (strip_of_skip inp 40 r1 h1.2).2; omega) k
            (by have := (strip_of_skip inp 40 r1 h1.2).2; omega))
          (fun n r h => by obtain ⟨ns, _, rfl⟩ := h; trivial)
          (fun n2 r2 h2 =>
            seq_cons grammar (k + 1) _ _ r2 _ _ (atom_spec grammar k 41 "TypeParameterClose" r2)
              (fun n r h => by rw [h.1]; trivial)
              (fun n3 r3 h3 => seq_nil grammar k r3)))
  refine (and_spec grammar (k + 4) _ "nodifyTupleType" inp _ hseq).mono ?fin
  intro v rest h
  obtain ⟨ns, ⟨n1, r1, ns1, ⟨hn1, hs1⟩, ⟨n2, r2, ns2, ⟨tl, hch, hn2⟩,
    ⟨n3, r3, ns3, ⟨hn3, hs3⟩, ⟨hnil, hr⟩, hns3⟩, hns2⟩, hns⟩, hv, _⟩ := h
  subst hn1 hn2 hn3 hnil hr hns3 hns2 hns
  obtain ⟨e1, l1⟩ := strip_of_skip inp 40 r1 hs1
  obtain ⟨e3, l3⟩ := strip_of_skip r2 41 rest hs3
  obtain ⟨l2, hty⟩ := chain_types r1 tl r2 hch
  refine ⟨by omega, ?_⟩
  rcases hty with he | ⟨ts, he, hwf, hst⟩
  · left; rw [hv]; simp [applyAct, grammar, act, he, resultNode]
  · right; refine ⟨.tuple ts, ?_, hwf, ?_⟩
    · rw [hv]; simp [applyAct, grammar, act, he, resultNode]
    · rw [e1, hst, e3]; simp [print]

/-! ### tokens -/

theorem takeWhileB_spec (p : UInt8 → Bool) (l : Bytes) :
    l = (takeWhileB p l).1 ++ (takeWhileB p l).2 ∧ ∀ x ∈ (takeWhileB p l).1, p x = true := by
  induction l with
  | nil => simp [takeWhileB]
  | cons b r ih =>
    by_cases hb : p b = true
    · simp only [takeWhileB, hb, if_true]
      obtain ⟨h1, h2⟩ := ih
      refine ⟨by simp; exact h1, ?_⟩
      intro x hx
      simp at hx
      rcases hx with rfl | hx
      · exact hb
      · exact h2 x hx
    · simp [takeWhileB, hb]

theorem matchIdent_sound (inp t rest : Bytes) (h : matchIdent inp = some (t, rest)) :
    inp = t ++ rest ∧ IsIdent t := by
  cases inp with
  | nil => simp [matchIdent] at h
  | cons b r =>
    by_cases hb : isAlpha b = true
    · simp only [matchIdent, hb, if_true, Option.some.injEq, Prod.mk.injEq] at h
      obtain ⟨rfl, rfl⟩ := h
      obtain ⟨h1, h2⟩ := takeWhileB_spec isIdentChar r
      exact ⟨by simp; exact h1, ⟨b, _, rfl, hb, h2⟩⟩
    · simp [matchIdent, hb] at h

theorem matchTemplate_sound (inp t rest : Bytes) (h : matchTemplate inp = some (t, rest)) :
    inp = t ++ rest ∧ IsStructName t := by
  unfold matchTemplate at h
  cases h1 : matchIdent inp with
  | none => simp [h1] at h
  | some ar =>
    obtain ⟨a, r⟩ := ar
    obtain ⟨e1, i1⟩ := matchIdent_sound inp a r h1
    simp only [h1] at h
    cases r with
    | nil => simp at h
    | cons c r2 =>
      by_cases hc : c = 60
      · subst hc
        simp only at h
        cases h2 : matchIdent r2 with
        | none => simp [h2] at h
        | some br =>
          obtain ⟨b, r3⟩ := br
          obtain ⟨e2, i2⟩ := matchIdent_sound r2 b r3 h2
          simp only [h2] at h
          cases r3 with
          | nil => simp at h
          | cons d r4 =>
            by_cases hd : d = 62
            · subst hd
              simp only [Option.some.injEq, Prod.mk.injEq] at h
              obtain ⟨rfl, rfl⟩ := h
              refine ⟨?_, Or.inr ⟨a, b, i1, i2, rfl⟩⟩
              rw [e1, e2]; simp
            · exfalso; revert h; split <;> simp_all
      · exfalso; revert h; split <;> simp_all

theorem identChar_noWS (c : UInt8) (h : isIdentChar c = true) : isWS c = false := by
  cases hb : isWS c with
  | false => rfl
  | true =>
    simp only [isWS, Bool.or_eq_true, beq_iff_eq] at hb
    rcases hb with ((rfl | rfl) | rfl) | rfl <;> revert h <;> decide

theorem ident_noWS (n : Bytes) (h : IsIdent n) : ∀ c ∈ n, isWS c = false := by
  obtain ⟨b, r, rfl, hb, hr⟩ := h
  intro c hc
  rcases List.mem_cons.mp hc with rfl | hc
  · exact identChar_noWS _ (by simp [isIdentChar, hb])
  · exact identChar_noWS c (hr c hc)

theorem structName_noWS (n : Bytes) (h : IsStructName n) : ∀ c ∈ n, isWS c = false := by
  rcases h with h | ⟨a, b, ha, hb, rfl⟩
  · exact ident_noWS n h
  · intro c hc
    simp only [List.mem_append, List.mem_cons, List.mem_nil_iff, or_false] at hc
    rcases hc with ((hc | rfl) | hc) | rfl
    · exact ident_noWS a ha c hc
    · decide
    · exact ident_noWS b hb c hc
    · decide

theorem stripWS_append (a r : Bytes) (h : ∀ c ∈ a, isWS c = false) : stripWS (a ++ r) = a ++ stripWS r := by
  induction a with
  | nil => rfl
  | cons b t ih =>
    have hb := h b (by simp)
    simp only [List.cons_append, stripWS, hb, Bool.false_eq_true, if_false]
    rw [ih (fun c hc => h c (by simp [hc]))]

theorem ident_pos (n : Bytes) (h : IsIdent n) : 0 < n.length := by
  obtain ⟨b, r, rfl, _, _⟩ := h; simp

theorem structName_pos (n : Bytes) (h : IsStructName n) : 0 < n.length := by
  rcases h with h | ⟨a, b, ha, hb, rfl⟩
  · exact ident_pos n h
  · simp; omega

/-- a token read after white space: what it is, and what is left -/
theorem tok_after_ws (inp t rest : Bytes) (h : skipWS inp = t ++ rest) (hws : ∀ c ∈ t, isWS c = false)
    (hpos : 0 < t.length) : stripWS inp = t ++ stripWS rest ∧ rest.length < inp.length := by
  have h1 := stripWS_skipWS inp
  have h2 := skipWS_len inp
  rw [h] at h1 h2
  constructor
  · rw [← h1]; exact stripWS_append t rest hws
  · simp at h2; omega

theorem structName_spec (f : Nat) (inp : Bytes) :
    Spec (fun n r => ∃ nm name, n = Node.term nm name ∧ IsStructName name ∧
        stripWS inp = name ++ stripWS r ∧ r.length < inp.length)
      (run grammar (f + 2) (.ref "structName") inp) := by
  rw [ref_unfold _ _ _ _ rule_structName]
  unfold structNamePeg
  simp only [run, matchAlts, matchClass]
  cases h1 : matchTemplate (skipWS inp) with
  | some tr =>
    obtain ⟨t, r⟩ := tr
    obtain ⟨e, hn⟩ := matchTemplate_sound _ t r h1
    obtain ⟨hs, hl⟩ := tok_after_ws inp t r e (structName_noWS t hn) (structName_pos t hn)
    exact ⟨_, t, rfl, hn, hs, hl⟩
  | none =>
    cases h2 : matchIdent (skipWS inp) with
    | some tr =>
      obtain ⟨t, r⟩ := tr
      obtain ⟨e, hn⟩ := matchIdent_sound _ t r h2
      obtain ⟨hs, hl⟩ := tok_after_ws inp t r e (ident_noWS t hn) (ident_pos t hn)
      exact ⟨_, t, rfl, Or.inl hn, hs, hl⟩
    | none => trivial

theorem typeName_spec (f : Nat) (inp : Bytes) :
    Spec (fun n r => ∃ name, n = Node.term "IDENT" name ∧ IsIdent name ∧
        stripWS inp = name ++ stripWS r ∧ r.length < inp.length)
      (run grammar (f + 2) (.ref "typeName") inp) := by
  rw [ref_unfold _ _ _ _ rule_typeName]
  unfold typeNamePeg
  simp only [run, matchClass]
  cases h2 : matchIdent (skipWS inp) with
  | some tr =>
    obtain ⟨t, r⟩ := tr
    obtain ⟨e, hn⟩ := matchIdent_sound _ t r h2
    obtain ⟨hs, hl⟩ := tok_after_ws inp t r e (ident_noWS t hn) (ident_pos t hn)
    exact ⟨t, rfl, hn, hs, hl⟩
  | none => trivial

/-! ### member names -/

/-- one `,name` of a struct's member list -/
def MemQ (inp : Bytes) (n : SNode) (r : Bytes) : Prop :=
  ∃ name, n = Node.term "IDENT" name ∧ IsIdent name ∧ stripWS inp = 44 :: (name ++ stripWS r) ∧
    r.length < inp.length

theorem member_spec (f : Nat) (inp : Bytes) : Spec (MemQ inp) (run grammar (f + 5) memberPeg inp) := by
  unfold memberPeg
  have hseq := seq_cons grammar (f + 3) _ _ inp _ _ (atom_spec grammar (f + 2) 44 "TypeComa" inp)
      (fun n r h => by rw [h.1]; trivial)
      (fun n1 r1 h1 =>
        seq_cons grammar (f + 2) _ _ r1 _ _ (typeName_spec f r1)
          (fun n r h => by obtain ⟨name, rfl, _⟩ := h; trivial)
          (fun n2 r2 h2 => seq_nil grammar (f + 1) r2))
  refine (and_spec grammar (f + 4) _ "nodifyTypeMember" inp _ hseq).mono ?fin
  intro v rest h
  obtain ⟨ns, ⟨n1, r1, ns1, ⟨hn1, hs1⟩, ⟨n2, r2, ns2, ⟨name, hn2, hid, hst, hl⟩, ⟨hnil, hr⟩, hns2⟩, hns⟩, hv, _⟩ := h
  subst hn1 hn2 hnil hr hns2 hns
  obtain ⟨e1, l1⟩ := strip_of_skip inp 44 r1 hs1
  refine ⟨name, ?_, hid, ?_, by omega⟩
  · rw [hv]; simp [applyAct, grammar, act]
  · rw [e1, hst]

theorem memberList_spec (inp : Bytes) (k : Nat) (hk : 64 * inp.length + 10 ≤ k) :
    Spec (fun n r => ∃ ns, Chain MemQ inp ns r ∧ n = Node.list ns)
      (run grammar (k + 2) (.ref "typeMemberList") inp) := by
  rw [ref_unfold _ _ _ _ rule_memberList]
  unfold memberListPeg
  have hl := loop_spec grammar memberPeg MemQ 8 (inp.length + 1)
    (fun inp' _ f hf => by
      obtain ⟨f', rfl⟩ : ∃ f', f = f' + 5 := ⟨f - 5, by omega⟩
      exact member_spec f' inp')
    (fun inp n r h => by obtain ⟨name, rfl, _, _, hl⟩ := h; exact ⟨trivial, hl⟩)
    inp.length inp rfl (by omega) k (by omega)
  exact (kleene_spec grammar k _ "" inp _ hl).mono (fun v r h => by
    obtain ⟨ns, hc, rfl⟩ := h; exact ⟨ns, hc, by simp [applyAct]⟩)

/-- `,a,b,c` -/
def namesB : List Bytes → Bytes
  | [] => []
  | n :: r => 44 :: (n ++ namesB r)

theorem chain_names (inp : Bytes) (nl : List SNode) (rest : Bytes) (h : Chain MemQ inp nl rest) :
    rest.length ≤ inp.length ∧
    ∃ nms, extractNames nl = .ok nms ∧ (∀ n ∈ nms, IsIdent n) ∧ stripWS inp = namesB nms ++ stripWS rest := by
  induction h with
  | nil inp => exact ⟨Nat.le_refl _, [], rfl, by simp, by simp [namesB]⟩
  | cons hq hc ih =>
    obtain ⟨name, rfl, hid, hst, hl⟩ := hq
    obtain ⟨ihl, nms, he, hids, hsts⟩ := ih
    refine ⟨by omega, name :: nms, by simp [extractNames, he], ?_, ?_⟩
    · intro n hn
      rcases List.mem_cons.mp hn with rfl | hn
      · exact hid
      · exact hids n hn
    · rw [hst, hsts]; simp [namesB]

theorem wf_zip : (nms : List Bytes) → (ts : List Ty) → (∀ n ∈ nms, IsIdent n) → WFList ts →
    WFMembers (zipMembers nms ts)
  | [], _, _, _ => by simp [zipMembers, WFMembers]
  | _ :: _, [], _, _ => by simp [zipMembers, WFMembers]
  | n :: nr, t :: tr, hn, ht => by
    simp only [WFList] at ht
    simp only [zipMembers, WFMembers]
    exact ⟨hn n (by simp), ht.1, wf_zip nr tr (fun x hx => hn x (by simp [hx])) ht.2⟩

theorem zip_print : (nms : List Bytes) → (ts : List Ty) → ts.length = nms.length →
    printMembers (zipMembers nms ts) = printList ts ∧ memberNames (zipMembers nms ts) = namesB nms
  | [], [], _ => by simp [zipMembers, printMembers, printList, memberNames, namesB]
  | [], _ :: _, h => by simp at h
  | _ :: _, [], h => by simp at h
  | n :: nr, t :: tr, h => by
    obtain ⟨h1, h2⟩ := zip_print nr tr (by simpa using h)
    simp [zipMembers, printMembers, printList, memberNames, namesB, h1, h2]

theorem struct_spec (N : Nat) (ih : DeclOK N) (inp : Bytes) (hN : inp.length ≤ N) (k : Nat)
    (hk : 64 * inp.length + 10 ≤ k) :
    Spec (RuleQ inp) (run grammar (k + 10) (.ref "structType") inp) := by
  rw [ref_unfold _ _ _ _ rule_struct]
  unfold structPeg
  have hseq := seq_cons grammar (k + 7) _ _ inp _ _ (atom_spec grammar (k + 6) 40 "TypeParameterStart" inp)
      (fun n r h => by rw [h.1]; trivial)
      (fun n1 r1 h1 =>
        seq_cons grammar (k + 6) _ _ r1 _ _
          (list_spec N ih r1 (by have := (strip_of_skip inp 40 r1 h1.2).2; omega) (k + 4)
            (by have := (strip_of_skip inp 40 r1 h1.2).2; omega))
          (fun n r h => by obtain ⟨ns, _, rfl⟩ := h; trivial)
          (fun n2 r2 h2 =>
            seq_cons grammar (k + 5) _ _ r2 _ _ (atom_spec grammar (k + 4) 41 "TypeParameterClose" r2)
              (fun n r h => by rw [h.1]; trivial)
              (fun n3 r3 h3 =>
                seq_cons grammar (k + 4) _ _ r3 _ _ (atom_spec grammar (k + 3) 60 "TypeDefinitionStart" r3)
                  (fun n r h => by rw [h.1]; trivial)
                  (fun n4 r4 h4 =>
                    seq_cons grammar (k + 3) _ _ r4 _ _ (structName_spec (k + 1) r4)
                      (fun n r h => by obtain ⟨nm, name, rfl, _⟩ := h; trivial)
                      (fun n5 r5 h5 =>
                        seq_cons grammar (k + 2) _ _ r5 _ _
                          (memberList_spec r5 k (by
                            have l1 := (strip_of_skip inp 40 r1 h1.2).2
                            have l2 := (chain_types r1 _ r2 h2.choose_spec.1).1
                            have l3 := (strip_of_skip r2 41 r3 h3.2).2
                            have l4 := (strip_of_skip r3 60 r4 h4.2).2
                            obtain ⟨_, _, _, _, _, l5⟩ := h5
                            omega))
                          (fun n r h => by obtain ⟨ns, _, rfl⟩ := h; trivial)
                          (fun n6 r6 h6 =>
                            seq_cons grammar (k + 1) _ _ r6 _ _
                              (atom_spec grammar k 62 "TypeDefinitionClose" r6)
                              (fun n r h => by rw [h.1]; trivial)
                              (fun n7 r7 h7 => seq_nil grammar k r7)))))))
  refine (and_spec grammar (k + 8) _ "nodifyStrucType" inp _ hseq).mono ?fin
  intro v rest h
  obtain ⟨ns, ⟨n1, r1, ns1, ⟨hn1, hs1⟩, ⟨n2, r2, ns2, ⟨tl, hch, hn2⟩, ⟨n3, r3, ns3, ⟨hn3, hs3⟩,
    ⟨n4, r4, ns4, ⟨hn4, hs4⟩, ⟨n5, r5, ns5, ⟨nm, name, hn5, hname, hst5, hl5⟩,
    ⟨n6, r6, ns6, ⟨nl, hcn, hn6⟩, ⟨n7, r7, ns7, ⟨hn7, hs7⟩, ⟨hnil, hr⟩, hns7⟩, hns6⟩, hns5⟩, hns4⟩, hns3⟩,
    hns2⟩, hns⟩, hv, _⟩ := h
  subst hn1 hn2 hn3 hn4 hn5 hn6 hn7 hnil hr hns7 hns6 hns5 hns4 hns3 hns2 hns
  obtain ⟨e1, l1⟩ := strip_of_skip inp 40 r1 hs1
  obtain ⟨e3, l3⟩ := strip_of_skip r2 41 r3 hs3
  obtain ⟨e4, l4⟩ := strip_of_skip r3 60 r4 hs4
  obtain ⟨e7, l7⟩ := strip_of_skip r6 62 rest hs7
  obtain ⟨l2, hty⟩ := chain_types r1 tl r2 hch
  obtain ⟨l6, nms, hen, hids, hstn⟩ := chain_names r5 nl r6 hcn
  refine ⟨by omega, ?_⟩
  rcases hty with he | ⟨ts, he, hwf, hst⟩
  · left; rw [hv]; simp [applyAct, grammar, act, he]
  · by_cases hlen : ts.length = nms.length
    · right
      obtain ⟨hp1, hp2⟩ := zip_print nms ts hlen
      refine ⟨.struct name (zipMembers nms ts), ?_, ⟨hname, wf_zip nms ts hids hwf⟩, ?_⟩
      · rw [hv]; simp [applyAct, grammar, act, he, hen, hlen]
      · rw [print_struct, hp1, hp2, e1, hst, e3, e4, hst5, hstn, e7]; simp
    · left; rw [hv]; simp [applyAct, grammar, act, he, hen, hlen]

/-! ### `declarationType`, for every input -/

theorem decl_step (N : Nat) (ih : DeclOK N) : DeclOK (N + 1) := by
  intro inp hlen f hf
  have hN : inp.length ≤ N := by omega
  obtain ⟨K, rfl⟩ : ∃ K, f = K + 64 := ⟨f - 64, by omega⟩
  have hK : 64 * inp.length ≤ K := by omega
  rw [ref_unfold _ _ _ _ rule_decl]
  unfold declPeg
  rw [ord_unfold]
  have hb : Spec (RuleQ inp) (run grammar (K + 61) (.ref "basicType") inp) := by
    rw [ref_unfold _ _ _ _ rule_basic]
    exact (basic_spec (K + 40) inp).mono (fun v r h => by
      obtain ⟨c, hc, rfl, hs⟩ := h
      obtain ⟨e, l⟩ := strip_of_skip inp c r hs
      exact ⟨l, Or.inr ⟨.basic c, rfl, by simpa [WF] using hc, by rw [e]; simp [print]⟩⟩)
  have hn : ∀ (n : SNode) (r : Bytes), RuleQ inp n r → NotNil n ∧ NotNil (applyAct grammar "" [n]) := by
    intro n r h
    refine ⟨?_, by simp [applyAct]; trivial⟩
    rcases h.2 with rfl | ⟨t, rfl, _⟩ <;> trivial
  have fold : ∀ (f : Nat) (p : Peg) (ps : List Peg), Spec (RuleQ inp) (run grammar f p inp) →
      Spec (DeclQ inp) (runOrd grammar f ps "" inp) →
      Spec (DeclQ inp) (runOrd grammar (f + 1) (p :: ps) "" inp) := by
    intro f p ps h1 h2
    exact (ord_cons_spec grammar f p ps "" inp _ _ h1 hn h2).mono (fun m r h => by
      rcases h with ⟨n, hq, rfl⟩ | h
      · exact ⟨n, by simp [applyAct], hq⟩
      · exact h)
  exact fold _ _ _ hb
    (fold _ _ _ (map_spec N ih inp hN (K + 53) (by omega))
      (fold _ _ _ (array_spec N ih inp hN (K + 53) (by omega))
        (fold _ _ _ (struct_spec N ih inp hN (K + 48) (by omega))
          (fold _ _ _ (tuple_spec N ih inp hN (K + 51) (by omega))
            (ord_nil_spec grammar (K + 56) "" inp _)))))

theorem decl_ok : ∀ N, DeclOK N
  | 0 => fun inp h => absurd h (Nat.not_lt_zero _)
  | N + 1 => decl_step N (decl_ok N)

/-! ### `signature.Parse` on every input -/

/-- the parser proper: a type of the grammar whose printed form is the input without its white space, or an error —
    never a panic of a callback, never more calls deep than `Parse` reckons with -/
theorem parseU_cases (inp : Bytes) :
    (∃ t, parseSigU inp = .ok t ∧ WF t ∧ stripWS inp = print t) ∨ parseSigU inp = .error .err := by
  have h := decl_ok (inp.length + 1) inp (by omega) (fuelFor inp) (by unfold fuelFor; omega)
  unfold parseSigU
  cases hr : run grammar (fuelFor inp) (.ref "declarationType") inp with
  | oof => rw [hr] at h; exact h.elim
  | fail => right; rfl
  | ok root rest =>
    rw [hr] at h
    obtain ⟨x, rfl, hl, hx⟩ := h
    cases rest with
    | cons b r => right; simp
    | nil =>
      rcases hx with rfl | ⟨t, rfl, hwf, hst⟩
      · right; simp
      · left; exact ⟨t, by simp, hwf, by simpa [stripWS] using hst⟩

theorem nestingFrom_strip (l : Bytes) : ∀ (d m : Nat), nestingFrom (stripWS l) d m = nestingFrom l d m := by
  induction l with
  | nil => intro d m; rfl
  | cons b r ih =>
    intro d m
    by_cases hb : isWS b = true
    · have hnb : nestingFrom (b :: r) d m = nestingFrom r d m := by
        simp only [isWS, Bool.or_eq_true, beq_iff_eq] at hb
        rcases hb with ((rfl | rfl) | rfl) | rfl <;> rfl
      simp only [stripWS, hb, if_true]
      rw [hnb]; exact ih d m
    · simp only [stripWS, hb, Bool.false_eq_true, if_false]
      simp only [nestingFrom]
      split
      · exact ih _ _
      · split
        · exact ih _ _
        · exact ih _ _

/-- **Whatever `signature.Parse` accepts is the printed form of a type of the grammar** (the white space the
    tokeniser skips aside), and that type is what it returns; its nesting is within `MaxDepth`. -/
theorem parse_sound (inp : Bytes) (t : Ty) (h : parseSig inp = .ok t) :
    WF t ∧ stripWS inp = print t ∧ nest t ≤ maxDepth := by
  unfold parseSig at h
  by_cases hd : nesting inp > maxDepth
  · rw [if_pos hd] at h; cases h
  · rw [if_neg hd] at h
    rcases parseU_cases inp with ⟨t', ht', hwf, hst⟩ | he
    · rw [ht'] at h; cases h
      refine ⟨hwf, hst, ?_⟩
      have h1 : nesting inp = nesting (print t) := by
        unfold nesting; rw [← hst]; exact (nestingFrom_strip inp 0 0).symm
      rw [nesting_of_print t hwf] at h1
      omega
    · rw [he] at h; cases h

/-- **Every input is answered with a type or with an error**: no callback of the parser meets a node it cannot
    handle (no failed type assertion, no index out of range), and the depth of the calls stays within what the
    length of the text allows. -/
theorem parse_total (inp : Bytes) : (∃ t, parseSig inp = .ok t) ∨ parseSig inp = .error .err := by
  unfold parseSig
  by_cases hd : nesting inp > maxDepth
  · right; rw [if_pos hd]
  · rw [if_neg hd]
    rcases parseU_cases inp with ⟨t, ht, _, _⟩ | he
    · exact Or.inl ⟨t, ht⟩
    · exact Or.inr he

/-- **Printing is a fixed point**: for any input the parser accepts, parsing the printed form of the result
    succeeds and gives the same type — hence prints the same string. -/
theorem fixed_point (inp : Bytes) (t : Ty) (h : parseSig inp = .ok t) : parseSig (print t) = .ok t := by
  obtain ⟨hwf, _, hd⟩ := parse_sound inp t h
  exact print_parse t hwf hd

theorem stripWS_id (l : Bytes) (h : ∀ c ∈ l, isWS c = false) : stripWS l = l := by
  have := stripWS_append l [] h
  simpa [stripWS] using this

/-- an accepted text without white space *is* the printed signature of the type returned: nothing outside the
    grammar is accepted -/
theorem accepted_is_printed (inp : Bytes) (t : Ty) (h : parseSig inp = .ok t)
    (hws : ∀ c ∈ inp, isWS c = false) : inp = print t := by
  have := (parse_sound inp t h).2.1
  rwa [stripWS_id inp hws] at this

/-- non-vacuity: an input with white space that is accepted; an input that is refused -/
example : parseSig [91, 32, 105, 93] = .ok (.list (.basic 105)) := by rfl
example : parseSig [91, 105] = .error .err := by rfl

end QiVerif.C09
