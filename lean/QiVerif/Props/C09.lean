/-
  C09 — type signatures round-trip through the parser.
-/
import QiVerif.Model.Signature
set_option linter.unusedSimpArgs false
set_option linter.unusedVariables false
namespace QiVerif.C09
open QiVerif QiVerif.Peg QiVerif.Sig

/-! ### rule table look-ups -/

def basicPeg : Peg :=
  .ord [(.atom [73] "uint32"), (.atom [105] "int32"), (.atom [115] "string"), (.atom [76] "uint64"),
      (.atom [108] "int64"), (.atom [98] "bool"), (.atom [102] "float32"), (.atom [100] "float64"),
      (.atom [109] "value"), (.atom [111] "github.com/lugu/qiloop/type/object.Object"),
      (.atom [88] "interface{}"), (.atom [118] "void"), (.atom [99] "int8"), (.atom [67] "uint8"),
      (.atom [119] "int16"), (.atom [87] "uint16")] "nodifyBasicType"

def declPeg : Peg :=
  .ord [(.ref "basicType"), (.ref "mapType"), (.ref "arrayType"), (.ref "structType"), (.ref "tupleType")] ""

def arrayPeg : Peg :=
  .and [(.atom [91] "MapStart"), (.ref "declarationType"), (.atom [93] "MapClose")] "nodifyArrayType"

def mapPeg : Peg :=
  .and [(.atom [123] "MapStart"), (.ref "declarationType"), (.ref "declarationType"),
      (.atom [125] "MapClose")] "nodifyMap"

def listPeg : Peg := .kleene (.ref "declarationType") none ""

def tuplePeg : Peg :=
  .and [(.atom [40] "TypeParameterStart"), (.ref "listType"), (.atom [41] "TypeParameterClose")]
      "nodifyTupleType"

def structPeg : Peg :=
  .and [(.atom [40] "TypeParameterStart"), (.ref "listType"), (.atom [41] "TypeParameterClose"),
      (.atom [60] "TypeDefinitionStart"), (.ref "structName"), (.ref "typeMemberList"),
      (.atom [62] "TypeDefinitionClose")] "nodifyStrucType"

def memberPeg : Peg := .and [(.atom [44] "TypeComa"), (.ref "typeName")] "nodifyTypeMember"
def memberListPeg : Peg := .kleene memberPeg none ""
def structNamePeg : Peg := .ordTokens [(.templateName, "structTemplateName"), (.ident, "structName")]
def typeNamePeg : Peg := .tok .ident "IDENT"

theorem rule_basic : grammar.rules "basicType" = some basicPeg := by rfl
theorem rule_decl : grammar.rules "declarationType" = some declPeg := by rfl
theorem rule_array : grammar.rules "arrayType" = some arrayPeg := by rfl
theorem rule_map : grammar.rules "mapType" = some mapPeg := by rfl
theorem rule_list : grammar.rules "listType" = some listPeg := by rfl
theorem rule_tuple : grammar.rules "tupleType" = some tuplePeg := by rfl
theorem rule_struct : grammar.rules "structType" = some structPeg := by rfl
theorem rule_memberList : grammar.rules "typeMemberList" = some memberListPeg := by rfl
theorem rule_structName : grammar.rules "structName" = some structNamePeg := by rfl
theorem rule_typeName : grammar.rules "typeName" = some typeNamePeg := by rfl

/-! ### terminals -/

theorem skipWS_cons (c : UInt8) (r : Bytes) (h : isWS c = false) : skipWS (c :: r) = c :: r := by
  simp [skipWS, h]

/-- an atom of one byte on an input that starts with that byte -/
theorem atom_hit (f : Nat) (c : UInt8) (name : String) (r : Bytes) (h : isWS c = false) :
    run grammar (f + 1) (.atom [c] name) (c :: r) = .ok (.term name [c]) r := by
  simp [run, skipWS_cons c r h, matchPrefix]

/-- … and on an input that starts with another (non-blank) byte -/
theorem atom_miss (f : Nat) (a c : UInt8) (name : String) (r : Bytes) (h : isWS c = false) (hne : a ≠ c) :
    run grammar (f + 1) (.atom [a] name) (c :: r) = .fail := by
  have : (a == c) = false := by simpa using hne
  simp [run, skipWS_cons c r h, matchPrefix, this]

theorem atom_miss_nil (f : Nat) (a : UInt8) (name : String) :
    run grammar (f + 1) (.atom [a] name) [] = .fail := by
  simp [run, skipWS, matchPrefix]

theorem ref_unfold (f : Nat) (name : String) (q : Peg) (inp : Bytes) (h : grammar.rules name = some q) :
    run grammar (f + 1) (.ref name) inp = run grammar f q inp := by
  simp [run, h]

/-! ### basic types -/

theorem basic_hit (k : Nat) (c : UInt8) (r : Bytes) (hc : c ∈ basicLetters) :
    run grammar (k + 20) basicPeg (c :: r) = .ok (.val (.basic c)) r := by
  simp only [basicLetters, List.mem_cons, List.mem_nil_iff, or_false] at hc
  rcases hc with h | h | h | h | h | h | h | h | h | h | h | h | h | h | h | h <;> subst h <;>
    simp [run, runOrd, basicPeg, matchPrefix, skipWS, isWS, applyAct, grammar, act, basicLetters]

theorem basic_miss (k : Nat) (c : UInt8) (r : Bytes) (hws : isWS c = false) (hc : c ∉ basicLetters) :
    run grammar (k + 20) basicPeg (c :: r) = .fail := by
  simp only [basicLetters, List.mem_cons, List.mem_nil_iff, or_false, not_or] at hc
  obtain ⟨h1, h2, h3, h4, h5, h6, h7, h8, h9, h10, h11, h12, h13, h14, h15, h16⟩ := hc
  have e : ∀ a : UInt8, c ≠ a → (a == c) = false := by
    intro a h; simp; exact fun h' => h h'.symm
  simp [run, runOrd, basicPeg, matchPrefix, skipWS_cons c r hws, e _ h1, e _ h2, e _ h3, e _ h4, e _ h5,
    e _ h6, e _ h7, e _ h8, e _ h9, e _ h10, e _ h11, e _ h12, e _ h13, e _ h14, e _ h15, e _ h16]

theorem basic_miss_nil (k : Nat) : run grammar (k + 20) basicPeg [] = .fail := by
  simp [run, runOrd, basicPeg, matchPrefix, skipWS]

/-! ### one-level unfolding of the interpreter -/

def NotNil {α} : Node α → Prop
  | .nil => False
  | _ => True

theorem ord_unfold {α} (g : Grammar α) (f : Nat) (ps : List Peg) (a : ActName) (inp : Bytes) :
    run g (f + 1) (.ord ps a) inp = runOrd g f ps a inp := by simp [run]

theorem runOrd_fail {α} (g : Grammar α) (f : Nat) (p : Peg) (ps : List Peg) (a : ActName) (inp : Bytes)
    (h : run g f p inp = .fail) : runOrd g (f + 1) (p :: ps) a inp = runOrd g f ps a inp := by
  simp [runOrd, h]

theorem runOrd_ok {α} (g : Grammar α) (f : Nat) (p : Peg) (ps : List Peg) (a : ActName) (inp rest : Bytes)
    (n : Node α) (h : run g f p inp = .ok n rest) (hn : NotNil n) (hm : NotNil (applyAct g a [n])) :
    runOrd g (f + 1) (p :: ps) a inp = .ok (applyAct g a [n]) rest := by
  simp only [runOrd, h]
  cases n <;> simp [NotNil] at hn <;> (cases hq : applyAct g a _ <;> simp [hq, NotNil] at hm ⊢)

theorem runOrd_nil {α} (g : Grammar α) (f : Nat) (a : ActName) (inp : Bytes) :
    runOrd g (f + 1) [] a inp = .fail := by simp [runOrd]

theorem runSeq_nil {α} (g : Grammar α) (f : Nat) (inp : Bytes) : runSeq g (f + 1) [] inp = .ok [] inp := by
  simp [runSeq]

theorem runSeq_fail {α} (g : Grammar α) (f : Nat) (p : Peg) (ps : List Peg) (inp : Bytes)
    (h : run g f p inp = .fail) : runSeq g (f + 1) (p :: ps) inp = .fail := by
  simp [runSeq, h]

theorem runSeq_ok {α} (g : Grammar α) (f : Nat) (p : Peg) (ps : List Peg) (inp rest rest' : Bytes)
    (n : Node α) (ns : List (Node α)) (h : run g f p inp = .ok n rest) (hn : NotNil n)
    (hs : runSeq g f ps rest = .ok ns rest') : runSeq g (f + 1) (p :: ps) inp = .ok (n :: ns) rest' := by
  simp only [runSeq, h]
  cases n <;> simp [NotNil] at hn <;> simp [hs]

theorem runSeq_ok_fail {α} (g : Grammar α) (f : Nat) (p : Peg) (ps : List Peg) (inp rest : Bytes)
    (n : Node α) (h : run g f p inp = .ok n rest) (hn : NotNil n)
    (hs : runSeq g f ps rest = .fail) : runSeq g (f + 1) (p :: ps) inp = .fail := by
  simp only [runSeq, h]
  cases n <;> simp [NotNil] at hn <;> simp [hs]

theorem and_ok {α} (g : Grammar α) (f : Nat) (ps : List Peg) (a : ActName) (inp rest : Bytes)
    (ns : List (Node α)) (h : runSeq g f ps inp = .ok ns rest) (hm : NotNil (applyAct g a ns)) :
    run g (f + 1) (.and ps a) inp = .ok (applyAct g a ns) rest := by
  simp only [run, h]
  cases hq : applyAct g a ns <;> simp [hq, NotNil] at hm ⊢

theorem and_fail {α} (g : Grammar α) (f : Nat) (ps : List Peg) (a : ActName) (inp : Bytes)
    (h : runSeq g f ps inp = .fail) : run g (f + 1) (.and ps a) inp = .fail := by
  simp [run, h]

/-- an `And` whose first parser is a one-byte atom fails on any other first byte -/
theorem and_first_miss (f : Nat) (a c : UInt8) (name : String) (ps : List Peg) (act : ActName) (r : Bytes)
    (h : isWS c = false) (hne : a ≠ c) :
    run grammar (f + 3) (.and (.atom [a] name :: ps) act) (c :: r) = .fail :=
  and_fail _ _ _ _ _ (runSeq_fail _ _ _ _ _ (atom_miss f a c name r h hne))

theorem and_first_miss_nil (f : Nat) (a : UInt8) (name : String) (ps : List Peg) (act : ActName) :
    run grammar (f + 3) (.and (.atom [a] name :: ps) act) [] = .fail :=
  and_fail _ _ _ _ _ (runSeq_fail _ _ _ _ _ (atom_miss_nil f a name))

/-! ### well-formed types, fuel -/

/-- `[A-Za-z][0-9a-zA-Z_]*` -/
def IsIdent (n : Bytes) : Prop := ∃ b r, n = b :: r ∧ isAlpha b = true ∧ ∀ x ∈ r, isIdentChar x = true

/-- struct names: an identifier, or the template form `Name<Param>` -/
def IsStructName (n : Bytes) : Prop :=
  IsIdent n ∨ ∃ a b, IsIdent a ∧ IsIdent b ∧ n = a ++ [60] ++ b ++ [62]

mutual
/-- the types of the documented grammar -/
def WF : Ty → Prop
  | .basic c => c ∈ basicLetters
  | .list t => WF t
  | .map k v => WF k ∧ WF v
  | .tuple ts => WFList ts
  | .struct n ms => IsStructName n ∧ WFMembers ms
def WFList : List Ty → Prop
  | [] => True
  | t :: r => WF t ∧ WFList r
def WFMembers : List (Bytes × Ty) → Prop
  | [] => True
  | (n, t) :: r => IsIdent n ∧ WF t ∧ WFMembers r
end

mutual
/-- a sufficient depth of the Go call stack for parsing `print t` -/
def need : Ty → Nat
  | .basic _ => 30
  | .list t => need t + 42
  | .map k v => max (need k) (need v) + 44
  | .tuple ts => needList ts + 50
  | .struct _ ms => needMembers ms + ms.length + 60
def needList : List Ty → Nat
  | [] => 50
  | t :: r => max (need t + 3) (needList r + 1)
def needMembers : List (Bytes × Ty) → Nat
  | [] => 50
  | (_, t) :: r => max (need t + 3) (needMembers r + 1)
end

/-- what may follow a printed type: anything that does not (after blanks) start with `<` -/
def Follow (rest : Bytes) : Prop := ∀ r', skipWS rest ≠ 60 :: r'

theorem follow_cons (c : UInt8) (r : Bytes) (h : isWS c = false) (hc : c ≠ 60) : Follow (c :: r) := by
  intro r' he; rw [skipWS_cons c r h] at he; exact hc (List.cons.inj he).1

theorem follow_nil : Follow [] := by intro r' he; simp [skipWS] at he

/-- the bytes that can start a printed type -/
def Starter (c : UInt8) : Prop := c ∈ basicLetters ∨ c = 91 ∨ c = 123 ∨ c = 40

theorem starter_props (c : UInt8) (h : Starter c) : isWS c = false ∧ c ≠ 60 ∧ c ≠ 41 := by
  unfold Starter basicLetters at h
  simp only [List.mem_cons, List.mem_nil_iff, or_false] at h
  rcases h with (h | h | h | h | h | h | h | h | h | h | h | h | h | h | h | h) | h | h | h <;>
    subst h <;> decide

theorem print_head (t : Ty) (h : WF t) : ∃ c r, print t = c :: r ∧ Starter c := by
  cases t with
  | basic c => exact ⟨c, [], by simp [print], Or.inl (by simpa [WF] using h)⟩
  | list t => exact ⟨91, _, by simp [print]; rfl, Or.inr (Or.inl rfl)⟩
  | map k v => exact ⟨123, _, by simp [print]; rfl, Or.inr (Or.inr (Or.inl rfl))⟩
  | tuple ts => exact ⟨40, _, by simp [print]; rfl, Or.inr (Or.inr (Or.inr rfl))⟩
  | struct n ms =>
    cases ms with
    | nil => exact ⟨40, _, by simp [print]; rfl, Or.inr (Or.inr (Or.inr rfl))⟩
    | cons m r => exact ⟨40, _, by simp [print]; rfl, Or.inr (Or.inr (Or.inr rfl))⟩

/-- the general form of a printed struct (the empty struct is not special) -/
theorem print_struct (n : Bytes) (ms : List (Bytes × Ty)) :
    print (.struct n ms) = [40] ++ printMembers ms ++ [41, 60] ++ n ++ memberNames ms ++ [62] := by
  cases ms with
  | nil => simp [print, printMembers, memberNames]
  | cons m r => simp [print]

/-! ### `declarationType` on a byte that starts no type -/

theorem decl_fail (k : Nat) (c : UInt8) (r : Bytes) (hws : isWS c = false) (hl : c ∉ basicLetters)
    (h1 : c ≠ 123) (h2 : c ≠ 91) (h3 : c ≠ 40) :
    run grammar (k + 40) (.ref "declarationType") (c :: r) = .fail := by
  have hb : run grammar (k + 37) (.ref "basicType") (c :: r) = .fail := by
    rw [show k + 37 = (k + 36) + 1 from rfl, ref_unfold _ _ _ _ rule_basic]
    exact basic_miss (k + 16) c r hws hl
  have hm : run grammar (k + 36) (.ref "mapType") (c :: r) = .fail := by
    rw [show k + 36 = (k + 35) + 1 from rfl, ref_unfold _ _ _ _ rule_map]
    exact and_first_miss (k + 32) 123 c _ _ _ r hws (fun h => h1 h.symm)
  have ha : run grammar (k + 35) (.ref "arrayType") (c :: r) = .fail := by
    rw [show k + 35 = (k + 34) + 1 from rfl, ref_unfold _ _ _ _ rule_array]
    exact and_first_miss (k + 31) 91 c _ _ _ r hws (fun h => h2 h.symm)
  have hs : run grammar (k + 34) (.ref "structType") (c :: r) = .fail := by
    rw [show k + 34 = (k + 33) + 1 from rfl, ref_unfold _ _ _ _ rule_struct]
    exact and_first_miss (k + 30) 40 c _ _ _ r hws (fun h => h3 h.symm)
  have ht : run grammar (k + 33) (.ref "tupleType") (c :: r) = .fail := by
    rw [show k + 33 = (k + 32) + 1 from rfl, ref_unfold _ _ _ _ rule_tuple]
    exact and_first_miss (k + 29) 40 c _ _ _ r hws (fun h => h3 h.symm)
  rw [show k + 40 = (k + 39) + 1 from rfl, ref_unfold _ _ _ _ rule_decl]
  rw [show k + 39 = (k + 38) + 1 from rfl, declPeg, ord_unfold]
  rw [show k + 38 = (k + 37) + 1 from rfl, runOrd_fail _ _ _ _ _ _ hb]
  rw [show k + 37 = (k + 36) + 1 from rfl, runOrd_fail _ _ _ _ _ _ hm]
  rw [show k + 36 = (k + 35) + 1 from rfl, runOrd_fail _ _ _ _ _ _ ha]
  rw [show k + 35 = (k + 34) + 1 from rfl, runOrd_fail _ _ _ _ _ _ hs]
  rw [show k + 34 = (k + 33) + 1 from rfl, runOrd_fail _ _ _ _ _ _ ht]
  exact runOrd_nil _ _ _ _

/-! ### the round trip, rule by rule -/

/-- what the parser does on a printed type followed by anything admissible -/
def P (t : Ty) : Prop := ∀ f rest, need t ≤ f → Follow rest →
  run grammar f (.ref "declarationType") (print t ++ rest) = .ok (.list [.val t]) rest

theorem need_ge (t : Ty) : 30 ≤ need t := by
  cases t <;> simp [need] <;> omega

theorem notNil_list {α} (l : List (Node α)) : NotNil (Node.list l) := trivial
theorem notNil_val {α} (v : α) : NotNil (Node.val v : Node α) := trivial
theorem notNil_term {α} (n : String) (v : Bytes) : NotNil (Node.term n v : Node α) := trivial

theorem applyAct_nil {α} (g : Grammar α) (ns : List (Node α)) : applyAct g "" ns = .list ns := by
  simp [applyAct]

theorem p_basic (c : UInt8) (hc : c ∈ basicLetters) : P (.basic c) := by
  intro f rest hf _
  obtain ⟨k, rfl⟩ : ∃ k, f = k + 30 := ⟨f - 30, by simp [need] at hf; omega⟩
  show run grammar (k + 30) (.ref "declarationType") (c :: rest) = _
  refine (ref_unfold _ _ _ _ rule_decl).trans ?_
  refine (ord_unfold _ _ _ _ _).trans ?_
  have hb : run grammar (k + 27) (.ref "basicType") (c :: rest) = .ok (.val (.basic c)) rest :=
    (ref_unfold _ _ _ _ rule_basic).trans (basic_hit (k + 6) c rest hc)
  have := runOrd_ok grammar (k + 27) _ [(.ref "mapType"), (.ref "arrayType"), (.ref "structType"),
    (.ref "tupleType")] "" _ _ _ hb (notNil_val _) (by rw [applyAct_nil]; exact notNil_list _)
  rw [applyAct_nil] at this
  exact this

theorem not_letter_91 : (91 : UInt8) ∉ basicLetters := by decide
theorem not_letter_123 : (123 : UInt8) ∉ basicLetters := by decide
theorem not_letter_40 : (40 : UInt8) ∉ basicLetters := by decide

theorem basicRef_miss (j : Nat) (c : UInt8) (r : Bytes) (hws : isWS c = false) (hc : c ∉ basicLetters) :
    run grammar (j + 39) (.ref "basicType") (c :: r) = .fail :=
  (ref_unfold _ _ _ _ rule_basic).trans (basic_miss (j + 18) c r hws hc)

theorem mapRef_miss (j : Nat) (c : UInt8) (r : Bytes) (hws : isWS c = false) (hc : c ≠ 123) :
    run grammar (j + 38) (.ref "mapType") (c :: r) = .fail :=
  (ref_unfold _ _ _ _ rule_map).trans (and_first_miss (j + 34) 123 c _ _ _ r hws (fun h => hc h.symm))

theorem arrayRef_miss (j : Nat) (c : UInt8) (r : Bytes) (hws : isWS c = false) (hc : c ≠ 91) :
    run grammar (j + 37) (.ref "arrayType") (c :: r) = .fail :=
  (ref_unfold _ _ _ _ rule_array).trans (and_first_miss (j + 33) 91 c _ _ _ r hws (fun h => hc h.symm))

/-- `declarationType` on `{`: the result of `mapType` -/
theorem decl_to_map (j : Nat) (r rest : Bytes) (n : SNode)
    (h : run grammar (j + 38) (.ref "mapType") (123 :: r) = .ok n rest) (hn : NotNil n) :
    run grammar (j + 42) (.ref "declarationType") (123 :: r) = .ok (.list [n]) rest := by
  refine (ref_unfold _ _ _ _ rule_decl).trans ?_
  refine (ord_unfold _ _ _ _ _).trans ?_
  refine (runOrd_fail _ _ _ _ _ _ (basicRef_miss j 123 r (by decide) not_letter_123)).trans ?_
  have := runOrd_ok grammar (j + 38) _ [(.ref "arrayType"), (.ref "structType"), (.ref "tupleType")] "" _ _ _ h hn
    (by rw [applyAct_nil]; exact notNil_list _)
  rw [applyAct_nil] at this
  exact this

/-- `declarationType` on `[`: the result of `arrayType` -/
theorem decl_to_array (j : Nat) (r rest : Bytes) (n : SNode)
    (h : run grammar (j + 37) (.ref "arrayType") (91 :: r) = .ok n rest) (hn : NotNil n) :
    run grammar (j + 42) (.ref "declarationType") (91 :: r) = .ok (.list [n]) rest := by
  refine (ref_unfold _ _ _ _ rule_decl).trans ?_
  refine (ord_unfold _ _ _ _ _).trans ?_
  refine (runOrd_fail _ _ _ _ _ _ (basicRef_miss j 91 r (by decide) not_letter_91)).trans ?_
  refine (runOrd_fail _ _ _ _ _ _ (mapRef_miss j 91 r (by decide) (by decide))).trans ?_
  have := runOrd_ok grammar (j + 37) _ [(.ref "structType"), (.ref "tupleType")] "" _ _ _ h hn
    (by rw [applyAct_nil]; exact notNil_list _)
  rw [applyAct_nil] at this
  exact this

/-- `declarationType` on `(`: the result of `structType` if it succeeds … -/
theorem decl_to_struct (j : Nat) (r rest : Bytes) (n : SNode)
    (h : run grammar (j + 36) (.ref "structType") (40 :: r) = .ok n rest) (hn : NotNil n) :
    run grammar (j + 42) (.ref "declarationType") (40 :: r) = .ok (.list [n]) rest := by
  refine (ref_unfold _ _ _ _ rule_decl).trans ?_
  refine (ord_unfold _ _ _ _ _).trans ?_
  refine (runOrd_fail _ _ _ _ _ _ (basicRef_miss j 40 r (by decide) not_letter_40)).trans ?_
  refine (runOrd_fail _ _ _ _ _ _ (mapRef_miss j 40 r (by decide) (by decide))).trans ?_
  refine (runOrd_fail _ _ _ _ _ _ (arrayRef_miss j 40 r (by decide) (by decide))).trans ?_
  have := runOrd_ok grammar (j + 36) _ [(.ref "tupleType")] "" _ _ _ h hn
    (by rw [applyAct_nil]; exact notNil_list _)
  rw [applyAct_nil] at this
  exact this

/-- … and otherwise that of `tupleType` (the parenthesis is parsed a second time) -/
theorem decl_to_tuple (j : Nat) (r rest : Bytes) (n : SNode)
    (hs : run grammar (j + 36) (.ref "structType") (40 :: r) = .fail)
    (h : run grammar (j + 35) (.ref "tupleType") (40 :: r) = .ok n rest) (hn : NotNil n) :
    run grammar (j + 42) (.ref "declarationType") (40 :: r) = .ok (.list [n]) rest := by
  refine (ref_unfold _ _ _ _ rule_decl).trans ?_
  refine (ord_unfold _ _ _ _ _).trans ?_
  refine (runOrd_fail _ _ _ _ _ _ (basicRef_miss j 40 r (by decide) not_letter_40)).trans ?_
  refine (runOrd_fail _ _ _ _ _ _ (mapRef_miss j 40 r (by decide) (by decide))).trans ?_
  refine (runOrd_fail _ _ _ _ _ _ (arrayRef_miss j 40 r (by decide) (by decide))).trans ?_
  refine (runOrd_fail _ _ _ _ _ _ hs).trans ?_
  have := runOrd_ok grammar (j + 35) _ [] "" _ _ _ h hn
    (by rw [applyAct_nil]; exact notNil_list _)
  rw [applyAct_nil] at this
  exact this

/-! #### lists and maps -/

theorem p_list (t : Ty) (ih : P t) : P (.list t) := by
  intro f rest hf _
  obtain ⟨j, rfl⟩ : ∃ j, f = j + 42 := ⟨f - 42, by simp [need] at hf; omega⟩
  have hj : need t ≤ j + 33 := by simp [need] at hf; omega
  show run grammar (j + 42) (.ref "declarationType") ([91] ++ print t ++ [93] ++ rest) = _
  have e : [91] ++ print t ++ [93] ++ rest = 91 :: (print t ++ 93 :: rest) := by simp
  rw [e]
  apply decl_to_array j _ rest (.val (.list t)) _ (notNil_val _)
  refine (ref_unfold _ _ _ _ rule_array).trans ?_
  have hseq : runSeq grammar (j + 35) [(.atom [91] "MapStart"), (.ref "declarationType"), (.atom [93] "MapClose")]
      (91 :: (print t ++ 93 :: rest)) =
      .ok [.term "MapStart" [91], .list [.val t], .term "MapClose" [93]] rest := by
    refine runSeq_ok _ _ _ _ _ _ _ _ _ (atom_hit _ 91 _ _ (by decide)) (notNil_term _ _) ?_
    refine runSeq_ok _ _ _ _ _ _ _ _ _ (ih (j + 33) (93 :: rest) hj (follow_cons 93 rest (by decide) (by decide)))
      (notNil_list _) ?_
    refine runSeq_ok _ _ _ _ _ _ _ _ _ (atom_hit _ 93 _ _ (by decide)) (notNil_term _ _) ?_
    exact runSeq_nil _ _ _
  have hact : applyAct grammar "nodifyArrayType"
      [.term "MapStart" [91], .list [.val t], .term "MapClose" [93]] = .val (.list t) := by
    simp [applyAct, grammar, act, extractValue, resultNode]
  have := and_ok grammar (j + 35) _ "nodifyArrayType" _ _ _ hseq (by rw [hact]; exact notNil_val _)
  rw [hact] at this
  exact this


theorem p_map (k v : Ty) (hv : WF v) (ihk : P k) (ihv : P v) : P (.map k v) := by
  intro f rest hf _
  obtain ⟨j, rfl⟩ : ∃ j, f = j + 42 := ⟨f - 42, by simp [need] at hf; omega⟩
  have hk : need k ≤ j + 34 := by simp [need] at hf; omega
  have hv' : need v ≤ j + 33 := by simp [need] at hf; omega
  show run grammar (j + 42) (.ref "declarationType") ([123] ++ print k ++ print v ++ [125] ++ rest) = _
  have e : [123] ++ print k ++ print v ++ [125] ++ rest = 123 :: (print k ++ (print v ++ 125 :: rest)) := by simp
  rw [e]
  apply decl_to_map j _ rest (.val (.map k v)) _ (notNil_val _)
  refine (ref_unfold _ _ _ _ rule_map).trans ?_
  obtain ⟨c, r, hc, hst⟩ := print_head v hv
  have hfol : Follow (print v ++ 125 :: rest) := by
    rw [hc]; exact follow_cons c _ (starter_props c hst).1 (starter_props c hst).2.1
  have hseq : runSeq grammar (j + 36) [(.atom [123] "MapStart"), (.ref "declarationType"),
      (.ref "declarationType"), (.atom [125] "MapClose")] (123 :: (print k ++ (print v ++ 125 :: rest))) =
      .ok [.term "MapStart" [123], .list [.val k], .list [.val v], .term "MapClose" [125]] rest := by
    refine runSeq_ok _ _ _ _ _ _ _ _ _ (atom_hit _ 123 _ _ (by decide)) (notNil_term _ _) ?_
    refine runSeq_ok _ _ _ _ _ _ _ _ _ (ihk (j + 34) _ hk hfol) (notNil_list _) ?_
    refine runSeq_ok _ _ _ _ _ _ _ _ _ (ihv (j + 33) (125 :: rest) hv' (follow_cons 125 rest (by decide) (by decide)))
      (notNil_list _) ?_
    refine runSeq_ok _ _ _ _ _ _ _ _ _ (atom_hit _ 125 _ _ (by decide)) (notNil_term _ _) ?_
    exact runSeq_nil _ _ _
  have hact : applyAct grammar "nodifyMap"
      [.term "MapStart" [123], .list [.val k], .list [.val v], .term "MapClose" [125]] = .val (.map k v) := by
    simp [applyAct, grammar, act, extractValue, resultNode]
  have := and_ok grammar (j + 36) _ "nodifyMap" _ _ _ hseq (by rw [hact]; exact notNil_val _)
  rw [hact] at this
  exact this

/-! #### the Kleene loops -/

theorem runLoop_stop {α} (g : Grammar α) (f : Nat) (q : Peg) (sep : Option Peg) (inp : Bytes)
    (h : run g f q inp = .fail) : runLoop g (f + 1) q sep inp = .ok [] inp := by
  simp [runLoop, h]

theorem runLoop_step {α} (g : Grammar α) (f : Nat) (q : Peg) (inp rest rest' : Bytes) (n : Node α)
    (ns : List (Node α)) (h : run g f q inp = .ok n rest) (hn : NotNil n)
    (hl : runLoop g f q none rest = .ok ns rest') : runLoop g (f + 1) q none inp = .ok (n :: ns) rest' := by
  simp only [runLoop, h]
  cases n <;> simp [NotNil] at hn <;> simp [hl]

theorem kleene_ok {α} (g : Grammar α) (f : Nat) (q : Peg) (sep : Option Peg) (a : ActName) (inp rest : Bytes)
    (ns : List (Node α)) (h : runLoop g f q sep inp = .ok ns rest) :
    run g (f + 1) (.kleene q sep a) inp = .ok (applyAct g a ns) rest := by
  simp [run, h]

def wrapTy (t : Ty) : SNode := .list [.val t]

/-- the `listType` loop over the members of a tuple or struct, up to the closing parenthesis -/
def LoopOK (ts : List Ty) : Prop := ∀ f rest, needList ts ≤ f →
  runLoop grammar f (.ref "declarationType") none (printList ts ++ 41 :: rest) =
    .ok (ts.map wrapTy) (41 :: rest)

theorem printList_follow (ts : List Ty) (h : WFList ts) (rest : Bytes) : Follow (printList ts ++ 41 :: rest) := by
  cases ts with
  | nil => exact follow_cons 41 rest (by decide) (by decide)
  | cons t r =>
    obtain ⟨c, r', hc, hst⟩ := print_head t (by simp [WFList] at h; exact h.1)
    simp only [printList, hc, List.cons_append]
    exact follow_cons c _ (starter_props c hst).1 (starter_props c hst).2.1

theorem loop_nil : LoopOK [] := by
  intro f rest hf
  obtain ⟨k, rfl⟩ : ∃ k, f = k + 41 := ⟨f - 41, by simp [needList] at hf; omega⟩
  exact runLoop_stop _ _ _ _ _ (decl_fail k 41 rest (by decide) (by decide) (by decide) (by decide) (by decide))

theorem loop_cons (t : Ty) (r : List Ty) (hr : WFList r) (iht : P t) (ihr : LoopOK r) : LoopOK (t :: r) := by
  intro f rest hf
  obtain ⟨k, rfl⟩ : ∃ k, f = k + 1 := ⟨f - 1, by simp [needList] at hf; omega⟩
  have h1 : need t ≤ k := by simp [needList] at hf; omega
  have h2 : needList r ≤ k := by simp [needList] at hf; omega
  show runLoop grammar (k + 1) _ none (print t ++ printList r ++ 41 :: rest) = _
  rw [List.append_assoc]
  exact runLoop_step _ _ _ _ _ _ _ _ (iht k _ h1 (printList_follow r hr rest)) (notNil_list _) (ihr k rest h2)

theorem listRef_ok (ts : List Ty) (hl : LoopOK ts) (m : Nat) (hm : needList ts ≤ m) (rest : Bytes) :
    run grammar (m + 2) (.ref "listType") (printList ts ++ 41 :: rest) =
      .ok (.list (ts.map wrapTy)) (41 :: rest) := by
  refine (ref_unfold _ _ _ _ rule_list).trans ?_
  have := kleene_ok grammar m (.ref "declarationType") none "" _ _ _ (hl m rest hm)
  rw [applyAct_nil] at this
  exact this

theorem atom_follow_miss (f : Nat) (name : String) (rest : Bytes) (h : Follow rest) :
    run grammar (f + 1) (.atom [60] name) rest = .fail := by
  simp only [run]
  cases hs : skipWS rest with
  | nil => simp [matchPrefix]
  | cons c r =>
    have : (60 == c) = false := by
      cases hc : (60 : UInt8) == c with
      | false => rfl
      | true => exfalso; have : c = 60 := by simpa using (beq_iff_eq.mp hc).symm
                subst this; exact h r hs
    simp [matchPrefix, this]

theorem extractTypes_wrap (ts : List Ty) : extractTypes (ts.map wrapTy) = .ok ts := by
  induction ts with
  | nil => rfl
  | cons t r ih => simp [extractTypes, wrapTy, extractValue] at ih ⊢; rw [ih]

theorem p_tuple (ts : List Ty) (hl : LoopOK ts) : P (.tuple ts) := by
  intro f rest hf hfol
  obtain ⟨j, rfl⟩ : ∃ j, f = j + 42 := ⟨f - 42, by simp [need] at hf; omega⟩
  have hj : needList ts ≤ j := by simp [need] at hf; omega
  show run grammar (j + 42) (.ref "declarationType") ([40] ++ printList ts ++ [41] ++ rest) = _
  have e : [40] ++ printList ts ++ [41] ++ rest = 40 :: (printList ts ++ 41 :: rest) := by simp
  rw [e]
  apply decl_to_tuple j _ rest (.val (.tuple ts)) _ _ (notNil_val _)
  · -- the struct alternative parses the whole parenthesis, then misses `<`
    refine (ref_unfold _ _ _ _ rule_struct).trans ?_
    apply and_fail
    refine runSeq_ok_fail _ _ _ _ _ _ _ (atom_hit _ 40 _ _ (by decide)) (notNil_term _ _) ?_
    refine runSeq_ok_fail _ _ _ _ _ _ _ (listRef_ok ts hl (j + 30) (by omega) rest) (notNil_list _) ?_
    refine runSeq_ok_fail _ _ _ _ _ _ _ (atom_hit _ 41 _ _ (by decide)) (notNil_term _ _) ?_
    exact runSeq_fail _ _ _ _ _ (atom_follow_miss _ _ rest hfol)
  · refine (ref_unfold _ _ _ _ rule_tuple).trans ?_
    have hseq : runSeq grammar (j + 33) [(.atom [40] "TypeParameterStart"), (.ref "listType"),
        (.atom [41] "TypeParameterClose")] (40 :: (printList ts ++ 41 :: rest)) =
        .ok [.term "TypeParameterStart" [40], .list (ts.map wrapTy), .term "TypeParameterClose" [41]] rest := by
      refine runSeq_ok _ _ _ _ _ _ _ _ _ (atom_hit _ 40 _ _ (by decide)) (notNil_term _ _) ?_
      refine runSeq_ok _ _ _ _ _ _ _ _ _ (listRef_ok ts hl (j + 29) (by omega) rest) (notNil_list _) ?_
      refine runSeq_ok _ _ _ _ _ _ _ _ _ (atom_hit _ 41 _ _ (by decide)) (notNil_term _ _) ?_
      exact runSeq_nil _ _ _
    have hact : applyAct grammar "nodifyTupleType"
        [.term "TypeParameterStart" [40], .list (ts.map wrapTy), .term "TypeParameterClose" [41]] =
        .val (.tuple ts) := by
      simp [applyAct, grammar, act, extractTypes_wrap, resultNode]
    have := and_ok grammar (j + 33) _ "nodifyTupleType" _ _ _ hseq (by rw [hact]; exact notNil_val _)
    rw [hact] at this
    exact this

/-! #### identifiers -/

theorem takeWhile_app (p : UInt8 → Bool) (r tail : Bytes) (hr : ∀ x ∈ r, p x = true)
    (ht : ∀ c t, tail = c :: t → p c = false) : takeWhileB p (r ++ tail) = (r, tail) := by
  induction r with
  | nil =>
    cases tail with
    | nil => rfl
    | cons c t => simp [takeWhileB, ht c t rfl]
  | cons x xs ih =>
    have hx := hr x (by simp)
    simp [takeWhileB, hx, ih (fun y hy => hr y (by simp [hy]))]

theorem matchIdent_app (n tail : Bytes) (hn : IsIdent n) (ht : ∀ c t, tail = c :: t → isIdentChar c = false) :
    matchIdent (n ++ tail) = some (n, tail) := by
  obtain ⟨b, r, rfl, hb, hr⟩ := hn
  simp [matchIdent, hb, takeWhile_app isIdentChar r tail hr ht]

theorem ident_head (n : Bytes) (hn : IsIdent n) : ∃ b r, n = b :: r ∧ isWS b = false := by
  obtain ⟨b, r, rfl, hb, _⟩ := hn
  refine ⟨b, r, rfl, ?_⟩
  simp only [isAlpha, isWS, Bool.or_eq_true, Bool.and_eq_true, decide_eq_true_eq] at hb ⊢
  have := b.toNat_lt
  simp only [UInt8.le_iff_toNat_le, UInt8.toNat_ofNat] at hb
  simp only [Bool.or_eq_false_iff, beq_eq_false_iff_ne, ne_eq]
  refine ⟨⟨⟨?_, ?_⟩, ?_⟩, ?_⟩ <;> (intro h; subst h; simp at hb)

/-- what follows a name inside `<…>`: a comma or the closing bracket -/
def NameTail (tail : Bytes) : Prop := ∃ t, tail = 44 :: t ∨ tail = 62 :: t

theorem nameTail_not_ident (tail : Bytes) (h : NameTail tail) : ∀ c t, tail = c :: t → isIdentChar c = false := by
  intro c t e
  obtain ⟨t', h | h⟩ := h <;> rw [h] at e <;> cases e <;> decide

theorem nameTail_not_lt (tail : Bytes) (h : NameTail tail) : ∀ t, tail ≠ 60 :: t := by
  intro t e
  obtain ⟨t', h | h⟩ := h <;> rw [h] at e <;> cases e

theorem structName_match (n tail : Bytes) (hn : IsStructName n) (ht : NameTail tail) :
    ∃ nm, matchAlts [(.templateName, "structTemplateName"), (.ident, "structName")] (n ++ tail) =
      some (nm, n, tail) := by
  rcases hn with hid | ⟨a, b, ha, hb, rfl⟩
  · refine ⟨"structName", ?_⟩
    have h1 := matchIdent_app n tail hid (nameTail_not_ident tail ht)
    have hnt : matchTemplate (n ++ tail) = none := by
      simp only [matchTemplate, h1]
      obtain ⟨t, h | h⟩ := ht <;> rw [h] <;> simp
    simp [matchAlts, matchClass, hnt, h1]
  · refine ⟨"structTemplateName", ?_⟩
    have e : a ++ [60] ++ b ++ [62] ++ tail = a ++ (60 :: (b ++ (62 :: tail))) := by simp
    have h1 : matchIdent (a ++ (60 :: (b ++ (62 :: tail)))) = some (a, 60 :: (b ++ (62 :: tail))) :=
      matchIdent_app a _ ha (by intro c t e; cases e; decide)
    have h2 : matchIdent (b ++ (62 :: tail)) = some (b, 62 :: tail) :=
      matchIdent_app b _ hb (by intro c t e; cases e; decide)
    rw [e]
    simp [matchAlts, matchClass, matchTemplate, h1, h2]

theorem structName_head (n : Bytes) (hn : IsStructName n) : ∃ b r, n = b :: r ∧ isWS b = false := by
  rcases hn with hid | ⟨a, b, ha, hb, rfl⟩
  · exact ident_head n hid
  · obtain ⟨c, r, rfl, hc⟩ := ident_head a ha
    exact ⟨c, r ++ [60] ++ b ++ [62], by simp, hc⟩

/-! #### the member-name loop -/

def nameNode (m : Bytes × Ty) : SNode := .term "IDENT" m.1

theorem memberNames_tail (ms : List (Bytes × Ty)) (rest : Bytes) : NameTail (memberNames ms ++ 62 :: rest) := by
  cases ms with
  | nil => exact ⟨rest, Or.inr (by simp [memberNames])⟩
  | cons m r => obtain ⟨n, t⟩ := m; exact ⟨_, Or.inl (by simp [memberNames]; rfl)⟩

theorem names_loop (ms : List (Bytes × Ty)) (hwf : WFMembers ms) : ∀ f rest, ms.length + 10 ≤ f →
    runLoop grammar f memberPeg none (memberNames ms ++ 62 :: rest) = .ok (ms.map nameNode) (62 :: rest) := by
  induction ms with
  | nil =>
    intro f rest hf
    obtain ⟨k, rfl⟩ : ∃ k, f = k + 4 := ⟨f - 4, by simp at hf; omega⟩
    exact runLoop_stop _ _ _ _ _ (and_first_miss k 44 62 _ _ _ rest (by decide) (by decide))
  | cons m r ih =>
    obtain ⟨n, t⟩ := m
    obtain ⟨hn, _, hr⟩ := hwf
    intro f rest hf
    obtain ⟨k, rfl⟩ : ∃ k, f = k + 5 := ⟨f - 5, by simp at hf; omega⟩
    have hk : r.length + 10 ≤ k + 4 := by simp at hf; omega
    show runLoop grammar (k + 5) memberPeg none ([44] ++ n ++ memberNames r ++ 62 :: rest) = _
    have e : [44] ++ n ++ memberNames r ++ 62 :: rest = 44 :: (n ++ (memberNames r ++ 62 :: rest)) := by simp
    rw [e]
    obtain ⟨b, nr, hb, hbws⟩ := ident_head n hn
    have htok : run grammar (k + 1) (.ref "typeName") (n ++ (memberNames r ++ 62 :: rest)) =
        .ok (.term "IDENT" n) (memberNames r ++ 62 :: rest) := by
      refine (ref_unfold _ _ _ _ rule_typeName).trans ?_
      have hsk : skipWS (n ++ (memberNames r ++ 62 :: rest)) = n ++ (memberNames r ++ 62 :: rest) := by
        rw [hb]; exact skipWS_cons b _ hbws
      have hm := matchIdent_app n _ hn (nameTail_not_ident _ (memberNames_tail r rest))
      obtain ⟨k', rfl⟩ : ∃ k', k = k' + 1 := ⟨k - 1, by omega⟩
      simp [typeNamePeg, run, hsk, matchClass, hm]
    have hseq : runSeq grammar (k + 3) [(.atom [44] "TypeComa"), (.ref "typeName")]
        (44 :: (n ++ (memberNames r ++ 62 :: rest))) =
        .ok [.term "TypeComa" [44], .term "IDENT" n] (memberNames r ++ 62 :: rest) := by
      refine runSeq_ok _ _ _ _ _ _ _ _ _ (atom_hit _ 44 _ _ (by decide)) (notNil_term _ _) ?_
      refine runSeq_ok _ _ _ _ _ _ _ _ _ htok (notNil_term _ _) ?_
      exact runSeq_nil _ _ _
    have hact : applyAct grammar "nodifyTypeMember" [.term "TypeComa" [44], .term "IDENT" n] = .term "IDENT" n := by
      simp [applyAct, grammar, act]
    have hand := and_ok grammar (k + 3) _ "nodifyTypeMember" _ _ _ hseq (by rw [hact]; exact notNil_term _ _)
    rw [hact] at hand
    exact runLoop_step _ _ _ _ _ _ _ _ hand (notNil_term _ _) (ih hr (k + 4) rest hk)

/-! #### structs -/

theorem printMembers_eq (ms : List (Bytes × Ty)) : printMembers ms = printList (ms.map (·.2)) := by
  induction ms with
  | nil => rfl
  | cons m r ih => obtain ⟨n, t⟩ := m; simp [printMembers, printList, ih]

theorem needMembers_eq (ms : List (Bytes × Ty)) : needMembers ms = needList (ms.map (·.2)) := by
  induction ms with
  | nil => rfl
  | cons m r ih => obtain ⟨n, t⟩ := m; simp [needMembers, needList, ih]

theorem extractNames_names (ms : List (Bytes × Ty)) : extractNames (ms.map nameNode) = .ok (ms.map (·.1)) := by
  induction ms with
  | nil => rfl
  | cons m r ih => simp [extractNames, nameNode] at ih ⊢; rw [ih]

theorem zip_members (ms : List (Bytes × Ty)) : zipMembers (ms.map (·.1)) (ms.map (·.2)) = ms := by
  induction ms with
  | nil => rfl
  | cons m r ih => obtain ⟨n, t⟩ := m; simp [zipMembers] at ih ⊢; exact ih

theorem p_struct (n : Bytes) (ms : List (Bytes × Ty)) (hn : IsStructName n) (hwf : WFMembers ms)
    (hl : LoopOK (ms.map (·.2))) : P (.struct n ms) := by
  intro f rest hf _
  obtain ⟨j, rfl⟩ : ∃ j, f = j + 42 := ⟨f - 42, by simp [need] at hf; omega⟩
  have hj : needList (ms.map (·.2)) + ms.length + 18 ≤ j := by
    simp [need, needMembers_eq] at hf; omega
  rw [print_struct, printMembers_eq]
  have e : [40] ++ printList (ms.map (·.2)) ++ [41, 60] ++ n ++ memberNames ms ++ [62] ++ rest =
      40 :: (printList (ms.map (·.2)) ++ 41 :: (60 :: (n ++ (memberNames ms ++ 62 :: rest)))) := by simp
  rw [e]
  apply decl_to_struct j _ rest (.val (.struct n ms)) _ (notNil_val _)
  refine (ref_unfold _ _ _ _ rule_struct).trans ?_
  -- the struct name token
  obtain ⟨b, nr, hb, hbws⟩ := structName_head n hn
  obtain ⟨nm, hmatch⟩ := structName_match n (memberNames ms ++ 62 :: rest) hn (memberNames_tail ms rest)
  have hname : run grammar (j + 29) (.ref "structName") (n ++ (memberNames ms ++ 62 :: rest)) =
      .ok (.term nm n) (memberNames ms ++ 62 :: rest) := by
    refine (ref_unfold _ _ _ _ rule_structName).trans ?_
    have hsk : skipWS (n ++ (memberNames ms ++ 62 :: rest)) = n ++ (memberNames ms ++ 62 :: rest) := by
      rw [hb]; exact skipWS_cons b _ hbws
    simp [structNamePeg, run, hsk, hmatch]
  have hnames : run grammar (j + 28) (.ref "typeMemberList") (memberNames ms ++ 62 :: rest) =
      .ok (.list (ms.map nameNode)) (62 :: rest) := by
    refine (ref_unfold _ _ _ _ rule_memberList).trans ?_
    have := kleene_ok grammar (j + 26) memberPeg none "" _ _ _ (names_loop ms hwf (j + 26) rest (by omega))
    rw [applyAct_nil] at this
    exact this
  have hseq : runSeq grammar (j + 34) [(.atom [40] "TypeParameterStart"), (.ref "listType"),
      (.atom [41] "TypeParameterClose"), (.atom [60] "TypeDefinitionStart"), (.ref "structName"),
      (.ref "typeMemberList"), (.atom [62] "TypeDefinitionClose")]
      (40 :: (printList (ms.map (·.2)) ++ 41 :: (60 :: (n ++ (memberNames ms ++ 62 :: rest))))) =
      .ok [.term "TypeParameterStart" [40], .list ((ms.map (·.2)).map wrapTy), .term "TypeParameterClose" [41],
        .term "TypeDefinitionStart" [60], .term nm n, .list (ms.map nameNode),
        .term "TypeDefinitionClose" [62]] rest := by
    refine runSeq_ok _ _ _ _ _ _ _ _ _ (atom_hit _ 40 _ _ (by decide)) (notNil_term _ _) ?_
    refine runSeq_ok _ _ _ _ _ _ _ _ _ (listRef_ok _ hl (j + 30) (by omega) _) (notNil_list _) ?_
    refine runSeq_ok _ _ _ _ _ _ _ _ _ (atom_hit _ 41 _ _ (by decide)) (notNil_term _ _) ?_
    refine runSeq_ok _ _ _ _ _ _ _ _ _ (atom_hit _ 60 _ _ (by decide)) (notNil_term _ _) ?_
    refine runSeq_ok _ _ _ _ _ _ _ _ _ hname (notNil_term _ _) ?_
    refine runSeq_ok _ _ _ _ _ _ _ _ _ hnames (notNil_list _) ?_
    refine runSeq_ok _ _ _ _ _ _ _ _ _ (atom_hit _ 62 _ _ (by decide)) (notNil_term _ _) ?_
    exact runSeq_nil _ _ _
  have hact : applyAct grammar "nodifyStrucType"
      [.term "TypeParameterStart" [40], .list ((ms.map (·.2)).map wrapTy), .term "TypeParameterClose" [41],
        .term "TypeDefinitionStart" [60], .term nm n, .list (ms.map nameNode),
        .term "TypeDefinitionClose" [62]] = .val (.struct n ms) := by
    have e1 := extractTypes_wrap (ms.map (·.2))
    have e2 := extractNames_names ms
    simp [applyAct, grammar, act, e1, e2, zip_members, -List.map_map]
  have := and_ok grammar (j + 34) _ "nodifyStrucType" _ _ _ hseq (by rw [hact]; exact notNil_val _)
  rw [hact] at this
  exact this

/-! ### every well-formed type -/

theorem wfMembers_list (ms : List (Bytes × Ty)) (h : WFMembers ms) : WFList (ms.map (·.2)) := by
  induction ms with
  | nil => trivial
  | cons m r ih => obtain ⟨n, t⟩ := m; exact ⟨h.2.1, ih h.2.2⟩

mutual
theorem p_all : (t : Ty) → WF t → P t
  | .basic c, h => p_basic c (by simpa [WF] using h)
  | .list t, h => p_list t (p_all t (by simpa [WF] using h))
  | .map k v, h => by
    simp only [WF] at h
    exact p_map k v h.2 (p_all k h.1) (p_all v h.2)
  | .tuple ts, h => p_tuple ts (loop_all ts (by simpa [WF] using h))
  | .struct n ms, h => by
    simp only [WF] at h
    exact p_struct n ms h.1 h.2 (loopM_all ms h.2)
theorem loop_all : (ts : List Ty) → WFList ts → LoopOK ts
  | [], _ => loop_nil
  | t :: r, h => loop_cons t r h.2 (p_all t h.1) (loop_all r h.2)
theorem loopM_all : (ms : List (Bytes × Ty)) → WFMembers ms → LoopOK (ms.map (·.2))
  | [], _ => loop_nil
  | (n, t) :: r, h => by
    show LoopOK (t :: r.map (·.2))
    exact loop_cons t (r.map (·.2)) (wfMembers_list r h.2.2) (p_all t h.2.1) (loopM_all r h.2.2)
end

/-! ### the stack depth `Parse` allows is enough -/

theorem print_len_pos (t : Ty) : 1 ≤ (print t).length := by
  cases t with
  | basic c => simp [print]
  | list t => simp [print]
  | map k v => simp [print]
  | tuple ts => simp [print]
  | struct n ms => rw [print_struct]; simp

theorem memberNames_len (ms : List (Bytes × Ty)) : ms.length ≤ (memberNames ms).length := by
  induction ms with
  | nil => simp
  | cons m r ih => obtain ⟨n, t⟩ := m; simp [memberNames]; omega

mutual
theorem need_bound : (t : Ty) → need t ≤ 64 * ((print t).length + 2)
  | .basic c => by simp [need, print]
  | .list t => by have := need_bound t; simp [need, print]; omega
  | .map k v => by have := need_bound k; have := need_bound v; simp [need, print]; omega
  | .tuple ts => by have := needList_bound ts; simp [need, print]; omega
  | .struct n ms => by
    have := needMembers_bound ms
    have := memberNames_len ms
    rw [print_struct]; simp [need]; omega
theorem needList_bound : (ts : List Ty) → needList ts ≤ 64 * ((printList ts).length + 2) + 50
  | [] => by simp [needList, printList]
  | t :: r => by
    have := need_bound t; have := needList_bound r; have := print_len_pos t
    simp [needList, printList]; omega
theorem needMembers_bound : (ms : List (Bytes × Ty)) → needMembers ms ≤ 64 * ((printMembers ms).length + 2) + 50
  | [] => by simp [needMembers, printMembers]
  | (n, t) :: r => by
    have := need_bound t; have := needMembers_bound r; have := print_len_pos t
    simp [needMembers, printMembers]; omega
end

/-! ### C09 -/

/-! ### the nesting of a printed type -/

mutual
/-- how deep lists, maps, tuples and structs are nested in a type -/
def nest : Ty → Nat
  | .basic _ => 0
  | .list t => nest t + 1
  | .map k v => max (nest k) (nest v) + 1
  | .tuple ts => nestList ts + 1
  | .struct _ ms => nestMembers ms + 1
def nestList : List Ty → Nat
  | [] => 0
  | t :: r => max (nest t) (nestList r)
def nestMembers : List (Bytes × Ty) → Nat
  | [] => 0
  | (_, t) :: r => max (nest t) (nestMembers r)
end

def isBracket (c : UInt8) : Bool := c == 91 || c == 123 || c == 40 || c == 93 || c == 125 || c == 41

theorem nesting_skip (w rest : Bytes) (d m : Nat) (h : ∀ c ∈ w, isBracket c = false) :
    nestingFrom (w ++ rest) d m = nestingFrom rest d m := by
  induction w with
  | nil => rfl
  | cons c w ih =>
    have hc := h c (by simp)
    simp only [isBracket, Bool.or_eq_false_iff] at hc
    obtain ⟨⟨⟨⟨⟨h1, h2⟩, h3⟩, h4⟩, h5⟩, h6⟩ := hc
    simp only [List.cons_append, nestingFrom, h1, h2, h3, h4, h5, h6, Bool.or_self, Bool.false_eq_true, if_false]
    exact ih (fun x hx => h x (by simp [hx]))

theorem identChar_no_bracket (c : UInt8) (h : isIdentChar c = true) : isBracket c = false := by
  cases hb : isBracket c with
  | false => rfl
  | true =>
    simp only [isBracket, Bool.or_eq_true, beq_iff_eq] at hb
    rcases hb with ((((rfl | rfl) | rfl) | rfl) | rfl) | rfl <;> revert h <;> decide

theorem ident_no_bracket (n : Bytes) (h : IsIdent n) : ∀ c ∈ n, isBracket c = false := by
  obtain ⟨b, r, rfl, hb, hr⟩ := h
  intro c hc
  rcases List.mem_cons.mp hc with rfl | hc
  · exact identChar_no_bracket _ (by simp [isIdentChar, hb])
  · exact identChar_no_bracket c (hr c hc)

theorem structName_no_bracket (n : Bytes) (h : IsStructName n) : ∀ c ∈ n, isBracket c = false := by
  rcases h with h | ⟨a, b, ha, hb, rfl⟩
  · exact ident_no_bracket n h
  · intro c hc
    simp only [List.mem_append, List.mem_cons, List.mem_nil_iff, or_false] at hc
    rcases hc with ((hc | rfl) | hc) | rfl
    · exact ident_no_bracket a ha c hc
    · decide
    · exact ident_no_bracket b hb c hc
    · decide

theorem memberNames_no_bracket : (ms : List (Bytes × Ty)) → WFMembers ms → ∀ c ∈ memberNames ms, isBracket c = false
  | [], _, c, hc => by simp [memberNames] at hc
  | (n, t) :: r, h, c, hc => by
    simp only [WFMembers] at h
    simp only [memberNames, List.mem_append, List.mem_cons, List.mem_nil_iff, or_false] at hc
    rcases hc with (rfl | hc) | hc
    · decide
    · exact ident_no_bracket n h.1 c hc
    · exact memberNames_no_bracket r h.2.2 c hc

theorem nesting_open (c : UInt8) (hc : c = 91 ∨ c = 123 ∨ c = 40) (rest : Bytes) (d m : Nat) :
    nestingFrom (c :: rest) d m = nestingFrom rest (d + 1) (max m (d + 1)) := by
  rcases hc with rfl | rfl | rfl <;> rfl

theorem nesting_close (c : UInt8) (hc : c = 93 ∨ c = 125 ∨ c = 41) (rest : Bytes) (d m : Nat) :
    nestingFrom (c :: rest) (d + 1) m = nestingFrom rest d m := by
  rcases hc with rfl | rfl | rfl <;> rfl

mutual
/-- reading a printed type raises the deepest level seen by its nesting, and comes back to the level it started at -/
theorem nesting_print : (t : Ty) → WF t → ∀ (rest : Bytes) (d m : Nat), d ≤ m →
    nestingFrom (print t ++ rest) d m = nestingFrom rest d (max m (d + nest t))
  | .basic c, h, rest, d, m, hdm => by
    simp only [WF] at h
    have : isBracket c = false := by revert h; simp only [basicLetters]; intro h; simp at h; rcases h with rfl|rfl|rfl|rfl|rfl|rfl|rfl|rfl|rfl|rfl|rfl|rfl|rfl|rfl|rfl|rfl <;> rfl
    have hs := nesting_skip [c] rest d m (by intro x hx; simp at hx; subst hx; exact this)
    simp only [print, nest]
    rw [hs]; congr 1; omega
  | .list t, h, rest, d, m, hdm => by
    simp only [WF] at h
    have ih := nesting_print t h (93 :: rest) (d + 1) (max m (d + 1)) (by omega)
    simp only [print, nest, List.append_assoc, List.cons_append, List.nil_append]
    rw [nesting_open 91 (Or.inl rfl), ih, nesting_close 93 (Or.inl rfl)]
    congr 1; omega
  | .map k v, h, rest, d, m, hdm => by
    simp only [WF] at h
    have ihk := nesting_print k h.1 (print v ++ 125 :: rest) (d + 1) (max m (d + 1)) (by omega)
    have ihv := nesting_print v h.2 (125 :: rest) (d + 1) (max (max m (d + 1)) (d + 1 + nest k)) (by omega)
    simp only [print, nest, List.append_assoc, List.cons_append, List.nil_append]
    rw [nesting_open 123 (Or.inr (Or.inl rfl)), ihk, ihv, nesting_close 125 (Or.inr (Or.inl rfl))]
    congr 1; omega
  | .tuple ts, h, rest, d, m, hdm => by
    simp only [WF] at h
    have ih := nesting_printList ts h (41 :: rest) (d + 1) (max m (d + 1)) (by omega)
    simp only [print, nest, List.append_assoc, List.cons_append, List.nil_append]
    rw [nesting_open 40 (Or.inr (Or.inr rfl)), ih, nesting_close 41 (Or.inr (Or.inr rfl))]
    congr 1; omega
  | .struct n ms, h, rest, d, m, hdm => by
    simp only [WF] at h
    rw [print_struct]
    have ih := nesting_printMembers ms h.2 (41 :: 60 :: (n ++ (memberNames ms ++ 62 :: rest))) (d + 1) (max m (d + 1)) (by omega)
    have hskip := nesting_skip (60 :: (n ++ memberNames ms ++ [62])) rest d (max (max m (d + 1)) (d + 1 + nestMembers ms)) (by
      intro c hc
      simp only [List.mem_cons, List.mem_append, List.mem_nil_iff, or_false] at hc
      rcases hc with rfl | (hc | hc) | rfl
      · decide
      · exact structName_no_bracket n h.1 c hc
      · exact memberNames_no_bracket ms h.2 c hc
      · decide)
    simp only [nest, List.append_assoc, List.cons_append, List.nil_append] at hskip ⊢
    rw [nesting_open 40 (Or.inr (Or.inr rfl)), ih, nesting_close 41 (Or.inr (Or.inr rfl)), hskip]
    congr 1; omega
theorem nesting_printList : (ts : List Ty) → WFList ts → ∀ (rest : Bytes) (d m : Nat), d ≤ m →
    nestingFrom (printList ts ++ rest) d m = nestingFrom rest d (max m (d + nestList ts))
  | [], _, rest, d, m, hdm => by simp only [printList, nestList, List.nil_append]; congr 1; omega
  | t :: r, h, rest, d, m, hdm => by
    simp only [WFList] at h
    have iht := nesting_print t h.1 (printList r ++ rest) d m hdm
    have ihr := nesting_printList r h.2 rest d (max m (d + nest t)) (by omega)
    simp only [printList, nestList, List.append_assoc]
    rw [iht, ihr]; congr 1; omega
theorem nesting_printMembers : (ms : List (Bytes × Ty)) → WFMembers ms → ∀ (rest : Bytes) (d m : Nat), d ≤ m →
    nestingFrom (printMembers ms ++ rest) d m = nestingFrom rest d (max m (d + nestMembers ms))
  | [], _, rest, d, m, hdm => by simp only [printMembers, nestMembers, List.nil_append]; congr 1; omega
  | (n, t) :: r, h, rest, d, m, hdm => by
    simp only [WFMembers] at h
    have iht := nesting_print t h.2.1 (printMembers r ++ rest) d m hdm
    have ihr := nesting_printMembers r h.2.2 rest d (max m (d + nest t)) (by omega)
    simp only [printMembers, nestMembers, List.append_assoc]
    rw [iht, ihr]; congr 1; omega
end

/-- the nesting `signature.Parse` measures on a printed type is the nesting of the type -/
theorem nesting_of_print (t : Ty) (h : WF t) : nesting (print t) = nest t := by
  have := nesting_print t h [] 0 0 (by omega)
  simp only [List.append_nil, nestingFrom] at this
  unfold nesting; rw [this]; omega

theorem print_parseU (t : Ty) (h : WF t) : parseSigU (print t) = .ok t := by
  have hp := p_all t h (fuelFor (print t)) [] (by unfold fuelFor; exact need_bound t) follow_nil
  rw [List.append_nil] at hp
  simp [parseSigU, hp]

/-- **Every signature of the grammar parses to the type that prints it**: scalars, dynamic
    value, object, unknown, void, lists, maps, tuples, named structs (template names included),
    nested arbitrarily — up to `MaxDepth` levels, the bound `signature.Parse` sets itself.  In particular
    the printed signature of the result is the identical string. -/
theorem print_parse (t : Ty) (h : WF t) (hd : nest t ≤ maxDepth) : parseSig (print t) = .ok t := by
  unfold parseSig
  rw [nesting_of_print t h, if_neg (by omega)]
  exact print_parseU t h

/-- **Deeper than `MaxDepth` is refused** — before the parser, which calls itself once per level, sees the text:
    whatever the length of a hostile signature, the depth of the calls is bounded. -/
theorem too_deep_refused (inp : Bytes) (h : maxDepth < nesting inp) : parseSig inp = .error .err := by
  unfold parseSig; rw [if_pos h]

/-- a type one level deeper than allowed: printed, it is refused; it parsed before the repair
    (the stack of the goroutine permitting) -/
theorem deeper_type_refused (t : Ty) (h : WF t) (hd : maxDepth < nest t) :
    parseSig (print t) = .error .err ∧ parseSigU (print t) = .ok t :=
  ⟨too_deep_refused _ (by rw [nesting_of_print t h]; exact hd), print_parseU t h⟩

/-- printing is injective on the grammar's types (corollary) -/
theorem print_injective (a b : Ty) (ha : WF a) (hb : WF b) (h : print a = print b) : a = b := by
  have h1 := print_parseU a ha
  have h2 := print_parseU b hb
  rw [h] at h1; rw [h1] at h2
  exact Except.ok.inj h2

/-- the IDL name and the Go representation are functions of the parsed type, hence of the
    signature string: two signatures that print alike have the same IDL name and Go type -/
theorem repr_consistent (a b : Ty) (ha : WF a) (hb : WF b) (h : print a = print b) :
    idlName a = idlName b ∧ goType a = goType b := by
  rw [print_injective a b ha hb h]; exact ⟨rfl, rfl⟩

/-! ### non-vacuity -/

def exTy : Ty :=
  .struct [83] [([97], .basic 105), ([98], .list (.basic 115)),
    ([99], .map (.basic 115) (.tuple [.basic 109, .struct [84, 60, 85, 62] []]))]

theorem isIdent1 (b : UInt8) (h : isAlpha b = true) : IsIdent [b] := ⟨b, [], rfl, h, by simp⟩

-- "(i[s]{s(m()<T<U>>)})<S,a,b,c>"
example : print exTy = [40, 105, 91, 115, 93, 123, 115, 40, 109, 40, 41, 60, 84, 60, 85, 62, 62, 41, 125, 41,
    60, 83, 44, 97, 44, 98, 44, 99, 62] := by
  simp [exTy, print, printMembers, memberNames, printList]

example : WF exTy := by
  refine ⟨Or.inl (isIdent1 83 (by decide)), isIdent1 97 (by decide), by simp [WF, basicLetters],
    isIdent1 98 (by decide), by simp [WF, basicLetters], isIdent1 99 (by decide), ?_, trivial⟩
  refine ⟨by simp [WF, basicLetters], by simp [WF, basicLetters], ?_, trivial⟩
  exact ⟨Or.inr ⟨[84], [85], isIdent1 84 (by decide), isIdent1 85 (by decide), rfl⟩, trivial⟩

example : parseSig (print exTy) = .ok exTy := print_parse exTy (by
  refine ⟨Or.inl (isIdent1 83 (by decide)), isIdent1 97 (by decide), by simp [WF, basicLetters],
    isIdent1 98 (by decide), by simp [WF, basicLetters], isIdent1 99 (by decide), ?_, trivial⟩
  refine ⟨by simp [WF, basicLetters], by simp [WF, basicLetters], ?_, trivial⟩
  exact ⟨Or.inr ⟨[84], [85], isIdent1 84 (by decide), isIdent1 85 (by decide), rfl⟩, trivial⟩)
  (by simp [exTy, nest, nestMembers, nestList, maxDepth])

end QiVerif.C09
