/-
  C18 — from the meta-objects to the blocks: `GenerateIDL` parses the signatures of every action,
  registers the types in its type set (meta/signature/type.go: TypeSet.Search, ResolveCollision,
  RegisterTo of lists, maps, tuples and structs — a struct is registered after its members, under
  its name unless that name is taken by something else, in which case it is renamed), writes the
  action line, and at the end one struct block per struct of the set.

  When no two different structs of the meta-objects share a name, and none has the name of an
  interface, nothing is renamed, every struct an action uses has its block, and the blocks written
  are those of `meta_object_roundtrip` (Props/C18Package.lean): the text is read back with the same
  signatures.
-/
import QiVerif.Props.C18Package
set_option linter.unusedSimpArgs false
set_option linter.unusedVariables false
namespace QiVerif.C18
open QiVerif QiVerif.Idl

/-! ### the type set -/

/-- what is registered under a name: a struct (its members, as renamed) or an interface -/
abbrev TEntry := Bytes × Option (List (Bytes × Sig.Ty))

abbrev TSet := List TEntry

/-- `RefType.Signature()` in the empty scope `GenerateIDL` gives the interfaces: the error name -/
def refSig (n : Bytes) : Bytes := errSig (msgNotFound ++ n)

/-- `Types[i].Signature()` -/
def TEntry.sig : TEntry → Bytes
  | (n, some ms) => Sig.print (.struct n ms)
  | (n, none) => refSig n

/-- `Search` -/
def tsFind : TSet → Bytes → Option TEntry
  | [], _ => none
  | e :: r, n => if e.1 == n then some e else tsFind r n

def cannotRegister : Bytes :=
  [99, 97, 110, 95, 110, 111, 116, 95, 114, 101, 103, 105, 115, 116, 101, 114, 95, 110, 97, 109, 101, 95]   -- "can_not_register_name_"

/-- `fmt.Sprintf("%s_%d", originalName, i)` -/
def numbered (orig : Bytes) (i : Nat) : Bytes := orig ++ [95] ++ digitsOf i

/-- the loop of `ResolveCollision`: the name if it is free or taken by the same signature, else the
    next numbered name; after a hundred rounds the name that says so -/
def resolveLoop (s : TSet) (orig sig : Bytes) : Nat → Nat → Bytes → Bytes
  | 0, _, _ => cannotRegister ++ orig
  | fuel + 1, i, name =>
    match tsFind s name with
    | none => name
    | some e => if e.sig == sig then name else resolveLoop s orig sig fuel (i + 1) (numbered orig i)

def resolveCollision (s : TSet) (orig sig : Bytes) : Bytes := resolveLoop s orig sig 100 0 orig

mutual
/-- `RegisterTo`: the set afterwards, and the type with the names its structs have now -/
def reg : TSet → Sig.Ty → TSet × Sig.Ty
  | s, .basic c => (s, .basic c)
  | s, .list t => let r := reg s t; (r.1, .list r.2)
  | s, .map k v => let a := reg s k; let b := reg a.1 v; (b.1, .map a.2 b.2)
  | s, .tuple ts => let r := regL s ts; (r.1, .tuple r.2)
  | s, .struct n ms =>
    let r := regM s ms
    let n' := resolveCollision r.1 n (Sig.print (.struct n r.2))
    let s2 := match tsFind r.1 n' with
      | none => r.1 ++ [(n', some r.2)]
      | some _ => r.1
    (s2, .struct n' r.2)
def regL : TSet → List Sig.Ty → TSet × List Sig.Ty
  | s, [] => (s, [])
  | s, t :: r => let a := reg s t; let b := regL a.1 r; (b.1, a.2 :: b.2)
def regM : TSet → List (Bytes × Sig.Ty) → TSet × List (Bytes × Sig.Ty)
  | s, [] => (s, [])
  | s, (f, t) :: r => let a := reg s t; let b := regM a.1 r; (b.1, (f, a.2) :: b.2)
end

/-! ### a family of structs without clashes -/

mutual
/-- every struct of the type is the struct the family has under that name, and no interface has that name -/
def InFam (F : Bytes → Option (List (Bytes × Sig.Ty))) (I : List Bytes) : Sig.Ty → Prop
  | .basic c => c ∈ Sig.basicLetters
  | .list t => InFam F I t
  | .map k v => InFam F I k ∧ InFam F I v
  | .tuple ts => InFamL F I ts
  | .struct n ms => F n = some ms ∧ n ∉ I ∧ IsName n ∧ InFamM F I ms
def InFamL (F : Bytes → Option (List (Bytes × Sig.Ty))) (I : List Bytes) : List Sig.Ty → Prop
  | [] => True
  | t :: r => InFam F I t ∧ InFamL F I r
def InFamM (F : Bytes → Option (List (Bytes × Sig.Ty))) (I : List Bytes) : List (Bytes × Sig.Ty) → Prop
  | [] => True
  | (f, t) :: r => IsIdent f ∧ InFam F I t ∧ InFamM F I r
end

theorem tsFind_mem (s : TSet) (n : Bytes) (e : TEntry) (h : tsFind s n = some e) : e ∈ s ∧ e.1 = n := by
  induction s with
  | nil => simp [tsFind] at h
  | cons x r ih =>
    simp only [tsFind] at h
    split at h
    · rename_i hx
      simp only [Option.some.injEq] at h; subst h
      exact ⟨by simp, by simpa using hx⟩
    · have := ih h; exact ⟨by simp [this.1], this.2⟩

theorem tsFind_append_none (s : TSet) (n : Bytes) (e : TEntry) (h : tsFind s n = none) :
    tsFind (s ++ [e]) n = if e.1 == n then some e else none := by
  induction s with
  | nil => simp [tsFind]
  | cons x r ih =>
    simp only [tsFind] at h
    split at h
    · simp at h
    · rename_i hx
      simp only [List.cons_append, tsFind, hx, Bool.false_eq_true, if_false]
      exact ih h

theorem tsFind_append_some (s : TSet) (n : Bytes) (e x : TEntry) (h : tsFind s n = some x) : tsFind (s ++ [e]) n = some x := by
  induction s with
  | nil => simp [tsFind] at h
  | cons y r ih =>
    simp only [tsFind] at h
    simp only [List.cons_append, tsFind]
    split
    · rename_i hy; simp only [hy, if_true] at h; exact h
    · rename_i hy; simp only [hy, Bool.false_eq_true, if_false] at h; exact ih h

/-- what registering leaves in the set: everything that was there stays findable -/
def Ext (s s' : TSet) : Prop := ∀ n x, tsFind s n = some x → tsFind s' n = some x

theorem ext_refl (s : TSet) : Ext s s := fun _ _ h => h
theorem ext_trans (a b c : TSet) (h1 : Ext a b) (h2 : Ext b c) : Ext a c := fun n x h => h2 n x (h1 n x h)
theorem ext_append (s : TSet) (e : TEntry) (h : tsFind s e.1 = none) : Ext s (s ++ [e]) := by
  intro n x hx; exact tsFind_append_some s n e x hx

mutual
/-- every struct of the type is found in the set under its name, with its members -/
def Registered (s : TSet) : Sig.Ty → Prop
  | .basic _ => True
  | .list t => Registered s t
  | .map k v => Registered s k ∧ Registered s v
  | .tuple ts => RegisteredL s ts
  | .struct n ms => tsFind s n = some (n, some ms) ∧ RegisteredM s ms
def RegisteredL (s : TSet) : List Sig.Ty → Prop
  | [] => True
  | t :: r => Registered s t ∧ RegisteredL s r
def RegisteredM (s : TSet) : List (Bytes × Sig.Ty) → Prop
  | [] => True
  | (_, t) :: r => Registered s t ∧ RegisteredM s r
end

mutual
theorem registered_ext : (t : Sig.Ty) → ∀ s s', Ext s s' → Registered s t → Registered s' t
  | .basic _, _, _, _, _ => by simp [Registered]
  | .list t, s, s', he, h => by simp only [Registered] at h ⊢; exact registered_ext t s s' he h
  | .map k v, s, s', he, h => by
    simp only [Registered] at h ⊢; exact ⟨registered_ext k s s' he h.1, registered_ext v s s' he h.2⟩
  | .tuple ts, s, s', he, h => by simp only [Registered] at h ⊢; exact registeredL_ext ts s s' he h
  | .struct n ms, s, s', he, h => by
    simp only [Registered] at h ⊢; exact ⟨he _ _ h.1, registeredM_ext ms s s' he h.2⟩
theorem registeredL_ext : (ts : List Sig.Ty) → ∀ s s', Ext s s' → RegisteredL s ts → RegisteredL s' ts
  | [], _, _, _, _ => by simp [RegisteredL]
  | t :: r, s, s', he, h => by
    simp only [RegisteredL] at h ⊢; exact ⟨registered_ext t s s' he h.1, registeredL_ext r s s' he h.2⟩
theorem registeredM_ext : (ms : List (Bytes × Sig.Ty)) → ∀ s s', Ext s s' → RegisteredM s ms → RegisteredM s' ms
  | [], _, _, _, _ => by simp [RegisteredM]
  | (_, t) :: r, s, s', he, h => by
    simp only [RegisteredM] at h ⊢; exact ⟨registered_ext t s s' he h.1, registeredM_ext r s s' he h.2⟩
end

/-- the set holds interfaces of `I` and structs of the family; the structs of the members of a struct
    are in the set as well (a struct is registered after its members) -/
def SetOK (F : Bytes → Option (List (Bytes × Sig.Ty))) (I : List Bytes) (s : TSet) : Prop :=
  ∀ e ∈ s, (e.2 = none ∧ e.1 ∈ I) ∨
    (∃ ms, e.2 = some ms ∧ F e.1 = some ms ∧ e.1 ∉ I ∧ IsName e.1 ∧ InFamM F I ms ∧ RegisteredM s ms)

theorem setOK_append (F : Bytes → Option (List (Bytes × Sig.Ty))) (I : List Bytes) (s : TSet) (e : TEntry)
    (hs : SetOK F I s) (hfree : tsFind s e.1 = none)
    (he : (e.2 = none ∧ e.1 ∈ I) ∨
      (∃ ms, e.2 = some ms ∧ F e.1 = some ms ∧ e.1 ∉ I ∧ IsName e.1 ∧ InFamM F I ms ∧ RegisteredM s ms)) :
    SetOK F I (s ++ [e]) := by
  intro x hx
  rcases List.mem_append.mp hx with hx | hx
  · rcases hs x hx with h | ⟨ms, h1, h2, h3, h4, h5, h6⟩
    · exact Or.inl h
    · exact Or.inr ⟨ms, h1, h2, h3, h4, h5, registeredM_ext ms _ _ (ext_append s e hfree) h6⟩
  · simp only [List.mem_cons, List.mem_nil_iff, or_false] at hx; subst hx
    rcases he with h | ⟨ms, h1, h2, h3, h4, h5, h6⟩
    · exact Or.inl h
    · exact Or.inr ⟨ms, h1, h2, h3, h4, h5, registeredM_ext ms _ _ (ext_append s x hfree) h6⟩

/-- with the name free, or taken by the struct itself, `ResolveCollision` keeps the name -/
theorem resolve_keeps (s : TSet) (n sig : Bytes) (h : tsFind s n = none ∨ ∃ e, tsFind s n = some e ∧ e.sig = sig) :
    resolveCollision s n sig = n := by
  unfold resolveCollision resolveLoop
  rcases h with h | ⟨e, he, hs⟩
  · simp [h]
  · simp [he, hs]

mutual
/-- **Without clashes nothing is renamed**: registering a type of the family leaves the type as it is, keeps
    the set within the family, and afterwards every struct of the type is in the set under its name, with
    its members. -/
theorem reg_fam (F : Bytes → Option (List (Bytes × Sig.Ty))) (I : List Bytes) : (t : Sig.Ty) → (s : TSet) →
    SetOK F I s → InFam F I t →
    (reg s t).2 = t ∧ SetOK F I (reg s t).1 ∧ Ext s (reg s t).1 ∧ Registered (reg s t).1 t
  | .basic c, s, hs, _ => by simp only [reg, Registered]; exact ⟨trivial, hs, ext_refl s, trivial⟩
  | .list t, s, hs, h => by
    simp only [InFam] at h
    obtain ⟨h1, h2, h3, h4⟩ := reg_fam F I t s hs h
    simp only [reg, Registered]
    exact ⟨by rw [h1], h2, h3, h4⟩
  | .map k v, s, hs, h => by
    simp only [InFam] at h
    obtain ⟨k1, k2, k3, k4⟩ := reg_fam F I k s hs h.1
    obtain ⟨v1, v2, v3, v4⟩ := reg_fam F I v (reg s k).1 k2 h.2
    simp only [reg, Registered]
    exact ⟨by rw [k1, v1], v2, ext_trans _ _ _ k3 v3, registered_ext k _ _ v3 k4, v4⟩
  | .tuple ts, s, hs, h => by
    simp only [InFam] at h
    obtain ⟨h1, h2, h3, h4⟩ := regL_fam F I ts s hs h
    simp only [reg, Registered]
    exact ⟨by rw [h1], h2, h3, h4⟩
  | .struct n ms, s, hs, h => by
    simp only [InFam] at h
    obtain ⟨hF, hI, hnm, hms⟩ := h
    obtain ⟨m1, m2, m3, m4⟩ := regM_fam F I ms s hs hms
    -- an entry of that name is this very struct
    have hsame : ∀ e, tsFind (regM s ms).1 n = some e → e = (n, some ms) := by
      intro e hf
      obtain ⟨hmem, hname⟩ := tsFind_mem _ _ _ hf
      rcases m2 e hmem with ⟨_, hi⟩ | ⟨ms0, he, hF0, _⟩
      · rw [hname] at hi; exact absurd hi hI
      · rw [hname, hF] at hF0
        simp only [Option.some.injEq] at hF0
        obtain ⟨en, ee⟩ := e
        simp only at he hname; subst he; subst hname; subst hF0; rfl
    -- the name is free, or it is this very struct
    have hkeep : resolveCollision (regM s ms).1 n (Sig.print (.struct n ms)) = n := by
      apply resolve_keeps
      cases hf : tsFind (regM s ms).1 n with
      | none => exact Or.inl rfl
      | some e => right; exact ⟨e, rfl, by rw [hsame e hf]; rfl⟩
    simp only [reg]
    rw [m1, hkeep]
    cases hf : tsFind (regM s ms).1 n with
    | none =>
      simp only
      refine ⟨trivial, ?_, ext_trans _ _ _ m3 (ext_append _ (n, some ms) hf), ?_⟩
      · exact setOK_append F I _ (n, some ms) m2 hf (Or.inr ⟨ms, rfl, hF, hI, hnm, hms, m4⟩)
      · simp only [Registered]
        refine ⟨?_, registeredM_ext ms _ _ (ext_append _ (n, some ms) hf) m4⟩
        rw [tsFind_append_none _ _ _ hf]; simp
    | some e =>
      simp only
      refine ⟨trivial, m2, m3, ?_⟩
      simp only [Registered]
      exact ⟨by rw [hf, hsame e hf], m4⟩
theorem regL_fam (F : Bytes → Option (List (Bytes × Sig.Ty))) (I : List Bytes) : (ts : List Sig.Ty) → (s : TSet) →
    SetOK F I s → InFamL F I ts →
    (regL s ts).2 = ts ∧ SetOK F I (regL s ts).1 ∧ Ext s (regL s ts).1 ∧ RegisteredL (regL s ts).1 ts
  | [], s, hs, _ => by simp only [regL, RegisteredL]; exact ⟨trivial, hs, ext_refl s, trivial⟩
  | t :: r, s, hs, h => by
    simp only [InFamL] at h
    obtain ⟨t1, t2, t3, t4⟩ := reg_fam F I t s hs h.1
    obtain ⟨r1, r2, r3, r4⟩ := regL_fam F I r (reg s t).1 t2 h.2
    simp only [regL, RegisteredL]
    exact ⟨by rw [t1, r1], r2, ext_trans _ _ _ t3 r3, registered_ext t _ _ r3 t4, r4⟩
theorem regM_fam (F : Bytes → Option (List (Bytes × Sig.Ty))) (I : List Bytes) : (ms : List (Bytes × Sig.Ty)) → (s : TSet) →
    SetOK F I s → InFamM F I ms →
    (regM s ms).2 = ms ∧ SetOK F I (regM s ms).1 ∧ Ext s (regM s ms).1 ∧ RegisteredM (regM s ms).1 ms
  | [], s, hs, _ => by simp only [regM, RegisteredM]; exact ⟨trivial, hs, ext_refl s, trivial⟩
  | (f, t) :: r, s, hs, h => by
    simp only [InFamM] at h
    obtain ⟨t1, t2, t3, t4⟩ := reg_fam F I t s hs h.2.1
    obtain ⟨r1, r2, r3, r4⟩ := regM_fam F I r (reg s t).1 t2 h.2.2
    simp only [regM, RegisteredM]
    exact ⟨by rw [t1, r1], r2, ext_trans _ _ _ t3 r3, registered_ext t _ _ r3 t4, r4⟩
end

/-! ### `GenerateIDL` -/

/-- an interface of the meta-objects given to `GenerateIDL` -/
structure SItf where
  name : Bytes
  actions : List SAction

/-- `generateMethod` / `generateSignal` / `generateProperty`: the types of the action are registered —
    the parameters in order, then the returned type — and the line is written with the names the structs
    have now -/
def regAction (s : TSet) (a : SAction) : TSet × SAction :=
  let p := regM s a.params
  match a.ret with
  | none => (p.1, { a with params := p.2 })
  | some t => let r := reg p.1 t; (r.1, { a with params := p.2, ret := some r.2 })

def regActions : TSet → List SAction → TSet × List SAction
  | s, [] => (s, [])
  | s, a :: r => let x := regAction s a; let y := regActions x.1 r; (y.1, x.2 :: y.2)

/-- the loop of `GenerateIDL` over the objects: the name of the interface is registered (renamed if a
    struct has it already), then its actions -/
def genItfs : TSet → List SItf → TSet × List SItf
  | s, [] => (s, [])
  | s, i :: r =>
    let n' := resolveCollision s i.name [111]
    let a := regActions (s ++ [(n', none)]) i.actions
    let b := genItfs a.1 r
    (b.1, ⟨n', a.2⟩ :: b.2)

/-- `generateStructures`: one block per struct of the set, in the order of registration -/
def structBlocks : TSet → List SBlock
  | [] => []
  | (n, some ms) :: r => .struct n ms :: structBlocks r
  | (_, none) :: r => structBlocks r

def itfBlocks (is : List SItf) : List SBlock := is.map (fun i => SBlock.itf i.name i.actions)

/-- the blocks `GenerateIDL` writes: the interfaces, then the structs -/
def blocksOf (itfs : List SItf) : List SBlock :=
  let g := genItfs [] itfs
  itfBlocks g.2 ++ structBlocks g.1

/-- `GenerateIDL` -/
def generateIDL (name : Bytes) (itfs : List SItf) : Bytes := printPkg name ((blocksOf itfs).map SBlock.block)

/-- an action of the class, its types in the family -/
def ActionFam (F : Bytes → Option (List (Bytes × Sig.Ty))) (I : List Bytes) (a : SAction) : Prop :=
  IsIdent a.name ∧ InFamM F I a.params ∧
    (match a.ret with | some t => InFam F I t ∧ a.kind = .fn | none => True)

/-- what an action needs of the set: the structs of its types are there -/
def ActionReg (s : TSet) (a : SAction) : Prop :=
  RegisteredM s a.params ∧ (match a.ret with | some t => Registered s t | none => True)

theorem actionReg_ext (a : SAction) (s s' : TSet) (he : Ext s s') (h : ActionReg s a) : ActionReg s' a := by
  obtain ⟨h1, h2⟩ := h
  refine ⟨registeredM_ext _ s s' he h1, ?_⟩
  cases hr : a.ret with
  | none => trivial
  | some t => rw [hr] at h2; exact registered_ext t s s' he h2

theorem regAction_fam (F : Bytes → Option (List (Bytes × Sig.Ty))) (I : List Bytes) (s : TSet) (a : SAction)
    (hs : SetOK F I s) (ha : ActionFam F I a) :
    (regAction s a).2 = a ∧ SetOK F I (regAction s a).1 ∧ Ext s (regAction s a).1 ∧ ActionReg (regAction s a).1 a := by
  obtain ⟨_, hp, hr⟩ := ha
  obtain ⟨p1, p2, p3, p4⟩ := regM_fam F I a.params s hs hp
  unfold regAction
  cases hret : a.ret with
  | none =>
    simp only
    refine ⟨?_, p2, p3, p4, ?_⟩
    · rw [p1]; cases a; simp_all
    · simp [hret]
  | some t =>
    rw [hret] at hr
    obtain ⟨r1, r2, r3, r4⟩ := reg_fam F I t (regM s a.params).1 p2 hr.1
    simp only
    refine ⟨?_, r2, ext_trans _ _ _ p3 r3, registeredM_ext _ _ _ r3 p4, ?_⟩
    · rw [p1, r1]; cases a; simp_all
    · simp only [hret]; exact r4

theorem regActions_fam (F : Bytes → Option (List (Bytes × Sig.Ty))) (I : List Bytes) : (as : List SAction) → (s : TSet) →
    SetOK F I s → (∀ a ∈ as, ActionFam F I a) →
    (regActions s as).2 = as ∧ SetOK F I (regActions s as).1 ∧ Ext s (regActions s as).1 ∧
      ∀ a ∈ as, ActionReg (regActions s as).1 a
  | [], s, hs, _ => by simp only [regActions]; exact ⟨trivial, hs, ext_refl s, by simp⟩
  | a :: r, s, hs, h => by
    obtain ⟨a1, a2, a3, a4⟩ := regAction_fam F I s a hs (h a (by simp))
    obtain ⟨r1, r2, r3, r4⟩ := regActions_fam F I r (regAction s a).1 a2 (fun x hx => h x (by simp [hx]))
    simp only [regActions]
    refine ⟨by rw [a1, r1], r2, ext_trans _ _ _ a3 r3, ?_⟩
    intro x hx
    rcases List.mem_cons.mp hx with rfl | hx
    · exact actionReg_ext x _ _ r3 a4
    · exact r4 x hx

/-! ### only structs are added by registering -/

mutual
theorem reg_adds_structs : (t : Sig.Ty) → (s : TSet) → ∀ e ∈ (reg s t).1, e ∈ s ∨ e.2.isSome = true
  | .basic _, s, e, he => by simp only [reg] at he; exact Or.inl he
  | .list t, s, e, he => by simp only [reg] at he; exact reg_adds_structs t s e he
  | .map k v, s, e, he => by
    simp only [reg] at he
    rcases reg_adds_structs v _ e he with h | h
    · exact reg_adds_structs k s e h
    · exact Or.inr h
  | .tuple ts, s, e, he => by simp only [reg] at he; exact regL_adds_structs ts s e he
  | .struct n ms, s, e, he => by
    simp only [reg] at he
    split at he
    · rcases List.mem_append.mp he with h | h
      · exact regM_adds_structs ms s e h
      · simp only [List.mem_cons, List.mem_nil_iff, or_false] at h; subst h; exact Or.inr rfl
    · exact regM_adds_structs ms s e he
theorem regL_adds_structs : (ts : List Sig.Ty) → (s : TSet) → ∀ e ∈ (regL s ts).1, e ∈ s ∨ e.2.isSome = true
  | [], s, e, he => by simp only [regL] at he; exact Or.inl he
  | t :: r, s, e, he => by
    simp only [regL] at he
    rcases regL_adds_structs r _ e he with h | h
    · exact reg_adds_structs t s e h
    · exact Or.inr h
theorem regM_adds_structs : (ms : List (Bytes × Sig.Ty)) → (s : TSet) → ∀ e ∈ (regM s ms).1, e ∈ s ∨ e.2.isSome = true
  | [], s, e, he => by simp only [regM] at he; exact Or.inl he
  | (_, t) :: r, s, e, he => by
    simp only [regM] at he
    rcases regM_adds_structs r _ e he with h | h
    · exact reg_adds_structs t s e h
    · exact Or.inr h
end

theorem regAction_adds_structs (s : TSet) (a : SAction) : ∀ e ∈ (regAction s a).1, e ∈ s ∨ e.2.isSome = true := by
  intro e he
  unfold regAction at he
  cases hr : a.ret with
  | none => simp only [hr] at he; exact regM_adds_structs _ s e he
  | some t =>
    simp only [hr] at he
    rcases reg_adds_structs t _ e he with h | h
    · exact regM_adds_structs _ s e h
    · exact Or.inr h

theorem regActions_adds_structs : (as : List SAction) → (s : TSet) → ∀ e ∈ (regActions s as).1, e ∈ s ∨ e.2.isSome = true
  | [], s, e, he => by simp only [regActions] at he; exact Or.inl he
  | a :: r, s, e, he => by
    simp only [regActions] at he
    rcases regActions_adds_structs r _ e he with h | h
    · exact regAction_adds_structs s a e h
    · exact Or.inr h

theorem tsFind_none_of (s : TSet) (n : Bytes) (h : ∀ e ∈ s, e.1 ≠ n) : tsFind s n = none := by
  induction s with
  | nil => rfl
  | cons x r ih =>
    have hx : (x.1 == n) = false := by simpa using h x (by simp)
    simp only [tsFind, hx, Bool.false_eq_true, if_false]
    exact ih (fun e he => h e (by simp [he]))

/-- an interface of the class -/
def ItfFam (F : Bytes → Option (List (Bytes × Sig.Ty))) (I : List Bytes) (i : SItf) : Prop :=
  i.name ∈ I ∧ IsIdent i.name ∧ ∀ a ∈ i.actions, ActionFam F I a

/-- **Without clashes `GenerateIDL` renames nothing**: the interfaces keep their names, the actions their
    types, and every struct an action uses ends up in the set, under its name, with its members. -/
theorem genItfs_fam (F : Bytes → Option (List (Bytes × Sig.Ty))) (I : List Bytes) : (is : List SItf) → (s : TSet) →
    SetOK F I s → (∀ i ∈ is, ItfFam F I i) → (is.map (·.name)).Nodup → (∀ i ∈ is, ∀ e ∈ s, e.1 ≠ i.name) →
    (genItfs s is).2 = is ∧ SetOK F I (genItfs s is).1 ∧ Ext s (genItfs s is).1 ∧
      ∀ i ∈ is, ∀ a ∈ i.actions, ActionReg (genItfs s is).1 a
  | [], s, hs, _, _, _ => by simp only [genItfs]; exact ⟨trivial, hs, ext_refl s, by simp⟩
  | i :: r, s, hs, h, hnd, hfree => by
    obtain ⟨hiI, hid, hacts⟩ := h i (by simp)
    have hnone : tsFind s i.name = none := tsFind_none_of s i.name (hfree i (by simp))
    have hname : resolveCollision s i.name [111] = i.name := resolve_keeps s i.name [111] (Or.inl hnone)
    have hs1 : SetOK F I (s ++ [(i.name, none)]) := setOK_append F I s (i.name, none) hs hnone (Or.inl ⟨rfl, hiI⟩)
    obtain ⟨a1, a2, a3, a4⟩ := regActions_fam F I i.actions (s ++ [(i.name, none)]) hs1 hacts
    simp only [List.map, List.nodup_cons] at hnd
    have hfree' : ∀ j ∈ r, ∀ e ∈ (regActions (s ++ [(i.name, none)]) i.actions).1, e.1 ≠ j.name := by
      intro j hj e he hej
      have hjI := (h j (by simp [hj])).1
      rcases regActions_adds_structs _ _ e he with hold | hstruct
      · rcases List.mem_append.mp hold with hold | hnew
        · exact hfree j (by simp [hj]) e hold hej
        · simp only [List.mem_cons, List.mem_nil_iff, or_false] at hnew; subst hnew
          exact hnd.1 (by simp only [List.mem_map]; exact ⟨j, hj, hej.symm⟩)
      · rcases a2 e he with ⟨hn, _⟩ | ⟨ms, _, _, hnI, _⟩
        · rw [hn] at hstruct; simp at hstruct
        · rw [hej] at hnI; exact hnI hjI
    obtain ⟨r1, r2, r3, r4⟩ := genItfs_fam F I r _ a2 (fun j hj => h j (by simp [hj])) hnd.2 hfree'
    simp only [genItfs, hname]
    refine ⟨by rw [a1, r1], r2, ext_trans _ _ _ (ext_trans _ _ _ (ext_append s (i.name, none) hnone) a3) r3, ?_⟩
    intro j hj a ha
    rcases List.mem_cons.mp hj with rfl | hj
    · exact actionReg_ext a _ _ r3 (a4 a ha)
    · exact r4 j hj a ha

/-! ### from the set to the scope of the text -/

def itfEntries (is : List SItf) : List SEntry := is.map (fun i => SEntry.itf i.name)

theorem entries_of_blocks (is : List SItf) (s : TSet) :
    (itfBlocks is ++ structBlocks s).map SBlock.entry = itfEntries is ++ (structBlocks s).map SBlock.entry := by
  simp [itfBlocks, itfEntries, SBlock.entry, Function.comp_def]

/-- the interfaces in front do not answer to a name none of them has -/
theorem findAt_skip_itfs (is : List SItf) (rest : List SEntry) (n : Bytes) (k : Nat) (h : ∀ i ∈ is, i.name ≠ n) :
    findAt (scopeOf (itfEntries is ++ rest)) n k = findAt (scopeOf rest) n (k + is.length) := by
  induction is generalizing k with
  | nil => simp [itfEntries]
  | cons i r ih =>
    have hi : (i.name == n) = false := by simpa using h i (by simp)
    simp only [itfEntries, List.map, List.cons_append, scopeOf, SEntry.erase, findAt, Entry.name, hi,
      Bool.false_eq_true, if_false]
    have := ih (k + 1) (fun j hj => h j (by simp [hj]))
    simp only [itfEntries, scopeOf] at this
    rw [this]; simp only [List.length_cons]; congr 1; omega

/-- a struct the set finds under its name is the struct the scope of the struct blocks finds -/
theorem findAt_structs (s : TSet) (n : Bytes) (ms : List (Bytes × Sig.Ty)) (k : Nat)
    (hf : tsFind s n = some (n, some ms)) (hno : ∀ e ∈ s, e.2 = none → e.1 ≠ n) :
    ∃ j, findAt (scopeOf ((structBlocks s).map SBlock.entry)) n k = some (k + j, .struct (declOf n ms)) ∧
      ((structBlocks s).map SBlock.entry)[j]? = some (.struct n ms) := by
  induction s generalizing k with
  | nil => simp [tsFind] at hf
  | cons x r ih =>
    obtain ⟨xn, xe⟩ := x
    simp only [tsFind] at hf
    cases xe with
    | none =>
      have hx : (xn == n) = false := by simpa using hno (xn, none) (by simp) rfl
      simp only [hx, Bool.false_eq_true, if_false] at hf
      simp only [structBlocks]
      exact ih k hf (fun e he => hno e (by simp [he]))
    | some xms =>
      by_cases hx : (xn == n) = true
      · simp only [hx, if_true, Option.some.injEq, Prod.mk.injEq] at hf
        obtain ⟨rfl, hms⟩ := hf
        subst hms
        refine ⟨0, ?_, ?_⟩
        · simp [structBlocks, SBlock.entry, scopeOf, SEntry.erase, findAt, Entry.name, declOf]
        · simp [structBlocks, SBlock.entry]
      · have hx' : (xn == n) = false := by simpa using hx
        simp only [hx', Bool.false_eq_true, if_false] at hf
        obtain ⟨j, h1, h2⟩ := ih (k + 1) hf (fun e he => hno e (by simp [he]))
        refine ⟨j + 1, ?_, ?_⟩
        · simp only [structBlocks, List.map, SBlock.entry, scopeOf, SEntry.erase, findAt, Entry.name, declOf, hx',
            Bool.false_eq_true, if_false]
          simp only [scopeOf, declOf] at h1
          rw [h1]; congr 2; omega
        · simpa [structBlocks, SBlock.entry] using h2

/-- what the final set says of itself, for the scope: the names of the interfaces are the names `I`, taken by
    no struct -/
def Final (I : List Bytes) (is : List SItf) (s : TSet) : Prop :=
  (∀ i ∈ is, i.name ∈ I) ∧ (∀ e ∈ s, e.2 = none → e.1 ∈ I)

mutual
theorem declared_of_registered (F : Bytes → Option (List (Bytes × Sig.Ty))) (I : List Bytes) (is : List SItf) (s : TSet)
    (hfin : Final I is s) : (t : Sig.Ty) → InFam F I t → Registered s t →
    Declared (itfEntries is ++ (structBlocks s).map SBlock.entry) t
  | .basic c, h, _ => by simp only [InFam] at h; simp only [Declared]; exact h
  | .list t, h, hr => by
    simp only [InFam] at h; simp only [Registered] at hr; simp only [Declared]
    exact declared_of_registered F I is s hfin t h hr
  | .map k v, h, hr => by
    simp only [InFam] at h; simp only [Registered] at hr; simp only [Declared]
    exact ⟨declared_of_registered F I is s hfin k h.1 hr.1, declared_of_registered F I is s hfin v h.2 hr.2⟩
  | .tuple ts, h, hr => by
    simp only [InFam] at h; simp only [Registered] at hr; simp only [Declared]
    exact declaredL_of_registered F I is s hfin ts h hr
  | .struct n ms, h, hr => by
    simp only [InFam] at h; simp only [Registered] at hr; simp only [Declared]
    obtain ⟨_, hnI, _, hms⟩ := h
    refine ⟨?_, declaredM_of_registered F I is s hfin ms hms hr.2⟩
    obtain ⟨j, h1, h2⟩ := findAt_structs s n ms (0 + is.length) hr.1
      (fun e he hnone hen => hnI (by rw [← hen]; exact hfin.2 e he hnone))
    refine ⟨is.length + j, ?_, ?_⟩
    · rw [findAt_skip_itfs is _ n 0 (fun i hi hin => hnI (by rw [← hin]; exact hfin.1 i hi))]
      rw [h1]; congr 2; omega
    · have hlen : (itfEntries is).length = is.length := by simp [itfEntries]
      rw [List.getElem?_append_right (by omega), hlen]
      simpa using h2
theorem declaredL_of_registered (F : Bytes → Option (List (Bytes × Sig.Ty))) (I : List Bytes) (is : List SItf) (s : TSet)
    (hfin : Final I is s) : (ts : List Sig.Ty) → InFamL F I ts → RegisteredL s ts →
    DeclaredL (itfEntries is ++ (structBlocks s).map SBlock.entry) ts
  | [], _, _ => by simp [DeclaredL]
  | t :: r, h, hr => by
    simp only [InFamL] at h; simp only [RegisteredL] at hr; simp only [DeclaredL]
    exact ⟨declared_of_registered F I is s hfin t h.1 hr.1, declaredL_of_registered F I is s hfin r h.2 hr.2⟩
theorem declaredM_of_registered (F : Bytes → Option (List (Bytes × Sig.Ty))) (I : List Bytes) (is : List SItf) (s : TSet)
    (hfin : Final I is s) : (ms : List (Bytes × Sig.Ty)) → InFamM F I ms → RegisteredM s ms →
    DeclaredM (itfEntries is ++ (structBlocks s).map SBlock.entry) ms
  | [], _, _ => by simp [DeclaredM]
  | (_, t) :: r, h, hr => by
    simp only [InFamM] at h; simp only [RegisteredM] at hr; simp only [DeclaredM]
    exact ⟨declared_of_registered F I is s hfin t h.2.1 hr.1, declaredM_of_registered F I is s hfin r h.2.2 hr.2⟩
end

/-! ### the blocks `GenerateIDL` writes are blocks of the class -/

theorem isIdent_of_isName (n : Bytes) (h : IsName n) : IsIdent n := by
  obtain ⟨c, w, hn, hc, hw, _⟩ := h; exact ⟨c, w, hn, hc, hw⟩

mutual
theorem namesOk_of_inFam (F : Bytes → Option (List (Bytes × Sig.Ty))) (I : List Bytes) : (t : Sig.Ty) → InFam F I t → NamesOk t
  | .basic _, _ => by simp [NamesOk]
  | .list t, h => by simp only [InFam] at h; simp only [NamesOk]; exact namesOk_of_inFam F I t h
  | .map k v, h => by
    simp only [InFam] at h; simp only [NamesOk]; exact ⟨namesOk_of_inFam F I k h.1, namesOk_of_inFam F I v h.2⟩
  | .tuple ts, h => by simp only [InFam] at h; simp only [NamesOk]; exact namesOkL_of_inFam F I ts h
  | .struct n _, h => by simp only [InFam] at h; simp only [NamesOk]; exact h.2.2.1
theorem namesOkL_of_inFam (F : Bytes → Option (List (Bytes × Sig.Ty))) (I : List Bytes) : (ts : List Sig.Ty) → InFamL F I ts → NamesOkL ts
  | [], _ => by simp [NamesOkL]
  | t :: r, h => by
    simp only [InFamL] at h; simp only [NamesOkL]
    exact ⟨namesOk_of_inFam F I t h.1, namesOkL_of_inFam F I r h.2⟩
end

theorem membersOk_of (F : Bytes → Option (List (Bytes × Sig.Ty))) (I : List Bytes) (is : List SItf) (s : TSet)
    (hfin : Final I is s) : (ms : List (Bytes × Sig.Ty)) → InFamM F I ms → RegisteredM s ms →
    MembersOk (itfEntries is ++ (structBlocks s).map SBlock.entry) ms
  | [], _, _ => by simp [MembersOk]
  | (f, t) :: r, h, hr => by
    simp only [InFamM] at h; simp only [RegisteredM] at hr; simp only [MembersOk]
    exact ⟨h.1, declared_of_registered F I is s hfin t h.2.1 hr.1, namesOk_of_inFam F I t h.2.1,
      membersOk_of F I is s hfin r h.2.2 hr.2⟩

theorem mem_structBlocks (s : TSet) (b : SBlock) (h : b ∈ structBlocks s) : ∃ n ms, b = .struct n ms ∧ (n, some ms) ∈ s := by
  induction s with
  | nil => simp [structBlocks] at h
  | cons x r ih =>
    obtain ⟨xn, xe⟩ := x
    cases xe with
    | none =>
      simp only [structBlocks] at h
      obtain ⟨n, ms, h1, h2⟩ := ih h
      exact ⟨n, ms, h1, by simp [h2]⟩
    | some xms =>
      simp only [structBlocks, List.mem_cons] at h
      rcases h with rfl | h
      · exact ⟨xn, xms, rfl, by simp⟩
      · obtain ⟨n, ms, h1, h2⟩ := ih h
        exact ⟨n, ms, h1, by simp [h2]⟩

/-- **What `GenerateIDL` writes for meta-objects without name clashes is read back as the same
    meta-objects.**  The interfaces have distinct names; no struct has the name of an interface; two structs
    of the same name are the same struct (the family `F`); names are identifiers, types are of the signature
    grammar.  Then the type set renames nothing, every struct an action uses gets its block, `ParsePackage`
    accepts the text, and in the scope it builds every parameter and every returned value stands for the
    signature it had — struct and field names included. -/
theorem generateIDL_roundtrip (name : Bytes) (hn : IsPkgName name) (F : Bytes → Option (List (Bytes × Sig.Ty)))
    (itfs : List SItf) (h : ∀ i ∈ itfs, ItfFam F (itfs.map (·.name)) i) (hnd : (itfs.map (·.name)).Nodup) :
    ∃ ds, parsePackage (generateIDL name itfs) = some (name, ds) ∧
      ∀ i ∈ itfs, ∀ a ∈ i.actions,
        (∀ p ∈ a.params, resolve (scopeOfDecls ds) (toIT p.2) = some (Sig.print p.2)) ∧
        (∀ t, a.ret = some t → resolve (scopeOfDecls ds) (toIT t) = some (Sig.print t)) := by
  obtain ⟨g1, g2, _, g4⟩ := genItfs_fam F (itfs.map (·.name)) itfs [] (by intro e he; simp at he) h hnd
    (by intro i _ e he; simp at he)
  have hfin : Final (itfs.map (·.name)) itfs (genItfs [] itfs).1 := by
    refine ⟨fun i hi => by simp only [List.mem_map]; exact ⟨i, hi, rfl⟩, ?_⟩
    intro e he hnone
    rcases g2 e he with ⟨_, hI⟩ | ⟨ms, hsome, _⟩
    · exact hI
    · rw [hnone] at hsome; simp at hsome
  have hblocks : blocksOf itfs = itfBlocks itfs ++ structBlocks (genItfs [] itfs).1 := by
    unfold blocksOf; simp only [g1]
  have hok : ∀ b ∈ blocksOf itfs, SBlockOk ((blocksOf itfs).map SBlock.entry) b := by
    rw [hblocks, entries_of_blocks]
    intro b hb
    rcases List.mem_append.mp hb with hb | hb
    · simp only [itfBlocks, List.mem_map] at hb
      obtain ⟨i, hi, rfl⟩ := hb
      obtain ⟨_, hid, hacts⟩ := h i hi
      refine ⟨hid, ?_⟩
      intro a ha
      obtain ⟨han, hap, har⟩ := hacts a ha
      obtain ⟨rp, rr⟩ := g4 i hi a ha
      refine ⟨han, membersOk_of F _ itfs _ hfin a.params hap rp, ?_⟩
      cases hret : a.ret with
      | none => trivial
      | some t =>
        rw [hret] at har rr
        exact ⟨declared_of_registered F _ itfs _ hfin t har.1 rr, namesOk_of_inFam F _ t har.1, har.2⟩
    · obtain ⟨n, ms, rfl, hmem⟩ := mem_structBlocks _ b hb
      rcases g2 (n, some ms) hmem with ⟨hnone, _⟩ | ⟨ms0, hsome, _, _, hnm, hfam, hreg⟩
      · simp at hnone
      · simp only [Option.some.injEq] at hsome; subst hsome
        exact ⟨isIdent_of_isName n hnm, membersOk_of F _ itfs _ hfin ms hfam hreg⟩
  obtain ⟨ds, hp, _, hres⟩ := meta_object_roundtrip name hn (blocksOf itfs) hok
  refine ⟨ds, hp, ?_⟩
  intro i hi a ha
  have hmem : SBlock.itf i.name i.actions ∈ blocksOf itfs := by
    rw [hblocks]; apply List.mem_append_left
    simp only [itfBlocks, List.mem_map]; exact ⟨i, hi, rfl⟩
  exact hres i.name i.actions hmem a ha

/-! ### from a meta-object to the actions `GenerateIDL` writes -/

/-- the Go keywords `CleanVarName` steps around -/
def goKeywords : List Bytes :=
  [[98, 114, 101, 97, 107], [100, 101, 102, 97, 117, 108, 116], [102, 117, 110, 99], [105, 110, 116, 101, 114, 102, 97, 99, 101],
   [115, 101, 108, 101, 99, 116], [99, 97, 115, 101], [100, 101, 102, 101, 114], [103, 111], [109, 97, 112],
   [115, 116, 114, 117, 99, 116], [99, 104, 97, 110], [101, 108, 115, 101], [103, 111, 116, 111],
   [112, 97, 99, 107, 97, 103, 101], [115, 119, 105, 116, 99, 104], [99, 111, 110, 115, 116],
   [102, 97, 108, 108, 116, 104, 114, 111, 117, 103, 104], [105, 102], [114, 97, 110, 103, 101], [116, 121, 112, 101],
   [99, 111, 110, 116, 105, 110, 117, 101], [102, 111, 114], [105, 109, 112, 111, 114, 116], [114, 101, 116, 117, 114, 110],
   [118, 97, 114], [101, 114, 114, 111, 114], [115, 116, 114, 105, 110, 103]]

/-- `CleanVarName(i, name)`: "P<i>" for no name; what is no letter, digit or `_` is dropped; a Go keyword gets `_<i>` -/
def cleanVarName (i : Nat) (name : Bytes) : Bytes :=
  if name.isEmpty then [80] ++ digitsOf i else
  let v := name.filter isWord
  if goKeywords.contains v then v ++ [95] ++ digitsOf i else v

/-- the members of a tuple as `NewTupleType` names them: P0, P1, … -/
def positional : List Sig.Ty → Nat → List (Bytes × Sig.Ty)
  | [], _ => []
  | t :: r, i => ([80] ++ digitsOf i, t) :: positional r (i + 1)

def namedParams : List Bytes → List Sig.Ty → Nat → List (Bytes × Sig.Ty)
  | n :: ns, t :: ts, i => (cleanVarName i n, t) :: namedParams ns ts (i + 1)
  | _, _, _ => []

/-- the members of the parameter type: a tuple's, else the type alone ("some buggy service don't return tuples") -/
def membersOf : Sig.Ty → List Sig.Ty
  | .tuple ts => ts
  | t => [t]

/-- `generateMethod`: the names of `Parameters` when there is one per member, else the positional names; no
    returned type for `v` -/
def methodAction (uid : Nat) (name : Bytes) (params : Sig.Ty) (pnames : List Bytes) (ret : Sig.Ty) : SAction :=
  let ts := membersOf params
  { kind := .fn, name := name, uid := uid,
    params := if pnames.length == ts.length && !pnames.isEmpty then namedParams pnames ts 0 else positional ts 0,
    ret := if Sig.print ret == [118] then none else some ret }

/-- `generateSignal`: the members of the tuple under their positional names -/
def signalAction (uid : Nat) (name : Bytes) (sig : Sig.Ty) : SAction :=
  { kind := .sig, name := name, uid := uid, params := positional (membersOf sig) 0, ret := none }

/-- `generateProperty`: the members of a tuple, else one parameter called `param` -/
def propertyAction (uid : Nat) (name : Bytes) (sig : Sig.Ty) : SAction :=
  { kind := .prop, name := name, uid := uid, ret := none,
    params := match sig with
      | .tuple ts => positional ts 0
      | t => [([112, 97, 114, 97, 109], t)] }

/-! ### non-vacuity, and what a clash does -/

def exFam : Bytes → Option (List (Bytes × Sig.Ty)) := fun n => if n = [80] then some [([120], .basic 105)] else none
def exItfs : List SItf :=
  [⟨[73], [⟨.fn, [102], [([97], .struct [80] [([120], .basic 105)]), ([98], .list (.struct [80] [([120], .basic 105)]))], none, 100⟩]⟩]

example : (∀ i ∈ exItfs, ItfFam exFam (exItfs.map (·.name)) i) ∧ (exItfs.map (·.name)).Nodup := by
  have id1 : ∀ c : UInt8, isAlphaU c = true → IsIdent [c] := fun c hc => ⟨c, [], rfl, hc, by intro x hx; cases hx⟩
  have hP : InFam exFam [[73]] (.struct [80] [([120], .basic 105)]) := by
    simp only [InFam, InFamM, and_true]
    exact ⟨by simp [exFam], by decide, ⟨80, [], rfl, by decide, (by intro x hx; cases hx), by decide⟩, id1 120 (by decide), by decide⟩
  refine ⟨?_, by decide⟩
  intro i hi
  simp only [exItfs, List.mem_cons, List.mem_nil_iff, or_false] at hi; subst hi
  refine ⟨by decide, id1 73 (by decide), ?_⟩
  intro a ha
  simp only [List.mem_cons, List.mem_nil_iff, or_false] at ha; subst ha
  refine ⟨id1 102 (by decide), ?_, trivial⟩
  simp only [InFamM, and_true]
  exact ⟨id1 97 (by decide), hP, id1 98 (by decide), by simp only [InFam]; exact hP⟩

/-- two different structs under one name: the second is registered as `P_0` — the names of the meta-object do
    not survive such a clash (the layout does: the line is written with the new name) -/
example : (regL [] [.struct [80] [([120], .basic 105)], .struct [80] [([121], .basic 115)]]).2 =
    [.struct [80] [([120], .basic 105)], .struct [80, 95, 48] [([121], .basic 115)]] := by
  simp [regL, reg, regM, resolveCollision, resolveLoop, tsFind, TEntry.sig, Sig.print, Sig.printMembers, Sig.memberNames,
    numbered, digitsOf, Nat.toDigits, Nat.toDigitsCore, Nat.digitChar]

end QiVerif.C18
