/-
  C18 — MetaObject → IDL → MetaObject; the type layer.
  Theorems about Model/Idl.lean: the IDL type parser reads back what the SignatureIDL printers
  write, for every type of the class stated below, whatever follows it; and the type read back
  stands for the same signature.  (Lexical lemmas: Lemmas/Idl.lean.)

  Outside the class, on purpose: template struct names (`Name<T>`: read by `typeIdent`, exercised
  by the correspondence only), and the two repeated keywords (indices 10, 11: never reached by an
  ordered choice, `repeated_keywords_unreachable`).
-/
import QiVerif.Lemmas.Idl
import QiVerif.Model.Signature
set_option linter.unusedSimpArgs false
set_option linter.unusedVariables false
namespace QiVerif.C18
open QiVerif QiVerif.Idl

/-- a struct name as `SignatureIDL` writes it: an identifier that is not the name of a basic type -/
def IsName (n : Bytes) : Prop := ∃ c w, n = c :: w ∧ isAlphaU c = true ∧ AllWord w ∧ n ∉ keywords

mutual
/-- the types a meta-object's printers write -/
def WF : IT → Prop
  | .basic k => canon k = true
  | .vec t => WF t
  | .map k v => WF k ∧ WF v
  | .tuple ts => WFs ts
  | .ref n => IsName n
def WFs : List IT → Prop
  | [] => True
  | t :: r => WF t ∧ WFs r
end

mutual
/-- a sufficient recursion depth -/
def need : IT → Nat
  | .basic _ => 1
  | .ref _ => 1
  | .vec t => need t + 2
  | .map k v => max (need k) (need v) + 2
  | .tuple ts => needs ts + 2
def needs : List IT → Nat
  | [] => 0
  | t :: r => max (need t) (needs r) + 1
end

/-- the elements of a tuple after the first, each with its comma -/
def printMore : List IT → Bytes
  | [] => []
  | t :: r => [44] ++ printT t ++ printMore r

theorem printTs_cons (t : IT) (r : List IT) : printTs (t :: r) = printT t ++ printMore r := by
  induction r generalizing t with
  | nil => simp [printTs, printMore]
  | cons u r ih => simp only [printTs, printMore, ih u]; simp [comma]

def P (t : IT) : Prop := ∀ f rest, need t ≤ f → Follow rest → parseT f (printT t ++ rest) = some (t, rest)
def MoreOK (ts : List IT) : Prop := ∀ f rest, needs ts ≤ f →
  parseMore f (printMore ts ++ 62 :: rest) = (ts, 62 :: rest)

theorem allWord_of (w : Bytes) (h : w.all isWord = true) : AllWord w := by
  intro c hc; exact List.all_eq_true.mp h c hc

theorem follow_comma (r : Bytes) : Follow (44 :: r) := by simp only [Follow]; exact ⟨by decide, by decide⟩
theorem follow_gt (r : Bytes) : Follow (62 :: r) := by simp only [Follow]; exact ⟨by decide, by decide⟩
theorem follow_more (ts : List IT) (rest : Bytes) : Follow (printMore ts ++ 62 :: rest) := by
  cases ts with
  | nil => exact follow_gt rest
  | cons t r => simp only [printMore, List.append_assoc, List.cons_append, List.nil_append]; exact follow_comma _

theorem p_basic (k : Nat) (h : canon k = true) : P (.basic k) := by
  intro f rest hf hfo
  cases f with
  | zero => simp [need] at hf
  | succ f => simp only [parseT, printT, basic_hit k h rest hfo]

theorem p_ref (n : Bytes) (h : IsName n) : P (.ref n) := by
  intro f rest hf hfo
  obtain ⟨c, w, he, hc, hw, hnk⟩ := h
  have hn : AllWord n := by
    subst he; intro x hx; simp only [List.mem_cons] at hx
    rcases hx with e | e
    · subst e; exact alpha_word x hc
    · exact hw x e
  have hnn : n ≠ [] := by subst he; simp
  cases f with
  | zero => simp [need] at hf
  | succ f =>
    have h1 : firstKeyword keywords 0 (printT (.ref n) ++ rest) = none := by
      apply firstKeyword_none
      intro k hk
      obtain ⟨_, _, _, _, hkw⟩ := keyword_shape k hk
      exact keyword_on_word k n rest hkw hn (by intro e; subst e; exact hnk hk) hnn hfo
    have h2 : parseMap f (n ++ rest) = none :=
      parseMap_none f _ (atom_lt_word [77, 97, 112] n rest (allWord_of _ (by decide)) hn hnn hfo)
    have h3 : parseTuple f (n ++ rest) = none :=
      parseTuple_none f _ (atom_lt_word [84, 117, 112, 108, 101] n rest (allWord_of _ (by decide)) hn hnn hfo)
    have h4 : parseVec f (n ++ rest) = none :=
      parseVec_none f _ (atom_lt_word [86, 101, 99] n rest (allWord_of _ (by decide)) hn hnn hfo)
    simp only [printT] at h1 ⊢
    simp only [parseT, h1, h2, h3, h4]
    subst he
    rw [typeIdent_plain c w rest hc hw hfo]; rfl

theorem p_vec (t : IT) (ht : P t) : P (.vec t) := by
  intro f rest hf hfo
  simp only [need] at hf
  obtain ⟨g, rfl⟩ : ∃ g, f = g + 2 := ⟨f - 2, by omega⟩
  have hin : printT (.vec t) ++ rest = 86 :: ([101, 99, 60] ++ printT t ++ 62 :: rest) := by
    simp [printT, kwVec, gt]
  have hat : atom kwVec (printT (.vec t) ++ rest) = some (printT t ++ 62 :: rest) := by
    have := atom_hit kwVec 86 [101, 99, 60] (printT t ++ 62 :: rest) rfl (by decide)
    simpa [printT, gt] using this
  rw [parseT, hin, firstKeyword_miss 86 _ (by simp)]
  simp only
  rw [parseMap_none _ _ (atom_miss kwMap 86 _ (by decide) (by decide)),
      parseTuple_none _ _ (atom_miss kwTuple 86 _ (by decide) (by decide)), ← hin]
  simp only [parseVec, hat, ht g (62 :: rest) (by omega) (follow_gt rest)]
  simp [atom, skipWS, isWS, stripPrefix, gt]


theorem atom_comma (r : Bytes) : atom [comma] (44 :: r) = some r := by
  simp [atom, skipWS, isWS, stripPrefix, comma]
theorem atom_gt (r : Bytes) : atom [gt] (62 :: r) = some r := by
  simp [atom, skipWS, isWS, stripPrefix, gt]
theorem atom_comma_gt (r : Bytes) : atom [comma] (62 :: r) = none := by
  simp [atom, skipWS, isWS, stripPrefix, comma]

theorem p_map (k v : IT) (hk : P k) (hv : P v) : P (.map k v) := by
  intro f rest hf hfo
  simp only [need] at hf
  obtain ⟨g, rfl⟩ : ∃ g, f = g + 2 := ⟨f - 2, by omega⟩
  have hin : printT (.map k v) ++ rest = 77 :: ([97, 112, 60] ++ printT k ++ 44 :: (printT v ++ 62 :: rest)) := by
    simp [printT, kwMap, gt, comma]
  have hat : atom kwMap (printT (.map k v) ++ rest) = some (printT k ++ 44 :: (printT v ++ 62 :: rest)) := by
    have := atom_hit kwMap 77 [97, 112, 60] (printT k ++ 44 :: (printT v ++ 62 :: rest)) rfl (by decide)
    simpa [printT, gt, comma] using this
  rw [parseT, hin, firstKeyword_miss 77 _ (by simp), ← hin]
  simp only [parseMap, hat, hk g _ (by omega) (follow_comma _), atom_comma,
    hv g _ (by omega) (follow_gt rest), atom_gt]

theorem more_nil : MoreOK [] := by
  intro f rest _
  cases f with
  | zero => rfl
  | succ f => simp [parseMore, printMore, atom_comma_gt]

theorem more_cons (t : IT) (r : List IT) (ht : P t) (hr : MoreOK r) : MoreOK (t :: r) := by
  intro f rest hf
  simp only [needs] at hf
  obtain ⟨g, rfl⟩ : ∃ g, f = g + 1 := ⟨f - 1, by omega⟩
  have hin : printMore (t :: r) ++ 62 :: rest = 44 :: (printT t ++ (printMore r ++ 62 :: rest)) := by
    simp [printMore]
  rw [hin]
  simp only [parseMore, atom_comma, ht g _ (by omega) (follow_more r rest), hr g rest (by omega)]

theorem p_tuple (ts : List IT) (h : match ts with | [] => True | t :: r => P t ∧ MoreOK r) : P (.tuple ts) := by
  intro f rest hf hfo
  simp only [need] at hf
  obtain ⟨g, rfl⟩ : ∃ g, f = g + 2 := ⟨f - 2, by omega⟩
  have hin : printT (.tuple ts) ++ rest = 84 :: ([117, 112, 108, 101, 60] ++ printTs ts ++ 62 :: rest) := by
    simp [printT, kwTuple, gt]
  have hat : atom kwTuple (printT (.tuple ts) ++ rest) = some (printTs ts ++ 62 :: rest) := by
    have := atom_hit kwTuple 84 [117, 112, 108, 101, 60] (printTs ts ++ 62 :: rest) rfl (by decide)
    simpa [printT, gt] using this
  rw [parseT, hin, firstKeyword_miss 84 _ (by simp)]
  simp only
  rw [parseMap_none _ _ (atom_miss kwMap 84 _ (by decide) (by decide)), ← hin]
  cases ts with
  | nil =>
    simp only [parseTuple, hat, printTs, List.nil_append, parseT_gt, atom_gt]
  | cons t r =>
    simp only [needs] at hf
    rw [printTs_cons, List.append_assoc] at hat
    simp only [parseTuple, hat, h.1 g _ (by omega) (follow_more r rest), h.2 g rest (by omega), atom_gt]

mutual
theorem p_all : (t : IT) → WF t → P t
  | .basic k, h => p_basic k (by simpa [WF] using h)
  | .ref n, h => p_ref n (by simpa [WF] using h)
  | .vec t, h => p_vec t (p_all t (by simpa [WF] using h))
  | .map k v, h => by
    simp only [WF] at h
    exact p_map k v (p_all k h.1) (p_all v h.2)
  | .tuple [], _ => p_tuple [] trivial
  | .tuple (t :: r), h => by
    simp only [WF, WFs] at h
    exact p_tuple (t :: r) ⟨p_all t h.1, more_all r h.2⟩
theorem more_all : (ts : List IT) → WFs ts → MoreOK ts
  | [], _ => more_nil
  | t :: r, h => by
    simp only [WFs] at h
    exact more_cons t r (p_all t h.1) (more_all r h.2)
end

mutual
theorem need_bound : (t : IT) → need t ≤ 2 * (printT t).length + 4
  | .basic _ => by simp [need]
  | .ref _ => by simp [need]
  | .vec t => by have := need_bound t; simp [need, printT, kwVec]; omega
  | .map k v => by have := need_bound k; have := need_bound v; simp [need, printT, kwMap]; omega
  | .tuple [] => by simp [need, needs]
  | .tuple (t :: r) => by
    have := need_bound t; have := needs_bound r
    simp [need, needs, printT, kwTuple, printTs_cons]; omega
theorem needs_bound : (ts : List IT) → needs ts ≤ 2 * (printMore ts).length + 4
  | [] => by simp [needs]
  | t :: r => by
    have := need_bound t; have := needs_bound r
    simp [needs, printMore]; omega
end


theorem firstKeyword_spec (ks : List Bytes) (i n : Nat) (inp r : Bytes) (h : firstKeyword ks i inp = some (n, r)) :
    ∃ m k, n = i + m ∧ ks[m]? = some k ∧ keyword k inp = some r ∧
      ∀ j, j < m → ∀ k', ks[j]? = some k' → keyword k' inp = none := by
  induction ks generalizing i with
  | nil => simp [firstKeyword] at h
  | cons x xs ih =>
    simp only [firstKeyword] at h
    cases hx : keyword x inp with
    | some r' =>
      rw [hx] at h; simp only [Option.some.injEq, Prod.mk.injEq] at h
      exact ⟨0, x, by omega, by simp, by rw [hx, h.2], by intro j hj; omega⟩
    | none =>
      rw [hx] at h
      obtain ⟨m, k, hn, hk, hm, hb⟩ := ih (i + 1) h
      refine ⟨m + 1, k, by omega, by simpa using hk, hm, ?_⟩
      intro j hj k' hk'
      cases j with
      | zero => simp at hk'; subst hk'; exact hx
      | succ j => exact hb j (by omega) k' (by simpa using hk')

/-! ### C18 — the type layer -/

/-- **What the printers write, the parser reads back** — a basic type, `Vec<…>`, `Map<…,…>`,
    `Tuple<…>` (the empty one included) or a struct name, nested arbitrarily, followed by anything
    that can follow a type (the end, a blank, `,`, `>`, `)` … — not a word character, not `<`):
    the parser returns exactly that type and leaves exactly what followed. -/
theorem parse_print (t : IT) (h : WF t) (rest : Bytes) (hfo : Follow rest) (f : Nat) (hf : need t ≤ f) :
    parseT f (printT t ++ rest) = some (t, rest) := p_all t h f rest hf hfo

/-- the same at the depth the harness uses (twice the length of the text, plus four) -/
theorem parseType_print (t : IT) (h : WF t) : parseType (printT t) = some (t, []) := by
  have := p_all t h (2 * (printT t).length + 4) [] (need_bound t) trivial
  simpa [parseType] using this

/-- in a parameter list or a member declaration a type is followed by a blank, a comma or a
    parenthesis: all of them may follow -/
theorem follows_in_context (r : Bytes) : Follow (32 :: r) ∧ Follow (44 :: r) ∧ Follow (41 :: r) ∧ Follow (10 :: r) := by
  simp only [Follow]; exact ⟨⟨by decide, by decide⟩, ⟨by decide, by decide⟩, ⟨by decide, by decide⟩, ⟨by decide, by decide⟩⟩

/-- the hypothesis on what follows is needed: a struct name followed by a word character is a
    different name, and a keyword followed by one is no keyword -/
example : parseT 1 ([70, 111, 111] ++ [49]) = some (.ref [70, 111, 111, 49], []) := by rfl
example : parseT 1 ([105, 110, 116, 56] ++ [49]) = some (.ref [105, 110, 116, 56, 49], []) := by rfl

/-- the two repeated entries of the ordered choice (`int64`, `uint64` a second time) are never the
    answer: the class `canon` loses nothing -/
theorem repeated_keywords_unreachable (inp r : Bytes) (n : Nat) (h : firstKeyword keywords 0 inp = some (n, r)) :
    n ≠ 10 ∧ n ≠ 11 := by
  obtain ⟨m, k, hn, hk, hm, hb⟩ := firstKeyword_spec keywords 0 n inp r h
  have hn' : n = m := by omega
  subst hn'
  constructor
  · intro e; subst e
    have h6 := hb 6 (by omega) [105, 110, 116, 54, 52] (by decide)
    have : k = [105, 110, 116, 54, 52] := by
      have : keywords[10]? = some [105, 110, 116, 54, 52] := by decide
      rw [this] at hk; exact (Option.some.inj hk).symm
    subst this; rw [h6] at hm; cases hm
  · intro e; subst e
    have h7 := hb 7 (by omega) [117, 105, 110, 116, 54, 52] (by decide)
    have : k = [117, 105, 110, 116, 54, 52] := by
      have : keywords[11]? = some [117, 105, 110, 116, 54, 52] := by decide
      rw [this] at hk; exact (Option.some.inj hk).symm
    subst this; rw [h7] at hm; cases hm

/-! ### from a signature to the IDL and back -/

/-- the keyword a one-letter signature type is printed as -/
def kwOf : UInt8 → Nat
  | 99 => 0 | 67 => 1 | 119 => 2 | 87 => 3 | 105 => 4 | 73 => 5 | 108 => 6 | 76 => 7
  | 102 => 8 | 100 => 9 | 98 => 12 | 115 => 13 | 111 => 14 | 109 => 15 | 118 => 16 | _ => 17

theorem kwOf_ok : ∀ c ∈ Sig.basicLetters, canon (kwOf c) = true ∧ sigLetter (kwOf c) = [c] := by decide

mutual
/-- `SignatureIDL()` of a signature type, as a type of the IDL: a struct is written by its name -/
def toIT : Sig.Ty → IT
  | .basic c => .basic (kwOf c)
  | .list t => .vec (toIT t)
  | .map k v => .map (toIT k) (toIT v)
  | .tuple ts => .tuple (toITs ts)
  | .struct n _ => .ref n
def toITs : List Sig.Ty → List IT
  | [] => []
  | t :: r => toIT t :: toITs r
end

mutual
/-- the signature types of the documented grammar whose structs are declared in `scope` -/
def Scoped (scope : Bytes → Option Bytes) : Sig.Ty → Prop
  | .basic c => c ∈ Sig.basicLetters
  | .list t => Scoped scope t
  | .map k v => Scoped scope k ∧ Scoped scope v
  | .tuple ts => ScopedL scope ts
  | .struct n ms => IsName n ∧ scope n = some (Sig.print (.struct n ms))
def ScopedL (scope : Bytes → Option Bytes) : List Sig.Ty → Prop
  | [] => True
  | t :: r => Scoped scope t ∧ ScopedL scope r
end

mutual
theorem toIT_wf (scope : Bytes → Option Bytes) : (t : Sig.Ty) → Scoped scope t → WF (toIT t)
  | .basic c, h => by simp only [Scoped] at h; simp only [toIT, WF]; exact (kwOf_ok c h).1
  | .list t, h => by simp only [Scoped] at h; simp only [toIT, WF]; exact toIT_wf scope t h
  | .map k v, h => by
    simp only [Scoped] at h; simp only [toIT, WF]; exact ⟨toIT_wf scope k h.1, toIT_wf scope v h.2⟩
  | .tuple ts, h => by simp only [Scoped] at h; simp only [toIT, WF]; exact toITs_wf scope ts h
  | .struct n ms, h => by simp only [Scoped] at h; simp only [toIT, WF]; exact h.1
theorem toITs_wf (scope : Bytes → Option Bytes) : (ts : List Sig.Ty) → ScopedL scope ts → WFs (toITs ts)
  | [], _ => by simp [toITs, WFs]
  | t :: r, h => by
    simp only [ScopedL] at h; simp only [toITs, WFs]; exact ⟨toIT_wf scope t h.1, toITs_wf scope r h.2⟩
end

mutual
theorem sig_toIT (scope : Bytes → Option Bytes) : (t : Sig.Ty) → Scoped scope t → sigIn scope (toIT t) = some (Sig.print t)
  | .basic c, h => by simp only [Scoped] at h; simp only [toIT, sigIn, Sig.print, (kwOf_ok c h).2]
  | .list t, h => by
    simp only [Scoped] at h; simp only [toIT, sigIn, Sig.print, sig_toIT scope t h]; simp
  | .map k v, h => by
    simp only [Scoped] at h
    simp only [toIT, sigIn, Sig.print, sig_toIT scope k h.1, sig_toIT scope v h.2]
  | .tuple ts, h => by
    simp only [Scoped] at h; simp only [toIT, sigIn, Sig.print, sigs_toITs scope ts h]; simp
  | .struct n ms, h => by simp only [Scoped] at h; simp only [toIT, sigIn]; exact h.2
theorem sigs_toITs (scope : Bytes → Option Bytes) : (ts : List Sig.Ty) → ScopedL scope ts →
    sigIns scope (toITs ts) = some (Sig.printList ts)
  | [], _ => by simp [toITs, sigIns, Sig.printList]
  | t :: r, h => by
    simp only [ScopedL] at h
    simp only [toITs, sigIns, Sig.printList, sig_toIT scope t h.1, sigs_toITs scope r h.2]
end

/-- **A signature survives the trip through the IDL**: whatever type of the grammar a method
    parameter, a return value, a signal or a property has — its structs declared in the package —
    the text `SignatureIDL` writes for it is read back as a type that stands for the identical
    signature. -/
theorem signature_survives (scope : Bytes → Option Bytes) (ty : Sig.Ty) (h : Scoped scope ty) :
    ∃ t, parseType (printT (toIT ty)) = some (t, []) ∧ sigIn scope t = some (Sig.print ty) :=
  ⟨toIT ty, parseType_print _ (toIT_wf scope ty h), sig_toIT scope ty h⟩

/-- the hypotheses are met by a nested type with a struct in it -/
example : Scoped (fun n => if n = [70, 111, 111] then some (Sig.print (.struct [70, 111, 111] [([97], .basic 105)])) else none)
    (.map (.basic 115) (.list (.tuple [.struct [70, 111, 111] [([97], .basic 105)], .basic 109]))) := by
  have hn : IsName [70, 111, 111] := ⟨70, [111, 111], rfl, by decide, allWord_of _ (by decide), by decide⟩
  simp only [Scoped, ScopedL]
  exact ⟨by decide, ⟨hn, by simp⟩, by decide, trivial⟩

end QiVerif.C18
