/-
  C18 — MetaObject → IDL → MetaObject; the type layer.
  Theorems about Model/Idl.lean: the IDL type parser reads back what the SignatureIDL printers
  write, for every type of the class stated below, whatever follows it.
-/
import QiVerif.Model.Idl
set_option linter.unusedSimpArgs false
set_option linter.unusedVariables false
namespace QiVerif.C18
open QiVerif QiVerif.Idl

theorem stripPrefix_append (l r : Bytes) : stripPrefix l (l ++ r) = some r := by
  induction l with
  | nil => cases r <;> rfl
  | cons a l ih => simp [stripPrefix, ih]

end QiVerif.C18
