/-
  C13 — subscribers get each emitted event exactly once, in order, only while subscribed.
  Theorems about Model/Signals.lean (one connection's view of a signal), for every
  interleaving of subscribe / cancel / emit / server handling / dispatch / handler removal / failure of a
  registration.
-/
import QiVerif.Model.Signals
set_option linter.unusedSimpArgs false
set_option linter.unusedVariables false
namespace QiVerif.C13
open QiVerif QiVerif.Signals

/-- the event frames of a piece of the log -/
def events (l : List Frame) : List (Nat × Nat) :=
  l.filterMap (fun f => match f with | .event i p => some (i, p) | _ => none)

theorem events_append (a b : List Frame) : events (a ++ b) = events a ++ events b := by
  simp [events, List.filterMap_append]

theorem mem_events (l : List Frame) (i p : Nat) : (i, p) ∈ events l ↔ Frame.event i p ∈ l := by
  simp only [events, List.mem_filterMap]
  constructor
  · rintro ⟨f, hf, h⟩
    cases f <;> simp at h
    obtain ⟨rfl, rfl⟩ := h; exact hf
  · intro h; exact ⟨_, h, rfl⟩

theorem mem_setSub (subs : List Sub) (i : Nat) (g : Sub → Sub) (x : Sub) (h : x ∈ setSub subs i g) :
    x ∈ subs ∨ ∃ s, subs[i]? = some s ∧ x = g s := by
  unfold setSub at h
  cases hs : subs[i]? with
  | none => rw [hs] at h; exact Or.inl h
  | some s =>
    rw [hs] at h
    rcases List.mem_or_eq_of_mem_set h with h | h
    · exact Or.inl h
    · exact Or.inr ⟨s, rfl, h⟩

/-! ### well-formedness: counters and the log -/

structure SubWf (c : C) (s : Sub) : Prop where
  pos : s.joinPos ≤ s.joinLen ∧ s.joinLen ≤ c.log.length ∧ s.joinPos ≤ c.delivered ∧ s.joinEmit ≤ c.emitted.length
  before : ∀ k idx p, k < s.joinLen → c.log[k]? = some (.event idx p) → idx < s.joinEmit
  since : ∀ a, s.since = some a → s.joinEmit ≤ a ∧ a ≤ c.emitted.length
  cancelled : ∀ e d, s.cancelAt = some (e, d) → e ≤ c.emitted.length ∧ d ≤ c.delivered ∧ (∀ l, s.leftAt = some l → d ≤ l)
  left : ∀ l, s.leftAt = some l → l ≤ c.delivered ∧ s.joinPos ≤ l ∧ (s.cancelAt.isSome = true ∨ s.failed = true)
  failed : s.failed = true → s.counted = false

structure Wf (c : C) : Prop where
  flags : c.unserialized = false ∧ c.twice = false
  deliv : c.delivered ≤ c.log.length
  /-- the event frames of the log carry strictly increasing emission indices and the emitted payloads -/
  sorted : (events c.log).Pairwise (fun x y => x.1 < y.1)
  genuine : ∀ idx p, Frame.event idx p ∈ c.log → c.emitted[idx]? = some p
  subs : ∀ s ∈ c.subs, SubWf c s

theorem wf_init : Wf {} := ⟨⟨rfl, rfl⟩, by simp, by simp [events], by simp, by simp⟩

/-- a step that only appends to the log / the emissions and only advances `delivered` keeps a
    subscriber's own facts -/
theorem subWf_mono (c c' : C) (s : Sub) (h : SubWf c s)
    (hlog : ∃ t, c'.log = c.log ++ t) (hem : c.emitted.length ≤ c'.emitted.length)
    (hd : c.delivered ≤ c'.delivered) : SubWf c' s := by
  obtain ⟨t, ht⟩ := hlog
  refine ⟨⟨h.pos.1, by rw [ht]; simp; have := h.pos.2.1; omega, by have := h.pos.2.2.1; omega, by have := h.pos.2.2.2; omega⟩, ?_, ?_, ?_, ?_, h.failed⟩
  · intro k idx p hk hget
    have hlt : k < c.log.length := by have := h.pos.2.1; omega
    rw [ht, List.getElem?_append_left hlt] at hget
    exact h.before k idx p hk hget
  · intro a ha; have := h.since a ha; exact ⟨this.1, by omega⟩
  · intro e d hc
    obtain ⟨h1, h2, h3⟩ := h.cancelled e d hc
    exact ⟨by omega, by omega, h3⟩
  · intro l hl
    obtain ⟨h1, h2, h3⟩ := h.left l hl
    exact ⟨by omega, h2, h3⟩


theorem subWf_got (c : C) (s : Sub) (g : List (Nat × Nat)) (h : SubWf c s) : SubWf c { s with got := g } :=
  ⟨h.pos, h.before, h.since, h.cancelled, h.left, h.failed⟩

theorem events_single_nonevent (f : Frame) (h : ∀ i p, f ≠ .event i p) : events [f] = [] := by
  cases f <;> simp [events] at *

theorem wf_append_nonevent (c : C) (f : Frame) (hf : ∀ i p, f ≠ .event i p) (h : Wf c) (c' : C)
    (hl : c'.log = c.log ++ [f]) (he : c'.emitted = c.emitted) (hd : c'.delivered = c.delivered)
    (hs : c'.subs = c.subs) (hfl : c'.unserialized = c.unserialized ∧ c'.twice = c.twice) : Wf c' := by
  refine ⟨by rw [hfl.1, hfl.2]; exact h.flags, by rw [hd, hl]; simp; have := h.deliv; omega, ?_, ?_, ?_⟩
  · rw [hl, events_append, events_single_nonevent f hf]; simpa using h.sorted
  · intro idx p hm
    rw [hl] at hm
    rcases List.mem_append.mp hm with hm | hm
    · rw [he]; exact h.genuine idx p hm
    · simp at hm; exact absurd hm.symm (hf idx p)
  · intro s hs'
    rw [hs] at hs'
    exact subWf_mono c c' s (h.subs s hs') ⟨[f], hl⟩ (by rw [he]; exact Nat.le_refl _) (by rw [hd]; exact Nat.le_refl _)

theorem wf_attach (c : C) (h : Wf c) : Wf (attach c) := by
  refine ⟨h.flags, h.deliv, h.sorted, h.genuine, ?_⟩
  intro s hs
  rcases List.mem_append.mp hs with hs | hs
  · exact ⟨(h.subs s hs).pos, (h.subs s hs).before, (h.subs s hs).since, (h.subs s hs).cancelled, (h.subs s hs).left, (h.subs s hs).failed⟩
  · simp at hs; subst hs
    refine ⟨⟨h.deliv, Nat.le_refl _, Nat.le_refl _, Nat.le_refl _⟩, ?_, by simp, by simp, by simp, by simp⟩
    intro k idx p hk hget
    have := h.genuine idx p (List.mem_of_getElem? hget)
    simp only
    rcases Nat.lt_or_ge idx c.emitted.length with hh | hh
    · exact hh
    · rw [List.getElem?_eq_none (by simpa using hh)] at this; cases this

theorem wf_subs2 (c : C) (h : Wf c) (subs : List Sub) (hs : ∀ s ∈ subs, SubWf c s) (op : Option Op) (refs : Nat) :
    Wf { c with subs := subs, op := op, refs := refs } :=
  ⟨h.flags, h.deliv, h.sorted, h.genuine, fun s hm =>
    ⟨(hs s hm).pos, (hs s hm).before, (hs s hm).since, (hs s hm).cancelled, (hs s hm).left, (hs s hm).failed⟩⟩

theorem wf_enter (c : C) (i : Nat) (h : Wf c) : Wf (enter c i) := by
  unfold enter
  split
  · exact h
  · cases hs : c.subs[i]? with
    | none => exact h
    | some s0 =>
      simp only
      have hsw := h.subs s0 (List.mem_of_getElem? hs)
      split
      · exact h
      · split
        · exact wf_subs2 c h _ (by
            intro x hx
            rcases List.mem_or_eq_of_mem_set hx with hx | rfl
            · exact h.subs x hx
            · exact ⟨hsw.pos, hsw.before, hsw.since, hsw.cancelled, hsw.left, by simp_all⟩) _ _
        · exact wf_subs2 c h _ (by
            intro x hx
            rcases List.mem_or_eq_of_mem_set hx with hx | rfl
            · exact h.subs x hx
            · refine ⟨hsw.pos, hsw.before, ?_, hsw.cancelled, hsw.left, by simp_all⟩
              intro a ha; simp at ha; subst ha
              exact ⟨hsw.pos.2.2.2, Nat.le_refl _⟩) _ _

theorem wf_subscribe (c : C) (h : Wf c) : Wf (subscribe c) := wf_enter _ _ (wf_attach c h)

theorem wf_srvRegister (c : C) (h : Wf c) : Wf (srvRegister c) := by
  unfold srvRegister
  split
  · exact wf_append_nonevent c .regAck (by intro i p hh; cases hh) h _ rfl rfl rfl rfl ⟨rfl, rfl⟩
  · exact h

theorem wf_srvUnregister (c : C) (h : Wf c) : Wf (srvUnregister c) := by
  unfold srvUnregister
  split
  · exact wf_append_nonevent c .unregAck (by intro i p hh; cases hh) h _ rfl rfl rfl rfl ⟨rfl, rfl⟩
  · exact h

theorem wf_noise (c : C) (h : Wf c) : Wf (noise c) :=
  wf_append_nonevent c .other (by intro i p hh; cases hh) h _ rfl rfl rfl rfl ⟨rfl, rfl⟩

/-- a change of the subscribers that keeps the global part -/
theorem wf_subs (c : C) (h : Wf c) (subs : List Sub) (d : Nat) (hd : c.delivered ≤ d) (hdl : d ≤ c.log.length)
    (hs : ∀ s ∈ subs, SubWf { c with delivered := d } s) (op : Option Op) (refs : Nat) :
    Wf { c with subs := subs, delivered := d, op := op, refs := refs } :=
  ⟨h.flags, hdl, h.sorted, h.genuine, fun s hm =>
    ⟨(hs s hm).pos, (hs s hm).before, (hs s hm).since, (hs s hm).cancelled, (hs s hm).left, (hs s hm).failed⟩⟩

theorem subWf_deliv (c : C) (s : Sub) (h : SubWf c s) (d : Nat) (hd : c.delivered ≤ d) : SubWf { c with delivered := d } s :=
  subWf_mono c _ s h ⟨[], by simp⟩ (Nat.le_refl _) hd

theorem wf_deliver (c : C) (h : Wf c) : Wf (deliver c) := by
  unfold deliver
  cases hf : c.log[c.delivered]? with
  | none => exact h
  | some f =>
    have hlt : c.delivered < c.log.length := by
      rcases Nat.lt_or_ge c.delivered c.log.length with hh | hh
      · exact hh
      · rw [List.getElem?_eq_none (by simpa using hh)] at hf; cases hf
    have base : ∀ s ∈ c.subs, SubWf { c with delivered := c.delivered + 1 } s :=
      fun s hs => subWf_deliv c s (h.subs s hs) _ (by omega)
    cases f with
    | event idx p =>
      simp only
      have := wf_subs c h (c.subs.map (fun s => if s.leftAt.isNone then { s with got := s.got ++ [(idx, p)] } else s))
        (c.delivered + 1) (by omega) (by omega) (by
          intro s hs
          obtain ⟨s0, hs0, rfl⟩ := List.mem_map.mp hs
          split
          · exact subWf_got _ s0 _ (base s0 hs0)
          · exact base s0 hs0) c.op c.refs
      exact this
    | other =>
      exact wf_subs c h c.subs (c.delivered + 1) (by omega) (by omega) base c.op c.refs
    | regAck =>
      simp only
      split
      · rename_i i hop
        exact wf_subs c h _ (c.delivered + 1) (by omega) (by omega) (by
          intro s hs
          rcases mem_setSub _ _ _ _ hs with hs | ⟨s0, hs0, rfl⟩
          · exact base s hs
          · have b := base s0 (List.mem_of_getElem? hs0)
            refine ⟨b.pos, b.before, ?_, b.cancelled, b.left, b.failed⟩
            intro a ha
            simp at ha; subst ha
            exact ⟨b.pos.2.2.2, Nat.le_refl _⟩) none c.refs
      · exact wf_subs c h c.subs (c.delivered + 1) (by omega) (by omega) base c.op c.refs
    | unregAck =>
      simp only
      split
      · exact wf_subs c h c.subs (c.delivered + 1) (by omega) (by omega) base none c.refs
      · exact wf_subs c h c.subs (c.delivered + 1) (by omega) (by omega) base c.op c.refs

theorem wf_cancel (c : C) (i : Nat) (h : Wf c) : Wf (cancel c i) := by
  unfold cancel
  split
  · exact h
  · cases hs : c.subs[i]? with
    | none => exact h
    | some s =>
      simp only
      split
      · exact h
      · rename_i hcond
        simp only [Bool.or_eq_true, not_or, Bool.not_eq_true, Option.isNone_eq_false_iff, Option.isSome_eq_false_iff] at hcond
        obtain ⟨hcond, hcnt⟩ := hcond
        have hsw := h.subs s (List.mem_of_getElem? hs)
        have hnf : s.failed = false := by
          cases hf : s.failed with
          | false => rfl
          | true => have := hsw.failed hf; simp [this] at hcnt
        have newOk : ∀ x ∈ c.subs.set i { s with cancelAt := some (c.emitted.length, c.delivered) }, SubWf { c with delivered := c.delivered } x := by
          intro x hx
          rcases List.mem_or_eq_of_mem_set hx with hx | rfl
          · exact h.subs x hx
          · refine ⟨hsw.pos, hsw.before, hsw.since, ?_, ?_, hsw.failed⟩
            · intro e d hc
              simp at hc; obtain ⟨rfl, rfl⟩ := hc
              refine ⟨Nat.le_refl _, Nat.le_refl _, ?_⟩
              intro l hl
              have := (hsw.left l hl).2.2
              rw [Option.isNone_iff_eq_none.mp hcond.2, hnf] at this; simp at this
            · intro l hl
              have := (hsw.left l hl).2.2
              rw [Option.isNone_iff_eq_none.mp hcond.2, hnf] at this; simp at this
        split
        · exact wf_subs c h _ c.delivered (Nat.le_refl _) h.deliv newOk _ _
        · exact wf_subs c h _ c.delivered (Nat.le_refl _) h.deliv newOk _ _

theorem wf_leave (c : C) (i : Nat) (h : Wf c) : Wf (leave c i) := by
  unfold leave
  cases hs : c.subs[i]? with
  | none => exact h
  | some s =>
    simp only
    split
    · exact h
    · rename_i hcond
      split
      · exact h
      · simp only [Bool.or_eq_true, not_or, Bool.not_eq_true, Option.isNone_eq_false_iff, Option.isSome_eq_false_iff] at hcond
        have hsw := h.subs s (List.mem_of_getElem? hs)
        exact wf_subs c h _ c.delivered (Nat.le_refl _) h.deliv (by
          intro x hx
          rcases List.mem_or_eq_of_mem_set hx with hx | rfl
          · exact h.subs x hx
          · refine ⟨hsw.pos, hsw.before, hsw.since, ?_, ?_, hsw.failed⟩
            · intro e d hc
              obtain ⟨h1, h2, _⟩ := hsw.cancelled e d hc
              refine ⟨h1, h2, ?_⟩
              intro l hl; simp at hl; subst hl; exact h2
            · intro l hl; simp at hl; subst hl
              refine ⟨Nat.le_refl _, hsw.pos.2.2.1, ?_⟩
              cases hc : s.cancelAt with
              | some x => simp
              | none => cases hf : s.failed <;> simp_all) c.op c.refs

theorem wf_emit (c : C) (p : Nat) (h : Wf c) : Wf (emit c p) := by
  unfold emit
  have htw : c.twice = false := h.flags.2
  simp only [htw, Bool.false_eq_true, if_false]
  have hidx : ∀ idx q, Frame.event idx q ∈ c.log → idx < c.emitted.length := by
    intro idx q hm
    have := h.genuine idx q hm
    rcases Nat.lt_or_ge idx c.emitted.length with hh | hh
    · exact hh
    · rw [List.getElem?_eq_none (by simpa using hh)] at this; cases this
  have hgen_old : ∀ idx q, Frame.event idx q ∈ c.log → (c.emitted ++ [p])[idx]? = some q := by
    intro idx q hm
    rw [List.getElem?_append_left (hidx idx q hm)]; exact h.genuine idx q hm
  cases hr : c.registered with
  | false =>
    simp only [Bool.false_eq_true, if_false]
    refine ⟨⟨h.flags.1, rfl⟩, h.deliv, h.sorted, hgen_old, ?_⟩
    intro s hs
    exact subWf_mono c _ s (h.subs s hs) ⟨[], by simp⟩ (by simp) (Nat.le_refl _)
  | true =>
    simp only [if_true]
    refine ⟨⟨h.flags.1, rfl⟩, by simp; have := h.deliv; omega, ?_, ?_, ?_⟩
    · rw [events_append]
      simp only [events, List.filterMap_cons, List.filterMap_nil]
      rw [List.pairwise_append]
      refine ⟨h.sorted, by simp, ?_⟩
      intro x hx y hy
      simp at hy; subst hy
      have := (mem_events c.log x.1 x.2).mp hx
      exact hidx x.1 x.2 this
    · intro idx q hm
      rcases List.mem_append.mp hm with hm | hm
      · exact hgen_old idx q hm
      · simp at hm; obtain ⟨rfl, rfl⟩ := hm; simp
    · intro s hs
      exact subWf_mono c _ s (h.subs s hs) ⟨[_], rfl⟩ (by simp) (Nat.le_refl _)

theorem wf_regFail (c : C) (h : Wf c) : Wf (regFail c) := by
  unfold regFail
  split
  · rename_i i hop
    cases hs : c.subs[i]? with
    | none => exact h
    | some s0 =>
      simp only
      have hsw := h.subs s0 (List.mem_of_getElem? hs)
      exact wf_subs2 c h _ (by
        intro x hx
        rcases List.mem_or_eq_of_mem_set hx with hx | rfl
        · exact h.subs x hx
        · exact ⟨hsw.pos, hsw.before, hsw.since, hsw.cancelled, fun l hl => ⟨(hsw.left l hl).1, (hsw.left l hl).2.1, Or.inr rfl⟩, fun _ => rfl⟩) _ _
  · exact h

theorem wf_step (c : C) (a : Action) (h : Wf c) : Wf (step c a) := by
  cases a with
  | attach => exact wf_attach c h
  | enter i => exact wf_enter c i h
  | subscribe => exact wf_subscribe c h
  | srvRegister => exact wf_srvRegister c h
  | deliver => exact wf_deliver c h
  | cancel i => exact wf_cancel c i h
  | srvUnregister => exact wf_srvUnregister c h
  | leave i => exact wf_leave c i h
  | emit p => exact wf_emit c p h
  | noise => exact wf_noise c h
  | regFail => exact wf_regFail c h


theorem wf_run (c : C) (as : List Action) (h : Wf c) : Wf (run c as) := by
  induction as generalizing c with
  | nil => exact h
  | cons a r ih => exact ih _ (wf_step c a h)

/-! ### what a subscriber has received is exactly a segment of the connection's log -/

/-- the frames a subscriber's handler has seen: from the moment it was added to the moment it was
    removed (or now) -/
def seen (c : C) (s : Sub) : List Frame := (c.log.take (s.leftAt.getD c.delivered)).drop s.joinPos

def GotOk (c : C) : Prop := ∀ s ∈ c.subs, s.got = events (seen c s)

theorem seen_log_append (c : C) (s : Sub) (t : List Frame) (hu : s.leftAt.getD c.delivered ≤ c.log.length) :
    ((c.log ++ t).take (s.leftAt.getD c.delivered)).drop s.joinPos = seen c s := by
  unfold seen
  rw [List.take_append_of_le_length hu]

theorem upper_le (c : C) (h : Wf c) (s : Sub) (hs : s ∈ c.subs) : s.leftAt.getD c.delivered ≤ c.log.length := by
  cases hl : s.leftAt with
  | none => simpa using h.deliv
  | some l => have := ((h.subs s hs).left l hl).1; have := h.deliv; simp; omega

theorem take_succ_drop (l : List Frame) (d jp : Nat) (f : Frame) (hf : l[d]? = some f) (hjp : jp ≤ d) :
    (l.take (d + 1)).drop jp = (l.take d).drop jp ++ [f] := by
  have hlt : d < l.length := by
    rcases Nat.lt_or_ge d l.length with hh | hh
    · exact hh
    · rw [List.getElem?_eq_none (by simpa using hh)] at hf; cases hf
  rw [List.take_add_one, hf]
  simp only [Option.toList]
  rw [List.drop_append_of_le_length (by simp; omega)]

theorem gotOk_init : GotOk {} := by intro s hs; simp at hs

theorem gotOk_attach (c : C) (h : GotOk c) : GotOk (attach c) := by
  intro s hs
  rcases List.mem_append.mp hs with hs | hs
  · exact h s hs
  · simp at hs; subst hs; simp [seen, events, attach]

theorem gotOk_enter (c : C) (i : Nat) (h : GotOk c) : GotOk (enter c i) := by
  unfold enter
  split
  · exact h
  · cases hs : c.subs[i]? with
    | none => exact h
    | some s0 =>
      simp only
      split
      · exact h
      · have h0 := h s0 (List.mem_of_getElem? hs)
        split
        · intro x hx
          rcases List.mem_or_eq_of_mem_set hx with hx | rfl
          · exact h x hx
          · exact h0
        · intro x hx
          rcases List.mem_or_eq_of_mem_set hx with hx | rfl
          · exact h x hx
          · exact h0

theorem gotOk_step (c : C) (a : Action) (hw : Wf c) (h : GotOk c) : GotOk (step c a) := by
  have appendCase : ∀ (c' : C) (t : List Frame), c'.log = c.log ++ t → c'.delivered = c.delivered → c'.subs = c.subs → GotOk c' := by
    intro c' t hl hd hs s hm
    rw [hs] at hm
    unfold seen
    rw [hl, hd, seen_log_append c s t (upper_le c hw s hm)]
    exact h s hm
  cases a with
  | attach => exact gotOk_attach c h
  | enter i => exact gotOk_enter c i h
  | subscribe => exact gotOk_enter _ _ (gotOk_attach c h)
  | srvRegister =>
    simp only [step, srvRegister]
    split
    · exact appendCase _ [.regAck] rfl rfl rfl
    · exact h
  | srvUnregister =>
    simp only [step, srvUnregister]
    split
    · exact appendCase _ [.unregAck] rfl rfl rfl
    · exact h
  | noise => exact appendCase _ [.other] rfl rfl rfl
  | regFail =>
    simp only [step, regFail]
    split
    · rename_i i hop
      cases hs : c.subs[i]? with
      | none => exact h
      | some s0 =>
        simp only
        intro x hx
        rcases List.mem_or_eq_of_mem_set hx with hx | rfl
        · exact h x hx
        · exact h s0 (List.mem_of_getElem? hs)
    · exact h
  | emit p =>
    simp only [step, emit]
    split
    · split
      · exact appendCase _ _ rfl rfl rfl
      · exact appendCase _ _ rfl rfl rfl
    · exact appendCase _ [] (by simp) rfl rfl
  | cancel i =>
    simp only [step, cancel]
    split
    · exact h
    · cases hs : c.subs[i]? with
      | none => exact h
      | some s0 =>
        simp only
        split
        · exact h
        · have key : ∀ x ∈ c.subs.set i { s0 with cancelAt := some (c.emitted.length, c.delivered) }, x.got = events (seen c x) := by
            intro x hx
            rcases List.mem_or_eq_of_mem_set hx with hx | rfl
            · exact h x hx
            · exact h s0 (List.mem_of_getElem? hs)
          split <;> exact key
  | leave i =>
    simp only [step, leave]
    cases hs : c.subs[i]? with
    | none => exact h
    | some s0 =>
      simp only
      split
      · exact h
      · rename_i hcond
        split
        · exact h
        · simp only [Bool.or_eq_true, not_or, Bool.not_eq_true, Option.isNone_eq_false_iff, Option.isSome_eq_false_iff] at hcond
          intro x hx
          rcases List.mem_or_eq_of_mem_set hx with hx | rfl
          · exact h x hx
          · have := h s0 (List.mem_of_getElem? hs)
            simp only [seen] at this ⊢
            rw [Option.isNone_iff_eq_none.mp hcond.2] at this
            simpa using this
  | deliver =>
    simp only [step, deliver]
    cases hf : c.log[c.delivered]? with
    | none => exact h
    | some f =>
      -- one more frame dispatched: a subscriber whose handler is still there sees it
      have adv : ∀ s ∈ c.subs, s.leftAt = none →
          events (seen { c with delivered := c.delivered + 1 } s) = events (seen c s) ++ events [f] := by
        intro s hs hl
        simp only [seen, hl, Option.getD_none]
        rw [take_succ_drop c.log c.delivered s.joinPos f hf (hw.subs s hs).pos.2.2.1, events_append]
      have same : ∀ s ∈ c.subs, ∀ l, s.leftAt = some l → seen { c with delivered := c.delivered + 1 } s = seen c s := by
        intro s hs l hl; simp [seen, hl]
      have plain : ∀ (c' : C), c'.log = c.log → c'.delivered = c.delivered + 1 → c'.subs = c.subs →
          events [f] = [] → GotOk c' := by
        intro c' hl hd hs hev s hm
        rw [hs] at hm
        cases hleft : s.leftAt with
        | none =>
          have := adv s hm hleft
          simp only [seen, hleft, Option.getD_none] at this ⊢
          rw [hl, hd, this, hev]; simpa [seen, hleft] using h s hm
        | some l =>
          have := same s hm l hleft
          simp only [seen, hleft] at this ⊢
          rw [hl]; simpa [seen, hleft] using h s hm
      cases f with
      | event idx p =>
        simp only
        intro s hs
        obtain ⟨s0, hs0, rfl⟩ := List.mem_map.mp hs
        cases hleft : s0.leftAt with
        | none =>
          simp only [hleft, Option.isNone_none, if_true]
          have := adv s0 hs0 hleft
          simp only [seen, hleft, Option.getD_none] at this ⊢
          have hg : s0.got = events (List.drop s0.joinPos (List.take c.delivered c.log)) := by
            simpa [seen, hleft] using h s0 hs0
          rw [this, ← hg]
          simp [events]
        | some l =>
          simp only [hleft, Option.isNone_some, Bool.false_eq_true, if_false]
          have := h s0 hs0
          simpa [seen, hleft] using this
      | other => exact plain _ rfl rfl rfl (by simp [events])
      | regAck =>
        simp only
        split
        · rename_i i hop
          intro s hs
          rcases mem_setSub _ _ _ _ hs with hs | ⟨s0, hs0, rfl⟩
          · exact plain { c with delivered := c.delivered + 1 } rfl rfl rfl (by simp [events]) s hs
          · have := plain { c with delivered := c.delivered + 1 } rfl rfl rfl (by simp [events]) s0 (List.mem_of_getElem? hs0)
            simpa [seen] using this
        · exact plain _ rfl rfl rfl (by simp [events])
      | unregAck =>
        simp only
        split
        · exact plain _ rfl rfl rfl (by simp [events])
        · exact plain _ rfl rfl rfl (by simp [events])


/-! ### the registration follows the count of local subscribers -/

def active (s : Sub) : Bool := s.counted && s.cancelAt.isNone

def SubOk (s : Sub) : Prop :=
  (s.since.isSome = true → s.counted = true) ∧ (s.cancelAt.isSome = true → s.since.isSome = true)

/-- what the lock holder is doing determines the count and the server's table entry -/
def Table (c : C) : Prop :=
  match c.op with
  | none => c.registered = decide (1 ≤ c.refs)
  | some (.regPending _) => c.refs = 1 ∧ c.registered = false
  | some (.regSent _) => c.refs = 1 ∧ c.registered = true
  | some (.unregPending _) => c.refs = 0 ∧ c.registered = true
  | some (.unregSent _) => c.refs = 0 ∧ c.registered = false

structure Reg (c : C) : Prop where
  table : Table c
  count : c.refs = c.subs.countP active
  /-- the subscriber whose registration is in progress has not been acknowledged and has not cancelled -/
  pend : ∀ i, (c.op = some (.regPending i) ∨ c.op = some (.regSent i)) →
    ∃ s, c.subs[i]? = some s ∧ s.since = none ∧ s.cancelAt = none ∧ s.counted = true
  /-- only a subscriber that is in the count is ever acknowledged, only an acknowledged one cancels -/
  cnt : ∀ s ∈ c.subs, SubOk s
  order : ∀ s ∈ c.subs, ∀ a e d, s.since = some a → s.cancelAt = some (e, d) → a ≤ e
  /-- everything emitted between a subscriber's acknowledgement and its cancel request (or now) has
      been put on the connection -/
  sent : ∀ s ∈ c.subs, ∀ a, s.since = some a → ∀ idx, a ≤ idx →
    idx < (match s.cancelAt with | some (e, _) => e | none => c.emitted.length) → ∃ p, Frame.event idx p ∈ c.log

theorem reg_init : Reg {} where
  table := rfl
  count := rfl
  pend := by intro i h; rcases h with h | h <;> cases h
  cnt := by intro s hs; cases hs
  order := by intro s hs; cases hs
  sent := by intro s hs; cases hs

theorem countP_two (l : List Sub) (i j : Nat) (a b : Sub) (hi : l[i]? = some a) (hj : l[j]? = some b)
    (ha : active a = true) (hb : active b = true) (hne : i ≠ j) : 2 ≤ l.countP active := by
  induction l generalizing i j with
  | nil => simp at hi
  | cons x r ih =>
    cases i with
    | zero =>
      cases j with
      | zero => exact absurd rfl hne
      | succ j' =>
        simp at hi hj; subst hi
        have : 1 ≤ r.countP active := List.countP_pos_iff.mpr ⟨b, List.mem_of_getElem? hj, hb⟩
        simp only [List.countP_cons, ha, if_true]; omega
    | succ i' =>
      cases j with
      | zero =>
        simp at hi hj; subst hj
        have : 1 ≤ r.countP active := List.countP_pos_iff.mpr ⟨a, List.mem_of_getElem? hi, ha⟩
        simp only [List.countP_cons, hb, if_true]; omega
      | succ j' =>
        simp at hi hj
        have := ih i' j' hi hj (by omega)
        rw [List.countP_cons]; omega

theorem countP_set_eq (l : List Sub) (i : Nat) (a b : Sub) (hi : l[i]? = some a) (h : active b = active a) :
    (l.set i b).countP active = l.countP active := by
  induction l generalizing i with
  | nil => simp at hi
  | cons x r ih =>
    cases i with
    | zero => simp at hi; subst hi; simp [List.countP_cons, h]
    | succ i' => simp at hi; simp [List.countP_cons, ih i' hi]

theorem countP_set_off (l : List Sub) (i : Nat) (a b : Sub) (hi : l[i]? = some a) (ha : active a = true) (hb : active b = false) :
    (l.set i b).countP active + 1 = l.countP active := by
  induction l generalizing i with
  | nil => simp at hi
  | cons x r ih =>
    cases i with
    | zero => simp at hi; subst hi; simp [List.countP_cons, ha, hb]
    | succ i' => simp at hi; have := ih i' hi; simp [List.countP_cons]; omega

/-- a subscriber that has been acknowledged and has not asked to cancel: the server holds the registration -/
theorem active_registered (c : C) (h : Reg c) (s : Sub) (hs : s ∈ c.subs) (a : Nat) (ha : s.since = some a)
    (hc : s.cancelAt = none) : c.registered = true := by
  have hcn := (h.cnt s hs).1 (by rw [ha]; rfl)
  have hact : active s = true := by simp [active, hc, hcn]
  have hpos : 1 ≤ c.subs.countP active := List.countP_pos_iff.mpr ⟨s, hs, hact⟩
  have hcount := h.count
  have ht := h.table
  unfold Table at ht
  obtain ⟨j, hj⟩ := List.getElem?_of_mem hs
  split at ht
  · rw [ht]; simp; omega
  · rename_i i hop
    obtain ⟨si, hsi, h1, h2, h3⟩ := h.pend i (Or.inl hop)
    have hne : i ≠ j := by
      intro e; subst e; rw [hsi] at hj; injection hj with hj; subst hj; rw [h1] at ha; cases ha
    have := countP_two c.subs i j si s hsi hj (by simp [active, h2, h3]) hact hne
    omega
  · exact ht.2
  · omega
  · omega

theorem countP_set_on (l : List Sub) (i : Nat) (a b : Sub) (hi : l[i]? = some a) (ha : active a = false) (hb : active b = true) :
    (l.set i b).countP active = l.countP active + 1 := by
  induction l generalizing i with
  | nil => simp at hi
  | cons x r ih =>
    cases i with
    | zero => simp at hi; subst hi; simp [List.countP_cons, ha, hb]
    | succ i' => simp at hi; have := ih i' hi; simp [List.countP_cons]; omega

theorem getElem?_lt {α : Type} (l : List α) (i : Nat) (x : α) (h : l[i]? = some x) : i < l.length := by
  rcases Nat.lt_or_ge i l.length with hh | hh
  · exact hh
  · rw [List.getElem?_eq_none (by simpa using hh)] at h; cases h

/-- replacing subscriber `i` by a record with the same acknowledgement, cancellation and count
    flags keeps everything `Reg` says about the subscribers -/
theorem reg_set_same (c : C) (h : Reg c) (i : Nat) (s0 s1 : Sub) (hs : c.subs[i]? = some s0)
    (h1 : s1.since = s0.since) (h2 : s1.cancelAt = s0.cancelAt) (h3 : s1.counted = s0.counted) :
    (c.refs = (c.subs.set i s1).countP active) ∧
    (∀ j, (c.op = some (.regPending j) ∨ c.op = some (.regSent j)) →
      ∃ s, (c.subs.set i s1)[j]? = some s ∧ s.since = none ∧ s.cancelAt = none ∧ s.counted = true) ∧
    (∀ s ∈ c.subs.set i s1, SubOk s) ∧
    (∀ s ∈ c.subs.set i s1, ∀ a e d, s.since = some a → s.cancelAt = some (e, d) → a ≤ e) ∧
    (∀ s ∈ c.subs.set i s1, ∀ a, s.since = some a → ∀ idx, a ≤ idx →
      idx < (match s.cancelAt with | some (e, _) => e | none => c.emitted.length) → ∃ p, Frame.event idx p ∈ c.log) := by
  have hm := List.mem_of_getElem? hs
  refine ⟨?_, ?_, ?_, ?_, ?_⟩
  · rw [countP_set_eq c.subs i s0 s1 hs (by simp [active, h2, h3])]; exact h.count
  · intro j hj
    obtain ⟨sj, g1, g2, g3, g4⟩ := h.pend j hj
    by_cases hij : i = j
    · subst hij; rw [hs] at g1; injection g1 with g1; subst g1
      exact ⟨s1, List.getElem?_set_self (getElem?_lt _ _ _ hs), by rw [h1]; exact g2, by rw [h2]; exact g3, by rw [h3]; exact g4⟩
    · exact ⟨sj, by rw [List.getElem?_set_ne hij]; exact g1, g2, g3, g4⟩
  · intro x hx
    rcases List.mem_or_eq_of_mem_set hx with hx | rfl
    · exact h.cnt x hx
    · have := h.cnt s0 hm
      exact ⟨by rw [h1, h3]; exact this.1, by rw [h1, h2]; exact this.2⟩
  · intro x hx a e d ha hc
    rcases List.mem_or_eq_of_mem_set hx with hx | rfl
    · exact h.order x hx a e d ha hc
    · exact h.order s0 hm a e d (by rw [← h1]; exact ha) (by rw [← h2]; exact hc)
  · intro x hx a ha idx g1 g2
    rcases List.mem_or_eq_of_mem_set hx with hx | rfl
    · exact h.sent x hx a ha idx g1 g2
    · exact h.sent s0 hm a (by rw [← h1]; exact ha) idx g1 (by rw [← h2]; exact g2)

/-- `sent` survives when the log only grows and nothing else it mentions changes -/
theorem sent_grow (c : C) (h : Reg c) (t : List Frame) (s : Sub) (hs : s ∈ c.subs) (a : Nat) (ha : s.since = some a)
    (idx : Nat) (h1 : a ≤ idx) (h2 : idx < (match s.cancelAt with | some (e, _) => e | none => c.emitted.length)) :
    ∃ p, Frame.event idx p ∈ c.log ++ t := by
  obtain ⟨p, hp⟩ := h.sent s hs a ha idx h1 h2
  exact ⟨p, List.mem_append_left _ hp⟩

theorem reg_log_grow (c : C) (h : Reg c) (t : List Frame) (reg : Bool) (op : Option Op)
    (ht : Table { c with registered := reg, op := op, log := c.log ++ t })
    (hp : ∀ i, (op = some (.regPending i) ∨ op = some (.regSent i)) →
      ∃ s, c.subs[i]? = some s ∧ s.since = none ∧ s.cancelAt = none ∧ s.counted = true) :
    Reg { c with registered := reg, op := op, log := c.log ++ t } :=
  ⟨ht, h.count, hp, h.cnt, h.order, fun s hs a ha idx h1 h2 => sent_grow c h t s hs a ha idx h1 h2⟩

theorem reg_attach (c : C) (h : Reg c) : Reg (attach c) := by
  refine ⟨h.table, ?_, ?_, ?_, ?_, ?_⟩
  · simp [attach, List.countP_append, active, ← h.count]
  · intro j hj
    obtain ⟨sj, g1, g2⟩ := h.pend j hj
    exact ⟨sj, by simp only [attach]; rw [List.getElem?_append_left (getElem?_lt _ _ _ g1)]; exact g1, g2⟩
  · intro x hx
    rcases List.mem_append.mp hx with hx | hx
    · exact h.cnt x hx
    · simp at hx; subst hx; exact ⟨by simp, by simp⟩
  · intro x hx a e d ha hc
    rcases List.mem_append.mp hx with hx | hx
    · exact h.order x hx a e d ha hc
    · simp at hx; subst hx; cases ha
  · intro x hx a ha idx h1 h2
    rcases List.mem_append.mp hx with hx | hx
    · exact h.sent x hx a ha idx h1 h2
    · simp at hx; subst hx; cases ha

theorem reg_enter (c : C) (i : Nat) (hw : Wf c) (h : Reg c) : Reg (enter c i) := by
  have hser : c.unserialized = false := hw.flags.1
  unfold enter
  simp only [hser]
  cases hop : c.op with
  | some o => simpa [hop] using h
  | none =>
    simp only [Option.isSome_none, Bool.false_and, Bool.false_eq_true, if_false]
    cases hs : c.subs[i]? with
    | none => exact h
    | some s0 =>
      simp only
      cases hcn : s0.counted with
      | true => simpa using h
      | false =>
       cases hfl : s0.failed with
       | true => simpa using h
       | false =>
        simp only [Bool.or_self, Bool.false_eq_true, if_false]
        have ht := h.table; simp only [Table, hop] at ht
        have hlt := getElem?_lt _ _ _ hs
        have hm := List.mem_of_getElem? hs
        have hnone : s0.since = none := by
          cases hsn : s0.since with
          | none => rfl
          | some a => have := (h.cnt s0 hm).1 (by rw [hsn]; rfl); rw [hcn] at this; cases this
        have hinact : active s0 = false := by simp [active, hcn]
        -- the other subscribers are untouched
        have others : ∀ (s1 : Sub), (∀ x ∈ c.subs.set i s1, x ≠ s1 → x ∈ c.subs) := by
          intro s1 x hx hne
          rcases List.mem_or_eq_of_mem_set hx with hx | rfl
          · exact hx
          · exact absurd rfl hne
        split
        · rename_i hz
          have hz' : c.refs = 0 := by simpa using hz
          have hc0 : s0.cancelAt = none := by
            cases hca : s0.cancelAt with
            | none => rfl
            | some ed => have := (h.cnt s0 hm).2 (by rw [hca]; rfl); rw [hnone] at this; cases this
          refine ⟨by simp [Table, ht, hz'], ?_, ?_, ?_, ?_, ?_⟩
          · show 1 = List.countP active (c.subs.set i _)
            rw [countP_set_on c.subs i s0 _ hs hinact (by simp [active, hc0]), ← h.count, hz']
          · intro j hj
            rcases hj with hj | hj
            · injection hj with hj; injection hj with hj; subst hj
              exact ⟨_, List.getElem?_set_self hlt, hnone, hc0, rfl⟩
            · cases hj
          · intro x hx
            rcases List.mem_or_eq_of_mem_set hx with hx | rfl
            · exact h.cnt x hx
            · exact ⟨fun _ => rfl, by simp [hc0]⟩
          · intro x hx a e d ha hc
            rcases List.mem_or_eq_of_mem_set hx with hx | rfl
            · exact h.order x hx a e d ha hc
            · rw [hnone] at ha; cases ha
          · intro x hx a ha idx h1 h2
            rcases List.mem_or_eq_of_mem_set hx with hx | rfl
            · exact h.sent x hx a ha idx h1 h2
            · rw [hnone] at ha; cases ha
        · rename_i hz
          have hz' : c.refs ≠ 0 := by simpa using hz
          have hc0 : s0.cancelAt = none := by
            cases hca : s0.cancelAt with
            | none => rfl
            | some ed => have := (h.cnt s0 hm).2 (by rw [hca]; rfl); rw [hnone] at this; cases this
          refine ⟨?_, ?_, ?_, ?_, ?_, ?_⟩
          · simp only [Table]; rw [ht]; simp; omega
          · show c.refs + 1 = List.countP active (c.subs.set i _)
            rw [countP_set_on c.subs i s0 _ hs hinact (by simp [active, hc0]), ← h.count]
          · intro j hj; rcases hj with hj | hj <;> cases hj
          · intro x hx
            rcases List.mem_or_eq_of_mem_set hx with hx | rfl
            · exact h.cnt x hx
            · exact ⟨fun _ => rfl, by simp [hc0]⟩
          · intro x hx a e d ha hc
            rcases List.mem_or_eq_of_mem_set hx with hx | rfl
            · exact h.order x hx a e d ha hc
            · simp [hc0] at hc
          · intro x hx a ha idx h1 h2
            rcases List.mem_or_eq_of_mem_set hx with hx | rfl
            · exact h.sent x hx a ha idx h1 h2
            · simp at ha; subst ha
              simp [hc0] at h2; omega

theorem reg_step (c : C) (a : Action) (hw : Wf c) (h : Reg c) : Reg (step c a) := by
  cases a with
  | attach => exact reg_attach c h
  | enter i => exact reg_enter c i hw h
  | subscribe => exact reg_enter _ _ (wf_attach c hw) (reg_attach c h)
  | noise =>
    have := reg_log_grow c h [.other] c.registered c.op (by simpa [Table] using h.table) h.pend
    simpa [step, noise] using this
  | regFail =>
    simp only [step, regFail]
    split
    · rename_i i hop
      obtain ⟨s0, hs0, hsn, hca, hcn⟩ := h.pend i (Or.inl hop)
      simp only [hs0]
      have ht := h.table; simp only [Table, hop] at ht
      refine ⟨by simp [Table, ht.2], ?_, ?_, ?_, ?_, ?_⟩
      · show 0 = List.countP active (c.subs.set i _)
        have := countP_set_off c.subs i s0 { s0 with counted := false, failed := true } hs0 (by simp [active, hcn, hca]) (by simp [active])
        have hc := h.count
        omega
      · intro j hj; rcases hj with hj | hj <;> cases hj
      · intro x hx
        rcases List.mem_or_eq_of_mem_set hx with hx | rfl
        · exact h.cnt x hx
        · exact ⟨by simp [hsn], by simp [hca]⟩
      · intro x hx a e d ha hc
        rcases List.mem_or_eq_of_mem_set hx with hx | rfl
        · exact h.order x hx a e d ha hc
        · simp [hsn] at ha
      · intro x hx a ha idx h1 h2
        rcases List.mem_or_eq_of_mem_set hx with hx | rfl
        · exact h.sent x hx a ha idx h1 h2
        · simp [hsn] at ha
    · exact h
  | srvRegister =>
    simp only [step, srvRegister]
    split
    · rename_i i hop
      have ht := h.table; simp only [Table, hop] at ht
      exact reg_log_grow c h [.regAck] true (some (.regSent i)) (by simp [Table, ht.1])
        (by
          intro j hj
          rcases hj with hj | hj
          · cases hj
          · injection hj with hj; injection hj with hj; subst hj; exact h.pend _ (Or.inl hop))
    · exact h
  | srvUnregister =>
    simp only [step, srvUnregister]
    split
    · rename_i i hop
      have ht := h.table; simp only [Table, hop] at ht
      exact reg_log_grow c h [.unregAck] false (some (.unregSent i)) (by simp [Table, ht.1])
        (by intro j hj; rcases hj with hj | hj <;> cases hj)
    · exact h
  | emit p =>
    simp only [step, emit]
    have htw : c.twice = false := hw.flags.2
    simp only [htw, Bool.false_eq_true, if_false]
    refine ⟨by simpa [Table] using h.table, h.count, h.pend, h.cnt, h.order, ?_⟩
    intro s hs a ha idx h1 h2
    cases hc : s.cancelAt with
    | some ed =>
      obtain ⟨e, d⟩ := ed
      rw [hc] at h2
      obtain ⟨q, hq⟩ := h.sent s hs a ha idx h1 (by rw [hc]; exact h2)
      refine ⟨q, ?_⟩
      split
      · exact List.mem_append_left _ hq
      · exact hq
    | none =>
      rw [hc] at h2
      simp only [List.length_append, List.length_cons, List.length_nil] at h2
      by_cases hlt : idx < c.emitted.length
      · obtain ⟨q, hq⟩ := h.sent s hs a ha idx h1 (by rw [hc]; exact hlt)
        refine ⟨q, ?_⟩
        split
        · exact List.mem_append_left _ hq
        · exact hq
      · have hidx : idx = c.emitted.length := by omega
        have hreg := active_registered c h s hs a ha hc
        subst hidx
        exact ⟨p, by simp [hreg]⟩
  | leave i =>
    simp only [step, leave]
    cases hs : c.subs[i]? with
    | none => exact h
    | some s0 =>
      simp only
      split
      · exact h
      · split
        · exact h
        · obtain ⟨g1, g2, g3, g4, g5⟩ := reg_set_same c h i s0 { s0 with leftAt := some c.delivered } hs rfl rfl rfl
          exact ⟨by simpa [Table] using h.table, g1, g2, g3, g4, g5⟩
  | cancel i =>
    simp only [step, cancel]
    cases hop : c.op with
    | some o => simpa [hop] using h
    | none =>
      simp only [Option.isSome_none, Bool.false_eq_true, if_false]
      cases hs : c.subs[i]? with
      | none => exact h
      | some s0 =>
        simp only
        split
        · exact h
        · rename_i hcond
          simp only [Bool.or_eq_true, not_or, Bool.not_eq_true, Option.isNone_eq_false_iff, Option.isSome_eq_false_iff,
            Bool.not_eq_false'] at hcond
          obtain ⟨⟨hsome, hcnone⟩, hcounted⟩ := hcond
          obtain ⟨a0, ha0⟩ := Option.isSome_iff_exists.mp hsome
          have hc0 : s0.cancelAt = none := Option.isNone_iff_eq_none.mp hcnone
          have hact : active s0 = true := by simp [active, hc0, hcounted]
          have hcnt := countP_set_off c.subs i s0 { s0 with cancelAt := some (c.emitted.length, c.delivered) } hs hact (by simp [active])
          have ht := h.table; simp only [Table, hop] at ht
          have hrefs := h.count
          have hm := List.mem_of_getElem? hs
          have hcn' : ∀ x ∈ c.subs.set i { s0 with cancelAt := some (c.emitted.length, c.delivered) }, SubOk x := by
            intro x hx
            rcases List.mem_or_eq_of_mem_set hx with hx | rfl
            · exact h.cnt x hx
            · exact ⟨fun _ => hcounted, fun _ => hsome⟩
          have hord : ∀ x ∈ c.subs.set i { s0 with cancelAt := some (c.emitted.length, c.delivered) }, ∀ a e d,
              x.since = some a → x.cancelAt = some (e, d) → a ≤ e := by
            intro x hx a e d ha hc
            rcases List.mem_or_eq_of_mem_set hx with hx | rfl
            · exact h.order x hx a e d ha hc
            · simp at hc; obtain ⟨rfl, rfl⟩ := hc
              exact ((hw.subs s0 hm).since a ha).2
          have hsent : ∀ x ∈ c.subs.set i { s0 with cancelAt := some (c.emitted.length, c.delivered) }, ∀ a, x.since = some a →
              ∀ idx, a ≤ idx → idx < (match x.cancelAt with | some (e, _) => e | none => c.emitted.length) →
              ∃ p, Frame.event idx p ∈ c.log := by
            intro x hx a ha idx h1 h2
            rcases List.mem_or_eq_of_mem_set hx with hx | rfl
            · exact h.sent x hx a ha idx h1 h2
            · exact h.sent s0 hm a ha idx h1 (by rw [hc0]; simpa using h2)
          split
          · rename_i h1
            have h1' : c.refs = 1 := by simpa using h1
            refine ⟨by simp [Table, ht, h1'], by simp; omega, ?_, hcn', hord, hsent⟩
            intro j hj; rcases hj with hj | hj <;> cases hj
          · rename_i h1
            have h1' : c.refs ≠ 1 := by simpa using h1
            refine ⟨?_, by simp; omega, ?_, hcn', hord, hsent⟩
            · simp only [Table]; rw [ht]; simp; omega
            · intro j hj; rcases hj with hj | hj <;> cases hj
  | deliver =>
    simp only [step, deliver]
    cases hf : c.log[c.delivered]? with
    | none => exact h
    | some f =>
      have same : ∀ (op : Option Op), Table { c with op := op } →
          (∀ i, (op = some (.regPending i) ∨ op = some (.regSent i)) →
            ∃ s, c.subs[i]? = some s ∧ s.since = none ∧ s.cancelAt = none ∧ s.counted = true) →
          Reg { c with delivered := c.delivered + 1, op := op } :=
        fun op ht hp => ⟨by simpa [Table] using ht, h.count, hp, h.cnt, h.order, h.sent⟩
      cases f with
      | other => exact same c.op (by simpa [Table] using h.table) h.pend
      | event idx p =>
        simp only
        have fsame : ∀ x0 : Sub, let x := (if x0.leftAt.isNone then { x0 with got := x0.got ++ [(idx, p)] } else x0);
            x.since = x0.since ∧ x.cancelAt = x0.cancelAt ∧ x.counted = x0.counted := by
          intro x0; simp only; split <;> exact ⟨rfl, rfl, rfl⟩
        refine ⟨by simpa [Table] using h.table, ?_, ?_, ?_, ?_, ?_⟩
        · rw [List.countP_map]
          have : (active ∘ fun s : Sub => if s.leftAt.isNone then { s with got := s.got ++ [(idx, p)] } else s) = active := by
            funext s; simp only [Function.comp]; split <;> rfl
          rw [this]; exact h.count
        · intro j hj
          obtain ⟨sj, h1, h2, h3, h4⟩ := h.pend j hj
          refine ⟨(if sj.leftAt.isNone then { sj with got := sj.got ++ [(idx, p)] } else sj),
            by rw [List.getElem?_map, h1]; rfl, ?_, ?_, ?_⟩
          · rw [(fsame sj).1]; exact h2
          · rw [(fsame sj).2.1]; exact h3
          · rw [(fsame sj).2.2]; exact h4
        · intro x hx
          obtain ⟨x0, hx0, rfl⟩ := List.mem_map.mp hx
          have := h.cnt x0 hx0
          exact ⟨by rw [(fsame x0).1, (fsame x0).2.2]; exact this.1, by rw [(fsame x0).1, (fsame x0).2.1]; exact this.2⟩
        · intro x hx a e d ha hc
          obtain ⟨x0, hx0, rfl⟩ := List.mem_map.mp hx
          exact h.order x0 hx0 a e d (by rw [← (fsame x0).1]; exact ha) (by rw [← (fsame x0).2.1]; exact hc)
        · intro x hx a ha idx' h1 h2
          obtain ⟨x0, hx0, rfl⟩ := List.mem_map.mp hx
          exact h.sent x0 hx0 a (by rw [← (fsame x0).1]; exact ha) idx' h1 (by rw [← (fsame x0).2.1]; exact h2)
      | unregAck =>
        simp only
        split
        · rename_i i hop
          have ht := h.table; simp only [Table, hop] at ht
          exact same none (by simp [Table, ht.1, ht.2]) (by intro j hj; rcases hj with hj | hj <;> cases hj)
        · exact same c.op (by simpa [Table] using h.table) h.pend
      | regAck =>
        simp only
        split
        · rename_i i hop
          have ht := h.table; simp only [Table, hop] at ht
          obtain ⟨si, hsi, hsn, hcn, hct⟩ := h.pend i (Or.inr hop)
          simp only [setSub, hsi]
          refine ⟨by simp [Table, ht.1, ht.2], ?_, ?_, ?_, ?_, ?_⟩
          · show c.refs = List.countP active (c.subs.set i _)
            rw [countP_set_eq c.subs i si { si with since := some c.emitted.length } hsi (by simp [active])]; exact h.count
          · intro j hj; rcases hj with hj | hj <;> cases hj
          · intro x hx
            rcases List.mem_or_eq_of_mem_set hx with hx | rfl
            · exact h.cnt x hx
            · exact ⟨fun _ => hct, fun _ => rfl⟩
          · intro x hx a e d ha hc
            rcases List.mem_or_eq_of_mem_set hx with hx | rfl
            · exact h.order x hx a e d ha hc
            · simp [hcn] at hc
          · intro x hx a ha idx h1 h2
            rcases List.mem_or_eq_of_mem_set hx with hx | rfl
            · exact h.sent x hx a ha idx h1 h2
            · simp at ha; subst ha
              simp [hcn] at h2; omega
        · exact same c.op (by simpa [Table] using h.table) h.pend

/-! ### C13 -/

structure Inv (c : C) : Prop where
  wf : Wf c
  got : GotOk c
  reg : Reg c

theorem inv_init : Inv {} := ⟨wf_init, gotOk_init, reg_init⟩

theorem inv_step (c : C) (a : Action) (h : Inv c) : Inv (step c a) :=
  ⟨wf_step c a h.wf, gotOk_step c a h.wf h.got, reg_step c a h.wf h.reg⟩

theorem inv_run (c : C) (as : List Action) (h : Inv c) : Inv (run c as) := by
  induction as generalizing c with
  | nil => exact h
  | cons a r ih => exact ih _ (inv_step c a h)

theorem seen_sublist (c : C) (s : Sub) : (seen c s).Sublist c.log :=
  (List.drop_sublist _ _).trans (List.take_sublist _ _)

/-- **Exactly once, in emission order, with the emitted payload, and nothing else.**  In every
    reachable state, what a subscriber has received is a strictly increasing sequence of
    emission indices of *this* signal, each with the payload that was emitted under that index. -/
theorem received_once_in_order (as : List Action) (s : Sub) (hs : s ∈ (run {} as).subs) :
    s.got.Pairwise (fun x y => x.1 < y.1) ∧ ∀ idx p, (idx, p) ∈ s.got → (run {} as).emitted[idx]? = some p := by
  have hi := inv_run {} as inv_init
  have hg := hi.got s hs
  have hsub : (events (seen (run {} as) s)).Sublist (events (run {} as).log) := by
    unfold events; exact (seen_sublist _ s).filterMap _
  constructor
  · rw [hg]; exact hi.wf.sorted.sublist hsub
  · intro idx p hm
    rw [hg] at hm
    have := hsub.subset hm
    exact hi.wf.genuine idx p ((mem_events _ idx p).mp this)

/-- **Every event of the window.**  For a subscriber acknowledged when `a` emissions had been
    made: every event emitted from then on and before its cancel request (or until now) has been
    put on its connection; and once the connection's reader has dispatched it — before the cancel
    request, if there is one — the subscriber has received it. -/
theorem window_complete (as : List Action) (s : Sub) (hs : s ∈ (run {} as).subs) (a : Nat) (ha : s.since = some a)
    (idx p : Nat) (hem : (run {} as).emitted[idx]? = some p) (h1 : a ≤ idx)
    (h2 : idx < (match s.cancelAt with | some (e, _) => e | none => (run {} as).emitted.length)) :
    ∃ k, (run {} as).log[k]? = some (.event idx p) ∧
      (k < (run {} as).delivered → (∀ e d, s.cancelAt = some (e, d) → k < d) → (idx, p) ∈ s.got) := by
  have hi := inv_run {} as inv_init
  generalize run {} as = c at *
  obtain ⟨q, hq⟩ := hi.reg.sent s hs a ha idx h1 h2
  have hqp : q = p := by
    have := hi.wf.genuine idx q hq; rw [hem] at this; injection this with this; exact this.symm
  subst hqp
  obtain ⟨k, hk⟩ := List.getElem?_of_mem hq
  refine ⟨k, hk, ?_⟩
  intro hkd hcan
  have hsw := hi.wf.subs s hs
  -- the frame lies after the point where the handler was added
  have hjoin : s.joinPos ≤ k := by
    rcases Nat.lt_or_ge k s.joinLen with hlt | hge
    · have := hsw.before k idx q hlt hk
      have := (hsw.since a ha).1
      omega
    · have := hsw.pos.1; omega
  -- and before the point where it was removed
  have hup : k < s.leftAt.getD c.delivered := by
    cases hl : s.leftAt with
    | none => simpa using hkd
    | some l =>
      have hc : s.cancelAt.isSome = true := by
        rcases (hsw.left l hl).2.2 with h | h
        · exact h
        · have h1 := hsw.failed h
          have h2 := (hi.reg.cnt s hs).1 (by rw [ha]; rfl)
          rw [h1] at h2; cases h2
      obtain ⟨ed, hed⟩ := Option.isSome_iff_exists.mp hc
      obtain ⟨e, d⟩ := ed
      have := (hsw.cancelled e d hed).2.2 l hl
      have := hcan e d hed
      simp; omega
  rw [hi.got s hs, mem_events]
  unfold seen
  apply List.mem_of_getElem? (i := k - s.joinPos)
  rw [List.getElem?_drop, List.getElem?_take]
  have : s.joinPos + (k - s.joinPos) = k := by omega
  rw [this]; simp [hup, hk]

/-- its channel is closed once it cancels: after the cancel request (and, for the last subscriber,
    the unregistration) the handler can be removed, and from then on nothing is received any more -/
theorem closes_after_cancel (c : C) (i : Nat) (s : Sub) (hs : c.subs[i]? = some s) (hc : s.cancelAt.isSome = true)
    (hl : s.leftAt = none) (hop : c.op ≠ some (.unregPending i) ∧ c.op ≠ some (.unregSent i)) :
    ∃ s', (leave c i).subs[i]? = some s' ∧ s'.leftAt = some c.delivered := by
  have hlt : i < c.subs.length := by
    rcases Nat.lt_or_ge i c.subs.length with hh | hh
    · exact hh
    · rw [List.getElem?_eq_none (by simpa using hh)] at hs; cases hs
  unfold leave
  rw [hs]
  simp only [hl, Option.isSome_none, Bool.or_false]
  have : s.cancelAt.isNone = false := by cases h : s.cancelAt <;> simp_all
  simp only [this, Bool.false_eq_true, if_false]
  have h1 : (c.op == some (.unregPending i)) = false := by simpa using hop.1
  have h2 : (c.op == some (.unregSent i)) = false := by simpa using hop.2
  simp only [h1, h2, Bool.or_self, Bool.false_eq_true, if_false]
  exact ⟨_, List.getElem?_set_self hlt, rfl⟩

theorem enter_log (c : C) (i : Nat) : (enter c i).log = c.log := by
  unfold enter
  split
  · rfl
  · split
    · split
      · rfl
      · split <;> rfl
    · rfl

/-- once the handler is removed, no action adds anything to what the subscriber received -/
theorem nothing_after_close (c : C) (hi : Inv c) (a : Action) (s : Sub) (hs : s ∈ c.subs) (l : Nat) (hl : s.leftAt = some l) :
    events (seen (step c a) s) = events (seen c s) := by
  have hle : l ≤ c.log.length := by have := ((hi.wf.subs s hs).left l hl).1; have := hi.wf.deliv; omega
  have key : ∀ c' : C, (∃ t, c'.log = c.log ++ t) → seen c' s = seen c s := by
    intro c' ⟨t, ht⟩
    simp only [seen, hl, Option.getD_some, ht]
    rw [List.take_append_of_le_length hle]
  congr 1
  apply key
  cases a with
  | attach => exact ⟨[], by simp [step, attach]⟩
  | enter i => exact ⟨[], by simp [step, enter_log]⟩
  | subscribe => exact ⟨[], by simp [step, subscribe, enter_log, attach]⟩
  | srvRegister => simp only [step, srvRegister]; split; exact ⟨_, rfl⟩; exact ⟨[], by simp⟩
  | srvUnregister => simp only [step, srvUnregister]; split; exact ⟨_, rfl⟩; exact ⟨[], by simp⟩
  | noise => exact ⟨_, rfl⟩
  | regFail => simp only [step, regFail]; split; (split <;> exact ⟨[], by simp⟩); exact ⟨[], by simp⟩
  | emit p => simp only [step, emit]; split; (split <;> exact ⟨_, rfl⟩); exact ⟨[], by simp⟩
  | leave i => simp only [step, leave]; split; (split; exact ⟨[], by simp⟩; split <;> exact ⟨[], by simp⟩); exact ⟨[], by simp⟩
  | cancel i =>
    simp only [step, cancel]; split; exact ⟨[], by simp⟩
    split
    · split; exact ⟨[], by simp⟩; split <;> exact ⟨[], by simp⟩
    · exact ⟨[], by simp⟩
  | deliver =>
    simp only [step, deliver]
    split
    · exact ⟨[], by simp⟩
    · split
      · exact ⟨[], by simp⟩
      · exact ⟨[], by simp⟩
      · split <;> exact ⟨[], by simp⟩
      · split <;> exact ⟨[], by simp⟩

/-- after the server has handled the unregistration (its acknowledgement is on the connection)
    it sends no further event of the signal on that connection -/
theorem silent_after_unregister (c : C) (i : Nat) (hop : c.op = some (.unregPending i)) (hw : Wf c) (p : Nat) :
    (srvUnregister c).registered = false ∧ (emit (srvUnregister c) p).log = (srvUnregister c).log := by
  simp [srvUnregister, hop, emit]

/-- an event of another signal is not handed to the subscribers of this one -/
theorem no_cross_signal (c : C) (h : c.log[c.delivered]? = some .other) : (deliver c).subs = c.subs := by
  simp [deliver, h]


/-! ### the server's table: one subscriber leaving does not disturb the others -/

theorem swapRemove_mem (us : List User) (i : Nat) (x : User) (hi : us[i]? = some x) (y : User) (hy : y ∈ us) (hne : y ≠ x) :
    y ∈ swapRemove us i := by
  unfold swapRemove
  have hlen : 0 < us.length := List.length_pos_of_mem hy
  have hilt : i < us.length := by
    rcases Nat.lt_or_ge i us.length with hh | hh
    · exact hh
    · rw [List.getElem?_eq_none (by simpa using hh)] at hi; cases hi
  obtain ⟨j, hj⟩ := List.getElem?_of_mem hy
  have hjlt : j < us.length := by
    rcases Nat.lt_or_ge j us.length with hh | hh
    · exact hh
    · rw [List.getElem?_eq_none (by simpa using hh)] at hj; cases hj
  have hji : j ≠ i := by intro e; subst e; rw [hi] at hj; injection hj with hj; exact hne hj.symm
  cases hl : us.getLast? with
  | none => simp [List.getLast?_eq_none_iff] at hl; subst hl; simp at hlen
  | some l =>
    simp only
    have hlast : us[us.length - 1]? = some l := by
      rw [List.getLast?_eq_getElem?] at hl; exact hl
    -- y sits at j; if j is the last index then y = l and is now at i, otherwise it stays at j
    by_cases hjl : j = us.length - 1
    · have : y = l := by rw [hjl, hlast] at hj; injection hj with hj; exact hj.symm
      subst this
      apply List.mem_of_getElem? (i := i)
      rw [List.getElem?_dropLast]
      have : i < (us.set i y).length - 1 := by simp; omega
      simp [this, hilt]; omega
    · apply List.mem_of_getElem? (i := j)
      rw [List.getElem?_dropLast]
      have : j < (us.set i l).length - 1 := by simp; omega
      simp only [this, if_true]
      rw [List.getElem?_set_ne (fun e => hji e.symm)]; exact hj

/-- removing one user keeps every other user of the table, whatever the order of the table -/
theorem remove_keeps_others (us us' : List User) (uid conn : Nat) (h : removeUser us uid conn = some us')
    (y : User) (hy : y ∈ us) (hne : ¬(y.uid = uid ∧ y.conn = conn)) : y ∈ us' := by
  unfold removeUser at h
  cases hf : us.findIdx? (fun x => x.uid == uid && x.conn == conn) with
  | none => rw [hf] at h; cases h
  | some i =>
    rw [hf] at h; injection h with h; subst h
    obtain ⟨hlt, hp, _⟩ := List.findIdx?_eq_some_iff_getElem.mp hf
    refine swapRemove_mem us i us[i] (by simp [hlt]) y hy ?_
    intro e; subst e
    simp at hp; exact hne hp

/-- so its connection still gets every later emission of its signal -/
theorem remove_keeps_recipients (us us' : List User) (uid conn : Nat) (h : removeUser us uid conn = some us')
    (y : User) (hy : y ∈ us) (hne : ¬(y.uid = uid ∧ y.conn = conn)) : y.conn ∈ recipients us' y.sig := by
  simp only [recipients, List.mem_map, List.mem_filter]
  exact ⟨y, ⟨remove_keeps_others us us' uid conn h y hy hne, by simp⟩, rfl⟩

/-- a registration adds exactly its own user -/
theorem add_keeps_all (us us' : List User) (u : User) (h : addUser us u = some us') : us' = us ++ [u] := by
  unfold addUser at h; split at h
  · cases h
  · injection h with h; exact h.symm

/-! ### a registration that fails -/

/-- **A failed registration is given back.**  When `RegisterEvent` fails for the first subscriber, the count is what it
    was before the attempt, the lock is free, nobody is in the count, the server holds no registration — whatever
    happened on the connection meanwhile — and the one that failed is never acknowledged -/
theorem failed_registration_gives_back (as : List Action) (i : Nat) (hop : (run {} as).op = some (.regPending i)) :
    let c := regFail (run {} as)
    c.refs = 0 ∧ c.op = none ∧ c.registered = false ∧ c.subs.countP active = 0 ∧
      ∃ s, c.subs[i]? = some s ∧ s.failed = true ∧ s.since = none ∧ s.counted = false := by
  have hi := inv_run {} as inv_init
  have hi' : Inv (regFail (run {} as)) := inv_step _ .regFail hi
  obtain ⟨s0, hs0, hsn, hca, hcn⟩ := hi.reg.pend i (Or.inl hop)
  have hlt : i < (run {} as).subs.length := by
    rcases Nat.lt_or_ge i (run {} as).subs.length with h | h
    · exact h
    · rw [List.getElem?_eq_none h] at hs0; cases hs0
  have hr : regFail (run {} as) = { run {} as with refs := 0, op := none, subs := (run {} as).subs.set i { s0 with counted := false, failed := true } } := by
    simp only [regFail, hop, hs0]
  have ht := hi'.reg.table
  have hc := hi'.reg.count
  simp only
  rw [hr] at ht hc ⊢
  simp only [Table] at ht
  refine ⟨rfl, rfl, by simpa using ht, by simpa using hc.symm, _, List.getElem?_set_self hlt, rfl, hsn, rfl⟩

/-- the next subscriber registers with the server again: it is not taken for a second subscriber of a registration
    that does not exist -/
theorem subscriber_after_a_failure_registers (as : List Action) (i : Nat) (hop : (run {} as).op = some (.regPending i)) :
    (subscribe (regFail (run {} as))).op = some (.regPending (run {} as).subs.length) ∧
      (subscribe (regFail (run {} as))).refs = 1 := by
  have hi := inv_run {} as inv_init
  obtain ⟨s0, hs0, hsn, hca, hcn⟩ := hi.reg.pend i (Or.inl hop)
  have hser : (run {} as).unserialized = false := hi.wf.flags.1
  simp [subscribe, regFail, hop, hs0, attach, enter, hser]

/-- a subscriber whose registration failed is never acknowledged afterwards, on any schedule -/
theorem failed_never_acknowledged (as : List Action) (s : Sub) (hs : s ∈ (run {} as).subs) (hf : s.failed = true) :
    s.since = none ∧ s.counted = false := by
  have hi := inv_run {} as inv_init
  have hc := (hi.wf.subs s hs).failed hf
  refine ⟨?_, hc⟩
  cases hsn : s.since with
  | none => rfl
  | some a => have := (hi.reg.cnt s hs).1 (by rw [hsn]; rfl); rw [hc] at this; cases this

/-- the first registration fails (the events emitted meanwhile are not for anybody), the second subscriber registers
    and gets every event from its acknowledgement on -/
example :
    let c := run {} [.subscribe, .emit 10, .regFail, .leave 0, .subscribe, .srvRegister, .deliver, .emit 11, .deliver]
    (c.subs.map (fun s => (s.failed, s.since, s.got)), c.refs, c.registered) =
      ([(true, none, []), (false, some 1, [(1, 11)])], 1, true) := by decide

/-! ### non-vacuity, and what the repairs were needed for -/

/-- two subscribers, three emissions, the first subscriber leaves in between -/
def exRun : C :=
  run {} [.subscribe, .srvRegister, .deliver, .emit 10, .subscribe, .emit 11, .deliver, .deliver, .cancel 0, .leave 0,
          .emit 12, .deliver]

example : exRun.subs.map (fun s => (s.since, s.cancelAt.map (·.1), s.got)) =
    [(some 0, some 2, [(0, 10), (1, 11)]), (some 1, none, [(0, 10), (1, 11), (2, 12)])] := by decide

example : Inv exRun := inv_run {} _ inv_init

/-- before e7b0d64: the second subscriber is acknowledged while the first registration is still on
    its way; the event emitted after that acknowledgement is never put on the connection -/
theorem unserialized_subscribe_misses :
    let c := run { unserialized := true } [.subscribe, .subscribe, .emit 10, .srvRegister, .deliver, .emit 11, .deliver]
    (c.subs.map (fun s => (s.since, s.got))) = [(some 1, [(1, 11)]), (some 0, [(1, 11)])] := by decide

/-- the same schedule with the lock: the second subscribe waits; nobody was acknowledged before
    the first emission -/
example :
    let c := run {} [.subscribe, .subscribe, .emit 10, .srvRegister, .deliver, .enter 1, .emit 11, .deliver]
    (c.subs.map (fun s => (s.since, s.got))) = [(some 1, [(1, 11)]), (some 1, [(1, 11)])] := by decide

/-- before 714c9e7: a second client of the connection is registered as well, every event comes twice -/
theorem two_registrations_duplicate :
    let c := run { twice := true } [.subscribe, .srvRegister, .deliver, .emit 10, .deliver, .deliver]
    (c.subs.map (·.got)) = [[(0, 10), (0, 10)]] := by decide

end QiVerif.C13
