/-
  C14 — the change events of concurrent writers: however the checks, saves and notifications of
  concurrent writes interleave, every committed write is announced by exactly one event that carries
  the value it wrote (the notification step of a write sends the value of that write, not what the
  register holds by then).
-/
import QiVerif.Props.C14
set_option linter.unusedSimpArgs false
set_option linter.unusedVariables false
namespace QiVerif.C14
open QiVerif QiVerif.Property

/-- the value a thread has saved and not yet announced -/
def pv : Option Phase → List PVal
  | some (.saved _ v) => [v]
  | _ => []

/-- the values saved and not yet announced, over all threads -/
def pending : List (Option Phase) → List PVal
  | [] => []
  | p :: r => pv p ++ pending r

theorem pending_append (a b : List (Option Phase)) : pending (a ++ b) = pending a ++ pending b := by
  induction a with
  | nil => rfl
  | cons p r ih => simp [pending, ih]

theorem pending_replicate_none (n : Nat) : pending (List.replicate n none) = [] := by
  induction n with
  | zero => rfl
  | succ n ih => simp [List.replicate, pending, pv, ih]

/-- replacing the phase of thread `t`: what was pending for it goes, what is pending for it now comes -/
theorem pending_set (ts : List (Option Phase)) (t : Nat) (x y : Option Phase) (h : ts[t]? = some x) :
    (pending (ts.set t y) ++ pv x).Perm (pending ts ++ pv y) := by
  induction ts generalizing t with
  | nil => simp at h
  | cons p r ih =>
    cases t with
    | zero =>
      simp only [List.getElem?_cons_zero, Option.some.injEq] at h; subst h
      simp only [List.set_cons_zero, pending]
      -- (pv y ++ pending r) ++ pv p  ~  (pv p ++ pending r) ++ pv y
      have h1 : (pv y ++ pending r ++ pv p).Perm (pv p ++ (pv y ++ pending r)) := List.perm_append_comm
      have h2 : (pv p ++ (pv y ++ pending r)).Perm (pv p ++ (pending r ++ pv y)) :=
        List.Perm.append_left _ List.perm_append_comm
      exact h1.trans (h2.trans (by simp))
    | succ t =>
      simp only [List.getElem?_cons_succ] at h
      simp only [List.set_cons_succ, pending, List.append_assoc]
      exact List.Perm.append_left _ (by simpa using ih t h)

/-- the same for `setThread`, which also reaches beyond the threads seen so far -/
theorem pending_setThread (ts : List (Option Phase)) (t : Nat) (y : Option Phase) :
    (pending (setThread ts t y) ++ pv (ts[t]?).join).Perm (pending ts ++ pv y) := by
  unfold setThread
  split
  · rename_i hlt
    have hx : ts[t]? = some ts[t] := List.getElem?_eq_getElem hlt
    have := pending_set ts t ts[t] y hx
    simpa [hx] using this
  · rename_i hge
    have hx : ts[t]? = none := List.getElem?_eq_none (by omega)
    simp [hx, pending_append, pending_replicate_none, pending, pv]

/-- events announced so far, together with the values saved and not yet announced, are the committed writes -/
def EvInv (c : Conc) : Prop :=
  (c.st.events.map (·.2) ++ pending c.threads).Perm (c.committed.map (·.2))

theorem evInv_init : EvInv {} := by simp [EvInv, pending]

theorem evInv_step (cfg : Cfg) (c : Conc) (a : CAct) (h : EvInv c) : EvInv (cstep cfg c a) := by
  unfold EvInv at h ⊢
  cases a with
  | begin t op =>
    simp only [cstep]
    cases hj : (c.threads[t]?).join with
    | some p => simpa [hj] using h
    | none =>
      have hfree := pending_setThread c.threads t
      cases op with
      | set nm v =>
        simp only
        cases hc : check cfg nm v with
        | error e => simpa using h
        | ok d =>
          simp only
          have := hfree (some (.checked d v))
          simp only [hj, pv, List.append_nil] at this
          exact (List.Perm.append_left _ this).trans h
      | update id data =>
        simp only
        cases hd : declById cfg id with
        | none => simpa using h
        | some d =>
          simp only
          split
          · have := hfree (some (.checked d ⟨d.sig, data⟩))
            simp only [hj, pv, List.append_nil] at this
            exact (List.Perm.append_left _ this).trans h
          · exact h
  | save t =>
    simp only [cstep]
    cases hj : (c.threads[t]?).join with
    | none => simpa [hj] using h
    | some p =>
      cases p with
      | saved d v => simpa [hj] using h
      | checked d v =>
        simp only [save, List.map_append, List.map_cons, List.map_nil]
        have := pending_setThread c.threads t (some (.saved d v))
        simp only [hj, pv, List.append_nil] at this
        -- events ++ pending' ~ events ++ (pending ++ [v]) ~ (events ++ pending) ++ [v] ~ committed ++ [v]
        have h1 := List.Perm.append_left (c.st.events.map (·.2)) this
        have h2 : (c.st.events.map (·.2) ++ (pending c.threads ++ [v])).Perm (c.committed.map (·.2) ++ [v]) := by
          rw [← List.append_assoc]; exact List.Perm.append_right _ h
        exact h1.trans h2
  | notify t =>
    simp only [cstep]
    cases hj : (c.threads[t]?).join with
    | none => simpa [hj] using h
    | some p =>
      cases p with
      | checked d v => simpa [hj] using h
      | saved d v =>
        simp only [notify, List.map_append, List.map_cons, List.map_nil]
        have := pending_setThread c.threads t none
        simp only [hj, pv, List.append_nil] at this
        -- (events ++ [v]) ++ pending'  ~  events ++ (pending' ++ [v])  ~  events ++ pending  ~ committed
        have h1 : (c.st.events.map (·.2) ++ [v] ++ pending (setThread c.threads t none)).Perm
            (c.st.events.map (·.2) ++ (pending (setThread c.threads t none) ++ [v])) := by
          rw [List.append_assoc]; exact List.Perm.append_left _ List.perm_append_comm
        exact h1.trans ((List.Perm.append_left _ this).trans h)

theorem evInv_run (cfg : Cfg) (acts : List CAct) : ∀ c, EvInv c → EvInv (crun cfg c acts) := by
  induction acts with
  | nil => intro c h; exact h
  | cons a r ih => intro c h; exact ih _ (evInv_step cfg c a h)

/-- **One event per committed write, carrying its value** — on every interleaving of the checks, saves and
    notifications of concurrent writers: the values announced so far and the values saved whose announcement is
    still to come are, counted with multiplicity, the values of the committed writes.  When no write is under
    way, the events are exactly the committed writes: none lost, none doubled, none carrying another write's value. -/
theorem one_event_per_committed_write (cfg : Cfg) (acts : List CAct) :
    (((crun cfg {} acts).st.events.map (·.2)) ++ pending (crun cfg {} acts).threads).Perm
      ((crun cfg {} acts).committed.map (·.2)) :=
  evInv_run cfg acts {} evInv_init

theorem events_when_quiet (cfg : Cfg) (acts : List CAct) (hq : pending (crun cfg {} acts).threads = []) :
    ((crun cfg {} acts).st.events.map (·.2)).Perm ((crun cfg {} acts).committed.map (·.2)) := by
  have := one_event_per_committed_write cfg acts
  rwa [hq, List.append_nil] at this

/-- two writers whose saves and notifications cross: both values are announced, each once -/
example :
    let c := crun exCfg {} [.begin 0 (.set (.byName 1) ⟨0, 5⟩), .begin 1 (.update 101 9), .save 0, .save 1, .notify 1, .notify 0]
    (c.st.events.map (·.2), c.committed.map (·.2), pending c.threads) = ([⟨0, 9⟩, ⟨0, 5⟩], [⟨0, 5⟩, ⟨0, 9⟩], []) := by
  decide

/-! ### what "announce only the newest" would lose (seeded change C14l) -/

/-- a writer that finds a newer value saved for its property when its turn to announce comes returns without an
    event -/
def notifyNewest (c : Conc) (t : Nat) : Conc :=
  match (c.threads[t]?).join with
  | some (.saved d v) =>
    match (c.committed.filter (fun p => p.1 == d.name)).getLast? with
    | some (_, w) => if w == v then cstep exCfg c (.notify t) else { c with threads := setThread c.threads t none }
    | none => c
  | _ => c

/-- two accepted writes to one property whose saves come before their announcements: the first is never announced,
    although it was validated, stored, readable for a while and acknowledged -/
theorem newest_only_loses_an_event :
    let c0 := crun exCfg {} [.begin 0 (.set (.byName 1) ⟨0, 5⟩), .begin 1 (.update 101 9), .save 0, .save 1]
    let c := notifyNewest (notifyNewest c0 0) 1
    (c.st.events.map (·.2), c.committed.map (·.2), pending c.threads) = ([⟨0, 9⟩], [⟨0, 5⟩, ⟨0, 9⟩], []) := by
  decide

end QiVerif.C14
