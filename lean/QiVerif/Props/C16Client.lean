/-
  C16 for the objects on the client's side of a service (Model/ClientObjects.lean), on every interleaving of additions
  in their two parts, removals and terminations: identifiers unique among the objects alive or being added and at least
  2^31; a new identifier never used before, not even by a removed object; the termination hook at most once and never
  for an object in the table; a removal removes what it names and nothing else; the second removal is refused.
  Identifiers taken from the size of the table collide (the seeded change C16o), by evaluation.
-/
import QiVerif.Model.ClientObjects
set_option linter.unusedSimpArgs false
set_option linter.unusedVariables false
namespace QiVerif.ClientObjects

/-- how many times an identifier occurs: as an object whose hook ran, in the table, handed out and not yet there -/
def occ (s : CS) (x : Nat) : Nat := s.hooks.count x + s.live.count x + s.pending.count x

/-- every identifier ever handed out occurs once — in one place — and lies in [2^31, 2^31 + next) -/
structure Inv (s : CS) : Prop where
  once : ∀ x, occ s x ≤ 1
  range : ∀ x, 0 < occ s x → base ≤ x ∧ x < base + s.next

theorem inv_init : Inv {} := ⟨by simp [occ], by simp [occ]⟩

theorem count_erase_mem (l : List Nat) (x id : Nat) (h : id ∈ l) :
    (l.erase id).count x + (if x = id then 1 else 0) = l.count x := by
  by_cases hx : x = id
  · subst hx
    have hp : 0 < l.count x := List.count_pos_iff.mpr h
    simp [List.count_erase_self]; omega
  · simp [hx, List.count_erase_of_ne hx]

theorem inv_step (s : CS) (a : Act) (h : Inv s) : Inv (step s a) := by
  cases a with
  | addBegin =>
    simp only [step, addBegin]
    split
    · exact h
    · have hfresh : occ s (base + s.next) = 0 := by
        rcases Nat.eq_zero_or_pos (occ s (base + s.next)) with h0 | hp
        · exact h0
        · have := (h.range _ hp).2; omega
      refine ⟨?_, ?_⟩
      · intro x
        have := h.once x
        simp only [occ, List.count_cons] at *
        by_cases hx : base + s.next = x
        · subst hx; simp; omega
        · simp [hx]; omega
      · intro x hp
        dsimp only
        simp only [occ, List.count_cons] at hp
        by_cases hx : base + s.next = x
        · subst hx; omega
        · simp [hx] at hp
          have := h.range x (by simp only [occ]; omega)
          omega
  | addEnd id =>
    simp only [step, addEnd]
    split
    · rename_i hm
      have key := fun x => count_erase_mem s.pending x id hm
      refine ⟨?_, ?_⟩
      · intro x
        have := h.once x; have := key x
        simp only [occ, List.count_cons] at *
        by_cases hx : x = id
        · subst hx; simp at *; omega
        · have : ¬ id = x := fun e => hx e.symm
          simp [hx, this] at *; omega
      · intro x hp
        have := key x
        apply h.range x
        simp only [occ, List.count_cons] at *
        by_cases hx : x = id
        · subst hx; simp at *; omega
        · have : ¬ id = x := fun e => hx e.symm
          simp [hx, this] at *; omega
    · exact h
  | remove id =>
    simp only [step, remove]
    split
    · rename_i hm
      have key := fun x => count_erase_mem s.live x id hm
      refine ⟨?_, ?_⟩
      · intro x
        have := h.once x; have := key x
        simp only [occ, List.count_cons] at *
        by_cases hx : x = id
        · subst hx; simp at *; omega
        · have : ¬ id = x := fun e => hx e.symm
          simp [hx, this] at *; omega
      · intro x hp
        have := key x
        apply h.range x
        simp only [occ, List.count_cons] at *
        by_cases hx : x = id
        · subst hx; simp at *; omega
        · have : ¬ id = x := fun e => hx e.symm
          simp [hx, this] at *; omega
    · exact h
  | terminate =>
    simp only [step, terminate]
    refine ⟨?_, ?_⟩
    · intro x
      have := h.once x
      simp only [occ, List.count_append, List.count_nil] at *
      omega
    · intro x hp
      apply h.range x
      simp only [occ, List.count_append, List.count_nil] at *
      omega

theorem inv_run (s : CS) (as : List Act) (h : Inv s) : Inv (run s as) := by
  induction as generalizing s with
  | nil => exact h
  | cons a r ih => exact ih _ (inv_step s a h)

/-! ### C16, for the objects on the client's side of a service -/

theorem nodup_of_count_le_one (l : List Nat) (h : ∀ x, l.count x ≤ 1) : l.Nodup := by
  induction l with
  | nil => exact List.nodup_nil
  | cons a t ih =>
    refine List.nodup_cons.mpr ⟨?_, ih (fun x => ?_)⟩
    · intro hm
      have := h a
      have hp := List.count_pos_iff.mpr hm
      simp at this
      omega
    · have := h x
      simp only [List.count_cons] at this
      omega

/-- **Identifiers are unique among the objects that are alive or being added**, at least 2^31, on every interleaving of
    additions (in their two parts), removals and terminations. -/
theorem ids_unique (as : List Act) :
    ((run {} as).pending ++ (run {} as).live).Nodup ∧ ∀ id ∈ (run {} as).pending ++ (run {} as).live, base ≤ id := by
  have hi := inv_run {} as inv_init
  refine ⟨nodup_of_count_le_one _ (fun x => ?_), ?_⟩
  · have := hi.once x
    simp only [occ] at this
    simp only [List.count_append]; omega
  · intro id hm
    have hp : 0 < occ (run {} as) id := by
      have := List.count_pos_iff.mpr hm
      simp only [List.count_append] at this
      simp only [occ]; omega
    exact (hi.range id hp).1

/-- **A new identifier was never used before** — not by an object that is alive, not by one that was removed. -/
theorem new_id_is_fresh (as : List Act) (id : Nat) (h : (addBegin (run {} as)).2 = some id) :
    occ (run {} as) id = 0 ∧ base ≤ id := by
  have hi := inv_run {} as inv_init
  simp only [addBegin] at h
  split at h
  · cases h
  · simp only [Option.some.injEq] at h
    subst h
    refine ⟨?_, by omega⟩
    rcases Nat.eq_zero_or_pos (occ (run {} as) (base + (run {} as).next)) with h0 | hp
    · exact h0
    · have := (hi.range _ hp).2; omega

/-- **The termination hook of an object runs at most once, and never while the object is in the table.** -/
theorem hook_once (as : List Act) (x : Nat) :
    (run {} as).hooks.count x ≤ 1 ∧ (x ∈ (run {} as).live → x ∉ (run {} as).hooks) := by
  have := (inv_run {} as inv_init).once x
  simp only [occ] at this
  refine ⟨by omega, fun hl hh => ?_⟩
  have h1 := List.count_pos_iff.mpr hl
  have h2 := List.count_pos_iff.mpr hh
  omega

/-- **A removal removes what it names and nothing else**: the other objects stay in the table, no other hook runs. -/
theorem remove_exact (s : CS) (id : Nat) (h : (remove s id).2 = true) :
    (remove s id).1.live = s.live.erase id ∧ (remove s id).1.hooks = id :: s.hooks ∧
    (remove s id).1.pending = s.pending ∧ ∀ y, y ≠ id → (y ∈ (remove s id).1.live ↔ y ∈ s.live) := by
  by_cases hm : id ∈ s.live
  · simp only [remove, hm, if_true]
    exact ⟨trivial, trivial, trivial, fun y hy => List.mem_erase_of_ne hy⟩
  · simp [remove, hm] at h

/-- **The second removal of an object is refused.** -/
theorem second_remove_refused (as : List Act) (id : Nat) (h : (remove (run {} as) id).2 = true) :
    (remove (remove (run {} as) id).1 id).2 = false := by
  have hone := (inv_run {} as inv_init).once id
  by_cases hm : id ∈ (run {} as).live
  · have hc := count_erase_mem (run {} as).live id id hm
    simp only [if_true] at hc
    have hn : id ∉ (run {} as).live.erase id := by
      intro hx
      have := List.count_pos_iff.mpr hx
      simp only [occ] at hone
      omega
    simp [remove, hm, hn]
  · simp [remove, hm] at h

/-! ### non-vacuity, and identifiers taken from the size of the table (the seeded change C16o) -/

example : (run {} [.addBegin, .addBegin, .addEnd (base + 1), .addEnd base, .remove base, .addBegin, .addEnd (base + 2),
    .remove base, .terminate]) = { next := 3, pending := [], live := [], hooks := [base + 2, base + 1, base] } := by decide

/-- two objects, the older one removed, a third added: it gets the identifier of the one that is alive -/
theorem ids_by_size_collide :
    (addBySize (remove (addBySize (addBySize {})) base).1).live = [base + 1, base + 1] := by decide

end QiVerif.ClientObjects
