/-
  The lock order across functions: what the computed relation of Model/LockOrder.lean means.

  * `evs_sound` — every request (a mutex asked for, a function called) of every execution of a skeleton the checker of
    Model/Locks.lean does not refuse is among `evs`, with exactly what the function held at that moment;
  * `asks_edges` — whatever chain of calls leads a goroutine to ask for a mutex `m` while the frames of that chain hold
    `G`: every pair (g, m), g in G, is an edge of the computed relation (for a table whose functions are all accepted
    and an `A` that is closed under calls);
  * `ranked_no_deadlock` — goroutines that wait for mutexes, each holding only mutexes of a lower rank than the one it
    waits for, are never deadlocked: some goroutine of any such set waits for a mutex nobody of the set holds;
  * `no_lock_order_deadlock` — the three together.
  A read lock and a write lock of one RWMutex are one mutex here: a goroutine that waits for a read lock waits for the
  writer that holds the mutex, or for a writer that waits for a reader that holds it.
-/
import QiVerif.Model.LockOrder
import QiVerif.Props.Locks
namespace QiVerif.LockOrder
open QiVerif.Locks

theorem runE_run (p : Prog) (s : St) (o : Out) (t : List Ev) (h : RunE p s o t) : Run p s o := by
  induction h with
  | skip s => exact .skip s
  | lockOk m s hm => exact .lockOk m s hm
  | lockBad m s hm => exact .lockBad m s hm
  | unlockOk m s hm => exact .unlockOk m s hm
  | unlockBad m s hm => exact .unlockBad m s hm
  | dunlock m s => exact .dunlock m s
  | ret s => exact .ret s
  | brk s => exact .brk s
  | cont s => exact .cont s
  | act k s => exact .act k s
  | unknown s => exact .unknown s
  | seqGo a b s s' o t1 t2 _ _ ih1 ih2 => exact .seqGo a b s s' o ih1 ih2
  | seqStop a b s o t _ hn ih => exact .seqStop a b s o ih hn
  | iteL a b s o t _ ih => exact .iteL a b s o ih
  | iteR a b s o t _ ih => exact .iteR a b s o ih
  | loopEnd a s => exact .loopEnd a s
  | loopNext a s s' o t1 t2 _ _ ih1 ih2 => exact .loopNext a s s' o ih1 ih2
  | loopCont a s s' o t1 t2 _ _ ih1 ih2 => exact .loopCont a s s' o ih1 ih2
  | loopBrk a s s' t _ ih => exact .loopBrk a s s' ih
  | loopRet a s s' t _ ih => exact .loopRet a s s' ih
  | loopBad a s t _ ih => exact .loopBad a s ih
  | catchBrk a s s' t _ ih => exact .catchBrk a s s' ih
  | catchOther a s o t _ hn ih => exact .catchOther a s o ih hn

/-- every execution of `Locks.Run` is one of `RunE`: the requests are there to be read off -/
theorem run_runE (p : Prog) (s : St) (o : Out) (h : Run p s o) : ∃ t, RunE p s o t := by
  induction h with
  | skip s => exact ⟨_, .skip s⟩
  | lockOk m s hm => exact ⟨_, .lockOk m s hm⟩
  | lockBad m s hm => exact ⟨_, .lockBad m s hm⟩
  | unlockOk m s hm => exact ⟨_, .unlockOk m s hm⟩
  | unlockBad m s hm => exact ⟨_, .unlockBad m s hm⟩
  | dunlock m s => exact ⟨_, .dunlock m s⟩
  | ret s => exact ⟨_, .ret s⟩
  | brk s => exact ⟨_, .brk s⟩
  | cont s => exact ⟨_, .cont s⟩
  | act k s => exact ⟨_, .act k s⟩
  | unknown s => exact ⟨_, .unknown s⟩
  | seqGo a b s s' o _ _ ih1 ih2 =>
    obtain ⟨t1, h1⟩ := ih1; obtain ⟨t2, h2⟩ := ih2; exact ⟨_, .seqGo a b s s' o t1 t2 h1 h2⟩
  | seqStop a b s o _ hn ih => obtain ⟨t, h⟩ := ih; exact ⟨_, .seqStop a b s o t h hn⟩
  | iteL a b s o _ ih => obtain ⟨t, h⟩ := ih; exact ⟨_, .iteL a b s o t h⟩
  | iteR a b s o _ ih => obtain ⟨t, h⟩ := ih; exact ⟨_, .iteR a b s o t h⟩
  | loopEnd a s => exact ⟨_, .loopEnd a s⟩
  | loopNext a s s' o _ _ ih1 ih2 =>
    obtain ⟨t1, h1⟩ := ih1; obtain ⟨t2, h2⟩ := ih2; exact ⟨_, .loopNext a s s' o t1 t2 h1 h2⟩
  | loopCont a s s' o _ _ ih1 ih2 =>
    obtain ⟨t1, h1⟩ := ih1; obtain ⟨t2, h2⟩ := ih2; exact ⟨_, .loopCont a s s' o t1 t2 h1 h2⟩
  | loopBrk a s s' _ ih => obtain ⟨t, h⟩ := ih; exact ⟨_, .loopBrk a s s' t h⟩
  | loopRet a s s' _ ih => obtain ⟨t, h⟩ := ih; exact ⟨_, .loopRet a s s' t h⟩
  | loopBad a s _ ih => obtain ⟨t, h⟩ := ih; exact ⟨_, .loopBad a s t h⟩
  | catchBrk a s s' _ ih => obtain ⟨t, h⟩ := ih; exact ⟨_, .catchBrk a s s' t h⟩
  | catchOther a s o _ hn ih => obtain ⟨t, h⟩ := ih; exact ⟨_, .catchOther a s o t h hn⟩

/-- **Every request of an execution is among `evs`**, with what the function held when it made it. -/
theorem evs_sound (p : Prog) (s : St) (o : Out) (t : List Ev) (h : RunE p s o t) (hb : Out.bad ∉ outs p s) :
    ∀ e ∈ t, e ∈ evs p s := by
  induction h with
  | skip s => simp
  | lockOk m s hm => simp [evs]
  | lockBad m s hm => simp [evs]
  | unlockOk m s hm => simp
  | unlockBad m s hm => simp
  | dunlock m s => simp
  | ret s => simp
  | brk s => simp
  | cont s => simp
  | unknown s => simp
  | act k s => simp [evs]
  | seqGo a b s s' o t1 t2 h1 _ ih1 ih2 =>
    have hba : Out.bad ∉ outs a s := by
      intro hx; apply hb; simp only [outs, List.mem_flatMap]; exact ⟨_, hx, by simp⟩
    have hn : Out.normal s' ∈ outs a s := by
      rcases outs_sound a s _ (runE_run _ _ _ _ h1) with h | h
      · exact h
      · exact absurd h hba
    have hbb : Out.bad ∉ outs b s' := by
      intro hx; apply hb; simp only [outs, List.mem_flatMap]; exact ⟨_, hn, hx⟩
    intro k hk
    simp only [evs, List.mem_append, List.mem_flatMap]
    rcases List.mem_append.mp hk with hk | hk
    · exact Or.inl (ih1 hba k hk)
    · exact Or.inr ⟨_, hn, ih2 hbb k hk⟩
  | seqStop a b s o t _ hn ih =>
    have hba : Out.bad ∉ outs a s := by
      intro hx; apply hb; simp only [outs, List.mem_flatMap]; exact ⟨_, hx, by simp⟩
    intro k hk
    simp only [evs, List.mem_append]
    exact Or.inl (ih hba k hk)
  | iteL a b s o t _ ih =>
    have hba : Out.bad ∉ outs a s := fun hx => hb (by simp only [outs, List.mem_append]; exact Or.inl hx)
    intro k hk
    simp only [evs, List.mem_append]
    exact Or.inl (ih hba k hk)
  | iteR a b s o t _ ih =>
    have hbb : Out.bad ∉ outs b s := fun hx => hb (by simp only [outs, List.mem_append]; exact Or.inr hx)
    intro k hk
    simp only [evs, List.mem_append]
    exact Or.inr (ih hbb k hk)
  | loopEnd a s => simp
  | loopNext a s s' o t1 t2 h1 _ ih1 ih2 =>
    obtain ⟨hba, hn, _⟩ := loop_clean a s hb
    have hmem : Out.normal s' ∈ outs a s := by
      rcases outs_sound a s _ (runE_run _ _ _ _ h1) with h | h
      · exact h
      · exact absurd h hba
    have := hn s' hmem
    subst this
    intro k hk
    rcases List.mem_append.mp hk with hk | hk
    · simpa [evs] using ih1 hba k hk
    · exact ih2 hb k hk
  | loopCont a s s' o t1 t2 h1 _ ih1 ih2 =>
    obtain ⟨hba, _, hc⟩ := loop_clean a s hb
    have hmem : Out.continued s' ∈ outs a s := by
      rcases outs_sound a s _ (runE_run _ _ _ _ h1) with h | h
      · exact h
      · exact absurd h hba
    have := hc s' hmem
    subst this
    intro k hk
    rcases List.mem_append.mp hk with hk | hk
    · simpa [evs] using ih1 hba k hk
    · exact ih2 hb k hk
  | loopBrk a s s' t _ ih =>
    intro k hk; simpa [evs] using ih (loop_clean a s hb).1 k hk
  | loopRet a s s' t _ ih =>
    intro k hk; simpa [evs] using ih (loop_clean a s hb).1 k hk
  | loopBad a s t _ ih =>
    intro k hk; simpa [evs] using ih (loop_clean a s hb).1 k hk
  | catchBrk a s s' t _ ih =>
    have hba : Out.bad ∉ outs a s := fun hx => hb (by simp only [outs]; exact List.mem_map.mpr ⟨_, hx, rfl⟩)
    intro k hk; simpa [evs] using ih hba k hk
  | catchOther a s o t _ hn ih =>
    have hba : Out.bad ∉ outs a s := fun hx => hb (by simp only [outs]; exact List.mem_map.mpr ⟨_, hx, rfl⟩)
    intro k hk; simpa [evs] using ih hba k hk

/-! ### `evs` is exact: what it computes happens -/

theorem seq_clean (a b : Prog) (s : St) (hb : Out.bad ∉ outs (.seq a b) s) :
    Out.bad ∉ outs a s ∧ ∀ s', Out.normal s' ∈ outs a s → Out.bad ∉ outs b s' := by
  refine ⟨?_, ?_⟩
  · intro hx; apply hb; simp only [outs, List.mem_flatMap]; exact ⟨_, hx, by simp⟩
  · intro s' hn hx; apply hb; simp only [outs, List.mem_flatMap]; exact ⟨_, hn, hx⟩

/-- every outcome `outs` computes for a skeleton it does not refuse is the outcome of an execution -/
theorem outs_complete (p : Prog) : ∀ (s : St), Out.bad ∉ outs p s → ∀ o ∈ outs p s, Run p s o := by
  induction p with
  | skip => intro s _ o ho; simp [outs] at ho; subst ho; exact .skip s
  | lock m =>
    intro s hb o ho
    by_cases hm : m ∈ s.held
    · simp [outs, hm] at hb
    · simp [outs, hm] at ho; subst ho; exact .lockOk m s hm
  | unlock m =>
    intro s hb o ho
    by_cases hm : m ∈ s.held
    · simp [outs, hm] at ho; subst ho; exact .unlockOk m s hm
    · simp [outs, hm] at hb
  | dunlock m => intro s _ o ho; simp [outs] at ho; subst ho; exact .dunlock m s
  | ret => intro s _ o ho; simp [outs] at ho; subst ho; exact .ret s
  | brk => intro s _ o ho; simp [outs] at ho; subst ho; exact .brk s
  | cont => intro s _ o ho; simp [outs] at ho; subst ho; exact .cont s
  | act k => intro s _ o ho; simp [outs] at ho; subst ho; exact .act k s
  | unknown => intro s hb; simp [outs] at hb
  | seq a b iha ihb =>
    intro s hb o ho
    obtain ⟨hba, hbb⟩ := seq_clean a b s hb
    simp only [outs, List.mem_flatMap] at ho
    obtain ⟨oa, hoa, ho⟩ := ho
    cases oa with
    | normal s' => exact .seqGo a b s s' o (iha s hba _ hoa) (ihb s' (hbb s' hoa) o ho)
    | returned s' => simp at ho; subst ho; exact .seqStop a b s _ (iha s hba _ hoa) (by simp)
    | broke s' => simp at ho; subst ho; exact .seqStop a b s _ (iha s hba _ hoa) (by simp)
    | continued s' => simp at ho; subst ho; exact .seqStop a b s _ (iha s hba _ hoa) (by simp)
    | bad => exact absurd hoa hba
  | ite a b iha ihb =>
    intro s hb o ho
    simp only [outs, List.mem_append] at ho hb
    rcases ho with ho | ho
    · exact .iteL a b s o (iha s (fun hx => hb (Or.inl hx)) o ho)
    · exact .iteR a b s o (ihb s (fun hx => hb (Or.inr hx)) o ho)
  | loop a iha =>
    intro s hb o ho
    obtain ⟨hba, hn, hc⟩ := loop_clean a s hb
    simp only [outs] at ho
    split at ho
    · rcases List.mem_cons.mp ho with rfl | ho
      · exact .loopEnd a s
      · obtain ⟨oa, hoa, rfl⟩ := List.mem_map.mp ho
        have hra := iha s hba oa hoa
        cases oa with
        | normal s' => exact .loopNext a s s' _ hra (.loopEnd a s')
        | continued s' => exact .loopCont a s s' _ hra (.loopEnd a s')
        | broke s' => exact .loopBrk a s s' hra
        | returned s' => exact .loopRet a s s' hra
        | bad => exact absurd hoa hba
    · simp at ho; subst ho
      exact absurd (by simp [outs, *]) hb
  | «catch» a iha =>
    intro s hb o ho
    have hba : Out.bad ∉ outs a s := fun hx => hb (by simp only [outs]; exact List.mem_map.mpr ⟨_, hx, rfl⟩)
    simp only [outs] at ho
    obtain ⟨oa, hoa, rfl⟩ := List.mem_map.mp ho
    have hra := iha s hba oa hoa
    cases oa with
    | broke s' => exact .catchBrk a s s' hra
    | normal s' => exact .catchOther a s _ hra (by simp)
    | returned s' => exact .catchOther a s _ hra (by simp)
    | continued s' => exact .catchOther a s _ hra (by simp)
    | bad => exact absurd hoa hba

/-- some execution with its requests, from every state -/
theorem runE_total (p : Prog) (s : St) : ∃ o t, RunE p s o t := by
  obtain ⟨o, h⟩ := run_total p s
  obtain ⟨t, ht⟩ := run_runE p s o h
  exact ⟨o, t, ht⟩

/-- **Every request `evs` computes is made by an execution**, holding exactly what `evs` says: the relation the checker
    works with has nothing in it that the skeleton cannot do. -/
theorem evs_complete (p : Prog) : ∀ (s : St), Out.bad ∉ outs p s → ∀ e ∈ evs p s, ∃ o t, RunE p s o t ∧ e ∈ t := by
  induction p with
  | skip => intro s _ e he; simp [evs] at he
  | unlock m => intro s _ e he; simp [evs] at he
  | dunlock m => intro s _ e he; simp [evs] at he
  | ret => intro s _ e he; simp [evs] at he
  | brk => intro s _ e he; simp [evs] at he
  | cont => intro s _ e he; simp [evs] at he
  | unknown => intro s _ e he; simp [evs] at he
  | lock m =>
    intro s hb e he
    by_cases hm : m ∈ s.held
    · simp [outs, hm] at hb
    · simp [evs] at he; subst he
      exact ⟨_, _, .lockOk m s hm, by simp⟩
  | act k =>
    intro s _ e he
    simp [evs] at he; subst he
    exact ⟨_, _, .act k s, by simp⟩
  | seq a b iha ihb =>
    intro s hb e he
    obtain ⟨hba, hbb⟩ := seq_clean a b s hb
    simp only [evs, List.mem_append, List.mem_flatMap] at he
    rcases he with he | ⟨oa, hoa, he⟩
    · obtain ⟨o, t, hr, het⟩ := iha s hba e he
      cases o with
      | normal s' =>
        obtain ⟨o2, t2, hr2⟩ := runE_total b s'
        exact ⟨o2, t ++ t2, .seqGo a b s s' o2 t t2 hr hr2, List.mem_append.mpr (Or.inl het)⟩
      | returned s' => exact ⟨_, t, .seqStop a b s _ t hr (by simp), het⟩
      | broke s' => exact ⟨_, t, .seqStop a b s _ t hr (by simp), het⟩
      | continued s' => exact ⟨_, t, .seqStop a b s _ t hr (by simp), het⟩
      | bad => exact ⟨_, t, .seqStop a b s _ t hr (by simp), het⟩
    · cases oa with
      | normal s' =>
        obtain ⟨t1, hr1⟩ := run_runE a s _ (outs_complete a s hba _ hoa)
        obtain ⟨o, t2, hr2, het⟩ := ihb s' (hbb s' hoa) e he
        exact ⟨o, t1 ++ t2, .seqGo a b s s' o t1 t2 hr1 hr2, List.mem_append.mpr (Or.inr het)⟩
      | returned s' => simp at he
      | broke s' => simp at he
      | continued s' => simp at he
      | bad => simp at he
  | ite a b iha ihb =>
    intro s hb e he
    simp only [outs, List.mem_append] at hb
    simp only [evs, List.mem_append] at he
    rcases he with he | he
    · obtain ⟨o, t, hr, het⟩ := iha s (fun hx => hb (Or.inl hx)) e he
      exact ⟨o, t, .iteL a b s o t hr, het⟩
    · obtain ⟨o, t, hr, het⟩ := ihb s (fun hx => hb (Or.inr hx)) e he
      exact ⟨o, t, .iteR a b s o t hr, het⟩
  | loop a iha =>
    intro s hb e he
    obtain ⟨hba, _, _⟩ := loop_clean a s hb
    simp only [evs] at he
    obtain ⟨o, t, hr, het⟩ := iha s hba e he
    cases o with
    | normal s' =>
      exact ⟨_, t ++ [], .loopNext a s s' _ t [] hr (.loopEnd a s'), List.mem_append.mpr (Or.inl het)⟩
    | continued s' =>
      exact ⟨_, t ++ [], .loopCont a s s' _ t [] hr (.loopEnd a s'), List.mem_append.mpr (Or.inl het)⟩
    | broke s' => exact ⟨_, t, .loopBrk a s s' t hr, het⟩
    | returned s' => exact ⟨_, t, .loopRet a s s' t hr, het⟩
    | bad => exact ⟨_, t, .loopBad a s t hr, het⟩
  | «catch» a iha =>
    intro s hb e he
    have hba : Out.bad ∉ outs a s := fun hx => hb (by simp only [outs]; exact List.mem_map.mpr ⟨_, hx, rfl⟩)
    simp only [evs] at he
    obtain ⟨o, t, hr, het⟩ := iha s hba e he
    cases o with
    | broke s' => exact ⟨_, t, .catchBrk a s s' t hr, het⟩
    | normal s' => exact ⟨_, t, .catchOther a s _ t hr (by simp), het⟩
    | returned s' => exact ⟨_, t, .catchOther a s _ t hr (by simp), het⟩
    | continued s' => exact ⟨_, t, .catchOther a s _ t hr (by simp), het⟩
    | bad => exact ⟨_, t, .catchOther a s _ t hr (by simp), het⟩

/-! ### through calls -/

/-- `Asks T f G m`: the `f`-th function of the table, entered holding nothing of its own, comes to ask for the mutex `m`
    — itself, or in a function it calls, or in one that one calls … — while the frames from `f` downwards hold `G` -/
inductive Asks (T : Table) : Nat → List Nat → Nat → Prop where
  | here (f n p o t m H) : T[f]? = some (n, p) → RunE p {} o t → Ev.lock m H ∈ t → Asks T f H m
  | deeper (f n p o t c H G m) : T[f]? = some (n, p) → RunE p {} o t → Ev.call (1000 + c) H ∈ t → Asks T c G m →
      Asks T f (H ++ G) m

theorem safe_not_bad (p : Prog) (hs : safe p = true) : Out.bad ∉ outs p {} := by
  intro hx
  have := List.all_eq_true.mp hs _ hx
  simp [exitOk] at this

theorem mem_edges (T : Table) (A : List (List Nat)) (f : Nat) (hf : f < T.length) (e : Nat × Nat)
    (he : e ∈ edgesOf A (fnEvs T f)) : e ∈ edges T A := by
  simp only [edges, List.mem_flatMap, List.mem_range]
  exact ⟨f, hf, he⟩

theorem closed_spec (T : Table) (A : List (List Nat)) (hc : closed T A = true) (f : Nat) (hf : f < T.length) :
    (∀ m ∈ ownLocks (fnEvs T f), m ∈ A.getD f []) ∧
    (∀ c ∈ callsOf (fnEvs T f), ∀ m ∈ A.getD c [], m ∈ A.getD f []) := by
  have h := List.all_eq_true.mp hc f (List.mem_range.mpr hf)
  simp only [Bool.and_eq_true, List.all_eq_true, List.contains_iff_mem] at h
  exact ⟨h.1, h.2⟩

/-- **Through any chain of calls**: what is asked for is among what the entry function may take, and every pair
    (held somewhere along the chain, asked for) is an edge of the computed relation. -/
theorem asks_edges (T : Table) (A : List (List Nat)) (hs : allSafe T = true) (hc : closed T A = true)
    (f : Nat) (G : List Nat) (m : Nat) (h : Asks T f G m) :
    m ∈ A.getD f [] ∧ ∀ g ∈ G, (g, m) ∈ edges T A := by
  induction h with
  | here f n p o t m H hT hrun hev =>
    have hf : f < T.length := by
      rcases List.getElem?_eq_some_iff.mp hT with ⟨hlt, _⟩; exact hlt
    have hsafe : safe p = true := List.all_eq_true.mp hs (n, p) (List.mem_of_getElem? hT)
    have hmem : Ev.lock m H ∈ fnEvs T f := by
      have := evs_sound p {} o t hrun (safe_not_bad p hsafe) _ hev
      simpa [fnEvs, hT] using this
    refine ⟨?_, ?_⟩
    · apply (closed_spec T A hc f hf).1
      simp only [ownLocks, List.mem_filterMap]
      exact ⟨_, hmem, rfl⟩
    · intro g hg
      apply mem_edges T A f hf
      simp only [edgesOf, List.mem_flatMap]
      exact ⟨_, hmem, by simpa using hg⟩
  | deeper f n p o t c H G m hT hrun hev _ ih =>
    have hf : f < T.length := by
      rcases List.getElem?_eq_some_iff.mp hT with ⟨hlt, _⟩; exact hlt
    have hsafe : safe p = true := List.all_eq_true.mp hs (n, p) (List.mem_of_getElem? hT)
    have hmem : Ev.call (1000 + c) H ∈ fnEvs T f := by
      have := evs_sound p {} o t hrun (safe_not_bad p hsafe) _ hev
      simpa [fnEvs, hT] using this
    have hcall : c ∈ callsOf (fnEvs T f) := by
      simp only [callsOf, List.mem_filterMap]
      exact ⟨_, hmem, by simp⟩
    refine ⟨(closed_spec T A hc f hf).2 c hcall m ih.1, ?_⟩
    intro g hg
    rcases List.mem_append.mp hg with hg | hg
    · apply mem_edges T A f hf
      simp only [edgesOf, List.mem_flatMap]
      refine ⟨_, hmem, ?_⟩
      simp only [Nat.le_add_right, if_true, Nat.add_sub_cancel_left, List.mem_flatMap, List.mem_map]
      exact ⟨g, hg, m, ih.1, rfl⟩
    · exact ih.2 g hg

/-! ### the edges are real -/

/-- what a function may take, itself or through calls, read off the computed requests -/
inductive MayTake (T : Table) : Nat → Nat → Prop where
  | own (f m H) : Ev.lock m H ∈ fnEvs T f → MayTake T f m
  | through (f c H m) : Ev.call (1000 + c) H ∈ fnEvs T f → MayTake T c m → MayTake T f m

theorem fnEvs_some (T : Table) (f : Nat) (e : Ev) (he : e ∈ fnEvs T f) :
    ∃ n p, T[f]? = some (n, p) ∧ e ∈ evs p {} := by
  unfold fnEvs at he
  split at he
  · rename_i np hT
    exact ⟨np.1, np.2, hT, he⟩
  · simp at he

/-- a computed request for a mutex is made by an execution of the function, holding exactly what was computed -/
theorem lock_request_is_real (T : Table) (hs : allSafe T = true) (f m : Nat) (H : List Nat)
    (he : Ev.lock m H ∈ fnEvs T f) : Asks T f H m := by
  obtain ⟨n, p, hT, hev⟩ := fnEvs_some T f _ he
  have hsafe : safe p = true := List.all_eq_true.mp hs (n, p) (List.mem_of_getElem? hT)
  obtain ⟨o, t, hr, het⟩ := evs_complete p {} (safe_not_bad p hsafe) _ hev
  exact .here f n p o t m H hT hr het

/-- whatever a function may take by the computed requests, some chain of calls does ask for -/
theorem mayTake_asks (T : Table) (hs : allSafe T = true) (f m : Nat) (h : MayTake T f m) : ∃ G, Asks T f G m := by
  induction h with
  | own f m H he => exact ⟨H, lock_request_is_real T hs f m H he⟩
  | through f c H m he _ ih =>
    obtain ⟨G, hG⟩ := ih
    obtain ⟨n, p, hT, hev⟩ := fnEvs_some T f _ he
    have hsafe : safe p = true := List.all_eq_true.mp hs (n, p) (List.mem_of_getElem? hT)
    obtain ⟨o, t, hr, het⟩ := evs_complete p {} (safe_not_bad p hsafe) _ hev
    exact ⟨H ++ G, .deeper f n p o t c H G m hT hr het hG⟩

/-- **No edge without a chain**: a call made while `h` is held, to a function that may take `m`: some goroutine that
    enters `f` comes to ask for `m` while it holds `h`. With `asks_edges` the relation is exact for the skeletons — what
    the checker refuses is an inversion the skeletons can perform, not an artefact of the computation (the translator's
    hint `acq` may be larger than what `acquires` computes from the requests; the two sets of edges are compared by
    evaluation on every run — evidence `lock_order.hint-exact` — not by a theorem). -/
theorem call_edge_is_real (T : Table) (hs : allSafe T = true) (f c m h : Nat) (H : List Nat)
    (he : Ev.call (1000 + c) H ∈ fnEvs T f) (hh : h ∈ H) (hm : MayTake T c m) :
    ∃ G, Asks T f G m ∧ h ∈ G := by
  obtain ⟨G, hG⟩ := mayTake_asks T hs c m hm
  obtain ⟨n, p, hT, hev⟩ := fnEvs_some T f _ he
  have hsafe : safe p = true := List.all_eq_true.mp hs (n, p) (List.mem_of_getElem? hT)
  obtain ⟨o, t, hr, het⟩ := evs_complete p {} (safe_not_bad p hsafe) _ hev
  exact ⟨H ++ G, .deeper f n p o t c H G m hT hr het hG, List.mem_append.mpr (Or.inl hh)⟩

/-! ### a ranked order has no deadlock -/

/-- a goroutine that waits for a mutex, and what it holds meanwhile -/
structure Waiter where
  held : List Nat
  wants : Nat
  deriving Repr, DecidableEq

/-- a set of waiting goroutines each of which waits for a mutex that one of the set holds -/
def Deadlocked (ws : List Waiter) : Prop := ws ≠ [] ∧ ∀ w ∈ ws, ∃ w' ∈ ws, w.wants ∈ w'.held

theorem exists_max {α : Type} (f : α → Nat) : ∀ (l : List α), l ≠ [] → ∃ x ∈ l, ∀ y ∈ l, f y ≤ f x
  | [], h => absurd rfl h
  | [a], _ => ⟨a, by simp, by simp⟩
  | a :: b :: l, _ => by
    obtain ⟨x, hx, hmax⟩ := exists_max f (b :: l) (by simp)
    by_cases hle : f a ≤ f x
    · refine ⟨x, List.mem_cons_of_mem _ hx, ?_⟩
      intro y hy
      rcases List.mem_cons.mp hy with rfl | hy
      · exact hle
      · exact hmax y hy
    · refine ⟨a, List.mem_cons_self .., ?_⟩
      intro y hy
      rcases List.mem_cons.mp hy with rfl | hy
      · exact Nat.le_refl _
      · exact Nat.le_trans (hmax y hy) (Nat.le_of_lt (Nat.lt_of_not_le hle))

/-- **Goroutines that only ever wait upwards are never deadlocked.** -/
theorem ranked_no_deadlock (rank : Nat → Nat) (ws : List Waiter)
    (hr : ∀ w ∈ ws, ∀ h ∈ w.held, rank h < rank w.wants) : ¬ Deadlocked ws := by
  intro ⟨hne, hd⟩
  obtain ⟨w, hw, hmax⟩ := exists_max (fun w => rank w.wants) ws hne
  obtain ⟨w', hw', hheld⟩ := hd w hw
  have h1 := hr w' hw' w.wants hheld
  have h2 := hmax w' hw'
  exact absurd h1 (Nat.not_lt.mpr h2)

/-- a path along the edges -/
inductive Path (es : List (Nat × Nat)) : Nat → Nat → Prop where
  | one (a b) : (a, b) ∈ es → Path es a b
  | more (a b c) : (a, b) ∈ es → Path es b c → Path es a c

theorem ranked_path_lt (es rt : List (Nat × Nat)) (h : ranked es rt = true) (a b : Nat) (p : Path es a b) :
    rankOf rt a < rankOf rt b := by
  induction p with
  | one a b hab => simpa using List.all_eq_true.mp h (a, b) hab
  | more a b c hab _ ih =>
    have : rankOf rt a < rankOf rt b := by simpa using List.all_eq_true.mp h (a, b) hab
    exact Nat.lt_trans this ih

/-- a ranked relation has no cycle: no mutex is, through any number of "asked for while held" steps, asked for while it
    is held itself -/
theorem ranked_acyclic (es rt : List (Nat × Nat)) (h : ranked es rt = true) (a : Nat) : ¬ Path es a a :=
  fun p => Nat.lt_irrefl _ (ranked_path_lt es rt h a a p)

/-- **No deadlock by lock order**: for a table all of whose functions the checker accepts, an `A` closed under calls and
    a rank table under which every computed edge goes upwards, goroutines each of which came to its wait through some
    chain of calls of the table — holding what the frames of that chain hold — are never deadlocked. -/
theorem no_lock_order_deadlock (T : Table) (A : List (List Nat)) (rt : List (Nat × Nat))
    (hs : allSafe T = true) (hc : closed T A = true) (hr : ranked (edges T A) rt = true)
    (ws : List Waiter) (hw : ∀ w ∈ ws, ∃ f, Asks T f w.held w.wants) : ¬ Deadlocked ws := by
  apply ranked_no_deadlock (rankOf rt) ws
  intro w hwm h hh
  obtain ⟨f, hasks⟩ := hw w hwm
  have hedge := (asks_edges T A hs hc f w.held w.wants hasks).2 h hh
  have := List.all_eq_true.mp hr (h, w.wants) hedge
  simpa using this

/-! ### the statements are about something -/

/-- two functions that take two mutexes in opposite orders, the second through a call -/
def exInverted : Table :=
  [("f", .seq (.lock 0) (.seq (.lock 1) (.seq (.unlock 1) (.unlock 0)))),
   ("g", .seq (.lock 1) (.seq (.act 1002) (.unlock 1))),
   ("h", .seq (.lock 0) (.unlock 0))]

/-- the same with one order -/
def exOrdered : Table :=
  [("f", .seq (.lock 0) (.seq (.lock 1) (.seq (.unlock 1) (.unlock 0)))),
   ("g", .seq (.lock 0) (.seq (.act 1002) (.unlock 0))),
   ("h", .seq (.lock 1) (.unlock 1))]

/-- the inversion is found (the edge 1 → 0 goes through the call), no rank exists, and the two goroutines it speaks of
    are deadlocked: `f` holds 0 and waits for 1, `g` (inside `h`) holds 1 and waits for 0 -/
theorem inverted_order_is_refused :
    allSafe exInverted = true ∧ closed exInverted (acquires exInverted) = true ∧
    edges exInverted (acquires exInverted) = [(0, 1), (1, 0)] ∧
    ranked (edges exInverted (acquires exInverted)) (rankTable (edges exInverted (acquires exInverted))) = false ∧
    Deadlocked [⟨[0], 1⟩, ⟨[1], 0⟩] := by
  refine ⟨by decide, by decide, by decide, by decide, by simp, ?_⟩
  intro w hw
  simp only [List.mem_cons, List.not_mem_nil, or_false] at hw
  rcases hw with rfl | rfl
  · exact ⟨⟨[1], 0⟩, by simp, by simp⟩
  · exact ⟨⟨[0], 1⟩, by simp, by simp⟩

/-- the ordered table meets every hypothesis of `no_lock_order_deadlock`, and `g` does ask for 1 through its call -/
theorem ordered_is_accepted :
    allSafe exOrdered = true ∧ closed exOrdered (acquires exOrdered) = true ∧
    ranked (edges exOrdered (acquires exOrdered)) (rankTable (edges exOrdered (acquires exOrdered))) = true ∧
    Asks exOrdered 1 [0] 1 := by
  refine ⟨by decide, by decide, by decide, ?_⟩
  have hcallee : Asks exOrdered 2 [] 1 :=
    .here 2 "h" _ _ _ 1 [] rfl (.seqGo _ _ _ _ _ _ _ (.lockOk 1 {} (by simp)) (.unlockOk 1 _ (by simp))) (by simp)
  have := Asks.deeper 1 "g" _ _ _ 2 [0] [] 1 (T := exOrdered) rfl
    (.seqGo _ _ _ _ _ _ _ (.lockOk 0 {} (by simp)) (.seqGo _ _ _ _ _ _ _ (.act 1002 _) (.unlockOk 0 _ (by simp))))
    (by simp) hcallee
  simpa using this

end QiVerif.LockOrder
