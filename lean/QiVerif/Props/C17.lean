/-
  C17 — each connection handler is closed exactly once, whatever races with it.
  All interleavings of MakeHandler / RemoveHandler / non-keep filters / incoming
  messages / Close / peer close = all lists of actions of the table machine
  (each action is one critical section of `handlersMutex`).
-/
import QiVerif.Model.Endpoint
set_option linter.unusedSimpArgs false
set_option linter.unusedVariables false
namespace QiVerif.C17
open QiVerif.Endpoint

def live (sl : List (Option HS)) : List HS := sl.filterMap id

/-- how often the handler with registration number `u` occurs in a list -/
def occ (u : Nat) (l : List HS) : Nat := l.countP (·.uid == u)

def Open (h : HS) : Prop := h.closed = 0 ∧ h.closer = 0
def Closed (h : HS) : Prop := h.closed = 1 ∧ h.closer = 1

/-- the invariant: handlers in the table or waiting for their asynchronous close have not been
    closed; handlers that are done were closed exactly once (callback once, queue once); every
    registered handler is in exactly one of the three places -/
structure Inv (e : EP) : Prop where
  liveOpen : ∀ h ∈ live e.slots, Open h
  pendOpen : ∀ h ∈ e.pending, Open h
  doneClosed : ∀ h ∈ e.done, Closed h
  once : ∀ u, occ u (live e.slots) + occ u e.pending + occ u e.done = if u < e.next then 1 else 0

theorem occ_append (u : Nat) (a b : List HS) : occ u (a ++ b) = occ u a + occ u b := by
  simp [occ, List.countP_append]

theorem occ_nil (u : Nat) : occ u [] = 0 := rfl

/-- 1 if the two registration numbers coincide -/
def ind (a b : Nat) : Nat := if a = b then 1 else 0

@[simp] theorem ind_self (a : Nat) : ind a a = 1 := by simp [ind]
theorem ind_ne (a b : Nat) (h : a ≠ b) : ind a b = 0 := by simp [ind, h]

theorem occ_cons (u : Nat) (h : HS) (l : List HS) : occ u (h :: l) = ind h.uid u + occ u l := by
  simp only [occ, List.countP_cons, ind]
  by_cases hu : h.uid = u <;> simp [hu] <;> omega

@[simp] theorem live_nil : live [] = [] := rfl
@[simp] theorem live_cons_none (r : List (Option HS)) : live (none :: r) = live r := rfl
@[simp] theorem live_cons_some (h : HS) (r : List (Option HS)) : live (some h :: r) = h :: live r := rfl

theorem inv_init : Inv {} := by
  have hl : live ({} : EP).slots = [] := by decide
  refine ⟨?_, ?_, ?_, ?_⟩
  · intro h hh; rw [hl] at hh; simp at hh
  · intro h hh; simp at hh
  · intro h hh; simp at hh
  · intro u; rw [hl]; simp [occ]

theorem close_closed (h : HS) (ho : Open h) : Closed h.close := by
  obtain ⟨h1, h2⟩ := ho
  simp [HS.close, Closed, h1, h2]

theorem close_uid (h : HS) : h.close.uid = h.uid := rfl

/-! ### MakeHandler -/

theorem place_live (h : HS) (sl : List (Option HS)) (i : Nat) :
    ∀ u, occ u (live (place h sl i).1) = occ u (live sl) + ind h.uid u := by
  induction sl generalizing i with
  | nil => intro u; simp only [place, live_cons_some, live_nil, occ_cons, occ_nil]; omega
  | cons x r ih =>
    intro u
    cases x with
    | none => simp only [place, live_cons_some, live_cons_none, occ_cons]; omega
    | some y =>
      have := ih (i + 1) u
      simp only [place, live_cons_some, occ_cons]; omega

theorem place_mem (h : HS) (sl : List (Option HS)) (i : Nat) :
    ∀ x ∈ live (place h sl i).1, x = h ∨ x ∈ live sl := by
  induction sl generalizing i with
  | nil => intro x hx; simp only [place, live_cons_some, live_nil, List.mem_singleton] at hx; exact Or.inl hx
  | cons y r ih =>
    intro x hx
    cases y with
    | none =>
      simp only [place, live_cons_some, live_cons_none, List.mem_cons] at hx ⊢
      exact hx
    | some z =>
      simp only [place, live_cons_some, List.mem_cons] at hx ⊢
      rcases hx with hx | hx
      · exact Or.inr (Or.inl hx)
      · rcases ih (i + 1) x hx with h1 | h1
        · exact Or.inl h1
        · exact Or.inr (Or.inr h1)

/-- the slot index handed out was free before and holds the new handler afterwards: an
    identifier is only reused after removal -/
theorem place_slot (h : HS) (sl : List (Option HS)) (i : Nat) :
    (sl[(place h sl i).2 - i]?).join = none ∧ ((place h sl i).1[(place h sl i).2 - i]?) = some (some h) ∧
    i ≤ (place h sl i).2 := by
  induction sl generalizing i with
  | nil => simp [place]
  | cons x r ih =>
    cases x with
    | none => simp [place]
    | some y =>
      obtain ⟨h1, h2, h3⟩ := ih (i + 1)
      simp only [place]
      have e : (place h r (i + 1)).2 - i = ((place h r (i + 1)).2 - (i + 1)) + 1 := by omega
      refine ⟨?_, ?_, by omega⟩
      · rw [e]; simpa using h1
      · rw [e]; simpa using h2

theorem inv_make (e : EP) (s : Spec) (hi : Inv e) : Inv (make e s).1 := by
  obtain ⟨h1, h2, h3, h4⟩ := hi
  by_cases hc : e.closed = true
  · -- a closed endpoint: the handler waits for its close, nothing else changes
    simp only [make, hc, if_true]
    refine ⟨h1, ?_, h3, ?_⟩
    · intro x hx
      simp only [List.mem_append, List.mem_singleton] at hx
      rcases hx with hx | rfl
      · exact h2 x hx
      · simp [Open]
    · intro u
      have h4u := h4 u
      simp only [occ_append, occ_cons, occ_nil]
      by_cases hu : e.next = u
      · subst hu; simp [ind] at h4u ⊢; omega
      · simp only [ind, hu, if_false]
        by_cases hlt : u < e.next
        · simp [hlt] at h4u; simp [show u < e.next + 1 by omega]; omega
        · simp [hlt] at h4u; simp [show ¬ u < e.next + 1 by omega]; omega
  have hc' : e.closed = false := by simpa using hc
  simp only [make, hc', Bool.false_eq_true, if_false]
  refine ⟨?_, h2, h3, ?_⟩
  · intro x hx
    rcases place_mem _ _ _ x hx with rfl | hx'
    · simp [Open]
    · exact h1 x hx'
  · intro u
    have := place_live { uid := e.next, spec := s } e.slots 0 u
    have h4u := h4 u
    simp only [this]
    by_cases hu : e.next = u
    · subst hu; simp [ind] at h4u ⊢; omega
    · simp only [ind, hu, if_false]
      by_cases hlt : u < e.next
      · simp [hlt] at h4u; simp [show u < e.next + 1 by omega]; omega
      · simp [hlt] at h4u; simp [show ¬ u < e.next + 1 by omega]; omega

/-! ### RemoveHandler -/

theorem takeSlot_live (sl : List (Option HS)) (id : Nat) (h : HS) (sl' : List (Option HS))
    (ht : takeSlot sl id = some (h, sl')) :
    h ∈ live sl ∧ ∀ u, occ u (live sl') + ind h.uid u = occ u (live sl) := by
  induction sl generalizing id sl' with
  | nil => simp [takeSlot] at ht
  | cons x r ih =>
    cases id with
    | zero =>
      cases x with
      | none => simp [takeSlot] at ht
      | some y =>
        simp [takeSlot] at ht; obtain ⟨rfl, rfl⟩ := ht
        exact ⟨by simp, by intro u; simp only [live_cons_none, live_cons_some, occ_cons]; omega⟩
    | succ i =>
      simp only [takeSlot] at ht
      cases hr : takeSlot r i with
      | none => simp [hr] at ht
      | some p =>
        obtain ⟨h', r'⟩ := p
        simp [hr] at ht; obtain ⟨rfl, rfl⟩ := ht
        obtain ⟨hm, ho⟩ := ih i r' hr
        cases x with
        | none => exact ⟨by simpa using hm, by intro u; simpa using ho u⟩
        | some y =>
          refine ⟨by simp only [live_cons_some, List.mem_cons]; exact Or.inr hm, ?_⟩
          intro u; have := ho u; simp only [live_cons_some, occ_cons]; omega

theorem takeSlot_sub (sl : List (Option HS)) (id : Nat) (h : HS) (sl' : List (Option HS))
    (ht : takeSlot sl id = some (h, sl')) : ∀ x ∈ live sl', x ∈ live sl := by
  induction sl generalizing id sl' with
  | nil => simp [takeSlot] at ht
  | cons y r ih =>
    cases id with
    | zero =>
      cases y with
      | none => simp [takeSlot] at ht
      | some z =>
        simp [takeSlot] at ht; obtain ⟨rfl, rfl⟩ := ht
        intro x hx; simp only [live_cons_none] at hx; simp only [live_cons_some, List.mem_cons]; exact Or.inr hx
    | succ i =>
      simp only [takeSlot] at ht
      cases hr : takeSlot r i with
      | none => simp [hr] at ht
      | some p =>
        obtain ⟨h', r'⟩ := p
        simp [hr] at ht; obtain ⟨rfl, rfl⟩ := ht
        intro x hx
        cases y with
        | none => simp only [live_cons_none] at hx ⊢; exact ih i r' hr x hx
        | some z =>
          simp only [live_cons_some, List.mem_cons] at hx ⊢
          rcases hx with hx | hx
          · exact Or.inl hx
          · exact Or.inr (ih i r' hr x hx)

theorem inv_remove (e : EP) (id : Nat) (hi : Inv e) : Inv (remove e id).1 := by
  obtain ⟨h1, h2, h3, h4⟩ := hi
  simp only [remove]
  cases ht : takeSlot e.slots id with
  | none => exact ⟨h1, h2, h3, h4⟩
  | some p =>
    obtain ⟨h, sl⟩ := p
    obtain ⟨hm, ho⟩ := takeSlot_live e.slots id h sl ht
    refine ⟨fun x hx => h1 x (takeSlot_sub e.slots id h sl ht x hx), h2, ?_, ?_⟩
    · intro x hx
      rcases List.mem_append.mp hx with hx | hx
      · exact h3 x hx
      · simp at hx; subst hx; exact close_closed h (h1 h hm)
    · intro u
      have h5 := ho u; have h6 := h4 u
      simp only [occ_append, occ_cons, occ_nil, close_uid]; omega

/-- removing an unknown or already removed handler is reported as an error and changes nothing -/
theorem remove_unknown (e : EP) (id : Nat) (h : (e.slots[id]?).join = none) : remove e id = (e, false) := by
  have : takeSlot e.slots id = none := by
    generalize e.slots = sl at h
    induction sl generalizing id with
    | nil => rfl
    | cons x r ih =>
      cases id with
      | zero => cases x with
        | none => rfl
        | some y => simp at h
      | succ i => simp only [takeSlot]; rw [ih i (by simpa using h)]
  simp [remove, this]

/-! ### dispatch -/

theorem dispatchLoop_props (m : Msg) (sl : List (Option HS)) (errs : Nat) (res : DispatchResult)
    (hopen : ∀ h ∈ live sl, Open h) :
    (∀ h ∈ live (dispatchLoop m sl errs res).1, Open h) ∧
    (∀ h ∈ (dispatchLoop m sl errs res).2.1, Closed h) ∧
    (∀ u, occ u (live (dispatchLoop m sl errs res).1) + occ u (dispatchLoop m sl errs res).2.1 = occ u (live sl)) := by
  induction sl generalizing errs res with
  | nil => simp [dispatchLoop, occ]
  | cons x r ih =>
    cases x with
    | none =>
      have := ih errs res (fun h hh => hopen h (by simpa using hh))
      cases hd : dispatchLoop m r errs res with
      | mk sl rest =>
        obtain ⟨cl, errs', res'⟩ := rest
        rw [hd] at this
        simpa [dispatchLoop, hd] using this
    | some h =>
      have hh : Open h := hopen h (by simp)
      have hr : ∀ y ∈ live r, Open y := fun y hy => hopen y (by simp only [live_cons_some, List.mem_cons]; exact Or.inr hy)
      simp only [dispatchLoop]
      generalize (if (h.spec.matches m && !(h.spec.matches m && decide (h.queued < h.spec.cap)) && m.isCall) = true
        then errs + 1 else errs) = errs1
      generalize (if h.spec.matches m = true then
          if (h.spec.matches m && decide (h.queued < h.spec.cap)) = true then
            if (res == DispatchResult.noMatch) = true then DispatchResult.delivered else res
          else DispatchResult.blocked
        else res) = res1
      obtain ⟨i1, i2, i3⟩ := ih errs1 res1 hr
      generalize hH : (if (h.spec.matches m && decide (h.queued < h.spec.cap)) = true then
          ({ h with queued := h.queued + 1, received := h.received ++ [m.id] } : HS) else h) = h1
      have h1open : Open h1 := by
        rw [← hH]; split <;> exact hh
      have h1uid : h1.uid = h.uid := by rw [← hH]; split <;> rfl
      cases hd : dispatchLoop m r errs1 res1 with
      | mk sl rest =>
        obtain ⟨cl, errs', res'⟩ := rest
        rw [hd] at i1 i2 i3
        simp only at i1 i2 i3 ⊢
        split
        · refine ⟨?_, i2, ?_⟩
          · intro y hy
            simp only [live_cons_some, List.mem_cons] at hy
            rcases hy with rfl | hy
            · exact h1open
            · exact i1 y hy
          · intro u; have := i3 u; simp only [live_cons_some, occ_cons, h1uid]; omega
        · refine ⟨?_, ?_, ?_⟩
          · intro y hy; simp only [live_cons_none] at hy; exact i1 y hy
          · intro y hy
            simp only [List.mem_cons] at hy
            rcases hy with rfl | hy
            · exact close_closed h1 h1open
            · exact i2 y hy
          · intro u; have := i3 u
            simp only [live_cons_none, live_cons_some, occ_cons, close_uid, h1uid]; omega

theorem inv_dispatch (e : EP) (m : Msg) (hi : Inv e) : Inv (dispatch e m).1 := by
  obtain ⟨h1, h2, h3, h4⟩ := hi
  simp only [dispatch]
  split
  · exact ⟨h1, h2, h3, h4⟩
  · obtain ⟨i1, i2, i3⟩ := dispatchLoop_props m e.slots e.errorReplies .noMatch h1
    cases hd : dispatchLoop m e.slots e.errorReplies .noMatch with
    | mk sl rest =>
      obtain ⟨cl, errs', res'⟩ := rest
      rw [hd] at i1 i2 i3
      simp only at i1 i2 i3 ⊢
      refine ⟨i1, h2, ?_, ?_⟩
      · intro x hx
        rcases List.mem_append.mp hx with hx | hx
        · exact h3 x hx
        · exact i2 x hx
      · intro u
        have h5 := i3 u; have h6 := h4 u
        simp only [occ_append]; omega

/-! ### the consumer, Close, the asynchronous closes -/

theorem inv_drain (e : EP) (id k : Nat) (hi : Inv e) : Inv (drain e id k) := by
  obtain ⟨h1, h2, h3, h4⟩ := hi
  -- draining changes `queued` only
  have key : ∀ sl : List (Option HS), ∀ j,
      (∀ h ∈ live sl, Open h) →
      (∀ h ∈ live (sl.mapIdx (fun i s => if i + j = id then s.map (fun h => { h with queued := h.queued - k }) else s)), Open h) ∧
      (∀ u, occ u (live (sl.mapIdx (fun i s => if i + j = id then s.map (fun h => { h with queued := h.queued - k }) else s))) = occ u (live sl)) := by
    intro sl
    induction sl with
    | nil => intro j _; simp [live, occ]
    | cons x r ih =>
      intro j ho
      have hr : ∀ y ∈ live r, Open y := fun y hy => ho y (by
        cases x <;> simp [live] at hy ⊢ <;> first | exact hy | exact Or.inr hy)
      obtain ⟨a1, a2⟩ := ih (j + 1) hr
      have e1 : ∀ i, (i + 1 + j = id) = (i + (j + 1) = id) := by intro i; rw [Nat.add_assoc, Nat.add_comm 1 j]
      simp only [List.mapIdx_cons, Nat.zero_add, e1]
      cases x with
      | none =>
        split <;> (refine ⟨by simpa [live] using a1, by intro u; simpa [live] using a2 u⟩)
      | some y =>
        have hy : Open y := ho y (by simp [live])
        split
        · refine ⟨?_, ?_⟩
          · intro z hz; simp [live] at hz
            rcases hz with rfl | hz
            · exact hy
            · exact a1 z (by simpa [live] using hz)
          · intro u; have := a2 u; simp [live, occ_cons] at this ⊢; omega
        · refine ⟨?_, ?_⟩
          · intro z hz; simp [live] at hz
            rcases hz with rfl | hz
            · exact hy
            · exact a1 z (by simpa [live] using hz)
          · intro u; have := a2 u; simp [live, occ_cons] at this ⊢; omega
  obtain ⟨k1, k2⟩ := key e.slots 0 h1
  simp only [Nat.add_zero] at k1 k2
  exact ⟨k1, h2, h3, fun u => by
    show occ u (live (List.mapIdx _ e.slots)) + occ u e.pending + occ u e.done = _
    rw [k2 u]; exact h4 u⟩

theorem live_map_none (sl : List (Option HS)) : live (sl.map (fun _ => none)) = [] := by
  induction sl with
  | nil => rfl
  | cons x r ih => simpa [live] using ih

theorem inv_closeAll (e : EP) (hi : Inv e) : Inv (closeAll e) := by
  obtain ⟨h1, h2, h3, h4⟩ := hi
  simp only [closeAll]
  refine ⟨by simp [live_map_none], ?_, h3, ?_⟩
  · intro x hx
    rcases List.mem_append.mp hx with hx | hx
    · exact h2 x hx
    · exact h1 x hx
  · intro u
    have := h4 u
    simp only [live_map_none, occ_nil, occ_append]
    simp only [live] at this; omega

theorem occ_filter_ne (u v : Nat) (l : List HS) :
    occ u (l.filter (·.uid != v)) = if u = v then 0 else occ u l := by
  induction l with
  | nil => simp [occ]
  | cons x r ih =>
    simp only [List.filter_cons]
    by_cases hx : x.uid = v
    · have hne : (x.uid != v) = false := by simp [hx]
      simp only [hne, Bool.false_eq_true, if_false, ih, occ_cons]
      by_cases huv : u = v
      · simp [huv]
      · have : ind x.uid u = 0 := ind_ne _ _ (by rw [hx]; exact fun h => huv h.symm)
        simp [huv, this]
    · have hne : (x.uid != v) = true := by simp [hx]
      simp only [hne, if_true, occ_cons, ih]
      by_cases huv : u = v
      · subst huv
        have : ind x.uid u = 0 := ind_ne _ _ hx
        simp [this]
      · simp [huv]

theorem find_some_props (l : List HS) (v : Nat) (h : HS) (hf : l.find? (·.uid == v) = some h) :
    h ∈ l ∧ h.uid = v := by
  have := List.find?_some hf
  exact ⟨List.mem_of_find?_eq_some hf, by simpa using this⟩

theorem inv_async (e : EP) (v : Nat) (hi : Inv e) : Inv (asyncClose e v) := by
  obtain ⟨h1, h2, h3, h4⟩ := hi
  simp only [asyncClose]
  cases hf : e.pending.find? (·.uid == v) with
  | none => exact ⟨h1, h2, h3, h4⟩
  | some h =>
    obtain ⟨hm, hu⟩ := find_some_props e.pending v h hf
    refine ⟨h1, ?_, ?_, ?_⟩
    · intro x hx; exact h2 x (List.mem_filter.mp hx).1
    · intro x hx
      rcases List.mem_append.mp hx with hx | hx
      · exact h3 x hx
      · simp at hx; subst hx; exact close_closed h (h2 h hm)
    · intro u
      have h4u := h4 u
      simp only [occ_filter_ne, occ_append, occ_cons, occ_nil, close_uid, hu]
      by_cases huv : u = v
      · subst huv
        -- the handler occurs exactly once overall, and it is in `pending`
        have hpos : 1 ≤ occ u e.pending := by
          simp only [occ]
          exact List.countP_pos_iff.mpr ⟨h, hm, by simp [hu]⟩
        have hlt : u < e.next := by
          by_cases hl : u < e.next
          · exact hl
          · simp [hl] at h4u; omega
        simp [hlt] at h4u ⊢; omega
      · have : ind v u = 0 := ind_ne _ _ (fun h => huv h.symm)
        simp only [huv, if_false, this]; omega

/-- **Preservation**: every action keeps the invariant -/
theorem inv_step (e : EP) (a : Action) (hi : Inv e) : Inv (step e a) := by
  cases a with
  | make s => exact inv_make e s hi
  | remove id => exact inv_remove e id hi
  | dispatch m => exact inv_dispatch e m hi
  | drain id k => exact inv_drain e id k hi
  | closeAll => exact inv_closeAll e hi
  | async u => exact inv_async e u hi

theorem inv_run (e : EP) (as : List Action) (hi : Inv e) : Inv (run e as) := by
  induction as generalizing e with
  | nil => exact hi
  | cons a r ih => exact ih _ (inv_step e a hi)

/-! ### C17 -/

/-- **Exactly once, in every interleaving.**  After any sequence of registrations, removals,
    incoming messages (with self-removing filters), consumer reads, shutdowns and asynchronous
    closes: a handler's close callback and the close of its queue each ran at most once, the
    callback never without the close, and never both for a handler still in the table. -/
theorem closed_at_most_once (as : List Action) :
    (∀ h ∈ (run {} as).done, h.closer = 1 ∧ h.closed = 1) ∧
    (∀ h ∈ live (run {} as).slots ++ (run {} as).pending, h.closer = 0 ∧ h.closed = 0) := by
  have hi := inv_run {} as inv_init
  refine ⟨fun h hh => ⟨(hi.doneClosed h hh).2, (hi.doneClosed h hh).1⟩, ?_⟩
  intro h hh
  rcases List.mem_append.mp hh with hh | hh
  · exact ⟨(hi.liveOpen h hh).2, (hi.liveOpen h hh).1⟩
  · exact ⟨(hi.pendOpen h hh).2, (hi.pendOpen h hh).1⟩

/-- no handler is lost or duplicated: every handler ever registered is in exactly one place -/
theorem every_handler_accounted (as : List Action) (u : Nat) (hu : u < (run {} as).next) :
    occ u (live (run {} as).slots) + occ u (run {} as).pending + occ u (run {} as).done = 1 := by
  have := (inv_run {} as inv_init).once u
  rw [if_pos hu] at this
  exact this

/-- a message is only ever put into the queue of a handler that is in the table, hence never
    after the queue was closed (no send on a closed channel): handlers in `done` are never
    touched again by `dispatch` -/
theorem done_untouched_by_dispatch (e : EP) (m : Msg) : ∃ l, (dispatch e m).1.done = e.done ++ l := by
  simp only [dispatch]; split
  · exact ⟨[], by simp⟩
  · exact ⟨_, rfl⟩

/-- asynchronous closes never touch the table -/
theorem asyncs_slots (us : List Nat) (e : EP) : (us.foldl asyncClose e).slots = e.slots := by
  induction us generalizing e with
  | nil => rfl
  | cons u r ih =>
    simp only [List.foldl_cons]
    rw [ih]
    simp only [asyncClose]; split <;> rfl

/-- once every scheduled asynchronous close has run, nothing is pending -/
theorem asyncs_drain (us : List Nat) (e : EP) (hi : Inv e) (hall : ∀ h ∈ e.pending, h.uid ∈ us) :
    (us.foldl asyncClose e).pending = [] ∧ Inv (us.foldl asyncClose e) ∧ (us.foldl asyncClose e).next = e.next := by
  induction us generalizing e with
  | nil =>
    refine ⟨?_, hi, rfl⟩
    cases hp : e.pending with
    | nil => simpa using hp
    | cons x r => have := hall x (by simp [hp]); simp at this
  | cons u r ih =>
    have hi'' := inv_async e u hi
    have hnext : (asyncClose e u).next = e.next := by simp only [asyncClose]; split <;> rfl
    have hall' : ∀ h ∈ (asyncClose e u).pending, h.uid ∈ r := by
      intro h hh
      simp only [asyncClose] at hh
      split at hh
      · have hm := List.mem_filter.mp hh
        have := hall h hm.1
        simp at this hm
        rcases this with h1 | h1
        · exact absurd h1 hm.2
        · exact h1
      · rename_i hnone
        have hmem := hall h hh
        simp at hmem
        rcases hmem with h1 | h1
        · have := List.find?_eq_none.mp hnone h hh
          simp [h1] at this
        · exact h1
    obtain ⟨a, b, c⟩ := ih (asyncClose e u) hi'' hall'
    exact ⟨by simpa using a, by simpa using b, by simp only [List.foldl_cons]; rw [c, hnext]⟩

/-- **Progress after shutdown.**  Once the connection is shut down (`closeAll`) and the scheduled
    asynchronous closes have run, every handler registered before the shutdown has been closed
    exactly once: nothing is left in the table or pending. -/
theorem shutdown_closes_everything (e : EP) (hi : Inv e) :
    let e1 := closeAll e
    let e2 := (e1.pending.map (·.uid)).foldl asyncClose e1
    live e2.slots = [] ∧ e2.pending = [] ∧ ∀ u, u < e.next → occ u e2.done = 1 := by
  intro e1 e2
  have hi1 : Inv e1 := inv_closeAll e hi
  obtain ⟨p1, p2, p3⟩ := asyncs_drain (e1.pending.map (·.uid)) e1 hi1 (fun h hh => List.mem_map.mpr ⟨h, hh, rfl⟩)
  have hs : e2.slots = e1.slots := asyncs_slots _ e1
  refine ⟨by rw [hs]; simp [e1, closeAll, live_map_none], p1, ?_⟩
  intro u hu
  have := p2.once u
  have hl : live e2.slots = [] := by rw [hs]; simp [e1, closeAll, live_map_none]
  rw [hl, p1] at this
  have hn : (List.foldl asyncClose e1 (e1.pending.map (·.uid))).next = e.next := by rw [p3]; rfl
  simp only [occ_nil, Nat.zero_add] at this
  rw [hn] at this
  simpa [hu] using this

/-! ### non-vacuity: register, deliver, self-remove, shut down -/

def exSpec : Spec := { modulus := 2, residue := 1, dropOn := 7, cap := 1 }
def exRun : EP :=
  run {} [.make exSpec, .make { exSpec with dropOn := 0 }, .dispatch ⟨3, 7, true⟩, .dispatch ⟨5, 8, true⟩,
    .closeAll, .async 1]

example : (exRun.done.map (fun h => (h.uid, h.closer, h.closed, h.received))) = [(0, 1, 1, [7]), (1, 1, 1, [7])] ∧
    exRun.errorReplies = 1 ∧ exRun.pending.length = 0 := by decide

/-! ### after shutdown nothing is registered any more -/

def AllNone (sl : List (Option HS)) : Prop := ∀ x ∈ sl, x = none

theorem allNone_map (sl : List (Option HS)) : AllNone (sl.map (fun _ => none)) := by
  intro x hx; obtain ⟨_, _, rfl⟩ := List.mem_map.mp hx; rfl

theorem takeSlot_allNone (sl : List (Option HS)) (h : AllNone sl) (id : Nat) : takeSlot sl id = none := by
  induction sl generalizing id with
  | nil => rfl
  | cons x r ih =>
    have hx : x = none := h x (by simp)
    subst hx
    cases id with
    | zero => rfl
    | succ i => simp [takeSlot, ih (fun y hy => h y (by simp [hy])) i]

theorem dispatchLoop_allNone (m : Msg) (sl : List (Option HS)) (h : AllNone sl) (errs : Nat) (res : DispatchResult) :
    AllNone (dispatchLoop m sl errs res).1 ∧ (dispatchLoop m sl errs res).2.1 = [] := by
  induction sl generalizing errs res with
  | nil => simp [dispatchLoop, AllNone]
  | cons x r ih =>
    have hx : x = none := h x (by simp)
    subst hx
    have := ih (fun y hy => h y (by simp [hy])) errs res
    simp only [dispatchLoop]
    refine ⟨?_, this.2⟩
    intro y hy
    simp only [List.mem_cons] at hy
    rcases hy with rfl | hy
    · rfl
    · exact this.1 y hy

theorem drain_allNone (e : EP) (h : AllNone e.slots) (id k : Nat) : AllNone (drain e id k).slots := by
  intro x hx
  simp only [drain, List.mem_mapIdx] at hx
  obtain ⟨i, hi, rfl⟩ := hx
  have : e.slots[i] = none := h _ (List.getElem_mem hi)
  split <;> simp [this]

/-- the state of an endpoint after `closeWith`: closed, and no handler in the table -/
def Shut (e : EP) : Prop := e.closed = true ∧ AllNone e.slots

theorem shut_closeAll (e : EP) : Shut (closeAll e) := ⟨rfl, allNone_map _⟩

theorem shut_step (e : EP) (h : Shut e) (a : Endpoint.Action) : Shut (step e a) := by
  obtain ⟨hc, hn⟩ := h
  cases a with
  | make s => simp only [step, make, hc, if_true]; exact ⟨rfl, hn⟩
  | remove id => simp only [step, remove, takeSlot_allNone e.slots hn id]; exact ⟨hc, hn⟩
  | dispatch m =>
    simp only [step, dispatch]
    split
    · exact ⟨hc, hn⟩
    · have := dispatchLoop_allNone m e.slots hn e.errorReplies .noMatch
      cases hd : dispatchLoop m e.slots e.errorReplies .noMatch with
      | mk sl rest =>
        obtain ⟨cl, errs', res'⟩ := rest
        rw [hd] at this
        exact ⟨hc, this.1⟩
  | drain id k => exact ⟨hc, drain_allNone e hn id k⟩
  | closeAll => exact shut_closeAll e
  | async uid =>
    simp only [step, asyncClose]
    split <;> exact ⟨hc, hn⟩

theorem shut_run (e : EP) (h : Shut e) (as : List Endpoint.Action) : Shut (run e as) := by
  induction as generalizing e with
  | nil => exact h
  | cons a r ih => exact ih (step e a) (shut_step e h a)

/-- **Once the connection is shut, no identifier names a handler again**: whatever is registered,
    removed, dispatched or closed afterwards, `RemoveHandler` of any identifier reports an error
    and runs nobody's close callback — in particular not from inside the critical section of
    another removal.  (Before the repair 136111d a handler registered after the shutdown took the
    first free slot, and the pending closer of the handler that had held that slot removed it:
    `stale_identifier_before_repair`.) -/
theorem after_shutdown_remove_fails (e : EP) (as : List Endpoint.Action) (id : Nat) :
    (remove (run (closeAll e) as) id).2 = false ∧ (remove (run (closeAll e) as) id).1 = run (closeAll e) as := by
  have := shut_run (closeAll e) (shut_closeAll e) as
  simp only [remove, takeSlot_allNone _ this.2 id]
  exact ⟨trivial, trivial⟩

/-- a handler registered after the shutdown is closed (exactly once) as soon as its scheduled close runs -/
theorem registered_after_shutdown_is_closed (e : EP) (hi : Inv e) (hs : Shut e) (s : Spec) :
    (asyncClose (make e s).1 e.next).done = e.done ++ [({ uid := e.next, spec := s } : HS).close] ∧
    Closed ({ uid := e.next, spec := s } : HS).close := by
  have h0 := hi.once e.next
  simp only [Nat.lt_irrefl, if_false] at h0
  have hp : occ e.next e.pending = 0 := by omega
  have hnone : e.pending.find? (fun h => h.uid == e.next) = none := by
    apply List.find?_eq_none.mpr
    intro h hh hq
    have := List.countP_eq_zero.mp hp h hh
    exact this hq
  refine ⟨?_, close_closed _ (by simp [Open])⟩
  simp only [make, hs.1, if_true, asyncClose]
  simp [List.find?_append, hnone]

/-- the table as it was before the repair: registration ignores the shutdown -/
def makeOld (e : EP) (s : Spec) : EP × Nat :=
  let (sl, i) := place { uid := e.next, spec := s } e.slots 0
  ({ e with slots := sl, next := e.next + 1 }, i)

/-- … and the identifier of a handler of the old connection named the new handler: its pending
    closer's `RemoveHandler` found it (and ran its callback inside the critical section) -/
theorem stale_identifier_before_repair :
    let e0 : EP := (make {} ⟨1, 0, 0, 4, false⟩).1          -- a subscription handler in slot 0
    let e1 := closeAll e0                                     -- the connection is lost
    let e2 := (makeOld e1 ⟨1, 0, 0, 4, false⟩).1              -- a queued request registers another one
    (remove e2 0).2 = true ∧ (remove (make e1 ⟨1, 0, 0, 4, false⟩).1 0).2 = false := by decide

/-! ### the shutdown that walks the table outside of the lock -/

/-- the shutdown that walks the table after it has released the lock: the handlers are scheduled for their close, and
    are still in their slots for whoever removes them meanwhile -/
def closeAllLoose (e : EP) : EP :=
  { e with pending := e.pending ++ e.slots.filterMap id, closed := true }

/-- **A sweep outside the lock closes a handler twice**: registered, the shutdown begins (the handler is scheduled for
    its close and still in its slot), its owner removes it (closed once), the scheduled close runs (closed again) — the
    seeded change C17o.  With `closeAll` the same steps close it once (`closed_at_most_once`, `every_handler_accounted`). -/
theorem sweep_outside_the_lock_closes_twice :
    occ 0 (asyncClose (remove (closeAllLoose (make {} ⟨1, 0, 0, 4, false⟩).1) 0).1 0).done = 2 ∧
    occ 0 (asyncClose (remove (closeAll (make {} ⟨1, 0, 0, 4, false⟩).1) 0).1 0).done = 1 := by decide


/-- **A release by slot number closes the newcomer**: a one-shot handler is matched by a dispatch that does not close it
    in the same critical section; its owner removes it, a new handler is given its slot, and the late release — meant for
    the first — closes the second, which nobody removed (the seeded change C10o).  In the model as in the code, `dispatch`
    closes a handler whose filter says `keep = false` inside its own critical section: between the match and the close no
    slot changes hands. -/
theorem release_by_slot_closes_the_newcomer :
    let e1 := (make {} ⟨1, 0, 0, 4, false⟩).1          -- the one-shot handler: registration 0, slot 0
    let e2 := (remove e1 0).1                          -- its owner removes it
    let e3 := (make e2 ⟨1, 0, 0, 4, false⟩).1          -- a new handler: registration 1, the same slot
    let e4 := (remove e3 0).1                          -- the late release of "slot 0"
    (make e2 ⟨1, 0, 0, 4, false⟩).2 = 0 ∧ occ 1 (live e3.slots) = 1 ∧ occ 1 (live e4.slots) = 0 ∧ occ 1 e4.done = 1 := by
  decide


end QiVerif.C17
