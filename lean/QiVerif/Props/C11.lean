/-
  C11 — losing the connection fails calls promptly instead of hanging them.
  Theorems about Model/Client.lean (the client's call / subscribe / disconnect-callback
  machine on top of the handler table of C17), for every sequence of actions = every
  interleaving and every position of the fault.
-/
import QiVerif.Props.C17
import QiVerif.Props.C10
import QiVerif.Model.Client
set_option linter.unusedSimpArgs false
set_option linter.unusedVariables false
set_option linter.unnecessarySimpa false
namespace QiVerif.C11
open QiVerif QiVerif.Endpoint QiVerif.Client QiVerif.C17

/-! ### how the table operations extend the table -/

/-- `e'` extends `e`: registration numbers only grow, and a handler registered in `e` that has
    left the table does not come back -/
def Ext (e e' : EP) : Prop :=
  e.next ≤ e'.next ∧ ∀ u, u < e.next → occ u (live e'.slots) ≤ occ u (live e.slots)

theorem Ext.refl (e : EP) : Ext e e := ⟨Nat.le_refl _, fun _ _ => Nat.le_refl _⟩
theorem Ext.trans {a b c : EP} (h1 : Ext a b) (h2 : Ext b c) : Ext a c :=
  ⟨Nat.le_trans h1.1 h2.1, fun u hu => Nat.le_trans (h2.2 u (Nat.lt_of_lt_of_le hu h1.1)) (h1.2 u hu)⟩

theorem make_next (e : EP) (s : Spec) : (make e s).1.next = e.next + 1 := by
  unfold make; split <;> rfl

theorem ext_make (e : EP) (s : Spec) : Ext e (make e s).1 := by
  refine ⟨by rw [make_next]; omega, fun u hu => ?_⟩
  by_cases hc : e.closed = true
  · simp only [make, hc, if_true]; exact Nat.le_refl _
  · have hc' : e.closed = false := by simpa using hc
    have := place_live { uid := e.next, spec := s } e.slots 0 u
    simp only [make, hc', Bool.false_eq_true, if_false]
    rw [this, ind_ne _ _ (by simp; omega)]; omega

theorem ext_remove (e : EP) (id : Nat) : Ext e (remove e id).1 := by
  simp only [remove]
  cases ht : takeSlot e.slots id with
  | none => exact Ext.refl e
  | some p =>
    obtain ⟨h, sl⟩ := p
    refine ⟨Nat.le_refl _, fun u _ => ?_⟩
    have := (takeSlot_live e.slots id h sl ht).2 u
    simp only; omega

theorem ext_dispatch (e : EP) (m : Msg) (hi : Inv e) : Ext e (dispatch e m).1 := by
  simp only [dispatch]
  split
  · exact Ext.refl e
  · obtain ⟨_, _, i3⟩ := dispatchLoop_props m e.slots e.errorReplies .noMatch hi.liveOpen
    cases hd : dispatchLoop m e.slots e.errorReplies .noMatch with
    | mk sl rest =>
      obtain ⟨cl, errs', res'⟩ := rest
      rw [hd] at i3
      refine ⟨Nat.le_refl _, fun u _ => ?_⟩
      have := i3 u
      simp only at this ⊢; omega

theorem ext_closeAll (e : EP) : Ext e (closeAll e) :=
  ⟨Nat.le_refl _, fun u _ => by simp [closeAll, live_map_none, occ_nil]⟩

theorem ext_async (e : EP) (u : Nat) : Ext e (asyncClose e u) := by
  simp only [asyncClose]; split
  · exact ⟨Nat.le_refl _, fun _ _ => Nat.le_refl _⟩
  · exact Ext.refl e

theorem closeAll_live (e : EP) : live (closeAll e).slots = [] := by simp [closeAll, live_map_none]


/-! ### the client machine -/

/-- the registration number of the reply handler of a call that has not returned yet -/
def uidOf (c : Call) : Option Nat :=
  match c.phase with
  | .writing u _ => some u
  | .waiting u => some u
  | .cancelling u => some u
  | .finished _ => none

structure WInv (w : W) : Prop where
  ep : Inv w.ep
  reg : ∀ c ∈ w.calls, ∀ u, uidOf c = some u → u < w.ep.next
  subs : ∀ s ∈ w.subs, s.uid < w.ep.next
  cbs : ∀ u ∈ w.cbs, u < w.ep.next
  deadClosed : w.readDead = true → w.closed = true
  /-- once the stream has been closed, no call that is still running has its handler in the table -/
  gone : w.closed = true → ∀ c ∈ w.calls, ∀ u, uidOf c = some u → occ u (live w.ep.slots) = 0

theorem wInv_init : WInv {} :=
  ⟨inv_init, by simp, by simp, by simp, by simp, by simp⟩

theorem step_inv (w : W) (a : Client.Action) (hi : Inv w.ep) : Inv (Client.step w a).ep := by
  cases a with
  | startCall =>
    simp only [Client.step, startCall]
    split
    · exact inv_make _ _ hi
    · exact inv_remove _ _ (inv_make _ _ hi)
  | writeOk c => simp only [Client.step, writeOk]; split <;> exact hi
  | writeFail c =>
    simp only [Client.step, writeFail]; split
    · exact inv_remove _ _ hi
    · exact hi
    · exact hi
  | cancel c =>
    simp only [Client.step, cancel]; split
    · split <;> exact hi
    · exact hi
  | deliver m => simp only [Client.step, deliver]; split; exact hi; exact inv_dispatch _ _ hi
  | readFail => simp only [Client.step, readFail]; split; exact hi; exact inv_closeAll _ hi
  | localClose => exact inv_closeAll _ hi
  | async u => exact inv_async _ _ hi
  | subscribe a => exact inv_make _ _ hi
  | onDisconnect => exact inv_make _ _ hi
  | settle => exact hi

theorem step_ext (w : W) (a : Client.Action) (hi : Inv w.ep) : Ext w.ep (Client.step w a).ep := by
  cases a with
  | startCall =>
    simp only [Client.step, startCall]
    split
    · exact ext_make _ _
    · exact (ext_make _ _).trans (ext_remove _ _)
  | writeOk c => simp only [Client.step, writeOk]; split <;> exact Ext.refl _
  | writeFail c =>
    simp only [Client.step, writeFail]; split
    · exact ext_remove _ _
    · exact Ext.refl _
    · exact Ext.refl _
  | cancel c =>
    simp only [Client.step, cancel]; split
    · split <;> exact Ext.refl _
    · exact Ext.refl _
  | deliver m => simp only [Client.step, deliver]; split; exact Ext.refl _; exact ext_dispatch _ _ hi
  | readFail => simp only [Client.step, readFail]; split; exact Ext.refl _; exact ext_closeAll _
  | localClose => exact ext_closeAll _
  | async u => exact ext_async _ _
  | subscribe a => exact ext_make _ _
  | onDisconnect => exact ext_make _ _
  | settle => exact Ext.refl _

theorem settleCall_uid (e : EP) (c : Call) (u : Nat) (h : uidOf (settleCall e c) = some u) : uidOf c = some u := by
  unfold settleCall at h
  split at h
  · split at h
    · split at h <;> simp [uidOf] at h
    · exact h
  · exact h

/-- a running call of the next state was already running with the same handler, or it is the call
    just started on a stream that was still usable -/
theorem step_calls (w : W) (a : Client.Action) :
    ∀ c' ∈ (Client.step w a).calls, ∀ u, uidOf c' = some u →
      (∃ c ∈ w.calls, uidOf c = some u) ∨ (u = w.ep.next ∧ w.closed = false ∧ (Client.step w a).ep.next = w.ep.next + 1 ∧ (Client.step w a).closed = false) := by
  intro c' hc' u hu
  have setCase : ∀ (i : Nat) (k : Nat) (p p' : Phase), w.calls[i]? = some ⟨k, p⟩ → c' ∈ w.calls.set i ⟨k, p'⟩ →
      (uidOf ⟨k, p'⟩ = some u → uidOf ⟨k, p⟩ = some u) → ∃ c ∈ w.calls, uidOf c = some u := by
    intro i k p p' hget hmem himp
    rcases List.mem_or_eq_of_mem_set hmem with h | h
    · exact ⟨c', h, hu⟩
    · subst h; exact ⟨⟨k, p⟩, List.mem_of_getElem? hget, himp hu⟩
  cases a with
  | startCall =>
    simp only [Client.step, startCall] at hc' ⊢
    split at hc'
    · rename_i hcw
      rcases List.mem_append.mp hc' with h | h
      · exact Or.inl ⟨c', h, hu⟩
      · simp at h; subst h
        simp [uidOf] at hu
        refine Or.inr ⟨hu.symm, ?_, ?_, ?_⟩
        · simp [W.canWrite] at hcw; exact hcw.1
        · simp [hcw, make_next]
        · simp [hcw]; simp [W.canWrite] at hcw; exact hcw.1
    · rcases List.mem_append.mp hc' with h | h
      · exact Or.inl ⟨c', h, hu⟩
      · simp at h; subst h; simp [uidOf] at hu
  | writeOk c =>
    simp only [Client.step, writeOk] at hc'
    split at hc'
    · rename_i k uid sl hget
      exact Or.inl (setCase c k _ _ hget hc' (by simp [uidOf]))
    · rename_i k uid hget
      exact Or.inl (setCase c k _ _ hget hc' (by simp [uidOf]))
    · exact Or.inl ⟨c', hc', hu⟩
  | writeFail c =>
    simp only [Client.step, writeFail] at hc'
    split at hc'
    · rename_i k uid sl hget
      exact Or.inl (setCase c k _ _ hget hc' (by simp [uidOf]))
    · rename_i k uid hget
      exact Or.inl (setCase c k _ _ hget hc' (by simp [uidOf]))
    · exact Or.inl ⟨c', hc', hu⟩
  | cancel c =>
    simp only [Client.step, cancel] at hc'
    split at hc'
    · rename_i k uid hget
      split at hc'
      · exact Or.inl (setCase c k _ _ hget hc' (by simp [uidOf]))
      · exact Or.inl (setCase c k _ _ hget hc' (by simp [uidOf]))
    · exact Or.inl ⟨c', hc', hu⟩
  | deliver m => simp only [Client.step, deliver] at hc'; split at hc' <;> exact Or.inl ⟨c', hc', hu⟩
  | readFail => simp only [Client.step, readFail] at hc'; split at hc' <;> exact Or.inl ⟨c', hc', hu⟩
  | localClose => exact Or.inl ⟨c', hc', hu⟩
  | async v => exact Or.inl ⟨c', hc', hu⟩
  | subscribe a => exact Or.inl ⟨c', hc', hu⟩
  | onDisconnect => exact Or.inl ⟨c', hc', hu⟩
  | settle =>
    simp only [Client.step, settle, List.mem_map] at hc'
    obtain ⟨c, hc, rfl⟩ := hc'
    exact Or.inl ⟨c, hc, settleCall_uid _ _ _ hu⟩


theorem step_closes (w : W) (a : Client.Action) (h0 : w.closed = false) (h1 : (Client.step w a).closed = true) :
    live (Client.step w a).ep.slots = [] := by
  cases a with
  | startCall => simp only [Client.step, startCall] at h1; split at h1 <;> simp [h0] at h1
  | writeOk c => simp only [Client.step, writeOk] at h1; split at h1 <;> simp [h0] at h1
  | writeFail c => simp only [Client.step, writeFail] at h1; split at h1 <;> simp [h0] at h1
  | cancel c =>
    simp only [Client.step, cancel] at h1
    split at h1
    · split at h1 <;> simp [h0] at h1
    · simp [h0] at h1
  | deliver m => simp only [Client.step, deliver] at h1; split at h1 <;> simp [h0] at h1
  | readFail =>
    simp only [Client.step, readFail] at h1 ⊢
    split at h1
    · simp [h0] at h1
    · rename_i hd; simp only [hd]; exact closeAll_live _
  | localClose => exact closeAll_live _
  | async u => simp [Client.step, asyncStep, h0] at h1
  | subscribe a => simp [Client.step, subscribe, h0] at h1
  | onDisconnect => simp [Client.step, onDisconnect, h0] at h1
  | settle => simp [Client.step, settle, h0] at h1

theorem settleSub_uid (e : EP) (s : Sub) : (settleSub e s).uid = s.uid := by
  unfold settleSub; split
  · rfl
  · split <;> rfl

/-- a subscription / callback of the next state existed before, or was registered by this step -/
theorem step_subs (w : W) (a : Client.Action) :
    ∀ s' ∈ (Client.step w a).subs, (∃ s ∈ w.subs, s.uid = s'.uid) ∨ (s'.uid = w.ep.next ∧ (Client.step w a).ep.next = w.ep.next + 1) := by
  intro s' hs'
  cases a with
  | startCall => simp only [Client.step, startCall] at hs'; split at hs' <;> exact Or.inl ⟨s', hs', rfl⟩
  | writeOk c => simp only [Client.step, writeOk] at hs'; split at hs' <;> exact Or.inl ⟨s', hs', rfl⟩
  | writeFail c => simp only [Client.step, writeFail] at hs'; split at hs' <;> exact Or.inl ⟨s', hs', rfl⟩
  | cancel c =>
    simp only [Client.step, cancel] at hs'
    split at hs'
    · split at hs' <;> exact Or.inl ⟨s', hs', rfl⟩
    · exact Or.inl ⟨s', hs', rfl⟩
  | deliver m => simp only [Client.step, deliver] at hs'; split at hs' <;> exact Or.inl ⟨s', hs', rfl⟩
  | readFail => simp only [Client.step, readFail] at hs'; split at hs' <;> exact Or.inl ⟨s', hs', rfl⟩
  | localClose => exact Or.inl ⟨s', hs', rfl⟩
  | async u => exact Or.inl ⟨s', hs', rfl⟩
  | subscribe a =>
    simp only [Client.step, subscribe] at hs' ⊢
    rcases List.mem_append.mp hs' with h | h
    · exact Or.inl ⟨s', h, rfl⟩
    · simp at h; subst h; exact Or.inr ⟨rfl, make_next _ _⟩
  | onDisconnect => exact Or.inl ⟨s', hs', rfl⟩
  | settle =>
    simp only [Client.step, settle, List.mem_map] at hs'
    obtain ⟨s, hs, rfl⟩ := hs'
    exact Or.inl ⟨s, hs, (settleSub_uid _ _).symm⟩

theorem step_cbs (w : W) (a : Client.Action) :
    ∀ u ∈ (Client.step w a).cbs, u ∈ w.cbs ∨ (u = w.ep.next ∧ (Client.step w a).ep.next = w.ep.next + 1) := by
  intro u hu
  cases a with
  | startCall => simp only [Client.step, startCall] at hu; split at hu <;> exact Or.inl hu
  | writeOk c => simp only [Client.step, writeOk] at hu; split at hu <;> exact Or.inl hu
  | writeFail c => simp only [Client.step, writeFail] at hu; split at hu <;> exact Or.inl hu
  | cancel c =>
    simp only [Client.step, cancel] at hu
    split at hu
    · split at hu <;> exact Or.inl hu
    · exact Or.inl hu
  | deliver m => simp only [Client.step, deliver] at hu; split at hu <;> exact Or.inl hu
  | readFail => simp only [Client.step, readFail] at hu; split at hu <;> exact Or.inl hu
  | localClose => exact Or.inl hu
  | async v => exact Or.inl hu
  | subscribe a => exact Or.inl hu
  | onDisconnect =>
    simp only [Client.step, onDisconnect] at hu ⊢
    rcases List.mem_append.mp hu with h | h
    · exact Or.inl h
    · simp at h; subst h; exact Or.inr ⟨rfl, make_next _ _⟩
  | settle => exact Or.inl hu

theorem step_dead (w : W) (a : Client.Action) (h : w.readDead = true → w.closed = true) :
    (Client.step w a).readDead = true → (Client.step w a).closed = true := by
  cases a with
  | startCall => simp only [Client.step, startCall]; split <;> exact h
  | writeOk c => simp only [Client.step, writeOk]; split <;> exact h
  | writeFail c => simp only [Client.step, writeFail]; split <;> exact h
  | cancel c =>
    simp only [Client.step, cancel]
    split
    · split <;> exact h
    · exact h
  | deliver m => simp only [Client.step, deliver]; split <;> exact h
  | readFail => simp only [Client.step, readFail]; split; exact h; intro _; rfl
  | localClose => intro _; rfl
  | async u => exact h
  | subscribe a => exact h
  | onDisconnect => exact h
  | settle => exact h

/-- **Preservation**: every action of the client machine keeps the invariant -/
theorem wInv_step (w : W) (a : Client.Action) (h : WInv w) : WInv (Client.step w a) := by
  have hext := step_ext w a h.ep
  refine ⟨step_inv w a h.ep, ?_, ?_, ?_, step_dead w a h.deadClosed, ?_⟩
  · intro c' hc' u hu
    rcases step_calls w a c' hc' u hu with ⟨c, hc, hcu⟩ | ⟨rfl, _, hn, _⟩
    · exact Nat.lt_of_lt_of_le (h.reg c hc u hcu) hext.1
    · omega
  · intro s' hs'
    rcases step_subs w a s' hs' with ⟨s, hs, hsu⟩ | ⟨hu, hn⟩
    · rw [← hsu]; exact Nat.lt_of_lt_of_le (h.subs s hs) hext.1
    · omega
  · intro u hu
    rcases step_cbs w a u hu with hu | ⟨rfl, hn⟩
    · exact Nat.lt_of_lt_of_le (h.cbs u hu) hext.1
    · omega
  · intro hcl c' hc' u hu
    rcases step_calls w a c' hc' u hu with ⟨c, hc, hcu⟩ | ⟨_, _, _, hnc⟩
    · cases hw : w.closed with
      | true =>
        have := h.gone hw c hc u hcu
        have := hext.2 u (h.reg c hc u hcu)
        omega
      | false => rw [step_closes w a hw hcl]; rfl
    · rw [hcl] at hnc; cases hnc

theorem wInv_run (w : W) (as : List Client.Action) (h : WInv w) : WInv (Client.run w as) := by
  induction as generalizing w with
  | nil => exact h
  | cons a r ih => exact ih _ (wInv_step w a h)


/-! ### C11 -/

theorem settleCall_finished (e : EP) (k : Nat) (o : Outcome) : settleCall e ⟨k, .finished o⟩ = ⟨k, .finished o⟩ := rfl

/-- **At most one outcome, and it is final**: once a call has returned, no action changes what it
    returned -/
theorem outcome_is_final (w : W) (a : Client.Action) (c k : Nat) (o : Outcome)
    (h : w.calls[c]? = some ⟨k, .finished o⟩) : (Client.step w a).calls[c]? = some ⟨k, .finished o⟩ := by
  have setCase : ∀ (i k' : Nat) (p p' : Phase), w.calls[i]? = some ⟨k', p⟩ → (∀ o', p ≠ .finished o') →
      (w.calls.set i ⟨k', p'⟩)[c]? = some ⟨k, .finished o⟩ := by
    intro i k' p p' hget hne
    have : i ≠ c := by
      intro hic; subst hic; rw [h] at hget; injection hget with hget; injection hget with _ hp
      exact hne o hp.symm
    rw [List.getElem?_set_ne this]; exact h
  cases a with
  | startCall =>
    have hlt : c < w.calls.length := by
      rcases Nat.lt_or_ge c w.calls.length with hh | hh
      · exact hh
      · rw [List.getElem?_eq_none hh] at h; cases h
    simp only [Client.step, startCall]
    split <;> (simp only []; rw [List.getElem?_append_left hlt]; exact h)
  | writeOk i =>
    simp only [Client.step, writeOk]; split
    · rename_i k' u sl hget; exact setCase i k' _ _ hget (by intro o' hh; cases hh)
    · rename_i k' u hget; exact setCase i k' _ _ hget (by intro o' hh; cases hh)
    · exact h
  | writeFail i =>
    simp only [Client.step, writeFail]; split
    · rename_i k' u sl hget; exact setCase i k' _ _ hget (by intro o' hh; cases hh)
    · rename_i k' u hget; exact setCase i k' _ _ hget (by intro o' hh; cases hh)
    · exact h
  | cancel i =>
    simp only [Client.step, cancel]; split
    · rename_i k' u hget
      split <;> exact setCase i k' _ _ hget (by intro o' hh; cases hh)
    · exact h
  | deliver m => simp only [Client.step, deliver]; split <;> exact h
  | readFail => simp only [Client.step, readFail]; split <;> exact h
  | localClose => exact h
  | async u => exact h
  | subscribe a => exact h
  | onDisconnect => exact h
  | settle =>
    simp only [Client.step, settle, List.getElem?_map, h, Option.map_some, settleCall_finished]

theorem outcome_is_final_run (w : W) (as : List Client.Action) (c k : Nat) (o : Outcome)
    (h : w.calls[c]? = some ⟨k, .finished o⟩) : (Client.run w as).calls[c]? = some ⟨k, .finished o⟩ := by
  induction as generalizing w with
  | nil => exact h
  | cons a r ih => exact ih _ (outcome_is_final w a c k o h)

/-- **Later calls fail**: on a stream that has been closed, or on which a `Write` has failed, a
    new call returns an error at once (and leaves no handler behind, see `wInv_step`) -/
theorem late_call_fails (w : W) (h : w.closed = true ∨ w.writeDead = true) :
    (startCall w).calls = w.calls ++ [⟨w.nextId, .finished .failed⟩] := by
  have : w.canWrite = false := by rcases h with h | h <;> simp [W.canWrite, h]
  simp [startCall, this]

theorem find_of_occ (u : Nat) (l : List HS) (h : occ u l = 1) : ∃ x, l.find? (·.uid == u) = some x ∧ x ∈ l := by
  induction l with
  | nil => simp [occ] at h
  | cons y r ih =>
    by_cases hy : y.uid = u
    · exact ⟨y, by simp [List.find?_cons, hy], by simp⟩
    · rw [occ_cons, ind_ne _ _ hy] at h
      obtain ⟨x, hx, hm⟩ := ih (by omega)
      exact ⟨x, by simp [List.find?_cons, hy, hx], by simp [hm]⟩

theorem find_unique (u : Nat) (l : List HS) (x : HS) (hx : x ∈ l) (hu : x.uid = u) (h : occ u l ≤ 1) :
    l.find? (·.uid == u) = some x := by
  induction l with
  | nil => cases hx
  | cons y r ih =>
    rw [occ_cons] at h
    by_cases hy : y.uid = u
    · rcases List.mem_cons.mp hx with rfl | hxr
      · simp [List.find?_cons, hu]
      · have : 1 ≤ occ u r := by
          unfold occ
          exact List.countP_pos_iff.mpr ⟨x, hxr, by rw [hu]; exact beq_self_eq_true u⟩
        simp [ind, hy] at h; omega
    · rcases List.mem_cons.mp hx with rfl | hxr
      · exact absurd hu hy
      · rw [ind_ne _ _ hy] at h
        simp [List.find?_cons, hy]; exact ih hxr (by omega)

/-- the state of the table once the connection is lost and the scheduled closes have run -/
theorem lose_ep (w : W) (h : WInv w) :
    (lose w).ep.pending = [] ∧ Inv (lose w).ep ∧ (lose w).ep.next = w.ep.next ∧
    (lose w).ep.slots = (readFail w).ep.slots ∧ (readFail w).closed = true := by
  have h1 : WInv (readFail w) := wInv_step w .readFail h
  obtain ⟨p1, p2, p3⟩ := asyncs_drain ((readFail w).ep.pending.map (·.uid)) (readFail w).ep h1.ep
    (fun x hx => List.mem_map.mpr ⟨x, hx, rfl⟩)
  have hs := asyncs_slots ((readFail w).ep.pending.map (·.uid)) (readFail w).ep
  have hn : (readFail w).ep.next = w.ep.next := by simp only [readFail]; split <;> rfl
  have hc : (readFail w).closed = true := by
    simp only [readFail]; split
    · rename_i hd; exact h.deadClosed hd
    · rfl
  exact ⟨p1, p2, by rw [← hn]; exact p3, hs, hc⟩

/-- every running call's handler has been closed once the connection is lost -/
theorem lose_done (w : W) (h : WInv w) (c : Call) (hc : c ∈ w.calls) (u : Nat) (hu : uidOf c = some u) :
    ∃ x, (lose w).ep.done.find? (·.uid == u) = some x := by
  obtain ⟨p1, p2, p3, p4, p5⟩ := lose_ep w h
  have h1 : WInv (readFail w) := wInv_step w .readFail h
  have hcalls : (readFail w).calls = w.calls := by simp only [readFail]; split <;> rfl
  have hg := h1.gone p5 c (by rw [hcalls]; exact hc) u hu
  have ho := p2.once u
  have hlt : u < (lose w).ep.next := by rw [p3]; exact h.reg c hc u hu
  rw [p1, p4, hg, if_pos hlt] at ho
  simp only [occ_nil] at ho
  obtain ⟨x, hx, _⟩ := find_of_occ u (lose w).ep.done (by omega)
  exact ⟨x, hx⟩

/-- **No call hangs.**  From every reachable state: once the reading goroutine sees the failure
    (error or end of file at any byte, or the local `Close`) and the scheduled closes have run,
    no call is left in its `select` — each has returned its reply (when one had been queued) or
    an error. -/
theorem no_call_left_waiting (w : W) (h : WInv w) :
    ∀ c ∈ (lose w).calls, ∀ u, c.phase ≠ .waiting u := by
  intro c hc u hp
  have hcalls : (readFail w).calls = w.calls := by simp only [readFail]; split <;> rfl
  simp only [lose, settle, runAsyncs, List.mem_map] at hc
  obtain ⟨c0, hc0, rfl⟩ := hc
  rw [hcalls] at hc0
  unfold settleCall at hp
  split at hp
  · rename_i u0 hph
    obtain ⟨x, hx⟩ := lose_done w h c0 hc0 u0 (by simp [uidOf, hph])
    simp only [lose, settle, runAsyncs] at hx
    rw [hx] at hp
    dsimp only at hp
    split at hp <;> cases hp
  · rename_i hne; exact hne u hp

/-- a call whose `Send` is still inside `Write` when the connection is lost returns as soon as
    that `Write` returns — with an error if it fails, and, if it succeeds after all, with what
    its (already closed) handler holds -/
theorem writing_call_returns (w : W) (h : WInv w) (c k uid slot : Nat)
    (hc : (lose w).calls[c]? = some ⟨k, .writing uid slot⟩) :
    (∃ o, (settle (writeOk (lose w) c)).calls[c]? = some ⟨k, .finished o⟩) ∧
    (writeFail (lose w) c).calls[c]? = some ⟨k, .finished .failed⟩ := by
  have hlt : c < (lose w).calls.length := by
    rcases Nat.lt_or_ge c (lose w).calls.length with hh | hh
    · exact hh
    · rw [List.getElem?_eq_none hh] at hc; cases hc
  constructor
  · -- the call was already writing before the loss
    have hcalls : (readFail w).calls = w.calls := by simp only [readFail]; split <;> rfl
    have hc' := hc
    simp only [lose, settle, runAsyncs, List.getElem?_map, hcalls] at hc'
    cases hw : w.calls[c]? with
    | none => rw [hw] at hc'; cases hc'
    | some c0 =>
      rw [hw] at hc'
      simp only [Option.map_some] at hc'
      injection hc' with hc'
      have huid : uidOf c0 = some uid := by
        have := settleCall_uid (List.foldl asyncClose (readFail w).ep ((readFail w).ep.pending.map (·.uid))) c0 uid
          (by rw [hc']; rfl)
        exact this
      obtain ⟨x, hx⟩ := lose_done w h c0 (List.mem_of_getElem? hw) uid huid
      simp only [writeOk, hc, settle, List.getElem?_map, List.getElem?_set_self hlt, Option.map_some]
      simp only [settleCall, hx]
      split
      · exact ⟨_, rfl⟩
      · exact ⟨_, rfl⟩
  · simp only [writeFail, hc, List.getElem?_set_self hlt]

/-- **Disconnect callbacks fire exactly once** and **subscription channels are closed**: for
    every callback and subscription registered before the reading goroutine saw the failure -/
theorem callbacks_once_subscriptions_closed (w : W) (h : WInv w) (hd : w.readDead = false) :
    (∀ u ∈ w.cbs, ∃ x, (lose w).ep.done.find? (·.uid == u) = some x ∧ x.closer = 1 ∧ x.closed = 1 ∧
        occ u (lose w).ep.done = 1) ∧
    (∀ s ∈ (lose w).subs, s.eventsClosed = true) := by
  obtain ⟨p1, p2, p3, p4, p5⟩ := lose_ep w h
  have hlive : live (lose w).ep.slots = [] := by
    rw [p4]; simp only [readFail, hd]; exact closeAll_live _
  have hdone : ∀ u, u < w.ep.next → occ u (lose w).ep.done = 1 := by
    intro u hu
    have := p2.once u
    rw [p1, hlive, p3, if_pos hu] at this
    simpa [occ_nil] using this
  constructor
  · intro u hu
    have ho := hdone u (h.cbs u hu)
    obtain ⟨x, hx, hm⟩ := find_of_occ u _ ho
    have := p2.doneClosed x hm
    exact ⟨x, hx, this.2, this.1, ho⟩
  · intro s hs
    have hsubs : (readFail w).subs = w.subs := by simp only [readFail]; split <;> rfl
    simp only [lose, settle, runAsyncs, List.mem_map] at hs
    obtain ⟨s0, hs0, rfl⟩ := hs
    rw [hsubs] at hs0
    have ho := hdone s0.uid (h.subs s0 hs0)
    obtain ⟨x, hx, _⟩ := find_of_occ s0.uid _ ho
    have hl : live (List.foldl asyncClose (readFail w).ep ((readFail w).ep.pending.map (·.uid))).slots = [] := hlive
    have hp : (List.foldl asyncClose (readFail w).ep ((readFail w).ep.pending.map (·.uid))).pending = [] := p1
    have hx' : (List.foldl asyncClose (readFail w).ep ((readFail w).ep.pending.map (·.uid))).done.find? (·.uid == s0.uid) = some x := hx
    unfold settleSub
    simp only [live] at hl
    rw [hl, hp, hx']
    simp


/-! ### the early reply -/

/-- a handler whose filter answers keep = false for `m` is closed by this dispatch, holding
    what it was offered -/
theorem dispatchLoop_closes (m : Msg) (sl : List (Option HS)) (errs : Nat) (res : DispatchResult) (i : Nat) (h : HS)
    (hs : sl[i]? = some (some h)) (hk : h.spec.keeps m = false) :
    (C10.offerTo h m).close ∈ (dispatchLoop m sl errs res).2.1 := by
  induction sl generalizing i errs res with
  | nil => simp at hs
  | cons x r ih =>
    cases i with
    | zero =>
      simp at hs; subst hs
      simp only [dispatchLoop, hk, C10.offerTo]
      simp
    | succ j =>
      have hs' : r[j]? = some (some h) := by simpa using hs
      cases x with
      | none =>
        simp only [dispatchLoop]
        exact ih errs res j hs'
      | some y =>
        simp only [dispatchLoop]
        split
        · exact ih _ _ j hs'
        · exact List.mem_cons_of_mem _ (ih _ _ j hs')

/-- **A reply that arrives before `Send` has returned is still delivered to its caller.**
    The call's handler is in the table from before the `Write`; when the reply is dispatched
    while the call is still inside `Send`, and `Send` then returns, the call returns that reply. -/
theorem early_reply (w : W) (hw : WInv w) (c k uid slot : Nat) (h : HS)
    (hc : w.calls[c]? = some ⟨k, .writing uid slot⟩)
    (halive : w.readDead = false ∧ w.closed = false)
    (hs : w.ep.slots[slot]? = some (some h)) (huid : h.uid = uid) (hspec : h.spec = callSpec k)
    (hq : h.queued = 0) (hr : h.received = []) (hk : 0 < k ∧ k < M) :
    (settle (writeOk (deliver w (replyMsg k)) c)).calls[c]? = some ⟨k, .finished (.reply k)⟩ := by
  have hlt : c < w.calls.length := by
    rcases Nat.lt_or_ge c w.calls.length with hh | hh
    · exact hh
    · rw [List.getElem?_eq_none hh] at hc; cases hc
  have hkeep : h.spec.keeps (replyMsg k) = false := by
    have := Nat.mod_eq_of_lt hk.2
    simp [hspec, callSpec, Spec.keeps, Spec.matches, replyMsg, this]
    refine ⟨by omega, by decide⟩
  have hoffer : (C10.offerTo h (replyMsg k)).received = [k] := by
    have hm : h.spec.matches (replyMsg k) = true := by
      have := Nat.mod_eq_of_lt hk.2
      simp [hspec, callSpec, Spec.matches, replyMsg, this]; decide
    have hcap : h.spec.cap = 1 := by rw [hspec]; rfl
    simp only [C10.offerTo, hm, hq, hcap, hr]
    simp [replyMsg]
  have hdel : deliver w (replyMsg k) = { w with ep := (dispatch w.ep (replyMsg k)).1 } := by
    simp [deliver, halive.1, halive.2]
  have hne : w.ep.slots.isEmpty = false := by
    cases hsl : w.ep.slots with
    | nil => rw [hsl] at hs; simp at hs
    | cons _ _ => rfl
  have hmem : (C10.offerTo h (replyMsg k)).close ∈ (dispatch w.ep (replyMsg k)).1.done := by
    simp only [dispatch, hne]
    exact List.mem_append_right _ (dispatchLoop_closes _ _ _ _ slot h hs hkeep)
  have hinv : Inv (dispatch w.ep (replyMsg k)).1 := inv_dispatch _ _ hw.ep
  have hnext : (dispatch w.ep (replyMsg k)).1.next = w.ep.next := by
    simp only [dispatch]; split <;> rfl
  have hocc : occ uid (dispatch w.ep (replyMsg k)).1.done ≤ 1 := by
    have := hinv.once uid
    rw [hnext] at this
    split at this <;> omega
  have hfind := find_unique uid _ _ hmem (by rw [close_uid]; simp [C10.offerTo]; split <;> exact huid) hocc
  rw [hdel]
  simp only [writeOk, hc, settle, List.getElem?_map, List.getElem?_set_self hlt, Option.map_some, settleCall, hfind]
  simp [HS.close, hoffer]

/-! ### non-vacuity: two calls, one answered early, the other pending when the connection is lost -/

def exW : W :=
  Client.run {} [.onDisconnect, .subscribe 1, .startCall, .startCall, .deliver (replyMsg 3), .writeOk 0, .writeOk 1,
    .deliver (eventMsg 1 7), .settle]

example : (exW.calls.map (·.phase) = [.finished (.reply 3), .waiting 3]) ∧
    ((lose exW).calls.map (·.phase) = [.finished (.reply 3), .finished .closedErr]) ∧
    ((lose exW).subs.map (fun s => (s.forwarded, s.eventsClosed)) = [([7], true)]) ∧
    ((startCall (lose exW)).calls.map (·.phase) = [.finished (.reply 3), .finished .closedErr, .finished .failed]) := by
  decide

example : WInv exW := wInv_run {} _ wInv_init

end QiVerif.C11
