/-
  C13 / C14 — the loop of `UpdateSignal` (Model/UpdateLoop.lean): every copied user is sent to whatever the sends
  and the removals answer; only users whose connection reported the end of the stream are forgotten; the writer is
  told exactly of the failures.
-/
import QiVerif.Model.UpdateLoop
namespace QiVerif.UpdateLoop
open QiVerif QiVerif.Signals

theorem loop_tried (send : Nat → SendRes) (remove : Nat → Bool) (us : List User) (i : Nat) (o : Out) :
    (loop send remove us i o).tried = o.tried ++ us := by
  induction us generalizing i o with
  | nil => simp [loop]
  | cons u r ih =>
    simp only [loop]
    cases send i <;> simp [ih]

/-- **Every copied user is sent to, once, in the order of the table, whatever the sends and the removals answer.** -/
theorem every_user_is_sent_to (users : List User) (sig : Nat) (send : Nat → SendRes) (remove : Nat → Bool) :
    (updateSignal users sig send remove).tried = users.filter (fun u => u.sig == sig) := by
  simp [updateSignal, loop_tried]

/-- in terms of connections: what `recipients` says (Props/C13: no_cross_signal, remove_keeps_others are about it) -/
theorem sends_are_the_recipients (users : List User) (sig : Nat) (send : Nat → SendRes) (remove : Nat → Bool) :
    (updateSignal users sig send remove).tried.map (·.conn) = recipients users sig := by
  rw [every_user_is_sent_to]; rfl

theorem loop_removed (send : Nat → SendRes) (remove : Nat → Bool) (us : List User) (i : Nat) (o : Out) :
    ∀ u, u ∈ (loop send remove us i o).removed → u ∈ o.removed ∨ ∃ k, us[k]? = some u ∧ send (i + k) = .eof := by
  induction us generalizing i o with
  | nil => intro u hu; exact Or.inl (by simpa [loop] using hu)
  | cons x r ih =>
    intro u hu
    simp only [loop] at hu
    cases hs : send i with
    | ok =>
      rw [hs] at hu
      rcases ih _ _ u hu with h | ⟨k, hk, he⟩
      · exact Or.inl h
      · exact Or.inr ⟨k + 1, by simpa using hk, by rw [← he]; congr 1; omega⟩
    | err =>
      rw [hs] at hu
      rcases ih _ _ u hu with h | ⟨k, hk, he⟩
      · exact Or.inl h
      · exact Or.inr ⟨k + 1, by simpa using hk, by rw [← he]; congr 1; omega⟩
    | eof =>
      rw [hs] at hu
      rcases ih _ _ u hu with h | ⟨k, hk, he⟩
      · simp only [List.mem_append, List.mem_singleton] at h
        rcases h with h | rfl
        · exact Or.inl h
        · exact Or.inr ⟨0, by simp, by simpa using hs⟩
      · exact Or.inr ⟨k + 1, by simpa using hk, by rw [← he]; congr 1; omega⟩

/-- only a user whose connection reported the end of the stream is forgotten by the loop -/
theorem only_the_lost_are_forgotten (users : List User) (sig : Nat) (send : Nat → SendRes) (remove : Nat → Bool) (u : User)
    (hu : u ∈ (updateSignal users sig send remove).removed) :
    ∃ k, (users.filter (fun u => u.sig == sig))[k]? = some u ∧ send k = .eof := by
  rcases loop_removed send remove _ 0 {} u hu with h | ⟨k, hk, he⟩
  · simp at h
  · exact ⟨k, hk, by simpa using he⟩

theorem loop_failed_mono (send : Nat → SendRes) (remove : Nat → Bool) (us : List User) (i : Nat) (o : Out) (h : o.failed = true) :
    (loop send remove us i o).failed = true := by
  induction us generalizing i o with
  | nil => simpa [loop] using h
  | cons u r ih =>
    simp only [loop]
    cases send i
    · exact ih _ _ h
    · exact ih _ _ (by simp [h])
    · exact ih _ _ rfl

theorem loop_failed (send : Nat → SendRes) (remove : Nat → Bool) (us : List User) (i : Nat) (o : Out) :
    (loop send remove us i o).failed = true ↔
      o.failed = true ∨ ∃ k, k < us.length ∧ (send (i + k) = .err ∨ (send (i + k) = .eof ∧ remove (i + k) = false)) := by
  induction us generalizing i o with
  | nil => simp [loop]
  | cons u r ih =>
    simp only [loop]
    have shift : ∀ (P : Nat → Prop), (∃ k, k < r.length ∧ P (i + 1 + k)) ↔ (∃ k, 0 < k ∧ k < (u :: r).length ∧ P (i + k)) := by
      intro P
      constructor
      · rintro ⟨k, hk, hp⟩; exact ⟨k + 1, by omega, by simp; omega, by rw [show i + (k + 1) = i + 1 + k by omega]; exact hp⟩
      · rintro ⟨k, h0, hk, hp⟩
        refine ⟨k - 1, by simp at hk; omega, ?_⟩
        rw [show i + 1 + (k - 1) = i + k by omega]; exact hp
    cases hs : send i with
    | ok =>
      simp only
      rw [ih, shift (fun j => send j = .err ∨ (send j = .eof ∧ remove j = false))]
      constructor
      · rintro (h | ⟨k, _, hk, hp⟩)
        · exact Or.inl h
        · exact Or.inr ⟨k, hk, hp⟩
      · rintro (h | ⟨k, hk, hp⟩)
        · exact Or.inl h
        · rcases Nat.eq_zero_or_pos k with rfl | h0
          · simp [hs] at hp
          · exact Or.inr ⟨k, h0, hk, hp⟩
    | err =>
      simp only
      constructor
      · intro _; exact Or.inr ⟨0, by simp, Or.inl (by simpa using hs)⟩
      · intro _; exact loop_failed_mono _ _ _ _ _ rfl
    | eof =>
      simp only
      rw [ih, shift (fun j => send j = .err ∨ (send j = .eof ∧ remove j = false))]
      constructor
      · rintro (h | ⟨k, _, hk, hp⟩)
        · simp only [Bool.or_eq_true, Bool.not_eq_true'] at h
          rcases h with h | h
          · exact Or.inl h
          · exact Or.inr ⟨0, by simp, Or.inr ⟨by simpa using hs, by simpa using h⟩⟩
        · exact Or.inr ⟨k, hk, hp⟩
      · rintro (h | ⟨k, hk, hp⟩)
        · exact Or.inl (by simp [h])
        · rcases Nat.eq_zero_or_pos k with rfl | h0
          · rcases hp with hp | ⟨_, hp⟩
            · simp [hs] at hp
            · exact Or.inl (by simp at hp; simp [hp])
          · exact Or.inr ⟨k, h0, hk, hp⟩

/-- the writer is told of a failure exactly when a send failed otherwise than by the end of the stream, or a
    removal did -/
theorem reports_exactly_the_failures (users : List User) (sig : Nat) (send : Nat → SendRes) (remove : Nat → Bool) :
    (updateSignal users sig send remove).failed = true ↔
      ∃ k, k < (users.filter (fun u => u.sig == sig)).length ∧ (send k = .err ∨ (send k = .eof ∧ remove k = false)) := by
  simp [updateSignal, loop_failed]

/-- non-vacuity: three users of the signal and one of another; the first is lost and already forgotten by the
    clean-up of its connection (the removal fails): the two others are sent to all the same -/
example :
    let o := updateSignal [⟨7, 200, 0⟩, ⟨8, 100, 0⟩, ⟨9, 200, 1⟩, ⟨10, 200, 2⟩] 200
      (fun i => if i = 0 then .eof else .ok) (fun _ => false)
    (o.tried.map (·.conn), o.removed.map (·.uid), o.failed) = ([0, 1, 2], [7], true) := by decide

/-! ### what a loop that stops at the first failure would skip (seeded changes C13m, C14j) -/

/-- the loop with `return err` in the place of `ret = err` -/
def loopStop (send : Nat → SendRes) : List User → Nat → List User → List User
  | [], _, tried => tried
  | u :: r, i, tried =>
    match send i with
    | .ok => loopStop send r (i + 1) (tried ++ [u])
    | _ => tried ++ [u]

/-- three users of the signal; the one in the middle cannot be written to: the third is never sent to, although
    nothing is wrong with it — with the loop as it is all three are tried (`every_user_is_sent_to`) -/
theorem stopping_at_the_first_failure_skips_the_rest :
    let us : List User := [⟨7, 200, 0⟩, ⟨9, 200, 1⟩, ⟨10, 200, 2⟩]
    let send : Nat → SendRes := fun i => if i = 1 then .err else .ok
    (loopStop send us 0 []).map (·.conn) = [0, 1] ∧
      (updateSignal us 200 send (fun _ => true)).tried.map (·.conn) = [0, 1, 2] := by decide

end QiVerif.UpdateLoop
