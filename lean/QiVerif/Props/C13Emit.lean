/-
  C13 — an emission is not one step.  `UpdateSignal` copies the users of the signal under the read lock,
  releases the lock, and then writes one event per copied user; an `unregisterEvent` handled by another
  goroutine can fall between the copy and the writes.  This file models the server's side with that
  grain: the table of users (`Signals.addUser / removeUser`, swap-remove included), one emitter whose
  emission is a snapshot followed by single sends, and everything the server writes, in order.

  What holds on every interleaving:
   * `late_event_is_of_the_open_emission` — an event for a registration that follows the acknowledgement
     of its removal (with no new registration in between) belongs to the emission that had taken its
     snapshot before the removal and was still sending when the removal was acknowledged;
   * `silent_when_no_emission_is_open` — when no emission was under way at the acknowledgement, nothing follows;
   * `at_most_one_late_event` — and there is at most one such event.
  What does not hold is the clause as the property states it ("after the server has acknowledged the removal
  no further event is sent"): `event_after_acknowledgement` is the interleaving, replayed on the
  implementation by `sg.emitrace` (a known finding).
-/
import QiVerif.Props.C13
import QiVerif.Model.SignalsEmit
set_option linter.unusedSimpArgs false
set_option linter.unusedVariables false
namespace QiVerif.C13Emit
open QiVerif QiVerif.Signals

/-! ### swap-remove is the removal of one entry, up to order -/

theorem swapRemove_perm (us : List User) (i : Nat) (hi : i < us.length) :
    (swapRemove us i).Perm (us.eraseIdx i) := by
  unfold swapRemove
  cases hl : us.getLast? with
  | none => simp [List.getLast?_eq_none_iff] at hl; subst hl; simp at hi
  | some l =>
    obtain ⟨d, rfl⟩ := List.getLast?_eq_some_iff.mp hl
    simp only
    by_cases h : i < d.length
    · rw [List.set_append_left i l h, List.dropLast_concat, List.eraseIdx_append_of_lt_length h]
      rw [List.set_eq_take_append_cons_drop, List.eraseIdx_eq_take_drop_succ]
      simp only [h, if_true]
      -- take i d ++ l :: drop (i+1) d  ~  (take i d ++ drop (i+1) d) ++ [l]
      have h1 : (List.take i d ++ l :: List.drop (i + 1) d).Perm (l :: (List.take i d ++ List.drop (i + 1) d)) :=
        List.perm_middle
      have h2 : (l :: (List.take i d ++ List.drop (i + 1) d)).Perm ((List.take i d ++ List.drop (i + 1) d) ++ [l]) := by
        simpa using (List.perm_append_comm (l₁ := [l]) (l₂ := List.take i d ++ List.drop (i + 1) d))
      exact h1.trans h2
    · have hid : i = d.length := by simp at hi; omega
      subst hid
      rw [List.set_append_right _ _ (Nat.le_refl _), List.eraseIdx_append_of_length_le (Nat.le_refl _)]
      simp

/-- user identifiers are unique in the table (`addSignalUser` refuses an identifier that is there) -/
def Uniq (us : List User) : Prop := (us.map (·.uid)).Nodup

theorem uniq_add (us us' : List User) (u : User) (hu : Uniq us) (h : addUser us u = some us') : Uniq us' := by
  unfold addUser at h
  split at h
  · cases h
  · rename_i hn
    injection h with h; subst h
    unfold Uniq at hu ⊢
    rw [List.map_append, List.nodup_append]
    refine ⟨hu, by simp, ?_⟩
    intro a ha b hb
    simp only [List.map_cons, List.map_nil, List.mem_singleton] at hb
    subst hb
    intro e; subst e
    obtain ⟨x, hx, hxe⟩ := List.mem_map.mp ha
    apply hn
    simp only [List.any_eq_true]
    exact ⟨x, hx, by simp [hxe]⟩

/-- what `removeUser` leaves: members of the old table, none of them with the removed identifier -/
theorem remove_spec (us us' : List User) (uid conn : Nat) (hu : Uniq us) (h : removeUser us uid conn = some us') :
    Uniq us' ∧ (∀ y ∈ us', y ∈ us ∧ y.uid ≠ uid) ∧ (∃ x ∈ us, x.uid = uid ∧ x.conn = conn) := by
  unfold removeUser at h
  cases hf : us.findIdx? (fun x => x.uid == uid && x.conn == conn) with
  | none => rw [hf] at h; cases h
  | some i =>
    rw [hf] at h; injection h with h; subst h
    obtain ⟨hlt, hp, _⟩ := List.findIdx?_eq_some_iff_getElem.mp hf
    simp only [Bool.and_eq_true, beq_iff_eq] at hp
    have hperm := swapRemove_perm us i hlt
    refine ⟨?_, ?_, ⟨us[i], List.getElem_mem hlt, hp.1, hp.2⟩⟩
    · unfold Uniq at hu ⊢
      have h1 : ((swapRemove us i).map (·.uid)).Perm ((us.eraseIdx i).map (·.uid)) := hperm.map _
      have h2 : ((us.eraseIdx i).map (·.uid)).Nodup := List.Nodup.sublist ((List.eraseIdx_sublist us i).map _) hu
      exact (h1.nodup_iff).mpr h2
    · intro y hy
      have hy' : y ∈ us.eraseIdx i := hperm.mem_iff.mp hy
      refine ⟨(List.eraseIdx_sublist us i).subset hy', ?_⟩
      obtain ⟨j, hji, hj⟩ := List.mem_eraseIdx_iff_getElem?.mp hy'
      intro e
      -- two positions of the table with one identifier
      have hjlt : j < us.length := by
        rcases Nat.lt_or_ge j us.length with hh | hh
        · exact hh
        · rw [List.getElem?_eq_none (by simpa using hh)] at hj; cases hj
      have hmapj : (us.map (·.uid))[j]? = some uid := by simp [hj, e]
      have hmapi : (us.map (·.uid))[i]? = some uid := by
        simp [List.getElem?_eq_getElem hlt, hp.1]
      have := (List.getElem?_inj (by simpa using hjlt) hu).mp (hmapj.trans hmapi.symm)
      exact hji this

/-- the last word of the server about a registration -/
inductive Status where
  | never
  | registered
  | acked (begun : Nat) (busy : Bool)
  deriving DecidableEq, Repr

def st : List Frame → Nat → Nat → Status
  | [], _, _ => .never
  | .reg c' u' :: r, c, u => if c' = c ∧ u' = u then .registered else st r c u
  | .ack c' u' b y :: r, c, u => if c' = c ∧ u' = u then .acked b y else st r c u
  | .ev _ _ _ :: r, c, u => st r c u

/-- every acknowledgement of a removal answers a registration that was there -/
def Alt : List Frame → Prop
  | [] => True
  | .ack c u _ _ :: r => st r c u = .registered ∧ Alt r
  | _ :: r => Alt r

/-- events of one emission go to different registrations -/
def evUids (e : Nat) : List Frame → List Nat
  | [] => []
  | .ev _ u e' :: r => if e' = e then u :: evUids e r else evUids e r
  | _ :: r => evUids e r

structure Inv (s : S) : Prop where
  uniq : Uniq s.users
  reg : ∀ x ∈ s.users, st s.log x.conn x.uid = .registered
  alt : Alt s.log
  evLt : ∀ c u e, Frame.ev c u e ∈ s.log → e < s.begun
  ackLe : ∀ c u b y, Frame.ack c u b y ∈ s.log → b ≤ s.begun ∧ (y = true → 0 < b)
  cur : ∀ rem, s.cur = some rem →
    0 < s.begun ∧ (rem.map (·.uid)).Nodup ∧
    (∀ x ∈ rem, st s.log x.conn x.uid = .registered ∨ st s.log x.conn x.uid = .acked s.begun true) ∧
    (∀ x ∈ rem, x.uid ∉ evUids (s.begun - 1) s.log)
  evNodup : ∀ e, (evUids e s.log).Nodup

theorem inv_init : Inv {} :=
  ⟨by simp [Uniq], by simp, trivial, by simp, by simp, by simp, by simp [evUids]⟩

theorem evUids_mem (e : Nat) (l : List Frame) (u : Nat) : u ∈ evUids e l ↔ ∃ c, Frame.ev c u e ∈ l := by
  induction l with
  | nil => simp [evUids]
  | cons f r ih =>
    cases f with
    | reg c' u' => simp [evUids, ih]
    | ack c' u' b y => simp [evUids, ih]
    | ev c' u' e' =>
      simp only [evUids]
      split
      · rename_i he; subst he
        constructor
        · intro h
          rcases List.mem_cons.mp h with h | h
          · subst h; exact ⟨c', List.mem_cons_self⟩
          · obtain ⟨c, hc⟩ := ih.mp h; exact ⟨c, List.mem_cons_of_mem _ hc⟩
        · rintro ⟨c, hc⟩
          rcases List.mem_cons.mp hc with hc | hc
          · injection hc with _ hu _; subst hu; exact List.mem_cons_self
          · exact List.mem_cons_of_mem _ (ih.mpr ⟨c, hc⟩)
      · rename_i he
        constructor
        · intro h; obtain ⟨c, hc⟩ := ih.mp h; exact ⟨c, List.mem_cons_of_mem _ hc⟩
        · rintro ⟨c, hc⟩
          rcases List.mem_cons.mp hc with hc | hc
          · injection hc with _ _ he2; exact absurd he2.symm he
          · exact ih.mpr ⟨c, hc⟩

theorem inv_step (s : S) (a : Act) (h : Inv s) : Inv (step s a) := by
  cases a with
  | register u =>
    simp only [step]
    cases ha : addUser s.users u with
    | none => simpa using h
    | some us =>
      simp only
      have hus := C13.add_keeps_all s.users us u ha
      refine ⟨uniq_add _ _ _ h.uniq ha, ?_, ?_, ?_, ?_, ?_, ?_⟩
      · intro x hx
        simp only [st]
        split
        · rfl
        · rw [hus] at hx
          rcases List.mem_append.mp hx with hx | hx
          · exact h.reg x hx
          · simp at hx; subst hx; rename_i hne; exact absurd ⟨rfl, rfl⟩ hne
      · exact h.alt
      · intro c u' e he
        simp only [List.mem_cons] at he
        rcases he with he | he
        · cases he
        · exact h.evLt c u' e he
      · intro c u' b y he
        simp only [List.mem_cons] at he
        rcases he with he | he
        · cases he
        · exact h.ackLe c u' b y he
      · intro rem hrem
        obtain ⟨h0, h1, h2, h3⟩ := h.cur rem hrem
        refine ⟨h0, h1, ?_, ?_⟩
        · intro x hx
          simp only [st]
          split
          · exact Or.inl rfl
          · exact h2 x hx
        · intro x hx; simpa [evUids] using h3 x hx
      · intro e; simpa [evUids] using h.evNodup e
  | unregister uid conn =>
    simp only [step]
    cases hr : removeUser s.users uid conn with
    | none => simpa using h
    | some us =>
      simp only
      obtain ⟨hu', hmem, ⟨x0, hx0, hx0u, hx0c⟩⟩ := remove_spec s.users us uid conn h.uniq hr
      refine ⟨hu', ?_, ?_, ?_, ?_, ?_, ?_⟩
      · intro x hx
        obtain ⟨hxold, hxne⟩ := hmem x hx
        simp only [st]
        split
        · rename_i he; exact absurd he.2.symm (fun e => hxne e)
        · exact h.reg x hxold
      · refine ⟨?_, h.alt⟩
        have := h.reg x0 hx0
        rw [hx0u, hx0c] at this; exact this
      · intro c u' e he
        simp only [List.mem_cons] at he
        rcases he with he | he
        · cases he
        · exact h.evLt c u' e he
      · intro c u' b y he
        simp only [List.mem_cons] at he
        rcases he with he | he
        · injection he with _ _ hb hy
          subst hb; subst hy
          refine ⟨Nat.le_refl _, ?_⟩
          intro hbusy
          cases hc : s.cur with
          | none => simp [hc] at hbusy
          | some rem => exact (h.cur rem hc).1
        · exact h.ackLe c u' b y he
      · intro rem hrem
        have hrem' : s.cur = some rem := hrem
        obtain ⟨h0, h1, h2, h3⟩ := h.cur rem hrem'
        refine ⟨h0, h1, ?_, ?_⟩
        · intro x hx
          simp only [st]
          split
          · right; simp [hrem']
          · exact h2 x hx
        · intro x hx; simpa [evUids] using h3 x hx
      · intro e; simpa [evUids] using h.evNodup e
  | emitBegin sig =>
    simp only [step]
    cases hc : s.cur with
    | some rem => simpa [hc] using h
    | none =>
      simp only
      refine ⟨h.uniq, h.reg, h.alt, ?_, ?_, ?_, h.evNodup⟩
      · intro c u e he; have := h.evLt c u e he; show e < s.begun + 1; omega
      · intro c u b y he; have := h.ackLe c u b y he; exact ⟨by show b ≤ s.begun + 1; omega, this.2⟩
      · intro rem hrem
        dsimp only at hrem ⊢
        split at hrem
        · cases hrem
        · injection hrem with hrem; subst hrem
          refine ⟨by omega, ?_, ?_, ?_⟩
          · exact List.Nodup.sublist ((List.filter_sublist (l := s.users)).map _) h.uniq
          · intro x hx; exact Or.inl (h.reg x (List.mem_filter.mp hx).1)
          · intro x hx hin
            obtain ⟨c, hev⟩ := (evUids_mem _ _ _).mp hin
            have := h.evLt c x.uid _ hev
            omega
  | emitSend =>
    simp only [step]
    cases hc : s.cur with
    | none => simpa [hc] using h
    | some rem =>
      cases rem with
      | nil => simpa [hc] using h
      | cons x r =>
        simp only
        obtain ⟨h0, h1, h2, h3⟩ := h.cur (x :: r) hc
        refine ⟨h.uniq, ?_, h.alt, ?_, ?_, ?_, ?_⟩
        · intro y hy; simpa [st] using h.reg y hy
        · intro c u e he
          simp only [List.mem_cons] at he
          rcases he with he | he
          · injection he with _ _ he; show e < s.begun; omega
          · exact h.evLt c u e he
        · intro c u b y he
          simp only [List.mem_cons] at he
          rcases he with he | he
          · cases he
          · exact h.ackLe c u b y he
        · intro rem' hrem'
          split at hrem'
          · cases hrem'
          · injection hrem' with hrem'; subst hrem'
            simp only [List.map_cons, List.nodup_cons] at h1
            refine ⟨h0, h1.2, ?_, ?_⟩
            · intro y hy; simpa [st] using h2 y (List.mem_cons_of_mem _ hy)
            · intro y hy
              simp only [evUids, if_true, List.mem_cons, not_or]
              refine ⟨?_, h3 y (List.mem_cons_of_mem _ hy)⟩
              intro e
              exact h1.1 (by rw [← e]; exact List.mem_map.mpr ⟨y, hy, rfl⟩)
        · intro e
          simp only [evUids]
          split
          · rename_i he; subst he
            exact List.nodup_cons.mpr ⟨h3 x (List.mem_cons_self), h.evNodup _⟩
          · exact h.evNodup e

theorem inv_run (acts : List Act) : ∀ s, Inv s → Inv (run s acts) := by
  induction acts with
  | nil => intro s h; exact h
  | cons a r ih => intro s h; exact ih _ (inv_step s a h)

/-! ### what follows an acknowledgement -/

/-- behind an acknowledged removal, as long as no new registration of the pair is written, the last word stays
    that acknowledgement -/
theorem st_after_ack (l2 l1 : List Frame) (c u b : Nat) (y : Bool) (halt : Alt (l2 ++ .ack c u b y :: l1))
    (hno : ∀ f ∈ l2, f ≠ .reg c u) : st (l2 ++ .ack c u b y :: l1) c u = .acked b y := by
  induction l2 with
  | nil => simp [st]
  | cons f r ih =>
    have hno' : ∀ f ∈ r, f ≠ .reg c u := fun g hg => hno g (List.mem_cons_of_mem _ hg)
    cases f with
    | reg c' u' =>
      simp only [List.cons_append, st]
      split
      · rename_i he; exact absurd (by rw [he.1, he.2]) (hno (.reg c' u') List.mem_cons_self)
      · exact ih (by simpa [Alt] using halt) hno'
    | ack c' u' b' y' =>
      simp only [List.cons_append, Alt] at halt
      simp only [List.cons_append, st]
      split
      · rename_i he
        have := ih halt.2 hno'
        rw [he.1, he.2] at halt
        rw [halt.1] at this; cases this
      · exact ih halt.2 hno'
    | ev c' u' e' =>
      simp only [List.cons_append, st]
      exact ih (by simpa [Alt] using halt) hno'

/-- the statement on logs, newest first: an event above an acknowledgement with no registration in between -/
def LateOK (log : List Frame) : Prop :=
  ∀ l3 l2 l1 c u b y e, log = l3 ++ .ev c u e :: (l2 ++ .ack c u b y :: l1) → (∀ f ∈ l2, f ≠ .reg c u) →
    e + 1 = b ∧ y = true

theorem lateOK_cons_other (f : Frame) (log : List Frame) (h : LateOK log) (hf : ∀ c u e, f ≠ .ev c u e) : LateOK (f :: log) := by
  intro l3 l2 l1 c u b y e heq hno
  cases l3 with
  | nil => simp only [List.nil_append, List.cons.injEq] at heq; exact absurd heq.1 (hf c u e)
  | cons g l3' =>
    simp only [List.cons_append, List.cons.injEq] at heq
    exact h l3' l2 l1 c u b y e heq.2 hno

theorem late_step (s : S) (a : Act) (hi : Inv s) (h : LateOK s.log) : LateOK (step s a).log := by
  cases a with
  | register u =>
    simp only [step]
    cases ha : addUser s.users u with
    | none => simpa using h
    | some us => exact lateOK_cons_other _ _ h (by intro c u e; simp)
  | unregister uid conn =>
    simp only [step]
    cases hr : removeUser s.users uid conn with
    | none => simpa using h
    | some us => exact lateOK_cons_other _ _ h (by intro c u e; simp)
  | emitBegin sig =>
    simp only [step]
    cases hc : s.cur with
    | some rem => simpa [hc] using h
    | none => simpa using h
  | emitSend =>
    simp only [step]
    cases hc : s.cur with
    | none => simpa [hc] using h
    | some rem =>
      cases rem with
      | nil => simpa [hc] using h
      | cons x r =>
        simp only
        intro l3 l2 l1 c u b y e heq hno
        cases l3 with
        | cons g l3' =>
          simp only [List.cons_append, List.cons.injEq] at heq
          exact h l3' l2 l1 c u b y e heq.2 hno
        | nil =>
          simp only [List.nil_append, List.cons.injEq, Frame.ev.injEq] at heq
          obtain ⟨⟨hc1, hu1, he1⟩, hlog⟩ := heq
          -- the last word about (c, u) is that acknowledgement
          have hst : st s.log c u = .acked b y := by
            rw [hlog]; exact st_after_ack l2 l1 c u b y (by rw [← hlog]; exact hi.alt) hno
          obtain ⟨h0, _, h2, _⟩ := hi.cur (x :: r) hc
          have := h2 x List.mem_cons_self
          rw [hc1, hu1, hst] at this
          rcases this with this | this
          · cases this
          · injection this with hb hy
            exact ⟨by omega, hy⟩

theorem late_run (acts : List Act) : ∀ s, Inv s → LateOK s.log → LateOK (run s acts).log := by
  induction acts with
  | nil => intro s _ h; exact h
  | cons a r ih => intro s hi h; exact ih _ (inv_step s a hi) (late_step s a hi h)

/-- **An event that follows the acknowledgement of a removal is of the emission that was open then.**
    On every interleaving of registrations, removals, snapshots and single sends: if the server wrote the
    acknowledgement of the removal of `(c, u)` — `b` emissions had taken their snapshot by then — and later, with
    no new registration of `(c, u)` in between, an event of emission `e` for `(c, u)`, then `e` is the last emission
    begun before the acknowledgement (`e + 1 = b`) and it was still sending when the acknowledgement was written. -/
theorem late_event_is_of_the_open_emission (acts : List Act) (l1 l2 l3 : List Frame) (c u b e : Nat) (y : Bool)
    (hh : history (run {} acts) = l1 ++ [.ack c u b y] ++ l2 ++ [.ev c u e] ++ l3)
    (hno : ∀ f ∈ l2, f ≠ .reg c u) : e + 1 = b ∧ y = true := by
  have hl := late_run acts {} inv_init (by intro l3 l2 l1 c u b y e heq; simp at heq)
  have : (run {} acts).log = l3.reverse ++ .ev c u e :: (l2.reverse ++ .ack c u b y :: l1.reverse) := by
    have := congrArg List.reverse hh
    simpa [history] using this
  exact hl l3.reverse l2.reverse l1.reverse c u b y e this (by intro f hf; exact hno f (List.mem_reverse.mp hf))

/-- **With no emission under way at the acknowledgement, nothing follows it.** -/
theorem silent_when_no_emission_is_open (acts : List Act) (l1 l2 l3 : List Frame) (c u b e : Nat)
    (hh : history (run {} acts) = l1 ++ [.ack c u b false] ++ l2 ++ [.ev c u e] ++ l3)
    (hno : ∀ f ∈ l2, f ≠ .reg c u) : False := by
  have := (late_event_is_of_the_open_emission acts l1 l2 l3 c u b e false hh hno).2
  cases this

/-- **At most one event follows.**  Two events for `(c, u)` behind the acknowledgement of its removal, with no
    new registration before the second: they would both be of the emission that was open, and an emission
    writes one event per registration. -/
theorem at_most_one_late_event (acts : List Act) (l1 l2 l3 l4 : List Frame) (c u b e e' : Nat) (y : Bool)
    (hh : history (run {} acts) = l1 ++ [.ack c u b y] ++ l2 ++ [.ev c u e] ++ l3 ++ [.ev c u e'] ++ l4)
    (hno : ∀ f ∈ l2 ++ [.ev c u e] ++ l3, f ≠ .reg c u) : False := by
  have h1 := late_event_is_of_the_open_emission acts l1 l2 (l3 ++ [.ev c u e'] ++ l4) c u b e y
    (by simpa [List.append_assoc] using hh) (fun f hf => hno f (by simp [hf]))
  have h2 := late_event_is_of_the_open_emission acts l1 (l2 ++ [.ev c u e] ++ l3) l4 c u b e' y
    (by simpa [List.append_assoc] using hh) hno
  have he : e' = e := by omega
  subst he
  -- two events of one emission for one registration
  have hinv := inv_run acts {} inv_init
  have hn := hinv.evNodup e'
  have hlog : (run {} acts).log = l4.reverse ++ .ev c u e' :: (l3.reverse ++ .ev c u e' :: (l2.reverse ++ .ack c u b y :: l1.reverse)) := by
    have := congrArg List.reverse hh
    simpa [history] using this
  rw [hlog] at hn
  -- evUids over an append
  have happ : ∀ (a r : List Frame), evUids e' (a ++ r) = evUids e' a ++ evUids e' r := by
    intro a r
    induction a with
    | nil => rfl
    | cons f a ih =>
      cases f with
      | reg _ _ => simpa [evUids] using ih
      | ack _ _ _ _ => simpa [evUids] using ih
      | ev _ _ e2 => simp only [List.cons_append, evUids]; split <;> simp [ih]
  rw [happ] at hn
  simp only [evUids, if_true] at hn
  rw [happ] at hn
  simp only [evUids, if_true] at hn
  have := (List.nodup_append.mp hn).2.1
  rw [List.nodup_cons] at this
  exact this.1 (List.mem_append_right _ List.mem_cons_self)

/-! ### the clause as stated does not hold -/

theorem event_after_acknowledgement :
    history (run {} raceActs) = [.reg 0 7, .reg 1 9, .ev 0 7 0, .ack 1 9 1 true, .ev 1 9 0] := by
  decide

/-- with the emission as one step (nothing between the snapshot and its sends) the second subscriber hears nothing -/
example :
    history (run {} [.register ⟨7, 102, 0⟩, .register ⟨9, 102, 1⟩, .unregister 9 1, .emitBegin 102, .emitSend, .emitSend]) =
      [.reg 0 7, .reg 1 9, .ack 1 9 0 false, .ev 0 7 0] := by
  decide

end QiVerif.C13Emit
