/-
  C15 — the service directory is a linearizable registry.
  Theorems about Model/Directory.lean for every sequence of register / ready / unregister /
  update operations (valid or not, on any ids and names).  Each operation is one atomic step
  (every method of the directory runs under its mutex), so the order of the critical sections
  of a concurrent history is a sequential order respecting real time.
-/
import QiVerif.Model.Directory
set_option linter.unusedSimpArgs false
set_option linter.unusedVariables false
namespace QiVerif.C15
open QiVerif QiVerif.Directory

/-- the entry registered under id `k`, staging or ready -/
def entry (d : Dir) (k : Nat) : Option Info := (d.staging k).orElse (fun _ => d.services k)

/-- the events about service `k`, in emission order -/
def evs (d : Dir) (k : Nat) : List Ev := d.events.filter (fun e => e.id == k)

structure Inv (d : Dir) : Prop where
  /-- ids are handed out from 1 up to `lastID` -/
  bound : ∀ k, (k = 0 ∨ d.lastID < k) → d.staging k = none ∧ d.services k = none
  /-- an entry carries its own id -/
  keyed : ∀ k i, (d.staging k = some i ∨ d.services k = some i) → i.id = k
  /-- a service is staging or ready, not both -/
  excl : ∀ k, d.staging k = none ∨ d.services k = none
  /-- a name is held by at most one registered service -/
  names : ∀ k k' i i', entry d k = some i → entry d k' = some i' → i.name = i'.name → k = k'
  /-- exactly one serviceAdded per staging → ready, one serviceRemoved per ready → gone, in that order -/
  events : ∀ k,
    (∀ i, d.services k = some i → evs d k = [.added k i.name]) ∧
    (∀ i, d.staging k = some i → evs d k = []) ∧
    (entry d k = none → evs d k = [] ∨ ∃ n, evs d k = [.added k n, .removed k n]) ∧
    (d.lastID < k → evs d k = [])

theorem inv_init : Inv {} where
  bound := fun _ _ => ⟨rfl, rfl⟩
  keyed := by intro k i h; rcases h with h | h <;> cases h
  excl := fun _ => Or.inl rfl
  names := by intro k k' i i' h; simp [entry] at h
  events := by
    intro k
    exact ⟨(fun i h => by cases h), (fun i h => by cases h), (fun _ => Or.inl rfl), (fun _ => rfl)⟩

theorem hasName_false (m : Nat → Option Info) (b n : Nat) (h : hasName m b n = false) (k : Nat) (hk : k ≤ b) (i : Info)
    (hi : m k = some i) : i.name ≠ n := by
  unfold hasName at h
  rw [List.any_eq_false] at h
  have := h k (by simp; omega)
  simp [hi] at this
  exact this

theorem evs_append (d : Dir) (k : Nat) (e : Ev) :
    (d.events ++ [e]).filter (fun x => x.id == k) = evs d k ++ (if e.id == k then [e] else []) := by
  simp [evs, List.filter_append, List.filter_cons]

theorem inv_register (d : Dir) (i : Info) (h : Inv d) : Inv (register d i).1 := by
  unfold register
  split
  · exact h
  · split
    · exact h
    · split
      · exact h
      · rename_i hc hs hv
        have hs' : hasName d.staging d.lastID i.name = false := by simpa using hs
        have hv' : hasName d.services d.lastID i.name = false := by simpa using hv
        have hnew := h.bound (d.lastID + 1) (Or.inr (Nat.lt_succ_self _))
        refine ⟨?_, ?_, ?_, ?_, ?_⟩
        · intro k hk
          have hb := h.bound k (by rcases hk with hk | hk; exact Or.inl hk; exact Or.inr (by simp at hk; omega))
          refine ⟨?_, hb.2⟩
          simp only [put]
          split
          · rename_i he; subst he; rcases hk with hk | hk <;> simp at hk
          · exact hb.1
        · intro k x hx
          simp only [put] at hx
          rcases hx with hx | hx
          · split at hx
            · rename_i he; injection hx with hx; subst hx; exact he.symm
            · exact h.keyed k x (Or.inl hx)
          · exact h.keyed k x (Or.inr hx)
        · intro k
          simp only [put]
          split
          · rename_i he; subst he; exact Or.inr hnew.2
          · exact h.excl k
        · -- the new name is not held by anybody
          have fresh : ∀ k x, entry d k = some x → x.name ≠ i.name := by
            intro k x hx
            have hk : k ≤ d.lastID := by
              rcases Nat.lt_or_ge d.lastID k with hlt | hge
              · have := h.bound k (Or.inr hlt); simp [entry, this.1, this.2] at hx
              · exact hge
            simp only [entry] at hx
            cases hst : d.staging k with
            | some y => rw [hst] at hx; simp at hx; subst hx; exact hasName_false _ _ _ hs' k hk y hst
            | none => rw [hst] at hx; simp at hx; exact hasName_false _ _ _ hv' k hk x hx
          have entryNew : ∀ k, entry { d with lastID := d.lastID + 1, staging := put d.staging (d.lastID + 1) (some { i with id := d.lastID + 1 }) } k =
              if k = d.lastID + 1 then some { i with id := d.lastID + 1 } else entry d k := by
            intro k; simp only [entry, put]; split <;> simp
          intro k k' x x' hx hx' hn
          rw [entryNew] at hx hx'
          split at hx
          · split at hx'
            · omega
            · injection hx with hx; subst hx
              exact absurd hn.symm (fresh k' x' hx')
          · split at hx'
            · injection hx' with hx'; subst hx'
              exact absurd hn (fresh k x hx)
            · exact h.names k k' x x' hx hx' hn
        · intro k
          have he := h.events k
          have hevs : evs { d with lastID := d.lastID + 1, staging := put d.staging (d.lastID + 1) (some { i with id := d.lastID + 1 }) } k = evs d k := rfl
          rw [hevs]
          refine ⟨he.1, ?_, ?_, ?_⟩
          · intro x hx
            simp only [put] at hx
            split at hx
            · rename_i hk; subst hk; exact he.2.2.2 (Nat.lt_succ_self _)
            · exact he.2.1 x hx
          · intro hx
            apply he.2.2.1
            simp only [entry, put] at hx ⊢
            split at hx
            · simp at hx
            · exact hx
          · intro hk; exact he.2.2.2 (by simp at hk; omega)

theorem put_same (m : Nat → Option Info) (k : Nat) (v : Option Info) : put m k v k = v := by simp [put]
theorem put_other (m : Nat → Option Info) (k j : Nat) (v : Option Info) (h : j ≠ k) : put m k v j = m j := by simp [put, h]

theorem inv_ready (d : Dir) (id : Nat) (h : Inv d) : Inv (ready d id).1 := by
  unfold ready
  cases hst : d.staging id with
  | none => exact h
  | some i =>
    simp only
    have hsv : d.services id = none := by
      rcases h.excl id with h1 | h1
      · rw [hst] at h1; cases h1
      · exact h1
    have hid : i.id = id := h.keyed id i (Or.inl hst)
    have entrySame : ∀ k, entry (Dir.mk (put d.staging id none) (put d.services id (some i)) d.lastID (d.events ++ [Ev.added id i.name])) k = entry d k := by
      intro k
      simp only [entry, put]
      by_cases hk : k = id
      · subst hk; simp [hst, hsv]
      · simp [hk]
    refine ⟨?_, ?_, ?_, ?_, ?_⟩
    · intro k hk
      have hb := h.bound k hk
      by_cases hki : k = id
      · subst hki; rw [hst] at hb; cases hb.1
      · simp only [put_other _ _ _ _ hki]; exact hb
    · intro k x hx
      by_cases hki : k = id
      · subst hki
        simp only [put_same] at hx
        rcases hx with hx | hx
        · cases hx
        · injection hx with hx; subst hx; exact hid
      · simp only [put_other _ _ _ _ hki] at hx; exact h.keyed k x hx
    · intro k
      by_cases hki : k = id
      · subst hki; exact Or.inl (put_same _ _ _)
      · simp only [put_other _ _ _ _ hki]; exact h.excl k
    · intro k k' x x' hx hx' hn
      rw [entrySame] at hx hx'
      exact h.names k k' x x' hx hx' hn
    · intro k
      have he := h.events k
      have hevs : evs (Dir.mk (put d.staging id none) (put d.services id (some i)) d.lastID (d.events ++ [Ev.added id i.name])) k = evs d k ++ (if id == k then [Ev.added id i.name] else []) := by
        simp only [evs]; exact evs_append d k _
      rw [hevs]
      by_cases hki : k = id
      · subst hki
        simp only [beq_self_eq_true, if_true, put_same]
        have h0 := he.2.1 i hst
        refine ⟨?_, ?_, ?_, ?_⟩
        · intro x hx; injection hx with hx; subst hx; rw [h0]; rfl
        · intro x hx; cases hx
        · intro hx; rw [entrySame] at hx; simp [entry, hst] at hx
        · intro hk
          have := h.bound k (Or.inr hk); rw [hst] at this; cases this.1
      · have : (id == k) = false := by simpa using fun e => hki e.symm
        simp only [this, Bool.false_eq_true, if_false, List.append_nil, put_other _ _ _ _ hki]
        refine ⟨he.1, he.2.1, ?_, he.2.2.2⟩
        intro hx; rw [entrySame] at hx; exact he.2.2.1 hx

theorem inv_unregister (d : Dir) (id : Nat) (h : Inv d) : Inv (unregister d id).1 := by
  unfold unregister
  cases hsv : d.services id with
  | some i =>
    simp only
    have hst : d.staging id = none := by
      rcases h.excl id with h1 | h1
      · exact h1
      · rw [hsv] at h1; cases h1
    have entryNew : ∀ k, entry { d with services := put d.services id none, events := d.events ++ [Ev.removed id i.name] } k =
        if k = id then none else entry d k := by
      intro k; simp only [entry, put]
      by_cases hk : k = id
      · subst hk; simp [hst]
      · simp [hk]
    refine ⟨?_, ?_, ?_, ?_, ?_⟩
    · intro k hk
      have hb := h.bound k hk
      refine ⟨hb.1, ?_⟩
      simp only [put]; split
      · rfl
      · exact hb.2
    · intro k x hx
      rcases hx with hx | hx
      · exact h.keyed k x (Or.inl hx)
      · simp only [put] at hx; split at hx
        · cases hx
        · exact h.keyed k x (Or.inr hx)
    · intro k
      rcases h.excl k with h1 | h1
      · exact Or.inl h1
      · right; simp only [put]; split; rfl; exact h1
    · intro k k' x x' hx hx' hn
      rw [entryNew] at hx hx'
      split at hx
      · cases hx
      · split at hx'
        · cases hx'
        · exact h.names k k' x x' hx hx' hn
    · intro k
      have he := h.events k
      have hevs : evs { d with services := put d.services id none, events := d.events ++ [Ev.removed id i.name] } k =
          evs d k ++ (if id == k then [Ev.removed id i.name] else []) := by
        simp only [evs]; exact evs_append d k _
      rw [hevs]
      by_cases hki : k = id
      · subst hki
        simp only [beq_self_eq_true, if_true, put_same]
        have h0 := he.1 i hsv
        refine ⟨(fun x hx => by cases hx), ?_, ?_, ?_⟩
        · intro x hx; rw [hst] at hx; cases hx
        · intro _; right; exact ⟨i.name, by rw [h0]; rfl⟩
        · intro hk
          have := h.bound k (Or.inr hk); rw [hsv] at this; cases this.2
      · have : (id == k) = false := by simpa using fun e => hki e.symm
        simp only [this, Bool.false_eq_true, if_false, List.append_nil, put_other _ _ _ _ hki]
        refine ⟨he.1, he.2.1, ?_, he.2.2.2⟩
        intro hx; rw [entryNew] at hx; simp [hki] at hx; exact he.2.2.1 hx
  | none =>
    simp only
    cases hst : d.staging id with
    | none => exact h
    | some i =>
      simp only
      have entryNew : ∀ k, entry { d with staging := put d.staging id none } k = if k = id then none else entry d k := by
        intro k; simp only [entry, put]
        by_cases hk : k = id
        · subst hk; simp [hsv]
        · simp [hk]
      refine ⟨?_, ?_, ?_, ?_, ?_⟩
      · intro k hk
        have hb := h.bound k hk
        refine ⟨?_, hb.2⟩
        simp only [put]; split
        · rfl
        · exact hb.1
      · intro k x hx
        rcases hx with hx | hx
        · simp only [put] at hx; split at hx
          · cases hx
          · exact h.keyed k x (Or.inl hx)
        · exact h.keyed k x (Or.inr hx)
      · intro k
        rcases h.excl k with h1 | h1
        · left; simp only [put]; split; rfl; exact h1
        · exact Or.inr h1
      · intro k k' x x' hx hx' hn
        rw [entryNew] at hx hx'
        split at hx
        · cases hx
        · split at hx'
          · cases hx'
          · exact h.names k k' x x' hx hx' hn
      · intro k
        have he := h.events k
        have hevs : evs { d with staging := put d.staging id none } k = evs d k := rfl
        rw [hevs]
        by_cases hki : k = id
        · subst hki
          simp only [put_same]
          refine ⟨(fun x hx => by rw [hsv] at hx; cases hx), (fun x hx => by cases hx), (fun _ => Or.inl (he.2.1 i hst)), he.2.2.2⟩
        · simp only [put_other _ _ _ _ hki]
          refine ⟨he.1, he.2.1, ?_, he.2.2.2⟩
          intro hx; rw [entryNew] at hx; simp [hki] at hx; exact he.2.2.1 hx

theorem inv_update (d : Dir) (i : Info) (h : Inv d) : Inv (update d i).1 := by
  unfold update
  split
  · exact h
  · cases hsv : d.services i.id with
    | none => exact h
    | some old =>
      simp only
      split
      · exact h
      · rename_i hn
        have hname : old.name = i.name := by simpa using hn
        have hst : d.staging i.id = none := by
          rcases h.excl i.id with h1 | h1
          · exact h1
          · rw [hsv] at h1; cases h1
        have entryNew : ∀ k, entry { d with services := put d.services i.id (some i) } k =
            if k = i.id then some i else entry d k := by
          intro k; simp only [entry, put]
          by_cases hk : k = i.id
          · subst hk; simp [hst]
          · simp [hk]
        have entryOld : entry d i.id = some old := by simp [entry, hst, hsv]
        refine ⟨?_, ?_, ?_, ?_, ?_⟩
        · intro k hk
          have hb := h.bound k hk
          refine ⟨hb.1, ?_⟩
          simp only [put]; split
          · rename_i he; subst he; rw [hsv] at hb; cases hb.2
          · exact hb.2
        · intro k x hx
          rcases hx with hx | hx
          · exact h.keyed k x (Or.inl hx)
          · simp only [put] at hx; split at hx
            · rename_i he; injection hx with hx; subst hx; exact he.symm
            · exact h.keyed k x (Or.inr hx)
        · intro k
          by_cases hk : k = i.id
          · subst hk; exact Or.inl hst
          · simp only [put_other _ _ _ _ hk]; exact h.excl k
        · intro k k' x x' hx hx' hnn
          rw [entryNew] at hx hx'
          split at hx
          · rename_i hk
            split at hx'
            · omega
            · injection hx with hx; subst hx
              rw [hk]; exact h.names i.id k' old x' entryOld hx' (by rw [hname]; exact hnn)
          · split at hx'
            · rename_i hk'
              injection hx' with hx'; subst hx'
              rw [hk']; exact h.names k i.id x old hx entryOld (by rw [hname]; exact hnn)
            · exact h.names k k' x x' hx hx' hnn
        · intro k
          have he := h.events k
          have hevs : evs { d with services := put d.services i.id (some i) } k = evs d k := rfl
          rw [hevs]
          by_cases hk : k = i.id
          · subst hk
            simp only [put_same]
            refine ⟨(fun x hx => by injection hx with hx; subst hx; rw [← hname]; exact he.1 old hsv), he.2.1, ?_, he.2.2.2⟩
            intro hx; rw [entryNew] at hx; simp at hx
          · simp only [put_other _ _ _ _ hk]
            refine ⟨he.1, he.2.1, ?_, he.2.2.2⟩
            intro hx; rw [entryNew] at hx; simp [hk] at hx; exact he.2.2.1 hx

theorem inv_step (d : Dir) (o : Op) (h : Inv d) : Inv (step d o) := by
  cases o with
  | register i => exact inv_register d i h
  | unregister id => exact inv_unregister d id h
  | ready id => exact inv_ready d id h
  | update i => exact inv_update d i h

theorem inv_run (d : Dir) (ops : List Op) (h : Inv d) : Inv (run d ops) := by
  induction ops generalizing d with
  | nil => exact h
  | cons o r ih => exact ih _ (inv_step d o h)


/-! ### C15 -/

/-- **Identifiers are assigned strictly increasing**: a registration that succeeds returns the
    counter plus one and advances the counter; nothing ever decreases the counter; every id in
    use is at most the counter.  So an id is larger than every id handed out before and is never
    handed out again. -/
theorem ids_strictly_increasing (d : Dir) (i : Info) (k : Nat) (h : (register d i).2 = some k) :
    k = d.lastID + 1 ∧ (register d i).1.lastID = k ∧ (register d i).1.staging k = some { i with id := k } := by
  unfold register at h ⊢
  split
  · rename_i hc; simp [hc] at h
  · rename_i hc
    split
    · rename_i hs; simp [hc, hs] at h
    · rename_i hs
      split
      · rename_i hv; simp [hc, hs, hv] at h
      · rename_i hv
        simp [hc, hs, hv] at h
        subst h
        exact ⟨rfl, rfl, by simp [put]⟩

theorem counter_never_decreases (d : Dir) (o : Op) : d.lastID ≤ (step d o).lastID := by
  cases o with
  | register i => simp only [step, register]; split; exact Nat.le_refl _; split; exact Nat.le_refl _; split; exact Nat.le_refl _; simp
  | unregister id => simp only [step, unregister]; split; exact Nat.le_refl _; split <;> exact Nat.le_refl _
  | ready id => simp only [step, ready]; split <;> exact Nat.le_refl _
  | update i => simp only [step, update]; split; exact Nat.le_refl _; split; exact Nat.le_refl _; split <;> exact Nat.le_refl _

theorem ids_in_use_bounded (ops : List Op) (k : Nat) (i : Info) (h : entry (run {} ops) k = some i) :
    1 ≤ k ∧ k ≤ (run {} ops).lastID ∧ i.id = k := by
  have hi := inv_run {} ops inv_init
  have hk : ¬(k = 0 ∨ (run {} ops).lastID < k) := by
    intro hh; have := hi.bound k hh; simp [entry, this.1, this.2] at h
  have hid : i.id = k := by
    simp only [entry] at h
    cases hst : (run {} ops).staging k with
    | some x => rw [hst] at h; simp at h; subst h; exact hi.keyed k x (Or.inl hst)
    | none => rw [hst] at h; simp at h; exact hi.keyed k i (Or.inr h)
  exact ⟨by omega, by omega, hid⟩

/-- **A name is held by at most one registered service**, staging or ready -/
theorem one_holder_per_name (ops : List Op) (k k' : Nat) (i i' : Info)
    (h : entry (run {} ops) k = some i) (h' : entry (run {} ops) k' = some i') (hn : i.name = i'.name) : k = k' :=
  (inv_run {} ops inv_init).names k k' i i' h h' hn

theorem mem_list (d : Dir) (hi : Inv d) (i : Info) : i ∈ list d ↔ d.services i.id = some i := by
  simp only [list, List.mem_filterMap, List.mem_range]
  constructor
  · rintro ⟨k, _, hk⟩
    have := hi.keyed k i (Or.inr hk); rw [this]; exact hk
  · intro h
    refine ⟨i.id, ?_, h⟩
    rcases Nat.lt_or_ge d.lastID i.id with hlt | hge
    · have := (hi.bound i.id (Or.inr hlt)).2; rw [h] at this; cases this
    · omega

/-- **Visible exactly from ready until unregister**: the list and the lookup by name show the
    ready services and nothing else — a staging service is invisible, a removed one is gone -/
theorem visible_iff_ready (ops : List Op) (i : Info) :
    (i ∈ list (run {} ops) ↔ (run {} ops).services i.id = some i) ∧
    (lookup (run {} ops) i.name = some i ↔ (run {} ops).services i.id = some i) := by
  have hi := inv_run {} ops inv_init
  refine ⟨mem_list _ hi i, ?_⟩
  constructor
  · intro h
    exact (mem_list _ hi i).mp (List.mem_of_find?_eq_some h)
  · intro h
    have hm := (mem_list _ hi i).mpr h
    -- the first ready service with this name is this one: names are unique
    cases hf : lookup (run {} ops) i.name with
    | none =>
      have := List.find?_eq_none.mp hf i hm
      simp at this
    | some j =>
      have hj := (mem_list _ hi j).mp (List.mem_of_find?_eq_some hf)
      have hn : j.name = i.name := by simpa using List.find?_some hf
      have e1 : entry (run {} ops) j.id = some j := by
        rcases hi.excl j.id with hh | hh
        · simp [entry, hh, hj]
        · rw [hj] at hh; cases hh
      have e2 : entry (run {} ops) i.id = some i := by
        rcases hi.excl i.id with hh | hh
        · simp [entry, hh, h]
        · rw [h] at hh; cases hh
      have := hi.names j.id i.id j i e1 e2 hn
      rw [this, h] at hj; exact hj.symm ▸ rfl

theorem staging_is_invisible (ops : List Op) (k : Nat) (i : Info) (h : (run {} ops).staging k = some i) :
    lookup (run {} ops) i.name = none ∧ i ∉ list (run {} ops) := by
  have hi := inv_run {} ops inv_init
  have hk := hi.keyed k i (Or.inl h)
  have hsv : (run {} ops).services k = none := by
    rcases hi.excl k with hh | hh
    · rw [h] at hh; cases hh
    · exact hh
  constructor
  · cases hf : lookup (run {} ops) i.name with
    | none => rfl
    | some j =>
      have hj := (mem_list _ hi j).mp (List.mem_of_find?_eq_some hf)
      have hn : j.name = i.name := by simpa using List.find?_some hf
      have e1 : entry (run {} ops) j.id = some j := by
        rcases hi.excl j.id with hh | hh
        · simp [entry, hh, hj]
        · rw [hj] at hh; cases hh
      have e2 : entry (run {} ops) k = some i := by simp [entry, h]
      have := hi.names j.id k j i e1 e2 hn
      rw [this, hsv] at hj; cases hj
  · intro hm
    have := (mem_list _ hi i).mp hm
    rw [hk, hsv] at this; cases this

/-- **Updates cannot change a service's name or identity**: an accepted update replaces the entry
    of its own id by an entry with the same name and the same id; everything else is untouched -/
theorem update_keeps_name_and_id (d : Dir) (i : Info) (h : (update d i).2 = true) :
    ∃ old, d.services i.id = some old ∧ old.name = i.name ∧
      (update d i).1.services i.id = some i ∧ (∀ k, k ≠ i.id → (update d i).1.services k = d.services k) ∧
      (update d i).1.staging = d.staging ∧ (update d i).1.lastID = d.lastID ∧ (update d i).1.events = d.events := by
  unfold update at h ⊢
  split
  · rename_i hc; simp [hc] at h
  · rename_i hc
    cases hsv : d.services i.id with
    | none => simp [hc, hsv] at h
    | some old =>
      simp only
      split
      · rename_i hn; simp [hc, hsv, hn] at h
      · rename_i hn
        exact ⟨old, rfl, by simpa using hn, by simp [put], fun k hk => by simp [put, hk], rfl, rfl, rfl⟩

/-- **Exactly one serviceAdded per staging → ready and one serviceRemoved per ready → gone, in that
    order**: in every reachable state the events about a service are none (never ready), its
    serviceAdded (ready), or its serviceAdded followed by its serviceRemoved (removed after having
    been ready) — with the service's own name -/
theorem events_once_per_transition (ops : List Op) (k : Nat) :
    (∀ i, (run {} ops).services k = some i → evs (run {} ops) k = [.added k i.name]) ∧
    (∀ i, (run {} ops).staging k = some i → evs (run {} ops) k = []) ∧
    (entry (run {} ops) k = none → evs (run {} ops) k = [] ∨ ∃ n, evs (run {} ops) k = [.added k n, .removed k n]) :=
  ⟨((inv_run {} ops inv_init).events k).1, ((inv_run {} ops inv_init).events k).2.1, ((inv_run {} ops inv_init).events k).2.2.1⟩

/-! ### non-vacuity -/

def exOps : List Op :=
  [.register ⟨5, 0, 1, 1, [1]⟩, .register ⟨6, 0, 1, 1, [1]⟩, .register ⟨5, 0, 1, 1, [1]⟩, .ready 1, .register ⟨0, 0, 1, 1, [1]⟩,
   .update ⟨5, 1, 2, 2, [3]⟩, .update ⟨6, 1, 2, 2, [3]⟩, .unregister 2, .ready 2, .register ⟨6, 0, 1, 1, [1]⟩, .ready 3, .unregister 1]

example : ((list (run {} exOps)).map (fun i => (i.id, i.name)), (run {} exOps).lastID, (run {} exOps).events) =
    ([(3, 6)], 3, [.added 1 5, .added 3 6, .removed 1 5]) := by decide

/-! ### why the check and the write of an update are one critical section -/

/-- `UpdateServiceInfo` cut in two: the validation, the look-up and the name check … -/
def updateCheck (d : Dir) (i : Info) : Bool :=
  checkInfo i && (match d.services i.id with | some old => old.name == i.name | none => false)

/-- … and the write, whatever has happened in between (seeded change C15l) -/
def updateWrite (d : Dir) (i : Info) : Dir := { d with services := put d.services i.id (some i) }

/-- the update of the model is the two halves with nothing in between -/
theorem update_is_check_then_write (d : Dir) (i : Info) :
    update d i = if updateCheck d i then (updateWrite d i, true) else (d, false) := by
  unfold update updateCheck updateWrite
  cases hc : checkInfo i <;> simp only [Bool.not_true, Bool.not_false, Bool.false_eq_true, if_true, if_false, Bool.false_and, Bool.true_and]
  cases hs : d.services i.id with
  | none => simp
  | some old => cases hn : (old.name == i.name) <;> simp [bne, hn]

/-- after the removal an update of that service is refused and changes nothing: there is nothing to update -/
theorem update_after_unregister_is_refused (d : Dir) (i : Info) (h : (unregister d i.id).2 = true) :
    update (unregister d i.id).1 i = ((unregister d i.id).1, false) := by
  have gone : (unregister d i.id).1.services i.id = none := by
    unfold unregister
    cases hs : d.services i.id with
    | some o => simp [put]
    | none =>
      cases hg : d.staging i.id with
      | some o => simp [hs]
      | none => simp [hs]
  unfold update
  split
  · rfl
  · simp [gone]

/-- an unregistration between the two halves: both report success, and the service that was removed is found and
    listed again — no second `serviceAdded`, its name taken for good -/
theorem split_update_revives :
    let d0 := run {} [.register ⟨5, 0, 1, 1, [1]⟩, .ready 1]
    let i : Info := ⟨5, 1, 1, 1, [2]⟩
    let d1 := (unregister d0 1).1
    let d2 := updateWrite d1 i
    updateCheck d0 i = true ∧ (unregister d0 1).2 = true ∧ lookup d1 5 = none ∧
      lookup d2 5 = some i ∧ d2.events = [.added 1 5, .removed 1 5] ∧ (register d2 ⟨5, 0, 1, 1, [1]⟩).2 = none := by
  decide

/-- `ServiceReady` that takes its copy of the published services *before* it has the mutex: the move from staging to the
    services happens on that copy, which then replaces whatever was published meanwhile -/
def readyOnCopy (copy : Nat → Option Info) (d : Dir) (id : Nat) : Dir × Bool :=
  match d.staging id with
  | some i => ({ d with staging := put d.staging id none, services := put copy id (some i),
                        events := d.events ++ [.added id i.name] }, true)
  | none => (d, false)

/-- **A copy taken before the lock republishes a stale set**: two services are registered; the `ServiceReady` of the
    second takes its copy, then waits for the mutex while the first becomes ready; the stale copy is published: the first
    service — ready, announced, never unregistered — is not found and not listed (the seeded change C15o).  With `ready`
    in its place both are found. -/
theorem stale_copy_loses_a_service :
    let d0 := run {} [.register ⟨5, 0, 1, 1, [1]⟩, .register ⟨6, 0, 1, 1, [1]⟩]
    let copy := d0.services
    let d1 := (ready d0 1).1
    let d2 := (readyOnCopy copy d1 2).1
    (readyOnCopy copy d1 2).2 = true ∧ lookup d2 5 = none ∧ (lookup d2 6).isSome = true ∧
      d2.events = [.added 1 5, .added 2 6] ∧
      (lookup (ready d1 2).1 5).isSome = true ∧ (lookup (ready d1 2).1 6).isSome = true := by
  decide


end QiVerif.C15
