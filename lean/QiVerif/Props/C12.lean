/-
  C12 — one client cannot stop a service from serving others (the part a model can carry).
  Theorems about Model/Robust.lean: whatever subscription requests and disconnects the clients
  issue, in whatever order, the goroutine of the object never locks a mutex it already holds.
  What remains true of the code and contradicts the property is recorded as refutation theorems
  (a client that does not read its replies) and as known findings.
-/
import QiVerif.Model.Robust
set_option linter.unusedSimpArgs false
set_option linter.unusedVariables false
namespace QiVerif.C12
open QiVerif QiVerif.Robust

structure Inv (s : St) : Prop where
  free : s.held = []
  slotsNodup : (s.users.map (·.slot)).Nodup
  fresh : ∀ u ∈ s.users, u.slot < s.nextSlot
  slotsBound : ∀ k ∈ s.slots, k < s.nextSlot

theorem inv_init : Inv {} := ⟨rfl, by simp, by simp, by simp⟩

theorem acquire_free (s : St) (m : Mutex) (h : s.held = []) : acquire s m = some { s with held := [m] } := by
  simp [acquire, h]

theorem release_one (s : St) (m : Mutex) (h : s.held = [m]) : (release s m).held = [] := by
  simp [release, h]

/-- removing a handler that no registered user owns: the callback finds nobody, nothing is locked twice -/
theorem removeHandler_unowned (f : Nat) (s : St) (slot : Nat) (hf : s.held = [])
    (hno : ∀ u ∈ s.users, u.slot ≠ slot) :
    (removeHandler (f + 1) s slot).2 ≠ .stuck ∧ (removeHandler (f + 1) s slot).1.held = [] ∧
    (removeHandler (f + 1) s slot).1.users = s.users ∧ (removeHandler (f + 1) s slot).1.nextSlot = s.nextSlot ∧
    (∀ k ∈ (removeHandler (f + 1) s slot).1.slots, k ∈ s.slots) := by
  unfold removeHandler
  rw [acquire_free s .handlers hf]
  simp only
  have hnone : s.users.find? (fun u => u.slot == slot) = none := by
    apply List.find?_eq_none.mpr
    intro u hu; simpa using hno u hu
  split
  · simp only [hnone]
    refine ⟨by simp, by simp [release], rfl, rfl, ?_⟩
    intro k hk
    simp only [release] at hk
    exact List.mem_of_mem_erase hk
  · refine ⟨by simp, by simp [release], rfl, rfl, ?_⟩
    intro k hk; simpa [release] using hk

theorem nodup_erase_slots (us : List User) (u : User) (h : (us.map (·.slot)).Nodup) (hu : u ∈ us) :
    ((us.erase u).map (·.slot)).Nodup ∧ ∀ v ∈ us.erase u, v.slot ≠ u.slot := by
  induction us with
  | nil => cases hu
  | cons x r ih =>
    simp only [List.map_cons, List.nodup_cons] at h
    by_cases hx : x = u
    · subst hx
      simp only [List.erase_cons_head]
      refine ⟨h.2, ?_⟩
      intro v hv e
      exact h.1 (List.mem_map.mpr ⟨v, hv, e⟩)
    · have hur : u ∈ r := by
        rcases List.mem_cons.mp hu with e | e
        · exact absurd e.symm hx
        · exact e
      have hxe : (x == u) = false := by simpa using hx
      simp only [List.erase_cons, hxe, Bool.false_eq_true, if_false]
      obtain ⟨i1, i2⟩ := ih h.2 hur
      refine ⟨?_, ?_⟩
      · simp only [List.map_cons, List.nodup_cons]
        refine ⟨?_, i1⟩
        intro hm
        obtain ⟨v, hv, e⟩ := List.mem_map.mp hm
        exact h.1 (List.mem_map.mpr ⟨v, List.mem_of_mem_erase hv, e⟩)
      · intro v hv
        rcases List.mem_cons.mp hv with e | e
        · subst e
          intro e2
          exact h.1 (List.mem_map.mpr ⟨u, hur, e2.symm⟩)
        · exact i2 v e

/-- `removeSignalUser` from the object's goroutine (no lock held): never stuck, invariant kept -/
theorem removeSignalUser_ok (f : Nat) (s : St) (uid conn : Nat) (h : Inv s) :
    (removeSignalUser (f + 2) s uid conn).2 ≠ .stuck ∧ Inv (removeSignalUser (f + 2) s uid conn).1 := by
  unfold removeSignalUser
  rw [acquire_free s .signals h.free]
  simp only
  cases hfind : s.users.find? (fun u => u.uid == uid && u.conn == conn) with
  | none =>
    simp only
    exact ⟨by simp, ⟨by simp [release], h.slotsNodup, h.fresh, h.slotsBound⟩⟩
  | some u =>
    simp only
    have hu : u ∈ s.users := List.mem_of_find?_eq_some hfind
    obtain ⟨n1, n2⟩ := nodup_erase_slots s.users u h.slotsNodup hu
    have hs2 : (release { s with held := [Mutex.signals], users := s.users.erase u } Mutex.signals).held = [] := by simp [release]
    obtain ⟨r1, r2, r3, r4, r5⟩ := removeHandler_unowned f (release { s with held := [Mutex.signals], users := s.users.erase u } Mutex.signals)
      u.slot hs2 (by simpa [release] using n2)
    refine ⟨?_, ?_⟩
    · split
      · rename_i hst; exact absurd (by simpa using hst) r1
      · simp
    · refine ⟨r2, ?_, ?_, ?_⟩
      · rw [r3]; simpa [release] using n1
      · intro v hv
        rw [r3] at hv; rw [r4]
        exact h.fresh v (List.mem_of_mem_erase (by simpa [release] using hv))
      · intro k hk
        rw [r4]
        exact h.slotsBound k (by simpa [release] using r5 k hk)

theorem addUser_ok (s : St) (uid conn : Nat) (h : Inv s) : (addUser s uid conn).2 ≠ .stuck ∧ Inv (addUser s uid conn).1 := by
  unfold addUser
  rw [acquire_free s .signals h.free]
  simp only
  split
  · exact ⟨by simp, ⟨by simp [release], h.slotsNodup, h.fresh, h.slotsBound⟩⟩
  · simp only [makeHandler, acquire, release]
    simp
    refine ⟨by simp, ?_, ?_, ?_⟩
    · show (List.map (fun x => x.slot) (s.users ++ [{ uid := uid, conn := conn, slot := s.nextSlot }])).Nodup
      rw [List.map_append, List.nodup_append]
      refine ⟨h.slotsNodup, by simp, ?_⟩
      intro a ha b hb
      simp at hb; subst hb
      obtain ⟨v, hv, rfl⟩ := List.mem_map.mp ha
      have := h.fresh v hv; omega
    · intro v hv
      show v.slot < s.nextSlot + 1
      have hv' : v ∈ s.users ++ [{ uid := uid, conn := conn, slot := s.nextSlot }] := hv
      rcases List.mem_append.mp hv' with hv' | hv'
      · have := h.fresh v hv'; omega
      · simp at hv'; subst hv'; simp
    · intro k hk
      show k < s.nextSlot + 1
      have hk' : k ∈ s.nextSlot :: s.slots := hk
      rcases List.mem_cons.mp hk' with e | e
      · omega
      · have := h.slotsBound k e; omega

theorem closeConn_ok (f : Nat) (s : St) (conn : Nat) (h : Inv s) : (closeConn f s conn).2 ≠ .stuck ∧ Inv (closeConn f s conn).1 := by
  induction f generalizing s with
  | zero => exact ⟨by simp [closeConn], h⟩
  | succ n ih =>
    unfold closeConn
    cases hf : s.users.find? (fun u => u.conn == conn) with
    | none => exact ⟨by simp, h⟩
    | some u =>
      simp only
      have hinv : Inv { s with slots := s.slots.erase u.slot } :=
        ⟨h.free, h.slotsNodup, h.fresh, fun k hk => h.slotsBound k (List.mem_of_mem_erase hk)⟩
      obtain ⟨r1, r2⟩ := removeSignalUser_ok (fuel - 2) { s with slots := s.slots.erase u.slot } u.uid u.conn hinv
      have hfu : fuel - 2 + 2 = fuel := rfl
      rw [hfu] at r1 r2
      split
      · rename_i hst; exact absurd (by simpa using hst) r1
      · exact ih _ r2

theorem serve_ok (s : St) (r : Req) (h : Inv s) : (serve s r).2 ≠ .stuck ∧ Inv (serve s r).1 := by
  cases r with
  | register uid conn => exact addUser_ok s uid conn h
  | unregister uid conn => exact removeSignalUser_ok (fuel - 2) s uid conn h
  | disconnect conn => exact closeConn_ok _ s conn h

/-- **The object's goroutine survives every sequence of subscription requests**: repeated and
    conflicting registrations, unregistrations of unknown or foreign ids, disconnects at any
    point, from any number of connections — it never blocks on a mutex it holds itself -/
theorem object_stays_alive (reqs : List Req) : (run {} reqs).2 = true := by
  have : ∀ s, Inv s → (run s reqs).2 = true := by
    induction reqs with
    | nil => intro s _; rfl
    | cons r rest ih =>
      intro s h
      obtain ⟨h1, h2⟩ := serve_ok s r h
      unfold run
      simp only
      split
      · rename_i hst; exact absurd (by simpa using hst) h1
      · exact ih _ h2
  exact this {} inv_init

/-- a registration with an id that is already registered is refused and leaves the existing
    subscription alone -/
theorem duplicate_is_refused (s : St) (uid conn : Nat) (h : Inv s) (hd : s.users.any (·.uid == uid) = true) :
    (addUser s uid conn).2 = .err ∧ (addUser s uid conn).1.users = s.users := by
  unfold addUser
  rw [acquire_free s .signals h.free]
  simp [hd, release]

/-! ### what the repair was needed for, and what remains -/

/-- before 7dc3b12: the second registration of an id removes the existing user's handler, whose
    close callback unregisters the user and removes the handler again under the same lock -/
theorem old_registration_deadlocks :
    (addUserOld (addUserOld {} 42 0).1 42 0).2 = .stuck := by decide

example : (run {} [.register 42 0, .register 42 0, .unregister 42 1, .unregister 42 0]).2 = true := by decide
example : (run {} [.register 7 1, .disconnect 1]).2 = true := by decide

/-- a client that stops reading: the object writes its replies into that client's connection and is
    blocked once the transport's buffer is full — every other client of the object waits with it
    (known finding: not repaired) -/
theorem unread_replies_block_the_object (room size : Nat) (hs : 0 < size) :
    writeReplies room (List.replicate (room / size + 1) size) = false := by
  induction hn : room / size generalizing room with
  | zero =>
    have : room < size := by
      rcases Nat.lt_or_ge room size with h | h
      · exact h
      · have := Nat.div_pos h hs; omega
    simp [writeReplies]; omega
  | succ n ih =>
    have hge : size ≤ room := by
      rcases Nat.lt_or_ge room size with h | h
      · rw [Nat.div_eq_of_lt h] at hn; cases hn
      · exact h
    have hdiv : (room - size) / size = n := by
      rw [Nat.div_eq_sub_div hs hge] at hn
      omega
    rw [List.replicate_succ]
    simp only [writeReplies, hge, if_true]
    exact ih (room - size) hdiv

end QiVerif.C12
