/-
  C04 for posts the server forwards to an object hosted by a client (Model/ForwardPost.lean): for every interleaving
  of callers, hosts, forwarding goroutines, their answers and the forwarding of posts, a forwarded post is a post on
  the connection to the host (run at most once, never answered there), nothing comes back to its sender, it is sent
  on at most once, and no answering goroutine is ever started for it.  The forwarder without the guard on the message
  type answers a post (a witness, by evaluation).
-/
import QiVerif.Model.ForwardPost
import QiVerif.Props.C04Forward
set_option linter.unusedSimpArgs false
set_option linter.unusedVariables false
namespace QiVerif.ForwardPost
open QiVerif QiVerif.Calls QiVerif.Forward QiVerif.C04

/-- request `p.1` is a post for a client object and message `p.2` of the connection to its host is that post: a post,
    same service and action, the object's identifier on the host's side, the post's own argument -/
def PLink (g : Cfg) (s : PSys) (p : Nat × Nat) : Prop :=
  ∃ c cj, s.f.out.calls[p.1]? = some c ∧ s.f.inn.calls[p.2]? = some cj ∧ forwarded g c = true ∧ c.isPost = true ∧
    cj.isPost = true ∧ cj.key.svc = c.key.svc ∧ cj.key.obj = g.remote c.key.svc c.key.obj ∧ cj.key.act = c.key.act ∧
    cj.arg = c.arg

structure PInv (g : Cfg) (s : PSys) : Prop where
  base : FInv g s.f
  links : ∀ p ∈ s.sentOn, PLink g s p
  once : (s.sentOn.map (·.1)).Nodup

theorem pinv_init (g : Cfg) : PInv g {} := ⟨finv_init g, by simp, by simp⟩

theorem plink_keeps (g : Cfg) (s s' : PSys) (p : Nat × Nat) (h : PLink g s p)
    (ho : Keeps s.f.out.calls s'.f.out.calls) (hn : Keeps s.f.inn.calls s'.f.inn.calls) : PLink g s' p := by
  obtain ⟨c, cj, h1, h2, h3, h4, h5, h6, h7, h8, h9⟩ := h
  obtain ⟨c', hc', ⟨k1, k2, k3⟩⟩ := ho p.1 c h1
  obtain ⟨cj', hcj', ⟨m1, m2, m3⟩⟩ := hn p.2 cj h2
  refine ⟨c', cj', hc', hcj', ?_, ?_, ?_, ?_, ?_, ?_, ?_⟩
  · unfold forwarded at *; rw [k1]; exact h3
  · rw [k3]; exact h4
  · rw [m3]; exact h5
  · rw [m1, k1]; exact h6
  · rw [m1, k1]; exact h7
  · rw [m1, k1]; exact h8
  · rw [m2, k2]; exact h9

theorem keeps_stepF (g : Cfg) (s : FSys) (a : FAct) :
    Keeps s.out.calls (stepF g s a).out.calls ∧ Keeps s.inn.calls (stepF g s a).inn.calls := by
  cases a with
  | out a => exact ⟨keeps_outStep g s.out a, keeps_refl _⟩
  | inn a => exact ⟨keeps_refl _, keeps_innStep g s.inn a⟩
  | forward i =>
    simp only [stepF]
    cases hc : s.out.calls[i]? with
    | none => exact ⟨keeps_refl _, keeps_refl _⟩
    | some c =>
      simp only
      split
      · exact ⟨keeps_refl _, keeps_call _ _ _ _ _ _ _⟩
      · exact ⟨keeps_refl _, keeps_refl _⟩
  | answer k =>
    simp only [stepF]
    cases hf : s.fwd[k]? with
    | none => exact ⟨keeps_refl _, keeps_refl _⟩
    | some fw =>
      simp only
      split
      · exact ⟨keeps_refl _, keeps_refl _⟩
      · cases h2 : s.inn.calls[fw.inner]? with
        | none => exact ⟨keeps_refl _, keeps_refl _⟩
        | some cj =>
          cases h1 : s.out.calls[fw.outer]? with
          | none => exact ⟨keeps_refl _, keeps_refl _⟩
          | some c =>
            simp only
            cases ho : cj.outcome with
            | none => exact ⟨keeps_refl _, keeps_refl _⟩
            | some r =>
              simp only
              split
              · exact ⟨keeps_refl _, keeps_refl _⟩
              · have hsame : SameId (answerRec c r) c := by cases r <;> exact ⟨rfl, rfl, rfl⟩
                exact ⟨keeps_set _ _ c _ h1 hsame, keeps_refl _⟩

theorem pinv_step (g : Cfg) (s : PSys) (a : PAct) (hi : PInv g s) : PInv g (stepP g s a) := by
  cases a with
  | base a =>
    refine ⟨finv_step g s.f a hi.base, ?_, hi.once⟩
    intro p hp
    exact plink_keeps g s _ p (hi.links p hp) (keeps_stepF g s.f a).1 (keeps_stepF g s.f a).2
  | forwardPost i =>
    simp only [stepP]
    cases hc : s.f.out.calls[i]? with
    | none => exact hi
    | some c =>
      simp only
      split
      · rename_i hcond
        simp only [Bool.and_eq_true, Bool.not_eq_true', beq_iff_eq] at hcond
        obtain ⟨⟨⟨hs, hp⟩, hf⟩, hnew⟩ := hcond
        refine ⟨⟨hi.base.out, inv_post _ _ _ _ _ _ _ _ hi.base.inn, ?_⟩, ?_, ?_⟩
        · intro fw hfw
          exact link_keeps g s.f _ fw (hi.base.links fw hfw) (keeps_refl _) (keeps_post _ _ _ _ _ _ _)
        · intro p hp'
          rcases List.mem_append.mp hp' with hp' | hp'
          · exact plink_keeps g s _ p (hi.links p hp') (keeps_refl _) (keeps_post _ _ _ _ _ _ _)
          · simp only [List.mem_singleton] at hp'
            subst hp'
            refine ⟨c, { conn := 0, key := ⟨c.key.svc, g.remote c.key.svc c.key.obj, c.key.act, c.key.id⟩, arg := c.arg, isPost := true }, hc, ?_, hf, hp, rfl, rfl, rfl, rfl, rfl⟩
            simp [post]
        · rw [List.map_append, List.nodup_append]
          refine ⟨hi.once, by simp, ?_⟩
          intro a ha b hb
          simp only [List.map_cons, List.map_nil, List.mem_singleton] at hb
          subst hb
          intro hab; subst hab
          obtain ⟨q, hq, hq1⟩ := List.mem_map.mp ha
          have := List.any_eq_false.mp hnew q hq
          simp [hq1] at this
      · exact hi

theorem pinv_run (g : Cfg) (s : PSys) (as : List PAct) (hi : PInv g s) : PInv g (runP g s as) := by
  induction as generalizing s with
  | nil => exact hi
  | cons a r ih => exact ih _ (pinv_step g s a hi)

/-! ### C04, for forwarded posts -/

theorem good_post (env : Env) (c : CallRec) (hg : Good env c) (hp : c.isPost = true) :
    c.responses = 0 ∧ c.execs ≤ 1 ∧ c.outcome = none := by
  unfold Good at hg
  split at hg
  · exact ⟨hg.2.1, by omega, hg.2.2⟩
  · rw [hg.1] at hp; cases hp
  · rw [if_pos hp] at hg
    exact ⟨hg.2.2.1, hg.2.1, hg.1⟩

/-- **A forwarded post is a post.**  On every interleaving of callers, hosts, forwarding goroutines, their answers and
    the forwarding of posts: a post for a client object is sent on to the host as a post — the object's identifier on
    the host's side, the post's own argument; the host runs it at most once; nothing is sent back for it on the
    connection to the host, and nothing to the sender of the post. -/
theorem forwarded_post_is_a_post (g : Cfg) (as : List PAct) (p : Nat × Nat) (hp : p ∈ (runP g {} as).sentOn) :
    ∃ c cj, (runP g {} as).f.out.calls[p.1]? = some c ∧ (runP g {} as).f.inn.calls[p.2]? = some cj ∧
      cj.isPost = true ∧ cj.key.obj = g.remote c.key.svc c.key.obj ∧ cj.key.act = c.key.act ∧ cj.arg = c.arg ∧
      c.responses = 0 ∧ c.outcome = none ∧ cj.responses = 0 ∧ cj.execs ≤ 1 := by
  have hi := pinv_run g {} as (pinv_init g)
  obtain ⟨c, cj, h1, h2, h3, h4, h5, h6, h7, h8, h9⟩ := hi.links p hp
  have go := good_post _ c (hi.base.out.good _ c h1) h4
  have gi := good_post _ cj (hi.base.inn.good _ cj h2) h5
  exact ⟨c, cj, h1, h2, h5, h7, h8, h9, go.1, go.2.2, gi.1, gi.2.1⟩

/-- a post is sent on at most once -/
theorem forwarded_post_sent_on_once (g : Cfg) (as : List PAct) : ((runP g {} as).sentOn.map (·.1)).Nodup :=
  (pinv_run g {} as (pinv_init g)).once

/-- no goroutine that answers is ever started for a post: what `handleCall` holds is a call -/
theorem no_answering_goroutine_for_a_post (g : Cfg) (as : List PAct) (fw : Fwd) (hfw : fw ∈ (runP g {} as).f.fwd) :
    ∃ c, (runP g {} as).f.out.calls[fw.outer]? = some c ∧ c.isPost = false := by
  obtain ⟨c, _, h1, _, _, h4, _⟩ := (pinv_run g {} as (pinv_init g)).base.links fw hfw
  exact ⟨c, h1, h4⟩

/-- every request of the callers' side — forwarded or not, call or post — satisfies the invariant of the plain call
    machine, with the forwarding of posts in the interleaving too -/
theorem with_posts_forwarded_still_a_call_machine (g : Cfg) (as : List PAct) : Inv g.env (runP g {} as).f.out :=
  (pinv_run g {} as (pinv_init g)).base.out

/-! ### non-vacuity, and what the guard `!c.isPost` of the call forwarder is for -/

def exPostActs : List PAct :=
  [.base (.out (.post 1 5 9 200 41 3)), .base (.out (.call 0 1 5 9 200 4)), .forwardPost 0, .base (.forward 0), .base (.forward 1),
   .forwardPost 0, .base (.inn (.serve 0)), .base (.inn (.serve 1)), .base (.inn (.deliver 1)), .base (.answer 0),
   .base (.out (.deliver 1))]

example : (runP exCfg {} exPostActs).sentOn = [(0, 0)] ∧
    ((runP exCfg {} exPostActs).f.out.calls.map (fun c => (c.isPost, c.responses, c.outcome))) =
      [(true, 0, none), (false, 1, some (.reply 40))] ∧
    ((runP exCfg {} exPostActs).f.inn.calls.map (fun c => (c.isPost, c.execs, c.responses))) =
      [(true, 1, 0), (false, 1, 1)] := by decide

/-- **Posts put through the call forwarder are answered.**  With the guard gone — a post handed to `handleCall` like a
    call — the host is *called*, answers, and the goroutine sends that answer to the sender of the post: one response
    for a message that must have none. -/
theorem posts_forwarded_like_calls_are_answered :
    ((runLoose exCfg {} [.out (.post 1 5 9 200 41 3), .forward 0, .inn (.serve 0), .inn (.deliver 0), .answer 0]).out.calls.map
      (fun c => (c.isPost, c.responses))) = [(true, 1)] := by decide

end QiVerif.ForwardPost
