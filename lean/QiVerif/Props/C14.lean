/-
  C14 — a property is an atomic, typed register with validated writes and change events.
  Theorems about Model/Property.lean, for every declaration set, every validator, every
  operation sequence, and every interleaving of the internal steps of concurrent writes.
-/
import QiVerif.Model.Property
set_option linter.unusedSimpArgs false
set_option linter.unusedVariables false
namespace QiVerif.C14
open QiVerif QiVerif.Property

/-- every stored value has the declared type of its property -/
def Typed (cfg : Cfg) (props : List (Nat × PVal)) : Prop :=
  ∀ p ∈ props, ∃ d ∈ cfg.decls, d.name = p.1 ∧ p.2.sig = d.sig

theorem declByName_spec (cfg : Cfg) (n : Nat) (d : Decl) (h : declByName cfg n = some d) : d ∈ cfg.decls ∧ d.name = n := by
  unfold declByName at h
  exact ⟨List.mem_of_find?_eq_some h, by simpa using List.find?_some h⟩

theorem declById_spec (cfg : Cfg) (i : Nat) (d : Decl) (h : declById cfg i = some d) : d ∈ cfg.decls ∧ d.id = i := by
  unfold declById at h
  exact ⟨List.mem_of_find?_eq_some h, by simpa using List.find?_some h⟩

/-- what an accepted write has passed: the property is declared, the value has the declared type,
    the implementor's validator accepts the data -/
theorem check_ok (cfg : Cfg) (nm : Name) (v : PVal) (d : Decl) (h : check cfg nm v = .ok d) :
    d ∈ cfg.decls ∧ v.sig = d.sig ∧ cfg.valid d.name v.data = true ∧
    (∀ n, nm = .byName n → d.name = n) ∧ (∀ i, nm = .byId i → ∃ d', declById cfg i = some d' ∧ d'.name = d.name) := by
  unfold check at h
  have core : ∀ n, (match declByName cfg n with
      | none => (Except.error Err.unknownProperty : Except Err Decl)
      | some d => if v.sig != d.sig then .error .wrongType else if !cfg.valid n v.data then .error .rejected else .ok d) = .ok d →
      d ∈ cfg.decls ∧ v.sig = d.sig ∧ cfg.valid d.name v.data = true ∧ d.name = n := by
    intro n hn
    cases hd : declByName cfg n with
    | none => rw [hd] at hn; cases hn
    | some d0 =>
      rw [hd] at hn
      simp only at hn
      split at hn
      · cases hn
      · rename_i hs
        split at hn
        · cases hn
        · rename_i hv
          injection hn with hn; subst hn
          obtain ⟨h1, h2⟩ := declByName_spec cfg n d0 hd
          exact ⟨h1, by simpa using hs, by rw [h2]; simpa using hv, h2⟩
  cases nm with
  | byName n =>
    simp only at h
    obtain ⟨h1, h2, h3, h4⟩ := core n h
    exact ⟨h1, h2, h3, (fun m hm => by injection hm with hm; rw [← hm]; exact h4), (fun i hi => by cases hi)⟩
  | byId i =>
    simp only at h
    cases hdi : declById cfg i with
    | none => rw [hdi] at h; cases h
    | some d' =>
      rw [hdi] at h
      obtain ⟨h1, h2, h3, h4⟩ := core d'.name h
      exact ⟨h1, h2, h3, (fun m hm => by cases hm), (fun j hj => by injection hj with hj; subst hj; exact ⟨d', hdi, h4.symm⟩)⟩
  | other => simp at h

theorem typed_save (cfg : Cfg) (s : St) (d : Decl) (v : PVal) (hd : d ∈ cfg.decls) (hs : v.sig = d.sig)
    (h : Typed cfg s.props) : Typed cfg (save s d.name v).props := by
  intro p hp
  simp only [save, List.mem_cons] at hp
  rcases hp with rfl | hp
  · exact ⟨d, hd, rfl, hs⟩
  · exact h p hp

theorem typed_step (cfg : Cfg) (s : St) (op : Op) (h : Typed cfg s.props) : Typed cfg (step cfg s op).props := by
  cases op with
  | set nm v =>
    simp only [step, setProp]
    cases hc : check cfg nm v with
    | error e => exact h
    | ok d =>
      obtain ⟨h1, h2, _⟩ := check_ok cfg nm v d hc
      exact typed_save cfg s d v h1 h2 h
  | update id data =>
    simp only [step, updateProp]
    cases hd : declById cfg id with
    | none => exact h
    | some d =>
      simp only
      split
      · exact h
      · exact typed_save cfg s d ⟨d.sig, data⟩ (declById_spec cfg id d hd).1 rfl h

/-- **Typed**: after any sequence of client writes (well or wrongly typed, by name or id, valid or
    not) and service-side updates, every property holds a value of its declared type -/
theorem always_typed (cfg : Cfg) (ops : List Op) : Typed cfg (run cfg {} ops).props := by
  have : ∀ s, Typed cfg s.props → Typed cfg (run cfg s ops).props := by
    induction ops with
    | nil => intro s h; exact h
    | cons o r ih => intro s h; exact ih _ (typed_step cfg s o h)
  exact this {} (by intro p hp; cases hp)

/-- … and so a read, whenever it happens, returns a value of the declared type -/
theorem read_is_typed (cfg : Cfg) (ops : List Op) (n : Nat) (v : PVal) (h : (run cfg {} ops).get n = some v) :
    ∃ d ∈ cfg.decls, d.name = n ∧ v.sig = d.sig := by
  unfold St.get at h
  cases hf : (run cfg {} ops).props.find? (·.1 == n) with
  | none => rw [hf] at h; cases h
  | some p =>
    rw [hf] at h; injection h with h; subst h
    obtain ⟨d, hd, h1, h2⟩ := always_typed cfg ops p (List.mem_of_find?_eq_some hf)
    have : p.1 = n := by simpa using List.find?_some hf
    exact ⟨d, hd, by rw [h1, this], h2⟩

/-- **A rejected write changes nothing and emits nothing** (unknown property, wrong type, a value of
    the wrong kind as name, unknown id, or the validator's refusal) -/
theorem rejected_write_is_noop (cfg : Cfg) (s : St) (nm : Name) (v : PVal) (e : Err)
    (h : (setProp cfg s nm v).2 = .error e) : (setProp cfg s nm v).1 = s := by
  unfold setProp at h ⊢
  cases hc : check cfg nm v with
  | error e' => rfl
  | ok d => rw [hc] at h; cases h

/-- **An accepted write is the value a read returns next, and emits exactly one change event
    carrying it** -/
theorem accepted_write_effect (cfg : Cfg) (s : St) (nm : Name) (v : PVal) (h : (setProp cfg s nm v).2 = .ok ()) :
    ∃ d, check cfg nm v = .ok d ∧ (setProp cfg s nm v).1.get d.name = some v ∧
      (setProp cfg s nm v).1.events = s.events ++ [(d.id, v)] ∧
      ∀ n, n ≠ d.name → (setProp cfg s nm v).1.get n = s.get n := by
  unfold setProp at h ⊢
  cases hc : check cfg nm v with
  | error e => rw [hc] at h; cases h
  | ok d =>
    refine ⟨d, rfl, ?_, rfl, ?_⟩
    · simp [St.get, notify, save]
    · intro n hn
      have : (d.name == n) = false := by simpa using fun e => hn e.symm
      simp [St.get, notify, save, List.find?_cons, this]

theorem update_effect (cfg : Cfg) (s : St) (id data : Nat) :
    ((updateProp cfg s id data).2 = .ok () →
      ∃ d, declById cfg id = some d ∧ (updateProp cfg s id data).1.get d.name = some ⟨d.sig, data⟩ ∧
        (updateProp cfg s id data).1.events = s.events ++ [(d.id, ⟨d.sig, data⟩)]) ∧
    (∀ e, (updateProp cfg s id data).2 = .error e → (updateProp cfg s id data).1 = s) := by
  unfold updateProp
  cases hd : declById cfg id with
  | none => exact ⟨(fun h => by cases h), (fun e _ => rfl)⟩
  | some d =>
    simp only
    split
    · exact ⟨(fun h => by cases h), (fun e _ => rfl)⟩
    · exact ⟨(fun _ => ⟨d, rfl, by simp [St.get, notify, save], rfl⟩), (fun e h => by cases h)⟩

/-! ### concurrent writers: one order of writes, that of their save steps -/

structure CInv (cfg : Cfg) (c : Conc) : Prop where
  /-- the register is exactly the committed writes, latest first: a read returns the most recent one -/
  props : c.st.props = c.committed.reverse
  typed : Typed cfg c.committed
  /-- a write in progress has passed the checks -/
  threads : ∀ (t : Nat) (p : Phase), c.threads[t]? = some (some p) →
    match p with
    | Phase.checked d v => d ∈ cfg.decls ∧ v.sig = d.sig
    | Phase.saved d v => d ∈ cfg.decls ∧ v.sig = d.sig

theorem setThread_get (ts : List (Option Phase)) (t j : Nat) (p q : Option Phase) (h : (setThread ts t p)[j]? = some q) :
    (j = t ∧ q = p) ∨ (j ≠ t ∧ (ts[j]? = some q ∨ q = none)) := by
  unfold setThread at h
  split at h
  · rename_i hlt
    by_cases hj : t = j
    · subst hj; rw [List.getElem?_set_self hlt] at h; injection h with h; exact Or.inl ⟨rfl, h.symm⟩
    · rw [List.getElem?_set_ne hj] at h; exact Or.inr ⟨fun e => hj e.symm, Or.inl h⟩
  · rename_i hge
    have hge' : ts.length ≤ t := by omega
    by_cases hj : j = t
    · subst hj
      left; refine ⟨rfl, ?_⟩
      rw [List.getElem?_append_right (by simp; omega)] at h
      simp at h
      have : j - (ts.length + (j - ts.length)) = 0 := by omega
      rw [this] at h; simpa using h.symm
    · right; refine ⟨hj, ?_⟩
      rcases Nat.lt_or_ge j ts.length with hlt | hge2
      · rw [List.append_assoc, List.getElem?_append_left hlt] at h; exact Or.inl h
      · right
        rw [List.append_assoc, List.getElem?_append_right hge2] at h
        rcases Nat.lt_or_ge (j - ts.length) (t - ts.length) with h1 | h1
        · rw [List.getElem?_append_left (by simpa using h1)] at h
          rw [List.getElem?_replicate] at h
          split at h
          · injection h with h; exact h.symm
          · cases h; rfl
        · rw [List.getElem?_append_right (by simpa using h1)] at h
          simp at h
          have : j - ts.length - (t - ts.length) ≠ 0 := by omega
          cases hz : j - ts.length - (t - ts.length) with
          | zero => exact absurd hz this
          | succ n => rw [hz] at h; simp at h

theorem cinv_init (cfg : Cfg) : CInv cfg {} where
  props := rfl
  typed := by intro p hp; cases hp
  threads := by intro t p h; simp at h

theorem cinv_step (cfg : Cfg) (c : Conc) (a : CAct) (h : CInv cfg c) : CInv cfg (cstep cfg c a) := by
  have keepThreads : ∀ (t : Nat) (np : Option Phase),
      (∀ p, np = some p → match p with
        | Phase.checked d v => d ∈ cfg.decls ∧ v.sig = d.sig
        | Phase.saved d v => d ∈ cfg.decls ∧ v.sig = d.sig) →
      ∀ (j : Nat) (p : Phase), (setThread c.threads t np)[j]? = some (some p) →
        match p with
        | Phase.checked d v => d ∈ cfg.decls ∧ v.sig = d.sig
        | Phase.saved d v => d ∈ cfg.decls ∧ v.sig = d.sig := by
    intro t np hnp j p hj
    rcases setThread_get _ _ _ _ _ hj with ⟨_, hq⟩ | ⟨_, hq | hq⟩
    · exact hnp p hq.symm
    · exact h.threads j p hq
    · cases hq
  cases a with
  | begin t op =>
    simp only [cstep]
    split
    · exact h
    · cases op with
      | set nm v =>
        simp only
        cases hc : check cfg nm v with
        | error e => exact h
        | ok d =>
          obtain ⟨h1, h2, _⟩ := check_ok cfg nm v d hc
          exact ⟨h.props, h.typed, keepThreads t _ (by intro p hp; injection hp with hp; subst hp; exact ⟨h1, h2⟩)⟩
      | update id data =>
        simp only
        cases hd : declById cfg id with
        | none => exact h
        | some d =>
          simp only
          split
          · exact ⟨h.props, h.typed, keepThreads t _ (by
              intro p hp; injection hp with hp; subst hp; exact ⟨(declById_spec cfg id d hd).1, rfl⟩)⟩
          · exact h
  | save t =>
    simp only [cstep]
    split
    · rename_i d v hph
      have hin : c.threads[t]? = some (some (.checked d v)) := by
        cases hh : c.threads[t]? with
        | none => rw [hh] at hph; simp at hph
        | some o => rw [hh] at hph; simp at hph; rw [hph]
      have hdv := h.threads t _ hin
      simp only at hdv
      refine ⟨?_, ?_, keepThreads t _ (by intro p hp; injection hp with hp; subst hp; exact hdv)⟩
      · simp [save, h.props]
      · intro p hp
        rcases List.mem_append.mp hp with hp | hp
        · exact h.typed p hp
        · simp at hp; subst hp; exact ⟨d, hdv.1, rfl, hdv.2⟩
    · exact h
  | notify t =>
    simp only [cstep]
    split
    · exact ⟨by simpa [notify] using h.props, h.typed, keepThreads t none (by intro p hp; cases hp)⟩
    · exact h

/-- **One order for all writers.**  However the checks, saves and notifications of concurrent
    writes (clients and the service itself) interleave, the register is at every moment exactly the
    writes committed so far in the order of their save steps — a read returns the most recent one —
    and every committed value has the declared type.  A write's save step lies between its own
    invocation and its own response, so this order is consistent with real time. -/
theorem concurrent_register (cfg : Cfg) (acts : List CAct) :
    (crun cfg {} acts).st.props = (crun cfg {} acts).committed.reverse ∧ Typed cfg (crun cfg {} acts).committed := by
  have : ∀ c, CInv cfg c → CInv cfg (crun cfg c acts) := by
    induction acts with
    | nil => intro c h; exact h
    | cons a r ih => intro c h; exact ih _ (cinv_step cfg c a h)
  have h := this {} (cinv_init cfg)
  exact ⟨h.props, h.typed⟩

/-! ### the properties of one object are registers of their own -/

theorem save_get_self (s : St) (n : Nat) (v : PVal) : (save s n v).get n = some v := by
  simp [save, St.get, List.find?]

/-- a write to one property leaves every other property of the object as it was -/
theorem save_get_other (s : St) (n m : Nat) (v : PVal) (h : m ≠ n) : (save s m v).get n = s.get n := by
  have : (m == n) = false := by simpa using h
  simp [save, St.get, List.find?, this]

/-- **A property is what was last written to it**, whatever is written to the other properties of the object
    meanwhile and however the steps of those writes interleave: the value read is the latest committed write
    *to that property*. -/
theorem independent_registers (cfg : Cfg) (acts : List CAct) (n : Nat) :
    (crun cfg {} acts).st.get n = ((crun cfg {} acts).committed.reverse.find? (·.1 == n)).map (·.2) := by
  unfold St.get
  rw [(concurrent_register cfg acts).1]

/-! ### non-vacuity; and the dispatcher before repair 674b08f -/

def exCfg : Cfg := { decls := [⟨1, 101, 0⟩, ⟨2, 102, 3⟩], valid := fun _ d => d % 7 != 3 }

example :
    let s := run exCfg {} [.set (.byName 1) ⟨0, 5⟩, .set (.byName 1) ⟨4, 6⟩, .set (.byId 102) ⟨3, 8⟩, .set (.byName 1) ⟨0, 10⟩,
      .update 101 9, .set (.byName 9) ⟨0, 1⟩, .set .other ⟨0, 1⟩]
    (s.get 1, s.get 2, s.events) =
      (some ⟨0, 9⟩, some ⟨3, 8⟩, [(101, ⟨0, 5⟩), (102, ⟨3, 8⟩), (101, ⟨0, 9⟩)]) := by decide

end QiVerif.C14
