/-
  C16 / C12 — `Receive` against `Remove` (Model/Mailbox.lean), for any number of senders, any capacity of the mailbox and
  every schedule: the mailbox never exceeds its capacity, nobody is stuck (`not_stuck`: the read lock is released before
  the send into the mailbox, Go's RWMutex with its waiting writer), a message for an object that has been removed is
  refused (`late_sender_is_refused`); and the refutation of the other order (`lock_held_across_the_send_deadlocks`).
-/
import QiVerif.Model.Mailbox
set_option linter.unusedSimpArgs false
set_option linter.unusedVariables false
namespace QiVerif.Mailbox

def inR (pc : Nat) : Bool := pc == 1 || pc == 2
def retPc (pc : Nat) : Bool := pc == 4 || pc == 6

structure Loc (ts : TS) (r : Bool) : Prop where
  pcle : ts.pc ≤ 6
  rd : r = inR ts.pc
  ret : ts.ret ≠ .running → retPc ts.pc = true

structure Inv (n cap : Nat) (s : Sys) : Prop where
  loc : ∀ t, Loc (s.th t) (s.rd t)
  idle : ∀ t, n ≤ t → (s.th t).pc = 0
  wrIn : s.wr = true ↔ s.cph = .inside
  pendW : s.pend = true → s.cph = .wantLock
  excl : s.wr = true → ∀ u, s.rd u = false
  boxle : s.box ≤ cap

theorem inv_init (n cap : Nat) : Inv n cap {} := by
  refine ⟨?_, fun _ _ => rfl, by simp, by simp, by simp, by simp⟩
  intro t; refine ⟨?_, ?_, ?_⟩ <;> simp [inR]

theorem prog_at (pc : Nat) (h : pc ≤ 6) :
    (pc = 0 ∧ prog[pc]? = some .rlock) ∨ (pc = 1 ∧ prog[pc]? = some .lookup) ∨
    (pc = 2 ∧ prog[pc]? = some .runlock) ∨ (pc = 3 ∧ prog[pc]? = some (.ifMissing 1)) ∨
    (pc = 4 ∧ prog[pc]? = some .retErr) ∨ (pc = 5 ∧ prog[pc]? = some .send) ∨
    (pc = 6 ∧ prog[pc]? = some .ret) := by
  have : pc = 0 ∨ pc = 1 ∨ pc = 2 ∨ pc = 3 ∨ pc = 4 ∨ pc = 5 ∨ pc = 6 := by omega
  rcases this with h | h | h | h | h | h | h <;> subst h <;> simp [prog]

/-- every step of a sender keeps the invariant -/
theorem inv_stepS (n cap : Nat) (s s' : Sys) (t : Tid) (hi : Inv n cap s) (hs : stepS prog n cap s t = some s') :
    Inv n cap s' := by
  obtain ⟨hloc, hidle, hwr, hpend, hexcl, hbox⟩ := hi
  have ht := hloc t
  unfold stepS at hs
  simp only at hs
  split at hs
  · cases hs
  rename_i htn
  split at hs
  · cases hs
  rename_i hrun
  have tidle : ∀ u, n ≤ u → u ≠ t := by intro u hu h; omega
  have keep : ∀ (x : TS) (u : Tid), u ≠ t → upd s.th t x u = s.th u := by intro x u hu; simp [upd, hu]
  rcases prog_at (s.th t).pc ht.pcle with ⟨hpc, hp⟩ | ⟨hpc, hp⟩ | ⟨hpc, hp⟩ | ⟨hpc, hp⟩ | ⟨hpc, hp⟩ | ⟨hpc, hp⟩ | ⟨hpc, hp⟩ <;>
    rw [hp] at hs <;> simp only at hs
  · -- rlock
    split at hs
    · cases hs
    rename_i hw
    cases hs
    have hwn : s.wr = false := by cases h : s.wr <;> simp_all
    refine ⟨?_, ?_, hwr, hpend, by simp [hwn], hbox⟩
    · intro u
      by_cases hu : u = t
      · subst hu; refine ⟨?_, ?_, ?_⟩ <;> simp_all [upd, inR, retPc]
      · simpa [upd, hu] using hloc u
    · intro u hu; simp [upd, tidle u hu]; exact hidle u hu
  · -- lookup
    cases hs
    refine ⟨?_, ?_, hwr, hpend, hexcl, hbox⟩
    · intro u
      by_cases hu : u = t
      · subst hu; have := ht.rd; refine ⟨?_, ?_, ?_⟩ <;> simp_all [upd, inR, retPc]
      · simpa [upd, hu] using hloc u
    · intro u hu; simp [upd, tidle u hu]; exact hidle u hu
  · -- runlock
    cases hs
    refine ⟨?_, ?_, hwr, hpend, ?_, hbox⟩
    · intro u
      by_cases hu : u = t
      · subst hu; refine ⟨?_, ?_, ?_⟩ <;> simp_all [upd, inR, retPc]
      · simpa [upd, hu] using hloc u
    · intro u hu; simp [upd, tidle u hu]; exact hidle u hu
    · intro hw u
      by_cases hu : u = t
      · simp [upd, hu]
      · simpa [upd, hu] using hexcl hw u
  · -- ifMissing
    split at hs <;> cases hs
    · refine ⟨?_, ?_, hwr, hpend, hexcl, hbox⟩
      · intro u
        by_cases hu : u = t
        · subst hu; have := ht.rd; refine ⟨?_, ?_, ?_⟩ <;> simp_all [upd, inR, retPc]
        · simpa [upd, hu] using hloc u
      · intro u hu; simp [upd, tidle u hu]; exact hidle u hu
    · refine ⟨?_, ?_, hwr, hpend, hexcl, hbox⟩
      · intro u
        by_cases hu : u = t
        · subst hu; have := ht.rd; refine ⟨?_, ?_, ?_⟩ <;> simp_all [upd, inR, retPc]
        · simpa [upd, hu] using hloc u
      · intro u hu; simp [upd, tidle u hu]; exact hidle u hu
  · -- retErr
    cases hs
    refine ⟨?_, ?_, hwr, hpend, hexcl, hbox⟩
    · intro u
      by_cases hu : u = t
      · subst hu; have := ht.rd; refine ⟨?_, ?_, ?_⟩ <;> simp_all [upd, inR, retPc]
      · simpa [upd, hu] using hloc u
    · intro u hu; simp [upd, tidle u hu]; exact hidle u hu
  · -- send
    split at hs
    · rename_i hlt
      cases hs
      refine ⟨?_, ?_, hwr, hpend, hexcl, by simp; omega⟩
      · intro u
        by_cases hu : u = t
        · subst hu; have := ht.rd; refine ⟨?_, ?_, ?_⟩ <;> simp_all [upd, inR, retPc]
        · simpa [upd, hu] using hloc u
      · intro u hu; simp [upd, tidle u hu]; exact hidle u hu
    · cases hs
  · -- ret
    cases hs
    refine ⟨?_, ?_, hwr, hpend, hexcl, hbox⟩
    · intro u
      by_cases hu : u = t
      · subst hu; have := ht.rd; refine ⟨?_, ?_, ?_⟩ <;> simp_all [upd, inR, retPc]
      · simpa [upd, hu] using hloc u
    · intro u hu; simp [upd, tidle u hu]; exact hidle u hu

/-- every step of the object's goroutine keeps the invariant -/
theorem inv_stepC (n cap : Nat) (s s' : Sys) (b : Bool) (hi : Inv n cap s) (hs : stepC n s b = some s') : Inv n cap s' := by
  obtain ⟨hloc, hidle, hwr, hpend, hexcl, hbox⟩ := hi
  unfold stepC at hs
  split at hs
  · -- idle
    rename_i hph
    split at hs
    · cases hs
      refine ⟨hloc, hidle, ?_, ?_, ?_, by simp; omega⟩
      · simp [hwr, hph]
      · intro hp; have := hpend hp; rw [hph] at this; cases this
      · intro hw; have := hwr.mp hw; rw [hph] at this; cases this
    · cases hs
  · rename_i hph
    cases hs
    refine ⟨hloc, hidle, ?_, ?_, ?_, hbox⟩
    · simp [hwr, hph]
    · intro hp; have := hpend hp; rw [hph] at this; cases this
    · intro hw; have := hwr.mp hw; rw [hph] at this; cases this
  · rename_i hph
    cases hs
    refine ⟨hloc, hidle, ?_, ?_, ?_, hbox⟩
    · simp [hwr, hph]
    · intro _; rfl
    · intro hw; have := hwr.mp hw; rw [hph] at this; cases this
  · -- wantLock
    rename_i hph
    split at hs
    · cases hs
      refine ⟨hloc, hidle, ?_, fun _ => hph, ?_, hbox⟩
      · simpa using hwr
      · intro hw; exact hexcl hw
    · split at hs
      · cases hs
      · rename_i hany
        cases hs
        refine ⟨hloc, hidle, by simp, by simp, ?_, hbox⟩
        intro _ u
        by_cases hun : u < n
        · simp at hany; exact hany u hun
        · have h1 := (hloc u).rd; rw [hidle u (Nat.le_of_not_lt hun)] at h1; simpa [inR] using h1
  · -- inside
    cases hs
    refine ⟨hloc, hidle, by simp, ?_, by simp, hbox⟩
    intro hp; have := hpend hp; rename_i hph; rw [hph] at this; cases this

theorem inv_step (n cap : Nat) (s s' : Sys) (w : Who) (hi : Inv n cap s) (hs : step prog n cap s w = some s') : Inv n cap s' := by
  cases w with
  | sender t => exact inv_stepS n cap s s' t hi hs
  | object b => exact inv_stepC n cap s s' b hi hs

theorem inv_run (n cap : Nat) (s : Sys) (sched : List Who) (hi : Inv n cap s) : Inv n cap (run prog n cap s sched) := by
  induction sched generalizing s with
  | nil => exact hi
  | cons w r ih =>
    simp only [run]
    cases hs : step prog n cap s w with
    | none => exact ih s hi
    | some s' => exact ih s' (inv_step n cap s s' w hi hs)

/-- the mailbox never holds more than its capacity; while the object's goroutine is inside `Remove`'s critical
    section nobody holds the read lock -/
theorem mailbox_bounded (n cap : Nat) (sched : List Who) : (run prog n cap {} sched).box ≤ cap :=
  (inv_run n cap {} sched (inv_init n cap)).boxle

theorem remove_excludes_receivers (n cap : Nat) (sched : List Who) (u : Tid)
    (h : (run prog n cap {} sched).wr = true) : (run prog n cap {} sched).rd u = false :=
  (inv_run n cap {} sched (inv_init n cap)).excl h u

/-- **No deadlock.**  Whatever the senders and the object's goroutine have done — a flood that fills the mailbox, a
    `terminate` among the messages, further senders arriving — as long as some sender has not returned, somebody can
    take a step: the read lock is released before the send into the mailbox, so a sender that waits for room in the
    mailbox never keeps `Remove` from its write lock. -/
theorem not_stuck (n cap : Nat) (hcap : 0 < cap) (sched : List Who) (t : Tid) (htn : t < n)
    (hrun : ((run prog n cap {} sched).th t).ret = .running) :
    ∃ w, (step prog n cap (run prog n cap {} sched) w).isSome = true := by
  have hi := inv_run n cap {} sched (inv_init n cap)
  generalize run prog n cap {} sched = s at *
  obtain ⟨hloc, hidle, hwr, hpend, hexcl, hbox⟩ := hi
  cases hph : s.cph with
  | inside => exact ⟨.object true, by simp [step, stepC, hph]⟩
  | handling b => cases b <;> exact ⟨.object true, by simp [step, stepC, hph]⟩
  | wantLock =>
    by_cases hr : ∃ r, s.rd r = true
    · -- a reader inside moves: its next instruction is the look-up or the unlock
      obtain ⟨r, hr⟩ := hr
      have hl := hloc r
      have hrin : inR (s.th r).pc = true := by have := hl.rd; rw [hr] at this; exact this.symm
      have hrn : r < n := by
        by_cases h : r < n
        · exact h
        · have := hidle r (Nat.le_of_not_lt h); rw [this] at hrin; simp [inR] at hrin
      have hrr : (s.th r).ret = .running := by
        cases hq : (s.th r).ret with
        | running => rfl
        | ok => have := hl.ret (by simp [hq]); simp [retPc, inR] at this hrin; omega
        | err => have := hl.ret (by simp [hq]); simp [retPc, inR] at this hrin; omega
      refine ⟨.sender r, ?_⟩
      simp only [step, stepS, Nat.not_le.mpr hrn, hrr, if_false, ne_eq, not_true_eq_false]
      simp only [inR, Bool.or_eq_true, beq_iff_eq] at hrin
      rcases hrin with h1 | h1 <;> simp [h1, prog]
    · have hnr : ∀ v, s.rd v = false := by
        intro v; cases h : s.rd v with
        | false => rfl
        | true => exact absurd ⟨v, h⟩ hr
      refine ⟨.object true, ?_⟩
      simp only [step, stepC, hph]
      cases s.pend <;> simp [hnr]
  | idle =>
    by_cases hb : 0 < s.box
    · exact ⟨.object true, by simp [step, stepC, hph, hb]⟩
    · -- nothing in the mailbox, the object waits: the sender that has not returned moves
      have hb0 : s.box = 0 := by omega
      have hwf : s.wr = false := by
        cases h : s.wr with
        | false => rfl
        | true => have := hwr.mp h; rw [hph] at this; cases this
      have hpf : s.pend = false := by
        cases h : s.pend with
        | false => rfl
        | true => have := hpend h; rw [hph] at this; cases this
      have hl := hloc t
      refine ⟨.sender t, ?_⟩
      simp only [step, stepS, Nat.not_le.mpr htn, hrun, if_false, ne_eq, not_true_eq_false]
      rcases prog_at (s.th t).pc hl.pcle with ⟨hp, hq⟩ | ⟨hp, hq⟩ | ⟨hp, hq⟩ | ⟨hp, hq⟩ | ⟨hp, hq⟩ | ⟨hp, hq⟩ | ⟨hp, hq⟩ <;>
        rw [hq] <;> simp only
      · simp [hwf, hpf]
      · simp
      · simp
      · split <;> simp
      · simp
      · simp [hb0, hcap]
      · simp

/-! ### a message for an object that has been removed is refused -/

/-- what is known of a sender that started after the removal -/
def Late (s : Sys) (t : Tid) : Prop :=
  s.present = false ∧ (s.th t).ret ≠ .ok ∧ ((s.th t).pc ≤ 1 ∨ ((s.th t).found = false ∧ (s.th t).pc ≤ 4))

theorem late_step (n cap : Nat) (s s' : Sys) (w : Who) (t : Tid) (hi : Inv n cap s) (hl : Late s t)
    (hs : step prog n cap s w = some s') : Late s' t := by
  obtain ⟨hp, hr, hpc⟩ := hl
  cases w with
  | object b =>
    simp only [step, stepC] at hs
    split at hs
    · split at hs <;> cases hs; exact ⟨hp, hr, hpc⟩
    · cases hs; exact ⟨hp, hr, hpc⟩
    · cases hs; exact ⟨hp, hr, hpc⟩
    · split at hs
      · cases hs; exact ⟨hp, hr, hpc⟩
      · split at hs <;> cases hs; exact ⟨hp, hr, hpc⟩
    · cases hs; exact ⟨rfl, hr, hpc⟩
  | sender u =>
    simp only [step] at hs
    by_cases hut : u = t
    · subst hut
      have hlu := hi.loc u
      unfold stepS at hs
      simp only at hs
      split at hs
      · cases hs
      split at hs
      · cases hs
      rcases prog_at (s.th u).pc hlu.pcle with ⟨hq, hp'⟩ | ⟨hq, hp'⟩ | ⟨hq, hp'⟩ | ⟨hq, hp'⟩ | ⟨hq, hp'⟩ | ⟨hq, hp'⟩ | ⟨hq, hp'⟩ <;>
        rw [hp'] at hs <;> simp only at hs
      · split at hs <;> cases hs
        exact ⟨hp, by simpa [upd] using hr, by simp [upd, hq]⟩
      · cases hs
        exact ⟨hp, by simpa [upd] using hr, Or.inr (by simp [upd, hp, hq])⟩
      · cases hs
        refine ⟨hp, by simpa [upd] using hr, Or.inr ?_⟩
        rcases hpc with h | h
        · omega
        · simp [upd, h.1, hq]
      · rcases hpc with h | h
        · omega
        · simp only [h.1, Bool.false_eq_true, if_false] at hs
          cases hs
          exact ⟨hp, by simpa [upd] using hr, Or.inr (by simp [upd, h.1, hq])⟩
      · cases hs
        refine ⟨hp, by simp [upd], ?_⟩
        rcases hpc with h | h
        · omega
        · exact Or.inr (by simp [upd, h.1, hq])
      · rcases hpc with h | h <;> omega
      · rcases hpc with h | h <;> omega
    · -- another sender: neither this one's state nor the maps change
      have hth : s'.th t = s.th t ∧ s'.present = s.present := by
        unfold stepS at hs
        simp only at hs
        split at hs
        · cases hs
        split at hs
        · cases hs
        split at hs
        · cases hs
        rename_i i _
        have ht' : t ≠ u := fun h => hut h.symm
        cases i <;> simp only at hs
        · split at hs <;> cases hs; simp [upd, ht']
        · cases hs; simp [upd, ht']
        · cases hs; simp [upd, ht']
        · split at hs <;> cases hs <;> simp [upd, ht']
        · cases hs; simp [upd, ht']
        · split at hs <;> cases hs; simp [upd, ht']
        · cases hs; simp [upd, ht']
      rw [Late, hth.1, hth.2]; exact ⟨hp, hr, hpc⟩

/-- **After the removal.**  A sender that has not looked the mailbox up when the object is gone from the maps never
    gets `nil` from `Receive` (it is answered `ErrObjectNotFound`, nothing is put into the mailbox for it), on every
    continuation of the schedule -/
theorem late_sender_is_refused (n cap : Nat) (sched more : List Who) (t : Tid)
    (hgone : (run prog n cap {} sched).present = false) (hpc : ((run prog n cap {} sched).th t).pc ≤ 1)
    (hr : ((run prog n cap {} sched).th t).ret = .running) :
    ((run prog n cap (run prog n cap {} sched) more).th t).ret ≠ .ok := by
  have hi := inv_run n cap {} sched (inv_init n cap)
  have hl : Late (run prog n cap {} sched) t := ⟨hgone, by rw [hr]; simp, Or.inl hpc⟩
  generalize run prog n cap {} sched = s at *
  suffices h : Late (run prog n cap s more) t from h.2.1
  clear hgone hpc hr
  induction more generalizing s with
  | nil => exact hl
  | cons w r ih =>
    simp only [run]
    cases hs : step prog n cap s w with
    | none => exact ih s hi hl
    | some s' => exact ih s' (inv_step n cap s s' w hi hs) (late_step n cap s s' w t hi hl hs)

/-- the regenerated tokens compile to the program the theorems are about -/
theorem expected_compiles : compile expectedTokens = prog := by decide

/-! ### what the order of `RUnlock` and the send forbids -/

/-- `Receive` with the read lock released by a `defer`: held across the send into the mailbox (seeded change C16j) -/
def heldProg : List Instr := [.rlock, .lookup, .ifMissing 2, .runlock, .retErr, .send, .runlock, .ret]

/-- a mailbox of one: sender 0 delivers a `terminate`, the object takes it and reaches `Remove`; sender 1 fills the
    mailbox again; sender 2 finds it full and waits — with the read lock; the object announces its `Lock` -/
def heldSchedule : List Who :=
  [.sender 0, .sender 0, .sender 0, .sender 0, .sender 0, .sender 0,
   .object true, .object true,
   .sender 1, .sender 1, .sender 1, .sender 1, .sender 1, .sender 1,
   .sender 2, .sender 2, .sender 2,
   .object true]

theorem lock_held_across_the_send_deadlocks :
    let s := run heldProg 3 1 {} heldSchedule
    (s.th 2).ret = .running ∧ s.box = 1 ∧ s.pend = true ∧
      (step heldProg 3 1 s (.sender 0)).isNone = true ∧ (step heldProg 3 1 s (.sender 1)).isNone = true ∧
      (step heldProg 3 1 s (.sender 2)).isNone = true ∧
      (step heldProg 3 1 s (.object true)).isNone = true ∧ (step heldProg 3 1 s (.object false)).isNone = true := by
  decide

/-- non-vacuity of `not_stuck` and `late_sender_is_refused`: the same schedule with the program as it is goes through,
    the object is removed, and a sender that starts afterwards is refused -/
example :
    let s := run prog 4 1 {} (heldSchedule ++ [.sender 2, .sender 2, .object true, .object true, .object true, .sender 2, .sender 2,
      .sender 3, .sender 3, .sender 3, .sender 3, .sender 3])
    s.present = false ∧ (s.th 2).ret = .ok ∧ (s.th 3).ret = .err := by decide

end QiVerif.Mailbox
