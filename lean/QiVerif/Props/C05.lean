/-
  C05 — the generated proxy and the generated stub are inverses of each other.
  Theorems about Model/Gen.lean.  (Helper lemmas: Lemmas/Codec.lean, Lemmas/Decode.lean — shared
  with C02 / C03.)  That the generated text compiles is not a statement about values and is not
  proved here: it is established per generated package by the Go compiler (translation
  validation, see DESIGN.md).
-/
import QiVerif.Lemmas.Decode
import QiVerif.Model.Gen
import QiVerif.Lemmas.Names
set_option linter.unusedSimpArgs false
set_option linter.unusedVariables false
namespace QiVerif.C05
open QiVerif QiVerif.Sig QiVerif.Codec QiVerif.Value QiVerif.Decode QiVerif.CodecL QiVerif.ValueL QiVerif.DecodeL QiVerif.Gen

/-- every scalar type renders the `basic` function of its own width -/
theorem fn_width (c : UInt8) (w : Nat) (h : width c = some w) : (fnOf c).map BasicFn.bytes = some w := by
  have : c = 99 ∨ c = 67 ∨ c = 98 ∨ c = 119 ∨ c = 87 ∨ c = 105 ∨ c = 73 ∨ c = 102 ∨ c = 108 ∨ c = 76 ∨ c = 100 := by
    unfold width at h
    split at h <;> simp_all
  rcases this with e | e | e | e | e | e | e | e | e | e | e <;> subst e <;> simp [width] at h <;> subst h <;> decide

mutual
theorem genW_eq_D : (v : TVal) → (t : Ty) → Typed t v → genW t v = D t v
  | .num n, t, ht => by
    cases t <;> simp [Typed] at ht
    rename_i c
    obtain ⟨w, hw, _⟩ := ht
    have := fn_width c w hw
    cases hf : fnOf c with
    | none => rw [hf] at this; cases this
    | some fn =>
      rw [hf] at this
      simp only [Option.map_some, Option.some.injEq] at this
      simp only [genW, D, hw, hf, this]
  | .str b, t, ht => by
    cases t <;> simp [Typed] at ht
    simp only [genW, D]
  | .void, t, ht => by cases t <;> simp [Typed] at ht; simp [genW, D]
  | .dyn t' v, t, ht => by
    cases t <;> simp [Typed] at ht
    simp only [genW, D]
  | .list xs, t, ht => by
    cases t <;> simp [Typed] at ht
    simp only [genW, D]; rw [genWList_eq xs _ ht.2.2]
  | .map kvs, t, ht => by
    cases t <;> simp [Typed] at ht
    simp only [genW, D]; rw [genWPairs_eq kvs _ _ ht.2.2]
  | .tuple xs, t, ht => by
    cases t with
    | tuple ts => simp only [Typed] at ht; simp only [genW, D]; rw [genWFields_eq xs ts ht]
    | struct n ms => simp only [Typed] at ht; simp only [genW, D]; rw [genWMembers_eq xs ms ht]
    | basic c => simp [Typed] at ht
    | list t => simp [Typed] at ht
    | map k v => simp [Typed] at ht
theorem genWList_eq : (xs : List TVal) → (t : Ty) → TypedList t xs → genWList t xs = DList t xs
  | [], _, _ => by simp [genWList, DList]
  | x :: r, t, ht => by
    simp only [TypedList] at ht
    simp [genWList, DList, genW_eq_D x t ht.1, genWList_eq r t ht.2]
theorem genWPairs_eq : (kvs : List (TVal × TVal)) → (k v : Ty) → TypedPairs k v kvs →
    genWPairs k v kvs = DPairs k v kvs
  | [], _, _, _ => by simp [genWPairs, DPairs]
  | (a, b) :: r, k, v, ht => by
    simp only [TypedPairs] at ht
    simp [genWPairs, DPairs, genW_eq_D a k ht.1, genW_eq_D b v ht.2.1, genWPairs_eq r k v ht.2.2]
theorem genWFields_eq : (xs : List TVal) → (ts : List Ty) → TypedFields ts xs →
    genWFields ts xs = DFields ts xs
  | [], ts, ht => by cases ts <;> simp [genWFields, DFields]
  | x :: r, ts, ht => by
    cases ts with
    | nil => simp [TypedFields] at ht
    | cons t tr =>
      simp only [TypedFields] at ht
      simp [genWFields, DFields, genW_eq_D x t ht.1, genWFields_eq r tr ht.2]
theorem genWMembers_eq : (xs : List TVal) → (ms : List (Bytes × Ty)) → TypedMembers ms xs →
    genWMembers ms xs = DMembers ms xs
  | [], ms, ht => by cases ms <;> simp [genWMembers, DMembers]
  | x :: r, ms, ht => by
    cases ms with
    | nil => simp [TypedMembers] at ht
    | cons m tr =>
      obtain ⟨n, t⟩ := m
      simp only [TypedMembers] at ht
      simp [genWMembers, DMembers, genW_eq_D x t ht.1, genWMembers_eq r tr ht.2]
end

/-! ### C05 -/

/-- **The generated Marshal code writes the documented serialization** of every value of every
    type (scalars of every width, strings, dynamic values, lists, maps, tuples, structs, nested). -/
theorem generated_marshal_is_doc (t : Ty) (v : TVal) (ht : Typed t v) : genW t v = D t v :=
  genW_eq_D v t ht

/-- **and the generated Unmarshal code is its inverse**: it returns the value and leaves what
    follows. -/
theorem generated_unmarshal_inverts_marshal (t : Ty) (v : TVal) (ht : Typed t v) (hs : Small v) (f : Nat)
    (hf : vneed v ≤ f) (rest : Bytes) : decT generatedCfg f t (genW t v ++ rest) = .ok (toD t v, rest) := by
  rw [genW_eq_D v t ht]; exact dt generatedCfg (Or.inl rfl) v t ht hs f rest hf

/-- **A call made through the generated proxy reaches the generated stub with the arguments that
    were passed**, whatever their number and types … -/
theorem call_arguments_arrive (ts : List Ty) (args : List TVal) (ht : TypedFields ts args) (hs : SmallList args)
    (f : Nat) (hf : vneedL args ≤ f) : stubReceives f ts args = .ok (toDFields ts args, []) := by
  unfold stubReceives
  rw [encRFields_eq args ts ht]
  have := dtFields generatedCfg (Or.inl rfl) args ts ht hs f [] hf
  simpa using this

/-- **… and the value the implementation returns reaches the caller equal.** -/
theorem call_result_returns (t : Ty) (v : TVal) (ht : Typed t v) (hs : Small v) (f : Nat) (hf : vneed v ≤ f) :
    callerGets f t v = .ok (toD t v, []) := by
  unfold callerGets
  rw [genW_eq_D v t ht]
  have := dt reflectCfg (Or.inr rfl) v t ht hs f [] hf
  simpa using this

/-- **A signal emitted through the generated helper reaches a generated subscriber with an equal
    payload**: with one parameter the event is that parameter, … -/
theorem signal_one_parameter (t : Ty) (v : TVal) (ht : Typed t v) (hs : Small v) (f : Nat) (hf : vneed v ≤ f) :
    subscriberGets f [t] t [v] = .ok (toD t v, []) := by
  unfold subscriberGets
  have : genWFields [t] [v] = genW t v := by simp [genWFields]
  rw [this, genW_eq_D v t ht]
  have := dt generatedCfg (Or.inl rfl) v t ht hs f [] hf
  simpa using this

/-- … with several (or none) it is the struct of the parameters, named after the signal. -/
theorem signal_several_parameters (n : Bytes) (ms : List (Bytes × Ty)) (args : List TVal)
    (ht : TypedMembers ms args) (hs : SmallList args) (f : Nat) (hf : vneedL args + 1 ≤ f) :
    subscriberGets f (ms.map (·.2)) (.struct n ms) args = .ok (.tuple (toDMembers ms args), []) := by
  unfold subscriberGets
  have hfm : ∀ (ms : List (Bytes × Ty)) (args : List TVal), genWFields (ms.map (·.2)) args = genWMembers ms args := by
    intro ms
    induction ms with
    | nil => intro args; cases args <;> simp [genWFields, genWMembers]
    | cons m r ih =>
      intro args; obtain ⟨a, t⟩ := m
      cases args with
      | nil => simp [genWFields, genWMembers]
      | cons x xs => simp [genWFields, genWMembers, ih xs]
  have hty : Typed (.struct n ms) (.tuple args) := by simpa [Typed] using ht
  have hsm : Small (.tuple args) := by simpa [Small] using hs
  have := dt generatedCfg (Or.inl rfl) (.tuple args) (.struct n ms) hty hsm f [] (by simp [vneed]; omega)
  rw [hfm ms args, genWMembers_eq args ms ht]
  simpa [D, toD] using this

/-- **A property set through the generated accessor reaches the callback of the stub equal, and
    what the generated getter reads back is equal**: the value travels as its signature followed
    by the generated serialization; each reader checks the signature and unmarshals the rest. -/
theorem property_roundtrip (t : Ty) (v : TVal) (ht : Typed t v) (hs : Small v) (hp : (print t).length ≤ maxStringSize)
    (f : Nat) (hf : vneed v ≤ f) : propertyRead f t (propertyWire t v) = .ok (toD t v, []) := by
  unfold propertyRead propertyWire Value.writeString
  rw [readString_write (print t) _ hp]
  simp only [bne_self_eq_false, Bool.false_eq_true, if_false]
  rw [genW_eq_D v t ht]
  have := dt generatedCfg (Or.inl rfl) v t ht hs f [] hf
  simpa using this

/-- a value of another type is refused by the reader instead of being misread (the signature is
    compared first) -/
theorem property_wrong_type_refused (t u : Ty) (v : TVal) (hp : (print u).length ≤ maxStringSize)
    (hne : print u ≠ print t) (f : Nat) : propertyRead f t (propertyWire u v) = .error .err := by
  unfold propertyRead propertyWire Value.writeString
  rw [readString_write (print u) _ hp]
  have : (print u != print t) = true := by simp [hne]
  simp [this]

/-! ### non-vacuity -/

def exTs : List Ty := [.basic 99, .map (.basic 115) (.list (.basic 87)), .struct [80] [([120], .basic 105), ([121], .basic 102)], .basic 109]
def exArgs : List TVal :=
  [.num 200, .map [(.str [107], .list [.num 65535, .num 0])], .tuple [.num 7, .num 1065353216], .dyn (.basic 100) (.num 5)]

example : TypedFields exTs exArgs ∧ SmallList exArgs := by
  simp [exTs, exArgs, Typed, TypedPairs, TypedFields, TypedList, TypedMembers, width, C09.WF, Plain, print, maxStringSize,
    basicLetters, zeroSize, zeroSizeList, Small, SmallPairs, SmallList, listValueMaxSize, SigFits, C09.nest, maxDepth]


/-! ### the names of what is generated -/

open QiVerif.Names

/-- **while fewer than a hundred names are in use, the name handed out is a new one** -/
theorem registerName_fresh (name : Name) (used : List Name) (h : used.length < 100) : registerName name used ∉ used := by
  unfold registerName
  cases hf : (List.range 100).find? (fun i => !used.contains (candidate name i)) with
  | some i =>
    have := List.find?_some hf
    simpa using this
  | none =>
    exfalso
    have hall : ∀ x ∈ (List.range 100).map (candidate name), x ∈ used := by
      intro x hx
      obtain ⟨i, hi, rfl⟩ := List.mem_map.mp hx
      have := List.find?_eq_none.mp hf i hi
      simpa using this
    have := length_le_of_nodup_subset _ used (candidates_nodup name 100) hall
    simp at this; omega

/-- **the names given to the actions of one object are pairwise distinct** (fewer than a hundred actions) -/
theorem registerAll_nodup : (names used : List Name) → used.length + names.length ≤ 100 →
    (registerAll used names).Nodup ∧ ∀ x ∈ registerAll used names, x ∉ used
  | [], _, _ => by simp [registerAll]
  | n :: r, used, h => by
    simp only [List.length_cons] at h
    have hf := registerName_fresh n used (by omega)
    have ih := registerAll_nodup r (registerName n used :: used) (by simp; omega)
    simp only [registerAll]
    refine ⟨List.nodup_cons.mpr ⟨?_, ih.1⟩, ?_⟩
    · intro hm; exact ih.2 _ hm (by simp)
    · intro x hx
      simp only [List.mem_cons] at hx
      rcases hx with e | e
      · subst e; exact hf
      · intro hu; exact ih.2 x e (by simp [hu])

/-- with a hundred names in use the loop gives up and hands out a name that is in use -/
example : registerName ['a'] ((List.range 101).map (candidate ['a'])) ∈ (List.range 101).map (candidate ['a']) := by decide


/-- **every method a specialized proxy has by itself is a reserved name** (the methods of
    bus.ObjectProxy with object.Object, `Proxy`, `WithContext`): `CleanMethodName` renames an IDL
    method of that name -/
theorem embedded_reserved : ∀ n ∈ embedded, reserved.contains n = true := by decide

theorem embedded_no_do : ∀ e ∈ embedded, (s "Do").isPrefixOf e = false := by decide

/-- … so the Go name of an IDL method never collides with one of them -/
theorem clean_method_not_embedded (n : Name) : cleanMethodName n ∉ embedded := by
  unfold cleanMethodName
  split
  · intro hm
    have := embedded_no_do _ hm
    simp [s, List.isPrefixOf] at this
  · rename_i hr
    intro hm
    exact hr (embedded_reserved n hm)

/-- what `registerName` does not see: names derived from the registered ones.  A method named like
    the accessor of a property, like the subscriber or the helper of a signal, like a method of the
    stub itself, or like the renamed form of a reserved name collides (listed findings) -/
example : clashes { methods := [s "getLevel"], signals := [], props := [s "level"] } = [s "GetLevel"] := by decide
example : clashes { methods := [s "subscribeTick"], signals := [s "tick"], props := [] } = [s "SubscribeTick"] := by decide
example : clashes { methods := [s "signalTick"], signals := [s "tick"], props := [] } = [s "SignalTick"] := by decide
example : clashes { methods := [s "activate"], signals := [], props := [] } = [s "Activate", s "Activate"] := by decide
example : clashes { methods := [s "subscribe", s "doSubscribe"], signals := [], props := [] } = [s "DoSubscribe"] := by decide
/-- … while equal names of a method, a signal and a property, or names equal after `Title`, are told apart -/
example : clashes { methods := [s "tick", s "Tick"], signals := [s "tick"], props := [s "tick"] } = [] := by decide
/-- … and a method named like a method of the embedded proxy is renamed -/
example : clashes { methods := [s "stats", s "proxy", s "withContext", s "property"], signals := [], props := [] } = [] := by decide

end QiVerif.C05
