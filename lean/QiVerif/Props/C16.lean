/-
  C16 — removed objects are unreachable and terminated exactly once.
-/
import QiVerif.Model.Service
set_option linter.unusedSimpArgs false
set_option linter.unusedVariables false
namespace QiVerif.C16
open QiVerif.Service

def keys (l : List (Nat × Obj)) : List Nat := l.map (·.1)

/-! ### map lemmas -/

theorem lookup_none_iff (id : Nat) (l : List (Nat × Obj)) : lookup id l = none ↔ id ∉ keys l := by
  induction l with
  | nil => simp [lookup, keys]
  | cons p r ih =>
    obtain ⟨k, o⟩ := p
    simp only [lookup, keys, List.map_cons, List.mem_cons]
    by_cases h : k = id
    · simp [h]
    · simp only [h, if_false]
      rw [ih]
      constructor
      · intro hn hc
        rcases hc with hc | hc
        · exact h hc.symm
        · exact hn (by simpa [keys] using hc)
      · intro hn hc; exact hn (Or.inr (by simpa [keys] using hc))

theorem lookup_erase_self (id : Nat) (l : List (Nat × Obj)) : lookup id (erase id l) = none := by
  induction l with
  | nil => rfl
  | cons p r ih =>
    obtain ⟨k, o⟩ := p
    simp only [erase]
    by_cases h : k = id
    · simp [h, ih]
    · simp [h, lookup, ih]

theorem lookup_erase_other (id j : Nat) (l : List (Nat × Obj)) (h : j ≠ id) :
    lookup j (erase id l) = lookup j l := by
  induction l with
  | nil => rfl
  | cons p r ih =>
    obtain ⟨k, o⟩ := p
    simp only [erase]
    by_cases hk : k = id
    · subst hk
      have : ¬ k = j := fun e => h e.symm
      simp [lookup, this, ih]
    · simp only [hk, if_false, lookup, ih]

theorem keys_erase_sub (id : Nat) (l : List (Nat × Obj)) : ∀ x ∈ keys (erase id l), x ∈ keys l ∧ x ≠ id := by
  induction l with
  | nil => simp [erase, keys]
  | cons p r ih =>
    obtain ⟨k, o⟩ := p
    intro x hx
    simp only [erase] at hx
    by_cases hk : k = id
    · simp only [hk, if_true] at hx
      have := ih x hx
      exact ⟨by simp [keys] at this ⊢; exact Or.inr this.1, this.2⟩
    · simp only [hk, if_false, keys, List.map_cons, List.mem_cons] at hx
      rcases hx with rfl | hx
      · exact ⟨by simp [keys], hk⟩
      · have := ih x (by simpa [keys] using hx)
        exact ⟨by simp [keys] at this ⊢; exact Or.inr this.1, this.2⟩

theorem keys_erase_nodup (id : Nat) (l : List (Nat × Obj)) (h : (keys l).Nodup) : (keys (erase id l)).Nodup := by
  induction l with
  | nil => simp [erase, keys]
  | cons p r ih =>
    obtain ⟨k, o⟩ := p
    simp only [keys, List.map_cons, List.nodup_cons] at h
    simp only [erase]
    by_cases hk : k = id
    · simp only [hk, if_true]; exact ih h.2
    · simp only [hk, if_false, keys, List.map_cons, List.nodup_cons]
      refine ⟨?_, ih h.2⟩
      intro hm
      have := (keys_erase_sub id r k (by simpa [keys] using hm)).1
      exact h.1 (by simpa [keys] using this)

theorem keys_update (id : Nat) (f : Obj → Obj) (l : List (Nat × Obj)) : keys (update id f l) = keys l := by
  induction l with
  | nil => rfl
  | cons p r ih =>
    obtain ⟨k, o⟩ := p
    simp only [update]
    split <;> simp [keys] at ih ⊢ <;> exact ih

theorem lookup_update_other (id j : Nat) (f : Obj → Obj) (l : List (Nat × Obj)) (h : j ≠ id) :
    lookup j (update id f l) = lookup j l := by
  induction l with
  | nil => rfl
  | cons p r ih =>
    obtain ⟨k, o⟩ := p
    simp only [update]
    by_cases hk : k = id
    · subst hk
      have : ¬ k = j := fun e => h e.symm
      simp [lookup, this, ih]
    · simp only [hk, if_false, lookup, ih]

theorem lookup_append_new (id j : Nat) (o : Obj) (l : List (Nat × Obj)) :
    lookup j (l ++ [(id, o)]) = match lookup j l with | some x => some x | none => if id = j then some o else none := by
  induction l with
  | nil => simp [lookup]
  | cons p r ih =>
    obtain ⟨k, x⟩ := p
    simp only [List.cons_append, lookup]
    split
    · rfl
    · exact ih

/-! ### the invariant -/

structure Inv (s : Svc) : Prop where
  nodup : (keys s.objects).Nodup
  boxes : ∀ id, s.boxes.contains id = true ↔ id ∈ keys s.objects
  live : ∀ p ∈ s.objects, p.2.terminated = 0
  dead : ∀ o ∈ s.dead, o.terminated = 1 ∧ o.subs = []

theorem inv_init : Inv {} := by
  refine ⟨by simp [keys], by simp [keys], by simp, by simp⟩

theorem mem_update (id : Nat) (f : Obj → Obj) (l : List (Nat × Obj)) (p : Nat × Obj)
    (hp : p ∈ update id f l) : p ∈ l ∨ ∃ o, (p.1, o) ∈ l ∧ p.2 = f o := by
  induction l with
  | nil => simp [update] at hp
  | cons q r ih =>
    obtain ⟨k, x⟩ := q
    simp only [update] at hp
    split at hp
    · rcases List.mem_cons.mp hp with rfl | hp'
      · exact Or.inr ⟨x, by simp, rfl⟩
      · rcases ih hp' with h | ⟨o, h1, h2⟩
        · exact Or.inl (by simp [h])
        · exact Or.inr ⟨o, by simp [h1], h2⟩
    · rcases List.mem_cons.mp hp with rfl | hp'
      · exact Or.inl (by simp)
      · rcases ih hp' with h | ⟨o, h1, h2⟩
        · exact Or.inl (by simp [h])
        · exact Or.inr ⟨o, by simp [h1], h2⟩

theorem mem_erase (id : Nat) (l : List (Nat × Obj)) (p : Nat × Obj) (hp : p ∈ erase id l) : p ∈ l := by
  induction l with
  | nil => simp [erase] at hp
  | cons q r ih =>
    obtain ⟨k, x⟩ := q
    simp only [erase] at hp
    split at hp
    · exact List.mem_cons_of_mem _ (ih hp)
    · rcases List.mem_cons.mp hp with rfl | hp'
      · simp
      · exact List.mem_cons_of_mem _ (ih hp')

theorem lookup_mem (id : Nat) (l : List (Nat × Obj)) (o : Obj) (h : lookup id l = some o) : (id, o) ∈ l := by
  induction l with
  | nil => simp [lookup] at h
  | cons q r ih =>
    obtain ⟨k, x⟩ := q
    simp only [lookup] at h
    split at h
    · rename_i hk; cases h; subst hk; simp
    · exact List.mem_cons_of_mem _ (ih h)

theorem inv_remove (s s' : Svc) (id : Nat) (hi : Inv s) (h : removeObj s id = some s') : Inv s' := by
  unfold removeObj at h
  cases hl : lookup id s.objects with
  | none => simp [hl] at h
  | some o =>
    simp only [hl] at h
    cases h
    refine ⟨keys_erase_nodup id _ hi.nodup, ?_, ?_, ?_⟩
    · intro j
      simp only [List.contains_eq_mem, List.mem_filter, decide_eq_true_eq, ne_eq, decide_not,
        Bool.not_eq_eq_eq_not, Bool.not_true, decide_eq_false_iff_not]
      constructor
      · intro ⟨hj, hne⟩
        have hk := (hi.boxes j).mp (by simpa using hj)
        have hn : lookup j (erase id s.objects) ≠ none := by
          rw [lookup_erase_other id j _ hne]
          intro hc; exact ((lookup_none_iff j _).mp hc) hk
        exact Decidable.byContradiction fun hc => hn ((lookup_none_iff j _).mpr hc)
      · intro hj
        have := keys_erase_sub id _ j hj
        exact ⟨by simpa using (hi.boxes j).mpr this.1, this.2⟩
    · intro p hp; exact hi.live p (mem_erase id _ p hp)
    · intro x hx
      rcases List.mem_append.mp hx with hx | hx
      · exact hi.dead x hx
      · simp at hx; subst hx
        have := hi.live (id, o) (lookup_mem id _ o hl)
        simp [Obj.onTerminate] at this ⊢; exact this

/-- **Preservation.** -/
theorem inv_step (s : Svc) (op : Op) (hi : Inv s) : Inv (step s op).1 := by
  cases op with
  | add id =>
    simp only [step]
    cases hl : lookup id s.objects with
    | some o => exact hi
    | none =>
      have hnot := (lookup_none_iff id _).mp hl
      refine ⟨?_, ?_, ?_, hi.dead⟩
      · simp only [keys, List.map_append, List.map_cons, List.map_nil]
        rw [List.nodup_append]
        refine ⟨hi.nodup, by simp, ?_⟩
        intro a ha b hb; simp at hb; subst hb; intro e; subst e; exact hnot ha
      · intro j
        simp only [List.contains_eq_mem, List.mem_append, List.mem_singleton, decide_eq_true_eq, keys,
          List.map_append, List.map_cons, List.map_nil]
        have := hi.boxes j
        simp only [List.contains_eq_mem, decide_eq_true_eq, keys] at this
        rw [this]
      · intro p hp
        rcases List.mem_append.mp hp with hp | hp
        · exact hi.live p hp
        · simp at hp; subst hp; rfl
  | remove id =>
    simp only [step]
    cases h : removeObj s id with
    | none => exact hi
    | some s' => exact inv_remove s s' id hi h
  | call id =>
    simp only [step]
    split
    · cases hl : lookup id s.objects with
      | none => exact hi
      | some o =>
        refine ⟨by simpa [keys_update] using hi.nodup, ?_, ?_, hi.dead⟩
        · intro j; simp only [keys_update]; exact hi.boxes j
        · intro p hp
          rcases mem_update id _ _ p hp with h | ⟨o', h1, h2⟩
          · exact hi.live p h
          · rw [h2]; exact hi.live _ h1
    · exact hi
  | terminate id arg =>
    simp only [step]
    split
    · split
      · exact hi
      · cases h : removeObj s id with
        | none => exact hi
        | some s' => exact inv_remove s s' id hi h
    · exact hi
  | subscribe id sub =>
    simp only [step]
    split
    · cases hl : lookup id s.objects with
      | none => exact hi
      | some o =>
        refine ⟨by simpa [keys_update] using hi.nodup, ?_, ?_, hi.dead⟩
        · intro j; simp only [keys_update]; exact hi.boxes j
        · intro p hp
          rcases mem_update id _ _ p hp with h | ⟨o', h1, h2⟩
          · exact hi.live p h
          · rw [h2]; exact hi.live _ h1
    · exact hi

theorem inv_run (s : Svc) (ops : List Op) (hi : Inv s) : Inv (run s ops) := by
  induction ops generalizing s with
  | nil => exact hi
  | cons op r ih => exact ih _ (inv_step s op hi)

/-! ### the property, for every operation history -/

/-- Identifiers are unique among the live objects. -/
theorem ids_unique (ops : List Op) : (keys (run {} ops).objects).Nodup := (inv_run {} ops inv_init).nodup

/-- `Add` only hands out an identifier no live object has, and the new object is callable. -/
theorem add_fresh_and_callable (ops : List Op) (id u : Nat)
    (h : (step (run {} ops) (.add id)).2 = .added u) :
    lookup id (run {} ops).objects = none ∧
    (step (step (run {} ops) (.add id)).1 (.call id)).2 = .reply := by
  generalize run {} ops = s at *
  cases hl : lookup id s.objects with
  | some o => simp [step, hl] at h
  | none =>
    refine ⟨rfl, ?_⟩
    have e : (step s (.add id)).1 =
        { s with objects := s.objects ++ [(id, { uid := s.next })], boxes := s.boxes ++ [id],
                 next := s.next + 1 } := by simp [step, hl]
    rw [e]
    simp only [step, List.contains_eq_mem, List.mem_append, List.mem_singleton, or_true, decide_true, if_true]
    rw [lookup_append_new, hl]; simp

/-- The termination hook of every removed object ran exactly once; that of a live object never. -/
theorem terminate_once (ops : List Op) :
    (∀ o ∈ (run {} ops).dead, o.terminated = 1) ∧ (∀ p ∈ (run {} ops).objects, p.2.terminated = 0) :=
  ⟨fun o ho => ((inv_run {} ops inv_init).dead o ho).1, (inv_run {} ops inv_init).live⟩

/-- Removal tells every remaining subscriber (and leaves no subscription behind). -/
theorem remove_tells_subscribers (s s' : Svc) (id : Nat) (o : Obj) (hl : lookup id s.objects = some o)
    (h : removeObj s id = some s') :
    s'.dead = s.dead ++ [{ o with terminated := o.terminated + 1, told := o.told ++ o.subs, subs := [] }] := by
  unfold removeObj at h; simp only [hl] at h; cases h; rfl

/-- **Unreachable after removal.** In every reachable state, a message of any kind addressed
    to an identifier that no live object holds is answered with an error and changes nothing:
    no object — in particular not the removed one — is invoked. -/
theorem unreachable_after_remove (ops : List Op) (id : Nat) (hgone : lookup id (run {} ops).objects = none) :
    (∀ op, op = .call id ∨ (∃ a, op = .terminate id a) ∨ (∃ u, op = .subscribe id u) →
      step (run {} ops) op = (run {} ops, .errorReply)) := by
  have hi := inv_run {} ops inv_init
  generalize run {} ops = s at *
  have hb : s.boxes.contains id = false := by
    cases hc : s.boxes.contains id with
    | false => rfl
    | true => exact absurd ((hi.boxes id).mp hc) ((lookup_none_iff id _).mp hgone)
  intro op hop
  have hb' : id ∉ s.boxes := by simpa using hb
  rcases hop with rfl | ⟨a, rfl⟩ | ⟨u, rfl⟩ <;> simp [step, hb] <;> intro h <;> exact absurd h hb'

/-- after `Remove(id)` succeeded the identifier is free (so the previous theorem applies) -/
theorem remove_frees (s : Svc) (id : Nat) (h : (step s (.remove id)).2 = .ok) :
    lookup id (step s (.remove id)).1.objects = none := by
  simp only [step] at h ⊢
  cases hr : removeObj s id with
  | none => simp [hr] at h
  | some s' =>
    simp only [hr]
    unfold removeObj at hr
    cases hl : lookup id s.objects with
    | none => simp [hl] at hr
    | some o => simp only [hl] at hr; cases hr; exact lookup_erase_self id _

/-- the record of removed instances is append-only: their counters (invocations,
    termination count, notified subscribers) never change again -/
theorem dead_append_only (s : Svc) (op : Op) : ∃ l, (step s op).1.dead = s.dead ++ l := by
  cases op with
  | add id => simp only [step]; split <;> exact ⟨[], by simp⟩
  | remove id =>
    simp only [step]
    cases h : removeObj s id with
    | none => exact ⟨[], by simp⟩
    | some s' =>
      unfold removeObj at h
      cases hl : lookup id s.objects with
      | none => simp [hl] at h
      | some o => simp only [hl] at h; cases h; exact ⟨_, rfl⟩
  | call id => simp only [step]; split <;> (try split) <;> exact ⟨[], by simp⟩
  | terminate id arg =>
    simp only [step]
    split
    · split
      · exact ⟨[], by simp⟩
      · cases h : removeObj s id with
        | none => exact ⟨[], by simp⟩
        | some s' =>
          unfold removeObj at h
          cases hl : lookup id s.objects with
          | none => simp [hl] at h
          | some o => simp only [hl] at h; cases h; exact ⟨_, rfl⟩
    · exact ⟨[], by simp⟩
  | subscribe id sub => simp only [step]; split <;> (try split) <;> exact ⟨[], by simp⟩

/-- **Removing one object never affects the others.** -/
theorem others_unaffected (s : Svc) (id j : Nat) (hj : j ≠ id) :
    lookup j (step s (.remove id)).1.objects = lookup j s.objects ∧
    ((step s (.remove id)).1.boxes.contains j = s.boxes.contains j) := by
  simp only [step]
  cases hr : removeObj s id with
  | none => exact ⟨rfl, rfl⟩
  | some s' =>
    unfold removeObj at hr
    cases hl : lookup id s.objects with
    | none => simp [hl] at hr
    | some o =>
      simp only [hl] at hr; cases hr
      refine ⟨lookup_erase_other id j _ hj, ?_⟩
      simp [hj]

/-- a call to a live object invokes exactly that object, once -/
theorem call_invokes_only_target (s : Svc) (id j : Nat) (hj : j ≠ id) :
    lookup j (step s (.call id)).1.objects = lookup j s.objects := by
  simp only [step]
  split
  · cases lookup id s.objects with
    | none => rfl
    | some o => exact lookup_update_other id j _ _ hj
  · rfl

/-! ### non-vacuity: a history that adds, subscribes, removes and calls again -/

def exOps : List Op := [.add 1, .add 7, .subscribe 7 100, .call 7, .remove 7, .call 7, .call 1]

example : lookup 7 (run {} exOps).objects = none ∧
    (run {} exOps).dead = [{ uid := 1, invoked := 1, terminated := 1, subs := [], told := [100] }] ∧
    (step (run {} [.add 1, .add 7, .remove 7]) (.call 7)).2 = .errorReply := by decide

end QiVerif.C16
