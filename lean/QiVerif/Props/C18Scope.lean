/-
  C18 — the scope of a package: the resolution of type references ends on every scope, whatever
  the struct blocks say about each other; before the repair it did not (a struct that contains
  itself was followed until the stack was exhausted).  On the scopes `GenerateIDL` writes — the
  struct blocks of the structs of a meta-object — every reference resolves to the signature the
  struct had in the meta-object, which is the hypothesis of `signature_survives` (Props/C18.lean).
-/
import QiVerif.Model.IdlScope
import QiVerif.Props.C18
set_option linter.unusedSimpArgs false
set_option linter.unusedVariables false
namespace QiVerif.C18
open QiVerif QiVerif.Idl

/-! ### the visit of a type ends when every reference in it answers -/

mutual
theorem sigWith_isSome (expand : NodeId → Bytes → Option Bytes) (owner : Nat) :
    (path : List Nat) → (t : IT) → (∀ ν ∈ nodesT owner path t, ∀ n, (expand ν n).isSome = true) →
    (sigWith expand owner path t).isSome = true
  | _, .basic k, _ => by simp [sigWith]
  | path, .vec t, h => by
    have := sigWith_isSome expand owner (path ++ [0]) t (by simpa [nodesT] using h)
    simp only [sigWith, Option.isSome_map]; exact this
  | path, .map k v, h => by
    have hk := sigWith_isSome expand owner (path ++ [0]) k (fun ν hν => h ν (by simp [nodesT, hν]))
    have hv := sigWith_isSome expand owner (path ++ [1]) v (fun ν hν => h ν (by simp [nodesT, hν]))
    simp only [sigWith]
    obtain ⟨a, ha⟩ := Option.isSome_iff_exists.mp hk
    obtain ⟨c, hc⟩ := Option.isSome_iff_exists.mp hv
    simp [ha, hc]
  | path, .tuple ts, h => by
    have := sigWiths_isSome expand owner path 0 ts (by simpa [nodesT] using h)
    simp only [sigWith, Option.isSome_map]; exact this
  | path, .ref n, h => by
    simp only [sigWith]; exact h (owner, path) (by simp [nodesT]) n
theorem sigWiths_isSome (expand : NodeId → Bytes → Option Bytes) (owner : Nat) :
    (path : List Nat) → (i : Nat) → (ts : List IT) → (∀ ν ∈ nodesTs owner path i ts, ∀ n, (expand ν n).isSome = true) →
    (sigWiths expand owner path i ts).isSome = true
  | _, _, [], _ => by simp [sigWiths]
  | path, i, t :: r, h => by
    have ht := sigWith_isSome expand owner (path ++ [i]) t (fun ν hν => h ν (by simp [nodesTs, hν]))
    have hr := sigWiths_isSome expand owner path (i + 1) r (fun ν hν => h ν (by simp [nodesTs, hν]))
    simp only [sigWiths]
    obtain ⟨a, ha⟩ := Option.isSome_iff_exists.mp ht
    obtain ⟨c, hc⟩ := Option.isSome_iff_exists.mp hr
    simp [ha, hc]
end

/-- the references of a declared struct are among the references of the scope -/
theorem found_nodes (sc : List Entry) (n : Bytes) (k i : Nat) (d : Decl) (h : findAt sc n k = some (i, .struct d)) :
    ∀ ν ∈ nodesTs (i + 1) [] 0 (tys d.members), ν ∈ scopeNodes sc k := by
  induction sc generalizing k with
  | nil => simp [findAt] at h
  | cons e r ih =>
    simp only [findAt] at h
    split at h
    · simp only [Option.some.injEq, Prod.mk.injEq] at h
      obtain ⟨rfl, rfl⟩ := h
      intro ν hν; simp [scopeNodes, hν]
    · intro ν hν
      have := ih (k + 1) h ν hν
      cases e <;> simp [scopeNodes, this]

/-- **The visit of a reference ends.**  `all` are the references that exist (those of the scope
    and those of the type asked for); the flags set are distinct references among them; a depth of
    as many steps as there are references without a flag is never exhausted. -/
theorem expandAt_total (sc : List Entry) (all : List NodeId) (hsc : ∀ ν ∈ scopeNodes sc 0, ν ∈ all) :
    ∀ (fuel : Nat) (busy : List NodeId) (node : NodeId) (n : Bytes), busy.Nodup → (∀ ν ∈ busy, ν ∈ all) → node ∈ all →
      all.length ≤ fuel + busy.length → (expandAt sc fuel busy node n).isSome = true := by
  intro fuel
  induction fuel with
  | zero =>
    intro busy node n hnd hsub hnode hlen
    unfold expandAt
    split
    · rfl
    · rename_i i e hfind
      split
      · rfl
      · rename_i hb
        cases e with
        | itf _ => rfl
        | struct d =>
          exfalso
          have hnb : node ∉ busy := by simpa using hb
          have : (node :: busy).length ≤ all.length :=
            List.Nodup.length_le_of_subset (List.nodup_cons.mpr ⟨hnb, hnd⟩)
              (by intro x hx; rcases List.mem_cons.mp hx with rfl | hx; exact hnode; exact hsub x hx)
          simp at this; omega
  | succ f ih =>
    intro busy node n hnd hsub hnode hlen
    unfold expandAt
    split
    · rfl
    · rename_i i e hfind
      split
      · rfl
      · rename_i hb
        cases e with
        | itf _ => rfl
        | struct d =>
          have hnb : node ∉ busy := by simpa using hb
          simp only [Option.isSome_map]
          apply sigWiths_isSome
          intro ν hν m
          have hνall : ν ∈ all := hsc ν (found_nodes sc n 0 i d hfind ν hν)
          have hle : (node :: busy).length ≤ all.length :=
            List.Nodup.length_le_of_subset (List.nodup_cons.mpr ⟨hnb, hnd⟩)
              (by intro x hx; rcases List.mem_cons.mp hx with rfl | hx; exact hnode; exact hsub x hx)
          exact ih (node :: busy) ν m (List.nodup_cons.mpr ⟨hnb, hnd⟩)
            (by intro x hx; rcases List.mem_cons.mp hx with rfl | hx; exact hnode; exact hsub x hx) hνall
            (by simp at hle ⊢; omega)

/-- **The signature of every type is found on every scope** — whatever the struct blocks of the
    package refer to, themselves included: `InterfaceType.MetaObject()` returns. -/
theorem resolve_total (sc : List Entry) (t : IT) : (resolve sc t).isSome = true := by
  unfold resolve
  apply sigWith_isSome
  intro ν hν n
  exact expandAt_total sc (scopeNodes sc 0 ++ nodesT 0 [] t) (by intro x hx; simp [hx]) _ [] ν n
    List.nodup_nil (by simp) (by simp [hν]) (by simp)

/-- the same for the signature of a struct block asked for directly -/
theorem resolveDecl_total (sc : List Entry) (owner : Nat) (d : Decl) : (resolveDecl sc owner d).isSome = true := by
  unfold resolveDecl
  simp only [Option.isSome_map]
  apply sigWiths_isSome
  intro ν hν n
  exact expandAt_total sc (scopeNodes sc 0 ++ nodesTs owner [] 0 (tys d.members)) (by intro x hx; simp [hx]) _ [] ν n
    List.nodup_nil (by simp) (by simp [hν]) (by simp)

/-! ### before the repair -/

/-- a struct that has itself as a member -/
def selfScope : List Entry := [.struct ⟨[65], [⟨[97], .ref [65]⟩]⟩]

/-- **Before the repair the visit of a struct that contains itself did not end**: whatever depth is
    allowed, it is exhausted (in the code: the stack; the process dies). -/
theorem expandOld_self (fuel : Nat) : ∀ ν : NodeId, expandOld selfScope fuel ν [65] = none := by
  induction fuel with
  | zero => intro ν; rfl
  | succ f ih =>
    intro ν
    have hf : findAt selfScope [65] 0 = some (0, .struct ⟨[65], [⟨[97], .ref [65]⟩]⟩) := by rfl
    unfold expandOld
    simp only [hf, tys, List.map, sigWiths, sigWith, ih]
    rfl

theorem self_reference_before_repair (fuel : Nat) : resolveOld selfScope fuel (.ref [65]) = none := by
  unfold resolveOld
  simp only [sigWith]
  exact expandOld_self fuel _

/-- with the flag the same scope answers: the struct, with the error name where it meets itself -/
example : resolve selfScope (.ref [65]) =
    some ([40, 40] ++ errSig (msgRecursive ++ [65]) ++ [41, 60, 65, 44, 97, 62, 41, 60, 65, 44, 97, 62]) := by
  decide

/-! ### the scopes `GenerateIDL` writes -/

/-- the entries of a scope together with what they stand for: a struct of the meta-object with its
    members, or an interface -/
inductive SEntry where
  | struct (n : Bytes) (ms : List (Bytes × Sig.Ty))
  | itf (n : Bytes)

/-- the members of a struct block: `generateStructure` writes `SignatureIDL()` of each member -/
def toParams : List (Bytes × Sig.Ty) → List Param
  | [] => []
  | (f, t) :: r => ⟨f, toIT t⟩ :: toParams r

def declOf (n : Bytes) (ms : List (Bytes × Sig.Ty)) : Decl := ⟨n, toParams ms⟩

def SEntry.erase : SEntry → Entry
  | .struct n ms => .struct (declOf n ms)
  | .itf n => .itf n

def scopeOf (ss : List SEntry) : List Entry := ss.map SEntry.erase

mutual
/-- how deep structs are nested in a type -/
def hTy : Sig.Ty → Nat
  | .basic _ => 0
  | .list t => hTy t
  | .map k v => max (hTy k) (hTy v)
  | .tuple ts => hTys ts
  | .struct _ ms => hMs ms + 1
def hTys : List Sig.Ty → Nat
  | [] => 0
  | t :: r => max (hTy t) (hTys r)
def hMs : List (Bytes × Sig.Ty) → Nat
  | [] => 0
  | (_, t) :: r => max (hTy t) (hMs r)
end

mutual
/-- every struct of the type has its block in the package, under its name, with its members -/
def Declared (ss : List SEntry) : Sig.Ty → Prop
  | .basic c => c ∈ Sig.basicLetters
  | .list t => Declared ss t
  | .map k v => Declared ss k ∧ Declared ss v
  | .tuple ts => DeclaredL ss ts
  | .struct n ms =>
    (∃ j, findAt (scopeOf ss) n 0 = some (j, .struct (declOf n ms)) ∧ ss[j]? = some (.struct n ms)) ∧ DeclaredM ss ms
def DeclaredL (ss : List SEntry) : List Sig.Ty → Prop
  | [] => True
  | t :: r => Declared ss t ∧ DeclaredL ss r
def DeclaredM (ss : List SEntry) : List (Bytes × Sig.Ty) → Prop
  | [] => True
  | (_, t) :: r => Declared ss t ∧ DeclaredM ss r
end

/-- the nesting depth of the struct an owner stands for (0: the type of an action) -/
def hOf (ss : List SEntry) : Nat → Nat
  | 0 => 0
  | o + 1 => match ss[o]? with
    | some (.struct _ ms) => hMs ms + 1
    | _ => 0

/-- the flags set belong to references in structs that are nested less deeply than the owner -/
def Ok (ss : List SEntry) (busy : List NodeId) (o : Nat) : Prop :=
  (o = 0 ∧ busy = []) ∨ (1 ≤ o ∧ ∀ ν ∈ busy, ν.1 = 0 ∨ hOf ss o < hOf ss ν.1)

theorem fieldNames_toParams : (ms : List (Bytes × Sig.Ty)) → fieldNames (toParams ms) = Sig.memberNames ms
  | [] => by simp [toParams, fieldNames, Sig.memberNames]
  | (f, t) :: r => by simp [toParams, fieldNames, Sig.memberNames, fieldNames_toParams r]

theorem structSig_declOf (n : Bytes) (ms : List (Bytes × Sig.Ty)) :
    structSig (declOf n ms) (Sig.printMembers ms) = Sig.print (.struct n ms) := by
  cases ms with
  | nil => simp [structSig, declOf, toParams, Sig.print]
  | cons m r =>
    obtain ⟨f, t⟩ := m
    simp only [structSig, declOf, toParams, Sig.print, fieldNames_toParams, fieldNames, Sig.memberNames]

theorem not_busy (ss : List SEntry) (busy : List NodeId) (o : Nat) (path : List Nat) (h : Ok ss busy o) :
    busy.contains (o, path) = false := by
  rcases h with ⟨_, rfl⟩ | ⟨ho, h⟩
  · rfl
  · cases hc : busy.contains (o, path) with
    | false => rfl
    | true =>
      have := h (o, path) (by simpa using hc)
      simp at this
      omega

theorem ok_push (ss : List SEntry) (busy : List NodeId) (o : Nat) (path : List Nat) (j : Nat)
    (h : Ok ss busy o) (hlt : o = 0 ∨ hOf ss (j + 1) < hOf ss o) : Ok ss ((o, path) :: busy) (j + 1) := by
  right
  refine ⟨by omega, ?_⟩
  intro ν hν
  rcases List.mem_cons.mp hν with rfl | hν
  · rcases hlt with h0 | hlt
    · left; exact h0
    · right; exact hlt
  · rcases h with ⟨_, rfl⟩ | ⟨ho, h⟩
    · simp at hν
    · rcases h ν hν with h0 | hlt'
      · left; exact h0
      · right
        rcases hlt with h0 | hlt
        · omega
        · omega

mutual
theorem resolves_ty (ss : List SEntry) : (ty : Sig.Ty) → ∀ (fuel : Nat) (busy : List NodeId) (o : Nat) (path : List Nat),
    hTy ty ≤ fuel → Ok ss busy o → (o = 0 ∨ hTy ty < hOf ss o) → Declared ss ty →
    sigWith (expandAt (scopeOf ss) fuel busy) o path (toIT ty) = some (Sig.print ty)
  | .basic c, fuel, busy, o, path, _, _, _, hd => by
    simp only [Declared] at hd
    simp only [toIT, sigWith, Sig.print, (kwOf_ok c hd).2]
  | .list t, fuel, busy, o, path, hf, hok, hin, hd => by
    simp only [Declared] at hd
    simp only [hTy] at hf hin
    simp only [toIT, sigWith, Sig.print, resolves_ty ss t fuel busy o (path ++ [0]) hf hok hin hd]
    simp
  | .map k v, fuel, busy, o, path, hf, hok, hin, hd => by
    simp only [Declared] at hd
    simp only [hTy] at hf hin
    simp only [toIT, sigWith, Sig.print,
      resolves_ty ss k fuel busy o (path ++ [0]) (by omega) hok (by omega) hd.1,
      resolves_ty ss v fuel busy o (path ++ [1]) (by omega) hok (by omega) hd.2]
  | .tuple ts, fuel, busy, o, path, hf, hok, hin, hd => by
    simp only [Declared] at hd
    simp only [hTy] at hf hin
    simp only [toIT, sigWith, Sig.print, resolves_tys ss ts fuel busy o path 0 hf hok hin hd]
    simp
  | .struct n ms, fuel, busy, o, path, hf, hok, hin, hd => by
    simp only [Declared] at hd
    obtain ⟨⟨j, hfind, hj⟩, hdm⟩ := hd
    simp only [hTy] at hf hin
    obtain ⟨f, rfl⟩ : ∃ f, fuel = f + 1 := ⟨fuel - 1, by omega⟩
    have hh : hOf ss (j + 1) = hMs ms + 1 := by simp [hOf, hj]
    simp only [toIT, sigWith]
    unfold expandAt
    simp only [hfind, not_busy ss busy o path hok, Bool.false_eq_true, if_false]
    have hm := resolves_ms ss ms f ((o, path) :: busy) (j + 1) [] 0 (by omega)
      (ok_push ss busy o path j hok (by rcases hin with h | h; exact Or.inl h; right; omega))
      (by right; omega) hdm
    have hmem : (declOf n ms).members = toParams ms := rfl
    rw [hmem, hm]
    simp only [Option.map_some, structSig_declOf]
theorem resolves_tys (ss : List SEntry) : (ts : List Sig.Ty) → ∀ (fuel : Nat) (busy : List NodeId) (o : Nat) (path : List Nat) (i : Nat),
    hTys ts ≤ fuel → Ok ss busy o → (o = 0 ∨ hTys ts < hOf ss o) → DeclaredL ss ts →
    sigWiths (expandAt (scopeOf ss) fuel busy) o path i (toITs ts) = some (Sig.printList ts)
  | [], _, _, _, _, _, _, _, _, _ => by simp [toITs, sigWiths, Sig.printList]
  | t :: r, fuel, busy, o, path, i, hf, hok, hin, hd => by
    simp only [DeclaredL] at hd
    simp only [hTys] at hf hin
    simp only [toITs, sigWiths, Sig.printList,
      resolves_ty ss t fuel busy o (path ++ [i]) (by omega) hok (by omega) hd.1,
      resolves_tys ss r fuel busy o path (i + 1) (by omega) hok (by omega) hd.2]
theorem resolves_ms (ss : List SEntry) : (ms : List (Bytes × Sig.Ty)) → ∀ (fuel : Nat) (busy : List NodeId) (o : Nat) (path : List Nat) (i : Nat),
    hMs ms ≤ fuel → Ok ss busy o → (o = 0 ∨ hMs ms < hOf ss o) → DeclaredM ss ms →
    sigWiths (expandAt (scopeOf ss) fuel busy) o path i (tys (toParams ms)) = some (Sig.printMembers ms)
  | [], _, _, _, _, _, _, _, _, _ => by simp [toParams, tys, sigWiths, Sig.printMembers]
  | (f, t) :: r, fuel, busy, o, path, i, hf, hok, hin, hd => by
    simp only [DeclaredM] at hd
    simp only [hMs] at hf hin
    have hr := resolves_ms ss r fuel busy o path (i + 1) (by omega) hok (by omega) hd.2
    simp only [tys] at hr
    simp only [toParams, tys, List.map, sigWiths, Sig.printMembers,
      resolves_ty ss t fuel busy o (path ++ [i]) (by omega) hok (by omega) hd.1, hr]
end

/-! ### a deeper bound changes nothing -/

mutual
theorem sigWith_ext (e1 e2 : NodeId → Bytes → Option Bytes) (h : ∀ ν n s, e1 ν n = some s → e2 ν n = some s) (owner : Nat) :
    (path : List Nat) → (t : IT) → ∀ s, sigWith e1 owner path t = some s → sigWith e2 owner path t = some s
  | _, .basic k, s, hs => by simpa [sigWith] using hs
  | path, .vec t, s, hs => by
    simp only [sigWith, Option.map_eq_some_iff] at hs ⊢
    obtain ⟨a, ha, rfl⟩ := hs
    exact ⟨a, sigWith_ext e1 e2 h owner _ t a ha, rfl⟩
  | path, .map k v, s, hs => by
    simp only [sigWith] at hs ⊢
    cases hk : sigWith e1 owner (path ++ [0]) k with
    | none => simp [hk] at hs
    | some a =>
      cases hv : sigWith e1 owner (path ++ [1]) v with
      | none => simp [hk, hv] at hs
      | some c =>
        simp only [hk, hv, Option.some.injEq] at hs
        simp only [sigWith_ext e1 e2 h owner _ k a hk, sigWith_ext e1 e2 h owner _ v c hv, hs]
  | path, .tuple ts, s, hs => by
    simp only [sigWith, Option.map_eq_some_iff] at hs ⊢
    obtain ⟨a, ha, rfl⟩ := hs
    exact ⟨a, sigWiths_ext e1 e2 h owner path 0 ts a ha, rfl⟩
  | path, .ref n, s, hs => by
    simp only [sigWith] at hs ⊢; exact h _ _ _ hs
theorem sigWiths_ext (e1 e2 : NodeId → Bytes → Option Bytes) (h : ∀ ν n s, e1 ν n = some s → e2 ν n = some s) (owner : Nat) :
    (path : List Nat) → (i : Nat) → (ts : List IT) → ∀ s, sigWiths e1 owner path i ts = some s → sigWiths e2 owner path i ts = some s
  | _, _, [], s, hs => by simpa [sigWiths] using hs
  | path, i, t :: r, s, hs => by
    simp only [sigWiths] at hs ⊢
    cases ht : sigWith e1 owner (path ++ [i]) t with
    | none => simp [ht] at hs
    | some a =>
      cases hr : sigWiths e1 owner path (i + 1) r with
      | none => simp [ht, hr] at hs
      | some c =>
        simp only [ht, hr, Option.some.injEq] at hs
        simp only [sigWith_ext e1 e2 h owner _ t a ht, sigWiths_ext e1 e2 h owner path (i + 1) r c hr, hs]
end

theorem expandAt_mono (sc : List Entry) : ∀ (f : Nat) (busy : List NodeId) (ν : NodeId) (n s : Bytes),
    expandAt sc f busy ν n = some s → expandAt sc (f + 1) busy ν n = some s := by
  intro f
  induction f with
  | zero =>
    intro busy ν n s h
    unfold expandAt at h ⊢
    split at h
    · exact h
    · split at h
      · rename_i hb; simp only [hb, if_true]; exact h
      · rename_i e _ hb
        simp only [hb, if_false]
        cases e with
        | itf _ => exact h
        | struct d => simp at h
  | succ f ih =>
    intro busy ν n s h
    unfold expandAt at h ⊢
    split at h
    · exact h
    · split at h
      · rename_i hb; simp only [hb, if_true]; exact h
      · rename_i i e _ hb
        simp only [hb, if_false]
        cases e with
        | itf _ => exact h
        | struct d =>
          cases hm : sigWiths (expandAt sc f (ν :: busy)) (i + 1) [] 0 (tys d.members) with
          | none => simp [hm] at h
          | some a =>
            simp only [hm, Option.map_some] at h
            have := sigWiths_ext _ _ (fun ν' n' s' hs' => ih (ν :: busy) ν' n' s' hs') (i + 1) [] 0 _ a hm
            simp only [this, Option.map_some]; exact h

theorem expandAt_mono_add (sc : List Entry) (k : Nat) : ∀ (f : Nat) (busy : List NodeId) (ν : NodeId) (n s : Bytes),
    expandAt sc f busy ν n = some s → expandAt sc (f + k) busy ν n = some s := by
  induction k with
  | zero => intro f busy ν n s h; exact h
  | succ k ih => intro f busy ν n s h; exact expandAt_mono sc (f + k) busy ν n s (ih f busy ν n s h)

/-- **The structs of a meta-object resolve to their signatures.**  `ss` is the package as
    `GenerateIDL` writes it: every struct of the type has its block, under its name, with its
    members.  The signature found for what `SignatureIDL` wrote is the signature of the type. -/
theorem resolve_declared (ss : List SEntry) (ty : Sig.Ty) (h : Declared ss ty) :
    resolve (scopeOf ss) (toIT ty) = some (Sig.print ty) := by
  obtain ⟨s, hs⟩ := Option.isSome_iff_exists.mp (resolve_total (scopeOf ss) (toIT ty))
  rw [hs]
  unfold resolve at hs
  have big := sigWith_ext _ _ (fun ν n s' h' => expandAt_mono_add (scopeOf ss) (hTy ty) _ [] ν n s' h') 0 [] (toIT ty) s hs
  have want := resolves_ty ss ty (((scopeNodes (scopeOf ss) 0).length + (nodesT 0 [] (toIT ty)).length) + hTy ty) [] 0 []
    (by omega) (Or.inl ⟨rfl, rfl⟩) (Or.inl rfl) h
  rw [big] at want
  exact want

/-- a package with two structs, one inside the other, and an interface; a map of lists of the outer one -/
def exScope : List SEntry :=
  [.itf [73], .struct [80] [([120], .basic 105), ([113], .struct [81] [([115], .basic 115)])], .struct [81] [([115], .basic 115)]]

example : Declared exScope (.map (.basic 115) (.list (.struct [80] [([120], .basic 105), ([113], .struct [81] [([115], .basic 115)])]))) := by
  simp only [Declared, DeclaredM, and_true]
  refine ⟨by decide, ⟨⟨1, by rfl, by rfl⟩, by decide, ⟨⟨2, by rfl, by rfl⟩, by decide⟩⟩⟩

end QiVerif.C18
