/-
  Lemmas about Model/Names.lean: the candidates of `registerName` are pairwise distinct, so a
  free one exists while fewer than a hundred names are in use.
-/
import QiVerif.Model.Names
set_option linter.unusedSimpArgs false
set_option linter.unusedVariables false
namespace QiVerif.Names

theorem toDigits_inj (i j : Nat) (h : Nat.toDigits 10 i = Nat.toDigits 10 j) : i = j := by
  have hi := Nat.ofDigitChars_toDigits (b := 10) (n := i) (by omega) (by omega)
  have hj := Nat.ofDigitChars_toDigits (b := 10) (n := j) (by omega) (by omega)
  rw [h] at hi; omega

theorem candidate_inj (name : Name) (i j : Nat) (h : candidate name i = candidate name j) : i = j := by
  cases i with
  | zero =>
    cases j with
    | zero => rfl
    | succ j =>
      simp only [candidate] at h
      have := congrArg List.length h
      simp at this
  | succ i =>
    cases j with
    | zero =>
      simp only [candidate] at h
      have := congrArg List.length h
      simp at this
    | succ j =>
      simp only [candidate] at h
      have := List.append_cancel_left h
      simp only [List.cons.injEq, true_and] at this
      rw [toDigits_inj i j this]

theorem length_le_of_nodup_subset {α} [DecidableEq α] : (l u : List α) → l.Nodup → (∀ x ∈ l, x ∈ u) → l.length ≤ u.length
  | [], _, _, _ => by simp
  | a :: l, u, hn, hs => by
    have ha : a ∈ u := hs a (by simp)
    have hn' := List.nodup_cons.mp hn
    have := length_le_of_nodup_subset l (u.erase a) hn'.2 (by
      intro x hx
      have hxa : x ≠ a := by intro e; subst e; exact hn'.1 hx
      exact (List.mem_erase_of_ne hxa).mpr (hs x (by simp [hx])))
    rw [List.length_erase_of_mem ha] at this
    have hpos : 0 < u.length := List.length_pos_of_mem ha
    simp only [List.length_cons]; omega

theorem candidates_nodup (name : Name) (n : Nat) : ((List.range n).map (candidate name)).Nodup := by
  rw [List.nodup_iff_pairwise_ne, List.pairwise_map]
  have := List.nodup_range (n := n)
  rw [List.nodup_iff_pairwise_ne] at this
  exact this.imp (fun hne e => hne (candidate_inj name _ _ e))

end QiVerif.Names
