/-
  Round trip of the typed decoders (`decT`): the reflection decoder and the
  generated Unmarshal code recover the value from its documented encoding.
-/
import QiVerif.Lemmas.Value
set_option linter.unusedSimpArgs false
set_option linter.unusedVariables false
namespace QiVerif.DecodeL
open QiVerif QiVerif.Sig QiVerif.Codec QiVerif.Value QiVerif.Decode QiVerif.CodecL QiVerif.ValueL

mutual
/-- what a decoder returns for a typed value: the same tree, dynamic values as their bytes -/
def toD : Ty → TVal → DVal
  | _, .num n => .num n
  | _, .str b => .str b
  | _, .void => .void
  | _, .dyn t v => .dyn (D (.basic 109) (.dyn t v))
  | .list t, .list xs => .list (toDList t xs)
  | .map k v, .map kvs => .map (toDPairs k v kvs)
  | .tuple ts, .tuple xs => .tuple (toDFields ts xs)
  | .struct _ ms, .tuple xs => .tuple (toDMembers ms xs)
  | _, _ => .void
def toDList : Ty → List TVal → List DVal
  | _, [] => []
  | t, x :: r => toD t x :: toDList t r
def toDPairs : Ty → Ty → List (TVal × TVal) → List (DVal × DVal)
  | _, _, [] => []
  | k, v, (a, b) :: r => (toD k a, toD v b) :: toDPairs k v r
def toDFields : List Ty → List TVal → List DVal
  | t :: ts, x :: xs => toD t x :: toDFields ts xs
  | _, _ => []
def toDMembers : List (Bytes × Ty) → List TVal → List DVal
  | (_, t) :: ts, x :: xs => toD t x :: toDMembers ts xs
  | _, _ => []
end

/-- the two configurations in use -/
def CfgOK (cfg : DecCfg) : Prop := cfg.countLimit = none ∨ cfg.countLimit = some 4096

theorem readCount_ok (cfg : DecCfg) (hc : CfgOK cfg) (n : Nat) (rest : Bytes) (h1 : n < 2147483648)
    (h2 : n ≤ listValueMaxSize) : readCount cfg (leN 4 n ++ rest) = .ok (n, rest) := by
  unfold listValueMaxSize at h2
  have hs : (cfg.signedCount && decide (n ≥ 2147483648)) = false := by
    have : decide (n ≥ 2147483648) = false := by simp; omega
    simp [this]
  have hl : ¬ n > 4096 := by omega
  rcases hc with hc | hc
  · have : ¬ n > rest.length + 65536 := by omega
    simp only [readCount, readLE4_count n rest h1, hs, hc]; simp [this]
  · simp only [readCount, readLE4_count n rest h1, hs, hc]; simp [hl]

mutual
theorem dt (cfg : DecCfg) (hc : CfgOK cfg) : (v : TVal) → (t : Ty) → Typed t v → Small v →
    ∀ f rest, vneed v ≤ f → decT cfg f t (D t v ++ rest) = .ok (toD t v, rest)
  | .num n, t, ht, _ => by
    cases t <;> simp [Typed] at ht
    rename_i c
    obtain ⟨w, hw, hn, hb⟩ := ht
    intro f rest hf
    obtain ⟨k, rfl⟩ : ∃ k, f = k + 1 := ⟨f - 1, by simp [vneed] at hf; omega⟩
    simp only [decT, D, hw, readLE_leN w n rest hn, toD]
    by_cases h98 : c = 98
    · subst h98
      have : n = 0 ∨ n = 1 := by have := hb rfl; omega
      rcases this with rfl | rfl <;> simp
    · have : (c == 98) = false := by simpa using h98
      simp [this]
  | .str b, t, ht, _ => by
    cases t <;> simp [Typed] at ht
    obtain ⟨rfl, hb⟩ := ht
    intro f rest hf
    obtain ⟨k, rfl⟩ : ∃ k, f = k + 1 := ⟨f - 1, by simp [vneed] at hf; omega⟩
    have := readString_write b rest hb
    rw [List.append_assoc] at this
    simp [decT, D, width, this, toD]
  | .void, t, ht, _ => by
    cases t <;> simp [Typed] at ht
    subst ht
    intro f rest hf
    obtain ⟨k, rfl⟩ : ∃ k, f = k + 1 := ⟨f - 1, by simp [vneed] at hf; omega⟩
    simp [decT, D, width, toD]
  | .dyn t' v, t, ht, hs => by
    cases t with
    | basic c =>
      obtain ⟨rfl, hd⟩ := typed_dyn c t' v ht
      intro f rest hf
      obtain ⟨k, rfl⟩ : ∃ k, f = k + 1 := ⟨f - 1, by simp [vneed] at hf; omega⟩
      have hsv : Small v := by simpa [Small] using hs
      obtain ⟨val, h1, h2⟩ := dyn_read t' v hd hsv k (by simp [vneed] at hf; omega) rest
      simp [decT, width, h1, h2, toD]
    | list t => simp [Typed] at ht
    | map k v => simp [Typed] at ht
    | tuple ts => simp [Typed] at ht
    | struct n ms => simp [Typed] at ht
  | .list xs, t, ht, hs => by
    cases t <;> simp [Typed] at ht
    rename_i et
    simp only [Small] at hs
    intro f rest hf
    obtain ⟨k, rfl⟩ : ∃ k, f = k + 1 := ⟨f - 1, by simp [vneed] at hf; omega⟩
    have hk : vneedL xs ≤ k := by simp [vneed] at hf; omega
    have hcnt := readCount_ok cfg hc xs.length (DList et xs ++ rest) ht.1 hs.1
    simp only [decT, D, List.append_assoc, hcnt, toD, dtList cfg hc xs et ht.2.2 hs.2 k rest hk]
  | .map kvs, t, ht, hs => by
    cases t <;> simp [Typed] at ht
    rename_i kt vt
    simp only [Small] at hs
    intro f rest hf
    obtain ⟨k, rfl⟩ : ∃ k, f = k + 1 := ⟨f - 1, by simp [vneed] at hf; omega⟩
    have hk : vneedP kvs ≤ k := by simp [vneed] at hf; omega
    have hcnt := readCount_ok cfg hc kvs.length (DPairs kt vt kvs ++ rest) ht.1 hs.1
    simp only [decT, D, List.append_assoc, hcnt, toD, dtPairs cfg hc kvs kt vt ht.2.2 hs.2 k rest hk]
  | .tuple xs, t, ht, hs => by
    simp only [Small] at hs
    intro f rest hf
    obtain ⟨k, rfl⟩ : ∃ k, f = k + 1 := ⟨f - 1, by simp [vneed] at hf; omega⟩
    have hk : vneedL xs ≤ k := by simp [vneed] at hf; omega
    cases t with
    | tuple ts => simp only [Typed] at ht; simp only [D, decT, toD, dtFields cfg hc xs ts ht hs k rest hk]
    | struct n ms => simp only [Typed] at ht; simp only [D, decT, toD, dtMembers cfg hc xs ms ht hs k rest hk]
    | basic c => simp [Typed] at ht
    | list t => simp [Typed] at ht
    | map k v => simp [Typed] at ht
theorem dtList (cfg : DecCfg) (hc : CfgOK cfg) : (xs : List TVal) → (t : Ty) → TypedList t xs → SmallList xs →
    ∀ f rest, vneedL xs ≤ f →
    decMany cfg f t xs.length (DList t xs ++ rest) = .ok (toDList t xs, rest)
  | [], t, _, _ => by
    intro f rest hf
    obtain ⟨k, rfl⟩ : ∃ k, f = k + 1 := ⟨f - 1, by simp [vneedL] at hf; omega⟩
    simp [decMany, DList, toDList]
  | x :: r, t, ht, hs => by
    intro f rest hf
    obtain ⟨k, rfl⟩ : ∃ k, f = k + 1 := ⟨f - 1, by simp [vneedL] at hf; omega⟩
    simp only [TypedList] at ht
    simp only [SmallList] at hs
    have h1 : vneed x ≤ k := by simp [vneedL] at hf; omega
    have h2 : vneedL r ≤ k := by simp [vneedL] at hf; omega
    have e1 := dt cfg hc x t ht.1 hs.1 k (DList t r ++ rest) h1
    have e2 := dtList cfg hc r t ht.2 hs.2 k rest h2
    simp only [List.length_cons, decMany, DList, toDList, List.append_assoc, e1, e2]
theorem dtPairs (cfg : DecCfg) (hc : CfgOK cfg) : (kvs : List (TVal × TVal)) → (k v : Ty) → TypedPairs k v kvs →
    SmallPairs kvs → ∀ f rest, vneedP kvs ≤ f →
    decPairs cfg f k v kvs.length (DPairs k v kvs ++ rest) = .ok (toDPairs k v kvs, rest)
  | [], k, v, _, _ => by
    intro f rest hf
    obtain ⟨j, rfl⟩ : ∃ j, f = j + 1 := ⟨f - 1, by simp [vneedP] at hf; omega⟩
    simp [decPairs, DPairs, toDPairs]
  | (a, b) :: r, k, v, ht, hs => by
    intro f rest hf
    obtain ⟨j, rfl⟩ : ∃ j, f = j + 1 := ⟨f - 1, by simp [vneedP] at hf; omega⟩
    simp only [TypedPairs] at ht
    simp only [SmallPairs] at hs
    have h1 : vneed a ≤ j := by simp [vneedP] at hf; omega
    have h2 : vneed b ≤ j := by simp [vneedP] at hf; omega
    have h3 : vneedP r ≤ j := by simp [vneedP] at hf; omega
    have e1 := dt cfg hc a k ht.1 hs.1 j (D v b ++ (DPairs k v r ++ rest)) h1
    have e2 := dt cfg hc b v ht.2.1 hs.2.1 j (DPairs k v r ++ rest) h2
    have e3 := dtPairs cfg hc r k v ht.2.2 hs.2.2 j rest h3
    simp only [List.length_cons, decPairs, DPairs, toDPairs, List.append_assoc, e1, e2, e3]
theorem dtFields (cfg : DecCfg) (hc : CfgOK cfg) : (xs : List TVal) → (ts : List Ty) → TypedFields ts xs →
    SmallList xs → ∀ f rest, vneedL xs ≤ f →
    decFields cfg f ts (DFields ts xs ++ rest) = .ok (toDFields ts xs, rest)
  | [], ts, ht, _ => by
    intro f rest hf
    obtain ⟨k, rfl⟩ : ∃ k, f = k + 1 := ⟨f - 1, by simp [vneedL] at hf; omega⟩
    cases ts with
    | nil => simp [decFields, DFields, toDFields]
    | cons t r => simp [TypedFields] at ht
  | x :: r, ts, ht, hs => by
    intro f rest hf
    obtain ⟨k, rfl⟩ : ∃ k, f = k + 1 := ⟨f - 1, by simp [vneedL] at hf; omega⟩
    cases ts with
    | nil => simp [TypedFields] at ht
    | cons t tr =>
      simp only [TypedFields] at ht
      simp only [SmallList] at hs
      have h2 : vneedL r ≤ k := by simp [vneedL] at hf; omega
      have e1 := dt cfg hc x t ht.1 hs.1 k (DFields tr r ++ rest) (by simp [vneedL] at hf; omega)
      have e2 := dtFields cfg hc r tr ht.2 hs.2 k rest h2
      simp only [decFields, DFields, toDFields, List.append_assoc, e1, e2]
theorem dtMembers (cfg : DecCfg) (hc : CfgOK cfg) : (xs : List TVal) → (ms : List (Bytes × Ty)) →
    TypedMembers ms xs → SmallList xs → ∀ f rest, vneedL xs ≤ f →
    decMembers cfg f ms (DMembers ms xs ++ rest) = .ok (toDMembers ms xs, rest)
  | [], ms, ht, _ => by
    intro f rest hf
    obtain ⟨k, rfl⟩ : ∃ k, f = k + 1 := ⟨f - 1, by simp [vneedL] at hf; omega⟩
    cases ms with
    | nil => simp [decMembers, DMembers, toDMembers]
    | cons t r => obtain ⟨n, t⟩ := t; simp [TypedMembers] at ht
  | x :: r, ms, ht, hs => by
    intro f rest hf
    obtain ⟨k, rfl⟩ : ∃ k, f = k + 1 := ⟨f - 1, by simp [vneedL] at hf; omega⟩
    cases ms with
    | nil => simp [TypedMembers] at ht
    | cons m tr =>
      obtain ⟨n, t⟩ := m
      simp only [TypedMembers] at ht
      simp only [SmallList] at hs
      have h2 : vneedL r ≤ k := by simp [vneedL] at hf; omega
      have e1 := dt cfg hc x t ht.1 hs.1 k (DMembers tr r ++ rest) (by simp [vneedL] at hf; omega)
      have e2 := dtMembers cfg hc r tr ht.2 hs.2 k rest h2
      simp only [decMembers, DMembers, toDMembers, List.append_assoc, e1, e2]
end

end QiVerif.DecodeL
