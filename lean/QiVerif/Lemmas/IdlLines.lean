/-
  Lemmas about Model/IdlLines.lean: white space in front of terminals, identifiers, parameter
  lists, the uid comment.  (They use the type-layer theorem of Props/C18.lean.)
-/
import QiVerif.Props.C18
import QiVerif.Model.IdlLines
set_option linter.unusedSimpArgs false
set_option linter.unusedVariables false
namespace QiVerif.C18
open QiVerif QiVerif.Idl

/-! ### white space in front of a terminal -/

theorem skipWS_ws (c : UInt8) (x : Bytes) (h : isWS c = true) : skipWS (c :: x) = skipWS x := by
  simp [skipWS, h]

theorem atom_skip (lit : Bytes) (c : UInt8) (x : Bytes) (h : isWS c = true) : atom lit (c :: x) = atom lit x := by
  simp [atom, skipWS_ws c x h]

theorem keyword_skip (k : Bytes) (c : UInt8) (x : Bytes) (h : isWS c = true) : keyword k (c :: x) = keyword k x := by
  simp [keyword, atom_skip k c x h]

theorem firstKeyword_skip (ks : List Bytes) (i : Nat) (c : UInt8) (x : Bytes) (h : isWS c = true) :
    firstKeyword ks i (c :: x) = firstKeyword ks i x := by
  induction ks generalizing i with
  | nil => rfl
  | cons k r ih => simp only [firstKeyword, keyword_skip k c x h, ih]

theorem typeIdent_skip (c : UInt8) (x : Bytes) (h : isWS c = true) : typeIdent (c :: x) = typeIdent x := by
  simp [typeIdent, skipWS_ws c x h]

theorem parseMap_skip (f : Nat) (c : UInt8) (x : Bytes) (h : isWS c = true) : parseMap f (c :: x) = parseMap f x := by
  cases f <;> simp [parseMap, atom_skip kwMap c x h]
theorem parseVec_skip (f : Nat) (c : UInt8) (x : Bytes) (h : isWS c = true) : parseVec f (c :: x) = parseVec f x := by
  cases f <;> simp [parseVec, atom_skip kwVec c x h]
theorem parseTuple_skip (f : Nat) (c : UInt8) (x : Bytes) (h : isWS c = true) : parseTuple f (c :: x) = parseTuple f x := by
  cases f <;> simp [parseTuple, atom_skip kwTuple c x h]

/-- a type may be preceded by white space -/
theorem parseT_skip (f : Nat) (c : UInt8) (x : Bytes) (h : isWS c = true) : parseT f (c :: x) = parseT f x := by
  cases f with
  | zero => rfl
  | succ f =>
    simp only [parseT, firstKeyword_skip keywords 0 c x h, parseMap_skip f c x h, parseTuple_skip f c x h,
      parseVec_skip f c x h, typeIdent_skip c x h]

theorem ident_skip (c : UInt8) (x : Bytes) (h : isWS c = true) : ident (c :: x) = ident x := by
  simp [ident, skipWS_ws c x h]

/-! ### identifiers -/

def IsIdent (n : Bytes) : Prop := ∃ c w, n = c :: w ∧ isAlphaU c = true ∧ AllWord w

theorem ident_hit (n rest : Bytes) (hn : IsIdent n) (hf : Follow rest) : ident (n ++ rest) = some (n, rest) := by
  obtain ⟨c, w, rfl, hc, hw⟩ := hn
  unfold ident
  rw [List.cons_append, skipWS_cons c _ (word_not_ws c (alpha_word c hc))]
  simp only [hc, Bool.not_true, Bool.false_eq_true, if_false]
  rw [spanWord_word w rest hw hf]

theorem ident_miss (c : UInt8) (x : Bytes) (hws : isWS c = false) (hc : isAlphaU c = false) : ident (c :: x) = none := by
  unfold ident
  rw [skipWS_cons c x hws]
  simp [hc]

theorem atom1_hit (c : UInt8) (x : Bytes) (hws : isWS c = false) : atom [c] (c :: x) = some x := by
  rw [atom_nonws _ c _ hws]; simp [stripPrefix]

theorem atom1_miss (a c : UInt8) (x : Bytes) (hws : isWS c = false) (hne : a ≠ c) : atom [a] (c :: x) = none := by
  rw [atom_nonws _ c _ hws]
  have : (a == c) = false := by simp [hne]
  simp [stripPrefix, this]

theorem follow_of (c : UInt8) (x : Bytes) (h1 : isWord c = false) (h2 : c ≠ 60) : Follow (c :: x) := by
  simp only [Follow]; exact ⟨h1, h2⟩


/-! ### parameters -/

def WFParam (p : Param) : Prop := IsIdent p.name ∧ WF p.ty

def WFParams : List Param → Prop
  | [] => True
  | p :: r => WFParam p ∧ WFParams r

def needP : List Param → Nat
  | [] => 0
  | p :: r => max (need p.ty) (needP r)

theorem parseParam_skip (f : Nat) (c : UInt8) (x : Bytes) (h : isWS c = true) : parseParam f (c :: x) = parseParam f x := by
  simp [parseParam, ident_skip c x h]

theorem param_hit (p : Param) (hp : WFParam p) (f : Nat) (hf : need p.ty ≤ f) (rest : Bytes) (hfo : Follow rest) :
    parseParam f (printParam p ++ rest) = some (p, rest) := by
  unfold parseParam printParam
  have h1 : p.name ++ [58, 32] ++ printT p.ty ++ rest = p.name ++ (58 :: 32 :: (printT p.ty ++ rest)) := by simp
  rw [h1, ident_hit p.name _ hp.1 (follow_of 58 _ (by decide) (by decide))]
  simp only
  rw [atom1_hit 58 _ (by decide)]
  simp only
  rw [parseT_skip f 32 _ (by decide), parse_print p.ty hp.2 rest hfo f hf]

/-- the separator: a comma, with or without a blank after it -/
def sepB (sp : Bool) : Bytes := if sp then [comma, 32] else [comma]

def moreParams (sp : Bool) : List Param → Bytes
  | [] => []
  | q :: r => sepB sp ++ printParam q ++ moreParams sp r

theorem printParams_cons (sp : Bool) (p : Param) (r : List Param) :
    printParams (sepB sp) (p :: r) = printParam p ++ moreParams sp r := by
  induction r generalizing p with
  | nil => simp [printParams, moreParams]
  | cons q r ih => simp only [printParams, moreParams, ih q]; simp

theorem follow_moreParams (sp : Bool) (r : List Param) (rest : Bytes) : Follow (moreParams sp r ++ 41 :: rest) := by
  cases r with
  | nil => exact follow_of 41 _ (by decide) (by decide)
  | cons q r =>
    cases sp <;> simp only [moreParams, sepB, comma, List.append_assoc, List.cons_append, List.nil_append, if_true, if_false,
      Bool.false_eq_true] <;> exact follow_of 44 _ (by decide) (by decide)

theorem moreParams_ok (sp : Bool) : (r : List Param) → WFParams r → ∀ k f rest, r.length ≤ k → needP r ≤ f →
    parseMoreParams k f (moreParams sp r ++ 41 :: rest) = (r, 41 :: rest)
  | [], _, k, f, rest, _, _ => by
    cases k with
    | zero => rfl
    | succ k =>
      have ha : atom [comma] (41 :: rest) = none := atom1_miss 44 41 rest (by decide) (by decide)
      simp [parseMoreParams, moreParams, ha]
  | q :: r, h, k, f, rest, hk, hf => by
    simp only [WFParams] at h
    simp only [List.length_cons] at hk
    simp only [needP] at hf
    obtain ⟨k', rfl⟩ : ∃ k', k = k' + 1 := ⟨k - 1, by omega⟩
    have ih := moreParams_ok sp r h.2 k' f rest (by omega) (by omega)
    have hp := param_hit q h.1 f (by omega) (moreParams sp r ++ 41 :: rest) (follow_moreParams sp r rest)
    cases sp with
    | false =>
      have hin : moreParams false (q :: r) ++ 41 :: rest = 44 :: (printParam q ++ (moreParams false r ++ 41 :: rest)) := by
        simp [moreParams, sepB, comma]
      rw [hin]
      have ha : atom [comma] (44 :: (printParam q ++ (moreParams false r ++ 41 :: rest))) = some (printParam q ++ (moreParams false r ++ 41 :: rest)) :=
        atom1_hit 44 _ (by decide)
      simp only [parseMoreParams, ha, hp, ih]
    | true =>
      have hin : moreParams true (q :: r) ++ 41 :: rest = 44 :: 32 :: (printParam q ++ (moreParams true r ++ 41 :: rest)) := by
        simp [moreParams, sepB, comma]
      rw [hin]
      have ha : atom [comma] (44 :: 32 :: (printParam q ++ (moreParams true r ++ 41 :: rest))) = some (32 :: (printParam q ++ (moreParams true r ++ 41 :: rest))) :=
        atom1_hit 44 _ (by decide)
      simp only [parseMoreParams, ha, parseParam_skip f 32 _ (by decide), hp, ih]

theorem moreParams_len (sp : Bool) (r : List Param) : r.length ≤ (moreParams sp r).length := by
  induction r with
  | nil => simp [moreParams]
  | cons q r ih => cases sp <;> simp [moreParams, sepB] <;> omega

/-- **a printed parameter list is read back**, whatever the separator's blank -/
theorem params_ok (sp : Bool) (ps : List Param) (h : WFParams ps) (f : Nat) (hf : needP ps ≤ f) (rest : Bytes) :
    parseParams f (printParams (sepB sp) ps ++ 41 :: rest) = (ps, 41 :: rest) := by
  cases ps with
  | nil =>
    simp only [printParams, List.nil_append, parseParams]
    have : parseParam f (41 :: rest) = none := by simp [parseParam, ident_miss 41 rest (by decide) (by decide)]
    rw [this]
  | cons p r =>
    simp only [WFParams] at h
    simp only [needP] at hf
    rw [printParams_cons, List.append_assoc]
    have hp := param_hit p h.1 f (by omega) (moreParams sp r ++ 41 :: rest) (follow_moreParams sp r rest)
    simp only [parseParams, hp]
    have hlen : r.length ≤ (printParam p ++ (moreParams sp r ++ 41 :: rest)).length := by
      have := moreParams_len sp r; simp; omega
    rw [moreParams_ok sp r h.2 _ f rest hlen (by omega)]


/-! ### the uid comment -/

theorem digit_char (c : Char) (h : c.isDigit = true) : 48 ≤ c.toNat ∧ c.toNat ≤ 57 := by
  simp only [Char.isDigit, Bool.and_eq_true, decide_eq_true_eq] at h
  have h1 := UInt32.le_iff_toNat_le.mp h.1
  have h2 := UInt32.le_iff_toNat_le.mp h.2
  simp at h1 h2
  exact ⟨h1, h2⟩

theorem conv_digit (c : Char) (h : c.isDigit = true) :
    isDigit (UInt8.ofNat c.toNat) = true ∧ (UInt8.ofNat c.toNat).toNat = c.toNat := by
  have ⟨h1, h2⟩ := digit_char c h
  have hm : (UInt8.ofNat c.toNat).toNat = c.toNat := by
    simp [UInt8.toNat_ofNat']; omega
  refine ⟨?_, hm⟩
  simp only [isDigit, Bool.and_eq_true, decide_eq_true_eq]
  constructor
  · apply UInt8.le_iff_toNat_le.mpr; rw [hm]; simpa using h1
  · apply UInt8.le_iff_toNat_le.mpr; rw [hm]; simpa using h2

theorem digitsOf_digits (n : Nat) : ∀ c ∈ digitsOf n, isDigit c = true := by
  intro c hc
  obtain ⟨ch, hch, rfl⟩ := List.mem_map.mp hc
  exact (conv_digit ch (Nat.isDigit_of_mem_toDigits (by omega) (by omega) hch)).1

theorem digitsVal_conv (l : List Char) (h : ∀ c ∈ l, c.isDigit = true) (init : Nat) :
    (l.map (fun c => UInt8.ofNat c.toNat)).foldl (fun acc c => acc * 10 + (c.toNat - 48)) init = Nat.ofDigitChars 10 l init := by
  induction l generalizing init with
  | nil => simp [Nat.ofDigitChars]
  | cons c r ih =>
    have hc := conv_digit c (h c (by simp))
    simp only [List.map_cons, List.foldl_cons, Nat.ofDigitChars_eq_foldl]
    rw [ih (fun x hx => h x (by simp [hx])), Nat.ofDigitChars_eq_foldl, hc.2]
    have : ('0' : Char).toNat = 48 := by decide
    rw [this, Nat.mul_comm]

theorem digitsVal_digitsOf (n : Nat) : digitsVal (digitsOf n) = n := by
  unfold digitsVal digitsOf
  rw [digitsVal_conv _ (fun c hc => Nat.isDigit_of_mem_toDigits (by omega) (by omega) hc)]
  exact Nat.ofDigitChars_toDigits (by omega) (by omega)

theorem digitsOf_ne_nil (n : Nat) : digitsOf n ≠ [] := by
  unfold digitsOf
  intro h
  exact Nat.toDigits_ne_nil (List.map_eq_nil_iff.mp h)

theorem spanDigits_all (ds : Bytes) (h : ∀ c ∈ ds, isDigit c = true) : spanDigits ds = (ds, []) := by
  induction ds with
  | nil => rfl
  | cons c r ih =>
    simp only [spanDigits, h c (by simp), if_true]
    rw [ih (fun x hx => h x (by simp [hx]))]

theorem spanLine_stop (x rest : Bytes) (h : ∀ c ∈ x, c ≠ 10) : spanLine (x ++ 10 :: rest) = (x, 10 :: rest) := by
  induction x with
  | nil => simp [spanLine]
  | cons c r ih =>
    have hc : (c == 10) = false := by simpa using h c (by simp)
    simp only [List.cons_append, spanLine, hc, Bool.false_eq_true, if_false]
    rw [ih (fun y hy => h y (by simp [hy]))]

theorem digit_not_nl (c : UInt8) (h : isDigit c = true) : c ≠ 10 := by
  intro e; subst e; revert h; decide

/-- the `//uid:n` comment is read back as n, up to the end of the line -/
theorem comment_hit (n : Nat) (rest : Bytes) :
    parseComment (32 :: 47 :: 47 :: ([117, 105, 100, 58] ++ digitsOf n ++ 10 :: rest)) = (n, 10 :: rest) := by
  unfold parseComment
  rw [atom_skip _ 32 _ (by decide)]
  have ha : atom [47, 47] (47 :: 47 :: ([117, 105, 100, 58] ++ digitsOf n ++ 10 :: rest)) =
      some ([117, 105, 100, 58] ++ digitsOf n ++ 10 :: rest) :=
    atom_hit [47, 47] 47 [47] _ rfl (by decide)
  rw [ha]
  simp only
  have hws : skipWS ([117, 105, 100, 58] ++ digitsOf n ++ 10 :: rest) = [117, 105, 100, 58] ++ digitsOf n ++ 10 :: rest := by
    simp only [List.cons_append, List.nil_append]
    exact skipWS_cons 117 _ (by decide)
  rw [hws, spanLine_stop ([117, 105, 100, 58] ++ digitsOf n) rest (by
    intro c hc
    simp only [List.mem_append, List.mem_cons, List.mem_nil_iff, or_false] at hc
    rcases hc with (h | h | h | h) | h
    · subst h; decide
    · subst h; decide
    · subst h; decide
    · subst h; decide
    · exact digit_not_nl c (digitsOf_digits n c h))]
  simp only
  have hs : scanUid ([117, 105, 100, 58] ++ digitsOf n) = some n := by
    unfold scanUid
    rw [stripPrefix_append]
    simp only
    rw [spanDigits_all _ (digitsOf_digits n)]
    have hne : (digitsOf n).isEmpty = false := by
      cases hd : digitsOf n with
      | nil => exact absurd hd (digitsOf_ne_nil n)
      | cons _ _ => rfl
    simp [hne, digitsVal_digitsOf]
  rw [hs]; rfl


end QiVerif.C18
