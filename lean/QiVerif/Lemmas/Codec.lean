/-
  Shared lemmas for C02 / C03 / C05 / C08: well-typed values, the primitives of
  type/basic on flat bytes, and the round trip of the signature-driven reader.
-/
import QiVerif.Model.Decode
import QiVerif.Props.C09
set_option linter.unusedSimpArgs false
set_option linter.unusedVariables false
namespace QiVerif.CodecL
open QiVerif QiVerif.Sig QiVerif.Codec QiVerif.Value QiVerif.Decode

/-! ### little-endian numbers -/

theorem leN_length (w n : Nat) : (leN w n).length = w := by
  induction w generalizing n with
  | zero => rfl
  | succ w ih => simp [leN, ih]

theorem fromLE_leN (w n : Nat) (h : n < 256 ^ w) : fromLE (leN w n) = n := by
  induction w generalizing n with
  | zero => simp [leN, fromLE] at *; omega
  | succ w ih =>
    simp only [leN, fromLE, u8_toNat_ofNat]
    have h2 : n / 256 < 256 ^ w := by
      rw [Nat.pow_succ] at h
      exact Nat.div_lt_of_lt_mul (by omega)
    rw [ih _ h2]; omega

theorem readLE_leN (w n : Nat) (rest : Bytes) (h : n < 256 ^ w) :
    readLE w (leN w n ++ rest) = .ok (n, rest) := by
  simp [readLE, takeN_append w (leN w n) rest (leN_length w n), fromLE_leN w n h]

theorem takeN_ok_app (a rest : Bytes) : takeN a.length (a ++ rest) = .ok (a, rest) :=
  takeN_append a.length a rest rfl

/-- `basic.ReadString` after `basic.WriteString` -/
theorem readString_write (b rest : Bytes) (h : b.length ≤ maxStringSize) :
    readString (leN 4 b.length ++ b ++ rest) = .ok (b, rest) := by
  have hl : b.length < 256 ^ 4 := by unfold maxStringSize at h; omega
  simp only [readString, List.append_assoc, readLE_leN 4 b.length (b ++ rest) hl]
  by_cases h0 : b.length = 0
  · have : b = [] := List.length_eq_zero_iff.mp h0
    subst this; simp
  · have h1 : ¬ b.length > maxStringSize := by omega
    simp [h0, h1, takeN_ok_app]

/-! ### well-typed values -/

mutual
/-- no `o` (object reference) and no `X` (unknown) anywhere: those have no typed values here -/
def Plain : Ty → Prop
  | .basic c => c ≠ 111 ∧ c ≠ 88
  | .list t => Plain t
  | .map k v => Plain k ∧ Plain v
  | .tuple ts => PlainList ts
  | .struct _ ms => PlainMembers ms
def PlainList : List Ty → Prop
  | [] => True
  | t :: r => Plain t ∧ PlainList r
def PlainMembers : List (Bytes × Ty) → Prop
  | [] => True
  | (_, t) :: r => Plain t ∧ PlainMembers r
end

/-- a signature the wire and the parser take: within the string limit, nested no deeper than `MaxDepth` -/
def SigFits (t : Ty) : Prop := (print t).length ≤ maxStringSize ∧ C09.nest t ≤ maxDepth

mutual
/-- `Typed t v`: `v` is a value of the (grammar) type `t`.  Counts fit 31 bits, strings the
    string limit; a dynamic value carries a grammar type other than `m` itself. -/
def Typed : Ty → TVal → Prop
  | .basic c, .num n => ∃ w, width c = some w ∧ n < 256 ^ w ∧ (c = 98 → n ≤ 1)
  | .basic c, .str b => c = 115 ∧ b.length ≤ maxStringSize
  | .basic c, .void => c = 118
  | .basic c, .dyn t v =>
      c = 109 ∧ C09.WF t ∧ Plain t ∧ t ≠ .basic 109 ∧ SigFits t ∧ Typed t v
  | .list t, .list xs =>
      xs.length < 2147483648 ∧ (zeroSize t = true → xs.length ≤ zeroLoopLimit) ∧ TypedList t xs
  | .map k v, .map kvs =>
      kvs.length < 2147483648 ∧ (zeroSize k = true → zeroSize v = true → kvs.length ≤ zeroLoopLimit) ∧
      TypedPairs k v kvs
  | .tuple ts, .tuple xs => TypedFields ts xs
  | .struct _ ms, .tuple xs => TypedMembers ms xs
  | _, _ => False
def TypedList : Ty → List TVal → Prop
  | _, [] => True
  | t, x :: r => Typed t x ∧ TypedList t r
def TypedPairs : Ty → Ty → List (TVal × TVal) → Prop
  | _, _, [] => True
  | k, v, (a, b) :: r => Typed k a ∧ Typed v b ∧ TypedPairs k v r
def TypedFields : List Ty → List TVal → Prop
  | [], [] => True
  | t :: ts, x :: xs => Typed t x ∧ TypedFields ts xs
  | _, _ => False
def TypedMembers : List (Bytes × Ty) → List TVal → Prop
  | [], [] => True
  | (_, t) :: ts, x :: xs => Typed t x ∧ TypedMembers ts xs
  | _, _ => False
end

/-! ### fuel: the stack depth a value needs -/

mutual
def vneed : TVal → Nat
  | .num _ => 1
  | .str _ => 1
  | .void => 1
  | .dyn _ v => vneed v + 2
  | .list xs => vneedL xs + 1
  | .map kvs => vneedP kvs + 1
  | .tuple xs => vneedL xs + 1
def vneedL : List TVal → Nat
  | [] => 1
  | x :: r => max (vneed x) (vneedL r) + 1
def vneedP : List (TVal × TVal) → Nat
  | [] => 1
  | (a, b) :: r => max (max (vneed a) (vneed b) + 3) (vneedP r) + 1
end

theorem vneed_pos (v : TVal) : 1 ≤ vneed v := by cases v <;> simp [vneed]

/-! ### values of zero-size types occupy no byte -/

mutual
theorem zeroSize_D : (v : TVal) → (t : Ty) → zeroSize t = true → Typed t v → D t v = []
  | .num n, t, hz, ht => by
    cases t <;> simp [Typed] at ht
    rename_i c
    obtain ⟨w, hw, _⟩ := ht
    simp [zeroSize] at hz; subst hz; simp [width] at hw
  | .str b, t, hz, ht => by
    cases t <;> simp [Typed] at ht
    obtain ⟨rfl, _⟩ := ht
    simp [zeroSize] at hz
  | .void, t, hz, ht => by cases t <;> simp [Typed] at ht; simp [D]
  | .dyn t' v, t, hz, ht => by
    cases t <;> simp [Typed] at ht
    obtain ⟨rfl, _⟩ := ht
    simp [zeroSize] at hz
  | .list xs, t, hz, ht => by cases t <;> simp [Typed] at ht; simp [zeroSize] at hz
  | .map kvs, t, hz, ht => by cases t <;> simp [Typed] at ht; simp [zeroSize] at hz
  | .tuple xs, t, hz, ht => by
    cases t with
    | tuple ts => simp only [Typed] at ht; simp only [zeroSize] at hz; simp only [D]; exact zeroSize_DFields xs ts hz ht
    | struct n ms => simp only [Typed] at ht; simp only [zeroSize] at hz; simp only [D]; exact zeroSize_DMembers xs ms hz ht
    | basic c => simp [Typed] at ht
    | list t => simp [Typed] at ht
    | map k v => simp [Typed] at ht
theorem zeroSize_DFields : (xs : List TVal) → (ts : List Ty) → zeroSizeList ts = true → TypedFields ts xs →
    DFields ts xs = []
  | [], ts, _, ht => by cases ts <;> simp [DFields]
  | x :: xs, ts, hz, ht => by
    cases ts with
    | nil => simp [TypedFields] at ht
    | cons t r =>
      simp only [TypedFields] at ht; simp only [zeroSizeList, Bool.and_eq_true] at hz
      simp [DFields, zeroSize_D x t hz.1 ht.1, zeroSize_DFields xs r hz.2 ht.2]
theorem zeroSize_DMembers : (xs : List TVal) → (ms : List (Bytes × Ty)) → zeroSizeMembers ms = true →
    TypedMembers ms xs → DMembers ms xs = []
  | [], ms, _, ht => by cases ms <;> simp [DMembers]
  | x :: xs, ms, hz, ht => by
    cases ms with
    | nil => simp [TypedMembers] at ht
    | cons m r =>
      obtain ⟨n, t⟩ := m
      simp only [TypedMembers] at ht; simp only [zeroSizeMembers, Bool.and_eq_true] at hz
      simp [DMembers, zeroSize_D x t hz.1 ht.1, zeroSize_DMembers xs r hz.2 ht.2]
end

theorem zeroSize_DList (t : Ty) (hz : zeroSize t = true) : (xs : List TVal) → TypedList t xs → DList t xs = []
  | [], _ => by simp [DList]
  | x :: r, ht => by
    simp only [TypedList] at ht
    simp [DList, zeroSize_D x t hz ht.1, zeroSize_DList t hz r ht.2]

theorem zeroSize_DPairs (k v : Ty) (hk : zeroSize k = true) (hv : zeroSize v = true) :
    (kvs : List (TVal × TVal)) → TypedPairs k v kvs → DPairs k v kvs = []
  | [], _ => by simp [DPairs]
  | (a, b) :: r, ht => by
    simp only [TypedPairs] at ht
    simp [DPairs, zeroSize_D a k hk ht.1, zeroSize_D b v hv ht.2.1, zeroSize_DPairs k v hk hv r ht.2.2]

/-! ### the signature-driven reader returns exactly the value's bytes -/

/-- what the reader does on the documented encoding of a typed value followed by anything -/
def RT (t : Ty) (v : TVal) : Prop :=
  ∀ f rest, vneed v ≤ f → readT f t (D t v ++ rest) = .ok (D t v, rest)

theorem readLE4_count (n : Nat) (rest : Bytes) (h : n < 2147483648) :
    readLE 4 (leN 4 n ++ rest) = .ok (n, rest) :=
  readLE_leN 4 n rest (by omega)

mutual
theorem rt : (v : TVal) → (t : Ty) → Typed t v → RT t v
  | .num n, t, ht => by
    cases t <;> simp [Typed] at ht
    rename_i c
    obtain ⟨w, hw, hn, _⟩ := ht
    intro f rest hf
    obtain ⟨k, rfl⟩ : ∃ k, f = k + 1 := ⟨f - 1, by simp [vneed] at hf; omega⟩
    simp [readT, D, hw, takeN_append w (leN w n) rest (leN_length w n)]
  | .str b, t, ht => by
    cases t <;> simp [Typed] at ht
    obtain ⟨rfl, hb⟩ := ht
    intro f rest hf
    obtain ⟨k, rfl⟩ : ∃ k, f = k + 1 := ⟨f - 1, by simp [vneed] at hf; omega⟩
    have := readString_write b rest hb
    rw [List.append_assoc] at this
    simp [readT, D, width, this]
  | .void, t, ht => by
    cases t <;> simp [Typed] at ht
    subst ht
    intro f rest hf
    obtain ⟨k, rfl⟩ : ∃ k, f = k + 1 := ⟨f - 1, by simp [vneed] at hf; omega⟩
    simp [readT, D, width]
  | .dyn t' v, t, ht => by
    cases t <;> simp [Typed] at ht
    obtain ⟨rfl, hwf, _, _, ⟨hlen, hnest⟩, htv⟩ := ht
    intro f rest hf
    obtain ⟨k, rfl⟩ : ∃ k, f = k + 1 := ⟨f - 1, by simp [vneed] at hf; omega⟩
    have hk : vneed v ≤ k := by simp [vneed] at hf; omega
    have hs := readString_write (print t') (D t' v ++ rest) hlen
    have hp := C09.print_parse t' hwf hnest
    have ih := rt v t' htv k rest hk
    simp only [D, List.append_assoc] at hs ⊢
    simp [readT, width, hs, hp, ih]
  | .list xs, t, ht => by
    cases t <;> simp [Typed] at ht
    rename_i et
    obtain ⟨hlen, hz, hxs⟩ := ht
    intro f rest hf
    obtain ⟨k, rfl⟩ : ∃ k, f = k + 1 := ⟨f - 1, by simp [vneed] at hf; omega⟩
    have hk : vneedL xs ≤ k := by simp [vneed] at hf; omega
    simp only [D, List.append_assoc, readT, readLE4_count xs.length _ hlen]
    by_cases hzs : zeroSize et = true
    · have := hz hzs
      simp [hzs, zeroSize_DList et hzs xs hxs, show ¬ xs.length > zeroLoopLimit by omega]
    · simp [hzs, rtList xs et hxs k rest hk]
  | .map kvs, t, ht => by
    cases t <;> simp [Typed] at ht
    rename_i kt vt
    obtain ⟨hlen, hz, hxs⟩ := ht
    intro f rest hf
    obtain ⟨k, rfl⟩ : ∃ k, f = k + 1 := ⟨f - 1, by simp [vneed] at hf; omega⟩
    have hk : vneedP kvs ≤ k := by simp [vneed] at hf; omega
    simp only [D, List.append_assoc, readT, readLE4_count kvs.length _ hlen]
    by_cases hzs : (zeroSize kt && zeroSize vt) = true
    · simp only [Bool.and_eq_true] at hzs
      have := hz hzs.1 hzs.2
      simp [hzs.1, hzs.2, zeroSize_DPairs kt vt hzs.1 hzs.2 kvs hxs, show ¬ kvs.length > zeroLoopLimit by omega]
    · simp [hzs, rtPairs kvs kt vt hxs k rest hk]
  | .tuple xs, t, ht => by
    intro f rest hf
    obtain ⟨k, rfl⟩ : ∃ k, f = k + 1 := ⟨f - 1, by simp [vneed] at hf; omega⟩
    have hk : vneedL xs ≤ k := by simp [vneed] at hf; omega
    cases t with
    | tuple ts => simp only [Typed] at ht; simp only [D, readT]; exact rtFields xs ts ht k rest hk
    | struct n ms => simp only [Typed] at ht; simp only [D, readT]; exact rtMembers xs ms ht k rest hk
    | basic c => simp [Typed] at ht
    | list t => simp [Typed] at ht
    | map k v => simp [Typed] at ht
theorem rtList : (xs : List TVal) → (t : Ty) → TypedList t xs → ∀ f rest, vneedL xs ≤ f →
    readMany f t xs.length (DList t xs ++ rest) = .ok (DList t xs, rest)
  | [], t, _ => by
    intro f rest hf
    obtain ⟨k, rfl⟩ : ∃ k, f = k + 1 := ⟨f - 1, by simp [vneedL] at hf; omega⟩
    simp [readMany, DList]
  | x :: r, t, ht => by
    intro f rest hf
    obtain ⟨k, rfl⟩ : ∃ k, f = k + 1 := ⟨f - 1, by simp [vneedL] at hf; omega⟩
    simp only [TypedList] at ht
    have h1 : vneed x ≤ k := by simp [vneedL] at hf; omega
    have h2 : vneedL r ≤ k := by simp [vneedL] at hf; omega
    have e1 := rt x t ht.1 k (DList t r ++ rest) h1
    have e2 := rtList r t ht.2 k rest h2
    simp only [List.length_cons, readMany, DList, List.append_assoc, e1, e2]
theorem rtPairs : (kvs : List (TVal × TVal)) → (k v : Ty) → TypedPairs k v kvs → ∀ f rest, vneedP kvs ≤ f →
    readMany f (.tuple [k, v]) kvs.length (DPairs k v kvs ++ rest) = .ok (DPairs k v kvs, rest)
  | [], k, v, _ => by
    intro f rest hf
    obtain ⟨j, rfl⟩ : ∃ j, f = j + 1 := ⟨f - 1, by simp [vneedP] at hf; omega⟩
    simp [readMany, DPairs]
  | (a, b) :: r, k, v, ht => by
    intro f rest hf
    obtain ⟨j, rfl⟩ : ∃ j, f = j + 5 := ⟨f - 5, by simp [vneedP] at hf; have := vneed_pos a; omega⟩
    simp only [TypedPairs] at ht
    have h1 : vneed a ≤ j + 2 := by simp [vneedP] at hf; omega
    have h2 : vneed b ≤ j + 1 := by simp [vneedP] at hf; omega
    have h3 : vneedP r ≤ j + 4 := by simp [vneedP] at hf; omega
    have e1 := rt a k ht.1 (j + 2) (D v b ++ (DPairs k v r ++ rest)) h1
    have e2 := rt b v ht.2.1 (j + 1) (DPairs k v r ++ rest) h2
    have e3 := rtPairs r k v ht.2.2 (j + 4) rest h3
    simp only [List.length_cons, readMany, readT, readFields, DPairs, List.append_assoc, e1, e2, e3]
    simp
theorem rtFields : (xs : List TVal) → (ts : List Ty) → TypedFields ts xs → ∀ f rest, vneedL xs ≤ f →
    readFields f ts (DFields ts xs ++ rest) = .ok (DFields ts xs, rest)
  | [], ts, ht => by
    intro f rest hf
    obtain ⟨k, rfl⟩ : ∃ k, f = k + 1 := ⟨f - 1, by simp [vneedL] at hf; omega⟩
    cases ts with
    | nil => simp [readFields, DFields]
    | cons t r => simp [TypedFields] at ht
  | x :: r, ts, ht => by
    intro f rest hf
    obtain ⟨k, rfl⟩ : ∃ k, f = k + 1 := ⟨f - 1, by simp [vneedL] at hf; omega⟩
    cases ts with
    | nil => simp [TypedFields] at ht
    | cons t tr =>
      simp only [TypedFields] at ht
      have h1 : vneed x ≤ k := by simp [vneedL] at hf; omega
      have h2 : vneedL r ≤ k := by simp [vneedL] at hf; omega
      have e1 := rt x t ht.1 k (DFields tr r ++ rest) h1
      have e2 := rtFields r tr ht.2 k rest h2
      simp only [readFields, DFields, List.append_assoc, e1, e2]
theorem rtMembers : (xs : List TVal) → (ms : List (Bytes × Ty)) → TypedMembers ms xs → ∀ f rest, vneedL xs ≤ f →
    readMembers f ms (DMembers ms xs ++ rest) = .ok (DMembers ms xs, rest)
  | [], ms, ht => by
    intro f rest hf
    obtain ⟨k, rfl⟩ : ∃ k, f = k + 1 := ⟨f - 1, by simp [vneedL] at hf; omega⟩
    cases ms with
    | nil => simp [readMembers, DMembers]
    | cons t r => obtain ⟨n, t⟩ := t; simp [TypedMembers] at ht
  | x :: r, ms, ht => by
    intro f rest hf
    obtain ⟨k, rfl⟩ : ∃ k, f = k + 1 := ⟨f - 1, by simp [vneedL] at hf; omega⟩
    cases ms with
    | nil => simp [TypedMembers] at ht
    | cons m tr =>
      obtain ⟨n, t⟩ := m
      simp only [TypedMembers] at ht
      have h1 : vneed x ≤ k := by simp [vneedL] at hf; omega
      have h2 : vneedL r ≤ k := by simp [vneedL] at hf; omega
      have e1 := rt x t ht.1 k (DMembers tr r ++ rest) h1
      have e2 := rtMembers r tr ht.2 k rest h2
      simp only [readMembers, DMembers, List.append_assoc, e1, e2]
end

/-! ### the reflection encoder with a complete kind table writes the documented layout -/

theorem kind_scalar (c : UInt8) (w : Nat) (h : width c = some w) : codecKinds.contains (kindOf c) = true := by
  have : c = 99 ∨ c = 67 ∨ c = 98 ∨ c = 119 ∨ c = 87 ∨ c = 105 ∨ c = 73 ∨ c = 102 ∨ c = 108 ∨ c = 76 ∨ c = 100 := by
    unfold width at h
    split at h <;> simp_all
  rcases this with h | h | h | h | h | h | h | h | h | h | h <;> subst h <;> decide

theorem kind_slice : codecKinds.contains "Slice" = true := by decide
theorem kind_map : codecKinds.contains "Map" = true := by decide
theorem kind_struct : codecKinds.contains "Struct" = true := by decide
theorem kind_string : codecKinds.contains (kindOf 115) = true := by decide
theorem kind_iface : codecKinds.contains (kindOf 109) = true := by decide

mutual
theorem encR_eq_D : (v : TVal) → (t : Ty) → Typed t v → encR codecKinds t v = D t v
  | .num n, t, ht => by
    cases t <;> simp [Typed] at ht
    rename_i c
    obtain ⟨w, hw, _⟩ := ht
    simp only [encR, D, hw]; rw [if_pos (kind_scalar c w hw)]
  | .str b, t, ht => by
    cases t <;> simp [Typed] at ht
    obtain ⟨rfl, _⟩ := ht
    simp only [encR, D]; rw [if_pos kind_string]
  | .void, t, ht => by cases t <;> simp [Typed] at ht; simp [encR, D]
  | .dyn t' v, t, ht => by
    cases t <;> simp [Typed] at ht
    obtain ⟨rfl, _⟩ := ht
    simp only [encR, D]; rw [if_pos kind_iface]
  | .list xs, t, ht => by
    cases t <;> simp [Typed] at ht
    simp only [encR, D]; rw [if_pos kind_slice, encRList_eq xs _ ht.2.2]
  | .map kvs, t, ht => by
    cases t <;> simp [Typed] at ht
    simp only [encR, D]; rw [if_pos kind_map, encRPairs_eq kvs _ _ ht.2.2]
  | .tuple xs, t, ht => by
    cases t with
    | tuple ts => simp only [Typed] at ht; simp only [encR, D]; rw [if_pos kind_struct, encRFields_eq xs ts ht]
    | struct n ms => simp only [Typed] at ht; simp only [encR, D]; rw [if_pos kind_struct, encRMembers_eq xs ms ht]
    | basic c => simp [Typed] at ht
    | list t => simp [Typed] at ht
    | map k v => simp [Typed] at ht
theorem encRList_eq : (xs : List TVal) → (t : Ty) → TypedList t xs → encRList codecKinds t xs = DList t xs
  | [], _, _ => by simp [encRList, DList]
  | x :: r, t, ht => by
    simp only [TypedList] at ht
    simp [encRList, DList, encR_eq_D x t ht.1, encRList_eq r t ht.2]
theorem encRPairs_eq : (kvs : List (TVal × TVal)) → (k v : Ty) → TypedPairs k v kvs →
    encRPairs codecKinds k v kvs = DPairs k v kvs
  | [], _, _, _ => by simp [encRPairs, DPairs]
  | (a, b) :: r, k, v, ht => by
    simp only [TypedPairs] at ht
    simp [encRPairs, DPairs, encR_eq_D a k ht.1, encR_eq_D b v ht.2.1, encRPairs_eq r k v ht.2.2]
theorem encRFields_eq : (xs : List TVal) → (ts : List Ty) → TypedFields ts xs →
    encRFields codecKinds ts xs = DFields ts xs
  | [], ts, ht => by cases ts <;> simp [encRFields, DFields]
  | x :: r, ts, ht => by
    cases ts with
    | nil => simp [TypedFields] at ht
    | cons t tr =>
      simp only [TypedFields] at ht
      simp [encRFields, DFields, encR_eq_D x t ht.1, encRFields_eq r tr ht.2]
theorem encRMembers_eq : (xs : List TVal) → (ms : List (Bytes × Ty)) → TypedMembers ms xs →
    encRMembers codecKinds ms xs = DMembers ms xs
  | [], ms, ht => by cases ms <;> simp [encRMembers, DMembers]
  | x :: r, ms, ht => by
    cases ms with
    | nil => simp [TypedMembers] at ht
    | cons m tr =>
      obtain ⟨n, t⟩ := m
      simp only [TypedMembers] at ht
      simp [encRMembers, DMembers, encR_eq_D x t ht.1, encRMembers_eq r tr ht.2]
end

end QiVerif.CodecL
