/-
  Round trip of dynamic values (type/value/value.go): every value built from the
  constructors, nested to any depth, and every opaque value of a grammar
  signature with well-typed data.
-/
import QiVerif.Lemmas.Codec
set_option linter.unusedSimpArgs false
set_option linter.unusedVariables false
namespace QiVerif.ValueL
open QiVerif QiVerif.Sig QiVerif.Codec QiVerif.Value QiVerif.Decode QiVerif.CodecL

/-- source values: like `Val`, but an opaque value remembers the type and the typed datum it
    was built from -/
inductive SVal where
  | scalar (c : UInt8) (n : Nat)
  | str (b : Bytes)
  | raw (b : Bytes)
  | void
  | list (xs : List SVal)
  | opq (t : Ty) (v : TVal)

mutual
def toVal : SVal → Val
  | .scalar c n => .scalar c n
  | .str b => .str b
  | .raw b => .raw b
  | .void => .void
  | .list xs => .list (toVals xs)
  | .opq t v => .opaque (print t) (D t v)
def toVals : List SVal → List Val
  | [] => []
  | x :: r => toVal x :: toVals r
end

/-- signatures that `NewValue` dispatches on itself (they never reach `newOpaque`) -/
def IsTableKey (sig : Bytes) : Prop :=
  (∃ c, sig = [c] ∧ (c ∈ tableScalars ∨ c = 115 ∨ c = 114 ∨ c = 118 ∨ c = 109)) ∨ sig = [91, 109, 93]

mutual
/-- well-formed source values -/
def WFS : SVal → Prop
  | .scalar c n => c ∈ tableScalars ∧ ∃ w, width c = some w ∧ n < 256 ^ w ∧ (c = 98 → n ≤ 1)
  | .str b => b.length ≤ maxStringSize
  | .raw b => b.length ≤ rawValueMaxSize
  | .void => True
  | .list xs => xs.length ≤ listValueMaxSize ∧ WFSList xs
  | .opq t v => C09.WF t ∧ Plain t ∧ Typed t v ∧ ¬ IsTableKey (print t) ∧ SigFits t
def WFSList : List SVal → Prop
  | [] => True
  | x :: r => WFS x ∧ WFSList r
end

mutual
def sneed : SVal → Nat
  | .scalar _ _ => 1
  | .str _ => 1
  | .raw _ => 1
  | .void => 1
  | .list xs => sneedL xs + 1
  | .opq _ v => vneed v + 1
def sneedL : List SVal → Nat
  | [] => 1
  | x :: r => max (sneed x) (sneedL r) + 1
end

theorem writeString_eq (b : Bytes) : Value.writeString b = leN 4 b.length ++ b := rfl

theorem readString_ws (b rest : Bytes) (h : b.length ≤ maxStringSize) :
    readString (Value.writeString b ++ rest) = .ok (b, rest) := by
  rw [writeString_eq]; exact readString_write b rest h

theorem plain_not_o (t : Ty) (h : Plain t) : print t ≠ [111] := by
  cases t with
  | basic c => simp [Plain] at h; simp [print]; exact h.1
  | list t => simp [print]
  | map k v => simp [print]
  | tuple ts => simp [print]
  | struct n ms => rw [C09.print_struct]; simp

/-- `newOpaque` on the encoding of a typed datum -/
theorem readOpaque_ok (t : Ty) (v : TVal) (hwf : C09.WF t) (hp : Plain t) (ht : Typed t v) (hd : C09.nest t ≤ maxDepth) (f : Nat)
    (hf : vneed v ≤ f) (rest : Bytes) :
    readOpaque f (print t) (D t v ++ rest) = .ok (.opaque (print t) (D t v), rest) := by
  have hno : (print t == [111]) = false := by
    have := plain_not_o t hp
    simpa using this
  simp [readOpaque, hno, C09.print_parse t hwf hd, rt v t ht f rest hf]

mutual
/-- **Round trip.** `NewValue` on the encoding of a well-formed value followed by anything
    returns the value and leaves exactly what followed. -/
theorem val_rt : (s : SVal) → WFS s → ∀ f rest, sneed s ≤ f →
    readVal f (writeVal (toVal s) ++ rest) = .ok (toVal s, rest)
  | .scalar c n, h => by
    intro f rest hf
    obtain ⟨k, rfl⟩ : ∃ k, f = k + 1 := ⟨f - 1, by simp [sneed] at hf; omega⟩
    obtain ⟨hc, w, hw, hn, hb⟩ := h
    have hs := readString_ws [c] (leN w n ++ rest) (by simp [maxStringSize])
    have hcon : tableScalars.contains c = true := by simpa using hc
    simp only [toVal, writeVal, hw, List.append_assoc, readVal, hs, hcon, if_true, readLE_leN w n rest hn]
    by_cases h98 : c = 98
    · subst h98
      have := hb rfl
      have : n = 0 ∨ n = 1 := by omega
      rcases this with rfl | rfl <;> simp
    · have : (c == 98) = false := by simpa using h98
      simp [this]
  | .str b, h => by
    intro f rest hf
    obtain ⟨k, rfl⟩ : ∃ k, f = k + 1 := ⟨f - 1, by simp [sneed] at hf; omega⟩
    have hs := readString_ws [115] (Value.writeString b ++ rest) (by simp [maxStringSize])
    have hs2 := readString_ws b rest h
    simp [toVal, writeVal, readVal, hs, tableScalars, hs2]
  | .raw b, h => by
    intro f rest hf
    obtain ⟨k, rfl⟩ : ∃ k, f = k + 1 := ⟨f - 1, by simp [sneed] at hf; omega⟩
    have hs := readString_ws [114] (leN 4 b.length ++ b ++ rest) (by simp [maxStringSize])
    have hl : b.length < 256 ^ 4 := by simp only [WFS, rawValueMaxSize] at h; omega
    have hlim : ¬ b.length > rawValueMaxSize := by simp only [WFS] at h; omega
    simp only [List.append_assoc] at hs
    simp [toVal, writeVal, readVal, hs, tableScalars, readLE_leN 4 b.length (b ++ rest) hl, hlim, takeN_ok_app]
  | .void, h => by
    intro f rest hf
    obtain ⟨k, rfl⟩ : ∃ k, f = k + 1 := ⟨f - 1, by simp [sneed] at hf; omega⟩
    have hs := readString_ws [118] rest (by simp [maxStringSize])
    simp [toVal, writeVal, readVal, hs, tableScalars]
  | .list xs, h => by
    intro f rest hf
    obtain ⟨k, rfl⟩ : ∃ k, f = k + 1 := ⟨f - 1, by simp [sneed] at hf; omega⟩
    obtain ⟨hlen, hxs⟩ := h
    have hk : sneedL xs ≤ k := by simp [sneed] at hf; omega
    have hlen' : (toVals xs).length = xs.length := by
      clear hk hxs hlen hf
      induction xs with
      | nil => rfl
      | cons x r ih => simp [toVals, ih]
    have hs := readString_ws [91, 109, 93] (leN 4 xs.length ++ (writeVals (toVals xs) ++ rest)) (by simp [maxStringSize])
    have hl : xs.length < 256 ^ 4 := by unfold listValueMaxSize at hlen; omega
    have hlim : ¬ xs.length > listValueMaxSize := by omega
    have ih := vals_rt xs hxs k rest hk
    simp only [toVal, writeVal, hlen', List.append_assoc, readVal, hs,
      readLE_leN 4 xs.length (writeVals (toVals xs) ++ rest) hl, hlim, if_false, ih]
  | .opq t v, h => by
    intro f rest hf
    obtain ⟨k, rfl⟩ : ∃ k, f = k + 1 := ⟨f - 1, by simp [sneed] at hf; omega⟩
    obtain ⟨hwf, hp, ht, hkey, hlen⟩ := h
    have hk : vneed v ≤ k := by simp [sneed] at hf; omega
    have hs := readString_ws (print t) (D t v ++ rest) hlen.1
    have ho := readOpaque_ok t v hwf hp ht hlen.2 k hk rest
    simp only [toVal, writeVal, List.append_assoc, readVal, hs]
    -- the signature is not one of the table's keys: every branch ends in `readOpaque`
    split
    · rename_i c hc
      have hnk : ¬ (c ∈ tableScalars ∨ c = 115 ∨ c = 114 ∨ c = 118 ∨ c = 109) :=
        fun hx => hkey (Or.inl ⟨c, hc, hx⟩)
      simp only [not_or] at hnk
      obtain ⟨h1, h2, h3, h4, h5⟩ := hnk
      have e1 : tableScalars.contains c = false := by simpa using h1
      simp [e1, h1, h2, h3, h4, h5, ← hc, ho]
    · rename_i hc
      exact absurd (Or.inr hc) hkey
    · exact ho
theorem vals_rt : (xs : List SVal) → WFSList xs → ∀ f rest, sneedL xs ≤ f →
    readVals f xs.length (writeVals (toVals xs) ++ rest) = .ok (toVals xs, rest)
  | [], _ => by
    intro f rest hf
    obtain ⟨k, rfl⟩ : ∃ k, f = k + 1 := ⟨f - 1, by simp [sneedL] at hf; omega⟩
    simp [readVals, toVals, writeVals]
  | x :: r, h => by
    intro f rest hf
    obtain ⟨k, rfl⟩ : ∃ k, f = k + 1 := ⟨f - 1, by simp [sneedL] at hf; omega⟩
    have h1 : sneed x ≤ k := by simp [sneedL] at hf; omega
    have h2 : sneedL r ≤ k := by simp [sneedL] at hf; omega
    have e1 := val_rt x h.1 k (writeVals (toVals r) ++ rest) h1
    have e2 := vals_rt r h.2 k rest h2
    simp only [List.length_cons, toVals, writeVals, List.append_assoc, readVals, e1, e2]
end

/-! ### the dynamic value a typed datum of type `t` becomes when it travels as `m` -/

mutual
/-- lists and maps no longer than the reflection decoder / `ListValue` limit, at every depth -/
def Small : TVal → Prop
  | .list xs => xs.length ≤ listValueMaxSize ∧ SmallList xs
  | .map kvs => kvs.length ≤ listValueMaxSize ∧ SmallPairs kvs
  | .tuple xs => SmallList xs
  | .dyn _ v => Small v
  | _ => True
def SmallList : List TVal → Prop
  | [] => True
  | x :: r => Small x ∧ SmallList r
def SmallPairs : List (TVal × TVal) → Prop
  | [] => True
  | (a, b) :: r => Small a ∧ Small b ∧ SmallPairs r
end

def isValTy : Ty → Bool
  | .basic c => c == 109
  | _ => false

theorem isValTy_iff (t : Ty) : isValTy t = true ↔ t = .basic 109 := by
  cases t <;> simp [isValTy]

mutual
/-- which `Value` `NewValue` builds for a datum of type `t` (t is not `m` itself) -/
def sOf : Ty → TVal → SVal
  | .basic c, .num n => if tableScalars.contains c then .scalar c n else .opq (.basic c) (.num n)
  | .basic _, .str b => .str b
  | .basic _, .void => .void
  | .list et, .list xs => if isValTy et then .list (sOfDyns xs) else .opq (.list et) (.list xs)
  | t, v => .opq t v
/-- the elements of a `[m]` list are dynamic values themselves -/
def sOfDyns : List TVal → List SVal
  | [] => []
  | .dyn t v :: r => sOf t v :: sOfDyns r
  | x :: r => .opq (.basic 109) x :: sOfDyns r     -- ill-typed; never reached for typed lists
end

theorem print_composite_not_key (t : Ty) (h : ∀ c, t ≠ .basic c) (h2 : t ≠ .list (.basic 109)) (hwf : C09.WF t) :
    ¬ IsTableKey (print t) := by
  intro hk
  rcases hk with ⟨c, hc, _⟩ | hk
  · cases t with
    | basic c' => exact h c' rfl
    | list t' =>
      have hl := congrArg List.length hc
      have := C09.print_len_pos t'
      simp [print] at hl
    | map k v =>
      have hl := congrArg List.length hc
      have := C09.print_len_pos k
      simp [print] at hl
    | tuple ts => have := congrArg List.length hc; simp [print] at this
    | struct n ms => rw [C09.print_struct] at hc; have := congrArg List.length hc; simp at this
  · cases t with
    | basic c' => exact h c' rfl
    | list t' =>
      simp only [print, List.cons_append, List.nil_append, List.cons.injEq, true_and] at hk
      -- print t' ++ [93] = [109, 93]
      have hl := congrArg List.length hk
      simp at hl
      have hp : (print t').length = 1 := by omega
      cases t' with
      | basic c' =>
        simp [print] at hk
        subst hk; exact h2 rfl
      | list x => have := C09.print_len_pos x; simp [print] at hp
      | map a b => have := C09.print_len_pos a; simp [print] at hp
      | tuple ts => simp [print] at hp
      | struct n ms => rw [C09.print_struct] at hp; simp at hp
    | map k v => simp [print] at hk
    | tuple ts => simp [print] at hk
    | struct n ms => rw [C09.print_struct] at hk; simp at hk

/-- everything `Typed` says about a dynamic value, as one proposition -/
def DynOK (t : Ty) (v : TVal) : Prop :=
  C09.WF t ∧ Plain t ∧ t ≠ .basic 109 ∧ SigFits t ∧ Typed t v

theorem typed_dyn (c : UInt8) (t : Ty) (v : TVal) (h : Typed (.basic c) (.dyn t v)) : c = 109 ∧ DynOK t v := by
  simp only [Typed] at h
  exact ⟨h.1, h.2.1, h.2.2.1, h.2.2.2.1, h.2.2.2.2.1, h.2.2.2.2.2⟩

theorem basic_key_cases (c : UInt8) (hwf : C09.WF (.basic c)) (hp : Plain (.basic c)) (hm : c ≠ 109) :
    tableScalars.contains c = true ∨ c = 115 ∨ c = 118 ∨ c = 100 := by
  simp only [C09.WF, basicLetters, List.mem_cons, List.mem_nil_iff, or_false] at hwf
  simp only [Plain] at hp
  rcases hwf with h | h | h | h | h | h | h | h | h | h | h | h | h | h | h | h <;> subst h <;> simp_all [tableScalars]

mutual
theorem sOf_props : (v : TVal) → (t : Ty) → DynOK t v → Small v →
    WFS (sOf t v) ∧ writeVal (toVal (sOf t v)) = Value.writeString (print t) ++ D t v ∧ sneed (sOf t v) ≤ vneed v + 1
  | .num n, t, h, hs => by
    obtain ⟨hwf, hp, hm, hlen, ht⟩ := h
    cases t <;> simp [Typed] at ht
    rename_i c
    obtain ⟨w, hw, hn, hb⟩ := ht
    by_cases hc : tableScalars.contains c = true
    · simp only [sOf, hc, if_true]
      refine ⟨⟨by simpa using hc, w, hw, hn, hb⟩, by simp [toVal, writeVal, print, D, hw], by simp [sneed, vneed]⟩
    · have hcf : tableScalars.contains c = false := by simpa using hc
      simp only [sOf, hcf]
      refine ⟨⟨hwf, hp, by simp [Typed]; exact ⟨w, hw, hn, hb⟩, ?_, hlen⟩, by simp [toVal, writeVal], by simp [sneed, vneed]⟩
      intro hk
      rcases hk with ⟨c', hc', hx⟩ | hk
      · simp [print] at hc'; subst hc'
        rcases hx with hx | hx | hx | hx | hx
        · simp [hx] at hcf
        · subst hx; simp [width] at hw
        · subst hx; simp [width] at hw
        · subst hx; simp [width] at hw
        · subst hx; simp [width] at hw
      · simp [print] at hk
  | .str b, t, h, hs => by
    obtain ⟨hwf, hp, hm, hlen, ht⟩ := h
    cases t <;> simp [Typed] at ht
    obtain ⟨rfl, hb⟩ := ht
    exact ⟨hb, by simp [sOf, toVal, writeVal, print, D, Value.writeString], by simp [sOf, sneed, vneed]⟩
  | .void, t, h, hs => by
    obtain ⟨hwf, hp, hm, hlen, ht⟩ := h
    cases t <;> simp [Typed] at ht
    subst ht
    exact ⟨trivial, by simp [sOf, toVal, writeVal, print, D], by simp [sOf, sneed, vneed]⟩
  | .dyn t' v', t, h, hs => by
    obtain ⟨hwf, hp, hm, hlen, ht⟩ := h
    cases t <;> simp [Typed] at ht
    exact absurd (by rw [ht.1]) hm
  | .list xs, t, h, hs => by
    obtain ⟨hwf, hp, hm, hlen, ht⟩ := h
    cases t with
    | list et =>
      by_cases he : et = .basic 109
      · subst he
        have hiv : isValTy (.basic 109) = true := by simp [isValTy]
        simp only [Typed] at ht
        simp only [Small] at hs
        have ih := sOfDyns_props xs ht.2.2 hs.2
        have hlen' : (sOfDyns xs).length = xs.length := ih.2.2.2
        simp only [sOf, hiv, if_true]
        refine ⟨⟨by rw [hlen']; exact hs.1, ih.1⟩, ?_, ?_⟩
        · have hl2 : (toVals (sOfDyns xs)).length = xs.length := by
            rw [← hlen']
            generalize sOfDyns xs = l
            induction l with
            | nil => rfl
            | cons x r ih => simp [toVals, ih]
          simp [sOf, hiv, toVal, writeVal, print, D, Value.writeString, hl2, ih.2.1]
        · have := ih.2.2.1
          simp [sOf, hiv, sneed, vneed]; omega
      · have hne : ∀ c, Ty.list et ≠ .basic c := by intro c h; cases h
        have hnk := print_composite_not_key (.list et) hne (by intro h; injection h with h; exact he h) hwf
        have hiv : isValTy et = false := by
          cases hq : isValTy et with
          | false => rfl
          | true => exact absurd ((isValTy_iff et).mp hq) he
        have e : sOf (.list et) (.list xs) = .opq (.list et) (.list xs) := by simp [sOf, hiv]
        rw [e]
        exact ⟨⟨hwf, hp, ht, hnk, hlen⟩, by simp [toVal, writeVal], by simp [sneed]⟩
    | basic c => simp [Typed] at ht
    | map k v => simp [Typed] at ht
    | tuple ts => simp [Typed] at ht
    | struct n ms => simp [Typed] at ht
  | .map kvs, t, h, hs => by
    obtain ⟨hwf, hp, hm, hlen, ht⟩ := h
    cases t with
    | map k v =>
      have hnk := print_composite_not_key (.map k v) (by intro c h; cases h) (by intro h; cases h) hwf
      exact ⟨⟨hwf, hp, ht, hnk, hlen⟩, by simp [sOf, toVal, writeVal], by simp [sOf, sneed]⟩
    | basic c => simp [Typed] at ht
    | list t => simp [Typed] at ht
    | tuple ts => simp [Typed] at ht
    | struct n ms => simp [Typed] at ht
  | .tuple xs, t, h, hs => by
    obtain ⟨hwf, hp, hm, hlen, ht⟩ := h
    cases t with
    | tuple ts =>
      have hnk := print_composite_not_key (.tuple ts) (by intro c h; cases h) (by intro h; cases h) hwf
      exact ⟨⟨hwf, hp, ht, hnk, hlen⟩, by simp [sOf, toVal, writeVal], by simp [sOf, sneed]⟩
    | struct n ms =>
      have hnk := print_composite_not_key (.struct n ms) (by intro c h; cases h) (by intro h; cases h) hwf
      exact ⟨⟨hwf, hp, ht, hnk, hlen⟩, by simp [sOf, toVal, writeVal], by simp [sOf, sneed]⟩
    | basic c => simp [Typed] at ht
    | list t => simp [Typed] at ht
    | map k v => simp [Typed] at ht
theorem sOfDyns_props : (xs : List TVal) → TypedList (.basic 109) xs → SmallList xs →
    WFSList (sOfDyns xs) ∧ writeVals (toVals (sOfDyns xs)) = DList (.basic 109) xs ∧
    sneedL (sOfDyns xs) ≤ vneedL xs ∧ (sOfDyns xs).length = xs.length
  | [], _, _ => by simp [sOfDyns, WFSList, toVals, writeVals, DList, sneedL, vneedL]
  | x :: r, ht, hs => by
    simp only [TypedList] at ht
    simp only [SmallList] at hs
    cases x with
    | dyn t v =>
      obtain ⟨_, hd⟩ := typed_dyn 109 t v ht.1
      have hsv : Small v := by simpa [Small] using hs.1
      have i1 := sOf_props v t hd hsv
      have i2 := sOfDyns_props r ht.2 hs.2
      refine ⟨⟨i1.1, i2.1⟩, ?_, ?_, by simp [sOfDyns, i2.2.2.2]⟩
      · simp [sOfDyns, toVals, writeVals, DList, D, i1.2.1, i2.2.1, Value.writeString]
      · have := i1.2.2; have := i2.2.2.1
        simp [sOfDyns, sneedL, vneedL, vneed]; omega
    | num n => simp [Typed, width] at ht
    | str b => simp [Typed] at ht
    | void => simp [Typed] at ht
    | list l => simp [Typed] at ht
    | map l => simp [Typed] at ht
    | tuple l => simp [Typed] at ht
end

/-- `NewValue` on a dynamic value as it appears inside typed data (`m`): it consumes exactly
    the value and what it returns re-encodes to the same bytes -/
theorem dyn_read (t : Ty) (v : TVal) (h : DynOK t v) (hs : Small v) (f : Nat) (hf : vneed v + 1 ≤ f) (rest : Bytes) :
    ∃ val, readVal f (D (.basic 109) (.dyn t v) ++ rest) = .ok (val, rest) ∧
      writeVal val = D (.basic 109) (.dyn t v) := by
  obtain ⟨hw, he, hn⟩ := sOf_props v t h hs
  refine ⟨toVal (sOf t v), ?_, ?_⟩
  · have := val_rt (sOf t v) hw f rest (by omega)
    rw [he] at this
    simpa [D, Value.writeString] using this
  · rw [he]; simp [D, Value.writeString]

end QiVerif.ValueL
